"""C10 - unused-name diagnostics (W01/W02) follow the exemption rules exactly.

Decided by: Coq theorems C10_* (Props/C10.v) on Model/Lint.v (report loop + usage loop of linter.py,
REF = the rule of the property text) +
(I)  the real `lint` run on generated modules / real files, its W01/W02 entries compared INSIDE Coq with
     `report` / `lint_unused` applied to binding records extracted by an independent syntactic pass over
     `ast` (no supp object is read for this);
REF twin: `rule_py`, a purely syntactic implementation of the rule, cross-checked against the Coq `rule`
     on the same cases and used as the direct evaluator (lint's W01/W02 multiset on never-read
     identifiers == rule multiset; own name/kind/position; no duplicates; nothing else).
"""
import ast
import json
import os
import re
import signal

from common import VERIF, coq_list, coq_N, coq_bool, coq_option, stdlib_files

LEVEL = 'proof'
ASSUMPTIONS = [
    'no_locals_call, per scope: the theorems assume no read of the identifier `locals` IN THE BINDING\'S OWN SCOPE (locals() marks the plain names of the calling scope, linter.py:62-65); bindings of a scope that calls locals() get only "nothing else is reported", every other binding of the file is judged by the rule in full',
    'scope_attr_ok: the `scope` attribute of a plain name object is the scope owning its binding (Flow.add_name) and MultiName/RuntimeName have none; hypothesis of the link lemma, exercised by modules with a locals() call next to multi-path bindings of other scopes',
    'rows are keyed by identifier (row_keyed): every name object marked by use_name for a read of x is named x; checked on every run by recording use_name calls, proved nowhere (it is a fact about scope.py Flow.names/MergedDict)',
    'the binding records (kind, owner scope kind, parent scope kind, global-declared, position) come from the harness\'s own syntactic pass over CPython\'s ast; CPython 3.12 parser positions are trusted on ASCII lines',
    'a method is a def/lambda whose enclosing scope (comprehensions do not count) is a class; comprehension variables belong to the enclosing def/lambda/class/module; "from __future__" means ImportedName.module == "__future__"',
    'out of the fragment (not bindings in supp at all, not claimed): match-statement captures, `except*` names, PEP 695 type parameters, augmented assignment',
    'open finding K3-C10: an import statement at module/class level whose identifier is declared `global` in that same scope is never reported, and an import placed before the `global` declaration of its name in a function is reported W01; theorem C10_partial excludes both (in_domain), C10_full_refuted / C10_full_refuted_late_global exhibit them',
]

KINDS = {'assign': 'KAssign', 'walrus': 'KWalrus', 'param': 'KParam', 'for': 'KFor', 'with': 'KWith',
         'except': 'KExcept', 'comp': 'KComp', 'def': 'KDef', 'class': 'KClass', 'import': 'KImport',
         'dotted': 'KDotted', 'from': 'KFromImport', 'star': 'KStar'}
SKINDS = {'module': 'SModule', 'class': 'SClass', 'function': 'SFunction', 'lambda': 'SLambda'}
IMPORT_KINDS = ('import', 'dotted', 'from', 'star')
FINDING_ID = 'K3-C10'
K3_INPUT = 'global os\nimport os\n'
# characters that str.splitlines() treats as line boundaries while ast / tokenize do not
ODD_NEWLINES = '\x0b\x0c\x1c\x1d\x1e\x85\u2028\u2029'


# ------------------------------------------------------------------------------------------------
# A. independent syntactic pass: binding records and read identifiers from the ast
# ------------------------------------------------------------------------------------------------

class _Scope(object):
    _n = 0

    def __init__(self, kind, parent):
        self.kind = kind
        self.parent = parent
        self.id = 0                   # set by SyntaxPass.new_scope
        self.globals = set()          # declared `global` anywhere in the scope (Python's meaning)
        self.globals_seen = set()     # ... textually before the current statement


_KW = re.compile(r'(?:async(?:[ \t\f]|\\\n)+)?(?:def|class)(?:[ \t\f]|\\\n)+')


class SyntaxPass(object):
    """Binding records of a module: dicts with kind, own, parent, name, module, glob, line, col."""

    def __init__(self, text, tree):
        self.text = text
        self.bindings = []
        self.reads = set()
        self.nscopes = 0
        self.locals_scopes = set()     # ids of the scopes in which the identifier `locals` is loaded
        self.skipped = {}              # constructs outside the fragment (not bindings for supp)
        self.line_off = [0]
        for ln in text.split('\n'):
            self.line_off.append(self.line_off[-1] + len(ln) + 1)
        self.module = self.new_scope('module', None)
        self.collect_globals(tree.body, self.module)
        self.stmts(tree.body, self.module)

    # -- helpers -------------------------------------------------------------------------------
    def new_scope(self, kind, parent):
        sc = _Scope(kind, parent)
        sc.id = self.nscopes
        self.nscopes += 1
        return sc

    def skip(self, what):
        self.skipped[what] = self.skipped.get(what, 0) + 1

    def add(self, kind, scope, name, line, col, module=''):
        # a comprehension variable is local to the comprehension: the global declarations of the
        # enclosing scope never apply to it (CPython symtable)
        decl = kind != 'comp'
        self.bindings.append({
            'kind': kind, 'own': scope.kind, 'parent': scope.parent.kind if scope.parent else None,
            'name': name, 'module': module, 'glob': decl and name in scope.globals,
            'gseen': decl and name in scope.globals_seen, 'scope': scope.id, 'line': line, 'col': col})

    def collect_globals(self, body, scope):
        """`global` declarations of this scope (not of nested def/class/lambda)."""
        stack = list(body)
        while stack:
            n = stack.pop()
            if isinstance(n, ast.Global):
                scope.globals.update(n.names)
            elif isinstance(n, (ast.FunctionDef, ast.AsyncFunctionDef, ast.ClassDef, ast.Lambda)):
                continue
            elif isinstance(n, ast.stmt) or isinstance(n, (ast.ExceptHandler, ast.match_case)):
                for ch in ast.iter_child_nodes(n):
                    if isinstance(ch, (ast.stmt, ast.ExceptHandler, ast.match_case)):
                        stack.append(ch)

    def name_token(self, node, name):
        """Position of the identifier after the def/class keyword of `node`."""
        off = self.line_off[node.lineno - 1] + node.col_offset
        m = _KW.match(self.text, off)
        if not m or self.text[m.end():m.end() + len(name)] != name:
            raise ValueError('cannot locate the name of %s at line %d' % (name, node.lineno))
        p = m.end()
        line = node.lineno + self.text.count('\n', off, p)
        return line, p - self.line_off[line - 1]

    def targets(self, kind, t, scope):
        if isinstance(t, (ast.Tuple, ast.List)):
            for e in t.elts:
                self.targets(kind, e, scope)
        elif isinstance(t, ast.Starred):
            self.targets(kind, t.value, scope)
        elif isinstance(t, ast.Name):
            self.add(kind, scope, t.id, t.lineno, t.col_offset)
        else:
            self.expr(t, scope)          # attribute / subscript target: only its sub-expressions matter

    # -- statements ----------------------------------------------------------------------------
    def stmts(self, body, scope):
        for s in body:
            self.stmt(s, scope)

    def func(self, node, scope, kind):
        a = node.args
        for d in list(a.defaults) + [k for k in a.kw_defaults if k is not None]:
            self.expr(d, scope)
        allargs = list(a.posonlyargs) + list(a.args) + list(a.kwonlyargs) + \
            [x for x in (a.vararg, a.kwarg) if x is not None]
        for x in allargs:
            if x.annotation is not None:
                self.expr(x.annotation, scope)
        inner = self.new_scope(kind, scope)
        for x in allargs:
            self.add('param', inner, x.arg, x.lineno, x.col_offset)
        return inner

    def stmt(self, s, scope):
        if isinstance(s, (ast.FunctionDef, ast.AsyncFunctionDef)):
            for d in s.decorator_list:
                self.expr(d, scope)
            if getattr(s, 'type_params', None):
                self.skip('type_params')
            if s.returns is not None:
                self.expr(s.returns, scope)
            line, col = self.name_token(s, s.name)
            self.add('def', scope, s.name, line, col)
            inner = self.func(s, scope, 'function')
            self.collect_globals(s.body, inner)
            self.stmts(s.body, inner)
        elif isinstance(s, ast.ClassDef):
            for d in s.decorator_list + s.bases + [k.value for k in s.keywords]:
                self.expr(d, scope)
            if getattr(s, 'type_params', None):
                self.skip('type_params')
            line, col = self.name_token(s, s.name)
            self.add('class', scope, s.name, line, col)
            inner = self.new_scope('class', scope)
            self.collect_globals(s.body, inner)
            self.stmts(s.body, inner)
        elif isinstance(s, ast.Assign):
            self.expr(s.value, scope)
            for t in s.targets:
                self.targets('assign', t, scope)
        elif isinstance(s, ast.AnnAssign):
            self.expr(s.annotation, scope)
            if s.value is not None:
                self.expr(s.value, scope)
                self.targets('assign', s.target, scope)
            elif not isinstance(s.target, ast.Name):
                self.expr(s.target, scope)
        elif isinstance(s, ast.AugAssign):
            self.skip('augassign')
            self.expr(s.value, scope)
            if not isinstance(s.target, ast.Name):
                self.expr(s.target, scope)
        elif isinstance(s, (ast.For, ast.AsyncFor)):
            self.expr(s.iter, scope)
            self.targets('for', s.target, scope)
            self.stmts(s.body, scope)
            self.stmts(s.orelse, scope)
        elif isinstance(s, (ast.With, ast.AsyncWith)):
            for it in s.items:
                self.expr(it.context_expr, scope)
                if it.optional_vars is not None:
                    self.targets('with', it.optional_vars, scope)
            self.stmts(s.body, scope)
        elif isinstance(s, ast.Try) or (hasattr(ast, 'TryStar') and isinstance(s, ast.TryStar)):
            star = not isinstance(s, ast.Try)
            self.stmts(s.body, scope)
            for h in s.handlers:
                if h.type is not None:
                    self.expr(h.type, scope)
                if h.name:
                    if star:
                        self.skip('except_star')
                    else:
                        self.add('except', scope, h.name, h.lineno, h.col_offset)
                self.stmts(h.body, scope)
            self.stmts(s.orelse, scope)
            self.stmts(s.finalbody, scope)
        elif isinstance(s, ast.Import):
            for a in s.names:
                if a.asname:
                    self.add('import', scope, a.asname, a.end_lineno, a.end_col_offset - len(a.asname), a.name)
                elif '.' in a.name:
                    top = a.name.split('.')[0]
                    self.add('dotted', scope, top, a.lineno, a.col_offset, top)
                else:
                    self.add('import', scope, a.name, a.lineno, a.col_offset, a.name)
        elif isinstance(s, ast.ImportFrom):
            module = '.' * s.level + (s.module or '')
            for a in s.names:
                if a.name == '*':
                    self.add('star', scope, '*', a.lineno, a.col_offset, module)
                elif a.asname:
                    self.add('from', scope, a.asname, a.end_lineno, a.end_col_offset - len(a.asname), module)
                else:
                    self.add('from', scope, a.name, a.lineno, a.col_offset, module)
        elif hasattr(ast, 'Match') and isinstance(s, ast.Match):
            self.expr(s.subject, scope)
            for c in s.cases:
                self.pattern(c.pattern, scope)
                if c.guard is not None:
                    self.expr(c.guard, scope)
                self.stmts(c.body, scope)
        elif isinstance(s, (ast.If, ast.While)):
            self.expr(s.test, scope)
            self.stmts(s.body, scope)
            self.stmts(s.orelse, scope)
        elif isinstance(s, ast.Global):
            scope.globals_seen.update(s.names)
        elif isinstance(s, (ast.Nonlocal, ast.Pass, ast.Break, ast.Continue)):
            pass
        elif hasattr(ast, 'TypeAlias') and isinstance(s, ast.TypeAlias):
            self.skip('type_alias')
            self.expr(s.value, scope)
        else:
            # Expr, Return, Raise, Assert, Delete: expressions only
            for ch in ast.iter_child_nodes(s):
                if isinstance(ch, ast.expr):
                    self.expr(ch, scope)
                elif isinstance(ch, ast.stmt):
                    raise ValueError('unhandled statement %s' % type(s).__name__)

    def pattern(self, p, scope):
        if isinstance(p, (ast.MatchAs, ast.MatchStar)) and p.name:
            self.skip('match_capture')
        elif isinstance(p, ast.MatchMapping) and p.rest:
            self.skip('match_capture')
        for n in ast.iter_child_nodes(p):
            if isinstance(n, ast.expr):
                self.expr(n, scope)
            elif isinstance(n, ast.pattern):
                self.pattern(n, scope)

    # -- expressions ---------------------------------------------------------------------------
    def expr(self, e, scope):
        if isinstance(e, ast.Name):
            if isinstance(e.ctx, ast.Load):
                self.reads.add(e.id)
                if e.id == 'locals':
                    self.locals_scopes.add(scope.id)
        elif isinstance(e, ast.Lambda):
            inner = self.func(e, scope, 'lambda')
            self.expr(e.body, inner)
        elif isinstance(e, (ast.ListComp, ast.SetComp, ast.GeneratorExp, ast.DictComp)):
            for g in e.generators:
                self.expr(g.iter, scope)
                self.targets('comp', g.target, scope)
                for c in g.ifs:
                    self.expr(c, scope)
            if isinstance(e, ast.DictComp):
                self.expr(e.key, scope)
                self.expr(e.value, scope)
            else:
                self.expr(e.elt, scope)
        elif isinstance(e, ast.NamedExpr):
            self.expr(e.value, scope)
            self.targets('walrus', e.target, scope)
        else:
            for ch in ast.iter_child_nodes(e):
                if isinstance(ch, ast.expr):
                    self.expr(ch, scope)
                elif isinstance(ch, ast.keyword):
                    self.expr(ch.value, scope)
                elif isinstance(ch, (ast.comprehension, ast.arguments, ast.stmt)):
                    raise ValueError('unhandled expression child %s' % type(ch).__name__)


def analyse(text):
    """-> (bindings, read identifiers, skipped constructs). Raises SyntaxError/ValueError."""
    tree = ast.parse(text)
    p = SyntaxPass(text, tree)
    return p.bindings, p.reads, p.skipped, p.locals_scopes


# ------------------------------------------------------------------------------------------------
# B. REF twin: the rule of the property text, purely syntactic
# ------------------------------------------------------------------------------------------------

def rule_py(b, dotted_used=False):
    """'W01' / 'W02' / None for a binding whose identifier is never read."""
    underscore = b['name'].startswith('_')
    local = b['own'] in ('function', 'lambda') and not b['glob']
    if local:
        method_param = b['kind'] == 'param' and b['parent'] == 'class'
        return 'W01' if (not underscore and not method_param) else None
    if b['kind'] in IMPORT_KINDS and b['own'] in ('module', 'class'):
        if not underscore and b['module'] != '__future__' and b['kind'] != 'star' and not dotted_used:
            return 'W02'
    return None


def in_domain(b):
    return b['gseen'] == b['glob'] and \
        not (b['glob'] and b['kind'] in IMPORT_KINDS and b['own'] in ('module', 'class'))


MESSAGES = {'W01': 'Unused name: ', 'W02': 'Unused import: '}


def expected_entry(b):
    w = rule_py(b)
    if w is None:
        return None
    return (w, MESSAGES[w] + b['name'], b['line'], b['col'])


# ------------------------------------------------------------------------------------------------
# C. running the real code
# ------------------------------------------------------------------------------------------------

class StubProject(object):
    """A project in which no module can be found (star imports stay unresolved)."""

    def get_nmodule(self, name, filename):
        raise ImportError(name)


class _Timeout(Exception):
    pass


def _alarm(_sig, _frm):
    raise _Timeout()


def run_lint(text, filename, project, limit=20):
    """-> (W entries [(code, msg, line, col)], marked names or None, error or None)."""
    from supp import linter
    marked = []
    orig = getattr(linter, 'use_name', None)
    if orig is not None:
        def rec(name):
            alts = getattr(name, 'alt_names', None)
            for n in (alts if alts is not None else [name]):
                marked.append(getattr(n, 'name', None))
            return orig(name)
        linter.use_name = rec
    old = signal.signal(signal.SIGALRM, _alarm)
    signal.alarm(limit)
    try:
        res = linter.lint(project, text, filename)
    except _Timeout:
        return None, None, 'timeout'
    except RecursionError:
        return None, None, 'RecursionError'
    except Exception as e:          # lint raising is C08's subject, not C10's
        return None, None, type(e).__name__
    finally:
        signal.alarm(0)
        signal.signal(signal.SIGALRM, old)
        if orig is not None:
            linter.use_name = orig
    ws = [(r[0], r[1], r[2], r[3]) for r in res if r[0] in ('W01', 'W02')]
    return ws, (marked if orig is not None else None), None


def entry_name(e):
    return e[1].split(': ', 1)[1] if ': ' in e[1] else None


# ------------------------------------------------------------------------------------------------
# D. direct evaluator of the property on one source text
# ------------------------------------------------------------------------------------------------

def evaluate(text, filename, project):
    """Run lint and the syntactic reference on one module.
    -> dict(status, bindings, reads, entries, problems, k3) ; problems = list of (what, detail)."""
    out = {'status': 'ok', 'problems': [], 'k3': []}
    try:
        bindings, reads, skipped, lscopes = analyse(text)
    except SyntaxError:
        out['status'] = 'syntax-error'
        return out
    except (ValueError, RecursionError) as e:
        out['status'] = 'pass-failed:%s' % e
        return out
    out['skipped'] = skipped
    # hypothesis no_locals_call, per scope: a locals() call concerns only the bindings of the scope it
    # occurs in; every other binding of the file is judged by the rule in full
    out['locals_scopes'] = lscopes
    entries, marked, err = run_lint(text, filename, project)
    if err:
        out['status'] = 'lint-raised:' + err
        return out
    out.update(bindings=bindings, reads=reads, entries=entries)
    unread = [b for b in bindings if b['name'] not in reads]
    # expected multisets on never-read identifiers (in the stated domain):
    #   exp = must be reported; opt = in a scope that calls locals(): may be reported or not
    exp, opt = {}, {}
    for b in unread:
        if not in_domain(b):
            out['k3'].append(b)
            continue
        e = expected_entry(b)
        if e is not None:
            d = opt if b['scope'] in lscopes else exp
            d[e] = d.get(e, 0) + 1
    act = {}
    k3pos = {(b['name'], b['line'], b['col']) for b in out['k3']}
    for e in entries:
        nm = entry_name(e)
        if nm is None or nm in reads:
            continue
        if (nm, e[2], e[3]) in k3pos:
            continue                     # a repaired tree reports it: that is what the rule asks for
        act[e] = act.get(e, 0) + 1
    for e in sorted(set(exp) | set(act)):
        ne, no, na = exp.get(e, 0), opt.get(e, 0), act.get(e, 0)
        if na < ne:
            out['problems'].append(('missing', 'never-read binding not reported: expected %r x%d, got x%d%s' % (
                e, ne, na, ' (a locals() call in ANOTHER scope must not mark it)' if lscopes else '')))
        elif na > ne + no:
            out['problems'].append(('extra', 'reported as unused but the rule does not ask for it (or duplicate / wrong name, kind or position): %r x%d, expected x%d' % (e, na, ne + no)))
    # link-lemma hypothesis: whatever use_name marked is named like some read identifier, or is a
    # binding of a scope that calls locals()
    if marked is not None:
        allowed = {b['name'] for b in bindings if b['scope'] in lscopes}
        bound = {b['name'] for b in bindings}
        bad = sorted({m for m in marked if m in bound and m not in reads and m not in allowed})
        if bad:
            out['problems'].append(('row-key', 'use_name marked names that are neither read in the file nor bound in a scope calling locals(): %r' % bad[:5]))
    out['marked_checked'] = marked is not None
    return out


# ------------------------------------------------------------------------------------------------
# E. Gallina printing
# ------------------------------------------------------------------------------------------------

def chars(s):
    """identifier / message as a Gallina term of type list N (code points); ASCII goes through a string literal"""
    if s.isascii() and s.isprintable() and '"' not in s:
        return '(S "%s"%%string)' % s if s else '[]'
    return coq_list([coq_N(ord(c)) for c in s])


def binding_term(b):
    return '(mkB %s %s %s %s %s %s %s %s%%nat %s %s)' % (
        KINDS[b['kind']], SKINDS[b['own']],
        coq_option(SKINDS[b['parent']] if b['parent'] else None),
        chars(b['name']), chars(b['module']), coq_bool(b['glob']), coq_bool(b['gseen']),
        min(b['scope'], 4999), coq_N(b['line']), coq_N(b['col']))


def rep_term(e):
    return '(mkR %s %s %s %s)' % (e[0], chars(e[1]), coq_N(e[2]), coq_N(e[3]))


PRELUDE = '''
Definition S (s : string) : list N := map N_of_ascii (list_ascii_of_string s).
(* per binding: (record, never-read?, entry lint produced for it, code of the Python rule twin) *)
Definition check_binding (c : binding * bool * option rep * option code) : bool :=
  match c with
  | (b, unread, obs, twin) =>
      let model := if in_all_names b then report b false false else None in
      ocode_eqb (rule b false) twin &&
      (if unread then orep_eqb model obs
       else match obs with None => true | Some _ => orep_eqb model obs end)
  end.

(* a never-read binding outside in_domain (finding K3-C10): what the faithful model predicts, or,
   on a repaired tree, what the rule asks for *)
Definition check_ood (c : binding * option rep) : bool :=
  match c with
  | (b, obs) =>
      orep_eqb (if in_all_names b then report b false false else None) obs
      || orep_eqb (option_map (mk_rep b) (rule b false)) obs
  end.

(* per file: (never-read bindings, scopes with a locals() call, W01/W02 entries lint produced for
   never-read identifiers outside those scopes).  Each locals() call sees every binding as a plain name
   carrying its own scope; the model must mark exactly the bindings of the calling scope. *)
Fixpoint visible_from (n : nat) (bs : list binding) : list (option nat * list alt) :=
  match bs with [] => [] | b :: r => (Some (b_scope b), [ABind n]) :: visible_from (Datatypes.S n) r end.
Definition check_file (c : list binding * list nat * list rep) : bool :=
  match c with
  | (bs, lscopes, obs) =>
      let vis := visible_from 0 bs in
      let reads := map (fun sc => mkRd locals_name sc (Some [AOther]) false true vis) lscopes in
      same_reps (map snd (lint_unused bs reads)) obs && forallb wf bs
  end.
'''


# ------------------------------------------------------------------------------------------------
# F. generator of modules
# ------------------------------------------------------------------------------------------------

FUTURES = ['division', 'print_function', 'annotations', 'generators', 'unicode_literals', 'with_statement']


class Gen(object):
    """Random module: bindings of every kind in every scope kind; a chosen subset is never read."""

    def __init__(self, rng, p_unread=0.55):
        self.rng = rng
        self.n = 0
        self.p_unread = p_unread
        self.unread_pool = []
        self.read_pool = []
        self.use_locals = rng.random() < 0.3
        self.p_reuse = rng.choice([0.03, 0.08, 0.2])
        self.use_breaks = rng.random() < 0.4     # page breaks and other splitlines-only separators

    def ident(self):
        """-> (identifier, will_be_read)"""
        r = self.rng
        read = r.random() >= self.p_unread
        pool = self.read_pool if read else self.unread_pool
        if pool and r.random() < self.p_reuse:
            return r.choice(pool), read      # the same identifier bound again, here or in another scope
        self.n += 1
        shape = r.choice(['zq%d', 'zq%d', 'zq%d', 'zq%d', 'Zq%d', 'zq%d_', '_zq%d', '__zq%d', '_%d_', 'z_%d'])
        nm = shape % self.n
        pool.append(nm)
        return nm, read

    def use(self, ind, nm, dotted=False):
        r = self.rng
        if dotted:
            return [ind + '%s.sub.attr' % nm]
        return [ind + r.choice(['%s', '%s.attr', 'zqfn(%s)', '[%s]']) % nm]

    def noise(self, ind):
        """a read of some read-pool identifier (may or may not resolve to a binding)"""
        if self.read_pool and self.rng.random() < 0.5:
            return [ind + self.rng.choice(self.read_pool)]
        return []

    def params(self, first=None):
        """-> (text, [(name, read)])"""
        r = self.rng
        names = []
        parts = []

        def one(default=False, prefix=''):
            nm, rd = self.ident()
            names.append((nm, rd))
            t = prefix + nm
            if r.random() < 0.15 and not prefix:
                t += ': int'
            if default:
                t += '=0' if ':' not in t else ' = 0'
            return t
        if first:
            names.append((first, r.random() < 0.5))
            parts.append(first)
        npos = r.choice([0, 0, 0, 1, 2])
        nreg = r.choice([0, 1, 1, 2, 3])
        dflt = False
        for i in range(npos):
            dflt = dflt or r.random() < 0.2
            parts.append(one(dflt))
        if npos:
            parts.append('/')
        for i in range(nreg):
            dflt = dflt or r.random() < 0.3
            parts.append(one(dflt))
        star = r.random() < 0.35
        nkw = r.choice([0, 0, 1, 2])
        if star:
            parts.append(one(prefix='*'))
        elif nkw:
            parts.append('*')
        for i in range(nkw):
            parts.append(one(r.random() < 0.5))
        if r.random() < 0.3:
            parts.append(one(prefix='**'))
        return ', '.join(parts), names

    def lambda_expr(self, depth):
        r = self.rng
        ptxt, names = self.params()
        ptxt = ptxt.replace(': int', '')
        body = [nm for nm, rd in names if rd]
        k = r.random()
        if k < 0.25:
            nm, rd = self.ident()
            body.append('[%s for %s in ()]' % (nm if rd else '0', nm))
        elif k < 0.4:
            nm, rd = self.ident()
            body.append('(%s := 0)' % nm)
            if rd:
                body.append(nm)
        elif k < 0.5 and depth < 3:
            body.append(self.lambda_expr(depth + 1))
        return '(lambda %s: (%s))' % (ptxt, ', '.join(body + ['0']))

    def target(self):
        """-> (text, [(name, read)])"""
        r = self.rng
        k = r.random()
        a, ra = self.ident()
        if k < 0.55:
            return a, [(a, ra)]
        if k < 0.62:
            # names beside subscript / attribute targets (which bind no name themselves)
            return r.choice(['zqd[0], %s', '%s, zqd[zqk]', 'zqo.attr, %s', '[zqd["k"], %s]', '*%s, zqo.attr']) % a, [(a, ra)]
        b, rb = self.ident()
        if k < 0.8:
            return '%s, %s' % (a, b), [(a, ra), (b, rb)]
        if k < 0.87:
            return r.choice(['[%s, zqd[zqk], %s]', '%s, zqo.attr, %s', 'zqd[0], (%s, zqo.attr, %s)', '(zqo.a, %s), zqd[1], *%s']) % (a, b), \
                [(a, ra), (b, rb)]
        c, rc = self.ident()
        return r.choice(['%s, (%s, *%s)', '[%s, %s, %s]', '(%s, %s), %s']) % (a, b, c), [(a, ra), (b, rb), (c, rc)]

    def reads_of(self, ind, names):
        out = []
        for nm, rd in names:
            if rd:
                out += self.use(ind, nm)
        return out

    def body(self, sk, depth, ind, is_async=False, parent=None):
        r = self.rng
        out = []
        for _ in range(r.randint(2, 5 if depth < 2 else 3)):
            out += self.stmt(sk, depth, ind, is_async, parent)
        return out or [ind + 'pass']

    def block(self, sk, depth, ind, is_async, parent):
        """a nested block of the SAME scope"""
        r = self.rng
        out = []
        for _ in range(r.randint(1, 2)):
            out += self.stmt(sk, depth + 1, ind, is_async, parent, simple=True)
        return out or [ind + 'pass']

    def stmt(self, sk, depth, ind, is_async=False, parent=None, simple=False):
        r = self.rng
        i2 = ind + '    '
        choices = ['assign', 'assign', 'walrus', 'for', 'with', 'except', 'comp', 'comp', 'import', 'import',
                   'from', 'from', 'dotted', 'lambda', 'lambda', 'annassign', 'noise']
        if not simple and depth < 4:
            choices += ['def', 'def', 'def', 'class', 'class', 'if', 'while', 'tryfinally', 'nonlocal']
        if sk == 'module':
            choices += ['star']
        if sk in ('function', 'class') and not simple:
            choices += ['global']
        if sk == 'module' and not simple:
            choices += ['global_mod']
        if sk == 'function' and is_async:
            choices += ['asyncfor', 'asyncwith']
        if self.use_breaks:
            choices += ['pagebreak', 'pagebreak', 'pagebreak']
        if self.use_locals and (sk == 'function' or r.random() < 0.15):
            choices += ['locals']
        if not simple and depth < 4:
            choices += ['global_shadow', 'multipath', 'multipath']
        else:
            choices += ['multipath']
        if self.use_locals:
            choices += ['multipath', 'multipath']
        k = r.choice(choices)
        if k == 'assign':
            t, names = self.target()
            if r.random() < 0.2:
                t2, n2 = self.target()
                return [ind + '%s = %s = ()' % (t, t2)] + self.reads_of(ind, names + n2)
            return [ind + '%s = ()' % t] + self.reads_of(ind, names)
        if k == 'annassign':
            nm, rd = self.ident()
            return [ind + r.choice(['%s: int = 0', '%s: int = 0', '(%s): int = 0', '(%s): "zqT" = (0)']) % nm] + \
                self.reads_of(ind, [(nm, rd)])
        if k == 'walrus':
            nm, rd = self.ident()
            form = r.choice(['(%s := 0)', 'if (%s := 0): pass', 'zqfn(%s := 0)'])
            return [ind + form % nm] + self.reads_of(ind, [(nm, rd)])
        if k in ('for', 'asyncfor'):
            t, names = self.target()
            out = [ind + ('async ' if k == 'asyncfor' else '') + 'for %s in ():' % t]
            out += self.reads_of(i2, names) if r.random() < 0.5 else []
            out += self.block(sk, depth, i2, is_async, parent)
            if r.random() < 0.3:
                out += [ind + 'else:'] + self.block(sk, depth, i2, is_async, parent)
            if not out[1:]:
                out.append(i2 + 'pass')
            return out + self.reads_of(ind, names)
        if k in ('with', 'asyncwith'):
            t, names = self.target()
            if ',' in t:
                t = '(%s)' % t
            items = 'zqctx() as %s' % t
            if r.random() < 0.3:
                t2, n2 = self.target()
                if ',' in t2:
                    t2 = '(%s)' % t2
                items += ', zqctx() as %s' % t2
                names = names + n2
            out = [ind + ('async ' if k == 'asyncwith' else '') + 'with %s:' % items]
            out += self.block(sk, depth, i2, is_async, parent)
            return out + self.reads_of(ind, names)
        if k == 'except':
            nm, rd = self.ident()
            out = [ind + 'try:'] + self.block(sk, depth, i2, is_async, parent)
            out += [ind + 'except Exception as %s:' % nm]
            out += (self.reads_of(i2, [(nm, rd)]) or [i2 + 'pass'])
            if r.random() < 0.3:
                out += [ind + 'except (KeyError, ValueError):', i2 + 'pass']
            if r.random() < 0.3:
                out += [ind + 'else:'] + self.block(sk, depth, i2, is_async, parent)
            if r.random() < 0.3:
                out += [ind + 'finally:'] + self.block(sk, depth, i2, is_async, parent)
            return out
        if k == 'comp':
            t, names = self.target()
            elt = ', '.join([nm for nm, rd in names if rd] + ['0'])
            form = r.choice(['[(%s) for %s in ()]', '{(%s) for %s in ()}', '((%s) for %s in ())',
                             '{(%s): 0 for %s in ()}', '[(%s) for %s in () if zqc]'])
            e = form % (elt, t)
            if r.random() < 0.3:
                t2, n2 = self.target()
                elt2 = ', '.join([nm for nm, rd in names + n2 if rd] + ['0'])
                e = r.choice(['[(%s) for %s in () for %s in ()]' % (elt2, t, t2),
                              '[[(%s) for %s in ()] for %s in ()]' % (elt2, t2, t)])
            if r.random() < 0.4:
                nm, rd = self.ident()
                return [ind + '%s = %s' % (nm, e)] + self.reads_of(ind, [(nm, rd)])
            return [ind + e]
        if k == 'import':
            out = []
            parts = []
            names = []
            for _ in range(r.choice([1, 1, 1, 2, 3])):
                nm, rd = self.ident()
                names.append((nm, rd))
                f = r.random()
                if f < 0.4:
                    parts.append(nm)
                elif f < 0.6:
                    parts.append('zqmod as %s' % nm)
                elif f < 0.75:
                    parts.append('zqpkg.sub as %s' % nm)
                elif f < 0.85:
                    parts.append('%s as %s' % (nm, nm))
                elif f < 0.9:
                    parts.append('__future__ as %s' % nm)
                else:
                    parts.append('zqpkg.%s as %s' % (nm, nm))
            out.append(ind + 'import ' + r.choice([', ', ',', ' , ']).join(parts))
            return out + self.reads_of(ind, names)
        if k == 'dotted':
            nm, rd = self.ident()
            f = r.random()
            if f < 0.5:
                line = 'import %s.sub' % nm
            elif f < 0.75:
                line = 'import %s.sub, %s.other' % (nm, nm)
            else:
                line = 'import %s.%s.deep' % (nm, nm)
            out = [ind + line]
            if rd:
                out += self.use(ind, nm, dotted=True)
            # other imports of the same package beside the dotted one: the dotted-import exemption is
            # about the BOUND name, not about the package these come from
            for _ in range(r.choice([0, 0, 1, 2, 3])):
                n2, r2 = self.ident()
                form = r.choice(['from %s import %s', 'import %s as %s', 'from %s.sub import %s', 'import %s.sub as %s',
                                 'from %s import zqm as %s'])
                out += [ind + form % (nm, n2)] + self.reads_of(ind, [(n2, r2)])
            return out
        if k == 'from':
            parts = []
            names = []
            mod = r.choice(['zqmod', 'zqpkg.sub', '.', '..zqrel', '.zqrel'])
            for _ in range(r.choice([1, 1, 2, 3])):
                nm, rd = self.ident()
                names.append((nm, rd))
                f = r.random()
                if f < 0.5:
                    parts.append(nm)
                elif f < 0.8:
                    parts.append('zqmember as %s' % nm)
                else:
                    parts.append('%s as %s' % (nm, nm))
            if r.random() < 0.2 and not mod.startswith('.'):
                mod = names[0][0]                      # from time import time
            f = r.random()
            sep = ' '
            if mod.strip('.') == '' and r.random() < 0.3:
                sep = ''                               # from .import x
            head = ind + 'from %s%simport' % (mod, sep)
            if f < 0.6:
                line = [head + ' ' + ', '.join(parts)]
            elif f < 0.8:
                line = [head + r.choice([' (', '(']) + ', '.join(parts) + ')']
            else:
                line = [head + ' ('] + [ind + '    %s,' % p for p in parts] + [ind + ')']
            return line + self.reads_of(ind, names)
        if k == 'star':
            return [ind + 'from %s import%s*' % (r.choice(['os.path', 'zq_nosuch_module', 'string']), r.choice([' ', ' ', '']))]
        if k == 'lambda':
            e = self.lambda_expr(depth)
            if r.random() < 0.5:
                nm, rd = self.ident()
                return [ind + '%s = %s' % (nm, e)] + self.reads_of(ind, [(nm, rd)])
            return [ind + r.choice(['%s', 'zqfn(key=%s)', '[%s]']) % e]
        if k == 'locals':
            return [ind + r.choice(['zqfn(locals())', 'zqfmt % locals()', 'zqd = dict(locals())'])]
        if k == 'multipath':
            # the same identifier bound on alternative paths (its row is a MultiName after the join)
            nm, rd = self.ident()
            binders = ['import %s', 'import zqalt as %s', 'from zqmod import %s', 'from zqmod import zqm as %s',
                       '%s = None', 'import %s.sub', 'def %s(): pass']
            a, b = r.choice(binders) % nm, r.choice(binders) % nm
            f = r.random()
            if f < 0.4:
                out = [ind + 'try:', i2 + a, ind + 'except ImportError:', i2 + b]
            elif f < 0.8:
                out = [ind + 'if zqc:', i2 + a, ind + 'else:', i2 + b]
            else:
                out = [ind + 'if zqc:', i2 + a, ind + 'elif zqd:', i2 + b, ind + 'else:', i2 + r.choice(binders) % nm]
            return out + self.reads_of(ind, [(nm, rd)])
        if k == 'global_shadow':
            # an identifier declared global in one function and bound as a plain local / parameter of the
            # functions nested in it (a global declaration is not inherited), and the converse
            nm, rd = self.ident()
            self.n += 4
            f_, g_, k_, c_ = ['zqf%d' % (self.n - j) for j in range(4)]
            i3 = i2 + '    '
            if r.random() < 0.7:
                out = [ind + 'def %s():' % f_, i2 + 'global %s' % nm,
                       i2 + r.choice(['%s = 0', 'import %s', 'def %s(): pass', 'for %s in (): pass']) % nm]
                inner = [[i2 + '[0 for %s in ()]' % nm],
                         [i2 + 'zqs = {0 for zqa, %s in ()}' % nm],
                         [i2 + 'class %s:' % c_, i3 + 'global %s' % nm, i3 + 'zqz = [0 for %s in ()]' % nm],
                         [i2 + 'def %s(%s): pass' % (g_, nm)],
                         [i2 + 'def %s(zqa, *%s): pass' % (g_, nm)],
                         [i2 + 'zqh = lambda %s: 0' % nm],
                         [i2 + 'zqh = lambda: [0 for %s in ()]' % nm],
                         [i2 + 'def %s():' % k_, i3 + '%s = 2' % nm],
                         [i2 + 'def %s():' % k_, i3 + 'import %s' % nm],
                         [i2 + 'def %s():' % k_, i3 + 'for %s in (): pass' % nm],
                         [i2 + 'class %s:' % c_, i3 + '%s = 3' % nm, i3 + 'def zqm(self, %s): pass' % nm]]
                r.shuffle(inner)
                for blk in inner[:r.randint(1, 4)]:
                    out += blk
            else:
                out = [ind + 'def %s():' % f_, i2 + r.choice(['%s = 0', 'import %s', 'with zqctx() as %s: pass']) % nm,
                       i2 + 'def %s():' % g_, i3 + 'global %s' % nm, i3 + r.choice(['%s = 1', 'import %s']) % nm,
                       i2 + 'def %s(%s): pass' % (k_, nm)]
            if rd:
                out += self.use(i2, nm)
            return out
        if k == 'pagebreak':
            # form feed section separators and the other characters only str.splitlines() takes for line
            # ends (they are in-line whitespace / ordinary characters for ast and tokenize): every
            # position reported BELOW must still be the binding's own
            f = r.random()
            if f < 0.35:
                return ['\x0c'] if r.random() < 0.7 else [ind + '\x0c']
            if f < 0.65:
                return [ind + '# section ' + ''.join(r.choice(ODD_NEWLINES) + ' part ' for _ in range(r.randint(1, 3)))]
            nm, rd = self.ident()
            sep = ''.join(r.choice(ODD_NEWLINES) for _ in range(r.randint(1, 2)))
            if f < 0.85:
                return [ind + '%s = "a%sb"' % (nm, sep)] + self.reads_of(ind, [(nm, rd)])
            q = "'" * 3
            return [ind + '%s = %sdoc%s' % (nm, q, sep), 'more %s text%s' % (sep, q)] + self.reads_of(ind, [(nm, rd)])
        if k == 'noise':
            return self.noise(ind) or [ind + 'pass']
        if k == 'def':
            nm, rd = self.ident()
            a = r.random() < 0.2
            first = None
            if sk == 'class' and r.random() < 0.8:
                first = r.choice(['self', 'cls', 'self'])
            ptxt, names = self.params(first)
            out = []
            if r.random() < 0.25:
                out.append(ind + '@' + r.choice(['zqdec', 'zqdec(0)', 'staticmethod']))
            head = '%sdef %s(%s)%s:' % ('async ' if a else '', nm, ptxt, ' -> int' if r.random() < 0.1 else '')
            if r.random() < 0.1:
                head = head.replace('def ' + nm, 'def  ' + nm)
            out.append(ind + head)
            out += self.reads_of(i2, names)
            out += self.body('function', depth + 1, i2, a, sk)
            return out + self.reads_of(ind, [(nm, rd)])
        if k == 'class':
            nm, rd = self.ident()
            out = []
            if r.random() < 0.2:
                out.append(ind + '@zqdec')
            out.append(ind + 'class %s%s:' % (nm, r.choice(['', '', '(object)', '(zqbase, metaclass=zqmeta)'])))
            out += self.body('class', depth + 1, i2, False, sk)
            return out + self.reads_of(ind, [(nm, rd)])
        if k == 'if':
            out = [ind + 'if zqc:'] + self.block(sk, depth, i2, is_async, parent)
            if r.random() < 0.5:
                out += [ind + 'else:'] + self.block(sk, depth, i2, is_async, parent)
            return out
        if k == 'while':
            return [ind + 'while zqc:'] + self.block(sk, depth, i2, is_async, parent)
        if k == 'tryfinally':
            return [ind + 'try:'] + self.block(sk, depth, i2, is_async, parent) + \
                   [ind + 'finally:'] + self.block(sk, depth, i2, is_async, parent)
        if k == 'nonlocal':
            f, rf = self.ident()
            y, ry = self.ident()
            g, rg = self.ident()
            out = [ind + 'def %s():' % f, i2 + '%s = 0' % y, i2 + 'def %s():' % g,
                   i2 + '    nonlocal %s' % y, i2 + '    %s = 1' % y]
            out += self.reads_of(i2, [(g, rg), (y, ry)])
            return out + self.reads_of(ind, [(f, rf)])
        if k == 'global':
            # function: any binder; class: non-import binders only (imports are the open finding K3-C10)
            nm, rd = self.ident()
            forms = ['%s = 0', 'def %s(): pass', 'for %s in (): pass']
            if sk == 'function':
                forms += ['import %s', 'from zqmod import %s', 'import %s.sub']
            if r.random() < 0.3:
                out = [ind + 'if zqc:', i2 + 'global %s' % nm, i2 + r.choice(forms) % nm]
            else:
                out = [ind + 'global %s' % nm, ind + r.choice(forms) % nm]
            return out + self.reads_of(ind, [(nm, rd)])
        if k == 'global_mod':
            nm, rd = self.ident()
            return [ind + 'global %s' % nm, ind + r.choice(['%s = 0', 'class %s: pass']) % nm] + \
                self.reads_of(ind, [(nm, rd)])
        raise AssertionError(k)

    def module(self):
        r = self.rng
        out = []
        if r.random() < 0.35:
            parts = []
            for f in r.sample(FUTURES, r.randint(1, 3)):
                if r.random() < 0.5:
                    nm, rd = self.ident()
                    parts.append('%s as %s' % (f, nm))
                    if rd:
                        out += self.use('', nm)
                else:
                    parts.append(f)
            out.insert(0, 'from __future__ import ' + ', '.join(parts))
        if self.use_breaks and r.random() < 0.5:
            out.append(r.choice(['\x0c', '# \x0c\x0b', '\x0c\x0c']))
        out += self.body('module', 0, '')
        if self.use_locals and r.random() < 0.6:
            # a function whose locals() call sees every module-level name
            self.n += 1
            out += ['def zqsnap%d(zqp):' % self.n, '    zqv = zqp', '    return locals()']
        return '\n'.join(out) + '\n'


def gen_module(rng):
    """a module that CPython compiles (the property is about valid modules)"""
    for _ in range(50):
        g = Gen(rng, p_unread=rng.choice([0.3, 0.55, 0.8]))
        text = g.module()
        try:
            compile(text, 'g.py', 'exec', dont_inherit=True)
        except SyntaxError:
            continue
        return text
    raise RuntimeError('generator produced no valid module in 50 attempts')


# boundary cases written by hand (also stored under corpus/C10/)
HAND = [
    'baz = 10\ndef boo():\n    _i = 0\n    foo = 1\n    boo = 1\n    bar(foo)\n',
    'class Boo:\n    def foo(self, arg):\n        pass\n',
    'import os\n',
    'from __future__ import print_function\n',
    'import logging.config\nimport logging.handlers\n',
    'import logging.config\nimport logging.handlers\nlogging.foo()\n',
    'lambda a: 0\n',
    'class A:\n    f = lambda self, a: 0\n',
    'def f():\n    return lambda a: 0\nf()\n',
    'class A:\n    def m(self):\n        def g(p):\n            pass\n        return g\n',
    'def f():\n    class A:\n        def m(self, q):\n            pass\n    return A\nf()\n',
    '[1 for x in []]\n',
    'def f():\n    return [1 for x in []]\nf()\n',
    'class A:\n    z = [1 for x in []]\n',
    'def f():\n    try:\n        pass\n    except E as e:\n        pass\nf()\n',
    'def f():\n    import os\n    from a import b\n    import c.d\nf()\n',
    'class A:\n    import os\n    from a import b\n    import c.d\n',
    'import a.b\n', 'import a.b as c\n',
    'def f():\n    def g(): pass\n    class C: pass\nf()\n',
    'def f():\n    global g\n    g = 1\nf()\n',
    'def f():\n    global os\n    import os\nf()\n',
    'class A:\n    global g\n    g = 1\n',
    'def f(a, /, b, *, c): pass\nf()\n',
    'def f(*a, **k): pass\nf()\n',
    'from time import time\n',
    'import a.b, a.c\n',
    'from m import a, b as a\n',
    'import a.b as b, b\n',
    'from b.c import c as d, b\n',
    'from m import x as x\n',
    'import x as x\n',
    'import __future__ as fut\n',
    'from __future__ import division as dv\n',
    'def f():\n    x = 1\n    x = 2\nf()\n',
    'def f():\n    x = 1\n    def g():\n        nonlocal x\n        x = 2\n    g()\nf()\n',
    'def locals(): pass\ndef f(a):\n    return a\n',
    'from os.path import *\nimport zq\n',
    'def f():\n    if (y := 1): pass\nf()\n',
    'async def f():\n    async for i in x: pass\n    async with x as w: pass\nf()\n',
    'def f():\n    with x as (a, b): pass\n    for c, (d, *e) in []: pass\n    g = h = 1\n',
    'def f():\n    return {1 for s in []}, {1: 2 for d in []}, (1 for g in []), [[1 for j in i] for i in []]\n',
    'class A:\n    class B:\n        def m(self, a): pass\n    def n(self):\n        lambda q: 0\n',
    'def  f (a): pass\nclass  K : pass\n',
    'def f():\n    try:\n        import os\n    except ImportError as e:\n        os = None\n',
    'from .import x\nimport y\n',
    'from . import x\nfrom .important import y\n',
    'from pkg.importer import x, importer\n',
    'from ..import(x)\n',
    'from a \\\n  import (b,\n  c as b)\n',
    'from .a import b, a\n',
    'from a import b as c;import c\n',
    'from zq_nosuch import*\nimport y\n',
    # a locals() call concerns only its own scope (multi-path module-level imports stay reportable)
    'try:\n    import json\nexcept ImportError:\n    import pickle as json\n\nif len("x"):\n    import marshal as ser\nelse:\n    import shelve as ser\n\nimport os\n\n\ndef snapshot():\n    return locals()\n',
    'def f():\n    if c:\n        x = 1\n    else:\n        x = 2\n    y = 3\ndef g():\n    z = 4\n    return locals()\nclass K:\n    import os\n    def m(self):\n        w = 5\n        return lambda: locals()\n',
    'import os\nif c:\n    import a as x\nelse:\n    import b as x\nlocals()\ndef f(p):\n    q = 1\n',
    # round 4: page breaks (form feed) and the other separators only str.splitlines() splits at, above bindings
    # whose position is found by text search (import aliases, def / class names)
    '\x0c\nimport os\nimport a.b, a.c\nfrom time import time\n\x0c\ndef f():\n    \x0c\n    def g(): pass\n    class C: pass\n    import sys\n',
    '# a\x0bb\x1cc\x1dd\x1ee\nimport os\nx = "p\x0cq"\nimport re as r\nclass K:\n    # \x0c\n    from a import b\ndef f():\n    # \x1c\n    def g(): pass\n',
    '# nel \x85 ls \u2028 ps \u2029\nimport os\ndef f():\n    s = "\u2028"\n    class C: pass\n    import sys as y\n',
    '\x0cimport os\n\x0c\n\x0c\nfrom m import (\n    a,\n\x0c\n    b as c,\n)\n',
    # round 3: parenthesised annotated target; names beside subscript/attribute targets; other imports of a
    # package that is used through a dotted import; comprehension variable named like a declared global
    'def f():\n    (b): int = 2\n    c: int = 3\nclass K:\n    (d): int = 4\n    def m(self):\n        (e): "T" = (5)\n',
    'def f(pair, t, d, k, o):\n    d["k"], v = pair\n    [a, d[k], b] = t\n    o.x, w = pair\n    for o.y, i in (): pass\n    for d[0], j in (): pass\n    with o as (o.z, m): pass\n    return [0 for d[1], n in ()], pair, t, k\n',
    'import logging.config\nlogging.config.f()\nfrom logging import getLogger\nimport logging as log\nfrom logging.config import x\nimport logging.config as lc\nclass A:\n    from logging import y\n    import logging as z\n',
    'import a.b\ndef f():\n    return a.b.c\nfrom a import p\nimport a as q\n',
    'def f():\n    global X\n    X = 1\n    return [0 for X in ()]\nclass K:\n    global Y\n    z = [0 for Y in ()]\ndef g():\n    global Z\n    return {0 for q, Z in ()}\n',
    # a global declaration is not inherited by nested scopes
    'def configure(items):\n    global registry\n    registry = {}\n\n    def reset():\n        registry = []\n        return items\n\n    def update(registry):\n        return items\n\n    take = lambda registry: items\n    return reset, update, take\n',
    'def f():\n    global X\n    X = 1\n    def g(X): pass\n    h = lambda X: 0\n    def k():\n        X = 2\n    class C:\n        X = 3\n        def m(self, X): pass\n',
    'def f():\n    X = 1\n    def g():\n        global X\n        X = 2\n    def k(X): pass\n',
    'X = 0\nclass A:\n    X = 1\n    def m(self):\n        X = 2\n        def n():\n            nonlocal X\n            X = 3\n        lambda X: 0\n',
]


# ------------------------------------------------------------------------------------------------
# G. the check
# ------------------------------------------------------------------------------------------------

def corpus_cases():
    d = os.path.join(VERIF, 'corpus', 'C10')
    res = []
    if os.path.isdir(d):
        for f in sorted(os.listdir(d)):
            if f.endswith('.json'):
                obj = json.load(open(os.path.join(d, f)))
                res.append((f, obj))
    return res


def check_known_k3(ctx, project):
    """Re-run the concrete input of the open finding; print KNOWN-FINDING only if it still fails."""
    text = K3_INPUT
    kf = os.path.join(VERIF, 'corpus', 'C10', 'known_%s.json' % FINDING_ID)
    if os.path.exists(kf):
        text = json.load(open(kf))['source']
    bindings, reads, _, _ls = analyse(text)
    b = [x for x in bindings if x['kind'] == 'import'][0]
    assert not in_domain(b) and rule_py(b) == 'W02' and b['name'] not in reads
    entries, _m, err = run_lint(text, 'k3.py', project)
    if err:
        ctx.coverage['k3_status'] = 'lint raised ' + err
        return
    want = expected_entry(b)
    if want in entries:
        ctx.coverage['k3_status'] = 'no longer reproduces: %r is reported (finding can be closed)' % (want,)
    else:
        ctx.coverage['k3_status'] = 'reproduced: %r not reported' % (want,)
        ctx.known_finding(FINDING_ID, 'import at module level of a name declared `global` there is never reported '
                          '(input %r: expected %r, got %r)' % (text, want, entries))


def run(ctx):
    from supp.project import Project
    proof_ok = ctx.coq_props()
    cov = ctx.coverage
    cov['rule'] = ('generated valid modules (bindings of every kind x scope kind, identifiers reused across scopes with and without global/nonlocal, multi-path bindings, locals() calls in some scopes; a chosen subset never read) + hand-written '
                   'boundary modules + real files (stdlib/repo, ASCII, not reading `locals`): real lint W01/W02 entries vs '
                   '(I) Coq report/lint_unused on binding records from an independent ast pass, (twin) rule_py vs Coq rule, '
                   '(direct) multiset of entries on never-read identifiers == rule_py. A case = one binding; '
                   'non-trivial = its identifier is never read in the file (the domain of the property)')
    project = Project()
    stub = StubProject()

    binding_cases = []      # (term, info)
    file_cases = []         # (term, info)
    ood_cases = []          # never-read bindings outside in_domain (finding K3-C10)
    nviol = [0]

    def handle(text, filename, proj, origin, keep_source=True, cap_read=None):
        ev = evaluate(text, filename, proj)
        ctx.histogram('file_status', ev['status'].split(':')[0] + (':' + ev['status'].split(':', 1)[1][:40] if ':' in ev['status'] else ''))
        if ev['status'] != 'ok':
            return ev
        for k, n in ev.get('skipped', {}).items():
            ctx.histogram('outside_fragment', k, n)
        reads = ev['reads']
        by_key = {}
        for e in ev['entries']:
            by_key.setdefault((entry_name(e), e[2], e[3]), []).append(e)
        unread_bs = []
        nread = 0
        lscopes = ev['locals_scopes']
        if lscopes:
            ctx.histogram('file_status', 'ok, with locals() calls (their own scopes: only "nothing else reported")')
        for b in ev['bindings']:
            unread = b['name'] not in reads and b['scope'] not in lscopes
            if b['name'] not in reads and b['scope'] in lscopes:
                ctx.histogram('unread_in_locals_scope', b['kind'] + '/' + b['own'])
            elif unread and lscopes:
                ctx.histogram('unread_beside_locals_call', b['kind'] + '/' + b['own'])
            if not in_domain(b):
                # shape of the open finding K3-C10: either the faithful model (defect) or the rule (repaired)
                ctx.histogram('k3_like_bindings', origin)
                if unread:
                    o = by_key.get((b['name'], b['line'], b['col']), [None])[0]
                    ood_cases.append(('(%s, %s)' % (binding_term(b), coq_option(rep_term(o) if o else None)),
                                      {'origin': origin, 'file': filename, 'source': text if keep_source else None,
                                       'binding': b, 'observed': o}))
                continue
            obs = by_key.get((b['name'], b['line'], b['col']), [None])[0]
            key = (b['kind'], b['own'], b['parent'], b['name'], b['module'], b['glob'], b['gseen'], b['line'], b['col'], unread, obs)
            if b['name'] not in reads:
                unread_bs.append(b)
            if not unread:
                nread += 1
                if cap_read is not None and nread > cap_read:
                    continue
            ctx.count(key, nontrivial=unread)
            combo = '%s/%s%s' % (b['kind'], b['own'], '<' + b['parent'] if b['kind'] == 'param' and b['parent'] else '')
            if unread:
                ctx.histogram('unread_kind_x_scope', combo)
                ctx.histogram('unread_outcome', rule_py(b) or ('exempt:' + exemption(b)))
            twin = rule_py(b)
            term = '(%s, %s, %s, %s)' % (binding_term(b), coq_bool(unread),
                                         coq_option(rep_term(obs) if obs else None), coq_option(twin))
            binding_cases.append((term, {'origin': origin, 'file': filename, 'source': text if keep_source else None,
                                         'binding': b, 'unread': unread, 'observed': obs}))
        oodpos = {(b['name'], b['line'], b['col']) for b in ev['k3']}
        obs_unread = [e for e in ev['entries'] if entry_name(e) is not None and entry_name(e) not in reads
                      and (entry_name(e), e[2], e[3]) not in oodpos]
        # entries at bindings of scopes that call locals() are judged per binding, not per file
        lpos = {(b['name'], b['line'], b['col']) for b in unread_bs if b['scope'] in lscopes}
        obs_unread = [e for e in obs_unread if (entry_name(e), e[2], e[3]) not in lpos]
        dense = {}
        for sc in [b['scope'] for b in unread_bs] + sorted(lscopes):
            dense.setdefault(sc, len(dense))
        if len(unread_bs) <= 400 and len(dense) < 4000:
            fterm = '(%s, %s, %s)' % (coq_list([binding_term(dict(b, scope=dense[b['scope']])) for b in unread_bs]),
                                      coq_list(['%d%%nat' % dense[sc] for sc in sorted(lscopes)]),
                                      coq_list([rep_term(e) for e in obs_unread]))
            file_cases.append((fterm, {'origin': origin, 'file': filename, 'source': text if keep_source else None}))
        for what, detail in ev['problems']:
            nviol[0] += 1
            if nviol[0] <= 15:
                ctx.violation('%s (%s %s)' % (detail, origin, os.path.basename(filename)),
                              {'kind': 'direct', 'what': what, 'file': None if keep_source else filename,
                               'source': text if keep_source else None, 'detail': detail})
        return ev

    # ---- corpus and hand-written boundary cases first ------------------------------------------
    check_known_k3(ctx, project)
    for fname, obj in corpus_cases():
        if fname.startswith('known_'):
            continue
        handle(obj['source'], fname.replace('.json', '.py'), project, 'corpus')
    for i, text in enumerate(HAND):
        handle(text, 'hand%d.py' % i, project, 'hand')

    # ---- generated modules -----------------------------------------------------------------------
    ngen = ctx.pick(200, 3000)
    for i in range(ngen):
        text = gen_module(ctx.rng)
        ev = handle(text, 'gen%d.py' % i, project, 'generated')
        if i < 2:
            ctx.sample({'generated_module': text[:1500], 'status': ev['status'],
                        'W_entries': [list(e) for e in (ev.get('entries') or [])][:8]})
    ctx.log('generated %d modules: %d binding cases' % (ngen, len(binding_cases)))

    # ---- real files ---------------------------------------------------------------------------------
    nreal = ctx.pick(45, 100000)
    files = stdlib_files(limit=nreal, rng=ctx.rng)
    nb0 = len(binding_cases)
    for fn in files:
        try:
            text = open(fn, encoding='utf8').read()
        except (UnicodeDecodeError, OSError):
            ctx.histogram('file_status', 'unreadable')
            continue
        if not text.isascii() or len(text) > 150000:
            ctx.histogram('file_status', 'skipped:non-ascii/too-large')
            continue
        if any(c in text for c in ODD_NEWLINES):
            ctx.histogram('file_status', 'with form feeds / splitlines-only separators')
        handle(text, fn, stub, 'real', keep_source=False, cap_read=40)
    ctx.log('real files %d: %d binding cases' % (len(files), len(binding_cases) - nb0))
    cov['binding_cases'] = len(binding_cases)
    cov['file_cases'] = len(file_cases)
    cov['direct_mismatches'] = nviol[0]

    # ---- (I) + twin inside Coq --------------------------------------------------------------------
    bad_b = ctx.run_cases(['Model.Lint'], PRELUDE, 'check_binding', [t for t, _ in binding_cases],
                          case_type='binding * bool * option rep * option code', shard=400)
    bad_f = ctx.run_cases(['Model.Lint'], PRELUDE, 'check_file', [t for t, _ in file_cases],
                          case_type='list binding * list nat * list rep', shard=60)
    bad_o = ctx.run_cases(['Model.Lint'], PRELUDE, 'check_ood', [t for t, _ in ood_cases],
                          case_type='binding * option rep', shard=400) if ood_cases else []
    cov['out_of_domain_cases'] = len(ood_cases)
    for i in bad_o[:3]:
        info = ood_cases[i][1]
        ctx.violation('binding outside the proved sub-domain behaves neither like the model of the open finding %s nor like the rule: %r observed %r'
                      % (FINDING_ID, info['binding'], info['observed']),
                      {'kind': 'direct', 'what': 'out-of-domain', 'source': info['source'], 'file': info['file'],
                       'detail': repr(info['binding'])}, found_input=True)
    cov['correspondence_disagreements'] = len(bad_b) + len(bad_f) + len(bad_o)
    if (bad_b or bad_f) and nviol[0] == 0:
        # model/code (or twin/rule) disagree although the direct evaluator found nothing
        if bad_b:
            info = binding_cases[bad_b[0]][1]
            b = info['binding']
            ctx.violation('correspondence no longer checks for %d bindings: Coq report / rule vs lint / rule_py disagree, first: %s %r in %s scope, unread=%s, lint entry=%r, rule_py=%r'
                          % (len(bad_b), b['kind'], b['name'], b['own'], info['unread'], info['observed'], rule_py(b)),
                          {'kind': 'correspondence', 'theorem': 'C10_report_is_rule / check_binding', 'first': info},
                          found_input=bool(info.get('source')))
        else:
            info = file_cases[bad_f[0]][1]
            ctx.violation('file-level correspondence (lint_unused vs W01/W02 entries on never-read identifiers) fails on %d files, first %s'
                          % (len(bad_f), info['file']),
                          {'kind': 'correspondence', 'theorem': 'C10_partial / check_file', 'first': info},
                          found_input=bool(info.get('source')))
    elif bad_b or bad_f:
        cov['note_correspondence'] = 'disagreements coincide with direct violations already reported'
    if not proof_ok:
        ctx.violation('proof obligations of Props/C10.v not discharged: %s' % (ctx.notes,),
                      {'kind': 'proof', 'theorem': 'Props/C10.v', 'notes': ctx.notes,
                       'build_error': cov.get('build_error')}, found_input=False)


def exemption(b):
    if b['glob']:
        return 'global-declared'
    if b['name'].startswith('_'):
        return 'underscore'
    if b['kind'] == 'star':
        return 'star'
    if b['own'] in ('module', 'class'):
        if b['kind'] in IMPORT_KINDS:
            return 'future' if b['module'] == '__future__' else '?'
        return 'module/class-level non-import'
    if b['kind'] == 'param' and b['parent'] == 'class':
        return 'method parameter'
    return '?'


def replay(ctx, obj):
    from supp.project import Project
    r = obj['replay']
    src = r.get('source')
    if src is None and r.get('first'):
        src = r['first'].get('source')
        if src is None and r['first'].get('file') and os.path.exists(r['first']['file']):
            src = open(r['first']['file']).read()
    if src is None and r.get('file'):
        src = open(r['file']).read()
    if src is None:
        print(obj.get('what'))
        return 1
    ev = evaluate(src, 'replay.py', Project() if 'import *' in src else StubProject())
    print('status', ev['status'])
    print('W entries', ev.get('entries'))
    for b in ev.get('bindings') or []:
        if b['name'] not in ev['reads']:
            print('never-read binding', b['kind'], b['name'], b['own'], b['parent'], (b['line'], b['col']), '-> rule', rule_py(b))
    for p in ev['problems']:
        print('PROBLEM', p)
    return 1 if ev['problems'] or ev['status'] != 'ok' else 0
