"""C14 - MessagePack codec: lossless, spec-conformant, rejects truncation.

Decided by
  (1) Coq theorems C14_* (Props/C14.v) about Model/Msgpack.v (encode / decode / dispatch of
      supp/umsgpack.py) and Model/MsgpackSpec.v (the specification as the relation Enc, and an
      independent decoder spec_decode);
  (2) (I) the model's encode / decode against the real umsgpack.dumps / loads / unpack on boundary
      integers, boundary lengths, all 256 first bytes, every cut point, random nested values, random
      spec-valid streams in arbitrary legal formats, mutated streams, UTF-8 edge cases; the dispatch
      table read from the running module against the model's table; (R) spec_decode reads back what
      the real dumps produced, the Python twin of Enc is accepted by spec_decode, the Python twin of
      wf (real dict/hash semantics) agrees with the model's wf;
  (3) the direct evaluator: loads(dumps(v)) == v bit-exactly, every proper prefix raises
      InsufficientDataException, out-of-range integers raise UnsupportedTypeException, every
      legal form of a well-formed value is read back - real code only, no model in between.
"""
import glob
import io
import json
import os
import struct
import time

from common import VERIF, coq_list

LEVEL = 'proof'
ASSUMPTIONS = [
    'a Python str is represented by its UTF-8 bytes (str.encode / bytes.decode of CPython 3.12 is the boundary map; '
    'the model\'s UTF-8 automaton is compared with CPython\'s decoder on every run)',
    'a Python float is represented by its IEEE-754 binary64 bit pattern (struct.pack(">d")); float32 -> float64 '
    'widening is the C conversion of the platform (x86-64: quiets signalling NaNs), compared on every run',
    'CPython recursion limit: values nested deeper than ~300 levels raise RecursionError in the real codec; '
    'the theorems are about the unbounded mathematical model',
    'Ext type is 0..127 (umsgpack.Ext refuses other types; decoding an ext with type byte >= 0x80 raises TypeError - '
    'recorded observation, modelled as error ExtType)',
]

ERR_IDS = {'InsufficientDataException': 0, 'ReservedCodeException': 1, 'InvalidStringException': 2,
           'UnhashableKeyException': 3, 'DuplicateKeyException': 4, 'TypeError': 5}
ERR_NAMES = {v: k for k, v in ERR_IDS.items()}
OUT_OF_DOMAIN = {'mutated', 'twin_bad', 'collision', 'ext_type'}
FAMILY_IDS = {'_unpack_integer': 0, '_unpack_map': 1, '_unpack_array': 2, '_unpack_string': 3, '_unpack_nil': 4,
              '_unpack_reserved': 5, '_unpack_boolean': 6, '_unpack_binary': 7, '_unpack_ext': 8, '_unpack_float': 9}

IMPORTS = ['Model.Msgpack', 'Model.MsgpackSpec']

PRELUDE = r'''
Local Open Scope N_scope.
Inductive obs := OVal (v : value) (consumed : N) | OErr (e : N).
Inductive case :=
| CEnc (v : value) (out : option bytes)      (* dumps(v) = out, None = UnsupportedTypeException *)
| CDec (b : bytes) (o : obs)                  (* unpack(BytesIO(b)): value and fp.tell(), or exception class *)
| CSpec (b : bytes) (v : value)               (* spec_decode b = Some (v, []) *)
| CWf (v : value) (w : bool)                  (* wf v = w *)
| CRound (v : value) (b : bytes)              (* dumps(v) = b, unpack(b) = (v, len b), spec reads back, wf v *)
| CUtf8 (b : bytes) (ok : bool)               (* bytes.decode('utf-8') succeeds *)
| CWiden (x : N) (y : N)                      (* struct.unpack('>f') widened = y *)
| CTable (t : list N).                        (* families of _unpack_dispatch_table for codes 0..255 *)

Definition opt_bytes_eqb (a b : option bytes) : bool :=
  match a, b with
  | Some x, Some y => bytes_eqb x y
  | None, None => true
  | _, _ => false
  end.

Definition dec_agrees (b : bytes) (o : obs) : bool :=
  match decode b, o with
  | Ok (v, rest), OVal v' n => value_eqb v v' && (len rest + n =? len b)
  | Err e, OErr k => error_id e =? k
  | _, _ => false
  end.

Definition spec_agrees (b : bytes) (v : value) : bool :=
  match spec_decode b with
  | Some (v', []) => value_eqb v v'
  | _ => false
  end.

Definition check_case (c : case) : bool :=
  match c with
  | CEnc v out => opt_bytes_eqb (encode v) out
  | CDec b o => dec_agrees b o
  | CSpec b v => spec_agrees b v
  | CWf v w => Bool.eqb (wf v) w
  | CRound v b => opt_bytes_eqb (encode v) (Some b) && dec_agrees b (OVal v (len b)) && spec_agrees b v && wf v
  | CUtf8 b ok => Bool.eqb (utf8_valid b) ok
  | CWiden x y => widen32 x =? y
  | CTable t => bytes_eqb dispatch_table t
  end.

(* a 2-4 byte unit (one multi-byte UTF-8 character) repeated n times *)
Definition rpb (u : bytes) (n : N) : bytes := List.concat (repeat u (N.to_nat n)).

(* {0: None, 1: None, ..., n-1: None} *)
Fixpoint intmap_from (k : nat) (i : Z) : list (value * value) :=
  match k with O => [] | S k' => (Int i, Nil) :: intmap_from k' (i + 1)%Z end.
Definition intmap (n : N) : value := Map (intmap_from (N.to_nat n) 0%Z).
'''


# ---------------------------------------------------------------------------------------------
# model values in Python ("mv"): ('nil',) ('bool',b) ('int',z) ('f64',bits) ('str',utf8) ('bin',b)
# ('arr',[..]) ('map',[(k,v)..]) ('ext',ty,b)
# ---------------------------------------------------------------------------------------------

NIL = ('nil',)


def f64_bits(x):
    return struct.unpack('>Q', struct.pack('>d', x))[0]


def bits_f64(b):
    return struct.unpack('>d', struct.pack('>Q', b))[0]


def from_py(o, um):
    if o is None:
        return NIL
    if isinstance(o, bool):
        return ('bool', o)
    if isinstance(o, int):
        return ('int', o)
    if isinstance(o, float):
        return ('f64', f64_bits(o))
    if isinstance(o, str):
        return ('str', o.encode('utf-8'))
    if isinstance(o, bytes):
        return ('bin', o)
    if isinstance(o, (list, tuple)):
        return ('arr', [from_py(e, um) for e in o])
    if isinstance(o, dict):
        return ('map', [(from_py(k, um), from_py(v, um)) for k, v in o.items()])
    if isinstance(o, um.Ext):
        return ('ext', o.type, o.data)
    raise ValueError('value outside the data model: %r' % (type(o),))


class NoPython(Exception):
    """the model value has no Python counterpart (invalid UTF-8, unhashable / colliding keys, ...)"""


def to_py(v, um, key=False):
    t = v[0]
    if t == 'nil':
        return None
    if t in ('bool', 'int'):
        return v[1]
    if t == 'f64':
        if v[1] >= 2 ** 64:
            raise NoPython('float bits')
        return bits_f64(v[1])
    if t == 'str':
        try:
            return v[1].decode('utf-8')
        except UnicodeDecodeError:
            raise NoPython('utf-8')
    if t == 'bin':
        return v[1]
    if t == 'arr':
        items = [to_py(e, um, key) for e in v[1]]
        return tuple(items) if key else items
    if t == 'map':
        d = {}
        for k, x in v[1]:
            try:
                kp = to_py(k, um, True)
                if kp in d:
                    raise NoPython('colliding keys')
                d[kp] = to_py(x, um)
            except TypeError:
                raise NoPython('unhashable key')
        return d
    if t == 'ext':
        try:
            return um.Ext(v[1], v[2])
        except TypeError:
            raise NoPython('ext type')
    raise ValueError(t)


def wf_py(v, um):
    """Python twin of Model/Msgpack.wf, using the real hash / dict semantics for keys."""
    t = v[0]
    if t in ('nil', 'bool'):
        return True
    if t == 'int':
        return -2 ** 63 <= v[1] < 2 ** 64
    if t == 'f64':
        return v[1] < 2 ** 64
    if t == 'str':
        try:
            v[1].decode('utf-8')
            return True
        except UnicodeDecodeError:
            return False
    if t == 'bin':
        return True
    if t == 'ext':
        return 0 <= v[1] <= 127
    if t == 'arr':
        return all(wf_py(e, um) for e in v[1])
    if t == 'map':
        if not all(wf_py(k, um) and wf_py(x, um) for k, x in v[1]):
            return False
        d = {}
        for k, _x in v[1]:
            try:
                kp = to_py(k, um, True)
                if kp in d:
                    return False
                d[kp] = 1
            except (TypeError, NoPython):
                return False
        return True
    raise ValueError(t)


def mv_json(v):
    t = v[0]
    if t == 'nil':
        return {'t': 'nil'}
    if t == 'bool':
        return {'t': 'bool', 'v': bool(v[1])}
    if t == 'int':
        return {'t': 'int', 'v': str(v[1])}
    if t == 'f64':
        return {'t': 'f64', 'bits': '%016x' % v[1]}
    if t in ('str', 'bin'):
        return {'t': t, 'hex': _short_hex(v[1])}
    if t == 'ext':
        return {'t': 'ext', 'ty': v[1], 'hex': _short_hex(v[2])}
    if t == 'arr':
        return {'t': 'arr', 'items': _short_list([mv_json(e) for e in v[1]])}
    if t == 'map':
        return {'t': 'map', 'items': _short_list([[mv_json(k), mv_json(x)] for k, x in v[1]])}
    raise ValueError(t)


def _short_hex(b):
    if len(b) > 64 and len(set(b)) == 1:
        return {'repeat': '%02x' % b[0], 'n': len(b)}
    return b.hex()


def _short_list(l):
    if len(l) > 64 and all(x == l[0] for x in l):
        return {'repeat': l[0], 'n': len(l)}
    if len(l) > 64 and all(isinstance(x, list) and x[0].get('t') == 'int' for x in l) and \
            [int(x[0]['v']) for x in l] == list(range(len(l))) and all(x[1] == {'t': 'nil'} for x in l):
        return {'intmap': len(l)}
    return l


def _unhex(h):
    if isinstance(h, dict):
        return bytes.fromhex(h['repeat']) * h['n']
    return bytes.fromhex(h)


def _unlist(l, f):
    if isinstance(l, dict):
        if 'intmap' in l:
            return [[{'t': 'int', 'v': str(i)}, {'t': 'nil'}] for i in range(l['intmap'])]
        return [l['repeat']] * l['n']
    return l


def json_mv(j):
    t = j['t']
    if t == 'nil':
        return NIL
    if t == 'bool':
        return ('bool', bool(j['v']))
    if t == 'int':
        return ('int', int(j['v']))
    if t == 'f64':
        return ('f64', int(j['bits'], 16))
    if t in ('str', 'bin'):
        return (t, _unhex(j['hex']))
    if t == 'ext':
        return ('ext', j['ty'], _unhex(j['hex']))
    if t == 'arr':
        return ('arr', [json_mv(e) for e in _unlist(j['items'], None)])
    if t == 'map':
        return ('map', [(json_mv(k), json_mv(x)) for k, x in _unlist(j['items'], None)])
    raise ValueError(t)


# ---------------------------------------------------------------------------------------------
# Gallina printers
# ---------------------------------------------------------------------------------------------

def _lit(b):
    return '[' + ';'.join('%d' % x for x in b) + ']'


def intmap_bytes_term(out, n):
    """the encoding of {0: None, ..., n-1: None} as header ++ arithmetic segments (a compression of the
    literal: Coq parses ~10^4 list items per second). Falls back to the literal when the real bytes are
    not of that shape."""
    segs = []
    body = b''
    for lo, hi, pre, k in ((0, 128, b'', 1), (128, 256, b'\xcc', 1), (256, 65536, b'\xcd', 2), (65536, 2 ** 32, b'\xce', 4)):
        a, z = lo, min(hi, n)
        if a < z:
            segs.append('seg %d %d %s %d [192]' % (a, z - a, _lit(pre), k))
            body += b''.join(pre + i.to_bytes(k, 'big') + b'\xc0' for i in range(a, z))
    if len(out) >= len(body) and out[len(out) - len(body):] == body and len(out) - len(body) <= 5:
        return '(' + ' ++ '.join([_lit(out[:len(out) - len(body)])] + segs) + ')'
    return bytes_term(out)


def _run_at(b, i):
    """longest periodic run (period 1..4) starting at i: (period, repeats)"""
    n = len(b)
    best = (1, 1)
    for per in (1, 2, 3, 4):
        if i + per > n:
            break
        unit = b[i:i + per]
        k = 1
        j = i + per
        while b[j:j + per] == unit:
            k += 1
            j += per
        if per * k > best[0] * best[1] and (per == 1 or len(set(unit)) > 1):
            best = (per, k)
    return best


def bytes_term(b):
    """bytes -> Gallina term of type `bytes`; long runs as `rp x n` (one byte) or `rpb [unit] n`
    (a repeated 2-4 byte unit, e.g. one multi-byte UTF-8 character), the rest as literals."""
    if len(b) == 0:
        return '[]'
    if len(b) <= 12:
        return _lit(b)
    segs = []
    i = 0
    n = len(b)
    lit_start = 0
    while i < n:
        per, k = _run_at(b, i)
        if per * k >= 32:
            if lit_start < i:
                segs.append(_lit(b[lit_start:i]))
            if per == 1:
                segs.append('rp %d %d' % (b[i], k))
            else:
                segs.append('rpb %s %d' % (_lit(b[i:i + per]), k))
            i += per * k
            lit_start = i
        else:
            i += 1
    if lit_start < n:
        segs.append(_lit(b[lit_start:n]))
    return '(' + ' ++ '.join(segs) + ')'


def value_term(v):
    t = v[0]
    if t == 'nil':
        return 'Nil'
    if t == 'bool':
        return '(Bool true)' if v[1] else '(Bool false)'
    if t == 'int':
        return '(Int (%d)%%Z)' % v[1]
    if t == 'f64':
        return '(F64 %d)' % v[1]
    if t == 'str':
        return '(Str %s)' % bytes_term(v[1])
    if t == 'bin':
        return '(Bin %s)' % bytes_term(v[1])
    if t == 'ext':
        return '(Ext %d %s)' % (v[1], bytes_term(v[2]))
    if t == 'arr':
        l = v[1]
        if len(l) > 40 and all(x == l[0] for x in l):
            return '(Arr (rpv %s %d))' % (value_term(l[0]), len(l))
        return '(Arr [%s])' % '; '.join(value_term(e) for e in l)
    if t == 'map':
        l = v[1]
        if len(l) > 40 and all(x == NIL for _k, x in l) and [k for k, _x in l] == [('int', i) for i in range(len(l))]:
            return '(intmap %d)' % len(l)
        return '(Map [%s])' % '; '.join('(%s, %s)' % (value_term(k), value_term(x)) for k, x in l)
    raise ValueError(t)


def obs_term(o):
    if o[0] == 'ok':
        return '(OVal %s %d)' % (value_term(o[1]), o[2])
    return '(OErr %d)' % o[1]


def opt_bytes_term(b):
    return 'None' if b is None else '(Some %s)' % bytes_term(b)


# ---------------------------------------------------------------------------------------------
# running the real code
# ---------------------------------------------------------------------------------------------

class Real(object):
    def __init__(self):
        from supp import umsgpack as um
        self.um = um

    def dumps(self, mv):
        """bytes, or None for UnsupportedTypeException; other exceptions propagate as ('exc', name)."""
        obj = to_py(mv, self.um)
        try:
            return self.um.dumps(obj)
        except self.um.UnsupportedTypeException:
            return None

    def unpack(self, b):
        """('ok', mv, consumed) or ('err', id, name)."""
        um = self.um
        fp = io.BytesIO(b)
        try:
            o = um.unpack(fp)
        except (um.UnpackException, TypeError) as e:
            name = type(e).__name__
            return ('err', ERR_IDS.get(name, 99), name)
        except Exception as e:                               # noqa - anything else is a disagreement
            return ('err', 98, type(e).__name__)
        return ('ok', from_py(o, um), fp.tell())

    def loads(self, b):
        um = self.um
        try:
            o = um.loads(b)
        except (um.UnpackException, TypeError) as e:
            name = type(e).__name__
            return ('err', ERR_IDS.get(name, 99), name)
        except Exception as e:                               # noqa
            return ('err', 98, type(e).__name__)
        return ('ok', from_py(o, um), None)

    def table(self):
        """family ids of _unpack_dispatch_table for codes 0..255 (private attribute: fail closed)."""
        t = getattr(self.um, '_unpack_dispatch_table', None)
        if not isinstance(t, dict):
            return None
        out = []
        for c in range(256):
            f = t.get(bytes([c]))
            fid = FAMILY_IDS.get(getattr(f, '__name__', None))
            if fid is None:
                return None
            out.append(fid)
        return out


# ---------------------------------------------------------------------------------------------
# direct evaluator of the property (real code only)
# ---------------------------------------------------------------------------------------------

def has_bad_int(v):
    t = v[0]
    if t == 'int':
        return not (-2 ** 63 <= v[1] < 2 ** 64)
    if t == 'arr':
        return any(has_bad_int(e) for e in v[1])
    if t == 'map':
        return any(has_bad_int(k) or has_bad_int(x) for k, x in v[1])
    return False


def cut_points(n, rng, limit):
    if n <= limit:
        return list(range(n))
    if limit < 20:
        return sorted(p for p in {0, 1, 2, 3, 4, 5, 6, n // 2, n - 1} if 0 <= p < n)
    pts = set(range(0, 12)) | set(range(n - 6, n)) | {n // 2}
    while len(pts) < min(limit, 40):
        pts.add(rng.randrange(n))
    return sorted(p for p in pts if 0 <= p < n)


def direct_value(real, mv, rng, cut_limit=80):
    """The property on one value of the data model. Returns a list of failure descriptions."""
    um = real.um
    fails = []
    try:
        obj = to_py(mv, um)
    except NoPython:
        return fails
    if has_bad_int(mv):
        try:
            b = um.dumps(obj)
            fails.append('out-of-range integer was packed (%d bytes) instead of refused' % len(b))
        except um.UnsupportedTypeException:
            pass
        except Exception as e:                                # noqa
            fails.append('out-of-range integer raised %s, not UnsupportedTypeException' % type(e).__name__)
        return fails
    try:
        b = um.dumps(obj)
    except Exception as e:                                    # noqa
        fails.append('dumps raised %s on a value of the data model' % type(e).__name__)
        return fails
    r = real.loads(b)
    if r[0] != 'ok':
        fails.append('loads(dumps(v)) raised %s' % r[2])
    elif r[1] != mv:
        fails.append('loads(dumps(v)) != v')
    ru = real.unpack(b)
    if ru[0] == 'ok' and ru[2] != len(b):
        fails.append('dumps returned %d bytes but the encoding ends after %d' % (len(b), ru[2]))
        return fails
    for p in cut_points(len(b), rng, cut_limit):
        try:
            um.loads(b[:p])
            fails.append('proper prefix of length %d of %d accepted' % (p, len(b)))
            break
        except um.InsufficientDataException:
            pass
        except Exception as e:                                # noqa
            fails.append('proper prefix of length %d of %d raised %s' % (p, len(b), type(e).__name__))
            break
    return fails


def direct_stream(real, mv, b, rng, cut_limit=80):
    """The property on one spec-valid stream b of a well-formed value mv."""
    um = real.um
    fails = []
    r = real.unpack(b)
    if r[0] != 'ok':
        fails.append('spec-valid encoding refused with %s' % r[2])
    elif r[1] != mv or r[2] != len(b):
        fails.append('spec-valid encoding read back as a different value')
    for p in cut_points(len(b), rng, cut_limit):
        try:
            um.loads(b[:p])
            fails.append('proper prefix of length %d of %d accepted' % (p, len(b)))
            break
        except um.InsufficientDataException:
            pass
        except Exception as e:                                # noqa
            fails.append('proper prefix of length %d of %d raised %s' % (p, len(b), type(e).__name__))
            break
    return fails


# ---------------------------------------------------------------------------------------------
# generators
# ---------------------------------------------------------------------------------------------

INT_BOUNDS = [2 ** 5, 2 ** 7, 2 ** 8, 2 ** 15, 2 ** 16, 2 ** 31, 2 ** 32, 2 ** 63, 2 ** 64]
LEN_BOUNDS = [15, 16, 31, 32, 255, 256, 65535, 65536]

F64_SPECIALS = [0x0, 0x8000000000000000, 0x3ff0000000000000, 0xbff0000000000000, 0x7ff0000000000000,
                0xfff0000000000000, 0x7ff8000000000000, 0x7ff0000000000001, 0xfff8000000000001, 0x1,
                0x000fffffffffffff, 0x0010000000000000, 0x7fefffffffffffff, 0x4000000000000000,
                0x4330000000000000, 0x43e0000000000000, 0x43f0000000000000, 0xc3e0000000000000, 0x3fe0000000000000]
F32_SPECIALS = [0x0, 0x80000000, 0x3f800000, 0xbf800000, 0x7f800000, 0xff800000, 0x7fc00000, 0x7f800001, 0xffc00001,
                0x7fa00000, 0x1, 0x2, 0x3, 0x007fffff, 0x00400000, 0x00800000, 0x7f7fffff, 0x40490fdb, 0x00000100,
                0x80000001, 0x4f000000, 0x5f000000]

UTF8_SAMPLES = [b'', b'a', b'hello', 'h\u00e9llo'.encode(), '\u20ac'.encode(), '\U0001f600'.encode(),
                '\ud7ff'.encode(), '\ue000'.encode(), '\U0010ffff'.encode(), '\x00\x7f'.encode(),
                '\u0080\u07ff\u0800\uffff'.encode(), '\U00010000'.encode()]
UTF8_BAD = [b'\x80', b'\xbf', b'\xc0\x80', b'\xc1\xbf', b'\xc2', b'\xc2\x7f', b'\xc2\xc0', b'\xe0\x80\x80', b'\xe0\x9f\xbf',
            b'\xe0\xa0', b'\xed\xa0\x80', b'\xed\xbf\xbf', b'\xef\xbf', b'\xf0\x80\x80\x80', b'\xf0\x8f\xbf\xbf',
            b'\xf0\x90\x80', b'\xf4\x90\x80\x80', b'\xf5\x80\x80\x80', b'\xf8\x88\x80\x80\x80', b'\xff', b'\xfe',
            b'a\xe2\x82', b'\xe2\x28\xa1', b'\xf4\x8f\xbf\xc0', b'\xe1\x80\xc0', b'\xf1\x80\x80\x7f']


def widen32_py(b):
    """Python twin of Model/Msgpack.widen32 (cross-checked in Coq and against struct on every run)."""
    s = (b >> 31) & 1
    e = (b >> 23) & 0xff
    f = b & 0x7fffff
    sign = s << 63
    if e == 255:
        if f == 0:
            return sign | (2047 << 52)
        return sign | (2047 << 52) | (f << 29) | (1 << 51)
    if e == 0:
        if f == 0:
            return sign
        k = f.bit_length()
        return sign | ((k + 873) << 52) | ((f << (53 - k)) & ((1 << 52) - 1))
    return sign | ((e + 896) << 52) | (f << 29)


# code points that codecs, terminals and text layers treat specially: BOM / reversed BOM / non-characters, NUL
# and other controls, line and paragraph separators, zero-width and bidi marks, the ends of the BMP planes
# around the surrogate block, replacement character, the last code point
SPECIAL_CPS = [0xfeff, 0xfffe, 0xffff, 0x0, 0x1, 0x7f, 0x80, 0x85, 0xa0, 0xad, 0x2028, 0x2029, 0x200b, 0x200e, 0x202e,
               0xd7ff, 0xe000, 0xfffd, 0xfdd0, 0x10000, 0x1fffe, 0x10ffff, 0xd, 0xa, 0x9, 0x1a, 0x1b, 0xef, 0xbb, 0xbf]


def special_strings(rng, quick):
    """strings with a special code point at the START (also alone, doubled, in the middle, at the end), padded
    across the 31/32 and 255/256 byte boundaries: a decoder that strips / normalises / refuses any of them
    (utf-8-sig, errors=replace, C strings, newline translation) loses information exactly there."""
    out = []
    for cp in SPECIAL_CPS:
        c = chr(cp)
        w = len(c.encode('utf-8'))
        out += [c, c + c, c + 'a', 'a' + c, c + 'abc' + c, c + '\u0436' + c + 'x']
        for target in ((31, 32, 33) if quick else (30, 31, 32, 33, 34)):
            out.append(c + 'p' * (target - w))
        for target in ((255, 256) if quick else (254, 255, 256, 257, 258)):
            out.append(c + 'q' * (target - w))
        if not quick:
            out.append(c + 'r' * (65536 - w))
            out.append(c + 'r' * (65535 - w))
    out += ['\ufeff' + 'z' * (65536 - 3), '\ufeff' + 'z' * (65535 - 3), '\x00' + 'z' * 65535, '\ufffe' * 3, '\ufeff\ufeff\ufeff',
            '\r\n', '\n\r', 'a\x00b', '\x00' * 5]
    seen = set()
    res = []
    for st in out:
        if st not in seen:
            seen.add(st)
            res.append(st)
    return res


def rand_utf8(rng, maxlen=12):
    n = rng.choice([0, 1, 1, 2, 3, 5, maxlen])
    out = []
    if rng.random() < 0.15:
        out.append(chr(rng.choice(SPECIAL_CPS)))        # a special code point first
    for _ in range(n):
        k = rng.random()
        if k < 0.6:
            cp = rng.randrange(0x20, 0x7f)
        elif k < 0.75:
            cp = rng.randrange(0x80, 0x800)
        elif k < 0.9:
            cp = rng.choice([rng.randrange(0x800, 0xd800), rng.randrange(0xe000, 0x10000)])
        else:
            cp = rng.randrange(0x10000, 0x110000)
        out.append(chr(cp))
    return ''.join(out).encode('utf-8')


def rand_bytes(rng, n):
    return bytes(rng.randrange(256) for _ in range(n))


def rand_int(rng):
    k = rng.random()
    if k < 0.3:
        return rng.randrange(-40, 140)
    if k < 0.8:
        b = rng.choice(INT_BOUNDS)
        return rng.choice([1, -1]) * b + rng.randrange(-3, 4)
    return rng.randrange(-2 ** 63, 2 ** 64)


def rand_f64(rng):
    k = rng.random()
    if k < 0.4:
        return rng.choice(F64_SPECIALS)
    if k < 0.6:
        return f64_bits(float(rng.randrange(-5, 300)))
    if k < 0.75:
        return widen32_py(rng.choice(F32_SPECIALS))
    return rng.getrandbits(64)


def rand_scalar(rng, key=False):
    k = rng.randrange(9 if not key else 8)
    if k == 0:
        return NIL
    if k == 1:
        return ('bool', rng.random() < 0.5)
    if k in (2, 3):
        return ('int', rand_int(rng) if not key else rng.choice([0, 1, 2, -1, rand_int(rng)]))
    if k == 4:
        return ('f64', rand_f64(rng) if not key else rng.choice([f64_bits(0.0), f64_bits(1.0), f64_bits(-0.0), f64_bits(2.0),
                                                                   0x7ff8000000000000, rand_f64(rng)]))
    if k in (5, 6):
        return ('str', rand_utf8(rng))
    if k == 7:
        return ('bin', rand_bytes(rng, rng.choice([0, 1, 2, 4, 7])))
    return ('ext', rng.randrange(128), rand_bytes(rng, rng.choice([0, 1, 2, 3, 4, 5, 8, 9, 16, 17])))


def rand_value(rng, depth, key=False, allow_bad=0.0):
    """random value; with probability allow_bad a map gets colliding / unhashable keys."""
    if depth <= 0 or rng.random() < 0.35:
        return rand_scalar(rng, key)
    if key or rng.random() < 0.5:
        n = rng.choice([0, 1, 2, 3, 3, 5])
        return ('arr', [rand_value(rng, depth - 1, key, allow_bad) for _ in range(n)])
    n = rng.choice([0, 1, 2, 3, 4])
    items = []
    for _ in range(n):
        if rng.random() < allow_bad:
            k = rng.choice([('map', []), ('ext', 1, b'x'), ('arr', [('map', [])]), ('arr', [('ext', 2, b'')]),
                            ('bool', True), ('int', 1), ('f64', f64_bits(1.0)), ('int', 0), ('f64', f64_bits(-0.0)),
                            ('bool', False), ('arr', [('int', 1)]), ('arr', [('bool', True)]), ('arr', [('f64', f64_bits(1.0))]),
                            ('str', b'a'), ('bin', b'a'), ('f64', 0x7ff8000000000000), ('arr', [('f64', 0x7ff8000000000000)]),
                            ('int', 2 ** 53), ('f64', f64_bits(2.0 ** 53)), ('int', 2 ** 53 + 1), ('f64', f64_bits(2.0 ** 63)),
                            ('int', 2 ** 63), ('f64', f64_bits(0.5)), NIL, ('arr', [])])
        else:
            k = rand_value(rng, min(depth - 1, 2), True, 0.0)
        items.append((k, rand_value(rng, depth - 1, False, allow_bad)))
    return ('map', items)


def dedupe_keys(v, um):
    """make a random value well-formed with respect to keys (drop colliding / unhashable keys)."""
    t = v[0]
    if t == 'arr':
        return ('arr', [dedupe_keys(e, um) for e in v[1]])
    if t == 'map':
        d = {}
        out = []
        for k, x in v[1]:
            try:
                kp = to_py(k, um, True)
                if kp in d:
                    continue
                d[kp] = 1
            except (TypeError, NoPython):
                continue
            out.append((k, dedupe_keys(x, um)))
        return ('map', out)
    return v


def be(n, k):
    return n.to_bytes(k, 'big')


def twin_int(z, rng, pick=None):
    """all legal int formats of z (the Python twin of IntEnc)."""
    forms = []
    if 0 <= z < 128:
        forms.append(('posfix', bytes([z])))
    if -32 <= z < 0:
        forms.append(('negfix', bytes([z + 256])))
    for k, code in ((1, 0xcc), (2, 0xcd), (4, 0xce), (8, 0xcf)):
        if 0 <= z < 256 ** k:
            forms.append(('uint%d' % (8 * k), bytes([code]) + be(z, k)))
    for k, code in ((1, 0xd0), (2, 0xd1), (4, 0xd2), (8, 0xd3)):
        if -(256 ** k) // 2 <= z < (256 ** k) // 2:
            forms.append(('int%d' % (8 * k), bytes([code]) + be(z % (256 ** k), k)))
    return forms


def twin_len(n, rng, fix, codes):
    """legal headers for a length: fix = (base, limit) or None; codes = [(k, code)]."""
    forms = []
    if fix is not None and n < fix[1]:
        forms.append(('fix', bytes([fix[0] + n])))
    for k, code in codes:
        if n < 256 ** k:
            forms.append(('%d' % (8 * k), bytes([code]) + be(n, k)))
    return forms


def twin_encode(v, rng, hist=None):
    """Python twin of the relation Enc: a random legal serialisation of v (any format)."""
    t = v[0]

    def choose(forms, fam):
        name, b = rng.choice(forms)
        if hist is not None:
            hist(fam + ':' + name)
        return b
    if t == 'nil':
        return b'\xc0'
    if t == 'bool':
        return b'\xc3' if v[1] else b'\xc2'
    if t == 'int':
        forms = twin_int(v[1], rng)
        if not forms:
            raise NoPython('int range')
        return choose(forms, 'int')
    if t == 'f64':
        if v[1] >= 2 ** 64:
            raise NoPython('float bits')
        forms = [('f64', b'\xcb' + be(v[1], 8))]
        x = bits_f64(v[1])
        try:
            b32 = struct.unpack('>I', struct.pack('>f', x))[0]
            if widen32_py(b32) == v[1]:
                forms.append(('f32', b'\xca' + be(b32, 4)))
        except OverflowError:
            pass
        return choose(forms, 'float')
    if t == 'str':
        return choose(twin_len(len(v[1]), rng, (0xa0, 32), [(1, 0xd9), (2, 0xda), (4, 0xdb)]), 'str') + v[1]
    if t == 'bin':
        return choose(twin_len(len(v[1]), rng, None, [(1, 0xc4), (2, 0xc5), (4, 0xc6)]), 'bin') + v[1]
    if t == 'ext':
        if not 0 <= v[1] <= 127:
            raise NoPython('ext type')
        n = len(v[2])
        forms = [('%d' % (8 * k), bytes([code]) + be(n, k)) for k, code in ((1, 0xc7), (2, 0xc8), (4, 0xc9)) if n < 256 ** k]
        fixed = {1: 0xd4, 2: 0xd5, 4: 0xd6, 8: 0xd7, 16: 0xd8}
        if n in fixed:
            forms.append(('fix%d' % n, bytes([fixed[n]])))
        return choose(forms, 'ext') + bytes([v[1]]) + v[2]
    if t == 'arr':
        h = choose(twin_len(len(v[1]), rng, (0x90, 16), [(2, 0xdc), (4, 0xdd)]), 'arr')
        return h + b''.join(twin_encode(e, rng, hist) for e in v[1])
    if t == 'map':
        h = choose(twin_len(len(v[1]), rng, (0x80, 16), [(2, 0xde), (4, 0xdf)]), 'map')
        return h + b''.join(twin_encode(k, rng, hist) + twin_encode(x, rng, hist) for k, x in v[1])
    raise ValueError(t)


def kind_of(v):
    return v[0]


def depth_of(v):
    if v[0] == 'arr':
        return 1 + max([depth_of(e) for e in v[1]] or [0])
    if v[0] == 'map':
        return 1 + max([max(depth_of(k), depth_of(x)) for k, x in v[1]] or [0])
    return 0


# ---------------------------------------------------------------------------------------------
# the check
# ---------------------------------------------------------------------------------------------

class Cases(object):
    """collects case terms together with what is needed to search / replay a disagreement.
    Bounded: once the check has enough concrete failures, or the generation phase exceeds its time or
    volume budget, nothing more is generated (`stopped`); an overrun without any failing input is reported
    as a violation (no-failing-input-found), never as a silent timeout."""

    def __init__(self, ctx):
        self.ctx = ctx
        self.small = []      # (term, info)
        self.big = []        # (term, info) - a few per shard
        self.volume = 0
        self.stopped = False
        self.overrun = None
        self.max_volume = ctx.pick(40, 300) * 1000 * 1000
        self.deadline = ctx.t0 + ctx.pick(420, 1100)

    def check_budget(self):
        if self.stopped:
            return
        if self.volume > self.max_volume:
            self.stopped = True
            self.overrun = 'case volume %d bytes exceeds the budget of %d' % (self.volume, self.max_volume)
        elif time.time() > self.deadline:
            self.stopped = True
            self.overrun = 'input generation exceeded its time budget (%d s)' % (self.deadline - self.ctx.t0)

    def add(self, term, info, big=False):
        if self.stopped:
            return
        self.volume += len(term)
        (self.big if big or len(term) > 60000 else self.small).append((term, info))
        self.check_budget()


def boundary_ints():
    out = []
    for b in INT_BOUNDS:
        for s in (1, -1):
            for d in range(-3, 4):
                out.append(s * b + d)
    out += [0, 1, -1, 127, 128, -32, -33]
    return sorted(set(out))


def boundary_lengths(ctx):
    out = []
    for b in LEN_BOUNDS:
        for d in range(-2, 3):
            out.append(b + d)
    return sorted(set(out))


WIDE_UNITS = [(2, '\u0436'), (2, '\u00e9'), (3, '\u4e2d'), (3, '\u20ac'), (4, '\U0001f600'), (4, '\U00010000')]
STR_BOUNDS = [31, 32, 255, 256, 65535, 65536]


def wide_strings(rng, quick):
    """non-ASCII strings whose CHARACTER count and whose UTF-8 BYTE count are swept across every str
    format boundary (31/32, 255/256, 65535/65536) +-2, for 2-, 3- and 4-byte code points and mixtures:
    a packer that chooses the format from len(str) instead of len(utf8) is wrong exactly there.
    Yields (label, python str)."""
    seen = set()

    def emit(label, st):
        if st not in seen:
            seen.add(st)
            return [(label, st)]
        return []
    out = []
    units = WIDE_UNITS if not quick else [WIDE_UNITS[0], WIDE_UNITS[2], WIDE_UNITS[4]]
    for w, ch in units:
        for b in STR_BOUNDS:
            # character count across the boundary (byte count = w * k is far above it)
            for k in range(b - 2, b + 3):
                out += emit('chars%d_w%d' % (b, w), ch * k)
            # byte count across the boundary (character count far below it): pad with ASCII to hit every length
            for nbytes in range(b - 2, b + 3):
                k, pad = divmod(nbytes, w)
                out += emit('bytes%d_w%d' % (b, w), 'a' * pad + ch * k)
                if k > 1 and b < 1000:
                    out += emit('bytes%d_w%d' % (b, w), ch * (k - 1) + 'b' * (pad + w))
    # mixtures of widths around the small boundaries, character count and byte count on opposite sides
    for b in (31, 32, 255, 256):
        for _ in range(6 if quick else 30):
            target = b + rng.randrange(-2, 3)
            st = []
            nb = 0
            while nb < target:
                w, ch = rng.choice(WIDE_UNITS + [(1, 'x')])
                if nb + w > target:
                    w, ch = 1, 'y'
                st.append(ch)
                nb += w
            rng.shuffle(st)
            out += emit('mixed%d' % b, ''.join(st))
    return out


def dumps_sequences(rng, um, quick):
    """sequences of values to be packed one after the other in the same process: a long encoding followed by
    shorter ones of every kind, alternations, and random sequences of mixed sizes."""
    longs = [('arr', [('int', i) for i in range(40)]),
             ('str', b'x' * 300),
             ('bin', bytes(range(256)) * 4),
             ('map', [(('int', i), ('str', b'v%d' % i)) for i in range(20)]),
             ('arr', [('str', '\u0436'.encode('utf-8') * 40)] * 10),
             ('ext', 7, b'\x01' * 70000),
             ('arr', [('map', [(('str', b'k'), ('arr', [('f64', f64_bits(1.5)), NIL]))])] * 30)]
    shorts = [NIL, ('bool', True), ('bool', False), ('int', 0), ('int', -1), ('int', 2 ** 40), ('int', -2 ** 63),
              ('f64', f64_bits(0.5)), ('str', b''), ('str', b'ab'), ('bin', b''), ('bin', b'\x00'), ('arr', []),
              ('map', []), ('ext', 1, b''), ('ext', 2, b'ab'), ('arr', [NIL, ('int', 1)]), ('map', [(('int', 1), NIL)])]
    out = []
    for l in longs:
        picks = shorts if not quick else rng.sample(shorts, 6)
        for sh in picks:
            out.append([l, sh])
    out.append([longs[0], NIL, longs[1], ('int', 5), longs[3], ('str', b'a'), NIL])
    out.append([NIL, longs[0], NIL])
    out.append([('int', 2 ** 64), longs[0], ('int', 2 ** 64), NIL])          # a refusal between two calls
    for _ in range(20 if quick else 300):
        k = rng.randrange(2, 7)
        seq = [dedupe_keys(rand_value(rng, rng.choice([0, 1, 2, 3, 4])), um) for _ in range(k)]
        if rng.random() < 0.6:
            # longest first, then the others in random order
            try:
                seq.sort(key=lambda v: -len(um.dumps(to_py(v, um))))
            except Exception:                                  # noqa - out-of-range ints etc. stay where they are
                pass
            tail = seq[1:]
            rng.shuffle(tail)
            seq = seq[:1] + tail
        out.append(seq)
    return out


def length_values(n):
    """one value of each sized kind with length n (constant payloads keep the literals small)."""
    return [('str', ('str', b'a' * n)), ('bin', ('bin', b'\x00' * n)), ('ext', ('ext', 5, b'\x07' * n)),
            ('arr', ('arr', [('int', 1)] * n)), ('map', ('map', [(('int', i), NIL) for i in range(n)]))]


def run(ctx):
    real = Real()
    um = real.um
    rng = ctx.rng
    cov = ctx.coverage
    proof_ok = ctx.coq_props()
    cov['rule'] = (
        '(I) model encode/decode/dispatch vs umsgpack.dumps/unpack/loads/_unpack_dispatch_table, compared inside Coq '
        '(vm_compute): every integer within +-3 of +-2^5,2^7,2^8,2^15,2^16,2^31,2^32,2^63,2^64; str/bin/ext/array/map of every '
        'length within +-2 of 15,16,31,32,255,256,65535,65536; SEQUENCES of dumps calls in one process (long then short values of '
        'every kind, alternations, random mixes): each output byte-for-byte against the model and of exact length; non-ASCII strings (2-, 3-, 4-byte code points and mixtures) with the '
        'character count and the UTF-8 byte count each swept +-2 across 31/32, 255/256, 65535/65536, alone, as map keys and nested; strings STARTING with a special code point (U+FEFF, U+FFFE, U+FFFF, NUL, controls, '
        'U+2028/9, zero-width/bidi marks, U+D7FF/U+E000, U+FFFD, U+10FFFF ...) alone, padded across 31/32 and 255/256, in every '
        'legal str format, as map keys next to their suffix and to \'\', nested, in dumps sequences; all 256 first bytes with empty/random/valid tails; every cut '
        'point of every encoding up to 80 bytes (sampled above); random nested values to depth 6; random spec-valid streams in '
        'arbitrary legal formats from the Python twin of Enc (well-formed and with colliding/unhashable keys, invalid UTF-8); '
        'mutated streams; UTF-8 edge cases; float32 patterns. (R) spec_decode reads back real dumps output and accepts the '
        'twin; wf vs real dict/hash semantics. direct: round trip, prefix refusal, range refusal, every-form acceptance on the '
        'same inputs with the real code only. non-trivial = not a bare nil/bool and (for decode cases) more than one byte read')
    cases = Cases(ctx)
    direct_fail = []      # (what, replay)

    FAIL_FAST = 25
    hist = {'longest': None, 'longest_len': -1}      # the value with the longest encoding packed so far

    def note_direct(fails, replay):
        for f in fails:
            direct_fail.append((f, replay))
        if len(direct_fail) >= FAIL_FAST and not cases.stopped:
            cases.stopped = True
            ctx.notes.append('stopped generating after %d concrete failures' % len(direct_fail))

    def exact(mv, out, history):
        """dumps(mv) returned `out`: nothing may follow the encoding (unpack must consume all of it).
        Returns True when exact; otherwise records the failure with the sequence of dumps calls that shows it."""
        r = real.unpack(out)
        if r[0] == 'ok' and r[2] != len(out):
            ctx.histogram('dumps_exact', 'trailing bytes')
            seq = [h for h in history if h is not None] + [mv]
            note_direct(['dumps returned %d bytes but the encoding of the value ends after %d: %d stale/trailing bytes '
                         'follow it (the encoding is an accepted proper prefix of the output)' % (len(out), r[2], len(out) - r[2])],
                        {'kind': 'sequence', 'values': [mv_json(x) for x in seq]})
            return False
        ctx.histogram('dumps_exact', 'exact')
        return True

    def add_value(mv, origin, cuts=True, big=False, full_bigmap=False):
        """a value of the data model: encode (I), decode of its encoding (I), spec read-back (R), wf, cut points."""
        if cases.stopped:
            return None
        cases.check_budget()
        ctx.histogram('value_kind', kind_of(mv))
        ctx.histogram('origin', origin)
        try:
            out = real.dumps(mv)
        except NoPython:
            return None
        except Exception as e:                                 # noqa
            note_direct(['dumps raised %s on a value of the data model' % type(e).__name__],
                        {'kind': 'roundtrip', 'value': mv_json(mv)})
            return None
        info = {'kind': 'roundtrip', 'value': mv_json(mv)}
        if out is not None:
            # exact length first: every later step (cuts, literals) is sized by len(out)
            if not exact(mv, out, [hist['longest']]):
                return None
            if len(out) > hist['longest_len']:
                hist['longest'], hist['longest_len'] = mv, len(out)
        note_direct(direct_value(real, mv, rng, 8 if big else 80), info)
        nontrivial = mv[0] not in ('nil', 'bool')
        if out is None:
            ctx.count(('enc', repr(mv)[:2000], len(repr(mv))), nontrivial)
            ctx.histogram('encode_result', 'refused')
            cases.add('CEnc %s None' % value_term(mv), info, big)
            return None
        ctx.histogram('encode_result', 'ok')
        ctx.histogram('encoded_size', sizeclass(len(out)))
        r = real.unpack(out)
        ctx.count(('round', out[:4000], len(out)), nontrivial)
        bigmap = big and mv[0] == 'map'
        bt = intmap_bytes_term(out, len(mv[1])) if bigmap else bytes_term(out)
        if bigmap and not full_bigmap:
            # the model's dict is an association list: checking 65536 keys for duplicates in Coq is quadratic
            # (~15 min of CPU); encode (I) and the spec read-back (R) here, the model's decode on the header
            # cuts; the full decode only with C14_BIGMAP_DECODE=1. The real code is run in full either way.
            ctx.histogram('bigmap_mode', 'encode+spec')
            cases.add('CEnc %s (Some %s)' % (value_term(mv), bt), info, big)
            cases.add('CSpec %s %s' % (bt, value_term(mv)), info, big)
        elif r == ('ok', mv, len(out)):
            if bigmap:
                ctx.histogram('bigmap_mode', 'full')
            cases.add('CRound %s %s' % (value_term(mv), bt), info, big)
        else:
            cases.add('CEnc %s %s' % (value_term(mv), opt_bytes_term(out)), info, big)
            cases.add('CDec %s %s' % (bytes_term(out), obs_term(r)), {'kind': 'decode', 'bytes': out.hex()}, big)
            cases.add('CSpec %s %s' % (bytes_term(out), value_term(mv)), info, big)
        if cuts:
            add_cuts(out, 80 if len(out) <= 80 else 24)
        return out

    def add_sequence(seq, origin):
        """dumps() called on each value in turn, in this process: every output must be exactly the encoding
        (I: equal to the model's bytes; direct: unpack consumes all of it and returns the value)."""
        done = []
        for mv in seq:
            if cases.stopped:
                return
            try:
                out = real.dumps(mv)
            except NoPython:
                continue
            except Exception as e:                             # noqa
                note_direct(['dumps raised %s on a value of the data model' % type(e).__name__],
                            {'kind': 'sequence', 'values': [mv_json(x) for x in done + [mv]]})
                done.append(mv)
                continue
            done.append(mv)
            ctx.histogram('origin', origin)
            ctx.histogram('sequence_position', min(len(done), 6))
            info = {'kind': 'sequence', 'values': [mv_json(x) for x in done]}
            ctx.count(('seq', repr(done)[:3000], len(done)), len(done) > 1)
            if out is None:
                cases.add('CEnc %s None' % value_term(mv), info)
                continue
            ctx.histogram('sequence_shape', 'first' if len(done) == 1 else
                          ('shorter_than_earlier' if any(l > len(out) for l in seq_lens) else 'longest_so_far'))
            seq_lens.append(len(out))
            if not exact(mv, out, done[:-1]):
                # still give Coq the (bounded) bytes: the model disagrees too
                if len(out) <= 4096:
                    cases.add('CEnc %s %s' % (value_term(mv), opt_bytes_term(out)), info)
                continue
            r = real.unpack(out)
            if r[:2] != ('ok', mv):
                note_direct(['loads(dumps(v)) != v inside a sequence of dumps calls'], info)
            cases.add('CEnc %s %s' % (value_term(mv), opt_bytes_term(out)), info)
        del seq_lens[:]

    seq_lens = []

    def add_decode(b, origin, domain=None):
        """a byte stream: unpack (I). `domain`: inside the quantifier domain the property states (spec-valid
        streams of well-formed values, first bytes, cut points); the rest (mutated streams, colliding or
        unhashable keys, invalid UTF-8, ext type >= 0x80) is the extended domain of the model."""
        if cases.stopped:
            return ('err', -1, 'stopped')
        if domain is None:
            domain = origin not in OUT_OF_DOMAIN
        r = real.unpack(b)
        r2 = real.loads(b)
        if r[:2] != r2[:2]:
            note_direct(['loads and unpack disagree'], {'kind': 'decode', 'bytes': b.hex()})
        ctx.histogram('decode_origin', origin)
        ctx.histogram('decode_result', 'ok' if r[0] == 'ok' else r[2])
        ctx.count(('dec', b[:4000], len(b)), len(b) > 1)
        cases.add('CDec %s %s' % (bytes_term(b), obs_term(r)), {'kind': 'decode', 'bytes': b.hex() if len(b) < 5000 else b[:5000].hex(), 'observed': r[2] if r[0] == 'err' else 'ok',
                   'origin': origin, 'domain': bool(domain)})
        return r

    def add_cuts(b, limit):
        for p in cut_points(len(b), rng, limit):
            if cases.stopped:
                return
            r = add_decode(b[:p], 'cut')
            ctx.histogram('cut_result', 'insufficient' if r[:2] == ('err', 0) else 'other')

    def add_twin(mv, origin):
        """a spec-valid stream of mv in arbitrary legal formats."""
        if cases.stopped:
            return
        cases.check_budget()
        try:
            b = twin_encode(mv, rng, lambda k: ctx.histogram('twin_format', k))
        except NoPython:
            return
        w = wf_py(mv, um)
        ctx.histogram('twin_wf', w)
        info = {'kind': 'stream', 'value': mv_json(mv), 'bytes': b.hex(), 'domain': bool(w)}
        cases.add('CSpec %s %s' % (bytes_term(b), value_term(mv)), info)
        cases.add('CWf %s %s' % (value_term(mv), 'true' if w else 'false'), info)
        r = add_decode(b, origin, domain=bool(w))
        if w:
            note_direct(direct_stream(real, mv, b, rng), info)
            add_cuts(b, 40 if len(b) <= 40 else 12)
        ctx.count(('twin', b[:4000]), True)

    # ---- table extraction -----------------------------------------------------------------------
    table = real.table()
    if table is None:
        ctx.notes.append('_unpack_dispatch_table not readable (private attribute changed); table comparison skipped, '
                         'the 256 first-byte decode cases still cover the dispatch')
        cov['dispatch_table'] = 'not readable'
    else:
        cases.add('CTable %s' % ('[' + ';'.join(map(str, table)) + ']'), {'kind': 'table', 'table': table})
        cov['dispatch_table'] = 'compared (256 entries)'

    # ---- corpus ---------------------------------------------------------------------------------
    ncorpus = 0
    for path in sorted(glob.glob(os.path.join(VERIF, 'corpus', 'C14', '*.json'))):
        for item in json.load(open(path)).get('cases', []):
            ncorpus += 1
            if 'bytes' in item:
                add_decode(bytes.fromhex(item['bytes']), 'corpus', domain=bool(item.get('domain', False)))
            if 'value' in item:
                add_value(json_mv(item['value']), 'corpus')
            if 'sequence' in item:
                add_sequence([json_mv(x) for x in item['sequence']], 'corpus')
    cov['corpus_cases'] = ncorpus

    # ---- sequences of dumps() calls in one process: longer then shorter, mixed ------------------
    # (the encoder must not keep state between calls: each output is compared byte for byte with the
    # model's encoding and must end where the encoding ends)
    for seq in dumps_sequences(rng, um, not ctx.thorough()):
        add_sequence(seq, 'sequence')

    # ---- boundary integers ----------------------------------------------------------------------
    for z in boundary_ints():
        add_value(('int', z), 'boundary_int')
        ctx.histogram('int_range', 'in' if -2 ** 63 <= z < 2 ** 64 else 'out')
        if -2 ** 63 <= z < 2 ** 64:
            for name, b in twin_int(z, rng):
                ctx.histogram('twin_format', 'int:' + name)
                info = {'kind': 'stream', 'value': mv_json(('int', z)), 'bytes': b.hex()}
                cases.add('CSpec %s %s' % (bytes_term(b), value_term(('int', z))), info)
                add_decode(b + b'\xc0', 'int_form')
                note_direct(direct_stream(real, ('int', z), b, rng), info)
                add_cuts(b, 80)
    # ext of every small size (fixext 1/2/4/8/16 and their neighbours)
    for n in range(0, 19):
        add_value(('ext', rng.randrange(128), rand_bytes(rng, n)), 'ext_size')
        add_twin(('ext', rng.randrange(128), rand_bytes(rng, n)), 'ext_size')
    # containers propagate the refusal
    for z in (2 ** 64, -2 ** 63 - 1):
        add_value(('arr', [('int', 1), ('arr', [('int', z)])]), 'refusal')
        add_value(('map', [(('int', 1), ('int', z))]), 'refusal')
        add_value(('map', [(('int', z), NIL)]), 'refusal')

    # ---- boundary lengths -----------------------------------------------------------------------
    for n in boundary_lengths(ctx):
        isbig = n > 1000
        for fam, mv in length_values(n):
            ctx.histogram('length_case', '%s:%d' % (fam, n))
            out = add_value(mv, 'boundary_len', cuts=not isbig, big=isbig,
                            full_bigmap=bool(os.environ.get('C14_BIGMAP_DECODE')) and n in (65535, 65536))
            if out is not None and isbig:
                # cut points of a long encoding: the header, the first payload bytes, the end
                for p in sorted(set(list(range(0, 7)) + ([len(out) - 1] if fam != 'map' else []))):
                    add_decode_big(ctx, real, cases, out[:p])
            # other legal headers for this length
            if not isbig:
                for _ in range(3):
                    add_twin_big(ctx, real, cases, mv, rng, um, note_direct, False)
            elif fam in ('str', 'bin', 'ext', 'arr'):
                add_twin_big(ctx, real, cases, mv, rng, um, note_direct, True)

    # ---- non-ASCII strings across the str boundaries (character count vs UTF-8 byte count) -------
    wides = wide_strings(rng, not ctx.thorough())
    nbig = 0
    for label, st in wides:
        u = st.encode('utf-8')
        isbig = len(u) > 1000
        ctx.histogram('wide_str', label)
        ctx.histogram('wide_str_sides', 'chars<=%s<bytes' % next((b for b in (31, 255, 65535) if len(st) <= b < len(u)), 'none'))
        out = add_value(('str', u), 'wide_str', cuts=not isbig, big=isbig)
        # for the 64 KiB strings the quick tier runs the costly extras (cut at the last byte, another legal
        # header) on every third one; the value itself (encode, decode, spec read-back, direct round trip and
        # header cuts) always runs
        nbig += isbig
        extras = (not isbig) or ctx.thorough() or nbig % 3 == 0
        if out is not None and isbig:
            for p in sorted(set(list(range(0, 7)) + ([len(out) - 1] if extras else []))):
                add_decode_big(ctx, real, cases, out[:p])
        if extras:
            add_twin_big(ctx, real, cases, ('str', u), rng, um, note_direct, isbig)
    # the same strings as map keys, map values and array members (the stream must stay in step after them)
    smalls = [st for _l, st in wides if len(st.encode('utf-8')) < 300]
    for i in range(0, len(smalls), 3):
        grp = smalls[i:i + 3]
        keys = [('str', g.encode('utf-8')) for g in grp]
        add_value(('map', [(k, ('int', j)) for j, k in enumerate(keys)]), 'wide_str_key', cuts=(i % 9 == 0))
        add_value(('arr', [keys[0], ('map', [(('int', 1), keys[-1]), (('arr', [keys[-1]]), keys[0])]), ('int', 7)]),
                  'wide_str_nested', cuts=(i % 9 == 0))
        add_twin(('arr', [('map', [(k, k) for k in keys]), ('int', -1)]), 'wide_str_twin')

    # ---- strings that start with a special code point (BOM, non-characters, NUL, separators ...) --
    specials = special_strings(rng, not ctx.thorough())
    for st in specials:
        u = st.encode('utf-8')
        isbig = len(u) > 1000
        ctx.histogram('special_str', 'U+%04X' % ord(st[0]))
        out = add_value(('str', u), 'special_str', cuts=len(u) <= 8, big=isbig)
        # the string in EVERY legal str format (fixstr / str 8 / str 16 / str 32)
        for name, h in twin_len(len(u), rng, (0xa0, 32), [(1, 0xd9), (2, 0xda), (4, 0xdb)]):
            if cases.stopped:
                break
            b = h + u
            ctx.histogram('twin_format', 'str:' + name)
            info = {'kind': 'stream', 'value': mv_json(('str', u)), 'bytes': b.hex() if len(b) < 400 else None, 'domain': True}
            r = real.unpack(b)
            ctx.histogram('decode_origin', 'special_str')
            ctx.histogram('decode_result', 'ok' if r[0] == 'ok' else r[2])
            ctx.count(('twin', b[:4000], len(b)), True)
            cases.add('CDec %s %s' % (bytes_term(b), obs_term(r)), info, isbig)
            cases.add('CSpec %s %s' % (bytes_term(b), value_term(('str', u))), info, isbig)
            note_direct(direct_stream(real, ('str', u), b, rng, 8 if isbig else 24), info)
    # as map keys (next to the key a stripping decoder would confuse them with), map values, nested
    shorts_sp = [st for st in specials if len(st) <= ctx.pick(2, 6)]
    for i, st in enumerate(shorts_sp):
        u = ('str', st.encode('utf-8'))
        rest = ('str', st[1:].encode('utf-8'))
        other = ('str', shorts_sp[(i + 7) % len(shorts_sp)].encode('utf-8'))
        keys = []
        for k in (rest, u, other, ('str', b'')):
            if k not in keys:
                keys.append(k)
        add_value(('map', [(k, ('int', j)) for j, k in enumerate(keys)]), 'special_str_key', cuts=(i % 5 == 0))
        add_value(('arr', [u, ('map', [(('arr', [u, rest]), u), (('int', 1), ('arr', [rest, u]))]), rest]),
                  'special_str_nested', cuts=(i % 5 == 0))
        if ctx.thorough() or i % 3 == 0:
            add_twin(('map', [(k, k) for k in keys]), 'special_str_twin')
            add_sequence([('arr', [u] * 5), u, rest], 'special_str_seq')
    # outside the data model: a str with a lone surrogate is no Unicode string; the packer must not emit
    # anything for it (CPython's codec raises UnicodeEncodeError) - extended domain, reported separately
    for st in ('\ud800', 'a\udfff', '\udc80b', '\ud83d'):
        try:
            b = um.dumps(st)
            ctx.extension_failure('dumps packed a str with a lone surrogate (%r) into %d bytes' % (st, len(b)),
                                  {'kind': 'surrogate', 'codepoints': [ord(c) for c in st]})
        except Exception as e:                                  # noqa
            ctx.histogram('lone_surrogate', type(e).__name__)

    # ---- all 256 first bytes --------------------------------------------------------------------
    for c in range(256):
        add_decode(bytes([c]), 'first_byte')
        add_decode(bytes([c]) + rand_bytes(rng, rng.randrange(1, 12)), 'first_byte')
        add_decode(bytes([c]) + bytes(rng.randrange(0, 4) for _ in range(rng.randrange(1, 24))), 'first_byte')
        add_decode(bytes([c]) + b'\x00\x00\x00\x02\x05ab\xc0\xc0\xc0\xc0\xc0', 'first_byte')
        add_decode(bytes([c]) + b'\x01\x01\xc0\xc0', 'first_byte')
        add_decode(bytes([c]) + b'\x05' + b'\x61' * 20, 'first_byte')

    # ---- floats ---------------------------------------------------------------------------------
    for bits in F64_SPECIALS + [rng.getrandbits(64) for _ in range(ctx.pick(40, 400))]:
        add_value(('f64', bits), 'float')
    for b32 in F32_SPECIALS + [rng.getrandbits(32) for _ in range(ctx.pick(150, 3000))] + \
            [rng.randrange(1, 2 ** 23) for _ in range(ctx.pick(30, 300))] + [(1 << k) for k in range(23)]:
        x = struct.unpack('>f', be(b32, 4))[0]
        cases.add('CWiden %d %d' % (b32, f64_bits(x)), {'kind': 'widen', 'b32': b32})
        ctx.count(('widen', b32), True)
        if widen32_py(b32) != f64_bits(x):
            ctx.notes.append('Python twin widen32_py differs from struct on %08x' % b32)
        add_decode(b'\xca' + be(b32, 4), 'float32')

    # ---- UTF-8 ----------------------------------------------------------------------------------
    utf = list(UTF8_SAMPLES) + list(UTF8_BAD)
    for _ in range(ctx.pick(300, 4000)):
        s = bytearray(rand_utf8(rng, 8))
        k = rng.random()
        if s and k < 0.5:
            i = rng.randrange(len(s))
            s[i] = rng.choice([0x80, 0xbf, 0xc0, 0xc1, 0xc2, 0xe0, 0xed, 0xf0, 0xf4, 0xf5, 0xa0, 0x9f, 0x90, 0x8f, rng.randrange(256)])
        elif s and k < 0.7:
            del s[rng.randrange(len(s))]
        utf.append(bytes(s))
    for _ in range(ctx.pick(100, 2000)):
        utf.append(bytes(rng.choice([0x7f, 0x80, 0xbf, 0xc2, 0xdf, 0xe0, 0xa0, 0x9f, 0xed, 0xef, 0xf0, 0x90, 0x8f, 0xf4, 0xf5, 0x41])
                         for _ in range(rng.randrange(1, 5))))
    for s in utf:
        try:
            s.decode('utf-8')
            ok = True
        except UnicodeDecodeError:
            ok = False
        ctx.histogram('utf8', 'valid' if ok else 'invalid')
        cases.add('CUtf8 %s %s' % (bytes_term(s), 'true' if ok else 'false'), {'kind': 'utf8', 'bytes': s.hex()})
        ctx.count(('utf8', s), len(s) > 0)
        if len(s) < 32:
            add_decode(bytes([0xa0 + len(s)]) + s, 'utf8', domain=ok)
        if ok:
            add_value(('str', s), 'utf8', cuts=False)

    # ---- random nested values -------------------------------------------------------------------
    nvals = ctx.pick(250, 4000)
    for i in range(nvals):
        mv = dedupe_keys(rand_value(rng, rng.choice([1, 2, 3, 4, 5, 6, 6])), um)
        ctx.histogram('depth', depth_of(mv))
        add_value(mv, 'random', cuts=(i % 3 == 0))
    # a few deep ones
    for d in (6, 20, 60):
        mv = ('int', 7)
        for i in range(d):
            mv = ('arr', [mv]) if i % 2 else ('map', [(('arr', [('int', i)]), mv)])
        ctx.histogram('depth', depth_of(mv))
        add_value(mv, 'deep', cuts=False)

    # ---- random spec-valid streams in arbitrary formats (twin of Enc) ---------------------------
    for i in range(ctx.pick(350, 6000)):
        bad = rng.random() < 0.3
        mv = rand_value(rng, rng.choice([1, 2, 3, 4, 6]), False, 0.5 if bad else 0.0)
        if not bad:
            mv = dedupe_keys(mv, um)
        elif rng.random() < 0.3:
            mv = ('arr', [mv, ('str', rng.choice(UTF8_BAD))])
        add_twin(mv, 'twin_bad' if bad else 'twin')
    # hand-made key collisions (True == 1 == 1.0, -0.0 == 0, tuple keys are not tested for duplicates)
    one = [('bool', True), ('int', 1), ('f64', f64_bits(1.0))]
    zero = [('bool', False), ('int', 0), ('f64', f64_bits(0.0)), ('f64', f64_bits(-0.0))]
    for grp in (one, zero):
        for a in grp:
            for b_ in grp:
                add_twin(('map', [(a, NIL), (b_, ('int', 2))]), 'collision')
                add_twin(('map', [(('arr', [a]), NIL), (('arr', [b_]), ('int', 2)), (('arr', [a, a]), NIL)]), 'collision')
    for a, b_ in [(('int', 2 ** 53), ('f64', f64_bits(2.0 ** 53))), (('int', 2 ** 53 + 1), ('f64', f64_bits(2.0 ** 53))),
                  (('int', 2 ** 63), ('f64', f64_bits(2.0 ** 63))), (('int', -2 ** 63), ('f64', f64_bits(-2.0 ** 63))),
                  (('int', 2 ** 64 - 1), ('f64', f64_bits(2.0 ** 64))), (('f64', 0x7ff8000000000000), ('f64', 0x7ff8000000000000)),
                  (('str', b'a'), ('bin', b'a')), (('str', b''), ('bin', b'')), (NIL, ('bool', False)), (('arr', []), ('arr', [])),
                  (('int', 3), ('f64', f64_bits(3.5))), (('int', 0), ('f64', 1)), (('f64', 0x7ff0000000000000), ('int', 2 ** 64 - 1)),
                  (('ext', 1, b''), NIL), (('map', []), NIL), (('arr', [('map', [])]), NIL), (('arr', [('ext', 1, b'a')]), NIL),
                  (('arr', [('arr', [('int', 1)])]), ('arr', [('arr', [('bool', True)])]))]:
        add_twin(('map', [(a, NIL), (b_, ('int', 2))]), 'collision')
        add_twin(('map', [(b_, NIL), (a, ('int', 2))]), 'collision')

    # ---- mutated streams ------------------------------------------------------------------------
    for i in range(ctx.pick(300, 5000)):
        mv = dedupe_keys(rand_value(rng, rng.choice([1, 2, 3, 4])), um)
        try:
            b = bytearray(twin_encode(mv, rng))
        except NoPython:
            continue
        if not b:
            continue
        for _ in range(rng.choice([1, 1, 2, 3])):
            if not b:
                break
            k = rng.random()
            j = rng.randrange(len(b))
            if k < 0.6:
                b[j] = rng.choice([rng.randrange(256), 0xc1, 0x80 + rng.randrange(16), 0x90 + rng.randrange(16), 0xc7, 0xd4, 0xde, 0xdc, 0xd9])
            elif k < 0.8:
                del b[j]
            else:
                b.insert(j, rng.randrange(256))
        add_decode(bytes(b), 'mutated')
    # ext type bytes >= 0x80 (observation: TypeError)
    for ty in (0x80, 0xff, 0x7f):
        add_decode(b'\xd4' + bytes([ty]) + b'\x00', 'ext_type')
        add_decode(b'\xc7\x00' + bytes([ty]), 'ext_type')
        add_decode(b'\xd5' + bytes([ty]) + b'\x00', 'ext_type')

    for t, info in cases.small[:3] + cases.small[len(cases.small) // 2: len(cases.small) // 2 + 3]:
        ctx.sample({'case': t[:300], 'info': {k: (v if len(str(v)) < 300 else str(v)[:300]) for k, v in info.items()}})

    # ---- direct evaluator results ---------------------------------------------------------------
    cov['direct_failures'] = len(direct_fail)
    for what, rep in direct_fail[:10]:
        ctx.violation(what, rep)

    # ---- run the correspondence in Coq ----------------------------------------------------------
    ctx.log('%d small + %d large cases' % (len(cases.small), len(cases.big)))
    terms = [t for t, _ in cases.small]
    infos = [i for _, i in cases.small]
    bad = ctx.run_cases(IMPORTS, PRELUDE, 'check_case', terms, case_type='case', shard=ctx.pick(1000, 1500), timeout=ctx.pick(300, 700))
    bad_infos = [(terms[i], infos[i]) for i in bad]
    # large cases: a few per shard
    if cases.big:
        per = 6
        chunks = [cases.big[i:i + per] for i in range(0, len(cases.big), per)]
        jobs = [(IMPORTS, PRELUDE + '\nDefinition cases__ : list case := [%s].\n' % ';\n'.join(t for t, _ in ch),
                 ['bad_idx check_case cases__']) for ch in chunks]
        for ch, res in zip(chunks, ctx.coq_eval_many(jobs, timeout=7200 if os.environ.get('C14_BIGMAP_DECODE') else ctx.pick(300, 700))):
            for i in res[0]:
                bad_infos.append(ch[i])
    cov['correspondence_cases'] = len(cases.small) + len(cases.big)
    cov['correspondence_disagreements'] = len(bad_infos)
    ctx.log('correspondence: %d cases, %d disagreements' % (cov['correspondence_cases'], len(bad_infos)))

    # disagreements on inputs outside the stated quantifier domain (mutated / non-well-formed streams ...):
    # reported as extended-domain failures, never as violations
    ext_bad = [(t, i) for t, i in bad_infos if i.get('domain') is False]
    bad_infos = [(t, i) for t, i in bad_infos if i.get('domain') is not False]
    cov['extended_domain_disagreements'] = len(ext_bad)
    for t, info in ext_bad[:8]:
        ctx.extension_failure('model and code disagree on an input outside the stated domain (%s): %s'
                              % (info.get('origin', info.get('kind')), t[:200]), info)
    if bad_infos and not direct_fail:
        # the model and the code disagree: look for a failure of the property itself around those inputs
        found = False
        for t, info in bad_infos[:40]:
            fails = search_around(real, info, rng)
            for f, rep in fails[:2]:
                found = True
                ctx.violation(f, rep)
        if not found:
            t, info = bad_infos[0]
            ctx.violation('correspondence between Model/Msgpack.v (or MsgpackSpec.v) and supp/umsgpack.py no longer checks '
                          '(%d disagreements, first: %s); theorems C14_* are about a model that is not the code'
                          % (len(bad_infos), t[:200]),
                          {'kind': 'correspondence', 'theorem': 'C14_* / correspondence', 'case': t[:2000], 'info': info,
                           'disagreements': len(bad_infos)}, found_input=False)
    if cases.overrun and not ctx.violations:
        ctx.violation('the check did not stay within its bounds: %s; no failing input was isolated' % cases.overrun,
                      {'kind': 'overrun', 'what': cases.overrun, 'cases': len(cases.small) + len(cases.big)},
                      found_input=False)
    if not proof_ok:
        ctx.violation('proof obligations of Props/C14.v not discharged: %s' % (ctx.notes,),
                      {'kind': 'proof', 'theorem': 'Props/C14.v', 'notes': ctx.notes,
                       'build_error': cov.get('build_error')}, found_input=False)


def sizeclass(n):
    for lim in (1, 2, 3, 5, 9, 17, 33, 65, 257, 65537):
        if n <= lim:
            return '<=%d' % lim
    return '>65537'


def add_decode_big(ctx, real, cases, b):
    if cases.stopped:
        return
    r = real.unpack(b)
    ctx.histogram('decode_origin', 'cut_big')
    ctx.histogram('decode_result', 'ok' if r[0] == 'ok' else r[2])
    ctx.histogram('cut_result', 'insufficient' if r[:2] == ('err', 0) else 'other')
    ctx.count(('dec', b[:4000], len(b)), len(b) > 1)
    cases.add('CDec %s %s' % (bytes_term(b), obs_term(r)), {'kind': 'decode', 'bytes': b[:200].hex(), 'len': len(b)})
    if r[:2] != ('err', 0):
        pass  # reported by the direct evaluator on the full value


def add_twin_big(ctx, real, cases, mv, rng, um, note_direct, isbig):
    if cases.stopped:
        return
    if isbig and mv[0] == 'arr':
        # only the header varies (the members keep their canonical form)
        n = len(mv[1])
        name, h = rng.choice(twin_len(n, rng, (0x90, 16), [(2, 0xdc), (4, 0xdd)]))
        ctx.histogram('twin_format', 'arr:' + name)
        b = h + b''.join(um.dumps(to_py(e, um)) for e in mv[1])
    else:
        b = twin_encode(mv, rng, lambda k: ctx.histogram('twin_format', k))
    info = {'kind': 'stream', 'value': mv_json(mv), 'bytes': b.hex() if len(b) < 400 else None}
    r = real.unpack(b)
    ctx.histogram('decode_origin', 'twin_len')
    ctx.histogram('decode_result', 'ok' if r[0] == 'ok' else r[2])
    ctx.count(('twin', b[:4000], len(b)), True)
    cases.add('CSpec %s %s' % (bytes_term(b), value_term(mv)), info, isbig)
    cases.add('CDec %s %s' % (bytes_term(b), obs_term(r)), info, isbig)
    note_direct(direct_stream(real, mv, b, rng, 8 if isbig else 24), info)


def search_around(real, info, rng):
    """direct evaluation of the property on a disagreeing input and its neighbours."""
    um = real.um
    out = []
    kind = info.get('kind')
    try:
        if kind in ('roundtrip', 'stream') and info.get('value') is not None:
            mv = json_mv(info['value'])
            for f in direct_value(real, mv, rng, 400):
                out.append((f, {'kind': 'roundtrip', 'value': info['value']}))
            if kind == 'stream' and info.get('bytes') and wf_py(mv, um):
                for f in direct_stream(real, mv, bytes.fromhex(info['bytes']), rng, 400):
                    out.append((f, info))
            # neighbours: the members of a container on their own
            if mv[0] in ('arr', 'map'):
                members = mv[1] if mv[0] == 'arr' else [x for kv in mv[1] for x in kv]
                for m in members[:50]:
                    for f in direct_value(real, m, rng, 400):
                        out.append((f, {'kind': 'roundtrip', 'value': mv_json(m)}))
        elif kind == 'decode' and info.get('bytes'):
            b = bytes.fromhex(info['bytes'])
            r = real.unpack(b)
            if r[0] == 'ok':
                # what was read must round-trip, and re-encoding must be read back as the same value
                for f in direct_value(real, r[1], rng, 400):
                    out.append((f, {'kind': 'roundtrip', 'value': mv_json(r[1])}))
    except Exception as e:                                      # noqa
        out.append(('search raised %s' % type(e).__name__, info))
    return out


def replay(ctx, obj):
    real = Real()
    r = obj['replay']
    kind = r.get('kind')
    rng = ctx.rng
    if kind == 'roundtrip':
        mv = json_mv(r['value'])
        fails = direct_value(real, mv, rng, 100000)
        print('value', str(r['value'])[:300])
        print('failures', fails)
        return 1 if fails else 0
    if kind == 'sequence':
        fails = []
        vals = [json_mv(x) for x in r['values']]
        for i, mv in enumerate(vals):
            try:
                out = real.dumps(mv)
            except NoPython:
                continue
            except Exception as e:                             # noqa
                fails.append('call %d: dumps raised %s' % (i + 1, type(e).__name__))
                continue
            if out is None:
                continue
            ru = real.unpack(out)
            if ru[0] != 'ok':
                fails.append('call %d: output not readable (%s)' % (i + 1, ru[2]))
            elif ru[1] != mv:
                fails.append('call %d: read back as a different value' % (i + 1))
            elif ru[2] != len(out):
                fails.append('call %d: dumps returned %d bytes, the encoding ends after %d' % (i + 1, len(out), ru[2]))
        print('sequence of %d dumps calls' % len(vals), [str(x)[:80] for x in r['values']][-2:])
        print('failures', fails)
        return 1 if fails else 0
    if kind == 'stream':
        mv = json_mv(r['value'])
        b = bytes.fromhex(r['bytes'])
        fails = direct_stream(real, mv, b, rng, 100000)
        print('stream', r['bytes'][:200], 'failures', fails)
        return 1 if fails else 0
    if kind == 'decode':
        b = bytes.fromhex(r['bytes'])
        print('unpack ->', real.unpack(b)[:3])
        return 1
    print(obj.get('what'))
    return 1
