"""Shared machinery of the supp verification harness (see DESIGN.md section 3).

Everything a per-property module (harness/props/cXX.py) needs:

  ctx = Ctx(prop_id, tier, seed)
  ctx.rng                      one seeded PRNG; every random choice comes from it
  ctx.scratch                  fresh temp dir outside /repo and /verif (removed at exit)
  ctx.coq_props()              build coq/Props/<ID>.vo (full .vo build), re-run its
                               Print Assumptions, scan for forbidden vernacular
  ctx.coq_eval(...)            evaluate Gallina terms with vm_compute (sharded, parallel)
  ctx.run_cases(...)           correspondence: indices of cases whose boolean check fails
  ctx.violation(...)           write replay + print VIOLATION line
  ctx.known_finding(...)       print KNOWN-FINDING line (only for entries of known_findings.json)
  ctx.finish(...)              write evidence/<ID>.json, exit status

The implementation under test is imported from SUPP_REPO (default /repo).
"""
from __future__ import annotations

import fcntl
import hashlib
import json
import os
import random
import re
import shutil
import subprocess
import sys
import tempfile
import time
from concurrent.futures import ThreadPoolExecutor

VERIF = os.path.dirname(os.path.dirname(os.path.abspath(__file__)))
COQ = os.path.join(VERIF, 'coq')
REPO = os.environ.get('SUPP_REPO', '/repo')
PY = os.environ.get('SUPP_PYTHON', '/venv/bin/python')
NCPU = int(os.environ.get('VERIF_JOBS', '16'))
GUARD = 'SUPP_VERIF'

# Axioms that may appear under Print Assumptions: only ones declared by the
# standard library / installed libraries, each named in DESIGN.md section 7.
ALLOWED_AXIOMS = {
    'functional_extensionality_dep', 'FunctionalExtensionality.functional_extensionality_dep',
    'proof_irrelevance', 'ProofIrrelevance.proof_irrelevance',
    'classic', 'Classical_Prop.classic',
    'JMeq_eq', 'JMeq.JMeq_eq',
    'Eqdep.Eq_rect_eq.eq_rect_eq', 'Eq_rect_eq.eq_rect_eq', 'eq_rect_eq',
    'propositional_extensionality', 'PropExtensionality.propositional_extensionality',
}

FORBIDDEN = re.compile(
    r'\b(Admitted|admit|Axiom|Axioms|Parameter|Parameters|Conjecture|Conjectures|'
    r'Admit\s+Obligations|bypass_check|Unset\s+Guard\s+Checking|Unset\s+Positivity\s+Checking|'
    r'Unset\s+Universe\s+Checking|type-in-type|impredicative-set|native_compute)\b')
# Variable/Hypothesis are only legal inside a Section; checked separately.
SECTION_ONLY = re.compile(r'^\s*(Variable|Variables|Hypothesis|Hypotheses|Context)\b')


def ensure_repo_on_path():
    if sys.path[0] != REPO:
        sys.path.insert(0, REPO)
    os.environ.setdefault(GUARD, '1')
    # subprocesses (the supp server, fresh interpreters) must import the same checkout
    pp = os.environ.get('PYTHONPATH', '')
    if REPO not in pp.split(os.pathsep):
        os.environ['PYTHONPATH'] = REPO + (os.pathsep + pp if pp else '')
    import supp  # noqa
    real = os.path.dirname(os.path.dirname(os.path.abspath(supp.__file__)))
    if os.path.realpath(real) != os.path.realpath(REPO):
        raise RuntimeError('supp imported from %s, expected %s' % (real, REPO))


def sh(cmd, timeout=None, cwd=None, env=None, input=None):
    p = subprocess.run(cmd, shell=isinstance(cmd, str), cwd=cwd, env=env, input=input,
                       stdout=subprocess.PIPE, stderr=subprocess.STDOUT, text=True,
                       timeout=timeout)
    return p.returncode, p.stdout


# --------------------------------------------------------------------------
# Coq: stripping comments, forbidden-vernacular scan, build, Print Assumptions
# --------------------------------------------------------------------------

def strip_coq_comments(text):
    out = []
    depth = 0
    i = 0
    n = len(text)
    in_str = False
    while i < n:
        c = text[i]
        if depth == 0 and c == '"':
            in_str = not in_str
            out.append(c)
            i += 1
            continue
        if not in_str and text.startswith('(*', i):
            depth += 1
            i += 2
            continue
        if not in_str and depth and text.startswith('*)', i):
            depth -= 1
            i += 2
            continue
        if depth == 0:
            out.append(c)
        elif c == '\n':
            out.append('\n')
        i += 1
    return ''.join(out)


def coq_sources():
    res = []
    for sub in ('Lib', 'Model', 'Proofs', 'Props'):
        d = os.path.join(COQ, sub)
        if not os.path.isdir(d):
            continue
        for root, _dirs, files in os.walk(d):
            for f in sorted(files):
                if f.endswith('.v'):
                    res.append(os.path.relpath(os.path.join(root, f), COQ))
    return sorted(res)


def forbidden_scan(files=None):
    """Return list of (file, lineno, text) of forbidden vernacular in the development."""
    bad = []
    for rel in (files or coq_sources()):
        text = strip_coq_comments(open(os.path.join(COQ, rel)).read())
        depth = 0
        for ln, line in enumerate(text.split('\n'), 1):
            if re.match(r'^\s*Section\b', line):
                depth += 1
            if FORBIDDEN.search(line):
                bad.append((rel, ln, line.strip()))
            if SECTION_ONLY.match(line) and depth == 0:
                bad.append((rel, ln, 'outside Section: ' + line.strip()))
            if re.match(r'^\s*End\b', line) and depth > 0:
                depth -= 1
    return bad


def _coq_deps(rel, seen=None):
    """Transitive closure of 'From Supp Require' dependencies of a file (relative paths)."""
    seen = seen if seen is not None else set()
    if rel in seen:
        return seen
    seen.add(rel)
    text = strip_coq_comments(open(os.path.join(COQ, rel)).read())
    for m in re.finditer(r'Require\s+(?:Import\s+|Export\s+)?([\w\.]+(?:\s+[\w\.]+)*)\.(?=\s|$)', text):
        for mod in m.group(1).split():
            mod = mod.strip()
            if mod.startswith('Supp.'):
                mod = mod[5:]
            cand = mod.replace('.', '/') + '.v'
            if os.path.exists(os.path.join(COQ, cand)):
                _coq_deps(cand, seen)
    return seen


def count_obligations(files):
    n = 0
    names = []
    for rel in files:
        text = strip_coq_comments(open(os.path.join(COQ, rel)).read())
        for m in re.finditer(r'^\s*(?:Local\s+|Global\s+|#\[[^\]]*\]\s*)?(Theorem|Lemma|Corollary|Example|Fact|Proposition|Remark)\s+([A-Za-z_][\w\']*)',
                             text, re.M):
            n += 1
            names.append(rel + ':' + m.group(2))
    return n, names


def coq_build(targets, timeout=1500):
    """Full .vo build of the given targets (relative .vo paths) under a lock. Returns (ok, log)."""
    os.makedirs(COQ, exist_ok=True)
    lock = open(os.path.join(COQ, '.build.lock'), 'w')
    fcntl.flock(lock, fcntl.LOCK_EX)
    try:
        files = coq_sources()
        listing = '-Q . Supp\n' + '\n'.join(files) + '\n'
        cp = os.path.join(COQ, '_CoqProject')
        if not os.path.exists(cp) or open(cp).read() != listing or not os.path.exists(os.path.join(COQ, 'Makefile')):
            open(cp, 'w').write(listing)
            rc, out = sh('coq_makefile -f _CoqProject -o Makefile', cwd=COQ, timeout=120)
            if rc:
                return False, out
        rc, out = sh(['timeout', str(timeout), 'make', '-j%d' % NCPU] + list(targets), cwd=COQ,
                     timeout=timeout + 30)
        return rc == 0, out
    finally:
        fcntl.flock(lock, fcntl.LOCK_UN)
        lock.close()


def parse_assumptions(output):
    """Split coqc output of a Props file into per-`Print Assumptions` blocks.
    Returns list of ('closed', []) or ('axioms', [names])."""
    blocks = []
    lines = output.split('\n')
    i = 0
    while i < len(lines):
        line = lines[i]
        if line.startswith('Closed under the global context'):
            blocks.append(('closed', []))
        elif line.startswith('Axioms:') or line.startswith('Section Variables:'):
            names = []
            i += 1
            while i < len(lines) and lines[i].strip() and not lines[i].startswith('Closed under') \
                    and not lines[i].startswith('Axioms:'):
                m = re.match(r'^([A-Za-z_][\w\.\']*)\s*:', lines[i])
                if m:
                    names.append(m.group(1))
                i += 1
            blocks.append(('axioms', names))
            continue
        i += 1
    return blocks


# --------------------------------------------------------------------------
# Parsing values printed by Coq (Eval vm_compute in ...)
# --------------------------------------------------------------------------

_TOK = re.compile(r'\s*(\[|\]|\(|\)|;|,|"(?:[^"]|"")*"|-?\d+|[A-Za-z_][\w\.\']*)')


def parse_coq_value(text):
    """Parse a printed Coq value built from lists, tuples, numbers, strings, booleans and
    constructor applications into Python (list / tuple / int / str / bool / (Ctor, args...))."""
    text = re.sub(r'%[A-Za-z_]+', '', text)
    toks = []
    pos = 0
    text = text.strip()
    while pos < len(text):
        m = _TOK.match(text, pos)
        if not m:
            raise ValueError('cannot tokenise Coq value at: %r' % text[pos:pos + 40])
        toks.append(m.group(1))
        pos = m.end()
    idx = [0]

    def peek():
        return toks[idx[0]] if idx[0] < len(toks) else None

    def take():
        t = toks[idx[0]]
        idx[0] += 1
        return t

    def atom():
        t = take()
        if t == '[':
            items = []
            if peek() == ']':
                take()
                return items
            while True:
                items.append(app())
                t2 = take()
                if t2 == ']':
                    return items
                if t2 != ';':
                    raise ValueError('expected ; or ] got %r' % t2)
        if t == '(':
            items = [app()]
            while peek() == ',':
                take()
                items.append(app())
            if take() != ')':
                raise ValueError('expected )')
            return items[0] if len(items) == 1 else tuple(items)
        if t.startswith('"'):
            return t[1:-1].replace('""', '"')
        if re.match(r'-?\d+$', t):
            return int(t)
        if t == 'true':
            return True
        if t == 'false':
            return False
        return ('#', t)

    def app():
        head = atom()
        if isinstance(head, tuple) and len(head) == 2 and head[0] == '#':
            args = []
            while peek() is not None and peek() not in (']', ')', ';', ','):
                args.append(atom())
            args = [a[1] if (isinstance(a, tuple) and len(a) == 2 and a[0] == '#') else a for a in args]
            if not args:
                return head[1]
            return (head[1],) + tuple(args)
        return head

    v = app()
    if idx[0] != len(toks):
        raise ValueError('trailing tokens in Coq value: %r' % toks[idx[0]:idx[0] + 5])
    return v


def split_eval_output(out):
    """Return the list of value texts printed by successive `Eval ... in` commands."""
    vals = []
    # each result looks like "     = value\n     : type"
    for m in re.finditer(r'^\s*= (.*?)\n\s*: [^\n]*(?:\n\s{8,}[^\n]*)*', out, re.S | re.M):
        vals.append(m.group(1))
    return vals


def coq_str(s):
    return '"' + s.replace('"', '""') + '"'


def coq_list(items):
    return '[' + '; '.join(items) + ']'


def coq_N(n):
    return '%d%%N' % n


def coq_Z(n):
    return '(%d)%%Z' % n


def coq_nat(n):
    if n > 5000:
        raise ValueError('nat literal too large: %d' % n)
    return '%d%%nat' % n


def coq_bool(b):
    return 'true' if b else 'false'


def coq_option(x):
    return 'None' if x is None else '(Some %s)' % x


class Ctx(object):
    def __init__(self, prop_id, tier='quick', seed=0):
        self.prop = prop_id
        self.tier = tier
        self.seed = seed
        self.rng = random.Random('%s/%s' % (prop_id, seed))
        self.t0 = time.time()
        self.scratch = tempfile.mkdtemp(prefix='supp_verif_%s_' % prop_id)
        self.violations = 0
        self.known = []
        self.coverage = {'samples': [], 'evaluations': 0, 'distinct_nontrivial': 0}
        self._distinct = set()
        self.assumptions = []
        self.axioms = {}
        self.notes = []
        self.proof_ok = None
        self._replay_n = 0
        self.findings = load_findings()

    # ---- bookkeeping -----------------------------------------------------
    def thorough(self):
        return self.tier == 'thorough'

    def pick(self, quick, thorough):
        return thorough if self.thorough() else quick

    def count(self, case_key, nontrivial=True, n=1):
        """Record one evaluated case; `case_key` is hashed for distinctness."""
        self.coverage['evaluations'] += n
        if nontrivial:
            h = hashlib.sha1(repr(case_key).encode('utf8', 'replace')).digest()[:10]
            if h not in self._distinct:
                self._distinct.add(h)
                self.coverage['distinct_nontrivial'] += 1

    def sample(self, obj, limit=6):
        if len(self.coverage['samples']) < limit:
            self.coverage['samples'].append(obj)

    RESERVED = ('evaluations', 'distinct_nontrivial', 'rule', 'samples', 'states', 'transitions',
                'traces_validated_against_impl', 'obligations', 'discharged', 'checker_cmd', 'trusted_base',
                'programs', 'disagreements_checked', 'explanation', 'exhaustive')

    def histogram(self, name, key, n=1):
        if name in self.RESERVED:
            name += '_hist'           # never collide with a typed key of the evidence schema
        h = self.coverage.setdefault(name, {})
        h[str(key)] = h.get(str(key), 0) + n

    def log(self, *a):
        print('[%s %.1fs]' % (self.prop, time.time() - self.t0), *a, flush=True)

    # ---- Coq -------------------------------------------------------------
    def coq_props(self, props_rel=None, extra_targets=()):
        """Build Props/<ID>.vo with a full build, re-run coqc on it to collect Print
        Assumptions, scan the dependency closure for forbidden vernacular.
        Returns True when every obligation is discharged and the axioms are allowed."""
        rel = props_rel or 'Props/%s.v' % self.prop
        cov = self.coverage
        cov['checker_cmd'] = 'cd coq && coq_makefile -f _CoqProject -o Makefile && make %so && coqc -Q . Supp %s  (Coq 8.16.1, full .vo build)' % (rel, rel)
        cov.setdefault('trusted_base', [])
        if not os.path.exists(os.path.join(COQ, rel)):
            self.proof_ok = False
            cov['obligations'] = 1
            cov['discharged'] = 0
            self.notes.append('missing ' + rel)
            return False
        deps = sorted(_coq_deps(rel))
        nobl, names = count_obligations(deps)
        cov['obligations'] = nobl
        cov['proof_files'] = deps
        bad = forbidden_scan(deps)
        ok, log = coq_build([rel + 'o', 'Lib/Cases.vo'] + list(extra_targets))
        if not ok:
            self.proof_ok = False
            cov['discharged'] = 0
            tail = '\n'.join(log.strip().split('\n')[-25:])
            cov['build_error'] = tail
            self.notes.append('coq build failed')
            return False
        rc, out = sh(['timeout', '600', 'coqc', '-Q', '.', 'Supp', rel], cwd=COQ, timeout=630)
        if rc != 0:
            self.proof_ok = False
            cov['discharged'] = 0
            cov['build_error'] = out[-3000:]
            return False
        blocks = parse_assumptions(out)
        text = strip_coq_comments(open(os.path.join(COQ, rel)).read())
        printed = [x.rstrip('.') for x in re.findall(r'Print\s+Assumptions\s+([\w\.\']+)', text)]
        thms = re.findall(r'^\s*(?:Theorem|Corollary)\s+([\w\']+)', text, re.M)
        axioms = {}
        okax = True
        for i, nm in enumerate(printed):
            kind, ax = blocks[i] if i < len(blocks) else ('missing', [])
            axioms[nm] = ax if kind != 'closed' else []
            if kind == 'missing':
                okax = False
            for a in ax:
                if a not in ALLOWED_AXIOMS and a.split('.')[-1] not in ALLOWED_AXIOMS:
                    okax = False
                    self.notes.append('disallowed axiom %s under %s' % (a, nm))
        missing_pa = [t for t in thms if t not in printed]
        if missing_pa:
            okax = False
            self.notes.append('theorems without Print Assumptions: %s' % missing_pa)
        self.axioms = axioms
        cov['axioms_per_theorem'] = axioms
        cov['theorems'] = thms
        if bad:
            self.notes.append('forbidden vernacular: %r' % bad[:5])
        good = okax and not bad
        cov['discharged'] = nobl if good else 0
        tb = cov['trusted_base']
        for item in ('Coq 8.16.1 kernel + vm_compute (no native_compute)',
                     'hand-written Gallina model tied to /repo by the correspondence run of this check',
                     'harness (Python): generators, case printer, canonicalisers',
                     'CPython 3.12 as oracle where named'):
            if item not in tb:
                tb.append(item)
        used = sorted({a for ax in axioms.values() for a in ax})
        tb.append('axioms reported by Print Assumptions in this run: ' + (', '.join(used) if used else 'none (Closed under the global context)'))
        if self.thorough() and good and os.environ.get('VERIF_NO_COQCHK') != '1':
            # independent re-check of the compiled files and everything they depend on
            mod = 'Supp.' + rel[:-2].replace('/', '.')
            try:
                rc2, out2 = sh(['timeout', '1500', 'coqchk', '-silent', '-o', '-Q', '.', 'Supp', mod], cwd=COQ, timeout=1530)
            except subprocess.TimeoutExpired:
                rc2, out2 = 124, 'timeout'
            summ = out2[out2.find('CONTEXT SUMMARY'):] if 'CONTEXT SUMMARY' in out2 else out2[-800:]
            cov['coqchk'] = {'rc': rc2, 'summary': summ[:1500]}
            tb.append('coqchk -o (independent checker) on %s: rc=%d' % (mod, rc2))
            if rc2 != 0:
                good = False
                cov['discharged'] = 0
                self.notes.append('coqchk failed on ' + mod)
            else:
                m = re.search(r'\* Axioms:(.*?)\n\s*\n\* ', summ, re.S)
                ax = [a.strip() for a in (m.group(1).split('\n') if m else []) if a.strip() and a.strip() != '<none>']
                cov['coqchk']['axioms'] = ax
                for a in ax:
                    if a.split('.')[-1] not in ALLOWED_AXIOMS and a not in ALLOWED_AXIOMS:
                        good = False
                        cov['discharged'] = 0
                        self.notes.append('coqchk reports disallowed axiom ' + a)
        self.proof_ok = good
        return good

    def coq_eval(self, imports, prelude, queries, timeout=600):
        """Compile one scratch file: `imports` (list of module names under Supp or full
        Require lines), `prelude` (Gallina text), `queries` (list of terms). Returns list of
        parsed values, one per query."""
        return self.coq_eval_many([(imports, prelude, queries)], timeout=timeout)[0]

    def coq_eval_many(self, jobs, timeout=600):
        paths = []
        for k, (imports, prelude, queries) in enumerate(jobs):
            self._replay_n += 1
            name = 'cases_%s_%d_%d' % (self.prop, os.getpid(), self._replay_n)
            path = os.path.join(self.scratch, name + '.v')
            with open(path, 'w') as f:
                f.write('From Coq Require Import List Bool Arith ZArith NArith String Ascii.\nImport ListNotations.\n')
                f.write('From Supp Require Import Lib.Cases.\n')
                for imp in imports:
                    if imp.startswith('From ') or imp.startswith('Require '):
                        f.write(imp.rstrip('.') + '.\n')
                    else:
                        f.write('From Supp Require Import %s.\n' % imp)
                f.write('Set Printing Width 1000000.\nSet Printing Depth 1000000.\n')
                f.write(prelude + '\n')
                for q in queries:
                    f.write('Eval vm_compute in (%s).\n' % q)
            paths.append((path, len(queries)))

        def one(pq):
            path, nq = pq
            cmd = 'ulimit -s unlimited 2>/dev/null; timeout %d coqc -Q %s Supp %s' % (timeout, COQ, path)
            rc, out = sh(['bash', '-c', cmd], cwd=self.scratch, timeout=timeout + 30)
            if rc == 124:
                # evaluation only (no search): a time-out here is machine load, retry once with a wide margin
                cmd = 'ulimit -s unlimited 2>/dev/null; timeout %d coqc -Q %s Supp %s' % (4 * timeout, COQ, path)
                rc, out = sh(['bash', '-c', cmd], cwd=self.scratch, timeout=4 * timeout + 30)
            if rc != 0:
                raise RuntimeError('coqc failed on %s (rc=%d):\n%s' % (path, rc, out[-3000:]))
            vals = split_eval_output(out)
            if len(vals) != nq:
                raise RuntimeError('expected %d values from %s, got %d:\n%s' % (nq, path, len(vals), out[-2000:]))
            return [parse_coq_value(v) for v in vals]

        with ThreadPoolExecutor(max_workers=NCPU) as ex:
            return list(ex.map(one, paths))

    def run_cases(self, imports, prelude, check_fn, case_terms, case_type=None, shard=300, timeout=600):
        """Correspondence: evaluate `check_fn : case -> bool` on every case term inside Coq.
        Returns the sorted list of global indices of failing cases."""
        jobs = []
        offsets = []
        for off in range(0, len(case_terms), shard):
            chunk = case_terms[off:off + shard]
            ty = (' : list (%s)' % case_type) if case_type else ''
            pre = prelude + '\nDefinition cases__%s := %s.\n' % (ty, coq_list(chunk))
            jobs.append((imports, pre, ['bad_idx (%s) cases__' % check_fn]))
            offsets.append(off)
        bad = []
        for off, res in zip(offsets, self.coq_eval_many(jobs, timeout=timeout)):
            bad.extend(off + i for i in res[0])
        return sorted(bad)

    # ---- reporting -------------------------------------------------------
    def violation(self, what, replay, found_input=True):
        self.violations += 1
        os.makedirs(os.path.join(VERIF, 'replays'), exist_ok=True)
        path = os.path.join(VERIF, 'replays', '%s_%d_%d.json' % (self.prop, self.seed, self.violations))
        obj = {'property': self.prop, 'what': what, 'tier': self.tier, 'seed': self.seed,
               'found_failing_input': bool(found_input), 'replay': replay}
        with open(path, 'w') as f:
            json.dump(obj, f, indent=1, default=repr)
        line = 'VIOLATION property=%s replay=%s' % (self.prop, path)
        if not found_input:
            line += ' no-failing-input-found'
        print(line, flush=True)
        if self.violations <= 5:
            print('  ' + what[:500], flush=True)
        return path

    def extension_failure(self, what, replay):
        """A failure on inputs OUTSIDE the quantifier domain the property states (the check also
        evaluates a larger domain that the model and its theorems cover): reported and recorded,
        but not a violation of the property - no VIOLATION line, no effect on the exit code."""
        self.extension_failures = getattr(self, 'extension_failures', 0) + 1
        os.makedirs(os.path.join(VERIF, 'replays'), exist_ok=True)
        path = os.path.join(VERIF, 'replays', '%s_%d_ext%d.json' % (self.prop, self.seed, self.extension_failures))
        with open(path, 'w') as f:
            json.dump({'property': self.prop, 'what': what, 'tier': self.tier, 'seed': self.seed,
                       'outside_stated_domain': True, 'replay': replay}, f, indent=1, default=repr)
        if self.extension_failures <= 8:
            print('EXTENDED-DOMAIN-FAILURE: property=%s (outside the stated quantifier domain, not a violation) replay=%s %s'
                  % (self.prop, path, what[:300]), flush=True)
        self.coverage['extended_domain_failures'] = self.extension_failures
        return path

    def known_finding(self, fid, what):
        if fid not in self.known:
            self.known.append(fid)
            print('KNOWN-FINDING: property=%s %s %s' % (self.prop, fid, what), flush=True)

    def open_findings(self):
        return [f for f in self.findings if f.get('property') == self.prop and f.get('status') == 'open']

    def finish(self, level='proof', assumptions=None, explanation=None):
        cov = self.coverage
        if level == 'proof':
            cov.setdefault('obligations', 1)
            cov.setdefault('discharged', 0)
            cov.setdefault('checker_cmd', 'coqc')
            cov.setdefault('trusted_base', [])
        if explanation:
            cov['explanation'] = explanation
        cov.setdefault('rule', '')
        if self.notes:
            cov['notes'] = self.notes
        if self.known:
            cov['known_findings_seen'] = self.known
        ev = {'property_id': self.prop, 'tier': self.tier, 'seed': self.seed, 'level': level,
              'coverage': cov, 'assumptions': assumptions or self.assumptions,
              'wall_s': round(time.time() - self.t0, 2), 'violations': self.violations}
        os.makedirs(os.path.join(VERIF, 'evidence'), exist_ok=True)
        with open(os.path.join(VERIF, 'evidence', '%s.json' % self.prop), 'w') as f:
            json.dump(ev, f, indent=1, default=repr)
        shutil.rmtree(self.scratch, ignore_errors=True)
        self.log('done: evaluations=%d distinct_nontrivial=%d violations=%d known=%s wall=%.1fs' % (
            cov['evaluations'], cov['distinct_nontrivial'], self.violations, self.known, time.time() - self.t0))
        return 1 if self.violations else 0


def load_findings():
    p = os.path.join(VERIF, 'known_findings.json')
    if not os.path.exists(p):
        return []
    return json.load(open(p)).get('findings', [])


# --------------------------------------------------------------------------
# helpers for running the implementation in a fresh interpreter
# --------------------------------------------------------------------------

def run_py(code, args=(), timeout=600, env_extra=None, stdin=None, hashseed='0', python=None):
    """Run a python snippet/file against the repo in a fresh interpreter, return (rc, stdout)."""
    env = dict(os.environ)
    env['PYTHONPATH'] = REPO + os.pathsep + os.path.join(VERIF, 'harness')
    env['PYTHONHASHSEED'] = str(hashseed)
    env[GUARD] = '1'
    env['SUPP_REPO'] = REPO
    if env_extra:
        env.update(env_extra)
    cmd = [python or PY] + ([code] if os.path.exists(code) else ['-c', code]) + list(args)
    p = subprocess.run(cmd, input=stdin, stdout=subprocess.PIPE, stderr=subprocess.PIPE, text=True,
                       timeout=timeout, env=env)
    return p.returncode, p.stdout, p.stderr


def stdlib_files(limit=None, rng=None, include_tests=False):
    import sysconfig
    root = sysconfig.get_paths()['stdlib']
    res = []
    for d, dirs, files in os.walk(root):
        rel = os.path.relpath(d, root)
        parts = rel.split(os.sep)
        if 'site-packages' in parts or '__pycache__' in parts:
            dirs[:] = []
            continue
        if not include_tests and (parts[0] in ('test', 'idlelib', 'lib2to3', 'tkinter', 'turtledemo') or 'tests' in parts or 'test' in parts):
            continue
        for f in sorted(files):
            if f.endswith('.py'):
                res.append(os.path.join(d, f))
    res.sort()
    repo = []
    for sub in ('supp', 'tests'):
        dd = os.path.join(REPO, sub)
        for f in sorted(os.listdir(dd)):
            if f.endswith('.py'):
                repo.append(os.path.join(dd, f))
    if rng is not None:
        rng.shuffle(res)
    if limit is not None:
        res = res[:limit]
    return repo + res
