"""Entry point: ./check <ID> [--tier quick|thorough] [--seed N] [--replay path]"""
import argparse
import importlib
import json
import os
import sys
import traceback

HERE = os.path.dirname(os.path.abspath(__file__))
sys.path.insert(0, HERE)
import common  # noqa: E402


def main():
    ap = argparse.ArgumentParser()
    ap.add_argument('prop')
    ap.add_argument('--tier', default=os.environ.get('VERIF_TIER', 'quick'))
    ap.add_argument('--seed', type=int, default=int(os.environ.get('VERIF_SEED', '0') or 0))
    ap.add_argument('--replay')
    a = ap.parse_args()
    if a.tier not in ('quick', 'thorough'):
        a.tier = 'quick'
    prop = a.prop.upper()
    common.ensure_repo_on_path()
    mod = importlib.import_module('props.%s' % prop.lower())
    ctx = common.Ctx(prop, a.tier, a.seed)
    if a.replay:
        obj = json.load(open(a.replay))
        rc = mod.replay(ctx, obj)
        import shutil
        shutil.rmtree(ctx.scratch, ignore_errors=True)
        sys.exit(rc)
    try:
        mod.run(ctx)
    except Exception:
        tb = traceback.format_exc()
        print(tb, file=sys.stderr)
        ctx.notes.append('harness exception: ' + tb[-1500:])
        # A crashing harness must not pass silently: the property is not shown to hold.
        ctx.violation('check machinery failed: ' + tb.strip().split('\n')[-1],
                      {'kind': 'harness-exception', 'traceback': tb}, found_input=False)
    level = getattr(mod, 'LEVEL', 'proof')
    rc = ctx.finish(level=level, assumptions=getattr(mod, 'ASSUMPTIONS', []),
                    explanation=getattr(mod, 'EXPLANATION', None))
    sys.exit(rc)


if __name__ == '__main__':
    main()
