"""Write seeded/README.md from seeded/*/meta.json."""
import glob
import json
import os

V = os.path.dirname(os.path.dirname(os.path.abspath(__file__)))
rows = []
for d in sorted(glob.glob(os.path.join(V, 'seeded', '*'))):
    mp = os.path.join(d, 'meta.json')
    if not os.path.exists(mp):
        continue
    m = json.load(open(mp))
    rows.append((os.path.basename(d), m))
out = ['# Seeded property-breaking changes', '',
       'Each directory holds `patch.diff` (against /repo), `demo.py` (exits 1 with the change, 0 without) and `meta.json`.',
       'Produced by fresh sub-agents that saw only the property text; confirmed and run against the checks by',
       '`harness/seedtest.py` (scratch worktree of /repo HEAD + patch, checks run with `SUPP_REPO` pointing at it).',
       'Round 2 (`-r2-`) agents were additionally told the round-1 summaries and asked for different mechanisms.', '',
       '| id | breaks | caught by | summary | needs |', '|---|---|---|---|---|']
n = caught = 0
for name, m in rows:
    n += 1
    cb = m.get('caught_by') or []
    if cb:
        caught += 1
    def cell(x):
        return (str(x or '')).replace('|', '/').replace('\n', ' ')[:260]
    out.append('| %s | %s | %s | %s | %s |' % (name, m.get('breaks'), ', '.join(cb) if cb else '**none**' + ('' if m.get('applies_to_head', True) else ' (no longer applies to HEAD)'),
                                          cell(m.get('summary')), cell(m.get('needs'))))
out += ['', '%d changes, %d detected by at least one check.' % (n, caught)]
open(os.path.join(V, 'seeded', 'README.md'), 'w').write('\n'.join(out) + '\n')
print(n, caught)
