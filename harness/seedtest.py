"""Confirm a seeded mutation and run the property's check against it.

usage: python3 harness/seedtest.py <PROP> <outdir of the mutation agent> [k ...]

For each mutK.diff: scratch worktree of /repo HEAD (outside /repo and /verif), apply the diff, run the
unedited test-suite (must pass), run demoK.py against the mutated and the clean tree (must exit 1 / 0),
then run ./check PROP with SUPP_REPO pointing at the mutated worktree and record whether it reports
a VIOLATION. Confirmed mutations are stored under /verif/seeded/<PROP>-<k>/."""
import json
import os
import shutil
import subprocess
import sys
import tempfile

VERIF = os.path.dirname(os.path.dirname(os.path.abspath(__file__)))


def sh(cmd, **kw):
    p = subprocess.run(cmd, shell=True, stdout=subprocess.PIPE, stderr=subprocess.STDOUT, text=True, **kw)
    return p.returncode, p.stdout


def rerun_dir(d):
    """re-confirm and re-run the checks for a stored seeded change: seeded/<ID>-<k>/"""
    d = os.path.abspath(d)
    meta = json.load(open(os.path.join(d, 'meta.json')))
    prop = meta['breaks']
    checks = sorted(set([prop] + list(meta.get('caught_by') or []) + [c for c in os.environ.get('SEED_CHECKS', '').split(',') if c]))
    wt = tempfile.mkdtemp(prefix='seed_re_')
    os.rmdir(wt)
    sh('git -C /repo worktree add -q --detach %s HEAD' % wt)
    try:
        rc, out = sh('git -C %s apply %s' % (wt, os.path.join(d, 'patch.diff')))
        if rc:
            rc, out = sh('git -C %s apply --3way %s' % (wt, os.path.join(d, 'patch.diff')))
        if rc:
            print(os.path.basename(d), 'DOES NOT APPLY to HEAD any more')
            meta['applies_to_head'] = False
            json.dump(meta, open(os.path.join(d, 'meta.json'), 'w'), indent=1)
            return
        rc, out = sh('cd %s && timeout 900 /venv/bin/python -m pytest -q -p no:cacheprovider --timeout=900 2>&1 | tail -1' % wt)
        tests = '175 passed' in out
        demo = os.path.join(d, 'demo.py')
        rc1, _ = sh('cd %s && PYTHONPATH=%s timeout 300 /venv/bin/python %s %s' % (wt, wt, demo, wt))
        rc0, _ = sh('cd /repo && PYTHONPATH=/repo timeout 300 /venv/bin/python %s /repo' % demo)
        res = {}
        for c in checks:
            rcc, outc = sh('cd %s && SUPP_REPO=%s timeout 1800 ./check %s 2>&1' % (VERIF, wt, c))
            res[c] = len([l for l in outc.split('\n') if l.startswith('VIOLATION')])
            sh('rm -f %s/replays/%s_*.json' % (VERIF, c))
        head = sh('git -C /repo rev-parse --short HEAD')[1].strip()
        meta['applies_to_head'] = True
        meta['caught_by'] = [c for c, n in res.items() if n > 0]
        meta['ran'] = ['on /repo HEAD %s + patch: pytest %s' % (head, 'passes (175)' if tests else 'FAILS'),
                       'demo.py on mutated tree: exit %d; on clean tree: exit %d' % (rc1, rc0)] + \
                      ['SUPP_REPO=<mutated> ./check %s -> %d VIOLATION lines' % (c, n) for c, n in res.items()]
        json.dump(meta, open(os.path.join(d, 'meta.json'), 'w'), indent=1)
        print('%s tests=%s demo=%d/%d %s' % (os.path.basename(d), tests, rc1, rc0, res))
    finally:
        sh('git -C /repo worktree remove --force %s' % wt)
        shutil.rmtree(wt, ignore_errors=True)


def main():
    if sys.argv[1] == '--dir':
        for d in sys.argv[2:]:
            rerun_dir(d.rstrip('/'))
        return
    prop, outdir = sys.argv[1], sys.argv[2]
    ks = sys.argv[3:] or ['1', '2', '3']
    checks = os.environ.get('SEED_CHECKS', prop).split(',')
    tag = os.environ.get('SEED_TAG', '')          # e.g. 'r2-' for a second round
    for k in ks:
        diff = os.path.join(outdir, 'mut%s.diff' % k)
        demo = os.path.join(outdir, 'demo%s.py' % k)
        if not os.path.exists(diff):
            print(prop, k, 'no diff')
            continue
        wt = tempfile.mkdtemp(prefix='seed_%s_%s_' % (prop, k))
        os.rmdir(wt)
        rc, out = sh('git -C /repo worktree add -q --detach %s HEAD' % wt)
        res = {'property': prop, 'k': k}
        try:
            rc, out = sh('git -C %s apply %s' % (wt, diff))
            if rc:
                rc, out = sh('git -C %s apply --3way %s' % (wt, diff))
            res['applies'] = rc == 0
            if rc:
                print(prop, k, 'DOES NOT APPLY', out[-300:])
                continue
            rc, out = sh('cd %s && timeout 900 /venv/bin/python -m pytest -q -p no:cacheprovider --timeout=900 2>&1 | tail -1' % wt)
            res['tests'] = out.strip()
            res['tests_pass'] = '175 passed' in out
            rc1, out1 = sh('cd %s && PYTHONPATH=%s timeout 300 /venv/bin/python %s %s' % (wt, wt, demo, wt))
            rc0, out0 = sh('cd /repo && PYTHONPATH=/repo timeout 300 /venv/bin/python %s /repo' % demo)
            res['demo_mutated_rc'] = rc1
            res['demo_clean_rc'] = rc0
            res['demo_output'] = out1[-600:]
            res['confirmed'] = bool(res['tests_pass'] and rc1 != 0 and rc0 == 0)
            res['checks'] = {}
            for c in checks:
                rcc, outc = sh('cd %s && SUPP_REPO=%s timeout 1500 ./check %s 2>&1' % (VERIF, wt, c))
                viol = [l for l in outc.split('\n') if l.startswith('VIOLATION')]
                res['checks'][c] = {'rc': rcc, 'violations': len(viol), 'first': viol[:1],
                                    'detail': [l for l in outc.split('\n') if l.startswith('  ')][:2]}
            sh('rm -f %s/replays/%s_*.json' % (VERIF, prop))
            meta = {}
            mp = os.path.join(outdir, 'meta%s.json' % k)
            if os.path.exists(mp):
                try:
                    meta = json.load(open(mp))
                except Exception:
                    meta = {'raw': open(mp).read()[:500]}
            res['meta'] = meta
            caught = any(v['violations'] > 0 for v in res['checks'].values())
            print('%s-%s%s confirmed=%s tests=%s demo(mut/clean)=%s/%s caught=%s %s' % (
                prop, tag, k, res['confirmed'], res['tests_pass'], rc1, rc0, caught,
                {c: v['violations'] for c, v in res['checks'].items()}))
            if res['confirmed']:
                d = os.path.join(VERIF, 'seeded', '%s-%s%s' % (prop, tag, k))
                os.makedirs(d, exist_ok=True)
                shutil.copy(diff, os.path.join(d, 'patch.diff'))
                shutil.copy(demo, os.path.join(d, 'demo.py'))
                json.dump({'breaks': prop, 'summary': meta.get('summary'), 'needs': meta.get('needs'),
                           'files': meta.get('files'),
                           'ran': ['pytest (175 passed) on /repo HEAD + patch', 'demo.py on mutated tree: exit %d' % rc1,
                                   'demo.py on clean tree: exit %d' % rc0] + ['SUPP_REPO=<mutated> ./check %s -> %d VIOLATION lines' % (c, v['violations']) for c, v in res['checks'].items()],
                           'caught_by': [c for c, v in res['checks'].items() if v['violations'] > 0],
                           'first_violation_detail': {c: v['detail'] for c, v in res['checks'].items()}},
                          open(os.path.join(d, 'meta.json'), 'w'), indent=1)
        finally:
            sh('git -C /repo worktree remove --force %s' % wt)
            shutil.rmtree(wt, ignore_errors=True)


if __name__ == '__main__':
    main()
