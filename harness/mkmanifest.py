"""Regenerate MANIFEST.json from manifest.d/*.json fragments (one per claimed property)."""
import json
import os

V = os.path.dirname(os.path.dirname(os.path.abspath(__file__)))
props = [json.loads(l)['id'] for l in open(os.path.join(V, 'properties.jsonl')) if l.strip()]
checks = []
na = []
na_reasons = {}
p = os.path.join(V, 'manifest.d', 'not_applicable.json')
if os.path.exists(p):
    na_reasons = json.load(open(p))
enabled = set(open(os.path.join(V, 'manifest.d', 'ENABLED')).read().split())
for pid in props:
    frag = os.path.join(V, 'manifest.d', pid + '.json')
    if os.path.exists(frag) and pid in enabled:
        f = json.load(open(frag))
        f.setdefault('property_id', pid)
        f['quick_cmd'] = './check %s --tier quick' % pid
        f['thorough_cmd'] = './check %s --tier thorough' % pid
        f['evidence_file'] = '/verif/evidence/%s.json' % pid
        f['replay_cmd_template'] = './check %s --replay {path}' % pid
        f['engine'] = 'rocq-model+correspondence'
        checks.append(f)
    else:
        na.append({'property_id': pid, 'reason': na_reasons.get(pid, 'check not built yet (work in progress); not claimed')})
m = {
    'version': 1,
    'setup_cmd': './setup.sh',
    'hooks': {
        'guard': 'SUPP_VERIF',
        'enable': 'no hook in /repo is needed: checks import supp from /repo with SUPP_VERIF=1 set; observation is by public attributes and monkeypatching from the harness process',
        'baseline_off_cmd': 'cd /repo && env -u SUPP_VERIF /venv/bin/python -m pytest -ra -q -p no:cacheprovider --timeout=900 --continue-on-collection-errors',
        'source_commits': [],
        'add_only': True,
    },
    'engines': [{
        'name': 'rocq-model+correspondence', 'path': '/verif/coq + /verif/harness',
        'serves_properties': [c['property_id'] for c in checks],
        'kind_free_text': 'hand-written Gallina models with theorems (Coq 8.16.1, full .vo build, Print Assumptions parsed on every run) tied to /repo by a behavioural correspondence evaluated with vm_compute inside Coq on inputs the real code has just been run on; direct property evaluators for failing-input search',
    }],
    'checks': checks,
    'not_applicable': na,
    'notes': 'See DESIGN.md. known_findings.json lists fixed and open findings.',
}
json.dump(m, open(os.path.join(V, 'MANIFEST.json'), 'w'), indent=1)
print('checks:', [c['property_id'] for c in checks], 'not claimed:', [x['property_id'] for x in na])
