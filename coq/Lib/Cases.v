(* Generic helpers for correspondence case files (cases_*.v written by the harness). *)
From Coq Require Import List Bool Arith.
Import ListNotations.

Fixpoint bad_idx_from {A} (f : A -> bool) (n : nat) (l : list A) : list nat :=
  match l with
  | [] => []
  | x :: r => if f x then bad_idx_from f (S n) r else n :: bad_idx_from f (S n) r
  end.

(* indices (0-based) of the cases on which the boolean check fails *)
Definition bad_idx {A} (f : A -> bool) (l : list A) : list nat := bad_idx_from f 0 l.

Lemma bad_idx_from_nil {A} (f : A -> bool) l : forall n,
  bad_idx_from f n l = [] <-> forallb f l = true.
Proof.
  induction l as [|x r IH]; intros n; simpl.
  - tauto.
  - destruct (f x); simpl.
    + apply IH.
    + split; intros H; discriminate H.
Qed.

Lemma bad_idx_nil {A} (f : A -> bool) l : bad_idx f l = [] <-> forallb f l = true.
Proof. apply bad_idx_from_nil. Qed.
