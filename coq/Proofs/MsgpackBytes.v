(* Lemmas about the byte-level functions of Model/Msgpack.v: big-endian numbers, reading, prefixes. *)
From Coq Require Import List Bool Arith NArith ZArith Lia.
Import ListNotations.
From Supp Require Import Model.Msgpack.
Local Open Scope N_scope.

Ltac Zify.zify_post_hook ::= Z.to_euclidean_division_equations.

Arguments N.mul : simpl never.
Arguments N.add : simpl never.
Arguments N.div : simpl never.
Arguments N.modulo : simpl never.
Arguments N.pow : simpl never.
Arguments N.eqb : simpl never.
Arguments N.leb : simpl never.
Arguments N.ltb : simpl never.
Arguments N.of_nat : simpl never.
Arguments Z.of_N : simpl never.
Arguments Z.to_N : simpl never.

(* ---------------------------------------------------------------- len *)

Lemma len_nil {A} : len (@nil A) = 0.
Proof. reflexivity. Qed.

Lemma len_cons {A} (a : A) l : len (a :: l) = N.succ (len l).
Proof. unfold len. simpl length. apply Nat2N.inj_succ. Qed.

Lemma len_app {A} (a b : list A) : len (a ++ b) = len a + len b.
Proof. unfold len. rewrite app_length. apply Nat2N.inj_add. Qed.

Lemma len_lt {A} (a b : list A) : len a < len b <-> (length a < length b)%nat.
Proof. unfold len. lia. Qed.

(* ---------------------------------------------------------------- be / unbe *)

Lemma be_length k : forall n, length (be k n) = k.
Proof.
  induction k as [|k IH]; intros n; simpl be.
  - reflexivity.
  - rewrite app_length, IH. simpl. lia.
Qed.

Lemma unbe_snoc l x : unbe (l ++ [x]) = unbe l * 256 + x.
Proof. unfold unbe. rewrite fold_left_app. reflexivity. Qed.

Lemma pow256_succ k : 256 ^ N.of_nat (S k) = 256 * 256 ^ N.of_nat k.
Proof. rewrite Nat2N.inj_succ. apply N.pow_succ_r'. Qed.

Lemma unbe_be k : forall n, n < 256 ^ N.of_nat k -> unbe (be k n) = n.
Proof.
  induction k as [|k IH]; intros n Hn.
  - change (256 ^ N.of_nat 0) with 1 in Hn. simpl be. unfold unbe. simpl. lia.
  - rewrite pow256_succ in Hn. simpl be. rewrite unbe_snoc.
    rewrite IH.
    + lia.
    + apply N.div_lt_upper_bound; lia.
Qed.

Lemma be_bytes k : forall n, Forall (fun x => x < 256) (be k n).
Proof.
  induction k as [|k IH]; intros n; simpl be.
  - constructor.
  - apply Forall_app. split; [apply IH|]. constructor; [|constructor].
    apply N.mod_lt. lia.
Qed.

(* ---------------------------------------------------------------- read *)

Lemma read_0 bs : read 0 bs = Some ([], bs).
Proof. destruct bs; reflexivity. Qed.

Lemma read_cons n b r : n <> 0 ->
  read n (b :: r) = match read (N.pred n) r with None => None | Some (x, y) => Some (b :: x, y) end.
Proof.
  intros Hn. simpl read. destruct (N.eqb_spec n 0) as [E|E]; [contradiction|reflexivity].
Qed.

Lemma read_nil n : n <> 0 -> read n [] = None.
Proof. intros Hn. simpl. destruct (N.eqb_spec n 0); [contradiction|reflexivity]. Qed.

Lemma read_app s : forall rest, read (len s) (s ++ rest) = Some (s, rest).
Proof.
  induction s as [|a s IH]; intros rest.
  - rewrite len_nil. apply read_0.
  - rewrite len_cons. simpl app. rewrite read_cons by lia.
    rewrite N.pred_succ, IH. reflexivity.
Qed.

Lemma read_short p : forall n, len p < n -> read n p = None.
Proof.
  induction p as [|a p IH]; intros n Hn.
  - apply read_nil. rewrite len_nil in Hn. lia.
  - rewrite len_cons in Hn. rewrite read_cons by lia.
    rewrite IH by lia. reflexivity.
Qed.

Lemma read_some bs : forall n x r, read n bs = Some (x, r) -> bs = x ++ r /\ len x = n.
Proof.
  induction bs as [|b bs IH]; intros n x r H.
  - destruct (N.eq_dec n 0) as [->|Hn].
    + rewrite read_0 in H. injection H as <- <-. split; reflexivity.
    + rewrite read_nil in H by assumption. discriminate.
  - destruct (N.eq_dec n 0) as [->|Hn].
    + rewrite read_0 in H. injection H as <- <-. split; reflexivity.
    + rewrite read_cons in H by assumption.
      destruct (read (N.pred n) bs) as [[x' y']|] eqn:E; [|discriminate].
      injection H as <- <-. destruct (IH _ _ _ E) as [-> Hl].
      split; [reflexivity|]. rewrite len_cons. lia.
Qed.

Lemma rd_app s rest : rd (len s) (s ++ rest) = Ok (s, rest).
Proof. unfold rd. rewrite read_app. reflexivity. Qed.

Lemma rd_short n p : len p < n -> rd n p = Err Insufficient.
Proof. intros H. unfold rd. rewrite read_short by assumption. reflexivity. Qed.

Lemma rd_ok n bs x r : rd n bs = Ok (x, r) -> bs = x ++ r /\ len x = n.
Proof.
  unfold rd. destruct (read n bs) as [[x' r']|] eqn:E; [|discriminate].
  intros H. injection H as <- <-. eapply read_some; eassumption.
Qed.

Lemma rd_err n bs e : rd n bs = Err e -> e = Insufficient.
Proof. unfold rd. destruct (read n bs) as [[? ?]|]; [discriminate|]. intros H. injection H as <-. reflexivity. Qed.

Lemma len_be k n : len (be k n) = N.of_nat k.
Proof. unfold len. rewrite be_length. reflexivity. Qed.

Lemma rd_uint_be k n rest : n < 256 ^ N.of_nat k ->
  rd_uint (N.of_nat k) (be k n ++ rest) = Ok (n, rest).
Proof.
  intros Hn. unfold rd_uint. rewrite <- (len_be k n), rd_app, unbe_be by assumption. reflexivity.
Qed.

Lemma rd_uint_short k p : len p < k -> rd_uint k p = Err Insufficient.
Proof. intros H. unfold rd_uint. rewrite rd_short by assumption. reflexivity. Qed.

Lemma rd_uint_ok k bs u r : rd_uint k bs = Ok (u, r) -> exists x, bs = x ++ r /\ len x = k /\ u = unbe x.
Proof.
  unfold rd_uint. destruct (rd k bs) as [[x r']|e] eqn:E; [|discriminate].
  intros H. injection H as <- <-. destruct (rd_ok _ _ _ _ E) as [-> Hl]. exists x. auto.
Qed.

Lemma rd_uint_err k bs e : rd_uint k bs = Err e -> e = Insufficient.
Proof.
  unfold rd_uint. destruct (rd k bs) as [[x r']|e'] eqn:E; [discriminate|].
  intros H. injection H as <-. eapply rd_err; eassumption.
Qed.

Lemma rd_uint_be1 n rest : n < 256 -> rd_uint 1 (be 1 n ++ rest) = Ok (n, rest).
Proof. exact (rd_uint_be 1 n rest). Qed.
Lemma rd_uint_be2 n rest : n < 65536 -> rd_uint 2 (be 2 n ++ rest) = Ok (n, rest).
Proof. exact (rd_uint_be 2 n rest). Qed.
Lemma rd_uint_be4 n rest : n < 4294967296 -> rd_uint 4 (be 4 n ++ rest) = Ok (n, rest).
Proof. exact (rd_uint_be 4 n rest). Qed.
Lemma rd_uint_be8 n rest : n < 18446744073709551616 -> rd_uint 8 (be 8 n ++ rest) = Ok (n, rest).
Proof. exact (rd_uint_be 8 n rest). Qed.

(* ---------------------------------------------------------------- prefixes *)

(* p is a proper prefix of b *)
Definition sprefix (p b : bytes) : Prop := exists q, q <> [] /\ b = p ++ q.

Lemma app_split {A} (p q a b : list A) : p ++ q = a ++ b ->
  (exists m, a = p ++ m /\ q = m ++ b) \/ (exists m, m <> [] /\ p = a ++ m /\ b = m ++ q).
Proof.
  revert a. induction p as [|x p IH]; intros a H.
  - left. exists a. simpl in *. auto.
  - destruct a as [|y a].
    + right. exists (x :: p). simpl in *. split; [discriminate|]. auto.
    + simpl in H. injection H as <- H. destruct (IH _ H) as [[m [-> ->]]|[m [Hm [-> ->]]]].
      * left. exists m. auto.
      * right. exists m. auto.
Qed.

(* a proper prefix of a ++ b is a proper prefix of a, or a followed by a proper prefix of b *)
Lemma sprefix_app p a b : sprefix p (a ++ b) ->
  sprefix p a \/ exists p', p = a ++ p' /\ sprefix p' b.
Proof.
  intros [q [Hq H]]. symmetry in H. destruct (app_split _ _ _ _ H) as [[m [-> ->]]|[m [Hm [-> ->]]]].
  - destruct m as [|x m].
    + right. exists []. rewrite !app_nil_r. split; [reflexivity|]. exists b. simpl in Hq. auto.
    + left. exists (x :: m). split; [discriminate|reflexivity].
  - right. exists m. split; [reflexivity|]. exists q. auto.
Qed.

Lemma sprefix_nil p : ~ sprefix p [].
Proof. intros [q [Hq H]]. destruct p; destruct q; try discriminate. contradiction. Qed.

Lemma sprefix_len p b : sprefix p b -> len p < len b.
Proof.
  intros [q [Hq ->]]. rewrite len_app. destruct q; [contradiction|]. rewrite len_cons. lia.
Qed.

Lemma sprefix_cons_inv p c t : sprefix p (c :: t) -> p = [] \/ exists p', p = c :: p' /\ sprefix p' t.
Proof.
  intros [q [Hq H]]. destruct p as [|x p]; [left; reflexivity|right].
  simpl in H. injection H as <- ->. exists p. split; [reflexivity|]. exists q. auto.
Qed.

Lemma sprefix_single p c : sprefix p [c] -> p = [].
Proof.
  intros H. destruct (sprefix_cons_inv _ _ _ H) as [->|[p' [-> H']]]; [reflexivity|].
  exfalso. eapply sprefix_nil; eassumption.
Qed.
