(* The LEGB premise [rt_env] of C01_nested_visible is met by every namespace the executable chain
   semantics [run_chain] produces; hence every successful read of every level is visible. *)
From Coq Require Import List Bool Arith NArith.
Import ListNotations.
From Supp Require Import Model.PyCore Model.Reach Model.ReachX Model.Sem Model.SemX Model.Nested Model.NestedRun
  Proofs.ReachProofs Proofs.ReachCorollaries Proofs.SemXProofs Proofs.ReachXBridge Proofs.NestedProofs.

(* the analysis leaves names alone that the command does not bind *)
Lemma an_frame_both :
  (forall c s x, ~ In x (binds c) -> forall a, In a (an c s x) -> In a (s x)) /\
  (forall hs hin acc x, ~ In x (binds_h hs) -> forall a, In a (an_h hs hin acc x) -> In a (acc x) \/ In a (hin x)).
Proof.
  apply cmd_hlist_ind; simpl.
  - intros s x _ a H; exact H.
  - intros a IHa b IHb s x Hn al H. rewrite in_app_iff in Hn.
    apply IHa; [tauto|]. apply (IHb _ x); [tauto|exact H].
  - intros d y s x Hn a H. unfold upd in H. destruct (N.eqb x y) eqn:E; [|exact H].
    apply N.eqb_eq in E. subst. tauto.
  - intros r y s x _ a H; exact H.
  - intros a IHa b IHb s x Hn al H. rewrite in_app_iff in Hn. unfold join in H. apply in_app_or in H.
    destruct H as [H|H]; [apply (IHa s x)|apply (IHb s x)]; tauto.
  - intros t IHt b IHb e IHe s x Hn a H. rewrite !in_app_iff in Hn.
    apply IHe in H; [|tauto]. apply IHt in H; [|tauto]. unfold join in H. apply in_app_or in H.
    destruct H as [H|H]; [exact H|]. apply IHb in H; [|tauto]. apply IHt in H; [exact H|tauto].
  - intros tg IHt b IHb e IHe s x Hn a H. rewrite !in_app_iff in Hn.
    apply IHe in H; [|tauto]. unfold join in H. apply in_app_or in H.
    destruct H as [H|H]; [exact H|]. apply IHb in H; [|tauto]. apply IHt in H; [|tauto].
    apply in_app_or in H. destruct H as [H|H]; [exact H|]. apply IHb in H; [|tauto]. apply IHt in H; [exact H|tauto].
  - intros rf b IHb rl hs IHh e IHe f IHf s x Hn a H. rewrite !in_app_iff in Hn.
    apply IHf in H; [|tauto]. apply IHh in H; [|tauto].
    destruct H as [H|H].
    + apply IHe in H; [|tauto]. apply IHb in H; [exact H|tauto].
    + unfold join in H. apply in_app_or in H. destruct H as [H|H]; [exact H|]. apply IHb in H; [exact H|tauto].
  - intros k s x _ a H; exact H.
  - intros hin acc x _ a H. left; exact H.
  - intros ty IHty nm hb IHhb rest IHr hin acc x Hn a H.
    apply IHr in H.
    + destruct H as [H|H]; [|right; exact H]. unfold join in H. apply in_app_or in H.
      destruct H as [H|H]; [left; exact H|]. right.
      apply IHhb in H.
      * destruct nm as [[d y]|]; simpl in H.
        -- unfold upd in H. destruct (N.eqb x y) eqn:E.
           ++ apply N.eqb_eq in E. subst. exfalso. apply Hn. rewrite !in_app_iff. simpl. tauto.
           ++ apply IHty in H; [exact H|]. intro. apply Hn. rewrite !in_app_iff. tauto.
        -- apply IHty in H; [exact H|]. intro. apply Hn. rewrite !in_app_iff. tauto.
      * intro. apply Hn. rewrite !in_app_iff. tauto.
    + intro. apply Hn. rewrite !in_app_iff. tauto.
Qed.

Lemma an_frame c s x a : ~ In x (binds c) -> In a (an c s x) -> In a (s x).
Proof. intros Hn H. exact (proj1 an_frame_both c s x Hn a H). Qed.

(* hence a run binds only names its command binds: every other name keeps its state *)
Definition exact_env (p : renv) : aenv := fun y => [p y].

Lemma runX_frame fuel c p ds p' tr o ds' x d :
  runX fuel c p ds = DoneX p' tr o ds' -> p' x = Some d -> In x (binds c) \/ exists d', p x = Some d'.
Proof.
  intros Hr Hp.
  assert (A : dabs p (exact_env p)).
  { intros y e Hy. exists e. unfold exact_env. rewrite Hy. left; reflexivity. }
  pose proof (runX_good fuel c p ds (exact_env p) A) as G. rewrite Hr in G. destruct G as [B _].
  destruct (in_dec_name x (binds c)) as [Hin|Hn]; [left; exact Hin|right].
  destruct (B x d Hp) as [d' Hd']. apply (an_frame c _ x _ Hn) in Hd'.
  unfold exact_env in Hd'. destruct Hd' as [Hd'|[]]. exists d'. exact Hd'.
Qed.

(* only names some body of [outers] binds are bound *)
Definition bound_in (outers : list cmd) (p : renv) : Prop :=
  forall x d, p x = Some d -> exists c, In c outers /\ In x (binds c).

Lemma enter_rt_env outers c p : bound_in outers p -> rt_env outers c (enter_r (binds c) p).
Proof.
  intros H x d Hx. unfold enter_r in Hx. destruct (mem_name x (binds c)) eqn:E; [discriminate Hx|].
  split; [reflexivity|]. exact (H x d Hx).
Qed.

Lemma bound_in_step fuel outers c p ds p' tr o ds' :
  bound_in outers p -> runX fuel c (enter_r (binds c) p) ds = DoneX p' tr o ds' -> bound_in (outers ++ [c]) p'.
Proof.
  intros H Hr x d Hx. destruct (runX_frame _ _ _ _ _ _ _ _ x d Hr Hx) as [Hin|[d' Hd']].
  - exists c. split; [apply in_or_app; right; left; reflexivity|exact Hin].
  - unfold enter_r in Hd'. destruct (mem_name x (binds c)); [discriminate Hd'|].
    destruct (H x d' Hd') as [c0 [Hc0 Hb]]. exists c0. split; [apply in_or_app; left; exact Hc0|exact Hb].
Qed.

Lemma level_visible_of_rt os c fuel p ds p' tr o ds' :
  rt_env os c p -> runX fuel c p ds = DoneX p' tr o ds' -> level_visible (os, c, tr) = true.
Proof.
  intros Hrt Hr. unfold level_visible. apply forallb_forall. intros [r [d|]] Hin; simpl; [|reflexivity].
  destruct (nested_visible os c fuel ds p p' tr o ds' r d Hrt Hr Hin) as [V E]. rewrite V, E. reflexivity.
Qed.

(* every level of every chain run: every read that finds its name bound is visible, not E02 *)
Theorem chain_run_visible : forall fuel rest outers p ds,
  bound_in outers p ->
  forallb level_visible (run_chain fuel outers rest p ds) = true.
Proof.
  intros fuel rest. induction rest as [|c rest IH]; intros outers p ds Hb; simpl; [reflexivity|].
  destruct (runX fuel c (enter_r (binds c) p) ds) as [p' tr o ds'| |] eqn:Hr; [|reflexivity|reflexivity].
  cbn [forallb]. rewrite (level_visible_of_rt outers c fuel _ ds p' tr o ds' (enter_rt_env outers c p Hb) Hr).
  cbn [andb]. destruct o; try reflexivity.
  apply IH. exact (bound_in_step fuel outers c p ds p' tr XN ds' Hb Hr).
Qed.

Lemma bound_in_nil : bound_in [] renv0.
Proof. intros x d H. discriminate H. Qed.

Corollary module_chain_visible fuel bodies ds :
  forallb level_visible (run_chain fuel [] bodies renv0 ds) = true.
Proof. apply chain_run_visible, bound_in_nil. Qed.
