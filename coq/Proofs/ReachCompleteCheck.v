(* Closedness check of the main theorems of SemProofs.v and ReachComplete.v: every line below must
   print "Closed under the global context". *)
From Supp Require Import Model.PyCore Model.Reach Model.Sem Proofs.ReachProofs
  Proofs.SemProofs Proofs.ReachComplete.

Print Assumptions run_exec.
Print Assumptions run_mono.
Print Assumptions exec_run.
Print Assumptions exec_iff_run.
Print Assumptions exec_total.
Print Assumptions an_complete.
Print Assumptions seen_complete.
Print Assumptions complete.
Print Assumptions complete0.
Print Assumptions has_ret_ok.
Print Assumptions seen_exact.
Print Assumptions undefined_exact.
Print Assumptions e02_exact.
Print Assumptions ex_try_hyps.
Print Assumptions ex_try_phantom.
