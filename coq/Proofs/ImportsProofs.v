(* Proofs about Model/Imports.v (C07): supp's module search against importlib's, for every abstract
   file system, any number of roots and any depth. *)
From Coq Require Import Ascii String.
From Coq Require Import List Bool Arith Lia.
Import ListNotations.
From Supp Require Import Model.Imports.

(* ---------------------------------------------------------------- basic facts *)

Lemma str_eqb_eq a : forall b, str_eqb a b = true <-> a = b.
Proof.
  induction a as [|x a IH]; intros [|y b]; simpl; split; intros H; try reflexivity; try discriminate.
  - apply andb_true_iff in H as [H1 H2]. apply Ascii.eqb_eq in H1. apply IH in H2. subst; reflexivity.
  - injection H as -> ->. rewrite Ascii.eqb_refl. simpl. apply IH. reflexivity.
Qed.

Lemma str_eqb_refl a : str_eqb a a = true.
Proof. apply str_eqb_eq. reflexivity. Qed.

Lemma path_eqb_eq a : forall b, path_eqb a b = true <-> a = b.
Proof.
  induction a as [|x a IH]; intros [|y b]; simpl; split; intros H; try reflexivity; try discriminate.
  - apply andb_true_iff in H as [H1 H2]. apply str_eqb_eq in H1. apply IH in H2. subst; reflexivity.
  - injection H as -> ->. rewrite str_eqb_refl. simpl. apply IH. reflexivity.
Qed.

Lemma find_ext_in {A} (f g : A -> bool) l :
  (forall x, In x l -> f x = g x) -> find f l = find g l.
Proof.
  induction l as [|x l IH]; intros H; simpl; [reflexivity|].
  rewrite <- (H x (or_introl eq_refl)). destruct (f x); [reflexivity|].
  apply IH. intros y Hy. apply H. right; exact Hy.
Qed.

Lemma find_filter_nil {A} (f : A -> bool) l : is_nil (filter f l) = true -> find f l = None.
Proof.
  induction l as [|x l IH]; simpl; [reflexivity|]. destruct (f x); simpl; [discriminate|exact IH].
Qed.

Lemma find_some_intro {A} (f : A -> bool) l x : In x l -> f x = true -> exists y, find f l = Some y.
Proof.
  intros Hin Hf. destruct (find f l) as [y|] eqn:E; [exists y; reflexivity|].
  rewrite (find_none _ _ E x Hin) in Hf. discriminate.
Qed.

Lemma find_existsb_false {A} (f : A -> bool) l : existsb f l = false -> find f l = None.
Proof.
  induction l as [|x l IH]; simpl; [reflexivity|]. intros H. apply orb_false_iff in H as [H1 H2].
  rewrite H1. apply IH, H2.
Qed.

Lemma first_some_in {A B} (f : A -> option B) l y :
  first_some f l = Some y -> exists x, In x l /\ f x = Some y.
Proof.
  induction l as [|x l IH]; simpl; [discriminate|]. destruct (f x) as [z|] eqn:E.
  - intros H; injection H as <-. exists x. split; [left; reflexivity|exact E].
  - intros H. destruct (IH H) as (x' & Hin & Hx). exists x'. split; [right; exact Hin|exact Hx].
Qed.

Lemma filter_map_in {A B} (f : A -> option B) l y :
  In y (filter_map f l) <-> exists x, In x l /\ f x = Some y.
Proof.
  induction l as [|x l IH]; simpl.
  - split; [intros []|intros (x & [] & _)].
  - destruct (f x) as [z|] eqn:E; simpl; rewrite IH; split.
    + intros [<-|(x' & Hin & Hx)]; [exists x; auto|exists x'; auto].
    + intros (x' & [<-|Hin] & Hx); [left; congruence|right; exists x'; auto].
    + intros (x' & Hin & Hx); exists x'; auto.
    + intros (x' & [<-|Hin] & Hx); [congruence|exists x'; auto].
Qed.

(* ---------------------------------------------------------------- one directory *)

Section Agree.
  Variable fs : path -> kind.
  Variable ls : path -> list str.
  Variable sfx : list str.

  Notation exists_ := (exists_ fs).
  Notation isfile := (isfile fs).
  Notation isdir := (isdir fs).

  Lemma isfile_exists p : isfile p = true -> exists_ p = true.
  Proof. unfold Imports.isfile, Imports.exists_. destruct (fs p); auto; discriminate. Qed.

  Lemma isdir_exists p : isdir p = true -> exists_ p = true.
  Proof. unfold Imports.isdir, Imports.exists_. destruct (fs p); auto; discriminate. Qed.

  Lemma app2 (d : path) (n x : str) : (d ++ [n]) ++ [x] = d ++ [n; x].
  Proof. rewrite <- app_assoc. reflexivity. Qed.

  (* In a clean directory FileFinder and supp's search step return the same thing. *)
  Lemma clean_agree d n :
    clean fs sfx d n = true ->
    ref_find_in fs sfx d n = option_map RHit (impl_find_in fs sfx d n).
  Proof.
    unfold clean, ref_find_in, impl_find_in. intros H.
    apply andb_true_iff in H as [Hmods Hpk].
    assert (Hfind : find (fun s => isfile (d ++ [n ++ s])) sfx = find (fun s => exists_ (d ++ [n ++ s])) sfx).
    { apply find_ext_in. intros s Hs. destruct (exists_ (d ++ [n ++ s])) eqn:E.
      - rewrite forallb_forall in Hmods. apply Hmods. apply filter_In. split; assumption.
      - destruct (isfile (d ++ [n ++ s])) eqn:F; [|reflexivity].
        apply isfile_exists in F. congruence. }
    destruct (exists_ (d ++ [n; init_py]) || isdir (d ++ [n]) ||
              existsb (fun s => isfile ((d ++ [n]) ++ [init_stem ++ s])) sfx) eqn:C.
    - apply andb_true_iff in Hpk as [Hpk Hinit]. apply andb_true_iff in Hpk as [Hpk Hnil].
      apply andb_true_iff in Hpk as [Hf Hb]. rewrite Hb.
      destruct (find (fun s => isfile ((d ++ [n]) ++ [init_stem ++ s])) sfx) as [s|] eqn:Fi; [|discriminate].
      apply str_eqb_eq in Hinit. subst s.
      rewrite (find_filter_nil _ _ Hnil). rewrite (isfile_exists _ Hf). cbn [option_map].
      rewrite str_eqb_refl, app2. reflexivity.
    - apply orb_false_iff in C as [C C3]. apply orb_false_iff in C as [C1 C2].
      rewrite (find_existsb_false _ _ C3).
      rewrite Hfind.
      destruct (find (fun s => exists_ (d ++ [n ++ s])) sfx) as [s|];
        destruct (exists_ (d ++ [n])); try reflexivity; rewrite C1, C2; reflexivity.
  Qed.

  Lemma path_agree dirs n :
    forallb (fun d => clean fs sfx d n) dirs = true ->
    ref_path_find fs sfx dirs n false = to_rres (impl_find fs sfx dirs n).
  Proof.
    unfold impl_find. induction dirs as [|d r IH]; simpl; intros H; [reflexivity|].
    apply andb_true_iff in H as [Hc Hr]. rewrite (clean_agree _ _ Hc).
    destruct (impl_find_in fs sfx d n) as [h|]; simpl; [reflexivity|]. apply IH, Hr.
  Qed.

  (* ---------------------------------------------------------------- the walk *)

  Lemma impl_walk_nil name : forall last, name <> [] -> impl_walk fs sfx [] name last = None.
  Proof.
    induction name as [|n r IH]; intros last Hne; [congruence|]. simpl.
    destruct r as [|n2 r']; [reflexivity|]. apply IH. discriminate.
  Qed.

  Lemma impl_walk_last dirs name : forall l1 l2, name <> [] ->
    impl_walk fs sfx dirs name l1 = impl_walk fs sfx dirs name l2.
  Proof. destruct name; intros; [congruence|reflexivity]. Qed.

  Lemma importlib_walk_cons dirs n n2 r :
    importlib_walk fs sfx dirs (n :: n2 :: r) =
    match ref_path_find fs sfx dirs n false with
    | RFound (_, _, Some pd) => importlib_walk fs sfx [pd] (n2 :: r)
    | RFound (_, _, None) => RNotFound
    | x => x
    end.
  Proof. reflexivity. Qed.

  Lemma impl_walk_cons dirs n r last :
    impl_walk fs sfx dirs (n :: r) last =
    impl_walk fs sfx (next_dirs (impl_find fs sfx dirs n)) r (impl_find fs sfx dirs n).
  Proof. reflexivity. Qed.

  Lemma dom_cons dirs n r :
    dom fs sfx dirs (n :: r) =
    forallb (fun d => clean fs sfx d n) dirs && dom fs sfx (next_dirs (impl_find fs sfx dirs n)) r.
  Proof. reflexivity. Qed.

  Theorem walk_agree name : forall dirs, name <> [] -> dom fs sfx dirs name = true ->
    importlib_walk fs sfx dirs name = to_rres (impl_lookup fs sfx dirs name).
  Proof.
    unfold impl_lookup. induction name as [|n r IH]; intros dirs Hne Hd; [congruence|].
    rewrite dom_cons in Hd. apply andb_true_iff in Hd as [Hc Hd].
    destruct r as [|n2 r'].
    - cbn [importlib_walk impl_walk]. apply path_agree, Hc.
    - rewrite importlib_walk_cons, impl_walk_cons. rewrite (path_agree _ _ Hc).
      destruct (impl_find fs sfx dirs n) as [[[f b] [pd|]]|] eqn:E; cbn [to_rres next_dirs] in *.
      + rewrite (IH [pd]); [|discriminate|exact Hd]. reflexivity.
      + rewrite impl_walk_nil by discriminate. reflexivity.
      + rewrite impl_walk_nil by discriminate. reflexivity.
  Qed.

  Corollary get_module_agree loaded dirs name : name <> [] -> dom fs sfx dirs name = true ->
    get_module fs sfx loaded dirs name =
    match importlib_walk fs sfx dirs name with
    | RFound h => gm_of loaded name (Some h)
    | _ => gm_of loaded name None
    end.
  Proof.
    intros Hne Hd. rewrite (walk_agree _ _ Hne Hd). unfold get_module.
    destruct (impl_lookup fs sfx dirs name); reflexivity.
  Qed.

  (* ---------------------------------------------------------------- shape of a found file *)

  Fixpoint pkg_chain (d : path) (P : list str) : Prop :=
    match P with
    | [] => True
    | n :: r => exists_ (d ++ [n; init_py]) = true /\ pkg_chain (d ++ [n]) r
    end.

  Lemma impl_find_in_shape d n f b pd :
    impl_find_in fs sfx d n = Some (f, b, pd) ->
    (pd = None /\ exists x, f = d ++ [x]) \/
    (pd = Some (d ++ [n]) /\ f = d ++ [n; init_py] /\ exists_ (d ++ [n; init_py]) = true).
  Proof.
    unfold impl_find_in. destruct (find (fun s => exists_ (d ++ [n ++ s])) sfx) as [s|].
    - intros H; injection H as <- <- <-. left. split; [reflexivity|eexists; reflexivity].
    - destruct (exists_ (d ++ [n; init_py])) eqn:E; [|discriminate].
      intros H; injection H as <- <- <-. right. auto.
  Qed.

  (* the file found for [name] sits below one of the search directories, under a chain of
     packages spelling spec.parent *)
  Lemma walk_shape name : forall dirs f b pd, name <> [] ->
    impl_lookup fs sfx dirs name = Some (f, b, pd) ->
    exists d x, In d dirs /\ f = d ++ spec_parent name (f, b, pd) ++ [x] /\
                pkg_chain d (spec_parent name (f, b, pd)).
  Proof.
    unfold impl_lookup. induction name as [|n r IH]; intros dirs f b pd Hne H; [congruence|].
    rewrite impl_walk_cons in H. destruct r as [|n2 r'].
    - cbn [impl_walk] in H. unfold impl_find in H. apply first_some_in in H as (d & Hin & Hf).
      destruct (impl_find_in_shape _ _ _ _ _ Hf) as [(-> & x & ->)|(-> & -> & He)].
      + exists d, x. simpl. auto.
      + exists d, init_py. simpl. repeat split; auto.
    - destruct (impl_find fs sfx dirs n) as [[[f0 b0] [pd0|]]|] eqn:E; cbn [next_dirs] in H.
      + change (impl_walk fs sfx [pd0] (n2 :: r') (Some (f0, b0, Some pd0)))
          with (impl_walk fs sfx [pd0] (n2 :: r') None) in H.
        apply IH in H; [|discriminate]. destruct H as (d' & x & [<-|[]] & Hf & Hch).
        unfold impl_find in E. apply first_some_in in E as (d & Hin & Hf0).
        destruct (impl_find_in_shape _ _ _ _ _ Hf0) as [(Hn & _)|(Hpd & _ & He)]; [discriminate|].
        injection Hpd as ->.
        assert (Hsp : spec_parent (n :: n2 :: r') (f, b, pd) = n :: spec_parent (n2 :: r') (f, b, pd)).
        { unfold spec_parent. destruct pd; reflexivity. }
        exists d, x. rewrite Hsp. repeat split.
        * exact Hin.
        * rewrite Hf at 1. rewrite <- app_assoc. reflexivity.
        * exact He.
        * exact Hch.
      + rewrite impl_walk_nil in H by discriminate. discriminate.
      + rewrite impl_walk_nil in H by discriminate. discriminate.
  Qed.

  (* ---------------------------------------------------------------- norm_package *)

  Lemma pkg_chain_snoc P : forall d x, pkg_chain d (P ++ [x]) <->
    pkg_chain d P /\ exists_ (d ++ P ++ [x; init_py]) = true.
  Proof using fs.
    induction P as [|n r IH]; intros d x; simpl.
    - split; [intros [H _]; split; [exact I|exact H] | intros [_ H]; split; [exact H|exact I]].
    - rewrite IH. rewrite <- app_assoc. simpl.
      split; [intros (A & B & C); repeat split; assumption | intros ((A & B) & C); repeat split; assumption].
  Qed.

  Lemma pkg_chain_firstn P : forall d k, pkg_chain d P -> pkg_chain d (firstn k P).
  Proof.
    induction P as [|n r IH]; intros d k H; destruct k; simpl; auto.
    destruct H as [H1 H2]. split; [exact H1|apply IH, H2].
  Qed.

  Lemma removelast_snoc {A} (l : list A) x : removelast (l ++ [x]) = l.
  Proof. apply removelast_last. Qed.

  Lemma last_snoc {A} (l : list A) x d : last (l ++ [x]) d = x.
  Proof. apply last_last. Qed.

  (* climbing from d ++ P collects exactly P when d itself is not a package directory *)
  Lemma collect_chain P : forall d acc fuel,
    exists_ (d ++ [init_py]) = false -> pkg_chain d P -> length P < fuel ->
    collect fs fuel (d ++ P) acc = Some (P ++ acc).
  Proof using fs.
    induction P as [|x P IH] using rev_ind; intros d acc fuel Hd Hch Hf.
    - rewrite app_nil_r. destruct fuel; [simpl in Hf; lia|]. simpl. rewrite Hd. reflexivity.
    - apply pkg_chain_snoc in Hch as [Hch He].
      destruct fuel; [lia|]. rewrite app_length in Hf; simpl in Hf.
      cbn [collect].
      replace ((d ++ P ++ [x]) ++ [init_py]) with (d ++ P ++ [x; init_py])
        by (rewrite <- !app_assoc; reflexivity).
      rewrite He. unfold dirname. rewrite (app_assoc d P [x]), removelast_snoc, last_snoc.
      rewrite IH; auto; [|lia]. rewrite <- app_assoc. reflexivity.
  Qed.

  Lemma iter_dirname n : forall l : path, Nat.iter n dirname l = firstn (length l - n) l.
  Proof.
    induction n as [|n IH]; intros l.
    - simpl. rewrite Nat.sub_0_r, firstn_all. reflexivity.
    - change (Nat.iter (S n) dirname l) with (dirname (Nat.iter n dirname l)).
      rewrite IH. unfold dirname. destruct (length l - n) as [|k] eqn:K.
      + replace (length l - S n) with 0 by lia. reflexivity.
      + replace (length l - S n) with k by lia. apply removelast_firstn. lia.
  Qed.

  Theorem norm_agree_shape level rest d P x :
    pkg_chain d P -> (forall k, exists_ (firstn k d ++ [init_py]) = false) ->
    norm_package fs level rest (d ++ P ++ [x]) = resolve_name level rest P.
  Proof using fs.
    intros Hch Hroot. unfold norm_package, resolve_name.
    destruct (level =? 0) eqn:L0; [reflexivity|]. apply Nat.eqb_neq in L0.
    rewrite iter_dirname.
    remember (S (length (d ++ P ++ [x]))) as fuel eqn:Hfuel.
    assert (Hfl : length d + length P + 1 < fuel) by (subst; rewrite !app_length; simpl; lia).
    clear Hfuel. rewrite !app_length. change (length [x]) with 1.
    destruct (Nat.ltb (length P) level) eqn:Lt.
    - (* beyond the top-level package: supp climbs to the root or above *)
      apply Nat.ltb_lt in Lt.
      replace (length d + (length P + 1) - level) with (length d - (level - length P - 1)) by lia.
      rewrite firstn_app. replace (length d - (level - length P - 1) - length d) with 0 by lia.
      cbn [firstn]. rewrite app_nil_r.
      pose proof (collect_chain [] (firstn (length d - (level - length P - 1)) d) [] fuel) as Hc.
      rewrite app_nil_r in Hc. rewrite Hc; [|apply Hroot|exact I|simpl; lia].
      destruct P; reflexivity.
    - apply Nat.ltb_ge in Lt.
      assert (HP : is_nil P = false) by (destruct P; simpl in *; [lia|reflexivity]). rewrite HP.
      replace (length d + (length P + 1) - level) with (length d + (length P - (level - 1))) by lia.
      rewrite firstn_app. rewrite firstn_all2 by lia.
      replace (length d + (length P - (level - 1)) - length d) with (length P - (level - 1)) by lia.
      rewrite firstn_app. replace (length P - (level - 1) - length P) with 0 by lia.
      cbn [firstn]. rewrite app_nil_r.
      rewrite (collect_chain (firstn (length P - (level - 1)) P) d [] fuel).
      + rewrite app_nil_r. destruct (firstn (length P - (level - 1)) P) eqn:E; [|reflexivity].
        exfalso. apply (f_equal (@length _)) in E. rewrite firstn_length in E. simpl in E. lia.
      + specialize (Hroot (length d)). rewrite firstn_all in Hroot. exact Hroot.
      + apply pkg_chain_firstn, Hch.
      + rewrite firstn_length. lia.
  Qed.

  Theorem norm_agree dirs name level rest f b pd :
    name <> [] -> dom fs sfx dirs name = true ->
    forallb (root_ok fs) dirs = true ->
    importlib_walk fs sfx dirs name = RFound (f, b, pd) ->
    norm_package fs level rest f = resolve_name level rest (spec_parent name (f, b, pd)).
  Proof using fs sfx.
    intros Hne Hd Hroots Hw. rewrite (walk_agree _ _ Hne Hd) in Hw.
    destruct (impl_lookup fs sfx dirs name) as [h|] eqn:E; [|discriminate].
    simpl in Hw. injection Hw as ->.
    destruct (walk_shape _ _ _ _ _ Hne E) as (d & x & Hin & Hf & Hch).
    rewrite Hf at 1. apply norm_agree_shape; [exact Hch|].
    intros k. rewrite forallb_forall in Hroots. specialize (Hroots d Hin).
    unfold root_ok in Hroots. rewrite forallb_forall in Hroots.
    destruct (Nat.le_gt_cases k (length d)) as [Hk|Hk].
    - specialize (Hroots k). rewrite in_seq in Hroots.
      apply negb_true_iff. apply Hroots. lia.
    - rewrite firstn_all2 by lia. specialize (Hroots (length d)). rewrite in_seq in Hroots.
      rewrite firstn_all in Hroots. apply negb_true_iff. apply Hroots. lia.
  Qed.

  (* ---------------------------------------------------------------- enumeration of children *)

  Lemma opt_str_eqb_eq a b : opt_str_eqb a b = true -> a = b.
  Proof.
    destruct a, b; simpl; intros H; try discriminate; [|reflexivity].
    apply str_eqb_eq in H. subst. reflexivity.
  Qed.

  (* every child pkgutil enumerates in an unambiguous directory is proposed by supp *)
  Lemma entry_lower d name m :
    entry_ok fs ls sfx sfx d name = true -> entry_ref fs ls sfx d name = Some m ->
    entry_impl fs sfx d name = Some m.
  Proof.
    unfold entry_ok, entry_ref, entry_impl. intros Hok.
    apply andb_true_iff in Hok as [Heq Hk]. apply opt_str_eqb_eq in Heq. rewrite Heq.
    destruct (modname sfx name) as [x|] eqn:M; simpl.
    - destruct (str_eqb x init_stem) eqn:I; [discriminate|].
      assert (Hnd : isdir (d ++ [name]) = false).
      { unfold Imports.isdir, Imports.isfile in *. destruct (fs (d ++ [name])); auto; discriminate. }
      rewrite Hnd. rewrite andb_false_r. simpl.
      destruct (negb (is_nil x) && negb (has_dot x)) eqn:C; [|discriminate].
      apply andb_true_iff in C as [C1 C2]. rewrite C1, C2. simpl. auto.
    - destruct (isdir (d ++ [name])) eqn:D; simpl.
      + apply andb_true_iff in Hk as [K1 K2]. apply eqb_prop in K1. apply eqb_prop in K2.
        destruct (negb (has_dot name)) eqn:N; simpl; [|discriminate].
        rewrite K1, <- K2. destruct (exists_ (d ++ [name; init_py])); [auto|discriminate].
      + discriminate.
  Qed.

  Lemma strip_suffix_app name s m : strip_suffix name s = Some m -> name = m ++ s.
  Proof.
    unfold strip_suffix, ends_with. destruct (length s <=? length name) eqn:L; simpl; [|discriminate].
    destruct (str_eqb (skipn (length name - length s) name) s) eqn:E; [|discriminate].
    intros H; injection H as <-. apply str_eqb_eq in E.
    transitivity (firstn (length name - length s) name ++ skipn (length name - length s) name).
    - symmetry; apply firstn_skipn.
    - f_equal. exact E.
  Qed.

  (* everything supp proposes from an unambiguous directory is found there by FileFinder *)
  Lemma entry_upper d name m :
    In py sfx -> exists_ (d ++ [name]) = true ->
    entry_ok fs ls sfx sfx d name = true -> entry_impl fs sfx d name = Some m ->
    exists h, ref_find_in fs sfx d m = Some (RHit h).
  Proof.
    unfold entry_ok, entry_impl. intros Hpy Hex Hok.
    apply andb_true_iff in Hok as [Heq Hk]. apply opt_str_eqb_eq in Heq.
    destruct (first_some (strip_suffix name) sfx) as [x|] eqn:F.
    - destruct (negb (is_nil x) && negb (str_eqb x init_stem) && negb (has_dot x)); [|discriminate].
      intros H; injection H as <-.
      apply first_some_in in F as (s & Hs & Hst). apply strip_suffix_app in Hst.
      rewrite <- Heq in Hk. rewrite Hst in Hk.
      unfold ref_find_in.
      destruct (if exists_ (d ++ [x]) then find (fun s0 => isfile ((d ++ [x]) ++ [init_stem ++ s0])) sfx else None);
        [eexists; reflexivity|].
      destruct (find_some_intro (fun s0 => isfile (d ++ [x ++ s0])) sfx s Hs Hk) as (y & ->).
      eexists; reflexivity.
    - rewrite <- Heq in Hk.
      destruct (negb (has_dot name) && exists_ (d ++ [name; init_py])) eqn:C; [|discriminate].
      intros H; injection H as <-. apply andb_true_iff in C as [_ C].
      destruct (isdir (d ++ [name])) eqn:D; [|rewrite C in Hk; discriminate].
      apply andb_true_iff in Hk as [_ K2]. apply eqb_prop in K2. rewrite C in K2. symmetry in K2.
      unfold ref_find_in. rewrite Hex.
      assert (Hi : isfile ((d ++ [name]) ++ [init_stem ++ py]) = true) by (rewrite app2; exact K2).
      destruct (find_some_intro (fun s0 => isfile ((d ++ [name]) ++ [init_stem ++ s0])) sfx py Hpy Hi) as (y & ->).
      eexists; reflexivity.
  Qed.

  Lemma ref_path_find_hit dirs n d h : In d dirs -> ref_find_in fs sfx d n = Some (RHit h) ->
    forall ns, exists h', ref_path_find fs sfx dirs n ns = RFound h'.
  Proof.
    induction dirs as [|d0 r IH]; intros Hin Hf ns; [destruct Hin|]. simpl.
    destruct Hin as [->|Hin].
    - rewrite Hf. eexists; reflexivity.
    - destruct (ref_find_in fs sfx d0 n) as [[h0|x]|]; [eexists; reflexivity| |]; apply IH; auto.
  Qed.

  Lemma walk_snoc pkg : forall dirs f b pd m, pkg <> [] ->
    importlib_walk fs sfx dirs pkg = RFound (f, b, Some pd) ->
    importlib_walk fs sfx dirs (pkg ++ [m]) = ref_path_find fs sfx [pd] m false.
  Proof.
    induction pkg as [|n r IH]; intros dirs f b pd m Hne H; [congruence|].
    destruct r as [|n2 r'].
    - simpl in *. rewrite H. reflexivity.
    - change ((n :: n2 :: r') ++ [m]) with (n :: (n2 :: r') ++ [m]).
      simpl in H. simpl.
      destruct (ref_path_find fs sfx dirs n false) as [[[f0 b0] [pd0|]]| |]; try discriminate.
      apply (IH [pd0] f b pd m); [discriminate|exact H].
  Qed.

End Agree.

(* ---------------------------------------------------------------- split_pkg / join_pkg *)

Lemma rpart_app s : forall h t, rpart s = Some (h, t) -> s = h ++ dot :: t.
Proof.
  induction s as [|c r IH]; intros h t; simpl; [discriminate|].
  destruct (rpart r) as [[h0 t0]|].
  - intros H; injection H as <- <-. rewrite (IH h0 t0 eq_refl). reflexivity.
  - unfold is_dot. destruct (Ascii.eqb c dot) eqn:E; [|discriminate].
    intros H; injection H as <- <-. apply Ascii.eqb_eq in E. subst. reflexivity.
Qed.

Lemma rpart_none s : rpart s = None -> has_dot s = false.
Proof.
  induction s as [|c r IH]; simpl; [reflexivity|].
  destruct (rpart r) as [[h0 t0]|]; [discriminate|].
  destruct (is_dot c); [discriminate|]. intros _. apply IH. reflexivity.
Qed.

Lemma ends_with_dot_snoc s : ends_with_dot (s ++ [dot]) = true.
Proof. unfold ends_with_dot. rewrite rev_app_distr. reflexivity. Qed.

Lemma all_dots_ends s : s <> [] -> forallb is_dot s = true -> ends_with_dot s = true.
Proof.
  intros Hne H. destruct s as [|c s] using rev_ind; [congruence|].
  rewrite forallb_app in H. apply andb_true_iff in H as [_ H]. simpl in H.
  unfold ends_with_dot. rewrite rev_app_distr. simpl. destruct (is_dot c); auto.
Qed.

Theorem join_split s : has_dot s = true -> let (h, t) := split_pkg s in join_pkg h t = s.
Proof.
  intros Hd. unfold split_pkg. destruct (forallb is_dot s) eqn:A.
  - unfold join_pkg. rewrite all_dots_ends; [apply app_nil_r| |exact A].
    intros ->. discriminate.
  - destruct (rpart s) as [[h t]|] eqn:R.
    + apply rpart_app in R. destruct h as [|c h]; simpl is_nil; cbv iota.
      * unfold join_pkg. change [dot] with ([] ++ [dot]). rewrite ends_with_dot_snoc. simpl. subst; reflexivity.
      * destruct (ends_with_dot (c :: h)) eqn:E.
        -- unfold join_pkg. rewrite ends_with_dot_snoc. rewrite <- app_assoc. subst; reflexivity.
        -- unfold join_pkg. rewrite E. subst; reflexivity.
    + apply rpart_none in R. congruence.
Qed.

(* a single name has no head: split gives ('', s) and join_pkg('', s) = '.' + s (never composed
   by the callers: assistant.py joins only heads that came from a `from X import` statement) *)
Lemma split_single s : has_dot s = false -> s <> [] -> split_pkg s = ([], s).
Proof.
  intros Hd Hne. unfold split_pkg.
  assert (A : forallb is_dot s = false).
  { destruct s as [|c r]; [congruence|]. simpl in *. apply orb_false_iff in Hd as [-> _]. reflexivity. }
  rewrite A. destruct (rpart s) as [[h t]|] eqn:R; [|reflexivity].
  apply rpart_app in R. subst s. unfold has_dot in Hd. rewrite existsb_app in Hd. simpl in Hd.
  rewrite orb_true_r in Hd. discriminate.
Qed.

(* ---------------------------------------------------------------- list_packages as a whole *)

Lemma prefix_eqb_app p : forall l, prefix_eqb p l = true -> exists t, l = p ++ t.
Proof.
  induction p as [|x p IH]; intros l H; simpl in *.
  - exists l; reflexivity.
  - destruct l as [|y l]; [discriminate|]. apply andb_true_iff in H as [H1 H2].
    apply str_eqb_eq in H1. subst y. destruct (IH l H2) as (t & ->). exists t; reflexivity.
Qed.

Lemma loaded_children_spec loaded pkg m :
  In m (loaded_children loaded pkg) -> exists L tail, In L loaded /\ L = pkg ++ m :: tail.
Proof.
  unfold loaded_children. rewrite filter_map_in. intros (L & Hin & H).
  destruct (prefix_eqb pkg L) eqn:P; [|discriminate].
  destruct (prefix_eqb_app _ _ P) as (t & ->).
  rewrite nth_error_app2 in H by lia. rewrite Nat.sub_diag in H.
  destruct t as [|y t]; [discriminate|]. simpl in H. injection H as ->.
  exists (pkg ++ m :: t), t. auto.
Qed.

Section Children.
  Variable fs : path -> kind.
  Variable ls : path -> list str.
  Variable sfx : list str.

  Definition listed (dirs : list path) (pkg : list str) : list path :=
    match pkg with [] => dirs | _ => next_dirs (impl_lookup fs sfx dirs pkg) end.

  Lemma scan_lower d m : dir_ok fs ls sfx sfx d = true ->
    In m (scan_ref fs ls sfx d) -> In m (scan_impl fs ls sfx d).
  Proof.
    unfold dir_ok, scan_ref, scan_impl. intros Hok. rewrite !filter_map_in.
    intros (x & Hin & Hx). exists x. split; [exact Hin|].
    rewrite forallb_forall in Hok. apply (entry_lower fs ls sfx d x m (Hok x Hin) Hx).
  Qed.

  Lemma listdir_in d n : In n (listdir fs ls d) -> In n (ls d).
  Proof. unfold listdir. destruct (isdir fs d); [auto|intros []]. Qed.

  Lemma scan_upper d m :
    In py sfx -> (forall n, In n (ls d) -> exists_ fs (d ++ [n]) = true) ->
    dir_ok fs ls sfx sfx d = true -> In m (scan_impl fs ls sfx d) ->
    exists h, ref_find_in fs sfx d m = Some (RHit h).
  Proof.
    unfold dir_ok, scan_impl. intros Hpy Hls Hok. rewrite filter_map_in.
    intros (x & Hin & Hx). rewrite forallb_forall in Hok.
    apply (entry_upper fs ls sfx d x m Hpy (Hls x (listdir_in _ _ Hin)) (Hok x Hin) Hx).
  Qed.

  Theorem children_lower loaded dirs pkg m :
    dom fs sfx dirs pkg = true ->
    (forall d, In d (listed dirs pkg) -> dir_ok fs ls sfx sfx d = true) ->
    In m (children_importlib fs ls sfx dirs pkg) -> In m (list_packages fs ls sfx loaded dirs pkg).
  Proof.
    intros Hd Hok H. unfold list_packages. apply in_or_app. right.
    fold (listed dirs pkg). unfold children_importlib in H.
    destruct pkg as [|n r].
    - simpl in *. apply in_flat_map in H as (d & Hin & Hm). apply in_flat_map.
      exists d. split; [exact Hin|]. apply scan_lower; auto.
    - rewrite (walk_agree fs sfx (n :: r) dirs) in H by (try discriminate; exact Hd).
      unfold listed in *.
      destruct (impl_lookup fs sfx dirs (n :: r)) as [[[f b] [pd|]]|]; simpl in *; try contradiction.
      rewrite app_nil_r. apply scan_lower; auto.
  Qed.

  Theorem children_upper loaded dirs pkg m :
    In py sfx -> dom fs sfx dirs pkg = true ->
    (forall d n, In d (listed dirs pkg) -> In n (ls d) -> exists_ fs (d ++ [n]) = true) ->
    (forall d, In d (listed dirs pkg) -> dir_ok fs ls sfx sfx d = true) ->
    In m (list_packages fs ls sfx loaded dirs pkg) ->
    (exists L tail, In L loaded /\ L = pkg ++ m :: tail) \/
    (exists h, importlib_walk fs sfx dirs (pkg ++ [m]) = RFound h).
  Proof.
    intros Hpy Hd Hls Hok H. unfold list_packages in H. apply in_app_or in H as [H|H].
    - left. apply loaded_children_spec, H.
    - right. fold (listed dirs pkg) in H. apply in_flat_map in H as (d & Hin & Hm).
      destruct (scan_upper d m Hpy (fun n => Hls d n Hin) (Hok d Hin) Hm) as (h & Hh).
      destruct pkg as [|n r].
      + simpl in *. apply (ref_path_find_hit fs sfx dirs m d h Hin Hh false).
      + unfold listed in Hin.
        pose proof (walk_agree fs sfx (n :: r) dirs ltac:(discriminate) Hd) as Hw.
        destruct (impl_lookup fs sfx dirs (n :: r)) as [[[f b] [pd|]]|]; simpl in Hin; try contradiction.
        destruct Hin as [<-|[]]. simpl in Hw.
        rewrite (walk_snoc fs sfx (n :: r) dirs f b pd m ltac:(discriminate) Hw).
        apply (ref_path_find_hit fs sfx [pd] m pd h (or_introl eq_refl) Hh false).
  Qed.

End Children.

(* ---------------------------------------------------------------- the statement of C07 for get_module *)

Theorem get_module_spec fs sfx loaded dirs name :
  name <> [] -> dom fs sfx dirs name = true ->
  (forall f src pd, importlib_walk fs sfx dirs name = RFound (f, src, pd) ->
     get_module fs sfx loaded dirs name = if src then GSource f else GRuntime f) /\
  (importlib_walk fs sfx dirs name = RNotFound ->
     get_module fs sfx loaded dirs name = if mem_name name loaded then GLoaded else GImportError) /\
  importlib_walk fs sfx dirs name <> RNamespace /\
  (get_module fs sfx loaded dirs name = GImportError <->
     importlib_walk fs sfx dirs name = RNotFound /\ mem_name name loaded = false).
Proof.
  intros Hne Hd. rewrite (walk_agree fs sfx name dirs Hne Hd). unfold get_module.
  destruct (impl_lookup fs sfx dirs name) as [[[f b] pd]|]; simpl.
  - split; [|split; [|split; [|split]]].
    + intros f0 src pd0 H0; injection H0 as <- <- <-. reflexivity.
    + discriminate.
    + discriminate.
    + destruct b; discriminate.
    + intros [H0 _]; discriminate.
  - split; [|split; [|split; [|split]]].
    + discriminate.
    + reflexivity.
    + discriminate.
    + destruct (mem_name name loaded); [discriminate|auto].
    + intros [_ ->]. reflexivity.
Qed.

(* ---------------------------------------------------------------- split_pkg on written names *)

Lemma rpart_nodot c : has_dot c = false -> rpart c = None.
Proof.
  induction c as [|x c IH]; simpl; [reflexivity|]. intros H. apply orb_false_iff in H as [H1 H2].
  rewrite (IH H2), H1. reflexivity.
Qed.

Lemma rpart_last pre c : has_dot c = false -> rpart (pre ++ dot :: c) = Some (pre, c).
Proof.
  intros Hc. induction pre as [|x pre IH]; simpl.
  - rewrite (rpart_nodot c Hc). reflexivity.
  - rewrite IH. reflexivity.
Qed.

Lemma dotted_snoc cs c : cs <> [] -> dotted (cs ++ [c]) = dotted cs ++ dot :: c.
Proof.
  induction cs as [|x cs IH]; intros Hne; [congruence|].
  destruct cs as [|y cs].
  - reflexivity.
  - change ((x :: y :: cs) ++ [c]) with (x :: (y :: cs) ++ [c]).
    change (dotted (x :: (y :: cs) ++ [c])) with (x ++ dot :: dotted ((y :: cs) ++ [c])).
    rewrite IH by discriminate. change (dotted (x :: y :: cs)) with (x ++ dot :: dotted (y :: cs)).
    rewrite <- app_assoc. reflexivity.
Qed.

Lemma repeat_snoc {A} (x : A) n : repeat x (S n) = repeat x n ++ [x].
Proof. induction n as [|n IH]; [reflexivity|]. simpl in *. rewrite <- IH. reflexivity. Qed.

Lemma forallb_dots_false s c : comp_ok c = true -> forallb is_dot (s ++ c) = false.
Proof.
  unfold comp_ok. intros H. apply andb_true_iff in H as [H1 H2].
  rewrite forallb_app. destruct c as [|x c]; [discriminate|]. simpl in *.
  apply negb_true_iff in H2. apply orb_false_iff in H2 as [-> _]. simpl. apply andb_false_r.
Qed.

Lemma ends_with_dot_comp s c : comp_ok c = true -> ends_with_dot (s ++ c) = false.
Proof.
  unfold comp_ok. intros H. apply andb_true_iff in H as [H1 H2]. apply negb_true_iff in H2.
  destruct c as [|x c] using rev_ind; [discriminate|]. clear IHc.
  unfold ends_with_dot. rewrite app_assoc, rev_app_distr. simpl.
  unfold has_dot in H2. rewrite existsb_app in H2. apply orb_false_iff in H2 as [_ H2].
  simpl in H2. apply orb_false_iff in H2 as [H2 _]. exact H2.
Qed.

Lemma dotted_last_comp cs : cs <> [] -> forallb comp_ok cs = true ->
  exists s c, dotted cs = s ++ c /\ comp_ok c = true.
Proof.
  induction cs as [|x cs IH]; intros Hne Hok; [congruence|].
  simpl in Hok. apply andb_true_iff in Hok as [Hx Hok].
  destruct cs as [|y cs].
  - exists [], x. auto.
  - destruct (IH ltac:(discriminate) Hok) as (s & c & Hs & Hc).
    exists (x ++ dot :: s), c. split; [|exact Hc].
    change (dotted (x :: y :: cs)) with (x ++ dot :: dotted (y :: cs)). rewrite Hs.
    rewrite <- app_assoc. reflexivity.
Qed.

(* split_pkg cuts a written name '.'*level + 'a.b.c' into the written name of its package part
   ('.'*level + 'a.b') and the last component, for every level and every number of components *)
Theorem split_render level cs c :
  forallb comp_ok cs = true -> comp_ok c = true ->
  split_pkg (render level (cs ++ [c])) = (render level cs, c).
Proof.
  intros Hcs Hc. unfold split_pkg, render.
  assert (Hnd : has_dot c = false).
  { unfold comp_ok in Hc. apply andb_true_iff in Hc as [_ H]. apply negb_true_iff in H. exact H. }
  destruct cs as [|x cs].
  - (* '.'*level + c *)
    change (dotted ([] ++ [c])) with c. change (dotted []) with (@nil ascii). rewrite app_nil_r.
    rewrite (forallb_dots_false _ _ Hc).
    destruct level as [|k].
    + simpl. rewrite (rpart_nodot c Hnd). reflexivity.
    + rewrite repeat_snoc. rewrite <- app_assoc. change ([dot] ++ c) with (dot :: c).
      rewrite (rpart_last _ c Hnd).
      destruct k as [|k].
      * reflexivity.
      * change (is_nil (repeat dot (S k))) with false. cbv iota.
        rewrite (repeat_snoc dot k) at 1. rewrite ends_with_dot_snoc.
        rewrite <- repeat_snoc. reflexivity.
  - rewrite dotted_snoc by discriminate. rewrite app_assoc.
    destruct (dotted_last_comp (x :: cs) ltac:(discriminate) Hcs) as (s & c0 & Hs & Hc0).
    assert (Hnotdots : forallb is_dot ((repeat dot level ++ dotted (x :: cs)) ++ dot :: c) = false).
    { change (dot :: c) with ([dot] ++ c). rewrite app_assoc. apply forallb_dots_false, Hc. }
    rewrite Hnotdots. rewrite (rpart_last _ c Hnd).
    assert (Hnn : is_nil (repeat dot level ++ dotted (x :: cs)) = false).
    { rewrite Hs. unfold comp_ok in Hc0. apply andb_true_iff in Hc0 as [H _].
      destruct c0; [discriminate|]. destruct (repeat dot level); destruct s; reflexivity. }
    rewrite Hnn. rewrite Hs, app_assoc. rewrite (ends_with_dot_comp _ _ Hc0). reflexivity.
Qed.

(* and join_pkg puts it back, except for a bare name without package part *)
Theorem join_render level cs c :
  forallb comp_ok cs = true -> (level <> 0 \/ cs <> []) ->
  join_pkg (render level cs) c = render level (cs ++ [c]).
Proof.
  intros Hcs Hne. unfold join_pkg, render. destruct cs as [|x cs].
  - change (dotted []) with (@nil ascii). rewrite app_nil_r. change (dotted ([] ++ [c])) with c.
    destruct level as [|k]; [destruct Hne; congruence|].
    rewrite (repeat_snoc dot k) at 1. rewrite ends_with_dot_snoc. reflexivity.
  - destruct (dotted_last_comp (x :: cs) ltac:(discriminate) Hcs) as (s & c0 & Hs & Hc0).
    rewrite dotted_snoc by discriminate.
    rewrite Hs at 1. rewrite app_assoc. rewrite (ends_with_dot_comp _ _ Hc0).
    rewrite <- app_assoc. reflexivity.
Qed.

(* ---------------------------------------------------------------- first match = longest match *)

Lemma ends_with_iff name s : ends_with name s = true <-> exists m, name = m ++ s.
Proof.
  unfold ends_with. split.
  - intros H. apply andb_true_iff in H as [L E]. apply str_eqb_eq in E.
    exists (firstn (length name - length s) name).
    transitivity (firstn (length name - length s) name ++ skipn (length name - length s) name).
    + symmetry; apply firstn_skipn.
    + f_equal. exact E.
  - intros (m & ->). rewrite app_length. apply andb_true_iff. split.
    + apply Nat.leb_le. lia.
    + replace (length m + length s - length s) with (length m) by lia.
      rewrite skipn_app, skipn_all, Nat.sub_diag. simpl. apply str_eqb_refl.
Qed.

Lemma suffix_of_longer name s1 s2 :
  ends_with name s1 = true -> ends_with name s2 = true -> length s1 <= length s2 ->
  ends_with s2 s1 = true.
Proof.
  intros H1 H2 L. apply ends_with_iff in H1 as (m1 & E1). apply ends_with_iff in H2 as (m2 & E2).
  rewrite E1 in E2. apply app_eq_app in E2 as (l & [[_ E]|[_ E]]).
  - apply ends_with_iff. exists l. exact E.
  - assert (l = []) as ->.
    { apply (f_equal (@length _)) in E. rewrite app_length in E. destruct l; [reflexivity|simpl in E; lia]. }
    simpl in E. subst. apply ends_with_iff. exists []. reflexivity.
Qed.

Definition step (name : str) (best : option str) (s : str) : option str :=
  if ends_with name s && (match best with None => true | Some b => length b <? length s end)
  then Some s else best.

Lemma fold_keep name l : forall b,
  (forall s, In s l -> ends_with name s = true -> length s <= length b) ->
  fold_left (step name) l (Some b) = Some b.
Proof.
  induction l as [|a l IH]; intros b H; simpl; [reflexivity|].
  assert (Ha : step name (Some b) a = Some b).
  { unfold step. destruct (ends_with name a) eqn:E; simpl; [|reflexivity].
    specialize (H a (or_introl eq_refl) E). destruct (length b <? length a) eqn:L; [|reflexivity].
    apply Nat.ltb_lt in L. lia. }
  rewrite Ha. apply IH. intros s Hs. apply H. right; exact Hs.
Qed.

Lemma best_is_first name l : sfx_ordered l = true ->
  fold_left (step name) l None = find (ends_with name) l.
Proof.
  induction l as [|a l IH]; intros H; simpl; [reflexivity|].
  simpl in H. apply andb_true_iff in H as [Ha Hl].
  unfold step at 2. rewrite andb_true_r. destruct (ends_with name a) eqn:E.
  - apply fold_keep. intros s Hs Es.
    rewrite forallb_forall in Ha. specialize (Ha s Hs). apply negb_true_iff in Ha.
    destruct (Nat.le_gt_cases (length s) (length a)) as [L|L]; [exact L|].
    rewrite (suffix_of_longer name a s E Es ltac:(lia)) in Ha.
    apply Nat.ltb_lt in L. rewrite L in Ha. discriminate.
  - apply IH, Hl.
Qed.

Lemma first_some_strip name l :
  first_some (strip_suffix name) l =
  option_map (fun s => firstn (length name - length s) name) (find (ends_with name) l).
Proof.
  induction l as [|a l IH]; simpl; [reflexivity|]. unfold strip_suffix at 1.
  destruct (ends_with name a); [reflexivity|exact IH].
Qed.

Lemma first_is_longest sfx name : sfx_ordered sfx = true ->
  first_some (strip_suffix name) sfx = modname sfx name.
Proof.
  intros H. rewrite first_some_strip. unfold modname, best_suffix.
  change (fold_left _ sfx None) with (fold_left (step name) sfx None).
  rewrite (best_is_first name sfx H). reflexivity.
Qed.

Lemma dir_ok2_dir_ok fs ls sfx d : sfx_ordered sfx = true ->
  dir_ok2 fs ls sfx d = true -> dir_ok fs ls sfx sfx d = true.
Proof.
  unfold dir_ok2, dir_ok. intros Ho H. rewrite forallb_forall in *. intros x Hx.
  specialize (H x Hx). unfold entry_ok, entry_ok2 in *.
  rewrite (first_is_longest sfx x Ho).
  assert (R : opt_str_eqb (modname sfx x) (modname sfx x) = true).
  { destruct (modname sfx x); simpl; [apply str_eqb_refl|reflexivity]. }
  rewrite R. exact H.
Qed.

Theorem children_lower2 fs ls sfx loaded dirs pkg m :
  sfx_ordered sfx = true -> dom fs sfx dirs pkg = true ->
  (forall d, In d (listed fs sfx dirs pkg) -> dir_ok2 fs ls sfx d = true) ->
  In m (children_importlib fs ls sfx dirs pkg) -> In m (list_packages fs ls sfx loaded dirs pkg).
Proof.
  intros Ho Hd Hok. apply children_lower; [exact Hd|].
  intros d Hin. apply dir_ok2_dir_ok; auto.
Qed.

Theorem children_upper2 fs ls sfx loaded dirs pkg m :
  sfx_ordered sfx = true -> In py sfx -> dom fs sfx dirs pkg = true ->
  (forall d n, In d (listed fs sfx dirs pkg) -> In n (ls d) -> exists_ fs (d ++ [n]) = true) ->
  (forall d, In d (listed fs sfx dirs pkg) -> dir_ok2 fs ls sfx d = true) ->
  In m (list_packages fs ls sfx loaded dirs pkg) ->
  (exists L tail, In L loaded /\ L = pkg ++ m :: tail) \/
  (exists h, importlib_walk fs sfx dirs (pkg ++ [m]) = RFound h).
Proof.
  intros Ho Hpy Hd Hls Hok. apply children_upper; auto.
  intros d Hin. apply dir_ok2_dir_ok; auto.
Qed.

(* ---------------------------------------------------------------- relative file names *)

Section RelProofs.
  Variable fs : path -> kind.
  Variable cwd : path.
  Hypothesis cwd_ok : forall k, exists_ fs (firstn k cwd ++ [init_py]) = false.

  Lemma collect_rel_abs D : forall acc f1 f2, length D < f1 -> length D < f2 ->
    collect_rel fs cwd f1 D acc = collect fs f2 (cwd ++ D) acc.
  Proof using cwd_ok.
    induction D as [|x D IH] using rev_ind; intros acc f1 f2 H1 H2.
    - destruct f1; [simpl in H1; lia|]. destruct f2; [simpl in H2; lia|].
      cbn [collect_rel collect is_nil]. rewrite app_nil_r.
      pose proof (cwd_ok (length cwd)) as Hc. rewrite firstn_all in Hc. rewrite Hc. reflexivity.
    - rewrite app_length in H1, H2. simpl in H1, H2.
      destruct f1; [lia|]. destruct f2; [lia|]. cbn [collect_rel collect].
      assert (Hn : is_nil (D ++ [x]) = false) by (destruct D; reflexivity). rewrite Hn.
      replace ((cwd ++ D ++ [x]) ++ [init_py]) with (cwd ++ (D ++ [x]) ++ [init_py])
        by (rewrite <- !app_assoc; reflexivity).
      destruct (exists_ fs (cwd ++ (D ++ [x]) ++ [init_py])); [|reflexivity].
      unfold dirname. rewrite (app_assoc cwd D [x]). rewrite !removelast_last, !last_last.
      apply IH; lia.
  Qed.

  (* a relative file name gives the same answer as the absolute name of the same file, for every
     level (also beyond the top-level package), when the working directory is not inside a package *)
  Theorem norm_rel_abs level rest rel :
    norm_package_rel fs cwd level rest rel = norm_package fs level rest (cwd ++ rel).
  Proof using cwd_ok.
    unfold norm_package_rel, norm_package. destruct (level =? 0); [reflexivity|].
    rewrite !iter_dirname. rewrite app_length.
    destruct (Nat.le_gt_cases level (length rel)) as [L|L].
    - replace (length cwd + length rel - level) with (length cwd + (length rel - level)) by lia.
      rewrite firstn_app. rewrite (firstn_all2 cwd) by lia.
      replace (length cwd + (length rel - level) - length cwd) with (length rel - level) by lia.
      rewrite (collect_rel_abs (firstn (length rel - level) rel) [] (S (length rel))
                 (S (length cwd + length rel))); [reflexivity| |];
        pose proof (firstn_le_length (length rel - level) rel); lia.
    - replace (length rel - level) with 0 by lia. cbn [firstn collect_rel is_nil].
      rewrite firstn_app. replace (length cwd + length rel - level - length cwd) with 0 by lia.
      cbn [firstn]. rewrite app_nil_r. cbn [collect]. rewrite cwd_ok. reflexivity.
  Qed.
End RelProofs.
