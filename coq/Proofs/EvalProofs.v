(* Proofs about Model/Eval.v: the guarded engines never run out of the stated fuel; the as-is
   engines run out of any fuel on the witnesses of F21 / F29; result shape of lint / location. *)
From Coq Require Import List Bool Arith NArith ZArith Lia.
Import ListNotations.
From Supp Require Import Model.Eval.

(* ---------------------------------------------------------------------------------------- *)
(* generic: results                                                                          *)
(* ---------------------------------------------------------------------------------------- *)

Definition fin {A} (r : result A) : Prop := r <> OutOfFuel.

Lemma fin_bind {A B} (r : result A) (k : A -> result B) :
  fin r -> (forall x, r = Ok x -> fin (k x)) -> fin (bind r k).
Proof.
  unfold fin. intros Hr Hk. destruct r as [x|e|]; simpl.
  - apply Hk. reflexivity.
  - discriminate.
  - congruence.
Qed.

Lemma fin_mapM {A B} (f : A -> result B) (l : list A) :
  (forall x, fin (f x)) -> fin (mapM f l).
Proof.
  intros Hf. induction l as [|x r IH]; simpl.
  - unfold fin. discriminate.
  - apply fin_bind; [apply Hf|]. intros y _. apply fin_bind; [exact IH|].
    intros ys _. unfold fin. discriminate.
Qed.

Lemma fin_firstM {A B} (f : A -> result (option B)) (l : list A) :
  (forall x, fin (f x)) -> fin (firstM f l).
Proof.
  intros Hf. induction l as [|x r IH]; simpl.
  - unfold fin. discriminate.
  - apply fin_bind; [apply Hf|]. intros [y|] _; [unfold fin; discriminate | exact IH].
Qed.

Lemma fin_ok {A} (x : A) : fin (Ok x).
Proof. unfold fin. discriminate. Qed.

Lemma fin_err {A} (e : err) : fin (@Err A e).
Proof. unfold fin. discriminate. Qed.

(* ---------------------------------------------------------------------------------------- *)
(* the measure: valid ids not in progress                                                    *)
(* ---------------------------------------------------------------------------------------- *)

Definition free (l : list nat) (n : nat) : nat :=
  length (filter (fun i => negb (mem i l)) (seq 0 n)).

Lemma mem_true_iff n l : mem n l = true <-> In n l.
Proof.
  unfold mem. rewrite existsb_exists. split.
  - intros (x & Hin & Heq). apply Nat.eqb_eq in Heq. subst. exact Hin.
  - intros Hin. exists n. split; [exact Hin|apply Nat.eqb_refl].
Qed.

Lemma filter_length_le {A} (p q : A -> bool) (l : list A) :
  (forall x, q x = true -> p x = true) ->
  length (filter q l) <= length (filter p l).
Proof.
  intros H. induction l as [|x r IH]; simpl; [lia|].
  destruct (q x) eqn:Eq.
  - rewrite (H x Eq). simpl. lia.
  - destruct (p x); simpl; lia.
Qed.

Lemma filter_length_lt {A} (p q : A -> bool) (l : list A) (w : A) :
  (forall x, q x = true -> p x = true) -> In w l -> p w = true -> q w = false ->
  length (filter q l) < length (filter p l).
Proof.
  intros H. induction l as [|x r IH]; simpl; [tauto|].
  intros [Hx|Hin] Hp Hq.
  - subst x. rewrite Hp, Hq. simpl.
    pose proof (filter_length_le p q r H). lia.
  - specialize (IH Hin Hp Hq). destruct (q x) eqn:Eq.
    + rewrite (H x Eq). simpl. lia.
    + destruct (p x); simpl; lia.
Qed.

Lemma free_cons_lt i l n : i < n -> mem i l = false -> free (i :: l) n < free l n.
Proof.
  intros Hi Hm. unfold free.
  apply filter_length_lt with (w := i).
  - intros x. unfold mem. simpl. destruct (Nat.eqb x i); simpl; [discriminate|tauto].
  - apply in_seq. lia.
  - rewrite Hm. reflexivity.
  - unfold mem. simpl. rewrite Nat.eqb_refl. reflexivity.
Qed.

Lemma free_le l n : free l n <= n.
Proof.
  unfold free. rewrite <- (seq_length n 0) at 2.
  generalize (seq 0 n). intros s. induction s as [|x r IH]; simpl; [lia|].
  destruct (negb (mem x l)); simpl; lia.
Qed.

Definition M (g : graph) (s : prog) : nat :=
  free (ev s) (size g) + free (ca s) (size g) + free (ia s) (size g).

Lemma lookup_lt g n nd : lookup g n = Some nd -> n < size g.
Proof. unfold lookup, size. intros H. apply nth_error_Some. congruence. Qed.

(* ---------------------------------------------------------------------------------------- *)
(* engines 1 and 3 with the guards: never out of fuel                                        *)
(* ---------------------------------------------------------------------------------------- *)

Section Steps.
  Variable c : cfg.
  Variable g : graph.
  Variable k : nat.                       (* bound under which the recursive calls are known finite *)
  Variables (ev_ : evalT) (ca_ ia_ : tblT).
  Hypothesis Hev : forall s n, M g s < k -> fin (ev_ s n).
  Hypothesis Hca : forall s n, M g s < k -> fin (ca_ s n).
  Hypothesis Hia : forall s n, M g s < k -> fin (ia_ s n).

  Lemma fin_base_objects vals : fin (base_objects c vals).
  Proof.
    unfold base_objects. destruct (flatten_bases c); [apply fin_ok|].
    apply fin_mapM. intros [a|vs]; [apply fin_ok|apply fin_err].
  Qed.

  Lemma fin_get_attr s v a : M g s < k -> fin (get_attr g ca_ ia_ s v a).
  Proof.
    intros Hs. unfold get_attr. apply fin_firstM. intros x. unfold atom_attr.
    destruct x as [q|q|f|m|t]; try apply fin_ok.
    - apply fin_bind; [apply Hca; exact Hs|]. intros; apply fin_ok.
    - apply fin_bind; [apply Hca; exact Hs|]. intros t _.
      apply fin_bind; [apply Hia; exact Hs|]. intros; apply fin_ok.
    - destruct (lookup g m) as [[]|]; apply fin_ok.
  Qed.

  Lemma fin_call_value s v : M g s < k -> fin (call_value g ev_ s v).
  Proof.
    intros Hs. unfold call_value. destruct v as [[q|q|f|m|[|]]|vs]; try apply fin_ok.
    destruct (lookup g f) as [[]|]; try apply fin_ok.
    destruct returns as [|r [|r' rs]]; try apply fin_ok. apply Hev. exact Hs.
  Qed.

  Lemma eval_step_fin s n : M g s < S k -> fin (eval_step c g ev_ ca_ ia_ s n).
  Proof.
    intros Hs. unfold eval_step. destruct (lookup g n) as [nd|] eqn:Hl; [|apply fin_ok].
    destruct (mem n (ev s)) eqn:Hm; [apply fin_ok|].
    assert (Hs' : M g (add_ev n s) < k).
    { unfold M, add_ev in *. simpl.
      pose proof (free_cons_lt n (ev s) (size g) (lookup_lt _ _ _ Hl) Hm). lia. }
    destruct nd as [[m|]|v|[m|]|v a|alts|f|rs|bs ls|[q|]|t|t|]; try apply fin_ok;
      try (apply Hev; exact Hs').
    - apply fin_bind; [apply Hev; exact Hs'|]. intros [x|] _; [|apply fin_ok].
      apply fin_bind; [apply fin_get_attr; exact Hs'|]. intros [m|] _; [|apply fin_ok].
      apply Hev; exact Hs'.
    - apply fin_bind; [apply fin_mapM; intros; apply Hev; exact Hs'|]. intros; apply fin_ok.
    - apply fin_bind; [apply Hev; exact Hs'|]. intros [x|] _; [|apply fin_ok].
      apply fin_call_value; exact Hs'.
  Qed.

  Lemma cattrs_step_fin s n : guard_attrs c = true -> M g s < S k -> fin (cattrs_step c g ev_ ca_ s n).
  Proof.
    intros Hg Hs. unfold cattrs_step. destruct (lookup g n) as [nd|] eqn:Hl; [|apply fin_ok].
    destruct nd; try apply fin_ok. rewrite Hg. simpl.
    destruct (mem n (ca s)) eqn:Hm; [apply fin_ok|].
    assert (Hs' : M g (add_ca n s) < k).
    { unfold M, add_ca in *. simpl.
      pose proof (free_cons_lt n (ca s) (size g) (lookup_lt _ _ _ Hl) Hm). lia. }
    apply fin_bind; [apply fin_mapM; intros; apply Hev; exact Hs'|]. intros vals _.
    apply fin_bind; [apply fin_base_objects|]. intros bs _.
    apply fin_bind; [|intros; apply fin_ok].
    apply fin_mapM. intros [q|q|f|m|t]; try apply fin_ok. apply Hca; exact Hs'.
  Qed.

  Lemma iattrs_step_fin s n : guard_attrs c = true -> M g s < S k -> fin (iattrs_step c g ev_ ia_ s n).
  Proof.
    intros Hg Hs. unfold iattrs_step. destruct (lookup g n) as [nd|] eqn:Hl; [|apply fin_ok].
    destruct nd; try apply fin_ok. rewrite Hg. simpl.
    destruct (mem n (ia s)) eqn:Hm; [apply fin_ok|].
    assert (Hs' : M g (add_ia n s) < k).
    { unfold M, add_ia in *. simpl.
      pose proof (free_cons_lt n (ia s) (size g) (lookup_lt _ _ _ Hl) Hm). lia. }
    apply fin_bind; [apply fin_mapM; intros; apply Hev; exact Hs'|]. intros vals _.
    apply fin_bind; [apply fin_base_objects|]. intros bs _.
    apply fin_bind; [|intros; apply fin_ok].
    apply fin_mapM. intros [q|q|f|m|t]; try apply fin_ok. apply Hia; exact Hs'.
  Qed.
End Steps.

Lemma engines_fin c g : guard_attrs c = true -> forall fuel,
  (forall s n, M g s < fuel -> fin (eval fuel c g s n)) /\
  (forall s n, M g s < fuel -> fin (cattrs fuel c g s n)) /\
  (forall s n, M g s < fuel -> fin (iattrs fuel c g s n)).
Proof.
  intros Hg. induction fuel as [|f (IHe & IHc & IHi)].
  - repeat split; intros; lia.
  - repeat split; intros s n Hs; simpl.
    + apply eval_step_fin with (k := f); assumption.
    + apply cattrs_step_fin with (k := f); assumption.
    + apply iattrs_step_fin with (k := f); assumption.
Qed.

Lemma M_le g s : M g s <= 3 * size g.
Proof.
  unfold M. pose proof (free_le (ev s) (size g)). pose proof (free_le (ca s) (size g)).
  pose proof (free_le (ia s) (size g)). lia.
Qed.

(* any fuel from eval_fuel g upwards, any in-progress state *)
Theorem eval_total c g fuel s n :
  guard_attrs c = true -> eval_fuel g <= fuel -> eval fuel c g s n <> OutOfFuel.
Proof.
  intros Hg Hf. apply (engines_fin c g Hg fuel). pose proof (M_le g s). unfold eval_fuel in Hf. lia.
Qed.

Theorem cattrs_total c g fuel s n :
  guard_attrs c = true -> eval_fuel g <= fuel -> cattrs fuel c g s n <> OutOfFuel.
Proof.
  intros Hg Hf. apply (engines_fin c g Hg fuel). pose proof (M_le g s). unfold eval_fuel in Hf. lia.
Qed.

Theorem iattrs_total c g fuel s n :
  guard_attrs c = true -> eval_fuel g <= fuel -> iattrs fuel c g s n <> OutOfFuel.
Proof.
  intros Hg Hf. apply (engines_fin c g Hg fuel). pose proof (M_le g s). unfold eval_fuel in Hf. lia.
Qed.

(* ---------------------------------------------------------------------------------------- *)
(* engine 2 with the visited check: never out of fuel on typed graphs                        *)
(* ---------------------------------------------------------------------------------------- *)

Lemma free_ext_lt l l' i n :
  (forall x, In x l -> In x l') -> i < n -> ~ In i l -> In i l' -> free l' n < free l n.
Proof.
  intros Hsub Hi Hni Hin. unfold free. apply filter_length_lt with (w := i).
  - intros x Hx. destruct (mem x l) eqn:E; [|reflexivity].
    apply mem_true_iff in E. apply Hsub in E. apply mem_true_iff in E. rewrite E in Hx. discriminate.
  - apply in_seq. lia.
  - destruct (mem i l) eqn:E; [apply mem_true_iff in E; contradiction|reflexivity].
  - apply mem_true_iff in Hin. rewrite Hin. reflexivity.
Qed.

Definition vis (acc : list dres) : list nat :=
  flat_map (fun d => match d with DOne m => [m] | DAlts _ => [] end) acc.

Lemma dmem_vis n acc : dmem n acc = mem n (vis acc).
Proof.
  unfold dmem, mem, vis. induction acc as [|d r IH]; simpl; [reflexivity|].
  destruct d as [m|ns]; simpl; rewrite IH; reflexivity.
Qed.

Lemma vis_app acc n : vis (acc ++ [DOne n]) = vis acc ++ [n].
Proof. unfold vis. rewrite flat_map_app. simpl. reflexivity. Qed.

Lemma mapM_ok_in {A B} (f : A -> result B) l ys :
  mapM f l = Ok ys -> forall y, In y ys -> exists x, In x l /\ f x = Ok y.
Proof.
  revert ys. induction l as [|x r IH]; simpl; intros ys H y Hy.
  - inversion H; subst. destruct Hy.
  - destruct (f x) as [b|e|] eqn:Ef; simpl in H; try discriminate.
    destruct (mapM f r) as [bs|e|] eqn:Er; simpl in H; try discriminate.
    inversion H; subst. destruct Hy as [->|Hy].
    + exists x. split; [left; reflexivity|exact Ef].
    + destruct (IH bs eq_refl y Hy) as (x' & Hin & Hx'). exists x'. split; [right; exact Hin|exact Hx'].
Qed.

Lemma firstM_some {A B} (f : A -> result (option B)) l y :
  firstM f l = Ok (Some y) -> exists x, In x l /\ f x = Ok (Some y).
Proof.
  induction l as [|x r IH]; simpl; intros H; [discriminate|].
  destruct (f x) as [[b|]|e|] eqn:Ef; simpl in H; try discriminate.
  - inversion H; subst. exists x. split; [left; reflexivity|exact Ef].
  - destruct (IH H) as (x' & Hin & Hx'). exists x'. split; [right; exact Hin|exact Hx'].
Qed.

Lemma assoc_in {A} a (t : list (ident * A)) m : assoc a t = Some m -> exists k, In (k, m) t.
Proof.
  induction t as [|[k v] r IH]; simpl; intros H; [discriminate|].
  destruct (N.eqb a k).
  - inversion H; subst. exists k. left. reflexivity.
  - destruct (IH H) as (k' & Hin). exists k'. right. exact Hin.
Qed.

Lemma typed_lookup g n nd : typed g = true -> lookup g n = Some nd -> node_typed g nd = true.
Proof.
  unfold typed, lookup. intros Ht Hl. rewrite forallb_forall in Ht. apply Ht.
  eapply nth_error_In. exact Hl.
Qed.

Definition tbl_okP (g : graph) (t : table) : Prop := forall kv, In kv t -> rank_at g (snd kv) <= 2.

Lemma tbl_ok_P g t : tbl_ok g t = true -> tbl_okP g t.
Proof.
  unfold tbl_ok, tbl_okP. rewrite forallb_forall. intros H kv Hin. apply Nat.leb_le. apply H. exact Hin.
Qed.

Section Tables.
  Variable c : cfg.
  Variable g : graph.
  Hypothesis Ht : typed g = true.
  Variables (ev_ : evalT) (ca_ ia_ : tblT).
  Hypothesis Hca : forall s n t, ca_ s n = Ok t -> tbl_okP g t.
  Hypothesis Hia : forall s n t, ia_ s n = Ok t -> tbl_okP g t.

  Lemma concat_tabs_ok (rec : tblT) s' (bs : list atom) tabs :
    (forall s n t, rec s n = Ok t -> tbl_okP g t) ->
    mapM (fun b => match b with AClass k' => rec s' k' | _ => Ok [] end) bs = Ok tabs ->
    tbl_okP g (concat tabs).
  Proof.
    intros Hrec Hm kv Hin. apply in_concat in Hin. destruct Hin as (tab & Htab & Hkv).
    destruct (mapM_ok_in _ _ _ Hm tab Htab) as (b & _ & Hb).
    destruct b as [q|q|f|m|t]; try (inversion Hb; subst; destruct Hkv).
    exact (Hrec _ _ _ Hb kv Hkv).
  Qed.

  Lemma cattrs_step_tbl s n t : cattrs_step c g ev_ ca_ s n = Ok t -> tbl_okP g t.
  Proof.
    unfold cattrs_step. destruct (lookup g n) as [nd|] eqn:Hl.
    2:{ intros H; inversion H; subst. intros kv []. }
    destruct nd; try (intros H; inversion H; subst; intros kv []; fail).
    pose proof (typed_lookup _ _ _ Ht Hl) as Hn. simpl in Hn. apply tbl_ok_P in Hn.
    destruct (guard_attrs c && mem n (ca s)).
    { intros H; inversion H; subst. intros kv []. }
    destruct (mapM (ev_ (add_ca n s)) bases) as [vals|e|]; simpl; try discriminate.
    destruct (base_objects c vals) as [bs|e|]; simpl; try discriminate.
    destruct (mapM _ bs) as [tabs|e|] eqn:Hm; simpl; try discriminate.
    intros H; inversion H; subst. intros kv Hin. apply in_app_or in Hin. destruct Hin as [Hin|Hin].
    - apply Hn. exact Hin.
    - exact (concat_tabs_ok ca_ _ _ _ Hca Hm kv Hin).
  Qed.

  Lemma iattrs_step_tbl s n t : iattrs_step c g ev_ ia_ s n = Ok t -> tbl_okP g t.
  Proof.
    unfold iattrs_step. destruct (lookup g n) as [nd|] eqn:Hl.
    2:{ intros H; inversion H; subst. intros kv []. }
    destruct nd; try (intros H; inversion H; subst; intros kv []; fail).
    destruct (guard_attrs c && mem n (ia s)).
    { intros H; inversion H; subst. intros kv []. }
    destruct (mapM (ev_ (add_ia n s)) bases) as [vals|e|]; simpl; try discriminate.
    destruct (base_objects c vals) as [bs|e|]; simpl; try discriminate.
    destruct (mapM _ bs) as [tabs|e|] eqn:Hm; simpl; try discriminate.
    intros H; inversion H; subst. intros kv Hin.
    exact (concat_tabs_ok ia_ _ _ _ Hia Hm kv Hin).
  Qed.
End Tables.

Lemma tables_typed c g : typed g = true -> forall fuel,
  (forall s n t, cattrs fuel c g s n = Ok t -> tbl_okP g t) /\
  (forall s n t, iattrs fuel c g s n = Ok t -> tbl_okP g t).
Proof.
  intros Ht. induction fuel as [|f (IHc & IHi)].
  - split; intros; discriminate.
  - split; intros s n t H; simpl in H.
    + exact (cattrs_step_tbl c g Ht (eval f c g) (cattrs f c g) IHc s n t H).
    + exact (iattrs_step_tbl c g (eval f c g) (iattrs f c g) IHi s n t H).
Qed.

Lemma get_attr_typed c g fuel s v a m : typed g = true ->
  get_attr g (cattrs fuel c g) (iattrs fuel c g) s v a = Ok (Some m) -> rank_at g m <= 2.
Proof.
  intros Ht H. unfold get_attr in H. apply firstM_some in H. destruct H as (x & _ & Hx).
  destruct (tables_typed c g Ht fuel) as (Hc & Hi).
  unfold atom_attr in Hx. destruct x as [q|q|f|md|t]; try discriminate.
  - destruct (cattrs fuel c g s q) as [tb|e|] eqn:E; simpl in Hx; try discriminate.
    inversion Hx as [Ha]. destruct (assoc_in _ _ _ Ha) as (k & Hin). exact (Hc _ _ _ E _ Hin).
  - destruct (cattrs fuel c g s q) as [tb|e|] eqn:E; simpl in Hx; try discriminate.
    destruct (iattrs fuel c g s q) as [tb2|e|] eqn:E2; simpl in Hx; try discriminate.
    inversion Hx as [Ha]. destruct (assoc_in _ _ _ Ha) as (k & Hin). apply in_app_or in Hin.
    destruct Hin as [Hin|Hin]; [exact (Hi _ _ _ E2 _ Hin)|exact (Hc _ _ _ E _ Hin)].
  - destruct (lookup g md) as [nd|] eqn:Hl; try discriminate.
    destruct nd; try discriminate. inversion Hx as [Ha].
    pose proof (typed_lookup _ _ _ Ht Hl) as Hn. simpl in Hn. apply tbl_ok_P in Hn.
    destruct (assoc_in _ _ _ Ha) as (k & Hin). exact (Hn _ Hin).
Qed.

Lemma decl_fin c g efuel : typed g = true -> guard_attrs c = true -> decl_visited c = true ->
  eval_fuel g <= efuel ->
  forall fuel acc n, rank_at g n + free (vis acc) (size g) < fuel -> fin (decl fuel c g efuel acc n).
Proof.
  intros Ht Hg Hv He. induction fuel as [|f IH]; intros acc n Hf; [lia|].
  simpl. unfold decl_step. unfold rank_at in Hf.
  destruct (lookup g n) as [nd|] eqn:Hl; [|apply fin_ok].
  pose proof (typed_lookup _ _ _ Ht Hl) as Hn.
  destruct nd as [[m|]|v|t|v a|alts|fn|rs|bs ls|q|t|t|]; simpl in Hf; try apply fin_ok.
  - (* NRef *) simpl in Hn. apply Nat.leb_le in Hn. apply IH. lia.
  - (* NImported *) rewrite Hv. simpl. rewrite dmem_vis.
    destruct (mem n (vis acc)) eqn:Hm; [apply fin_ok|].
    destruct t as [m|]; [|apply fin_ok].
    simpl in Hn. apply Nat.leb_le in Hn. apply IH. rewrite vis_app.
    assert (free (vis acc ++ [n]) (size g) < free (vis acc) (size g)).
    { apply free_ext_lt with (i := n).
      - intros x Hx. apply in_or_app. left. exact Hx.
      - exact (lookup_lt _ _ _ Hl).
      - intros Hin. apply mem_true_iff in Hin. congruence.
      - apply in_or_app. right. left. reflexivity. }
    lia.
  - (* NAttr *)
    apply fin_bind; [apply eval_total; assumption|]. intros [x|] _; [|apply fin_ok].
    apply fin_bind.
    + apply fin_get_attr with (k := efuel).
      * intros s' n' _. apply cattrs_total; assumption.
      * intros s' n' _. apply iattrs_total; assumption.
      * pose proof (M_le g prog0). unfold eval_fuel in He. lia.
    + intros [m|] Hga; [|apply fin_ok]. apply IH.
      pose proof (get_attr_typed _ _ _ _ _ _ _ Ht Hga). lia.
  - (* NMulti *)
    destruct alts as [|m [|m' r]]; try apply fin_ok.
    simpl in Hn. rewrite andb_true_r in Hn. apply Nat.leb_le in Hn. apply IH. lia.
Qed.

Theorem decl_total c g efuel fuel n : typed g = true -> guard_attrs c = true -> decl_visited c = true ->
  eval_fuel g <= efuel -> decl_fuel g <= fuel -> decl fuel c g efuel [] n <> OutOfFuel.
Proof.
  intros Ht Hg Hv He Hf. apply decl_fin; try assumption.
  pose proof (free_le (vis []) (size g)). unfold decl_fuel in Hf.
  assert (rank_at g n <= 3).
  { unfold rank_at. destruct (lookup g n) as [nd|]; [|lia]. destruct nd; simpl; lia. }
  lia.
Qed.

(* ---------------------------------------------------------------------------------------- *)
(* refutations: the as-is engines run out of ANY fuel on the witnesses                       *)
(* ---------------------------------------------------------------------------------------- *)

(* F21: m1.py `from m2 import x`, m2.py `from m1 import x`: two ImportedNames resolving to each other *)
Definition decl_witness : graph := [NImported (Some 1); NImported (Some 0)].

Lemma decl_as_is_diverges efuel : forall fuel acc n, n < 2 ->
  decl fuel cfg_as_is decl_witness efuel acc n = OutOfFuel.
Proof.
  induction fuel as [|f IH]; intros acc n Hn; [reflexivity|].
  destruct n as [|[|n]]; [| |lia]; simpl; unfold decl_step; simpl; apply IH; lia.
Qed.

(* F29: class A(B) / class B(A) reached through name lookups (across two modules in the concrete
   input), and the query `A.attr`:
     0: class A, bases [2]    1: class B, bases [3]    2: Name B -> 1    3: Name A -> 0
     4: A.attr (Attribute, value 5)                    5: Name A -> 0                           *)
Definition attrs_witness : graph :=
  [NClass [2] []; NClass [3] []; NRef (Some 1); NRef (Some 0); NAttr 5 7%N; NRef (Some 0)].

Lemma eval_S f c g s n :
  eval (S f) c g s n = eval_step c g (eval f c g) (cattrs f c g) (iattrs f c g) s n.
Proof. reflexivity. Qed.
Lemma cattrs_S f c g s n :
  cattrs (S f) c g s n = cattrs_step c g (eval f c g) (cattrs f c g) s n.
Proof. reflexivity. Qed.

Arguments eval : simpl never.
Arguments cattrs : simpl never.
Arguments iattrs : simpl never.

Definition high (s : prog) : Prop := forall x, In x (ev s) -> 4 <= x.

Lemma high_mem s x : high s -> x < 4 -> mem x (ev s) = false.
Proof.
  intros H Hx. destruct (mem x (ev s)) eqn:E; [|reflexivity].
  apply mem_true_iff in E. apply H in E. lia.
Qed.

Lemma mem_cons_false t r l : t <> r -> mem t l = false -> mem t (r :: l) = false.
Proof.
  intros Hne Hm. unfold mem in *. simpl. rewrite Hm.
  destruct (Nat.eqb t r) eqn:E; [apply Nat.eqb_eq in E; contradiction|reflexivity].
Qed.

Lemma high_add s n : high s -> 4 <= n -> high (add_ev n s).
Proof. intros H Hn x [<-|Hx]; [exact Hn|exact (H x Hx)]. Qed.

(* a Name whose lookup yields the class t, evaluated while neither is in progress *)
Lemma witness_ref_eval s r t :
  lookup attrs_witness r = Some (NRef (Some t)) -> t < 2 ->
  mem r (ev s) = false -> mem t (r :: ev s) = false ->
  forall F, eval F cfg_as_is attrs_witness s r = OutOfFuel \/
            eval F cfg_as_is attrs_witness s r = Ok (Some (VAtom (AClass t))).
Proof.
  intros Hl Ht Hr Hm F. destruct F as [|[|F]]; [left; reflexivity| |].
  - left. rewrite eval_S. unfold eval_step. rewrite Hl, Hr. reflexivity.
  - right. rewrite eval_S. unfold eval_step. rewrite Hl, Hr.
    rewrite eval_S. unfold eval_step.
    destruct t as [|[|t]]; [| |lia]; simpl lookup; cbv iota beta;
      unfold add_ev at 1; simpl ev; rewrite Hm; reflexivity.
Qed.

Lemma cattrs_as_is_diverges : forall fuel s k, high s -> k < 2 ->
  cattrs fuel cfg_as_is attrs_witness s k = OutOfFuel.
Proof.
  induction fuel as [|f IH]; intros s k Hs Hk; [reflexivity|].
  assert (Hs' : high (add_ca k s)) by exact Hs.
  rewrite cattrs_S. unfold cattrs_step.
  destruct k as [|[|k]]; [| |lia]; simpl lookup; cbv iota beta; simpl andb; cbv iota; simpl mapM.
  - assert (H1 : mem 2 (ev (add_ca 0 s)) = false) by (apply high_mem; [exact Hs'|lia]).
    assert (H2 : mem 1 (2 :: ev (add_ca 0 s)) = false)
      by (apply mem_cons_false; [lia|apply high_mem; [exact Hs'|lia]]).
    destruct (witness_ref_eval (add_ca 0 s) 2 1 eq_refl (le_n 2) H1 H2 f) as [E|E]; rewrite E.
    + reflexivity.
    + simpl. rewrite (IH (add_ca 0 s) 1 Hs') by lia. reflexivity.
  - assert (H1 : mem 3 (ev (add_ca 1 s)) = false) by (apply high_mem; [exact Hs'|lia]).
    assert (H2 : mem 0 (3 :: ev (add_ca 1 s)) = false)
      by (apply mem_cons_false; [lia|apply high_mem; [exact Hs'|lia]]).
    destruct (witness_ref_eval (add_ca 1 s) 3 0 eq_refl (Nat.lt_0_2) H1 H2 f) as [E|E]; rewrite E.
    + reflexivity.
    + simpl. rewrite (IH (add_ca 1 s) 0 Hs') by lia. reflexivity.
Qed.

Lemma eval_as_is_diverges : forall fuel, eval fuel cfg_as_is attrs_witness prog0 4 = OutOfFuel.
Proof.
  intros [|F]; [reflexivity|]. rewrite eval_S. unfold eval_step.
  simpl lookup. cbv iota beta. simpl mem. cbv iota.
  destruct (witness_ref_eval (add_ev 4 prog0) 5 0 eq_refl (Nat.lt_0_2) eq_refl eq_refl F) as [E|E].
  - rewrite E. reflexivity.
  - rewrite E. simpl bind. unfold get_attr. simpl atoms. simpl firstM. unfold atom_attr.
    rewrite cattrs_as_is_diverges; [reflexivity| |lia].
    intros x [<-|[]]. lia.
Qed.

(* the same witnesses are answered by the repaired engines *)
Lemma decl_witness_fixed :
  decl (decl_fuel decl_witness) cfg_fixed decl_witness (eval_fuel decl_witness) [] 0 = Ok [DOne 0; DOne 1].
Proof. vm_compute. reflexivity. Qed.

Lemma attrs_witness_fixed :
  eval (eval_fuel attrs_witness) cfg_fixed attrs_witness prog0 4 = Ok None.
Proof. vm_compute. reflexivity. Qed.

(* F30: a base with two alternatives (CompositeValue): the as-is table fails, the repaired one
   flattens.  0: class A, bases [2]; 1: class B; 2: MultiName [1; 3]; 3: class C with local 7 -> 4 *)
Definition comp_witness : graph :=
  [NClass [2] []; NClass [] []; NMulti [1; 3]; NClass [] [(7%N, 4)]; NConst false; NAttr 6 7%N; NRef (Some 0)].

Lemma comp_witness_as_is : eval (eval_fuel comp_witness) cfg_as_is comp_witness prog0 5 = Err EAttrError.
Proof. vm_compute. reflexivity. Qed.

Lemma comp_witness_fixed :
  eval (eval_fuel comp_witness) cfg_fixed comp_witness prog0 5 = Ok (Some (VAtom (ARuntime false))).
Proof. vm_compute. reflexivity. Qed.

(* ---------------------------------------------------------------------------------------- *)
(* engine 4: Flow.names with the _resolving flag terminates on well-levelled flow graphs     *)
(* ---------------------------------------------------------------------------------------- *)

Lemma fin_mapM_in {A B} (f : A -> result B) (l : list A) :
  (forall x, In x l -> fin (f x)) -> fin (mapM f l).
Proof.
  induction l as [|x r IH]; simpl; intros Hf.
  - apply fin_ok.
  - apply fin_bind; [apply Hf; left; reflexivity|]. intros y _. apply fin_bind.
    + apply IH. intros z Hz. apply Hf. right. exact Hz.
    + intros ys _. apply fin_ok.
Qed.

Lemma forallb_i_nth {A} (f : nat -> A -> bool) l : forall k i x,
  forallb_i f k l = true -> nth_error l i = Some x -> f (k + i) x = true.
Proof.
  induction l as [|y r IH]; intros k i x H Hn.
  - destruct i; discriminate.
  - simpl in H. apply andb_true_iff in H. destruct H as [Hy Hr]. destruct i as [|i]; simpl in Hn.
    + inversion Hn; subst. rewrite Nat.add_0_r. exact Hy.
    + replace (k + S i) with (S k + i) by lia. apply IH; assumption.
Qed.

Section Names.
  Variable g : fgraph.
  Variable depth : list nat.
  Hypothesis Hwf : flows_wf depth g = true.
  Let n := length g.
  Let W := n + 1.
  Let d (i : nat) := nth i depth 0.

  Lemma wf_at i fl : nth_error g i = Some fl -> flow_wf_at d g i fl = true.
  Proof.
    intros Hn. unfold flows_wf in Hwf. apply andb_true_iff in Hwf. destruct Hwf as [H1 _].
    apply andb_true_iff in H1. destruct H1 as [H1 _].
    exact (forallb_i_nth _ _ 0 i fl H1 Hn).
  Qed.

  Lemma depth_lt i : i < n -> d i < n.
  Proof.
    intros Hi. unfold flows_wf in Hwf. apply andb_true_iff in Hwf. destruct Hwf as [H1 Hlen].
    apply andb_true_iff in H1. destruct H1 as [_ Hd]. apply Nat.eqb_eq in Hlen.
    rewrite forallb_forall in Hd. unfold d. apply Nat.ltb_lt. apply Hd. apply nth_In. fold n in Hlen. lia.
  Qed.

  Lemma names_fin : forall fuel res i, i < n ->
    d i * W * W + free res n * W + i < fuel -> fin (names fuel true g res i).
  Proof.
    induction fuel as [|f IH]; intros res i Hi Hf; [lia|].
    simpl. unfold names_step. destruct (nth_error g i) as [fl|] eqn:Hn; [|apply fin_ok].
    pose proof (wf_at i fl Hn) as Hw. unfold flow_wf_at in Hw. apply andb_true_iff in Hw.
    destruct Hw as [Hps Hout]. pose proof (free_le res n) as Hfr.
    apply fin_bind; [|intros; apply fin_ok].
    destruct (parents fl) as [|p ps] eqn:Hp.
    - destruct (outer fl) as [o|]; [|apply fin_ok].
      apply andb_true_iff in Hout. destruct Hout as [Ho Hd]. apply Nat.ltb_lt in Ho, Hd.
      apply fin_bind; [|intros; apply fin_ok]. apply IH; [exact Ho|]. fold n in Ho.
      assert ((d o + 1) * W * W <= d i * W * W) by (repeat apply Nat.mul_le_mono_r; lia).
      assert (free res n * W <= n * W) by (apply Nat.mul_le_mono_r; lia).
      assert (n * W + n + 1 = W * W) by (unfold W; lia).
      lia.
    - apply fin_mapM_in. intros q Hq. rewrite forallb_forall in Hps. specialize (Hps q Hq).
      destruct q as [j|j]; apply andb_true_iff in Hps; destruct Hps as [Hj Hd];
        apply Nat.ltb_lt in Hj; apply Nat.eqb_eq in Hd.
      + apply IH; [lia|]. rewrite Hd. lia.
      + simpl. destruct (mem j res) eqn:Hm; [apply fin_ok|]. fold n in Hj. apply IH; [exact Hj|].
        pose proof (free_cons_lt j res n Hj Hm) as Hlt. rewrite Hd.
        assert ((free (j :: res) n + 1) * W <= free res n * W) by (apply Nat.mul_le_mono_r; lia).
        unfold W in *. lia.
  Qed.

  Theorem names_total fuel i : names_fuel g <= fuel -> names fuel true g [] i <> OutOfFuel.
  Proof.
    intros Hf. destruct (Nat.lt_ge_cases i n) as [Hi|Hi].
    - apply names_fin; [exact Hi|]. pose proof (depth_lt i Hi) as Hd. pose proof (free_le [] n) as Hfr.
      unfold names_fuel in Hf. fold n in Hf. fold W in Hf.
      assert ((d i + 1) * W * W <= n * W * W) by (repeat apply Nat.mul_le_mono_r; lia).
      assert (free [] n * W <= n * W) by (apply Nat.mul_le_mono_r; lia).
      assert (n * W + n + 1 = W * W) by (unfold W; lia).
      assert (n * W * W + W * W = W * W * W) by (unfold W; lia).
      lia.
    - destruct fuel as [|f]; [unfold names_fuel in Hf; lia|].
      simpl. unfold names_step. assert (Hn : nth_error g i = None) by (apply nth_error_None; exact Hi).
      rewrite Hn. discriminate.
  Qed.
End Names.

(* without the flag a loop edge is followed for ever: `while x: pass` has flows
   0: top, 1: loop head with parents [direct 0; loop 2], 2: body with parent [direct 1] *)
Definition loop_witness : fgraph :=
  [ {| own := []; parents := []; outer := None |};
    {| own := []; parents := [PDirect 0; PLoop 2]; outer := None |};
    {| own := []; parents := [PDirect 1]; outer := None |} ].

Lemma names_S f b g res i : names (S f) b g res i = names_step b g (names f b g) res i.
Proof. reflexivity. Qed.

Arguments names : simpl never.

Lemma names_unguarded_diverges : forall fuel res i, 1 <= i <= 2 ->
  names fuel false loop_witness res i = OutOfFuel.
Proof.
  induction fuel as [|f IH]; intros res i Hi; [reflexivity|].
  rewrite names_S. unfold names_step.
  destruct i as [|[|[|i]]]; try lia; simpl.
  - destruct f as [|f']; [reflexivity|].
    rewrite (names_S f' false loop_witness res 0). unfold names_step at 1. simpl.
    rewrite IH by lia. reflexivity.
  - rewrite IH by lia. reflexivity.
Qed.

Lemma loop_witness_wf : flows_wf [0; 0; 0] loop_witness = true.
Proof. vm_compute. reflexivity. Qed.

(* The recursion depth is bounded by the size of the graph, not by a constant: for every stack
   limit L there is a well-levelled flow graph (L+1 flows in sequence, e.g. sequential if
   statements) on which resolution needs more than L frames (open findings F48 / F50). *)
Definition chain (n : nat) : fgraph :=
  map (fun i => {| own := []; parents := if Nat.eqb i 0 then [] else [PDirect (i - 1)]; outer := None |})
      (seq 0 n).

Lemma chain_nth n i : i < n ->
  nth_error (chain n) i =
  Some {| own := []; parents := if Nat.eqb i 0 then [] else [PDirect (i - 1)]; outer := None |}.
Proof.
  intros Hi. unfold chain. rewrite nth_error_map.
  rewrite (nth_error_nth' (seq 0 n) 0) by (rewrite seq_length; exact Hi).
  rewrite seq_nth by exact Hi. reflexivity.
Qed.

Lemma chain_needs_depth n b : forall f res i, i < n -> f <= i ->
  names f b (chain n) res i = OutOfFuel.
Proof.
  induction f as [|f IH]; intros res i Hi Hf; [reflexivity|].
  rewrite names_S. unfold names_step. rewrite (chain_nth n i Hi).
  destruct i as [|i]; [lia|]. simpl parents. cbv iota. simpl mapM.
  replace (S i - 1) with i by lia. rewrite IH by lia. reflexivity.
Qed.

Lemma forallb_i_map_seq {A} (f : nat -> A -> bool) (h : nat -> A) : forall m k,
  (forall i, k <= i < k + m -> f i (h i) = true) -> forallb_i f k (map h (seq k m)) = true.
Proof.
  induction m as [|m IH]; intros k H; [reflexivity|].
  simpl. rewrite H by lia. rewrite IH; [reflexivity|]. intros i Hi. apply H. lia.
Qed.

Lemma nth_repeat0 n j : nth j (repeat 0 n) 0 = 0.
Proof. revert j. induction n as [|n IH]; intros [|j]; simpl; auto. Qed.

Lemma chain_length n : length (chain n) = n.
Proof. unfold chain. rewrite map_length, seq_length. reflexivity. Qed.

Lemma chain_wf n : flows_wf (repeat 0 n) (chain n) = true.
Proof.
  unfold flows_wf. rewrite repeat_length, chain_length, Nat.eqb_refl, andb_true_r.
  apply andb_true_iff. split.
  - unfold chain at 2. apply forallb_i_map_seq. intros i Hi. unfold flow_wf_at. simpl outer.
    rewrite andb_true_r. destruct i as [|i]; [reflexivity|].
    simpl. rewrite !nth_repeat0, Nat.sub_0_r. simpl. rewrite andb_true_r, andb_true_r.
    apply Nat.ltb_lt. lia.
  - apply forallb_forall. intros x Hx. destruct n as [|n]; [destruct Hx|].
    apply repeat_spec in Hx. subst x. reflexivity.
Qed.

Theorem depth_unbounded : forall L, exists g depth i,
  flows_wf depth g = true /\ names L true g [] i = OutOfFuel.
Proof.
  intros L. exists (chain (S L)), (repeat 0 (S L)), L. split.
  - apply chain_wf.
  - apply chain_needs_depth; lia.
Qed.

(* ---------------------------------------------------------------------------------------- *)
(* result shape                                                                              *)
(* ---------------------------------------------------------------------------------------- *)

Lemma finding_not_E01 f : code_eqb (d_code (finding_diag f)) E01 = false.
Proof. destruct f; reflexivity. Qed.

Lemma count_E01_analysis a : count_code E01 (map finding_diag a) = 0.
Proof.
  unfold count_code. induction a as [|f r IH]; simpl; [reflexivity|].
  rewrite finding_not_E01. exact IH.
Qed.

Theorem lint_E01_iff p a : count_code E01 (lint p a) = 1 <-> p <> ParseOk.
Proof.
  destruct p as [|m l c]; simpl.
  - rewrite count_E01_analysis. split; [discriminate|congruence].
  - split; [discriminate|reflexivity].
Qed.

Theorem lint_E01_exact m l c a :
  lint (ParseErr m l c) a = [{| d_code := E01; d_msg := m; d_line := l; d_col := c |}].
Proof. reflexivity. Qed.

Theorem lint_ok_positions a d : In d (lint ParseOk a) ->
  d_code d <> E01 /\ (exists l c, d_line d = Some l /\ d_col d = Some c).
Proof.
  simpl. rewrite in_map_iff. intros (f & <- & _). destruct f; simpl; split; try discriminate; eauto.
Qed.

Theorem lint_at_most_one_E01 p a : count_code E01 (lint p a) <= 1.
Proof.
  destruct p as [|m l c].
  - simpl. rewrite count_E01_analysis. lia.
  - unfold count_code. simpl. lia.
Qed.

Theorem format_fixed_wf cur res : forallb loc_wf (format_fixed cur res) = true.
Proof.
  induction res as [|[d|ds] r IH]; simpl; [reflexivity| |].
  - destruct (fmt_obj cur d) as [[[l c] f]|]; simpl; exact IH.
  - destruct (somes (map (fmt_obj cur) ds)) as [|x xs]; simpl; exact IH.
Qed.

(* on inputs where the pinned code does not fail the repaired code answers the same
   (declarations appends an alternative list only when it has more than one element) *)
Theorem format_fixed_conservative cur res out :
  (forall ds, In (EAlts ds) res -> ds <> []) ->
  format_as_is cur res = inr out -> format_fixed cur res = out.
Proof.
  revert out. induction res as [|[d|ds] r IH]; simpl; intros out Hne H.
  - inversion H. reflexivity.
  - destruct (fmt_obj cur d) as [[[l c] f]|]; [|discriminate].
    destruct (format_as_is cur r) as [e|o]; [discriminate|]. inversion H; subst.
    rewrite (IH o) by (intros; try apply Hne; auto). reflexivity.
  - destruct (forallb _ ds) eqn:Hall; [|discriminate].
    destruct (format_as_is cur r) as [e|o]; [discriminate|]. inversion H; subst.
    rewrite (IH o) by (intros; try apply Hne; auto).
    destruct ds as [|d0 dr]; [exfalso; apply (Hne []); [left; reflexivity|reflexivity]|].
    simpl in *. destruct (fmt_obj cur d0); [reflexivity|discriminate].
Qed.

(* the reported column: shifted back by the mark exactly for declarations of the edited text on
   the cursor's line right of the cursor, unchanged otherwise; never left of the cursor then *)
Theorem unmark_spec cur l c e :
  (e = true /\ l = fst cur /\ (snd cur < c)%Z -> unmark cur l c e = (c - mark_len)%Z) /\
  (e = false \/ l <> fst cur \/ (c <= snd cur)%Z -> unmark cur l c e = c).
Proof.
  unfold unmark. split.
  - intros (-> & -> & Hc). rewrite Z.eqb_refl. simpl. apply Z.ltb_lt in Hc. rewrite Hc. reflexivity.
  - intros [->|[Hl|Hc]]; [reflexivity| |].
    + apply Z.eqb_neq in Hl. rewrite Hl. rewrite andb_false_r. reflexivity.
    + apply Z.ltb_ge in Hc. rewrite Hc. rewrite andb_false_r. reflexivity.
Qed.

Theorem format_as_is_refuted : forall cur, exists res, format_as_is cur res = inl LAttributeError.
Proof. intros cur. exists [EOne Unlocated]. reflexivity. Qed.
