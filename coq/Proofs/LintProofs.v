(* Proofs about Model/Lint.v: the report loop of supp's linter implements the rule of C10. *)
From Coq Require Import List Bool Arith NArith Lia.
Import ListNotations.
From Supp Require Import Model.Lint.
Arguments N.eqb : simpl never.
Arguments name_eqb : simpl never.
Arguments starts_underscore : simpl never.

(* ---- name equality ---------------------------------------------------------------------------- *)

Lemma name_eqb_eq a : forall b, name_eqb a b = true <-> a = b.
Proof.
  unfold name_eqb.
  induction a as [|x a IH]; intros [|y b]; simpl; try (split; [discriminate|discriminate]).
  - split; reflexivity.
  - fold name_eqb in *. rewrite andb_true_iff, N.eqb_eq, IH. split.
    + intros [-> ->]. reflexivity.
    + intros H. injection H as -> ->. split; reflexivity.
Qed.

Lemma name_eqb_refl a : name_eqb a a = true.
Proof. apply name_eqb_eq. reflexivity. Qed.

Lemma mem_name_In n s : mem_name n s = true <-> In n s.
Proof.
  unfold mem_name. rewrite existsb_exists. split.
  - intros [x [Hin Heq]]. apply name_eqb_eq in Heq. subst. exact Hin.
  - intros H. exists n. split; [exact H | apply name_eqb_refl].
Qed.

Lemma mem_nat_In i u : mem_nat i u = true <-> In i u.
Proof.
  unfold mem_nat. rewrite existsb_exists. split.
  - intros [x [Hin Heq]]. apply Nat.eqb_eq in Heq. subst. exact Hin.
  - intros H. exists i. split; [exact H | apply Nat.eqb_refl].
Qed.

(* ---- one binding: the exemption chain is the rule (finite case analysis, all names) ---------- *)

(* for every binding that reaches the loop (not global-declared), whatever its name:
   the loop reports it iff the rule says so, with the binding's own code/message/position *)
Lemma report_is_rule b q :
  wf b = true -> b_global b = false ->
  report b false q = option_map (mk_rep b) (rule b q).
Proof.
  destruct b as [k own par nm md g gs sc ln cl]. simpl. intros Hwf Hg. subst g.
  unfold report, rule, local_of_function, method_parameter, import_at_module_or_class_level,
    parent_is_class, wf in *. simpl in *.
  destruct (starts_underscore nm) eqn:Hu;
  destruct (name_eqb md future_name) eqn:Hf;
  destruct q; destruct k; destruct own; try discriminate Hwf;
  destruct par as [[]|]; reflexivity.
Qed.

(* a used binding is never reported *)
Lemma report_used b q : report b true q = None.
Proof. reflexivity. Qed.

(* whatever is reported carries the binding's own name, position, and a code allowed by the rule *)
Lemma report_some_shape b u q x :
  wf b = true -> b_global b = false ->
  report b u q = Some x -> u = false /\ exists w, rule b q = Some w /\ x = mk_rep b w.
Proof.
  intros Hwf Hg H. destruct u; [discriminate H|]. split; [reflexivity|].
  rewrite (report_is_rule b q Hwf Hg) in H.
  destruct (rule b q) as [w|]; simpl in H; [|discriminate H].
  exists w. split; [reflexivity|]. injection H as <-. reflexivity.
Qed.

(* what is never reported, whatever the usage information (no hypothesis on the name) *)
Lemma report_never b u q :
  (starts_underscore (b_name b) = true
   \/ is_star (b_kind b) = true
   \/ (ignored_scope (b_own b) = true /\ is_imported (b_kind b) = false)
   \/ (ignored_scope (b_own b) = true /\ b_module b = future_name)
   \/ (is_argument (b_kind b) = true /\ b_parent b = Some SClass)) ->
  report b u q = None.
Proof.
  destruct b as [k own par nm md g gs sc ln cl]. simpl.
  unfold report, parent_is_class. simpl. destruct u; [reflexivity|].
  intros [H|[H|[[H1 H2]|[[H1 H2]|[H1 H2]]]]].
  - rewrite H. reflexivity.
  - destruct (starts_underscore nm); [reflexivity|]. rewrite H. reflexivity.
  - destruct (starts_underscore nm); [reflexivity|]. destruct (is_star k); [reflexivity|].
    rewrite H1, H2. reflexivity.
  - destruct (starts_underscore nm); [reflexivity|]. destruct (is_star k); [reflexivity|].
    rewrite H1. subst md. rewrite name_eqb_refl. destruct (is_imported k); reflexivity.
  - destruct (starts_underscore nm); [reflexivity|]. destruct (is_star k); [reflexivity|].
    subst par. rewrite H1.
    destruct (ignored_scope own); [destruct (is_imported k); [destruct (name_eqb md future_name); [reflexivity|destruct q; reflexivity]|reflexivity]|reflexivity].
Qed.

(* the code decides the message kind: W01 <-> 'Unused name', W02 <-> 'Unused import' *)
Lemma rule_code b q w :
  rule b q = Some w ->
  (w = W01 /\ local_of_function b = true) \/ (w = W02 /\ import_at_module_or_class_level b = true).
Proof.
  unfold rule. destruct (local_of_function b).
  - destruct (_ && _); [|discriminate]. intros H; injection H as <-. left. split; reflexivity.
  - destruct (import_at_module_or_class_level b); [|discriminate].
    destruct (_ && _); [|discriminate]. intros H; injection H as <-. right. split; reflexivity.
Qed.

(* ---- the usage loop: an identifier that is never loaded marks nothing ------------------------- *)

(* rows are keyed by identifier: every alternative of the row found for a read of x is named x
   (Flow.names / names_at build dicts {n.name: n}; MultiName rows are built per key) *)
Definition row_keyed (bs : list binding) (r : read) : Prop :=
  forall alts i b, rd_row r = Some alts -> In (ABind i) alts -> nth_error bs i = Some b ->
                   b_name b = rd_id r.

(* the locals() branch is taken only for a read of the identifier 'locals' *)
Definition locals_keyed (r : read) : Prop := rd_locals r = true -> rd_id r = locals_name.

Lemma mark_In alts : forall u i, In i (mark alts u) <-> In i u \/ In (ABind i) alts.
Proof.
  induction alts as [|a r IH]; intros u i; simpl.
  - tauto.
  - destruct a as [j|].
    + rewrite IH. simpl. split.
      * intros [[H|H]|H]; [right; left; congruence | left; exact H | right; right; exact H].
      * intros [H|[H|H]]; [left; right; exact H | left; left; congruence | right; exact H].
    + rewrite IH. split.
      * intros [H|H]; [left; exact H | right; right; exact H].
      * intros [H|[H|H]]; [left; exact H | discriminate H | right; exact H].
Qed.

(* the `scope` attribute of a plain name object is the scope that owns its binding
   (Flow.add_name: name.scope = self.scope) *)
Definition scope_attr_ok (bs : list binding) (r : read) : Prop :=
  forall s alts i b, In (Some s, alts) (rd_visible r) -> In (ABind i) alts ->
                     nth_error bs i = Some b -> b_scope b = s.

Lemma mark_scope_In s vis : forall u i,
  In i (mark_scope s vis u) -> In i u \/ exists alts, In (Some s, alts) vis /\ In (ABind i) alts.
Proof.
  induction vis as [|[[s'|] alts] r IH]; intros u i; simpl.
  - intros H. left. exact H.
  - intros H. destruct (IH _ _ H) as [H1|[a [Hin Ha]]].
    + destruct (Nat.eqb s' s) eqn:E.
      * apply mark_In in H1. destruct H1 as [H1|H1]; [left; exact H1|].
        apply Nat.eqb_eq in E. subst s'. right. exists alts. split; [left; reflexivity | exact H1].
      * left. exact H1.
    + right. exists a. split; [right; exact Hin | exact Ha].
  - intros H. destruct (IH _ _ H) as [H1|[a [Hin Ha]]].
    + left. exact H1.
    + right. exists a. split; [right; exact Hin | exact Ha].
Qed.

Lemma step_marks st r i :
  In i (fst (step st r)) ->
  In i (fst st) \/
  (exists alts, rd_row r = Some alts /\ rd_locals r = false /\ In (ABind i) alts) \/
  (rd_locals r = true /\ exists alts, In (Some (rd_scope r), alts) (rd_visible r) /\ In (ABind i) alts).
Proof.
  unfold step. destruct (rd_row r) as [alts|]; [|left; assumption].
  destruct (rd_locals r) eqn:Hl; simpl.
  - intros H. destruct (mark_scope_In _ _ _ _ H) as [H1|H1]; [left; exact H1|].
    right. right. split; [reflexivity | exact H1].
  - rewrite mark_In. intros [H|H]; [left; exact H|].
    right. left. exists alts. repeat split; assumption.
Qed.

Lemma step_qual st r n :
  In n (snd (step st r)) -> In n (snd st) \/ n = rd_id r.
Proof.
  unfold step. destruct (rd_row r) as [alts|]; [|left; assumption].
  destruct (rd_locals r); simpl; [left; assumption|].
  destruct (rd_qualified r); simpl; [|left; assumption].
  intros [H|H]; [right; symmetry; exact H | left; exact H].
Qed.

Lemma fold_marks reads : forall st i,
  In i (fst (fold_left step reads st)) ->
  In i (fst st) \/
  exists r, In r reads /\
    ((exists alts, rd_row r = Some alts /\ rd_locals r = false /\ In (ABind i) alts)
     \/ (rd_locals r = true /\
         exists alts, In (Some (rd_scope r), alts) (rd_visible r) /\ In (ABind i) alts)).
Proof.
  induction reads as [|r rs IH]; intros st i; simpl.
  - intros H. left. exact H.
  - intros H. destruct (IH _ _ H) as [H1|[r' [Hin H1]]].
    + destruct (step_marks _ _ _ H1) as [H2|H2].
      * left. exact H2.
      * right. exists r. split; [left; reflexivity | exact H2].
    + right. exists r'. split; [right; exact Hin | exact H1].
Qed.

Lemma fold_qual reads : forall st n,
  In n (snd (fold_left step reads st)) ->
  In n (snd st) \/ exists r, In r reads /\ n = rd_id r.
Proof.
  induction reads as [|r rs IH]; intros st n; simpl.
  - intros H. left. exact H.
  - intros H. destruct (IH _ _ H) as [H1|[r' [Hin H1]]].
    + destruct (step_qual _ _ _ H1) as [H2|H2].
      * left. exact H2.
      * right. exists r. split; [left; reflexivity | exact H2].
    + right. exists r'. split; [right; exact Hin | exact H1].
Qed.

(* no read of the identifier 'locals' in the binding's own scope (hypothesis no_locals_call,
   syntactic): locals() calls in OTHER scopes are allowed *)
Definition no_locals_in_scope (b : binding) (reads : list read) : Prop :=
  forall r, In r reads -> rd_id r = locals_name -> rd_scope r <> b_scope b.

(* the identifier of b is never loaded *)
Definition unread (b : binding) (reads : list read) : Prop :=
  forall r, In r reads -> rd_id r <> b_name b.

(* link lemma: a binding whose identifier is never loaded is never marked used, and its name is
   never put into qualified_imports *)
Lemma unread_not_used bs reads i b :
  nth_error bs i = Some b ->
  (forall r, In r reads -> row_keyed bs r /\ locals_keyed r /\ scope_attr_ok bs r) ->
  no_locals_in_scope b reads ->
  unread b reads ->
  mem_nat i (fst (usage reads)) = false /\ mem_name (b_name b) (snd (usage reads)) = false.
Proof.
  intros Hb Hkey Hnl Hun. unfold usage. split.
  - destruct (mem_nat i _) eqn:E; [|reflexivity]. exfalso.
    apply mem_nat_In in E.
    destruct (fold_marks _ _ _ E) as [H|[r [Hin [[alts [Hr [_ Ha]]]|[Hl [alts [Hv Ha]]]]]]].
    + exact H.
    + destruct (Hkey r Hin) as [Hk _]. apply (Hun r Hin). symmetry. exact (Hk alts i b Hr Ha Hb).
    + destruct (Hkey r Hin) as [_ [Hk Hs]].
      apply (Hnl r Hin (Hk Hl)). symmetry. exact (Hs _ alts i b Hv Ha Hb).
  - destruct (mem_name _ _) eqn:E; [|reflexivity]. exfalso.
    apply mem_name_In in E. destruct (fold_qual _ _ _ E) as [H|[r [Hin Heq]]].
    + exact H.
    + apply (Hun r Hin). symmetry. exact Heq.
Qed.

(* ---- the loop over all_names -------------------------------------------------------------------- *)

Lemma report_loop_In bs : forall n u q i x,
  In (i, x) (report_loop n bs u q) <->
  exists b, n <= i /\ nth_error bs (i - n) = Some b /\ in_all_names b = true /\
            report b (mem_nat i u) (mem_name (b_name b) q) = Some x.
Proof.
  induction bs as [|b r IH]; intros n u q i x; simpl.
  - split; [intros [] | intros [b [_ [H _]]]]. destruct (i - n); discriminate H.
  - rewrite in_app_iff, IH. split.
    + intros [H|[b' [Hle [Hn [Ha Hr]]]]].
      * destruct (in_all_names b) eqn:Ha; [|destruct H].
        destruct (report b (mem_nat n u) (mem_name (b_name b) q)) as [y|] eqn:Hr; [|destruct H].
        destruct H as [H|[]]. injection H as <- <-.
        exists b. rewrite Nat.sub_diag. simpl. repeat split; auto.
      * exists b'. split; [lia|]. replace (i - n) with (S (i - S n)) by lia. simpl.
        repeat split; assumption.
    + intros [b' [Hle [Hn [Ha Hr]]]].
      destruct (Nat.eq_dec i n) as [->|Hne].
      * rewrite Nat.sub_diag in Hn. simpl in Hn. injection Hn as <-.
        left. rewrite Ha, Hr. left. reflexivity.
      * right. exists b'. split; [lia|]. replace (i - n) with (S (i - S n)) in Hn by lia.
        simpl in Hn. repeat split; assumption.
Qed.

Lemma report_loop_lb bs : forall n u q i, In i (map fst (report_loop n bs u q)) -> n <= i.
Proof.
  intros n u q i H. apply in_map_iff in H. destruct H as [[j x] [Hj Hin]]. simpl in Hj. subst j.
  apply report_loop_In in Hin. destruct Hin as [b [Hle _]]. exact Hle.
Qed.

(* each binding is reported at most once *)
Lemma report_loop_NoDup bs : forall n u q, NoDup (map fst (report_loop n bs u q)).
Proof.
  induction bs as [|b r IH]; intros n u q; simpl.
  - constructor.
  - rewrite map_app.
    assert (Htail : ~ In n (map fst (report_loop (S n) r u q))).
    { intros H. apply report_loop_lb in H. lia. }
    destruct (in_all_names b); [|exact (IH _ _ _)].
    destruct (report b _ _); [|exact (IH _ _ _)].
    simpl. constructor; [exact Htail | exact (IH _ _ _)].
Qed.

Lemma lint_unused_In bs reads i x :
  In (i, x) (lint_unused bs reads) <->
  exists b, nth_error bs i = Some b /\ in_all_names b = true /\
            report b (mem_nat i (fst (usage reads))) (mem_name (b_name b) (snd (usage reads))) = Some x.
Proof.
  unfold lint_unused. rewrite report_loop_In. rewrite Nat.sub_0_r. split.
  - intros [b [_ H]]. exists b. exact H.
  - intros [b H]. exists b. split; [lia | exact H].
Qed.

(* ---- the property on the stated sub-domain ---------------------------------------------------- *)

(* For every file (list of bindings, list of reads with whatever the flow analysis answered),
   a binding whose identifier is never loaded is reported iff the rule holds, and then the entry
   is its own (code, message with its name, position). *)
Lemma unread_reported_iff_rule bs reads i b :
  nth_error bs i = Some b ->
  wf b = true -> in_domain b = true ->
  (forall r, In r reads -> row_keyed bs r /\ locals_keyed r /\ scope_attr_ok bs r) ->
  no_locals_in_scope b reads ->
  unread b reads ->
  forall x, In (i, x) (lint_unused bs reads) <-> exists w, rule b false = Some w /\ x = mk_rep b w.
Proof.
  intros Hb Hwf Hdom Hkey Hnl Hun x.
  destruct (unread_not_used bs reads i b Hb Hkey Hnl Hun) as [Hu Hq].
  unfold in_domain in Hdom. apply andb_true_iff in Hdom. destruct Hdom as [Hgs Hdom2].
  apply Bool.eqb_prop in Hgs.
  rewrite lint_unused_In. split.
  - intros [b' [Hb' [Ha Hr]]]. rewrite Hb in Hb'. injection Hb' as <-.
    rewrite Hu, Hq in Hr. unfold in_all_names in Ha. apply negb_true_iff in Ha.
    rewrite Hgs in Ha.
    destruct (report_some_shape _ _ _ _ Hwf Ha Hr) as [_ H]. exact H.
  - intros [w [Hrule ->]]. exists b. split; [exact Hb|].
    assert (Hg : b_global b = false).
    { destruct (b_global b) eqn:Hg; [|reflexivity]. exfalso.
      simpl in Hdom2. apply negb_true_iff in Hdom2.
      unfold rule, local_of_function in Hrule. rewrite Hg, Hdom2 in Hrule.
      destruct (b_own b); simpl in Hrule; discriminate Hrule. }
    split; [unfold in_all_names; rewrite Hgs, Hg; reflexivity|].
    rewrite Hu, Hq, (report_is_rule b false Hwf Hg), Hrule. reflexivity.
Qed.

(* nothing else is reported: every W01/W02 entry, for any binding (read or not), is the entry of a
   binding of the file that was not marked used, carries that binding's own name/position, and
   its code is the one the rule assigns (so every exemption is respected) *)
Lemma reported_only_by_rule bs reads i x :
  (forall b, In b bs -> wf b = true /\ b_gseen b = b_global b) ->
  In (i, x) (lint_unused bs reads) ->
  exists b w, nth_error bs i = Some b /\ b_global b = false /\
    mem_nat i (fst (usage reads)) = false /\
    rule b (mem_name (b_name b) (snd (usage reads))) = Some w /\ x = mk_rep b w.
Proof.
  intros Hwf H. apply lint_unused_In in H. destruct H as [b [Hb [Ha Hr]]].
  unfold in_all_names in Ha. apply negb_true_iff in Ha.
  destruct (Hwf b (nth_error_In _ _ Hb)) as [Hwfb Hgs]. rewrite Hgs in Ha.
  destruct (report_some_shape _ _ _ _ Hwfb Ha Hr) as [Hu [w [Hrule ->]]].
  exists b, w. repeat split; assumption.
Qed.

Lemma lint_unused_NoDup bs reads : NoDup (map fst (lint_unused bs reads)).
Proof. unfold lint_unused. apply report_loop_NoDup. Qed.

(* ---- the full statement is false on the pinned tree (open finding K3-C10) --------------------- *)

(* `global os` / `import os` at module level: import at module level, never read, not reported *)
Definition k3_binding : binding :=
  mkB KImport SModule None [111; 115]%N [111; 115]%N true true 0 2 7.

(* `def f(): import os; global os`: CPython accepts it and os is a global of the module; supp sees a
   local of f (the declaration comes too late for Flow.add_name) and reports W01 *)
Definition k3b_binding : binding :=
  mkB KImport SFunction (Some SModule) [111; 115]%N [111; 115]%N true false 1 2 11.

Lemma k3b_refutes :
  wf k3b_binding = true /\ rule k3b_binding false = None /\
  lint_unused [k3b_binding] [] = [(0, mk_rep k3b_binding W01)].
Proof. split; [reflexivity|]. split; vm_compute; reflexivity. Qed.

Lemma k3_refutes :
  wf k3_binding = true /\ unread k3_binding [] /\ rule k3_binding false = Some W02 /\
  lint_unused [k3_binding] [] = [].
Proof.
  split; [reflexivity|]. split; [intros r []|]. split; vm_compute; reflexivity.
Qed.

(* ---- correspondence helpers -------------------------------------------------------------------- *)

Lemma rep_eqb_eq x y : rep_eqb x y = true <-> x = y.
Proof.
  destruct x as [c1 m1 l1 k1], y as [c2 m2 l2 k2]. unfold rep_eqb. simpl.
  rewrite !andb_true_iff, name_eqb_eq, !N.eqb_eq. split.
  - intros [[[Hc ->] ->] ->]. destruct c1, c2; try discriminate Hc; reflexivity.
  - intros H. injection H as -> -> -> ->. repeat split. destruct c2; reflexivity.
Qed.
