(* Proofs about Model/Cache.v: the cache-coherence invariant of the repaired invalidation policy
   (fix F23), soundness of the memoising evaluator w.r.t. the pure reference semantics, and the
   history theorem.  Refutation of the pinned policy by a concrete 3-module history. *)
From Coq Require Import List Bool Arith NArith Lia.
Import ListNotations.
From Supp Require Import Model.Cache.

Set Implicit Arguments.
Arguments presolve : simpl never.
Arguments pentry_value : simpl never.

(* ---------------------------------------------------------------------------------------------
   equalities, association lists
   --------------------------------------------------------------------------------------------- *)

Lemma mod_eqb_eq : forall a b, mod_eqb a b = true <-> a = b.
Proof.
  induction a as [|x a IH]; destruct b as [|y b]; simpl; split; intros H; try discriminate; auto.
  - apply andb_true_iff in H. destruct H as [H1 H2]. apply N.eqb_eq in H1. apply IH in H2. congruence.
  - inversion H; subst. apply andb_true_iff. split; [apply N.eqb_refl | apply IH; reflexivity].
Qed.

Lemma mod_eqb_refl : forall a, mod_eqb a a = true.
Proof. intros. apply mod_eqb_eq. reflexivity. Qed.

Lemma mod_eqb_neq : forall a b, a <> b -> mod_eqb a b = false.
Proof. intros a b H. destruct (mod_eqb a b) eqn:E; auto. apply mod_eqb_eq in E. contradiction. Qed.

Lemma mod_eq_dec : forall a b : modname, {a = b} + {a <> b}.
Proof. intros. destruct (mod_eqb a b) eqn:E; [left; apply mod_eqb_eq; auto | right; intros ->; rewrite mod_eqb_refl in E; discriminate]. Qed.

Lemma key2_eqb_eq : forall a b, key2_eqb a b = true <-> a = b.
Proof.
  intros [a1 a2] [b1 b2]. unfold key2_eqb. simpl. rewrite andb_true_iff, !Nat.eqb_eq.
  split; [intros [-> ->]; reflexivity | intros H; inversion H; auto].
Qed.

Lemma key2_eqb_refl : forall a, key2_eqb a a = true.
Proof. intros. apply key2_eqb_eq. reflexivity. Qed.

Lemma key2_eqb_neq : forall a b, a <> b -> key2_eqb a b = false.
Proof. intros a b H. destruct (key2_eqb a b) eqn:E; auto. apply key2_eqb_eq in E. contradiction. Qed.

Lemma alookup_aremove_mod : forall V (l : list (modname * V)) k k',
  alookup mod_eqb (aremove mod_eqb l k) k' = if mod_eqb k k' then None else alookup mod_eqb l k'.
Proof.
  induction l as [|[k0 v] l IH]; intros k k'; simpl.
  - destruct (mod_eqb k k'); reflexivity.
  - destruct (mod_eqb k0 k) eqn:E0.
    + apply mod_eqb_eq in E0. subst k0. rewrite IH. destruct (mod_eqb k k'); reflexivity.
    + simpl. destruct (mod_eqb k0 k') eqn:E1.
      * apply mod_eqb_eq in E1. subst k0. destruct (mod_eqb k k') eqn:E2; [|reflexivity].
        apply mod_eqb_eq in E2. subst. rewrite mod_eqb_refl in E0. discriminate.
      * apply IH.
Qed.

Lemma mem_mod_In : forall m l, mem_mod m l = true <-> In m l.
Proof.
  intros m l. unfold mem_mod. rewrite existsb_exists. split.
  - intros [x [Hin He]]. apply mod_eqb_eq in He. subst. exact Hin.
  - intros H. exists m. split; [exact H | apply mod_eqb_refl].
Qed.

(* ---------------------------------------------------------------------------------------------
   the pure semantics is monotone in knowledge and fuel
   --------------------------------------------------------------------------------------------- *)

Definition kle (K K' : know) : Prop :=
  (forall m b, k_ex K m = Some b -> k_ex K' m = Some b) /\
  (forall m c, k_ct K m = Some c -> k_ct K' m = Some c).

Lemma kle_refl : forall K, kle K K.
Proof. intros K. split; auto. Qed.

Lemma kle_trans : forall K1 K2 K3, kle K1 K2 -> kle K2 K3 -> kle K1 K3.
Proof. intros K1 K2 K3 [A B] [C D]. split; auto. Qed.

Lemma pexpand_mono : forall K K' (rec rec' : modname -> option (list entry)),
  kle K K' -> (forall m es, rec m = Some es -> rec' m = Some es) ->
  forall c ln es, pexpand K rec c ln = Some es -> pexpand K' rec' c ln = Some es.
Proof.
  intros K K' rec rec' [Hex Hct] Hrec. induction c as [|b c IH]; intros ln es H; simpl in *.
  - exact H.
  - destruct b as [n a|n m|n m x|m'].
    1-3: destruct (pexpand K rec c (S ln)) as [es0|] eqn:E; [|discriminate];
         rewrite (IH _ _ E); exact H.
    destruct (k_ex K m') as [[|]|] eqn:Ek; [| |discriminate].
    + rewrite (Hex _ _ Ek). destruct (rec m') as [es'|] eqn:Er; [|discriminate].
      rewrite (Hrec _ _ Er). destruct (pexpand K rec c (S ln)) as [es0|] eqn:E; [|discriminate].
      rewrite (IH _ _ E). exact H.
    + rewrite (Hex _ _ Ek). apply IH. exact H.
Qed.

Lemma pscope_mono : forall K K', kle K K' ->
  forall f f' m es, f <= f' -> pscope K f m = Some es -> pscope K' f' m = Some es.
Proof.
  intros K K' HK. induction f as [|f IH]; intros f' m es Hle H; simpl in H; [discriminate|].
  destruct f' as [|f']; [lia|]. simpl.
  destruct (k_ct K m) as [c|] eqn:Ec; [|discriminate].
  destruct HK as [Hex Hct]. rewrite (Hct _ _ Ec).
  eapply pexpand_mono; [split; eauto | | exact H].
  intros m0 es0 H0. apply IH; [lia | exact H0].
Qed.

Lemma presolve_mono : forall K K', kle K K' ->
  forall f f' k r, f <= f' -> presolve K f k = Some r -> presolve K' f' k = Some r.
Proof.
  intros K K' HK f f' k r Hle H. destruct HK as [Hex Hct]. unfold presolve in *. destruct k as [a|m [x|]].
  - exact H.
  - destruct (k_ex K (m ++ [x])) as [[|]|] eqn:E1; [| |discriminate]; rewrite (Hex _ _ E1); [exact H|].
    destruct (k_ex K m) as [[|]|] eqn:E2; [| |discriminate]; rewrite (Hex _ _ E2); [|exact H].
    destruct (pscope K f m) as [es|] eqn:E3; [|discriminate].
    rewrite (pscope_mono (conj Hex Hct) _ Hle E3). exact H.
  - destruct (k_ex K m) as [[|]|] eqn:E1; [| |discriminate]; rewrite (Hex _ _ E1); exact H.
Qed.

Lemma pchase_mono : forall K K', kle K K' ->
  forall f f' r tr v, f <= f' -> pchase K f r tr = Some v -> pchase K' f' r tr = Some v.
Proof.
  intros K K' HK. induction f as [|f IH]; intros f' r tr v Hle H; simpl in H; [discriminate|].
  destruct f' as [|f']; [lia|]. simpl. destruct r as [|m|m i]; try exact H.
  assert (Hf : f <= f') by lia.
  destruct (pscope K f m) as [es|] eqn:E1; [|discriminate].
  rewrite (pscope_mono HK m Hf E1).
  destruct (nth_error es i) as [e|]; [|discriminate].
  destruct (e_kind e) as [a|m' x]; [exact H|].
  destruct (presolve K f (KImp m' x)) as [r'|] eqn:E2; [|discriminate].
  rewrite (presolve_mono HK _ Hf E2).
  apply IH; [lia | exact H].
Qed.

Lemma pattrs_mono : forall K K', kle K K' ->
  forall f f' v l, f <= f' -> pattrs K f v = Some l -> pattrs K' f' v = Some l.
Proof.
  intros K K' HK f f' v l Hle H. destruct v; simpl in *; try exact H.
  destruct (pscope K f m) as [es|] eqn:E; [|discriminate].
  rewrite (pscope_mono HK m Hle E). exact H.
Qed.

Lemma pentry_value_mono : forall K K', kle K K' ->
  forall f f' e v, f <= f' -> pentry_value K f e = Some v -> pentry_value K' f' e = Some v.
Proof.
  intros K K' HK f f' e v Hle H. unfold pentry_value in *. destruct (e_kind e) as [a|m x]; [exact H|].
  destruct (presolve K f (KImp m x)) as [r|] eqn:E; [|discriminate].
  rewrite (presolve_mono HK _ Hle E). eapply pchase_mono; eauto.
Qed.

Lemma pquery_mono : forall K K', kle K K' ->
  forall f f' es q a, f <= f' -> pquery K f es q = Some a -> pquery K' f' es q = Some a.
Proof.
  intros K K' HK f f' es q a Hle H. destruct q as [|uses|x y|x]; simpl in *; try exact H.
  - destruct (find_last x es) as [i|]; [|exact H].
    destruct (nth_error es i) as [e|]; [|discriminate].
    destruct (pentry_value K f e) as [[v tr]|] eqn:E; [|discriminate].
    rewrite (pentry_value_mono HK _ Hle E).
    destruct y as [y'|].
    + destruct v as [|m|a0]; try exact H.
      destruct (pscope K f m) as [es'|] eqn:E2; [|discriminate].
      rewrite (pscope_mono HK m Hle E2).
      destruct (find_last y' es') as [j|]; [|exact H].
      destruct (pchase K f (PName m j) []) as [[v' tr']|] eqn:E3; [|discriminate].
      rewrite (pchase_mono HK _ _ Hle E3).
      destruct (pattrs K f v') as [l|] eqn:E4; [|discriminate].
      rewrite (pattrs_mono HK _ Hle E4). exact H.
    + destruct (pattrs K f v) as [l|] eqn:E4; [|discriminate].
      rewrite (pattrs_mono HK _ Hle E4). exact H.
  - destruct (find_last x es) as [i|]; [|exact H].
    destruct (nth_error es i) as [e|]; [|discriminate].
    destruct (pentry_value K f e) as [v|] eqn:E; [|discriminate].
    rewrite (pentry_value_mono HK _ Hle E). exact H.
Qed.

Lemma panswer_mono : forall K K' d, kle K K' ->
  forall f f' rq a, f <= f' -> panswer K d f rq = Some a -> panswer K' d f' rq = Some a.
Proof.
  intros K K' d HK f f' rq a Hle H. destruct rq as [c q|m|c m]; simpl in *.
  - destruct (pexpand K (pscope K f) c first_line) as [es|] eqn:E; [|discriminate].
    rewrite (@pexpand_mono K K' (pscope K f) (pscope K' f') HK (fun m es H => pscope_mono HK m Hle H) _ _ _ E).
    eapply pquery_mono; eauto.
  - destruct HK as [Hex Hct]. destruct (k_ex K m) as [[|]|] eqn:E; [| |discriminate]; rewrite (Hex _ _ E); [|exact H].
    destruct (pscope K f m) as [es|] eqn:E2; [|discriminate].
    rewrite (pscope_mono (conj Hex Hct) m Hle E2). exact H.
  - destruct (pexpand K (pscope K f) c first_line) as [es|] eqn:E; [|discriminate].
    rewrite (@pexpand_mono K K' (pscope K f) (pscope K' f') HK (fun m es H => pscope_mono HK m Hle H) _ _ _ E).
    destruct HK as [Hex Hct]. destruct (k_ex K m) as [[|]|] eqn:E2; [| |discriminate]; rewrite (Hex _ _ E2); exact H.
Qed.

(* the reference answer does not depend on the fuel, once there is enough of it *)
Lemma ref_answer_deterministic : forall d rq f1 f2 a1 a2,
  ref_answer f1 d rq = Some a1 -> ref_answer f2 d rq = Some a2 -> a1 = a2.
Proof.
  intros d rq f1 f2 a1 a2 H1 H2. unfold ref_answer in *.
  pose proof (panswer_mono d (kle_refl _) rq (Nat.le_max_l f1 f2) H1) as A.
  pose proof (panswer_mono d (kle_refl _) rq (Nat.le_max_r f1 f2) H2) as B.
  congruence.
Qed.

(* ---------------------------------------------------------------------------------------------
   what a state knows; well-formedness (disk independent); agreement with a disk; extension
   --------------------------------------------------------------------------------------------- *)

Unset Implicit Arguments.

Notation mc st m := (alookup mod_eqb (mcache st) m).
Notation ob st g := (alookup Nat.eqb (objs st) g).
Notation sc st g := (alookup Nat.eqb (scopes st) g).
Notation rf st g i := (alookup key2_eqb (refs st) (g, i)).

Definition know_st (st : state) : know :=
  mkK (fun m => match mc st m with
                | Some _ => Some true
                | None => if mem_mod m (failed st) then Some false else None
                end)
      (fun m => match mc st m with
                | Some g => option_map fst (sc st g)
                | None => None
                end).

Arguments know_st : simpl never.

Definition SC (K : know) (m : modname) (es : list entry) : Prop := exists f, pscope K f m = Some es.

Definition ref_match (st : state) (r : ref) (pr : pref) : Prop :=
  match r, pr with
  | RNone, PNone => True
  | RMod g, PMod m => mc st m = Some g
  | RName g i, PName m j => mc st m = Some g /\ i = j /\ exists c es, sc st g = Some (c, es)
  | _, _ => False
  end.

Definition val_match (st : state) (v : ival) (pv : pval) : Prop :=
  match v, pv with
  | IVNone, VNone => True
  | IVMod g, VMod m => mc st m = Some g
  | IVClass a, VClass b => a = b
  | _, _ => False
  end.

Record wf (st : state) : Prop := mkWf {
  wf_obj : forall m g, mc st m = Some g -> exists t, ob st g = Some (m, t);
  wf_scope : forall m g c es, mc st m = Some g -> sc st g = Some (c, es) -> SC (know_st st) m es;
  wf_ref : forall m g i r, mc st m = Some g -> rf st g i = Some r ->
           exists c es e, sc st g = Some (c, es) /\ nth_error es i = Some e /\
           exists f pr, presolve (know_st st) f (e_kind e) = Some pr /\ ref_match st r pr;
  wf_cc : forall m g, alookup mod_eqb (ccache st) m = Some g -> mc st m = Some g;
  wf_fo : forall g v, ob st g = Some v -> g < next st;
  wf_fs : forall g v, sc st g = Some v -> g < next st;
  wf_fr : forall g i v, rf st g i = Some v -> g < next st
}.

Record agree (d : disk) (st : state) : Prop := mkAg {
  ag_obj : forall m g t, mc st m = Some g -> ob st g = Some (m, t) ->
           exists c, dlookup d m = Some (t, c) /\ forall c' es, sc st g = Some (c', es) -> c' = c;
  ag_failed : forall m, In m (failed st) -> dlookup d m = None
}.

Record ext (st st' : state) : Prop := mkExt {
  ext_mc : forall m g, mc st m = Some g -> mc st' m = Some g;
  ext_ob : forall g v, ob st g = Some v -> ob st' g = Some v;
  ext_sc : forall g v, sc st g = Some v -> sc st' g = Some v;
  ext_rf : forall g i v, rf st g i = Some v -> rf st' g i = Some v;
  ext_fl : forall m, In m (failed st) -> In m (failed st');
  ext_nx : next st <= next st'
}.

Lemma ext_refl : forall st, ext st st.
Proof. intros st. constructor; auto. Qed.

Lemma ext_trans : forall a b c, ext a b -> ext b c -> ext a c.
Proof.
  intros a b c [A1 A2 A3 A4 A5 A6] [B1 B2 B3 B4 B5 B6]. constructor; auto. lia.
Qed.

Definition wf_obj_p (st : state) : Prop := forall m g, mc st m = Some g -> exists t, ob st g = Some (m, t).

Lemma cached_not_failed : forall d st m g, wf_obj_p st -> agree d st -> mc st m = Some g -> In m (failed st) -> False.
Proof.
  intros d st m g W A Hm Hf. destruct (W _ _ Hm) as [t Ho].
  destruct (ag_obj _ _ A _ _ _ Hm Ho) as [c [Hd _]]. rewrite (ag_failed _ _ A _ Hf) in Hd. discriminate.
Qed.

Lemma ext_kle : forall d st st', ext st st' -> wf_obj_p st' -> agree d st' -> kle (know_st st) (know_st st').
Proof.
  intros d st st' E W A. split; unfold know_st; simpl.
  - intros m b H. destruct (mc st m) as [g|] eqn:Em.
    + rewrite (ext_mc _ _ E _ _ Em). exact H.
    + destruct (mem_mod m (failed st)) eqn:Ef; [|discriminate].
      apply mem_mod_In in Ef. apply (ext_fl _ _ E _) in Ef.
      destruct (mc st' m) as [g'|] eqn:Em'.
      * exfalso. eapply cached_not_failed; eauto.
      * apply mem_mod_In in Ef. rewrite Ef. exact H.
  - intros m c H. destruct (mc st m) as [g|] eqn:Em; [|discriminate].
    rewrite (ext_mc _ _ E _ _ Em). destruct (sc st g) as [v|] eqn:Es; [|discriminate].
    rewrite (ext_sc _ _ E _ _ Es). exact H.
Qed.

Lemma agree_kle : forall d st, wf st -> agree d st -> kle (know_st st) (know_disk d).
Proof.
  intros d st W A. split; unfold know_st; simpl.
  - intros m b H. destruct (mc st m) as [g|] eqn:Em.
    + destruct (wf_obj _ W _ _ Em) as [t Ho]. destruct (ag_obj _ _ A _ _ _ Em Ho) as [c [Hd _]].
      rewrite Hd. exact H.
    + destruct (mem_mod m (failed st)) eqn:Ef; [|discriminate].
      apply mem_mod_In in Ef. rewrite (ag_failed _ _ A _ Ef). exact H.
  - intros m c H. destruct (mc st m) as [g|] eqn:Em; [|discriminate].
    destruct (wf_obj _ W _ _ Em) as [t Ho]. destruct (ag_obj _ _ A _ _ _ Em Ho) as [c0 [Hd Hc]].
    destruct (sc st g) as [[c' es]|] eqn:Es; [|discriminate]. simpl in H. inversion H; subst.
    rewrite Hd. simpl. rewrite (Hc _ _ eq_refl). reflexivity.
Qed.

Lemma SC_mono : forall K K' m es, kle K K' -> SC K m es -> SC K' m es.
Proof. intros K K' m es HK [f H]. exists f. eapply pscope_mono; eauto. Qed.

Lemma ref_match_ext : forall st st' r pr, ext st st' -> ref_match st r pr -> ref_match st' r pr.
Proof.
  intros st st' r pr E H. destruct r, pr; simpl in *; auto.
  - apply (ext_mc _ _ E). exact H.
  - destruct H as (H1 & H2 & c & es & H3). split; [apply (ext_mc _ _ E); exact H1 |].
    split; [exact H2|]. exists c, es. apply (ext_sc _ _ E). exact H3.
Qed.

Lemma val_match_ext : forall st st' v pv, ext st st' -> val_match st v pv -> val_match st' v pv.
Proof.
  intros st st' v pv E H. destruct v, pv; simpl in *; auto. apply (ext_mc _ _ E). exact H.
Qed.

Definition Inv (d : disk) (st : state) : Prop := wf st /\ agree d st.

(* building wf of an extended state: every cached fact is an old one or is justified anew *)
Lemma wf_step : forall d st st',
  wf st -> ext st st' -> agree d st' -> wf_obj_p st' ->
  (forall m g, alookup mod_eqb (ccache st') m = Some g -> mc st' m = Some g) ->
  (forall g v, ob st' g = Some v -> g < next st') ->
  (forall g v, sc st' g = Some v -> g < next st') ->
  (forall g i v, rf st' g i = Some v -> g < next st') ->
  (forall m g c es, mc st' m = Some g -> sc st' g = Some (c, es) ->
     (mc st m = Some g /\ sc st g = Some (c, es)) \/ SC (know_st st') m es) ->
  (forall m g i r, mc st' m = Some g -> rf st' g i = Some r ->
     (mc st m = Some g /\ rf st g i = Some r) \/
     exists c es e, sc st' g = Some (c, es) /\ nth_error es i = Some e /\
       exists f pr, presolve (know_st st') f (e_kind e) = Some pr /\ ref_match st' r pr) ->
  wf st'.
Proof.
  intros d st st' W E A Wo Hcc Hfo Hfs Hfr Hsc Hrf.
  pose proof (ext_kle d st st' E Wo A) as HK.
  constructor; auto.
  - intros m g c es Hm Hs. destruct (Hsc _ _ _ _ Hm Hs) as [[Hm0 Hs0]|H]; [|exact H].
    eapply SC_mono; [exact HK|]. eapply wf_scope; eauto.
  - intros m g i r Hm Hr. destruct (Hrf _ _ _ _ Hm Hr) as [[Hm0 Hr0]|H]; [|exact H].
    destruct (wf_ref _ W _ _ _ _ Hm0 Hr0) as (c & es & e & Hs & Hn & f & pr & Hp & Hmatch).
    exists c, es, e. split; [apply (ext_sc _ _ E); exact Hs|]. split; [exact Hn|].
    exists f, pr. split; [eapply presolve_mono; eauto | eapply ref_match_ext; eauto].
Qed.

Lemma Nat_eqb_neq_lt : forall a b, b < a -> Nat.eqb a b = false.
Proof. intros. apply Nat.eqb_neq. lia. Qed.

(* project.py:98-135 on a name that is not in the cache *)
Lemma load_ok : forall d st m st' og,
  Inv d st -> mc st m = None -> load_module d st (mcache st) m = (st', og) ->
  Inv d st' /\ ext st st' /\ refs st' = refs st /\
  match og with Some g => mc st' m = Some g | None => k_ex (know_st st') m = Some false end.
Proof.
  intros d st m st' og [W A] Hnone H. unfold load_module in H.
  destruct (dlookup d m) as [[t c]|] eqn:Hd; inversion H; subst; clear H.
  - (* found: a new module object *)
    set (st' := mkS _ _ _ _ _ _ _).
    assert (E : ext st st').
    { constructor; simpl; auto.
      - intros m0 g0 H0. destruct (mod_eqb m m0) eqn:Em; [|exact H0].
        apply mod_eqb_eq in Em. subst. congruence.
      - intros g0 v H0. rewrite Nat_eqb_neq_lt; [exact H0|]. eapply wf_fo; eauto. }
    assert (Wo : wf_obj_p st').
    { intros m0 g0 H0. simpl in H0. simpl. destruct (mod_eqb m m0) eqn:Em.
      - apply mod_eqb_eq in Em. inversion H0; subst. rewrite Nat.eqb_refl. eauto.
      - destruct (wf_obj _ W _ _ H0) as [t0 Ho]. rewrite Nat_eqb_neq_lt; [eauto|]. eapply wf_fo; eauto. }
    assert (A' : agree d st').
    { constructor; simpl.
      - intros m0 g0 t0 H0 Ho. destruct (mod_eqb m m0) eqn:Em.
        + apply mod_eqb_eq in Em. inversion H0; subst. rewrite Nat.eqb_refl in Ho. inversion Ho; subst.
          exists c. split; [exact Hd|]. intros c' es Hs. apply (wf_fs _ W) in Hs. lia.
        + destruct (Nat.eqb (next st) g0) eqn:En.
          * apply Nat.eqb_eq in En. subst g0. destruct (wf_obj _ W _ _ H0) as [t1 Ho1].
            apply (wf_fo _ W) in Ho1. lia.
          * eapply ag_obj; eauto.
      - apply (ag_failed _ _ A). }
    split; [split; [|exact A']|split; [exact E|split; [reflexivity|]]].
    + eapply wf_step with (st := st); eauto; simpl.
      * intros m0 g0 H0. pose proof (wf_cc _ W _ _ H0) as H1.
        destruct (mod_eqb m m0) eqn:Em; [|exact H1]. apply mod_eqb_eq in Em. subst. congruence.
      * intros g0 v H0. destruct (Nat.eqb (next st) g0) eqn:En.
        -- apply Nat.eqb_eq in En. lia.
        -- apply (wf_fo _ W) in H0. lia.
      * intros g0 v H0. apply (wf_fs _ W) in H0. lia.
      * intros g0 i v H0. apply (wf_fr _ W) in H0. lia.
      * intros m0 g0 c0 es0 H0 Hs. left. destruct (mod_eqb m m0) eqn:Em; [|auto].
        inversion H0; subst. apply (wf_fs _ W) in Hs. lia.
      * intros m0 g0 i r H0 Hr. left. destruct (mod_eqb m m0) eqn:Em; [|auto].
        inversion H0; subst. apply (wf_fr _ W) in Hr. lia.
    + simpl. rewrite mod_eqb_refl. reflexivity.
  - (* not found: the failed lookup is recorded *)
    set (st' := mkS _ _ _ _ _ _ _).
    assert (E : ext st st') by (constructor; simpl; auto).
    assert (Wo : wf_obj_p st') by (intros m0 g0 H0; exact (wf_obj _ W _ _ H0)).
    assert (A' : agree d st').
    { constructor; simpl.
      - apply (ag_obj _ _ A).
      - intros m0 [->|H0]; [exact Hd | apply (ag_failed _ _ A); exact H0]. }
    split; [split; [|exact A']|split; [exact E|split; [reflexivity|]]].
    + eapply wf_step with (st := st); eauto; simpl.
      * apply (wf_cc _ W).
      * apply (wf_fo _ W).
      * apply (wf_fs _ W).
      * apply (wf_fr _ W).
    + unfold know_st. simpl. rewrite Hnone. unfold mem_mod. simpl. rewrite mod_eqb_refl. reflexivity.
Qed.

Lemma get_module_ok : forall d st m st' og,
  Inv d st -> get_module d st m = (st', og) ->
  Inv d st' /\ ext st st' /\ refs st' = refs st /\
  match og with Some g => mc st' m = Some g | None => k_ex (know_st st') m = Some false end.
Proof.
  intros d st m st' og [W A] H. unfold get_module in H.
  destruct (alookup mod_eqb (ccache st) m) as [g|] eqn:Ec.
  - inversion H; subst. split; [split; auto|]. split; [apply ext_refl|]. split; [reflexivity|].
    eapply wf_cc; eauto.
  - destruct (mc st m) as [g|] eqn:Em.
    + destruct (wf_obj _ W _ _ Em) as [t Ho]. destruct (ag_obj _ _ A _ _ _ Em Ho) as [c [Hd _]].
      assert (Hch : gen_changed d st g = false).
      { unfold gen_changed. rewrite Ho. unfold changed. simpl. rewrite Hd. rewrite N.eqb_refl. reflexivity. }
      rewrite Hch in H. inversion H; subst; clear H.
      set (st' := mkS _ _ _ _ _ _ _).
      assert (E : ext st st') by (constructor; simpl; auto).
      assert (A' : agree d st') by (constructor; [apply (ag_obj _ _ A) | apply (ag_failed _ _ A)]).
      split; [split; [|exact A']|split; [exact E|split; [reflexivity|exact Em]]].
      eapply wf_step with (st := st); eauto; simpl.
      * intros m0 g0 H0. exact (wf_obj _ W _ _ H0).
      * intros m0 g0 H0. destruct (mod_eqb m m0) eqn:Em0.
        -- apply mod_eqb_eq in Em0. inversion H0; subst. exact Em.
        -- apply (wf_cc _ W). exact H0.
      * apply (wf_fo _ W).
      * apply (wf_fs _ W).
      * apply (wf_fr _ W).
    + eapply load_ok; eauto. split; auto.
Qed.

Lemma add_scope_ok : forall d st g m t c es,
  Inv d st -> mc st m = Some g -> ob st g = Some (m, t) -> sc st g = None ->
  dlookup d m = Some (t, c) ->
  (exists f, pexpand (know_st st) (pscope (know_st st) f) c first_line = Some es) ->
  Inv d (add_scope st g (c, es)) /\ ext st (add_scope st g (c, es)) /\
  refs (add_scope st g (c, es)) = refs st /\ SC (know_st (add_scope st g (c, es))) m es.
Proof.
  intros d st g m t c es [W A] Hm Ho Hs Hd [f Hp].
  set (st' := add_scope st g (c, es)).
  assert (E : ext st st').
  { constructor; simpl; auto. intros g0 v H0. destruct (Nat.eqb g g0) eqn:Eg; [|exact H0].
    apply Nat.eqb_eq in Eg. subst. congruence. }
  assert (Wo : wf_obj_p st') by (intros m0 g0 H0; exact (wf_obj _ W _ _ H0)).
  assert (A' : agree d st').
  { constructor; simpl; [|apply (ag_failed _ _ A)].
    intros m0 g0 t0 H0 Ho0. destruct (ag_obj _ _ A _ _ _ H0 Ho0) as [c0 [Hd0 Hc0]].
    exists c0. split; [exact Hd0|]. intros c' es' Hs'.
    destruct (Nat.eqb g g0) eqn:Eg.
    - apply Nat.eqb_eq in Eg. subst g0. inversion Hs'; subst. rewrite Ho in Ho0. inversion Ho0; subst.
      congruence.
    - eapply Hc0; eauto. }
  pose proof (ext_kle d st st' E Wo A') as HK.
  assert (HSC : SC (know_st st') m es).
  { exists (S f).
    assert (Hct : k_ct (know_st st') m = Some c).
    { unfold know_st. simpl. rewrite Hm. rewrite Nat.eqb_refl. reflexivity. }
    change (pscope (know_st st') (S f) m) with
      (match k_ct (know_st st') m with
       | None => None
       | Some c0 => pexpand (know_st st') (pscope (know_st st') f) c0 first_line
       end).
    rewrite Hct.
    eapply pexpand_mono; [exact HK | | exact Hp].
    intros m0 es0 H0. eapply pscope_mono; eauto. }
  split; [split; [|exact A']|split; [exact E|split; [reflexivity|exact HSC]]].
  eapply wf_step with (st := st); eauto; simpl.
  - apply (wf_cc _ W).
  - apply (wf_fo _ W).
  - intros g0 v H0. destruct (Nat.eqb g g0) eqn:Eg.
    + apply Nat.eqb_eq in Eg. subst. eapply wf_fo; eauto.
    + eapply wf_fs; eauto.
  - apply (wf_fr _ W).
  - intros m0 g0 c0 es0 H0 Hs0. destruct (Nat.eqb g g0) eqn:Eg; [|left; auto].
    apply Nat.eqb_eq in Eg. subst g0. inversion Hs0; subst. right.
    destruct (wf_obj _ W _ _ H0) as [t0 Ho0]. rewrite Ho in Ho0. inversion Ho0; subst. exact HSC.
Qed.

Lemma add_ref_ok : forall d st g m i r c es e pr f,
  Inv d st -> mc st m = Some g -> rf st g i = None -> sc st g = Some (c, es) ->
  nth_error es i = Some e -> presolve (know_st st) f (e_kind e) = Some pr -> ref_match st r pr ->
  Inv d (add_ref st g i r) /\ ext st (add_ref st g i r).
Proof.
  intros d st g m i r c es e pr f [W A] Hm Hr Hs Hn Hp Hmatch.
  set (st' := add_ref st g i r).
  assert (E : ext st st').
  { constructor; simpl; auto. intros g0 i0 v H0. destruct (key2_eqb (g, i) (g0, i0)) eqn:Ek; [|exact H0].
    apply key2_eqb_eq in Ek. inversion Ek; subst. congruence. }
  assert (Wo : wf_obj_p st') by (intros m0 g0 H0; exact (wf_obj _ W _ _ H0)).
  assert (A' : agree d st') by (constructor; [apply (ag_obj _ _ A) | apply (ag_failed _ _ A)]).
  split; [split; [|exact A']|exact E].
  eapply wf_step with (st := st); eauto; simpl.
  - apply (wf_cc _ W).
  - apply (wf_fo _ W).
  - apply (wf_fs _ W).
  - intros g0 i0 v H0. destruct (key2_eqb (g, i) (g0, i0)) eqn:Ek.
    + apply key2_eqb_eq in Ek. inversion Ek; subst. eapply wf_fs; eauto.
    + eapply wf_fr; eauto.
  - intros m0 g0 i0 r0 H0 Hr0. destruct (key2_eqb (g, i) (g0, i0)) eqn:Ek; [|left; auto].
    apply key2_eqb_eq in Ek. inversion Ek; subst g0 i0. inversion Hr0; subst r0. right.
    exists c, es, e. split; [exact Hs|]. split; [exact Hn|]. exists f, pr. split; [exact Hp | exact Hmatch].
Qed.

(* ---------------------------------------------------------------------------------------------
   the memoising evaluator is sound w.r.t. the pure semantics and preserves the invariant
   --------------------------------------------------------------------------------------------- *)

Definition rec_ok (d : disk) (rec : state -> gen -> state * res (list entry)) : Prop :=
  forall st g m st' r, Inv d st -> mc st m = Some g -> rec st g = (st', r) ->
    Inv d st' /\ ext st st' /\ refs st' = refs st /\
    forall es, r = Ok es -> SC (know_st st') m es /\ exists c, sc st' g = Some (c, es).

Lemma max3 : forall a b, a <= Nat.max a b /\ b <= Nat.max a b.
Proof. intros. lia. Qed.

Lemma expand_ok : forall d rec, rec_ok d rec -> forall c ln st st' r,
  Inv d st -> expand d rec st c ln = (st', r) ->
  Inv d st' /\ ext st st' /\ refs st' = refs st /\
  forall es, r = Ok es -> exists f, pexpand (know_st st') (pscope (know_st st') f) c ln = Some es.
Proof.
  intros d rec Hrec. induction c as [|b c IH]; intros ln st st' r HI H.
  - simpl in H. inversion H; subst. split; [exact HI|]. split; [apply ext_refl|]. split; [reflexivity|].
    intros es He. inversion He; subst. exists 0. reflexivity.
  - assert (Plain : forall e0,
      (let '(st1, r0) := expand d rec st c (S ln) in
       match r0 with Ok es => (st1, Ok (e0 :: es)) | OOF => (st1, OOF) | Err => (st1, Err) end) = (st', r) ->
      Inv d st' /\ ext st st' /\ refs st' = refs st /\
      forall es, r = Ok es -> exists f,
        match pexpand (know_st st') (pscope (know_st st') f) c (S ln) with
        | None => None | Some es0 => Some (e0 :: es0) end = Some es).
    { intros e0 H0. destruct (expand d rec st c (S ln)) as [st1 r0] eqn:E1.
      destruct (IH _ _ _ _ HI E1) as (I1 & X1 & R1 & P1).
      destruct r0 as [es0| |]; inversion H0; subst; (split; [exact I1|]; split; [exact X1|]; split; [exact R1|]);
        intros es He; inversion He; subst.
      destruct (P1 _ eq_refl) as [f Hf]. exists f. rewrite Hf. reflexivity. }
    destruct b as [n a|n m|n m x|m']; simpl in H.
    1-3: exact (Plain _ H).
    clear Plain. destruct (get_module d st m') as [st1 og] eqn:Eg.
    destruct (get_module_ok _ _ _ _ _ HI Eg) as (I1 & X1 & R1 & P1).
    destruct og as [g'|].
    + destruct (rec st1 g') as [st2 r2] eqn:Er.
      destruct (Hrec _ _ _ _ _ I1 P1 Er) as (I2 & X2 & R2 & P2).
      destruct r2 as [es'| |].
      * destruct (expand d rec st2 c (S ln)) as [st3 r3] eqn:E3.
        destruct (IH _ _ _ _ I2 E3) as (I3 & X3 & R3 & P3).
        assert (X : ext st st3) by (eapply ext_trans; [exact X1|eapply ext_trans; eauto]).
        assert (R : refs st3 = refs st) by congruence.
        destruct r3 as [es3| |]; inversion H; subst; (split; [exact I3|]; split; [exact X|]; split; [exact R|]);
          intros es He; inversion He; subst.
        destruct (P3 _ eq_refl) as [f3 Hf3]. destruct (P2 _ eq_refl) as [[f2 Hf2] _].
        destruct I3 as [W3 A3].
        pose proof (ext_kle d st2 st' X3 (wf_obj _ W3) A3) as HK.
        exists (Nat.max f2 f3). cbn [pexpand].
        assert (Hex : k_ex (know_st st') m' = Some true).
        { unfold know_st. simpl. rewrite (ext_mc _ _ X3 _ _ (ext_mc _ _ X2 _ _ P1)). reflexivity. }
        rewrite Hex.
        rewrite (pscope_mono HK m' (proj1 (max3 f2 f3)) Hf2).
        rewrite (@pexpand_mono _ _ (pscope (know_st st') f3) (pscope (know_st st') (Nat.max f2 f3))
                   (kle_refl _) (fun m es H => pscope_mono (kle_refl _) m (proj2 (max3 f2 f3)) H) _ _ _ Hf3).
        reflexivity.
      * inversion H; subst. split; [exact I2|]. split; [eapply ext_trans; eauto|]. split; [congruence|].
        intros es He. discriminate.
      * inversion H; subst. split; [exact I2|]. split; [eapply ext_trans; eauto|]. split; [congruence|].
        intros es He. discriminate.
    + destruct (IH _ _ _ _ I1 H) as (I3 & X3 & R3 & P3).
      split; [exact I3|]. split; [eapply ext_trans; eauto|]. split; [congruence|].
      intros es He. destruct (P3 _ He) as [f Hf]. exists f. cbn [pexpand].
      destruct I3 as [W3 A3].
      pose proof (ext_kle d st1 st' X3 (wf_obj _ W3) A3) as [Hk _].
      rewrite (Hk _ _ P1). exact Hf.
Qed.

Lemma scope_of_ok : forall d f, rec_ok d (scope_of f d).
Proof.
  intros d. induction f as [|f IH]; intros st g m st' r HI Hm H.
  - simpl in H. inversion H; subst. split; [exact HI|]. split; [apply ext_refl|]. split; [reflexivity|].
    intros es He. discriminate.
  - simpl in H. destruct HI as [W A].
    destruct (sc st g) as [[c0 es0]|] eqn:Es.
    + inversion H; subst. split; [split; auto|]. split; [apply ext_refl|]. split; [reflexivity|].
      intros es He. inversion He; subst. split; [eapply wf_scope; eauto | eauto].
    + destruct (wf_obj _ W _ _ Hm) as [t Ho]. rewrite Ho in H.
      destruct (ag_obj _ _ A _ _ _ Hm Ho) as [c [Hd _]]. rewrite Hd in H.
      destruct (expand d (scope_of f d) st c first_line) as [st1 r1] eqn:E1.
      destruct (expand_ok _ _ IH _ _ _ _ _ (conj W A) E1) as (I1 & X1 & R1 & P1).
      destruct r1 as [es1| |].
      * destruct (sc st1 g) as [[c2 es2]|] eqn:Es1.
        -- inversion H; subst. split; [exact I1|]. split; [exact X1|]. split; [exact R1|].
           intros es He. inversion He; subst. destruct I1 as [W1 A1].
           split; [|eauto]. eapply wf_scope; eauto. apply (ext_mc _ _ X1). exact Hm.
        -- inversion H; subst.
           destruct (add_scope_ok d st1 g m t c es1 I1 (ext_mc _ _ X1 _ _ Hm) (ext_ob _ _ X1 _ _ Ho) Es1 Hd
                       (P1 _ eq_refl)) as (I2 & X2 & R2 & P2).
           split; [exact I2|]. split; [eapply ext_trans; eauto|]. split; [congruence|].
           intros es He. inversion He; subst. split; [exact P2|].
           exists c. simpl. rewrite Nat.eqb_refl. reflexivity.
      * inversion H; subst. split; [exact I1|]. split; [exact X1|]. split; [exact R1|]. intros es He. discriminate.
      * inversion H; subst. split; [exact I1|]. split; [exact X1|]. split; [exact R1|]. intros es He. discriminate.
Qed.

Lemma know_ex_cached : forall st m g, mc st m = Some g -> k_ex (know_st st) m = Some true.
Proof. intros st m g H. unfold know_st. simpl. rewrite H. reflexivity. Qed.

Lemma resolve_kind_ok : forall d f st k st' r,
  Inv d st -> resolve_kind f d st k = (st', r) ->
  Inv d st' /\ ext st st' /\ refs st' = refs st /\
  forall rr, r = Ok rr -> exists f' pr, presolve (know_st st') f' k = Some pr /\ ref_match st' rr pr.
Proof.
  intros d f st k st' r HI H. destruct k as [a|m [x|]]; simpl in H.
  - inversion H; subst. split; [exact HI|]. split; [apply ext_refl|]. split; [reflexivity|].
    intros rr He. inversion He; subst. exists 0, PNone. split; reflexivity.
  - destruct (get_module d st (m ++ [x])) as [st1 og] eqn:E1.
    destruct (get_module_ok _ _ _ _ _ HI E1) as (I1 & X1 & R1 & P1).
    destruct og as [g|].
    + inversion H; subst. split; [exact I1|]. split; [exact X1|]. split; [exact R1|].
      intros rr He. inversion He; subst. exists 0, (PMod (m ++ [x])). unfold presolve.
      rewrite (know_ex_cached _ _ _ P1). split; [reflexivity|exact P1].
    + destruct (get_module d st1 m) as [st2 og2] eqn:E2.
      destruct (get_module_ok _ _ _ _ _ I1 E2) as (I2 & X2 & R2 & P2).
      assert (K12 : kle (know_st st1) (know_st st2)).
      { destruct I2 as [W2 A2]. exact (ext_kle d _ _ X2 (wf_obj _ W2) A2). }
      destruct og2 as [g|].
      * destruct (scope_of f d st2 g) as [st3 r3] eqn:E3.
        destruct (scope_of_ok d f _ _ _ _ _ I2 P2 E3) as (I3 & X3 & R3 & P3).
        assert (K23 : kle (know_st st2) (know_st st3)).
        { destruct I3 as [W3 A3]. exact (ext_kle d _ _ X3 (wf_obj _ W3) A3). }
        assert (X : ext st st3) by (eapply ext_trans; [exact X1|eapply ext_trans; eauto]).
        assert (R : refs st3 = refs st) by congruence.
        destruct r3 as [es| |]; inversion H; subst; (split; [exact I3|]; split; [exact X|]; split; [exact R|]);
          intros rr He; inversion He; subst.
        destruct (P3 _ eq_refl) as [[f3 Hf3] [c3 Hs3]].
        exists f3. eexists. unfold presolve.
        destruct K12 as [K12 _]. destruct K23 as [K23 _].
        rewrite (K23 _ _ (K12 _ _ P1)).
        rewrite (know_ex_cached _ _ _ (ext_mc _ _ X3 _ _ P2)).
        rewrite Hf3. split; [reflexivity|].
        destruct (find_last x es); simpl; auto. split; [apply (ext_mc _ _ X3); exact P2 |].
        split; [reflexivity | eauto].
      * inversion H; subst. split; [exact I2|]. split; [eapply ext_trans; eauto|]. split; [congruence|].
        intros rr He. inversion He; subst. exists 0, PNone. unfold presolve.
        destruct K12 as [K12 _]. rewrite (K12 _ _ P1). rewrite P2. split; reflexivity.
  - destruct (get_module d st m) as [st1 og] eqn:E1.
    destruct (get_module_ok _ _ _ _ _ HI E1) as (I1 & X1 & R1 & P1).
    inversion H; subst. split; [exact I1|]. split; [exact X1|]. split; [exact R1|].
    intros rr He. inversion He; subst. destruct og as [g|].
    + exists 0, (PMod m). unfold presolve. rewrite (know_ex_cached _ _ _ P1). split; [reflexivity|exact P1].
    + exists 0, PNone. unfold presolve. rewrite P1. split; reflexivity.
Qed.

Lemma resolve_at_ok : forall d f st g i m c es e st' r,
  Inv d st -> mc st m = Some g -> sc st g = Some (c, es) -> nth_error es i = Some e ->
  resolve_at f d st g i (e_kind e) = (st', r) ->
  Inv d st' /\ ext st st' /\
  forall rr, r = Ok rr -> exists f' pr, presolve (know_st st') f' (e_kind e) = Some pr /\ ref_match st' rr pr.
Proof.
  intros d f st g i m c es e st' r HI Hm Hs Hn H. unfold resolve_at in H.
  destruct (rf st g i) as [r0|] eqn:Er.
  - inversion H; subst. split; [exact HI|]. split; [apply ext_refl|].
    intros rr He. inversion He; subst. destruct HI as [W A].
    destruct (wf_ref _ W _ _ _ _ Hm Er) as (c1 & es1 & e1 & Hs1 & Hn1 & f1 & pr & Hp & Hmatch).
    rewrite Hs in Hs1. inversion Hs1; subst. rewrite Hn in Hn1. inversion Hn1; subst.
    exists f1, pr. split; assumption.
  - destruct (resolve_kind f d st (e_kind e)) as [st1 r1] eqn:E1.
    destruct (resolve_kind_ok _ _ _ _ _ _ HI E1) as (I1 & X1 & R1 & P1).
    destruct r1 as [rr1| |].
    + inversion H; subst. destruct (P1 _ eq_refl) as (f1 & pr & Hp & Hmatch).
      assert (Er1 : rf st1 g i = None) by (rewrite R1; exact Er).
      destruct (add_ref_ok d st1 g m i rr1 c es e pr f1 I1 (ext_mc _ _ X1 _ _ Hm) Er1
                  (ext_sc _ _ X1 _ _ Hs) Hn Hp Hmatch) as (I2 & X2).
      split; [exact I2|]. split; [eapply ext_trans; eauto|].
      intros rr He. inversion He; subst. exists f1, pr. split; [exact Hp|].
      eapply ref_match_ext; eauto.
    + inversion H; subst. split; [exact I1|]. split; [exact X1|]. intros rr He. discriminate.
    + inversion H; subst. split; [exact I1|]. split; [exact X1|]. intros rr He. discriminate.
Qed.

Lemma Inv_kle : forall d st st', ext st st' -> Inv d st' -> kle (know_st st) (know_st st').
Proof. intros d st st' X [W A]. exact (ext_kle d _ _ X (wf_obj _ W) A). Qed.

Lemma chase_ok : forall d f st r tr pr st' res,
  Inv d st -> ref_match st r pr -> chase f d st r tr = (st', res) ->
  Inv d st' /\ ext st st' /\
  forall v tr', res = Ok (v, tr') ->
    exists f' pv, pchase (know_st st') f' pr tr = Some (pv, tr') /\ val_match st' v pv.
Proof.
  intros d. induction f as [|f IH]; intros st r tr pr st' res HI Hmatch H.
  - simpl in H. inversion H; subst. split; [exact HI|]. split; [apply ext_refl|]. intros v tr' He. discriminate.
  - simpl in H. destruct r as [|g|g i].
    + inversion H; subst. split; [exact HI|]. split; [apply ext_refl|].
      intros v tr' He. inversion He; subst. destruct pr; simpl in Hmatch; try contradiction.
      exists 1, VNone. split; reflexivity.
    + destruct pr as [|m|m j]; simpl in Hmatch; try contradiction.
      destruct HI as [W A]. destruct (wf_obj _ W _ _ Hmatch) as [t Ho]. rewrite Ho in H.
      inversion H; subst. split; [split; auto|]. split; [apply ext_refl|].
      intros v tr' He. inversion He; subst. exists 1, (VMod m). split; [reflexivity|exact Hmatch].
    + destruct pr as [|m|m j]; simpl in Hmatch; try contradiction. destruct Hmatch as (Hm & <- & _).
      pose proof HI as [W A]. destruct (wf_obj _ W _ _ Hm) as [t Ho]. rewrite Ho in H.
      destruct (sc st g) as [[c es]|] eqn:Es.
      2:{ inversion H; subst. split; [exact HI|]. split; [apply ext_refl|]. intros v tr' He. discriminate. }
      destruct (nth_error es i) as [e|] eqn:En.
      2:{ inversion H; subst. split; [exact HI|]. split; [apply ext_refl|]. intros v tr' He. discriminate. }
      destruct (wf_scope _ W _ _ _ _ Hm Es) as [f0 Hf0].
      destruct (e_kind e) as [a|m' x] eqn:Ek.
      * inversion H; subst. split; [exact HI|]. split; [apply ext_refl|].
        intros v tr' He. inversion He; subst. exists (S f0), (VClass a). split; [|reflexivity].
        simpl. rewrite Hf0, En, Ek. reflexivity.
      * destruct (resolve_at f d st g i (KImp m' x)) as [st1 rr] eqn:E1.
        rewrite <- Ek in E1.
        destruct (resolve_at_ok _ _ _ _ _ _ _ _ _ _ _ HI Hm Es En E1) as (I1 & X1 & P1).
        destruct rr as [r'| |].
        2:{ inversion H; subst. split; [exact I1|]. split; [exact X1|]. intros v tr' He. discriminate. }
        2:{ inversion H; subst. split; [exact I1|]. split; [exact X1|]. intros v tr' He. discriminate. }
        destruct (P1 _ eq_refl) as (f1 & pr' & Hp1 & Hm1).
        destruct (IH _ _ _ _ _ _ I1 Hm1 H) as (I2 & X2 & P2).
        split; [exact I2|]. split; [eapply ext_trans; eauto|].
        intros v tr' He. destruct (P2 _ _ He) as (f2 & pv & Hp2 & Hv).
        pose proof (Inv_kle d _ _ (ext_trans _ _ _ X1 X2) I2) as K02.
        pose proof (Inv_kle d _ _ X2 I2) as K12.
        exists (S (Nat.max f0 (Nat.max f1 f2))), pv. split; [|exact Hv].
        simpl.
        assert (L0 : f0 <= Nat.max f0 (Nat.max f1 f2)) by lia.
        assert (L1 : f1 <= Nat.max f0 (Nat.max f1 f2)) by lia.
        rewrite (pscope_mono K02 m L0 Hf0).
        rewrite En, Ek. rewrite Ek in Hp1.
        rewrite (presolve_mono K12 _ L1 Hp1).
        eapply pchase_mono; [apply kle_refl | | exact Hp2]. lia.
Qed.

Lemma attrs_of_ok : forall d f st v pv st' r,
  Inv d st -> val_match st v pv -> attrs_of f d st v = (st', r) ->
  Inv d st' /\ ext st st' /\ forall l, r = Ok l -> exists f', pattrs (know_st st') f' pv = Some l.
Proof.
  intros d f st v pv st' r HI Hv H. destruct v as [|g|a]; simpl in H.
  - inversion H; subst. split; [exact HI|]. split; [apply ext_refl|]. intros l He. inversion He; subst.
    destruct pv; simpl in Hv; try contradiction. exists 0. reflexivity.
  - destruct pv as [|m|b]; simpl in Hv; try contradiction.
    destruct (scope_of f d st g) as [st1 r1] eqn:E1.
    destruct (scope_of_ok d f _ _ _ _ _ HI Hv E1) as (I1 & X1 & R1 & P1).
    destruct r1 as [es| |]; inversion H; subst; (split; [exact I1|]; split; [exact X1|]); intros l He; inversion He; subst.
    destruct (P1 _ eq_refl) as [[f1 Hf1] _]. exists f1. simpl. rewrite Hf1. reflexivity.
  - inversion H; subst. split; [exact HI|]. split; [apply ext_refl|]. intros l He. inversion He; subst.
    destruct pv; simpl in Hv; try contradiction. subst. exists 0. reflexivity.
Qed.

Lemma entry_value_ok : forall d f st e st' r,
  Inv d st -> entry_value f d st e = (st', r) ->
  Inv d st' /\ ext st st' /\
  forall v tr, r = Ok (v, tr) ->
    exists f' pv, pentry_value (know_st st') f' e = Some (pv, tr) /\ val_match st' v pv.
Proof.
  intros d f st e st' r HI H. unfold entry_value in H. unfold pentry_value.
  destruct (e_kind e) as [a|m x] eqn:Ek.
  - inversion H; subst. split; [exact HI|]. split; [apply ext_refl|]. intros v tr He. inversion He; subst.
    exists 0, (VClass a). split; reflexivity.
  - destruct (resolve_kind f d st (KImp m x)) as [st1 r1] eqn:E1.
    destruct (resolve_kind_ok _ _ _ _ _ _ HI E1) as (I1 & X1 & R1 & P1).
    destruct r1 as [rr| |].
    2:{ inversion H; subst. split; [exact I1|]. split; [exact X1|]. intros v tr He. discriminate. }
    2:{ inversion H; subst. split; [exact I1|]. split; [exact X1|]. intros v tr He. discriminate. }
    destruct (P1 _ eq_refl) as (f1 & pr & Hp1 & Hm1).
    destruct (chase_ok _ _ _ _ _ _ _ _ I1 Hm1 H) as (I2 & X2 & P2).
    split; [exact I2|]. split; [eapply ext_trans; eauto|].
    intros v tr He. destruct (P2 _ _ He) as (f2 & pv & Hp2 & Hv).
    pose proof (Inv_kle d _ _ X2 I2) as K12.
    exists (Nat.max f1 f2), pv. split; [|exact Hv].
    assert (L1 : f1 <= Nat.max f1 f2) by lia. assert (L2 : f2 <= Nat.max f1 f2) by lia.
    rewrite (presolve_mono K12 _ L1 Hp1). eapply pchase_mono; [apply kle_refl | exact L2 | exact Hp2].
Qed.

Lemma lift_names_inv : forall st l st' r, lift_names (st, l) = (st', r) ->
  st' = st /\ match l with Ok x => r = Ok (ANames x) | OOF => r = OOF | Err => r = Err end.
Proof. intros st l st' r H. unfold lift_names in H. simpl in H. destruct l; inversion H; auto. Qed.

Lemma query_ok : forall d f st es q st' r,
  Inv d st -> query_impl f d st es q = (st', r) ->
  Inv d st' /\ ext st st' /\ forall a, r = Ok a -> exists f', pquery (know_st st') f' es q = Some a.
Proof.
  intros d f st es q st' r HI H. destruct q as [|uses|x y|x]; simpl in H.
  - inversion H; subst. split; [exact HI|]. split; [apply ext_refl|]. intros a He. inversion He; subst.
    exists 0. reflexivity.
  - inversion H; subst. split; [exact HI|]. split; [apply ext_refl|]. intros a He. inversion He; subst.
    exists 0. reflexivity.
  - (* QAttrs *)
    destruct (find_last x es) as [i|] eqn:Ef.
    2:{ inversion H; subst. split; [exact HI|]. split; [apply ext_refl|]. intros a He. inversion He; subst.
        exists 0. simpl. rewrite Ef. reflexivity. }
    destruct (nth_error es i) as [e|] eqn:En.
    2:{ inversion H; subst. split; [exact HI|]. split; [apply ext_refl|]. intros a He. discriminate. }
    destruct (entry_value f d st e) as [st1 r1] eqn:E1.
    destruct (entry_value_ok _ _ _ _ _ _ HI E1) as (I1 & X1 & P1).
    destruct r1 as [[v tr]| |].
    2:{ inversion H; subst. split; [exact I1|]. split; [exact X1|]. intros a He. discriminate. }
    2:{ inversion H; subst. split; [exact I1|]. split; [exact X1|]. intros a He. discriminate. }
    destruct (P1 _ _ eq_refl) as (f1 & pv & Hp1 & Hv1).
    destruct y as [y'|].
    + destruct v as [|g|a0].
      * inversion H; subst. split; [exact I1|]. split; [exact X1|]. intros a He. inversion He; subst.
        destruct pv; simpl in Hv1; try contradiction. exists f1. simpl. rewrite Ef, En, Hp1. reflexivity.
      * destruct pv as [|m|b]; simpl in Hv1; try contradiction.
        destruct (scope_of f d st1 g) as [st2 r2] eqn:E2.
        destruct (scope_of_ok d f _ _ _ _ _ I1 Hv1 E2) as (I2 & X2 & R2 & P2).
        destruct r2 as [es'| |].
        2:{ inversion H; subst. split; [exact I2|]. split; [eapply ext_trans; eauto|]. intros a He. discriminate. }
        2:{ inversion H; subst. split; [exact I2|]. split; [eapply ext_trans; eauto|]. intros a He. discriminate. }
        destruct (P2 _ eq_refl) as [[f2 Hf2] [c2 Hs2]].
        pose proof (Inv_kle d _ _ X2 I2) as K12.
        destruct (find_last y' es') as [j|] eqn:Ej.
        2:{ inversion H; subst. split; [exact I2|]. split; [eapply ext_trans; eauto|].
            intros a He. inversion He; subst. exists (Nat.max f1 f2). simpl. rewrite Ef, En.
            assert (L1 : f1 <= Nat.max f1 f2) by lia. assert (L2 : f2 <= Nat.max f1 f2) by lia.
            rewrite (pentry_value_mono K12 _ L1 Hp1).
            rewrite (pscope_mono (kle_refl _) m L2 Hf2). rewrite Ej. reflexivity. }
        destruct (chase f d st2 (RName g j) []) as [st3 r3] eqn:E3.
        assert (Hm3 : ref_match st2 (RName g j) (PName m j)).
        { simpl. split; [apply (ext_mc _ _ X2); exact Hv1 |]. split; [reflexivity | eauto]. }
        destruct (chase_ok _ _ _ _ _ _ _ _ I2 Hm3 E3) as (I3 & X3 & P3).
        destruct r3 as [[v' tr']| |].
        2:{ inversion H; subst. split; [exact I3|]. split; [eapply ext_trans; [exact X1|eapply ext_trans; eauto]|].
            intros a He. discriminate. }
        2:{ inversion H; subst. split; [exact I3|]. split; [eapply ext_trans; [exact X1|eapply ext_trans; eauto]|].
            intros a He. discriminate. }
        destruct (P3 _ _ eq_refl) as (f3 & pv' & Hp3 & Hv3).
        destruct (attrs_of f d st3 v') as [st4 r4] eqn:E4.
        destruct (attrs_of_ok _ _ _ _ _ _ _ I3 Hv3 E4) as (I4 & X4 & P4).
        apply lift_names_inv in H. destruct H as [-> Hr].
        assert (X : ext st st4).
        { eapply ext_trans; [exact X1|]. eapply ext_trans; [exact X2|]. eapply ext_trans; eauto. }
        split; [exact I4|]. split; [exact X|].
        intros a He. destruct r4 as [l| |]; subst; try discriminate. inversion He; subst.
        destruct (P4 _ eq_refl) as [f4 Hf4].
        pose proof (Inv_kle d _ _ (ext_trans _ _ _ X2 (ext_trans _ _ _ X3 X4)) I4) as K14.
        pose proof (Inv_kle d _ _ (ext_trans _ _ _ X3 X4) I4) as K24.
        pose proof (Inv_kle d _ _ X4 I4) as K34.
        set (F := Nat.max (Nat.max f1 f2) (Nat.max f3 f4)).
        assert (L1 : f1 <= F) by (unfold F; lia). assert (L2 : f2 <= F) by (unfold F; lia).
        assert (L3 : f3 <= F) by (unfold F; lia). assert (L4 : f4 <= F) by (unfold F; lia).
        exists F. simpl. rewrite Ef, En.
        rewrite (pentry_value_mono K14 _ L1 Hp1).
        rewrite (pscope_mono K24 m L2 Hf2). rewrite Ej.
        rewrite (pchase_mono K34 _ _ L3 Hp3).
        rewrite (pattrs_mono (kle_refl _) _ L4 Hf4). reflexivity.
      * inversion H; subst. split; [exact I1|]. split; [exact X1|]. intros a He. inversion He; subst.
        destruct pv; simpl in Hv1; try contradiction. exists f1. simpl. rewrite Ef, En, Hp1. reflexivity.
    + destruct (attrs_of f d st1 v) as [st2 r2] eqn:E2.
      destruct (attrs_of_ok _ _ _ _ _ _ _ I1 Hv1 E2) as (I2 & X2 & P2).
      apply lift_names_inv in H. destruct H as [-> Hr].
      split; [exact I2|]. split; [eapply ext_trans; eauto|].
      intros a He. destruct r2 as [l| |]; subst; try discriminate. inversion He; subst.
      destruct (P2 _ eq_refl) as [f2 Hf2].
      pose proof (Inv_kle d _ _ X2 I2) as K12.
      assert (L1 : f1 <= Nat.max f1 f2) by lia. assert (L2 : f2 <= Nat.max f1 f2) by lia.
      exists (Nat.max f1 f2). simpl. rewrite Ef, En.
      rewrite (pentry_value_mono K12 _ L1 Hp1).
      rewrite (pattrs_mono (kle_refl _) _ L2 Hf2). reflexivity.
  - (* QLoc *)
    destruct (find_last x es) as [i|] eqn:Ef.
    2:{ inversion H; subst. split; [exact HI|]. split; [apply ext_refl|]. intros a He. inversion He; subst.
        exists 0. simpl. rewrite Ef. reflexivity. }
    destruct (nth_error es i) as [e|] eqn:En.
    2:{ inversion H; subst. split; [exact HI|]. split; [apply ext_refl|]. intros a He. discriminate. }
    destruct (entry_value f d st e) as [st1 r1] eqn:E1.
    destruct (entry_value_ok _ _ _ _ _ _ HI E1) as (I1 & X1 & P1).
    destruct r1 as [[v tr]| |]; inversion H; subst; (split; [exact I1|]; split; [exact X1|]);
      intros a He; inversion He; subst.
    destruct (P1 _ _ eq_refl) as (f1 & pv & Hp1 & Hv1).
    exists f1. simpl. rewrite Ef, En, Hp1. reflexivity.
Qed.

Lemma serve_ok : forall d f st rq st' r,
  Inv d st -> serve f d st rq = (st', r) ->
  Inv d st' /\ ext st st' /\ forall a, r = Ok a -> exists f', panswer (know_st st') d f' rq = Some a.
Proof.
  intros d f st rq st' r HI H. destruct rq as [c q|m|c m]; simpl in H.
  3:{ destruct (expand d (scope_of f d) st c first_line) as [st1 r1] eqn:E1.
      destruct (expand_ok _ _ (scope_of_ok d f) _ _ _ _ _ HI E1) as (I1 & X1 & R1 & P1).
      destruct r1 as [es| |].
      2:{ inversion H; subst. split; [exact I1|]. split; [exact X1|]. intros a He. discriminate. }
      2:{ inversion H; subst. split; [exact I1|]. split; [exact X1|]. intros a He. discriminate. }
      destruct (P1 _ eq_refl) as [f1 Hf1].
      destruct (get_module d st1 m) as [st2 og] eqn:E2.
      destruct (get_module_ok _ _ _ _ _ I1 E2) as (I2 & X2 & R2 & P2).
      inversion H; subst. split; [exact I2|]. split; [eapply ext_trans; eauto|].
      intros a He. inversion He; subst.
      pose proof (Inv_kle d _ _ X2 I2) as K12.
      exists f1. cbn [panswer].
      rewrite (@pexpand_mono _ _ (pscope (know_st st1) f1) (pscope (know_st st') f1)
                 K12 (fun m0 es0 H0 => pscope_mono K12 m0 (Nat.le_refl f1) H0) _ _ _ Hf1).
      destruct og as [g|].
      - rewrite (know_ex_cached _ _ _ P2). reflexivity.
      - rewrite P2. reflexivity. }
  - destruct (expand d (scope_of f d) st c first_line) as [st1 r1] eqn:E1.
    destruct (expand_ok _ _ (scope_of_ok d f) _ _ _ _ _ HI E1) as (I1 & X1 & R1 & P1).
    destruct r1 as [es| |].
    2:{ inversion H; subst. split; [exact I1|]. split; [exact X1|]. intros a He. discriminate. }
    2:{ inversion H; subst. split; [exact I1|]. split; [exact X1|]. intros a He. discriminate. }
    destruct (P1 _ eq_refl) as [f1 Hf1].
    destruct (query_ok _ _ _ _ _ _ _ I1 H) as (I2 & X2 & P2).
    split; [exact I2|]. split; [eapply ext_trans; eauto|].
    intros a He. destruct (P2 _ He) as [f2 Hf2].
    pose proof (Inv_kle d _ _ X2 I2) as K12.
    assert (L1 : f1 <= Nat.max f1 f2) by lia. assert (L2 : f2 <= Nat.max f1 f2) by lia.
    exists (Nat.max f1 f2). simpl.
    rewrite (@pexpand_mono _ _ (pscope (know_st st1) f1) (pscope (know_st st') (Nat.max f1 f2))
               K12 (fun m es H => pscope_mono K12 m L1 H) _ _ _ Hf1).
    eapply pquery_mono; [apply kle_refl | exact L2 | exact Hf2].
  - destruct (get_module d st m) as [st1 og] eqn:E1.
    destruct (get_module_ok _ _ _ _ _ HI E1) as (I1 & X1 & R1 & P1).
    destruct og as [g|].
    + destruct (scope_of f d st1 g) as [st2 r2] eqn:E2.
      destruct (scope_of_ok d f _ _ _ _ _ I1 P1 E2) as (I2 & X2 & R2 & P2).
      destruct r2 as [es| |]; inversion H; subst; (split; [exact I2|]; split; [eapply ext_trans; eauto|]);
        intros a He; inversion He; subst.
      destruct (P2 _ eq_refl) as [[f2 Hf2] _]. exists f2. cbn [panswer].
      rewrite (know_ex_cached _ _ _ (ext_mc _ _ X2 _ _ P1)). rewrite Hf2. reflexivity.
    + inversion H; subst. split; [exact I1|]. split; [exact X1|].
      intros a He. inversion He; subst. exists 0. cbn [panswer]. rewrite P1. reflexivity.
Qed.

(* ---------------------------------------------------------------------------------------------
   histories: check_changes (repaired) establishes the invariant, requests preserve it
   --------------------------------------------------------------------------------------------- *)

Definition mtimes_le (d : disk) (clk : mtime) : Prop :=
  forall m t c, dlookup d m = Some (t, c) -> (t <= clk)%N.

(* between requests: a cached module is still on disk, not newer than the disk, and if its mtime
   is the one on disk then so is the text it was analysed from (every edit changes the mtime) *)
Definition weak (d : disk) (st : state) : Prop :=
  forall m g t, mc st m = Some g -> ob st g = Some (m, t) ->
    exists t' c, dlookup d m = Some (t', c) /\ (t <= t')%N /\
      (t = t' -> forall c' es, sc st g = Some (c', es) -> c' = c).

Lemma alookup_In_mod : forall V (l : list (modname * V)) m v, alookup mod_eqb l m = Some v -> In (m, v) l.
Proof.
  induction l as [|[k w] l IH]; intros m v H; simpl in H; [discriminate|].
  destruct (mod_eqb k m) eqn:E.
  - apply mod_eqb_eq in E. inversion H; subst. left. reflexivity.
  - right. apply IH. exact H.
Qed.

Lemma existsb_false : forall A (p : A -> bool) l x, existsb p l = false -> In x l -> p x = false.
Proof.
  intros A p l x H Hin. destruct (p x) eqn:E; [|reflexivity].
  assert (existsb p l = true) by (apply existsb_exists; eauto). congruence.
Qed.

Lemma check_ok : forall d st, wf st -> weak d st -> Inv d (check_changes Repaired d st).
Proof.
  intros d st W Wk. unfold check_changes.
  destruct (existsb (fun kv => gen_changed d st (snd kv)) (mcache st)
            || existsb (fun m => match dlookup d m with Some _ => true | None => false end) (failed st)) eqn:Eb.
  - (* something changed: forget everything *)
    split.
    + constructor; simpl; try discriminate.
      * apply (wf_fo _ W).
      * apply (wf_fs _ W).
      * apply (wf_fr _ W).
    + constructor; simpl; [discriminate | contradiction].
  - apply orb_false_iff in Eb. destruct Eb as [Eb1 Eb2].
    assert (A : agree d st).
    { constructor.
      - intros m g t Hm Ho. destruct (Wk _ _ _ Hm Ho) as (t' & c & Hd & Hle & Hc).
        pose proof (existsb_false _ _ _ _ Eb1 (alookup_In_mod _ _ _ _ Hm)) as Hch. simpl in Hch.
        unfold gen_changed in Hch. rewrite Ho in Hch. unfold changed in Hch. simpl in Hch.
        rewrite Hd in Hch. apply negb_false_iff in Hch. apply N.eqb_eq in Hch. subst t'.
        exists c. split; [exact Hd | apply Hc; reflexivity].
      - intros m Hin. pose proof (existsb_false _ _ _ _ Eb2 Hin) as Hf. simpl in Hf.
        destruct (dlookup d m); [discriminate|reflexivity]. }
    split.
    + constructor; simpl.
      * apply (wf_obj _ W).
      * apply (wf_scope _ W).
      * apply (wf_ref _ W).
      * discriminate.
      * apply (wf_fo _ W).
      * apply (wf_fs _ W).
      * apply (wf_fr _ W).
    + constructor; [apply (ag_obj _ _ A) | apply (ag_failed _ _ A)].
Qed.

Lemma Inv_weak : forall d st, Inv d st -> weak d st.
Proof.
  intros d st [W A] m g t Hm Ho. destruct (ag_obj _ _ A _ _ _ Hm Ho) as [c [Hd Hc]].
  exists t, c. split; [exact Hd|]. split; [apply N.le_refl|]. intros _. exact Hc.
Qed.

Lemma dlookup_set_file : forall d m v m',
  dlookup (set_file d m v) m' = if mod_eqb m m' then Some v else dlookup d m'.
Proof.
  intros d m v m'. unfold dlookup, set_file. simpl. destruct (mod_eqb m m') eqn:E; [reflexivity|].
  rewrite alookup_aremove_mod. rewrite E. reflexivity.
Qed.

Lemma weak_write : forall d st clk m c,
  weak d st -> mtimes_le d clk ->
  weak (set_file d m (N.succ clk, c)) st /\ mtimes_le (set_file d m (N.succ clk, c)) (N.succ clk).
Proof.
  intros d st clk m c Wk Hle. split.
  - intros m0 g t Hm Ho. destruct (Wk _ _ _ Hm Ho) as (t' & c' & Hd & Hl & Hc).
    rewrite dlookup_set_file. destruct (mod_eqb m m0) eqn:E.
    + apply mod_eqb_eq in E. subst m0. pose proof (Hle _ _ _ Hd) as Hle'.
      exists (N.succ clk), c. split; [reflexivity|]. split; [lia|]. intros Heq. lia.
    + exists t', c'. auto.
  - intros m0 t c0 H. rewrite dlookup_set_file in H. destruct (mod_eqb m m0).
    + inversion H; subst. apply N.le_refl.
    + apply Hle in H. lia.
Qed.

Definition good (w : world) : Prop :=
  wf (w_state w) /\ weak (w_disk w) (w_state w) /\ mtimes_le (w_disk w) (w_clock w).

Definition sound_obs (o : obs) : Prop :=
  match o with
  | (d, rq, r) => forall a, r = Ok a -> exists f', ref_answer f' d rq = Some a
  end.

Lemma request_sound : forall d f st rq st' r,
  wf st -> weak d st -> request Repaired f d st rq = (st', r) ->
  Inv d st' /\ forall a, r = Ok a -> exists f', ref_answer f' d rq = Some a.
Proof.
  intros d f st rq st' r W Wk H. unfold request in H.
  pose proof (check_ok d st W Wk) as I0.
  destruct (serve_ok _ _ _ _ _ _ I0 H) as (I1 & X1 & P1).
  split; [exact I1|]. intros a He. destruct (P1 _ He) as [f' Hf']. exists f'. unfold ref_answer.
  destruct I1 as [W1 A1].
  eapply panswer_mono; [apply (agree_kle d st' W1 A1) | apply Nat.le_refl | exact Hf'].
Qed.

Lemma step_good : forall f w o w' os,
  good w -> step Repaired f w o = (w', os) -> good w' /\ Forall sound_obs os.
Proof.
  intros f w o w' os (W & Wk & Hle) H. destruct o as [m c|m|rq]; simpl in H.
  - inversion H; subst. split; [|constructor]. unfold good. simpl.
    destruct (weak_write (w_disk w) (w_state w) (w_clock w) m c Wk Hle) as [A B]. auto.
  - destruct (dlookup (w_disk w) m) as [[t0 c0]|] eqn:Hd.
    + inversion H; subst. split; [|constructor]. unfold good. simpl.
      destruct (weak_write (w_disk w) (w_state w) (w_clock w) m c0 Wk Hle) as [A B]. auto.
    + inversion H; subst. split; [|constructor]. unfold good. auto.
  - destruct (request Repaired f (w_disk w) (w_state w) rq) as [st' a] eqn:Er.
    destruct (request_sound _ _ _ _ _ _ W Wk Er) as [I1 P1].
    inversion H; subst. split.
    + unfold good. simpl. destruct I1 as [W1 A1]. split; [exact W1|]. split; [|exact Hle].
      apply Inv_weak. split; auto.
    + constructor; [|constructor]. exact P1.
Qed.

Lemma run_good : forall f ops w w' os,
  good w -> run Repaired f w ops = (w', os) -> good w' /\ Forall sound_obs os.
Proof.
  intros f. induction ops as [|o ops IH]; intros w w' os G H; simpl in H.
  - inversion H; subst. split; [exact G|constructor].
  - destruct (step Repaired f w o) as [w1 o1] eqn:E1.
    destruct (run Repaired f w1 ops) as [w2 o2] eqn:E2.
    inversion H; subst.
    destruct (step_good _ _ _ _ _ G E1) as [G1 F1].
    destruct (IH _ _ _ G1 E2) as [G2 F2].
    split; [exact G2|]. apply Forall_app. split; assumption.
Qed.

Lemma wf_empty : wf empty_state.
Proof. constructor; simpl; intros; discriminate. Qed.

Lemma good_init : good init_world.
Proof.
  split; [exact wf_empty|]. split.
  - intros m g t H. discriminate.
  - intros m t c H. discriminate.
Qed.

(* the answer of a brand-new project is the reference answer too *)
Lemma fresh_sound : forall f d rq a, fresh f d rq = Ok a -> exists f', ref_answer f' d rq = Some a.
Proof.
  intros f d rq a H. unfold fresh in H.
  destruct (request Repaired f d empty_state rq) as [st' r] eqn:Er. simpl in H. subst r.
  assert (Wk : weak d empty_state) by (intros m g t Hm; discriminate).
  destruct (request_sound _ _ _ _ _ _ wf_empty Wk Er) as [_ P]. apply P. reflexivity.
Qed.

(* main theorems *)
Theorem cache_transparent : forall f ops d rq a,
  In (d, rq, Ok a) (snd (run Repaired f init_world ops)) ->
  exists f', ref_answer f' d rq = Some a.
Proof.
  intros f ops d rq a Hin.
  destruct (run Repaired f init_world ops) as [w' os] eqn:E. simpl in Hin.
  destruct (run_good _ _ _ _ _ good_init E) as [_ F].
  rewrite Forall_forall in F. apply (F _ Hin a eq_refl).
Qed.

Theorem long_equals_fresh : forall f ops d rq a f2 a2,
  In (d, rq, Ok a) (snd (run Repaired f init_world ops)) ->
  fresh f2 d rq = Ok a2 -> a = a2.
Proof.
  intros f ops d rq a f2 a2 Hin Hf.
  destruct (cache_transparent _ _ _ _ _ Hin) as [f1 H1].
  destruct (fresh_sound _ _ _ _ Hf) as [f3 H3].
  eapply ref_answer_deterministic; eauto.
Qed.

(* the invariant itself: established by check_changes, preserved by serving a request *)
Theorem invariant_established : forall d st, wf st -> weak d st -> Inv d (check_changes Repaired d st).
Proof. exact check_ok. Qed.

Theorem invariant_preserved : forall d f st rq st' r, Inv d st -> serve f d st rq = (st', r) -> Inv d st'.
Proof. intros d f st rq st' r HI H. destruct (serve_ok _ _ _ _ _ _ HI H) as [I1 _]. exact I1. Qed.

Theorem invariant_meaning : forall d st, Inv d st -> kle (know_st st) (know_disk d).
Proof. intros d st [W A]. apply agree_kle; assumption. Qed.

(* ---------------------------------------------------------------------------------------------
   the pinned policy (re-stat only the module being asked for) is not transparent: F23
   --------------------------------------------------------------------------------------------- *)

(* a: from b import *      b: from c import C as B      c: class C: old  ->  class C: new *)
Definition f23_req : req := ReqMain [BStar [1%N]] (QAttrs 11%N None).
Definition f23_history : list op :=
  [Write [3%N] [BDef 10%N [20%N]]; Write [2%N] [BFrom 11%N [3%N] 10%N]; Write [1%N] [BStar [2%N]];
   Request f23_req; Write [3%N] [BDef 10%N [21%N]]; Request f23_req].

(* b: from z import X, z does not exist at the first request and is created afterwards *)
Definition f23_neg_req : req := ReqMain [BImport 1%N [2%N]] (QAttrs 1%N (Some 12%N)).
Definition f23_neg_history : list op :=
  [Write [2%N] [BFrom 12%N [6%N] 12%N]; Request f23_neg_req; Write [6%N] [BDef 12%N [24%N]]; Request f23_neg_req].

Definition stale_obs (p : policy) (f : nat) (ops : list op) : bool :=
  existsb (fun o => match o with
                    | (d, rq, r) => negb (ans_matches r match fresh f d rq with Ok a => a | _ => AImportError end)
                    end)
          (snd (run p f init_world ops)).

Lemma as_is_refuted : exists f ops d rq a a',
  In (d, rq, Ok a) (snd (run AsIs f init_world ops)) /\ fresh f d rq = Ok a' /\ a <> a'.
Proof.
  exists 10, f23_history.
  eexists. exists f23_req, (ANames [20%N]), (ANames [21%N]).
  split; [|split].
  - vm_compute. right. left. reflexivity.
  - vm_compute. reflexivity.
  - discriminate.
Qed.

Lemma as_is_refuted_created : exists f ops d rq a a',
  In (d, rq, Ok a) (snd (run AsIs f init_world ops)) /\ fresh f d rq = Ok a' /\ a <> a'.
Proof.
  exists 10, f23_neg_history.
  eexists. exists f23_neg_req, (ANames []), (ANames [24%N]).
  split; [|split].
  - vm_compute. right. left. reflexivity.
  - vm_compute. reflexivity.
  - discriminate.
Qed.

(* ---------------------------------------------------------------------------------------------
   completeness: with the fuel on which the reference is defined, the long-lived project answers
   (no Err, no OOF), hence - by soundness - exactly the reference answer
   --------------------------------------------------------------------------------------------- *)

Lemma Inv_kd : forall d st, Inv d st -> kle (know_st st) (know_disk d).
Proof. intros d st [W A]. apply agree_kle; assumption. Qed.

Lemma SC_unique : forall d st m es es' f,
  Inv d st -> SC (know_st st) m es -> pscope (know_disk d) f m = Some es' -> es = es'.
Proof.
  intros d st m es es' f HI [f0 H0] H.
  pose proof (pscope_mono (Inv_kd d st HI) m (Nat.le_max_l f0 f) H0) as A.
  pose proof (pscope_mono (kle_refl _) m (Nat.le_max_r f0 f) H) as B. congruence.
Qed.

Lemma get_module_disk : forall d st m st' og,
  Inv d st -> get_module d st m = (st', og) ->
  k_ex (know_disk d) m = Some (match og with Some _ => true | None => false end).
Proof.
  intros d st m st' og HI H. destruct (get_module_ok _ _ _ _ _ HI H) as (I1 & _ & _ & P1).
  destruct (Inv_kd d st' I1) as [Hex _]. destruct og as [g|].
  - apply Hex. eapply know_ex_cached; eauto.
  - apply Hex. exact P1.
Qed.

Definition rec_complete (d : disk) (rec : state -> gen -> state * res (list entry))
           (prec : modname -> option (list entry)) : Prop :=
  forall st g m es, Inv d st -> mc st m = Some g -> prec m = Some es ->
    exists st', rec st g = (st', Ok es).

Lemma expand_complete : forall d rec prec, rec_ok d rec -> rec_complete d rec prec ->
  forall c ln st es, Inv d st -> pexpand (know_disk d) prec c ln = Some es ->
  exists st', expand d rec st c ln = (st', Ok es).
Proof.
  intros d rec prec Hok Hc. induction c as [|b c IH]; intros ln st es HI H.
  - simpl in H. inversion H; subst. exists st. reflexivity.
  - assert (Plain : forall e0,
      match pexpand (know_disk d) prec c (S ln) with None => None | Some es0 => Some (e0 :: es0) end = Some es ->
      exists st', (let '(st1, r0) := expand d rec st c (S ln) in
                   match r0 with Ok es1 => (st1, Ok (e0 :: es1)) | OOF => (st1, OOF) | Err => (st1, Err) end)
                  = (st', Ok es)).
    { intros e0 H0. destruct (pexpand (know_disk d) prec c (S ln)) as [es0|] eqn:E; [|discriminate].
      inversion H0; subst. destruct (IH _ _ _ HI E) as [st1 E1]. rewrite E1. eauto. }
    destruct b as [n a|n m|n m x|m']; cbn [pexpand] in H; cbn [expand].
    1-3: exact (Plain _ H).
    clear Plain. destruct (get_module d st m') as [st1 og] eqn:Eg.
    pose proof (get_module_disk _ _ _ _ _ HI Eg) as Hk. rewrite Hk in H.
    destruct (get_module_ok _ _ _ _ _ HI Eg) as (I1 & X1 & R1 & P1).
    destruct og as [g'|].
    + destruct (prec m') as [es'|] eqn:Ep; [|discriminate].
      destruct (pexpand (know_disk d) prec c (S ln)) as [es3|] eqn:E3; [|discriminate].
      inversion H; subst.
      destruct (Hc _ _ _ _ I1 P1 Ep) as [st2 E2]. rewrite E2.
      destruct (Hok _ _ _ _ _ I1 P1 E2) as (I2 & _).
      destruct (IH _ _ _ I2 E3) as [st3 E3']. rewrite E3'. eauto.
    + apply IH; assumption.
Qed.

Lemma scope_of_complete : forall d f, rec_complete d (scope_of f d) (pscope (know_disk d) f).
Proof.
  intros d. induction f as [|f IH]; intros st g m es HI Hm H; [discriminate|].
  cbn [scope_of]. destruct HI as [W A].
  destruct (sc st g) as [[c0 es0]|] eqn:Es.
  - exists st. f_equal. f_equal. eapply SC_unique; [split; eauto | eapply wf_scope; eauto | exact H].
  - destruct (wf_obj _ W _ _ Hm) as [t Ho]. rewrite Ho.
    destruct (ag_obj _ _ A _ _ _ Hm Ho) as [c [Hd _]]. rewrite Hd.
    simpl in H. rewrite Hd in H. simpl in H.
    destruct (expand_complete d _ _ (scope_of_ok d f) IH c first_line st es (conj W A) H) as [st1 E1].
    rewrite E1.
    destruct (expand_ok _ _ (scope_of_ok d f) _ _ _ _ _ (conj W A) E1) as (I1 & X1 & _).
    destruct (sc st1 g) as [[c2 es2]|] eqn:Es1.
    + exists st1. f_equal. f_equal. destruct I1 as [W1 A1].
      eapply SC_unique with (f := S f); [split; eauto | eapply wf_scope; eauto; apply (ext_mc _ _ X1); exact Hm |].
      simpl. rewrite Hd. simpl. exact H.
    + eauto.
Qed.

Lemma scope_of_total : forall d f st g m es,
  Inv d st -> mc st m = Some g -> pscope (know_disk d) f m = Some es ->
  exists st', scope_of f d st g = (st', Ok es) /\ Inv d st' /\ ext st st' /\ refs st' = refs st /\
              exists c, sc st' g = Some (c, es).
Proof.
  intros d f st g m es HI Hm H. destruct (scope_of_complete d f _ _ _ _ HI Hm H) as [st' E].
  destruct (scope_of_ok d f _ _ _ _ _ HI Hm E) as (I1 & X1 & R1 & P1).
  exists st'. split; [exact E|]. split; [exact I1|]. split; [exact X1|]. split; [exact R1|].
  apply P1. reflexivity.
Qed.

Lemma presolve_unique : forall d st k f f' pr pr',
  Inv d st -> presolve (know_st st) f k = Some pr -> presolve (know_disk d) f' k = Some pr' -> pr = pr'.
Proof.
  intros d st k f f' pr pr' HI H H'.
  pose proof (presolve_mono (Inv_kd d st HI) k (Nat.le_max_l f f') H) as A.
  pose proof (presolve_mono (kle_refl _) k (Nat.le_max_r f f') H') as B. congruence.
Qed.

Lemma resolve_kind_complete : forall d f st k pr,
  Inv d st -> presolve (know_disk d) f k = Some pr ->
  exists st' rr, resolve_kind f d st k = (st', Ok rr) /\ Inv d st' /\ ext st st' /\ refs st' = refs st /\
                 ref_match st' rr pr /\ exists f', presolve (know_st st') f' k = Some pr.
Proof.
  intros d f st k pr HI H.
  assert (Fin : forall st' rr, resolve_kind f d st k = (st', Ok rr) ->
            exists st'0 rr0, (st', Ok rr) = (st'0, Ok rr0) /\ Inv d st'0 /\ ext st st'0 /\ refs st'0 = refs st /\
                             ref_match st'0 rr0 pr /\ exists f', presolve (know_st st'0) f' k = Some pr).
  { intros st' rr E. destruct (resolve_kind_ok _ _ _ _ _ _ HI E) as (I1 & X1 & R1 & P1).
    destruct (P1 _ eq_refl) as (f1 & pr1 & Hp1 & Hm1).
    assert (pr1 = pr) by (eapply presolve_unique; eauto). subst pr1.
    exists st', rr. split; [reflexivity|]. split; [exact I1|]. split; [exact X1|]. split; [exact R1|].
    split; [exact Hm1|]. exists f1. exact Hp1. }
  destruct k as [a|m [x|]]; unfold presolve in H; cbn [resolve_kind] in *.
  - apply Fin. reflexivity.
  - destruct (get_module d st (m ++ [x])) as [st1 og] eqn:E1.
    pose proof (get_module_disk _ _ _ _ _ HI E1) as Hk1. rewrite Hk1 in H.
    destruct (get_module_ok _ _ _ _ _ HI E1) as (I1 & X1 & R1 & P1).
    destruct og as [g|]; [apply Fin; reflexivity|].
    destruct (get_module d st1 m) as [st2 og2] eqn:E2.
    pose proof (get_module_disk _ _ _ _ _ I1 E2) as Hk2. rewrite Hk2 in H.
    destruct (get_module_ok _ _ _ _ _ I1 E2) as (I2 & X2 & R2 & P2).
    destruct og2 as [g|]; [|apply Fin; reflexivity].
    destruct (pscope (know_disk d) f m) as [es|] eqn:Es; [|discriminate].
    destruct (scope_of_total d f _ _ _ _ I2 P2 Es) as (st3 & E3 & _).
    rewrite E3 in Fin |- *. apply Fin. reflexivity.
  - destruct (get_module d st m) as [st1 og] eqn:E1. apply Fin. reflexivity.
Qed.

Lemma resolve_at_complete : forall d f st g i m c es e pr,
  Inv d st -> mc st m = Some g -> sc st g = Some (c, es) -> nth_error es i = Some e ->
  presolve (know_disk d) f (e_kind e) = Some pr ->
  exists st' rr, resolve_at f d st g i (e_kind e) = (st', Ok rr) /\ Inv d st' /\ ext st st' /\
                 ref_match st' rr pr.
Proof.
  intros d f st g i m c es e pr HI Hm Hs Hn H.
  assert (Fin : forall st' rr, resolve_at f d st g i (e_kind e) = (st', Ok rr) ->
            exists st'0 rr0, (st', Ok rr) = (st'0, Ok rr0) /\ Inv d st'0 /\ ext st st'0 /\ ref_match st'0 rr0 pr).
  { intros st' rr E. destruct (resolve_at_ok _ _ _ _ _ _ _ _ _ _ _ HI Hm Hs Hn E) as (I1 & X1 & P1).
    destruct (P1 _ eq_refl) as (f1 & pr1 & Hp1 & Hm1).
    assert (pr1 = pr) by (eapply presolve_unique; eauto). subst pr1.
    exists st', rr. split; [reflexivity|]. split; [exact I1|]. split; [exact X1|]. exact Hm1. }
  unfold resolve_at in *. destruct (rf st g i) as [r0|] eqn:Er.
  - apply Fin. reflexivity.
  - destruct (resolve_kind_complete d f st (e_kind e) pr HI H) as (st1 & rr & E1 & _).
    rewrite E1 in Fin |- *. apply Fin. reflexivity.
Qed.

Lemma pchase_unique : forall d st f f' pr tr x y,
  Inv d st -> pchase (know_st st) f pr tr = Some x -> pchase (know_disk d) f' pr tr = Some y -> x = y.
Proof.
  intros d st f f' pr tr x y HI H H'.
  pose proof (pchase_mono (Inv_kd d st HI) pr tr (Nat.le_max_l f f') H) as A.
  pose proof (pchase_mono (kle_refl _) pr tr (Nat.le_max_r f f') H') as B. congruence.
Qed.

Lemma val_match_fun : forall st v pv pv', val_match st v pv -> pv = pv' -> val_match st v pv'.
Proof. intros; subst; assumption. Qed.

Lemma chase_complete : forall d f st r tr pr pv tr',
  Inv d st -> ref_match st r pr -> pchase (know_disk d) f pr tr = Some (pv, tr') ->
  exists st' v, chase f d st r tr = (st', Ok (v, tr')) /\ Inv d st' /\ ext st st' /\ val_match st' v pv.
Proof.
  intros d. induction f as [|f IH]; intros st r tr pr pv tr' HI Hmatch H; [discriminate|].
  assert (Fin : forall st' v tr1, chase (S f) d st r tr = (st', Ok (v, tr1)) ->
            exists st'0 v0, (st', Ok (v, tr1)) = (st'0, Ok (v0, tr')) /\ Inv d st'0 /\ ext st st'0 /\ val_match st'0 v0 pv).
  { intros st' v tr1 E. destruct (chase_ok _ _ _ _ _ _ _ _ HI Hmatch E) as (I1 & X1 & P1).
    destruct (P1 _ _ eq_refl) as (f1 & pv1 & Hp1 & Hv1).
    assert (Heq : (pv1, tr1) = (pv, tr')) by (eapply pchase_unique; eauto). inversion Heq; subst.
    exists st', v. split; [reflexivity|]. split; [exact I1|]. split; [exact X1|]. exact Hv1. }
  cbn [chase] in *. cbn [pchase] in H. destruct r as [|g|g i].
  - eapply Fin. reflexivity.
  - destruct pr as [|m|m j]; simpl in Hmatch; try contradiction.
    destruct HI as [W A]. destruct (wf_obj _ W _ _ Hmatch) as [t Ho]. rewrite Ho in Fin |- *.
    eapply Fin. reflexivity.
  - destruct pr as [|m|m j]; simpl in Hmatch; try contradiction.
    destruct Hmatch as (Hm & <- & c & es & Hs).
    pose proof HI as [W A]. destruct (wf_obj _ W _ _ Hm) as [t Ho]. rewrite Ho, Hs in Fin |- *.
    destruct (pscope (know_disk d) f m) as [es0|] eqn:Es0; [|discriminate].
    assert (es = es0) by (eapply SC_unique; [exact HI | eapply wf_scope; eauto | exact Es0]). subst es0.
    destruct (nth_error es i) as [e|] eqn:En; [|discriminate].
    destruct (e_kind e) as [a|m' x] eqn:Ek.
    + eapply Fin. reflexivity.
    + destruct (presolve (know_disk d) f (KImp m' x)) as [pr'|] eqn:Ep; [|discriminate].
      rewrite <- Ek in Ep.
      destruct (resolve_at_complete d f st g i m c es e pr' HI Hm Hs En Ep) as (st1 & rr & E1 & I1 & X1 & Hm1).
      rewrite Ek in E1. rewrite E1 in Fin |- *.
      destruct (IH _ _ _ _ _ _ I1 Hm1 H) as (st2 & v & E2 & _).
      rewrite E2 in Fin |- *. eapply Fin. reflexivity.
Qed.

Lemma attrs_of_complete : forall d f st v pv l,
  Inv d st -> val_match st v pv -> pattrs (know_disk d) f pv = Some l ->
  exists st', attrs_of f d st v = (st', Ok l) /\ Inv d st' /\ ext st st'.
Proof.
  intros d f st v pv l HI Hv H. destruct v as [|g|a]; destruct pv as [|m|b]; simpl in Hv; try contradiction;
    cbn [attrs_of]; simpl in H.
  - inversion H; subst. exists st. split; [reflexivity|]. split; [exact HI|apply ext_refl].
  - destruct (pscope (know_disk d) f m) as [es|] eqn:Es; [|discriminate]. inversion H; subst.
    destruct (scope_of_total d f _ _ _ _ HI Hv Es) as (st1 & E1 & I1 & X1 & _).
    rewrite E1. exists st1. split; [reflexivity|]. split; assumption.
  - inversion H; subst. exists st. split; [reflexivity|]. split; [exact HI|apply ext_refl].
Qed.

Lemma entry_value_complete : forall d f st e pv tr,
  Inv d st -> pentry_value (know_disk d) f e = Some (pv, tr) ->
  exists st' v, entry_value f d st e = (st', Ok (v, tr)) /\ Inv d st' /\ ext st st' /\ val_match st' v pv.
Proof.
  intros d f st e pv tr HI H. unfold pentry_value in H. unfold entry_value.
  destruct (e_kind e) as [a|m x] eqn:Ek.
  - inversion H; subst. exists st, (IVClass a). split; [reflexivity|]. split; [exact HI|].
    split; [apply ext_refl|reflexivity].
  - destruct (presolve (know_disk d) f (KImp m x)) as [pr|] eqn:Ep; [|discriminate].
    destruct (resolve_kind_complete d f st _ pr HI Ep) as (st1 & rr & E1 & I1 & X1 & _ & Hm1 & _).
    rewrite E1.
    destruct (chase_complete d f _ _ _ _ _ _ I1 Hm1 H) as (st2 & v & E2 & I2 & X2 & Hv).
    rewrite E2. exists st2, v. split; [reflexivity|]. split; [exact I2|].
    split; [eapply ext_trans; eauto|exact Hv].
Qed.

Lemma query_complete : forall d f st es q a,
  Inv d st -> pquery (know_disk d) f es q = Some a ->
  exists st', query_impl f d st es q = (st', Ok a) /\ Inv d st'.
Proof.
  intros d f st es q a HI H. destruct q as [|uses|x y|x]; cbn [pquery] in H; cbn [query_impl].
  - inversion H; subst. eauto.
  - inversion H; subst. eauto.
  - destruct (find_last x es) as [i|] eqn:Ef; [|inversion H; subst; eauto].
    destruct (nth_error es i) as [e|] eqn:En; [|discriminate].
    destruct (pentry_value (know_disk d) f e) as [[pv tr]|] eqn:Ev; [|discriminate].
    destruct (entry_value_complete d f st e pv tr HI Ev) as (st1 & v & E1 & I1 & X1 & Hv1).
    rewrite E1. destruct y as [y'|].
    + destruct v as [|g|a0]; destruct pv as [|m|b]; simpl in Hv1; try contradiction.
      * inversion H; subst. eauto.
      * destruct (pscope (know_disk d) f m) as [es'|] eqn:Es; [|discriminate].
        destruct (scope_of_total d f _ _ _ _ I1 Hv1 Es) as (st2 & E2 & I2 & X2 & _ & c2 & Hs2).
        rewrite E2. destruct (find_last y' es') as [j|] eqn:Ej; [|inversion H; subst; eauto].
        destruct (pchase (know_disk d) f (PName m j) []) as [[pv' tr']|] eqn:Ec; [|discriminate].
        assert (Hm3 : ref_match st2 (RName g j) (PName m j)).
        { simpl. split; [apply (ext_mc _ _ X2); exact Hv1 |]. split; [reflexivity | eauto]. }
        destruct (chase_complete d f _ _ _ _ _ _ I2 Hm3 Ec) as (st3 & v' & E3 & I3 & X3 & Hv3).
        rewrite E3.
        destruct (pattrs (know_disk d) f pv') as [l|] eqn:Ea; [|discriminate]. inversion H; subst.
        destruct (attrs_of_complete d f _ _ _ _ I3 Hv3 Ea) as (st4 & E4 & I4 & X4).
        rewrite E4. unfold lift_names. simpl. eauto.
      * inversion H; subst. eauto.
    + destruct (pattrs (know_disk d) f pv) as [l|] eqn:Ea; [|discriminate]. inversion H; subst.
      destruct (attrs_of_complete d f _ _ _ _ I1 Hv1 Ea) as (st2 & E2 & I2 & X2).
      rewrite E2. unfold lift_names. simpl. eauto.
  - destruct (find_last x es) as [i|] eqn:Ef; [|inversion H; subst; eauto].
    destruct (nth_error es i) as [e|] eqn:En; [|discriminate].
    destruct (pentry_value (know_disk d) f e) as [[pv tr]|] eqn:Ev; [|discriminate].
    destruct (entry_value_complete d f st e pv tr HI Ev) as (st1 & v & E1 & I1 & X1 & Hv1).
    rewrite E1. simpl in H. inversion H; subst. eauto.
Qed.

Lemma serve_complete : forall d f st rq a,
  Inv d st -> ref_answer f d rq = Some a -> exists st', serve f d st rq = (st', Ok a).
Proof.
  intros d f st rq a HI H. unfold ref_answer in H. destruct rq as [c q|m|c m]; cbn [panswer] in H; cbn [serve].
  3:{ destruct (pexpand (know_disk d) (pscope (know_disk d) f) c first_line) as [es|] eqn:Ee; [|discriminate].
      destruct (expand_complete d _ _ (scope_of_ok d f) (scope_of_complete d f) c first_line st es HI Ee) as [st1 E1].
      rewrite E1.
      destruct (expand_ok _ _ (scope_of_ok d f) _ _ _ _ _ HI E1) as (I1 & _).
      destruct (get_module d st1 m) as [st2 og] eqn:E2.
      pose proof (get_module_disk _ _ _ _ _ I1 E2) as Hk. rewrite Hk in H.
      destruct og as [g|]; inversion H; subst; eauto. }
  - destruct (pexpand (know_disk d) (pscope (know_disk d) f) c first_line) as [es|] eqn:Ee; [|discriminate].
    destruct (expand_complete d _ _ (scope_of_ok d f) (scope_of_complete d f) c first_line st es HI Ee) as [st1 E1].
    rewrite E1.
    destruct (expand_ok _ _ (scope_of_ok d f) _ _ _ _ _ HI E1) as (I1 & _).
    destruct (query_complete d f st1 es q a I1 H) as (st2 & E2 & _). eauto.
  - destruct (get_module d st m) as [st1 og] eqn:E1.
    pose proof (get_module_disk _ _ _ _ _ HI E1) as Hk. rewrite Hk in H.
    destruct (get_module_ok _ _ _ _ _ HI E1) as (I1 & X1 & R1 & P1).
    destruct og as [g|].
    + destruct (pscope (know_disk d) f m) as [es|] eqn:Es; [|discriminate]. simpl in H. inversion H; subst.
      destruct (scope_of_total d f _ _ _ _ I1 P1 Es) as (st2 & E2 & _). rewrite E2. eauto.
    + inversion H; subst. eauto.
Qed.

Lemma request_complete : forall d f st rq a,
  wf st -> weak d st -> ref_answer f d rq = Some a ->
  exists st', request Repaired f d st rq = (st', Ok a).
Proof.
  intros d f st rq a W Wk H. unfold request. apply serve_complete; [|exact H]. apply check_ok; assumption.
Qed.

Definition complete_obs (f : nat) (o : obs) : Prop :=
  match o with
  | (d, rq, r) => forall a, ref_answer f d rq = Some a -> r = Ok a
  end.

Lemma step_complete : forall f w o w' os,
  good w -> step Repaired f w o = (w', os) -> Forall (complete_obs f) os.
Proof.
  intros f w o w' os (W & Wk & Hle) H. destruct o as [m c|m|rq]; simpl in H.
  - inversion H; subst. constructor.
  - destruct (dlookup (w_disk w) m) as [[t0 c0]|]; inversion H; subst; constructor.
  - destruct (request Repaired f (w_disk w) (w_state w) rq) as [st' r] eqn:Er.
    inversion H; subst. constructor; [|constructor].
    intros a Ha. destruct (request_complete _ _ _ _ _ W Wk Ha) as [st2 E2].
    rewrite E2 in Er. inversion Er; subst. reflexivity.
Qed.

Lemma run_complete : forall f ops w w' os,
  good w -> run Repaired f w ops = (w', os) -> Forall (complete_obs f) os.
Proof.
  intros f. induction ops as [|o ops IH]; intros w w' os G H; simpl in H.
  - inversion H; subst. constructor.
  - destruct (step Repaired f w o) as [w1 o1] eqn:E1.
    destruct (run Repaired f w1 ops) as [w2 o2] eqn:E2.
    inversion H; subst.
    destruct (step_good _ _ _ _ _ G E1) as [G1 _].
    apply Forall_app. split; [exact (step_complete _ _ _ _ _ G E1) | exact (IH _ _ _ G1 E2)].
Qed.

(* full strength: with the fuel on which the reference answer is defined, every request of every
   history is answered, and answered by exactly the reference answer; so is a brand-new project *)
Theorem cache_transparent_full : forall f ops d rq r a,
  In (d, rq, r) (snd (run Repaired f init_world ops)) ->
  ref_answer f d rq = Some a -> r = Ok a /\ fresh f d rq = Ok a.
Proof.
  intros f ops d rq r a Hin Ha. split.
  - destruct (run Repaired f init_world ops) as [w' os] eqn:E. simpl in Hin.
    pose proof (run_complete _ _ _ _ _ good_init E) as F. rewrite Forall_forall in F.
    apply (F _ Hin a Ha).
  - unfold fresh.
    assert (Wk : weak d empty_state) by (intros m g t Hm; discriminate).
    destruct (request_complete _ _ _ _ _ wf_empty Wk Ha) as [st' E]. rewrite E. reflexivity.
Qed.

(* ---------------------------------------------------------------------------------------------
   the stated fuel suffices: on an acyclic (ranked) disk the reference answer is defined with
   fuel R + 1, R a bound on the ranks
   --------------------------------------------------------------------------------------------- *)

Section Total.
  Variable d : disk.
  Variable rk : modname -> nat.
  Variable R : nat.
  Hypothesis Hrk : ranked d rk.
  Hypothesis HR : rank_bound d rk R.

  Let K := know_disk d.

  Lemma kd_ex : forall m, k_ex K m = Some (on_disk d m).
  Proof. reflexivity. Qed.

  Definition kind_ok (n : nat) (k : ekind) : Prop :=
    match k with
    | KDef _ => True
    | KImp m _ => on_disk d m = true -> rk m < n
    end.

  Definition targets_below (n : nat) (c : content) : Prop :=
    forall b m', In b c -> In m' (targets_of b) -> on_disk d m' = true -> rk m' < n.

  Lemma pexpand_total : forall rec n c ln,
    targets_below n c ->
    (forall m', on_disk d m' = true -> rk m' < n -> exists es, rec m' = Some es) ->
    exists es, pexpand K rec c ln = Some es /\ Forall (fun e => kind_ok n (e_kind e)) es.
  Proof.
    intros rec n. induction c as [|b c IH]; intros ln Ht Hrec.
    - exists []. split; [reflexivity|constructor].
    - assert (Ht' : targets_below n c) by (intros b0 m0 Hb; apply Ht; right; exact Hb).
      destruct (IH (S ln) Ht' Hrec) as (es & He & Hk).
      destruct b as [n0 a|n0 m|n0 m x|m']; cbn [pexpand].
      + rewrite He. eexists. split; [reflexivity|]. constructor; [exact I|exact Hk].
      + rewrite He. eexists. split; [reflexivity|]. constructor; [|exact Hk].
        simpl. intros Ho. apply (Ht (BImport n0 m) m); simpl; auto.
      + rewrite He. eexists. split; [reflexivity|]. constructor; [|exact Hk].
        simpl. intros Ho. apply (Ht (BFrom n0 m x) m); simpl; auto.
      + rewrite kd_ex. destruct (on_disk d m') eqn:Eo.
        * assert (Hlt : rk m' < n) by (apply (Ht (BStar m') m'); simpl; auto).
          destruct (Hrec m' Eo Hlt) as [es' Hes']. rewrite Hes', He. eexists. split; [reflexivity|].
          apply Forall_app. split; [|exact Hk].
          unfold star_entries. apply Forall_forall. intros e Hin. apply in_map_iff in Hin.
          destruct Hin as [x [<- _]]. simpl. intros _. exact Hlt.
        * exists es. split; [exact He|exact Hk].
  Qed.

  Lemma content_targets : forall m t c, dlookup d m = Some (t, c) -> targets_below (rk m) c.
  Proof. intros m t c Hd b m' Hb Hm' Ho. eapply Hrk; eauto. Qed.

  Lemma pscope_total : forall f m, on_disk d m = true -> rk m < f ->
    exists es, pscope K f m = Some es /\ Forall (fun e => kind_ok (rk m) (e_kind e)) es.
  Proof.
    induction f as [|f IH]; intros m Ho Hlt; [lia|].
    unfold on_disk in Ho. destruct (dlookup d m) as [[t c]|] eqn:Hd; [|discriminate].
    cbn [pscope].
    assert (Hct : k_ct K m = Some c) by (unfold K, know_disk; simpl; rewrite Hd; reflexivity).
    rewrite Hct. apply pexpand_total.
    - eapply content_targets. exact Hd.
    - intros m' Ho' Hlt'. destruct (IH m' Ho' ltac:(lia)) as (es & He & _). eauto.
  Qed.

  Lemma pscope_same : forall f f' m es es', pscope K f m = Some es -> pscope K f' m = Some es' -> es = es'.
  Proof.
    intros f f' m es es' H H'.
    pose proof (pscope_mono (kle_refl K) m (Nat.le_max_l f f') H) as A.
    pose proof (pscope_mono (kle_refl K) m (Nat.le_max_r f f') H') as B. congruence.
  Qed.

  Lemma find_last_from_lt : forall x es i acc j,
    find_last_from x es i acc = Some j -> acc = Some j \/ (i <= j < i + length es).
  Proof.
    intros x. induction es as [|e es IH]; intros i acc j H; simpl in H.
    - left. exact H.
    - apply IH in H. destruct H as [H|H].
      + destruct (N.eqb (e_name e) x).
        * inversion H; subst. right. simpl. lia.
        * left. exact H.
      + right. simpl. lia.
  Qed.

  Lemma find_last_lt : forall x es j, find_last x es = Some j -> j < length es.
  Proof.
    intros x es j H. apply find_last_from_lt in H. destruct H as [H|H]; [discriminate|lia].
  Qed.

  Definition pref_ok (n : nat) (pr : pref) : Prop :=
    match pr with
    | PNone => True
    | PMod m => on_disk d m = true
    | PName m j => on_disk d m = true /\ rk m < n /\ exists f0 es0, pscope K f0 m = Some es0 /\ j < length es0
    end.

  Lemma presolve_total : forall n f k, kind_ok n k -> n <= f ->
    exists pr, presolve K f k = Some pr /\ pref_ok n pr.
  Proof.
    intros n f k Hk Hle. destruct k as [a|m [x|]]; unfold presolve.
    - exists PNone. split; [reflexivity|exact I].
    - rewrite kd_ex. destruct (on_disk d (m ++ [x])) eqn:E1.
      + exists (PMod (m ++ [x])). split; [reflexivity|exact E1].
      + rewrite kd_ex. destruct (on_disk d m) eqn:E2.
        * simpl in Hk. specialize (Hk E2).
          destruct (pscope_total f m E2 ltac:(lia)) as (es & He & _). rewrite He.
          destruct (find_last x es) as [j|] eqn:Ef.
          -- exists (PName m j). split; [reflexivity|]. simpl. split; [exact E2|]. split; [exact Hk|].
             exists f, es. split; [exact He|]. eapply find_last_lt; eauto.
          -- exists PNone. split; [reflexivity|exact I].
        * exists PNone. split; [reflexivity|exact I].
    - rewrite kd_ex. destruct (on_disk d m) eqn:E1.
      + exists (PMod m). split; [reflexivity|exact E1].
      + exists PNone. split; [reflexivity|exact I].
  Qed.

  Definition val_ok (v : pval) : Prop :=
    match v with VMod m => on_disk d m = true | _ => True end.

  Lemma pchase_total : forall f n pr tr, pref_ok n pr -> n + 1 <= f ->
    exists v tr', pchase K f pr tr = Some (v, tr') /\ val_ok v.
  Proof.
    induction f as [|f IH]; intros n pr tr Hp Hle; [lia|].
    cbn [pchase]. destruct pr as [|m|m j]; simpl in Hp.
    - exists VNone, tr. split; [reflexivity|exact I].
    - exists (VMod m), (tr ++ [(m, module_line)]). split; [reflexivity|exact Hp].
    - destruct Hp as (Ho & Hlt & f0 & es0 & He0 & Hj).
      destruct (pscope_total f m Ho ltac:(lia)) as (es & He & Hk). rewrite He.
      assert (es0 = es) by (eapply pscope_same; eauto). subst es0.
      destruct (nth_error es j) as [e|] eqn:En; [|apply nth_error_None in En; lia].
      assert (Hke : kind_ok (rk m) (e_kind e)).
      { rewrite Forall_forall in Hk. apply Hk. eapply nth_error_In; eauto. }
      destruct (e_kind e) as [a|m' x] eqn:Ek.
      + eexists _, _. split; [reflexivity|exact I].
      + destruct (presolve_total (rk m) f (KImp m' x) Hke ltac:(lia)) as (pr' & Hp' & Hok').
        rewrite Hp'. apply (IH (rk m)); [exact Hok'|lia].
  Qed.

  Lemma pattrs_total : forall f v, val_ok v -> R <= f -> exists l, pattrs K f v = Some l.
  Proof.
    intros f v Hv Hle. destruct v as [|m|a]; simpl; eauto.
    simpl in Hv. destruct (pscope_total f m Hv ltac:(pose proof (HR m Hv); lia)) as (es & He & _).
    rewrite He. simpl. eauto.
  Qed.

  Lemma pentry_value_total : forall f e, kind_ok R (e_kind e) -> R + 1 <= f ->
    exists v tr, pentry_value K f e = Some (v, tr) /\ val_ok v.
  Proof.
    intros f e Hk Hle. unfold pentry_value. destruct (e_kind e) as [a|m x] eqn:Ek.
    - eexists _, _. split; [reflexivity|exact I].
    - destruct (presolve_total R f (KImp m x) Hk ltac:(lia)) as (pr & Hp & Hok). rewrite Hp.
      apply (pchase_total f R); assumption.
  Qed.

  Lemma pquery_total : forall f es q, Forall (fun e => kind_ok R (e_kind e)) es -> R + 1 <= f ->
    exists a, pquery K f es q = Some a.
  Proof.
    intros f es q Hk Hle. rewrite Forall_forall in Hk. destruct q as [|uses|x y|x]; cbn [pquery]; eauto.
    - destruct (find_last x es) as [i|] eqn:Ef; [|eauto].
      pose proof (find_last_lt _ _ _ Ef) as Hi.
      destruct (nth_error es i) as [e|] eqn:En; [|apply nth_error_None in En; lia].
      destruct (pentry_value_total f e (Hk _ (nth_error_In _ _ En)) Hle) as (v & tr & Hv & Hvo).
      rewrite Hv. destruct y as [y'|].
      + destruct v as [|m|a]; eauto. simpl in Hvo.
        destruct (pscope_total f m Hvo ltac:(pose proof (HR m Hvo); lia)) as (es' & He' & _). rewrite He'.
        destruct (find_last y' es') as [j|] eqn:Ej; [|eauto].
        assert (Hp : pref_ok R (PName m j)).
        { simpl. split; [exact Hvo|]. split; [apply HR; exact Hvo|]. exists f, es'. split; [exact He'|].
          eapply find_last_lt; eauto. }
        destruct (pchase_total f R (PName m j) [] Hp Hle) as (v' & tr' & Hc & Hvo').
        rewrite Hc. destruct (pattrs_total f v' Hvo' ltac:(lia)) as [l Hl]. rewrite Hl. simpl. eauto.
      + destruct (pattrs_total f v Hvo ltac:(lia)) as [l Hl]. rewrite Hl. simpl. eauto.
    - destruct (find_last x es) as [i|] eqn:Ef; [|eauto].
      pose proof (find_last_lt _ _ _ Ef) as Hi.
      destruct (nth_error es i) as [e|] eqn:En; [|apply nth_error_None in En; lia].
      destruct (pentry_value_total f e (Hk _ (nth_error_In _ _ En)) Hle) as (v & tr & Hv & Hvo).
      rewrite Hv. simpl. eauto.
  Qed.

  Theorem ref_answer_total : forall rq, exists a, ref_answer (R + 1) d rq = Some a.
  Proof.
    intros rq. unfold ref_answer. fold K. destruct rq as [c q|m|c m]; cbn [panswer].
    3:{ assert (Ht : targets_below R c) by (intros b m' _ _ Ho; apply HR; exact Ho).
        destruct (pexpand_total (pscope K (R + 1)) R c first_line Ht) as (es & He & Hk).
        { intros m' Ho Hlt. destruct (pscope_total (R + 1) m' Ho ltac:(lia)) as (es & He & _). eauto. }
        rewrite He. rewrite kd_ex. destruct (on_disk d m); eauto. }
    - assert (Ht : targets_below R c) by (intros b m' _ _ Ho; apply HR; exact Ho).
      destruct (pexpand_total (pscope K (R + 1)) R c first_line Ht) as (es & He & Hk).
      { intros m' Ho Hlt. destruct (pscope_total (R + 1) m' Ho ltac:(lia)) as (es & He & _). eauto. }
      rewrite He. apply pquery_total; [exact Hk|lia].
    - rewrite kd_ex. destruct (on_disk d m) eqn:Eo; [|eauto].
      destruct (pscope_total (R + 1) m Eo ltac:(pose proof (HR m Eo); lia)) as (es & He & _).
      rewrite He. simpl. eauto.
  Qed.
End Total.

(* decidable versions of the acyclicity hypotheses (used by the examples and by the harness filter) *)
Definition rankedb (d : disk) (rk : modname -> nat) : bool :=
  forallb (fun kv : modname * (mtime * content) =>
             forallb (fun b => forallb (fun m' => negb (on_disk d m') || Nat.ltb (rk m') (rk (fst kv)))
                                       (targets_of b))
                     (snd (snd kv))) d.

Definition rank_boundb (d : disk) (rk : modname -> nat) (R : nat) : bool :=
  forallb (fun kv : modname * (mtime * content) => Nat.ltb (rk (fst kv)) R) d.

Lemma rankedb_sound : forall d rk, rankedb d rk = true -> ranked d rk.
Proof.
  intros d rk H m t c b m' Hd Hb Hm' Ho. unfold rankedb in H. rewrite forallb_forall in H.
  apply alookup_In_mod in Hd. specialize (H _ Hd). simpl in H.
  rewrite forallb_forall in H. specialize (H _ Hb). rewrite forallb_forall in H. specialize (H _ Hm').
  rewrite Ho in H. simpl in H. apply Nat.ltb_lt in H. exact H.
Qed.

Lemma rank_boundb_sound : forall d rk R, rank_boundb d rk R = true -> rank_bound d rk R.
Proof.
  intros d rk R H m Ho. unfold on_disk in Ho. destruct (dlookup d m) as [v|] eqn:Hd; [|discriminate].
  apply alookup_In_mod in Hd. unfold rank_boundb in H. rewrite forallb_forall in H.
  specialize (H _ Hd). simpl in H. apply Nat.ltb_lt in H. exact H.
Qed.

(* acyclic projects: unconditional equality, with an explicit fuel bound *)
Theorem cache_transparent_acyclic : forall f ops d rq r rk R,
  In (d, rq, r) (snd (run Repaired f init_world ops)) ->
  ranked d rk -> rank_bound d rk R -> R + 1 <= f ->
  exists a, ref_answer f d rq = Some a /\ r = Ok a /\ fresh f d rq = Ok a.
Proof.
  intros f ops d rq r rk R Hin Hrk HR Hle.
  destruct (ref_answer_total d rk R Hrk HR rq) as [a Ha].
  assert (Ha' : ref_answer f d rq = Some a).
  { unfold ref_answer in *. eapply panswer_mono; [apply kle_refl | exact Hle | exact Ha]. }
  exists a. split; [exact Ha'|]. eapply cache_transparent_full; eauto.
Qed.

Definition f23_rank (m : modname) : nat :=
  match m with
  | [1%N] => 2
  | [2%N] => 1
  | _ => 0
  end.
