(* Soundness of supp's reaching-definitions analysis (Model/Reach.v) with respect to the
   semantics of Model/Sem.v, for all programs of the C02 fragment, all executions, any number
   of loop trips. *)
From Coq Require Import List Bool Arith NArith Lia.
Import ListNotations.
From Supp Require Import Model.PyCore Model.Reach Model.Sem.

Definition sub (s t : aenv) := forall x a, In a (s x) -> In a (t x).
Definition abs (p : renv) (s : aenv) := forall x, In (p x) (s x).
Definition subl {A} (l m : list A) := forall a, In a l -> In a m.

Lemma sub_refl s : sub s s. Proof. intros x a H; exact H. Qed.
Lemma sub_trans s t u : sub s t -> sub t u -> sub s u. Proof. intros A B x a H; apply B, A, H. Qed.
Lemma sub_join_l s t : sub s (join s t). Proof. intros x a; unfold join; rewrite in_app_iff; auto. Qed.
Lemma sub_join_r s t : sub t (join s t). Proof. intros x a; unfold join; rewrite in_app_iff; auto. Qed.
Lemma sub_join_lub s t u : sub s u -> sub t u -> sub (join s t) u.
Proof. intros A B x a; unfold join; rewrite in_app_iff; intros [H|H]; [apply A|apply B]; exact H. Qed.
Lemma join_mono s s' t t' : sub s s' -> sub t t' -> sub (join s t) (join s' t').
Proof. intros A B. apply sub_join_lub; [eapply sub_trans; [exact A|apply sub_join_l] | eapply sub_trans; [exact B|apply sub_join_r]]. Qed.
Lemma abs_sub p s t : abs p s -> sub s t -> abs p t. Proof. intros A B x; apply B, A. Qed.
Lemma upd_mono s t x v : sub s t -> sub (upd s x v) (upd t x v).
Proof. intros A y a; unfold upd; destruct (N.eqb y x); [auto|apply A]. Qed.
Lemma bind_opt_mono nm s t : sub s t -> sub (bind_opt_a nm s) (bind_opt_a nm t).
Proof. destruct nm as [[d x]|]; simpl; [apply upd_mono|auto]. Qed.
Lemma abs_upd p s x d : abs p s -> abs (upd p x (Some d)) (upd s x [Some d]).
Proof. intros A y; unfold upd; destruct (N.eqb y x); [left; reflexivity|apply A]. Qed.
Lemma abs_bind_opt nm p s : abs p s -> abs (bind_opt_r nm p) (bind_opt_a nm s).
Proof. destruct nm as [[d x]|]; simpl; [apply abs_upd|auto]. Qed.

(* ---- gen/kill normal form ----------------------------------------------------------------- *)

Definition gk (F : aenv -> aenv) :=
  exists (G : name -> list alt) (T : name -> bool),
    forall s x a, In a (F s x) <-> In a (G x) \/ (T x = true /\ In a (s x)).

Lemma gk_id : gk (fun s => s).
Proof. exists (fun _ => []), (fun _ => true). intros; simpl; intuition. Qed.

Lemma gk_upd d y : gk (fun s => upd s y [Some d]).
Proof.
  exists (fun x => if N.eqb x y then [Some d] else []), (fun x => negb (N.eqb x y)).
  intros s x a; unfold upd. destruct (N.eqb x y); simpl; intuition (try congruence).
Qed.

Lemma gk_bind_opt nm : gk (fun s => bind_opt_a nm s).
Proof. destruct nm as [[d x]|]; simpl; [apply gk_upd|apply gk_id]. Qed.

Lemma gk_comp F F' : gk F -> gk F' -> gk (fun s => F' (F s)).
Proof.
  intros [G [T H]] [G' [T' H']].
  exists (fun x => G' x ++ if T' x then G x else []), (fun x => T' x && T x).
  intros s x a. rewrite H', H, in_app_iff, andb_true_iff.
  destruct (T' x); simpl; intuition (try congruence).
Qed.

Lemma gk_join F F' : gk F -> gk F' -> gk (fun s => join (F s) (F' s)).
Proof.
  intros [G [T H]] [G' [T' H']].
  exists (fun x => G x ++ G' x), (fun x => T x || T' x).
  intros s x a. unfold join. rewrite !in_app_iff, H, H', orb_true_iff. intuition.
Qed.

Lemma gk_an_both :
  (forall c, gk (an c)) /\
  (forall hs F Acc, gk F -> gk Acc -> gk (fun s => an_h hs (F s) (Acc s))).
Proof.
  apply cmd_hlist_ind.
  - apply gk_id.
  - intros a IHa b IHb. change (gk (fun s => an b (an a s))). apply gk_comp; assumption.
  - intros d x. apply gk_upd.
  - intros r x. apply gk_id.
  - intros a IHa b IHb. change (gk (fun s => join (an a s) (an b s))). apply gk_join; assumption.
  - intros t IHt b IHb e IHe.
    change (gk (fun s => an e (an t (join s (an b (an t s)))))).
    apply (gk_comp (fun s => an t (join s (an b (an t s))))); [|exact IHe].
    apply (gk_comp (fun s => join s (an b (an t s)))); [|exact IHt].
    apply gk_join; [apply gk_id|]. apply (gk_comp (an t)); assumption.
  - intros tg IHt b IHb e IHe.
    change (gk (fun s => an e (join s (an b (an tg (join s (an b (an tg s)))))))).
    apply (gk_comp (fun s => join s (an b (an tg (join s (an b (an tg s))))))); [|exact IHe].
    apply gk_join; [apply gk_id|].
    apply (gk_comp (fun s => an tg (join s (an b (an tg s))))); [|exact IHb].
    apply (gk_comp (fun s => join s (an b (an tg s)))); [|exact IHt].
    apply gk_join; [apply gk_id|]. apply (gk_comp (an tg)); assumption.
  - intros rf b IHb rl hs IHhs e IHe f IHf.
    change (gk (fun s => an f (an_h hs (join s (an b s)) (an e (an b s))))).
    apply (gk_comp (fun s => an_h hs (join s (an b s)) (an e (an b s)))); [|exact IHf].
    apply IHhs.
    + apply gk_join; [apply gk_id|exact IHb].
    + apply (gk_comp (an b)); assumption.
  - intros k. apply gk_id.
  - intros F Acc HF HA. exact HA.
  - intros ty IHty nm hb IHhb rest IHrest F Acc HF HA.
    change (gk (fun s => an_h rest (F s) (join (Acc s) (an hb (bind_opt_a nm (an ty (F s))))))).
    apply IHrest; [exact HF|]. apply gk_join; [exact HA|].
    apply (gk_comp (fun s => bind_opt_a nm (an ty (F s)))); [|exact IHhb].
    apply (gk_comp (fun s => an ty (F s))); [|apply gk_bind_opt].
    apply (gk_comp F); assumption.
Qed.

Lemma gk_an c : gk (an c). Proof. apply gk_an_both. Qed.

Lemma gk_mono F : gk F -> forall s t, sub s t -> sub (F s) (F t).
Proof. intros [G [T H]] s t Hst x a. rewrite !H. intros [A|[A B]]; [left; exact A|right; split; [exact A|apply Hst; exact B]]. Qed.

Lemma an_mono c s t : sub s t -> sub (an c s) (an c t).
Proof. apply gk_mono, gk_an. Qed.

(* the one extra pass round the back edge is a fixpoint *)
Lemma gk_closed F : gk F -> forall s, sub (F (join s (F s))) (join s (F s)).
Proof.
  intros [G [T H]] s x a. unfold join at 2. rewrite in_app_iff, !H. unfold join. rewrite in_app_iff, H.
  intuition.
Qed.

Lemma gk_comp2 c1 c2 : gk (fun s => an c2 (an c1 s)).
Proof. apply (gk_comp (an c1)); apply gk_an. Qed.

Lemma an_h_mono hs : forall hin hin' acc acc', sub hin hin' -> sub acc acc' ->
  sub (an_h hs hin acc) (an_h hs hin' acc').
Proof.
  induction hs as [|ty nm hb rest IH]; intros hin hin' acc acc' A B; simpl; [exact B|].
  apply IH; [exact A|]. apply join_mono; [exact B|].
  apply an_mono, bind_opt_mono, an_mono, A.
Qed.

Lemma an_h_acc hs : forall hin acc, sub acc (an_h hs hin acc).
Proof.
  induction hs as [|ty nm hb rest IH]; intros hin acc; simpl; [apply sub_refl|].
  eapply sub_trans; [apply sub_join_l|apply IH].
Qed.

Lemma an_h_nth hs : forall i ty nm hb hin acc, hnth hs i = Some (ty, nm, hb) ->
  sub (an hb (bind_opt_a nm (an ty hin))) (an_h hs hin acc).
Proof.
  induction hs as [|ty0 nm0 hb0 rest IH]; intros i ty nm hb hin acc H; [destruct i; discriminate|].
  destruct i as [|i]; simpl in *.
  - injection H as -> -> ->. eapply sub_trans; [apply sub_join_r|apply an_h_acc].
  - eapply IH; exact H.
Qed.

Lemma seen_h_nth hs : forall i ty nm hb hin r, hnth hs i = Some (ty, nm, hb) ->
  subl (seen ty hin r ++ seen hb (bind_opt_a nm (an ty hin)) r) (seen_h hs hin r).
Proof.
  induction hs as [|ty0 nm0 hb0 rest IH]; intros i ty nm hb hin r H; [destruct i; discriminate|].
  destruct i as [|i]; simpl in *.
  - injection H as -> -> ->. intros a Ha. rewrite app_assoc. apply in_or_app; left; exact Ha.
  - intros a Ha. rewrite app_assoc. apply in_or_app; right. eapply IH; eauto.
Qed.

(* ---- monotonicity of seen ---------------------------------------------------------------- *)

Lemma subl_app {A} (l l' m m' : list A) : subl l l' -> subl m m' -> subl (l ++ m) (l' ++ m').
Proof. intros P Q a; rewrite !in_app_iff; intros [H|H]; [left; apply P|right; apply Q]; exact H. Qed.

Lemma seen_mono_both :
  (forall c s t r, sub s t -> subl (seen c s r) (seen c t r)) /\
  (forall hs s t r, sub s t -> subl (seen_h hs s r) (seen_h hs t r)).
Proof.
  apply cmd_hlist_ind; simpl.
  - intros s t r _ a H; exact H.
  - intros a IHa b IHb s t r Hst. apply subl_app; [apply IHa; exact Hst|apply IHb, an_mono, Hst].
  - intros d x s t r _ a H; exact H.
  - intros r0 x s t r Hst a. destruct (N.eqb r r0); [apply Hst|auto].
  - intros a IHa b IHb s t r Hst. apply subl_app; [apply IHa|apply IHb]; exact Hst.
  - intros tt IHt b IHb e IHe s t r Hst.
    assert (HH : sub (join s (an b (an tt s))) (join t (an b (an tt t)))).
    { apply join_mono; [exact Hst|]. apply an_mono, an_mono, Hst. }
    apply subl_app; [apply IHt; exact HH|]. apply subl_app; [apply IHb|apply IHe]; apply an_mono, HH.
  - intros tg IHt b IHb e IHe s t r Hst.
    assert (HH : sub (join s (an b (an tg s))) (join t (an b (an tg t)))).
    { apply join_mono; [exact Hst|]. apply an_mono, an_mono, Hst. }
    apply subl_app; [apply IHt; exact HH|]. apply subl_app; [apply IHb; apply an_mono, HH|].
    apply IHe. apply join_mono; [exact Hst|]. apply an_mono, an_mono, HH.
  - intros rf b IHb rl hs IHhs e IHe f IHf s t r Hst.
    assert (Hb : sub (an b s) (an b t)) by (apply an_mono, Hst).
    assert (Hh : sub (join s (an b s)) (join t (an b t))) by (apply join_mono; assumption).
    apply subl_app; [apply IHb; exact Hst|]. apply subl_app; [apply IHhs; exact Hh|].
    apply subl_app; [apply IHe; exact Hb|]. apply IHf. apply an_h_mono; [exact Hh|apply an_mono, Hb].
  - intros k s t r _ a H; exact H.
  - intros s t r _ a H; exact H.
  - intros ty IHty nm hb IHhb rest IHrest s t r Hst.
    apply subl_app; [apply IHty; exact Hst|]. apply subl_app; [|apply IHrest; exact Hst].
    apply IHhb, bind_opt_mono, an_mono, Hst.
Qed.

Lemma seen_mono c s t r : sub s t -> subl (seen c s r) (seen c t r).
Proof. apply seen_mono_both. Qed.

(* ---- executions that return ---------------------------------------------------------------- *)

Lemma has_ret_h_nth hs : forall i ty nm hb, hnth hs i = Some (ty, nm, hb) ->
  has_ret_h hs = false -> has_ret ty = false /\ has_ret hb = false.
Proof.
  induction hs as [|ty0 nm0 hb0 rest IH]; intros i ty nm hb H Hr; [destruct i; discriminate|].
  simpl in Hr. apply orb_false_iff in Hr as [Hr1 Hr3]. apply orb_false_iff in Hr1 as [Hr1 Hr2].
  destruct i as [|i]; simpl in H.
  - injection H as <- <- <-. auto.
  - eapply IH; eauto.
Qed.

Lemma ok_h_nth hs : forall i ty nm hb, hnth hs i = Some (ty, nm, hb) ->
  ok_h hs = true -> ok ty = true /\ has_ret ty = false /\ ok hb = true.
Proof.
  induction hs as [|ty0 nm0 hb0 rest IH]; intros i ty nm hb H Hok; [destruct i; discriminate|].
  simpl in Hok. rewrite !andb_true_iff, negb_true_iff in Hok. destruct Hok as [[[A B] C] D].
  destruct i as [|i]; simpl in H.
  - injection H as <- <- <-. auto.
  - eapply IH; eauto.
Qed.

Lemma no_ret_norm c p t o p' : exec c p t o p' -> has_ret c = false -> o = ONorm.
Proof.
  induction 1; intros Hr; try reflexivity; try discriminate; simpl in Hr;
    repeat match goal with
           | H : _ || _ = false |- _ => apply orb_false_iff in H as [? ?]
           end.
  - (* seq normal *) auto.
  - (* seq ret *) auto.
  - auto.
  - auto.
  - (* while iter *) apply IHexec3. simpl. rewrite !orb_false_iff. auto.
  - (* while ret *) auto.
  - (* while exit *) auto.
  - (* for iter *) apply IHexec3. simpl. rewrite !orb_false_iff. auto.
  - (* for ret *) auto.
  - (* for exit *) auto.
  - (* try first *)
    match goal with Hh : has_ret_h hs = false |- _ =>
      destruct (has_ret_h_nth _ _ _ _ _ H0 Hh) as [_ Hhb] end.
    rewrite (IHexec2 Hhb). simpl. auto.
  - match goal with Hh : has_ret_h hs = false |- _ =>
      destruct (has_ret_h_nth _ _ _ _ _ H0 Hh) as [_ Hhb] end.
    rewrite (IHexec3 Hhb). simpl. auto.
  - rewrite IHexec2 by assumption. simpl. auto.
  - auto.
Qed.

Lemma exec_skip p t o p' : exec Skip p t o p' -> t = [] /\ o = ONorm /\ p' = p.
Proof. inversion 1; subst; auto. Qed.

Lemma is_skip_eq f : is_skip f = true -> f = Skip.
Proof. destruct f; simpl; intros H; try discriminate; reflexivity. Qed.

(* ---- loops: analysing a loop from its head invariant changes nothing ------------------------ *)

Section LoopHead.
  Variable F : aenv -> aenv.
  Hypothesis HF : gk F.
  Variable s : aenv.
  Let H := join s (F s).

  Lemma head_closed : sub (join H (F H)) H.
  Proof. apply sub_join_lub; [apply sub_refl|]. unfold H. apply gk_closed, HF. Qed.

  Lemma head_F : sub (F H) H.
  Proof. eapply sub_trans; [apply sub_join_r|apply head_closed]. Qed.
End LoopHead.

Lemma while_head t b e s :
  let H := join s (an b (an t s)) in
  sub (an (While t b e) H) (an (While t b e) s) /\
  forall r, subl (seen (While t b e) H r) (seen (While t b e) s r).
Proof.
  intros H.
  assert (Hc : sub (join H (an b (an t H))) H) by (apply (head_closed (fun s => an b (an t s)) (gk_comp2 t b) s)).
  split.
  - simpl. apply an_mono, an_mono, Hc.
  - intros r. simpl. apply subl_app; [apply seen_mono, Hc|].
    apply subl_app; apply seen_mono, an_mono, Hc.
Qed.

Lemma for_head tg b e s :
  let H := join s (an b (an tg s)) in
  sub (an (For tg b e) H) (an (For tg b e) s) /\
  forall r, subl (seen (For tg b e) H r) (seen (For tg b e) s r).
Proof.
  intros H.
  pose (F := fun s => an b (an tg s)).
  assert (HF : gk F) by (apply gk_comp2).
  assert (Hc : sub (join H (F H)) H) by (apply (head_closed F HF s)).
  assert (HB : sub (F (join H (F H))) (F H)) by (apply gk_mono; [exact HF|exact Hc]).
  assert (Hout : sub (join H (F (join H (F H)))) (join s (F H))).
  { apply sub_join_lub.
    - unfold H at 1. apply sub_join_lub; [apply sub_join_l|].
      eapply sub_trans; [|apply sub_join_r]. apply (gk_mono F HF s H). apply sub_join_l.
    - eapply sub_trans; [exact HB|apply sub_join_r]. }
  split.
  - simpl. apply an_mono. exact Hout.
  - intros r. simpl. apply subl_app; [apply seen_mono, Hc|].
    apply subl_app; [apply seen_mono, an_mono, Hc|apply seen_mono, Hout].
Qed.

(* ---- soundness --------------------------------------------------------------------------------- *)

Theorem sound c p tr o p' : exec c p tr o p' -> ok c = true -> forall s, abs p s ->
  (o = ONorm -> abs p' (an c s)) /\ forall r v, In (r, v) tr -> In v (seen c s r).
Proof.
  induction 1; intros Hok s Hab; simpl in Hok;
    repeat match goal with
           | H : _ && _ = true |- _ => apply andb_true_iff in H as [? ?]
           end.
  - (* Skip *) split; [intros _; exact Hab|intros r v []].
  - (* Bind *) split; [intros _; apply abs_upd, Hab|intros r v []].
  - (* Read *) split; [intros _; exact Hab|]. intros r0 v [Heq|[]]. injection Heq as <- <-.
    simpl. rewrite N.eqb_refl. apply Hab.
  - (* Return *) split; [discriminate|intros r v []].
  - (* Seq normal *)
    destruct (IHexec1 ltac:(assumption) _ Hab) as [A1 B1]. specialize (A1 eq_refl).
    destruct (IHexec2 ltac:(assumption) _ A1) as [A2 B2].
    split; [exact A2|]. intros r v Hin. simpl. rewrite in_app_iff in *. destruct Hin; [left|right]; auto.
  - (* Seq ret *)
    destruct (IHexec ltac:(assumption) _ Hab) as [_ B1].
    split; [discriminate|]. intros r v Hin. simpl. rewrite in_app_iff. left; auto.
  - (* Branch left *)
    destruct (IHexec ltac:(assumption) _ Hab) as [A B]. split.
    + intros Ho. eapply abs_sub; [apply A, Ho|apply sub_join_l].
    + intros r v Hin. simpl. rewrite in_app_iff. left; auto.
  - destruct (IHexec ltac:(assumption) _ Hab) as [A B]. split.
    + intros Ho. eapply abs_sub; [apply A, Ho|apply sub_join_r].
    + intros r v Hin. simpl. rewrite in_app_iff. right; auto.
  - (* While iter *)
    set (Hd := join s (an b (an t s))).
    assert (HabH : abs p Hd) by (eapply abs_sub; [exact Hab|apply sub_join_l]).
    destruct (IHexec1 ltac:(assumption) _ HabH) as [A1 B1]. specialize (A1 eq_refl).
    destruct (IHexec2 ltac:(assumption) _ A1) as [A2 B2]. specialize (A2 eq_refl).
    assert (Hp2 : abs p2 Hd).
    { eapply abs_sub; [exact A2|]. apply (head_F (fun s => an b (an t s)) (gk_comp2 t b) s). }
    assert (Hokw : ok (While t b e) = true) by (simpl; rewrite !andb_true_iff; auto).
    destruct (IHexec3 Hokw _ Hp2) as [A3 B3].
    destruct (while_head t b e s) as [W1 W2]. fold Hd in W1, W2.
    split.
    + intros Ho. eapply abs_sub; [apply A3, Ho|exact W1].
    + intros r v Hin. rewrite !in_app_iff in Hin. destruct Hin as [Hin|[Hin|Hin]].
      * simpl. rewrite in_app_iff. left. apply B1, Hin.
      * simpl. rewrite !in_app_iff. right; left. apply B2, Hin.
      * apply W2, B3, Hin.
  - (* While ret *)
    set (Hd := join s (an b (an t s))).
    assert (HabH : abs p Hd) by (eapply abs_sub; [exact Hab|apply sub_join_l]).
    destruct (IHexec1 ltac:(assumption) _ HabH) as [A1 B1]. specialize (A1 eq_refl).
    destruct (IHexec2 ltac:(assumption) _ A1) as [_ B2].
    split; [discriminate|]. intros r v Hin. rewrite in_app_iff in Hin. simpl. rewrite !in_app_iff.
    destruct Hin as [Hin|Hin]; [left; apply B1, Hin|right; left; apply B2, Hin].
  - (* While exit *)
    set (Hd := join s (an b (an t s))).
    assert (HabH : abs p Hd) by (eapply abs_sub; [exact Hab|apply sub_join_l]).
    destruct (IHexec1 ltac:(assumption) _ HabH) as [A1 B1]. specialize (A1 eq_refl).
    destruct (IHexec2 ltac:(assumption) _ A1) as [A2 B2].
    split; [exact A2|]. intros r v Hin. rewrite in_app_iff in Hin. simpl. rewrite !in_app_iff.
    destruct Hin as [Hin|Hin]; [left; apply B1, Hin|right; right; apply B2, Hin].
  - (* For iter *)
    set (Hd := join s (an b (an tg s))).
    assert (HabH : abs p Hd) by (eapply abs_sub; [exact Hab|apply sub_join_l]).
    destruct (IHexec1 ltac:(assumption) _ HabH) as [A1 B1]. specialize (A1 eq_refl).
    destruct (IHexec2 ltac:(assumption) _ A1) as [A2 B2]. specialize (A2 eq_refl).
    assert (Hp2 : abs p2 Hd).
    { eapply abs_sub; [exact A2|]. apply (head_F (fun s => an b (an tg s)) (gk_comp2 tg b) s). }
    assert (Hokw : ok (For tg b e) = true) by (simpl; rewrite !andb_true_iff; auto).
    destruct (IHexec3 Hokw _ Hp2) as [A3 B3].
    destruct (for_head tg b e s) as [W1 W2]. fold Hd in W1, W2.
    split.
    + intros Ho. eapply abs_sub; [apply A3, Ho|exact W1].
    + intros r v Hin. rewrite !in_app_iff in Hin. destruct Hin as [Hin|[Hin|Hin]].
      * simpl. rewrite in_app_iff. left. apply B1, Hin.
      * simpl. rewrite !in_app_iff. right; left. apply B2, Hin.
      * apply W2, B3, Hin.
  - (* For ret *)
    set (Hd := join s (an b (an tg s))).
    assert (HabH : abs p Hd) by (eapply abs_sub; [exact Hab|apply sub_join_l]).
    destruct (IHexec1 ltac:(assumption) _ HabH) as [A1 B1]. specialize (A1 eq_refl).
    destruct (IHexec2 ltac:(assumption) _ A1) as [_ B2].
    split; [discriminate|]. intros r v Hin. rewrite in_app_iff in Hin. simpl. rewrite !in_app_iff.
    destruct Hin as [Hin|Hin]; [left; apply B1, Hin|right; left; apply B2, Hin].
  - (* For exit *)
    assert (Hab' : abs p (join s (an b (an tg (join s (an b (an tg s)))))))
      by (eapply abs_sub; [exact Hab|apply sub_join_l]).
    destruct (IHexec ltac:(assumption) _ Hab') as [A B].
    split; [exact A|]. intros r v Hin. simpl. rewrite !in_app_iff. right; right. apply B, Hin.
  - (* Try: raise at the first point *)
    match goal with Hh : ok_h hs = true |- _ => destruct (ok_h_nth _ _ _ _ _ H0 Hh) as (Oty & Rty & Ohb) end.
    set (sb := an b s). set (hin := join s sb). set (J := an_h hs hin (an e sb)).
    assert (Hhin : abs p hin) by (eapply abs_sub; [exact Hab|apply sub_join_l]).
    destruct (IHexec1 Oty _ Hhin) as [A1 B1]. specialize (A1 eq_refl).
    destruct (IHexec2 Ohb _ (abs_bind_opt nm _ _ A1)) as [A2 B2].
    assert (Hfin : (o1 = ONorm -> abs p2 J) ).
    { intros Ho. eapply abs_sub; [apply A2, Ho|]. eapply an_h_nth; exact H0. }
    assert (Hseen_h : forall r v, In (r, v) (tty ++ th) -> In v (seen_h hs hin r)).
    { intros r v Hin. eapply seen_h_nth; [exact H0|]. rewrite in_app_iff in *.
      destruct Hin as [Hin|Hin]; [left; apply B1, Hin|right; apply B2, Hin]. }
    destruct o1.
    + destruct (IHexec3 ltac:(assumption) _ (Hfin eq_refl)) as [A3 B3]. split.
      * simpl. exact A3.
      * intros r v Hin. simpl. fold sb hin J. rewrite app_assoc in Hin. rewrite !in_app_iff in *.
        destruct Hin as [Hin|Hin]; [right; left; apply Hseen_h; rewrite in_app_iff; exact Hin|right; right; right; apply B3, Hin].
    + (* the handler returned: finally must be trivial *)
      match goal with Hx : is_skip f || _ = true |- _ => rename Hx into Hd end. apply orb_true_iff in Hd as [Hd|Hd].
      * apply is_skip_eq in Hd. subst f. apply exec_skip in H3 as (-> & -> & ->).
        split; [discriminate|]. intros r v Hin. simpl. fold sb hin J. rewrite app_nil_r in Hin.
        rewrite !in_app_iff. right; left. apply Hseen_h, Hin.
      * apply negb_true_iff in Hd. apply orb_false_iff in Hd as [Hd _]. apply orb_false_iff in Hd as [_ Hd].
        destruct (has_ret_h_nth _ _ _ _ _ H0 Hd) as [_ Hhb].
        pose proof (no_ret_norm _ _ _ _ _ H2 Hhb). discriminate.
  - (* Try: raise at the last point *)
    match goal with Hh : ok_h hs = true |- _ => destruct (ok_h_nth _ _ _ _ _ H0 Hh) as (Oty & Rty & Ohb) end.
    set (sb := an b s). set (hin := join s sb). set (J := an_h hs hin (an e sb)).
    destruct (IHexec1 ltac:(assumption) _ Hab) as [A0 B0]. specialize (A0 eq_refl).
    assert (Hhin : abs pb hin) by (eapply abs_sub; [exact A0|apply sub_join_r]).
    destruct (IHexec2 Oty _ Hhin) as [A1 B1]. specialize (A1 eq_refl).
    destruct (IHexec3 Ohb _ (abs_bind_opt nm _ _ A1)) as [A2 B2].
    assert (Hfin : (o1 = ONorm -> abs p2 J) ).
    { intros Ho. eapply abs_sub; [apply A2, Ho|]. eapply an_h_nth; exact H0. }
    assert (Hseen_h : forall r v, In (r, v) (tty ++ th) -> In v (seen_h hs hin r)).
    { intros r v Hin. eapply seen_h_nth; [exact H0|]. rewrite in_app_iff in *.
      destruct Hin as [Hin|Hin]; [left; apply B1, Hin|right; apply B2, Hin]. }
    destruct o1.
    + destruct (IHexec4 ltac:(assumption) _ (Hfin eq_refl)) as [A3 B3]. split.
      * simpl. exact A3.
      * intros r v Hin. simpl. fold sb hin J. rewrite (app_assoc tty) in Hin. rewrite !in_app_iff in *.
        destruct Hin as [Hin|[Hin|Hin]].
        -- left. apply B0, Hin.
        -- right; left. apply Hseen_h. rewrite in_app_iff. exact Hin.
        -- right; right; right. apply B3, Hin.
    + match goal with Hx : is_skip f || _ = true |- _ => rename Hx into Hd end. apply orb_true_iff in Hd as [Hd|Hd].
      * apply is_skip_eq in Hd. subst f. apply exec_skip in H4 as (-> & -> & ->).
        split; [discriminate|]. intros r v Hin. simpl. fold sb hin J. rewrite app_nil_r in Hin.
        rewrite !in_app_iff in *. destruct Hin as [Hin|Hin]; [left; apply B0, Hin|].
        right; left. apply Hseen_h. rewrite in_app_iff. exact Hin.
      * apply negb_true_iff in Hd. apply orb_false_iff in Hd as [Hd _]. apply orb_false_iff in Hd as [_ Hd].
        destruct (has_ret_h_nth _ _ _ _ _ H0 Hd) as [_ Hhb].
        pose proof (no_ret_norm _ _ _ _ _ H3 Hhb). discriminate.
  - (* Try: no exception, else part *)
    set (sb := an b s). set (hin := join s sb). set (J := an_h hs hin (an e sb)).
    destruct (IHexec1 ltac:(assumption) _ Hab) as [A0 B0]. specialize (A0 eq_refl).
    destruct (IHexec2 ltac:(assumption) _ A0) as [A1 B1].
    destruct o1.
    + assert (HJ : abs p2 J) by (eapply abs_sub; [apply A1; reflexivity|apply an_h_acc]).
      destruct (IHexec3 ltac:(assumption) _ HJ) as [A3 B3]. split.
      * simpl. exact A3.
      * intros r v Hin. simpl. fold sb hin J. rewrite !in_app_iff in *.
        destruct Hin as [Hin|[Hin|Hin]]; [left; apply B0, Hin|right; right; left; apply B1, Hin|right; right; right; apply B3, Hin].
    + match goal with Hx : is_skip f || _ = true |- _ => rename Hx into Hd end. apply orb_true_iff in Hd as [Hd|Hd].
      * apply is_skip_eq in Hd. subst f. apply exec_skip in H1 as (-> & -> & ->).
        split; [discriminate|]. intros r v Hin. simpl. fold sb hin J. rewrite app_nil_r in Hin.
        rewrite !in_app_iff in *. destruct Hin as [Hin|Hin]; [left; apply B0, Hin|right; right; left; apply B1, Hin].
      * apply negb_true_iff in Hd. apply orb_false_iff in Hd as [_ Hd].
        pose proof (no_ret_norm _ _ _ _ _ H0 Hd). discriminate.
  - (* Try: the body returns *)
    destruct (IHexec1 ltac:(assumption) _ Hab) as [_ B0].
    match goal with Hx : is_skip f || _ = true |- _ => rename Hx into Hd end. apply orb_true_iff in Hd as [Hd|Hd].
    + apply is_skip_eq in Hd. subst f. apply exec_skip in H0 as (-> & -> & ->).
      split; [discriminate|]. intros r v Hin. simpl. rewrite app_nil_r in Hin. rewrite !in_app_iff. left. apply B0, Hin.
    + apply negb_true_iff in Hd. apply orb_false_iff in Hd as [Hd _]. apply orb_false_iff in Hd as [Hd _].
      pose proof (no_ret_norm _ _ _ _ _ H Hd). discriminate.
Qed.
