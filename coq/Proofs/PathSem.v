(* Path semantics of the flow graph, for the full C04 theorem (Proofs/MemoFull.v).
   Part A: what the environment operations of Model/FlowGraph.v do to one name (rows as sets).
   Part B: walks in the graph (per name, entry flows are leaves), cycle cutting.
   Part C: the memo-free evaluation computes exactly the walk semantics. *)
From Coq Require Import List Bool Arith NArith PArith FMapPositive Lia.
Import ListNotations.
From Supp Require Import Model.Layout Model.FlowGraph Model.Memo Proofs.FlowGraphProofs Proofs.MemoProofs.

(* ---------------------------------------------------------------------------------------------- *)
(* Part A                                                                                           *)
(* ---------------------------------------------------------------------------------------------- *)

(* a row as a set of alternatives; an absent row stands for "undefined" *)
Definition rowT (r : option (list alt)) (a : alt) : Prop :=
  match r with Some l => In a l | None => a = AUndef end.

(* a present row contains a binding ("a single undefined name is not possible") *)
Definition row_ok (r : option (list alt)) : Prop :=
  match r with Some l => exists b, In (ADef b) l | None => True end.

Definition T (e : env) (w : name) (a : alt) : Prop := rowT (PM.find w e) a.
Definition env_ok (e : env) : Prop := forall w, row_ok (PM.find w e).

(* rows equal as sets, presence included *)
Definition row_eq (r1 r2 : option (list alt)) : Prop := opt_rel same_set r1 r2.

Lemma row_eq_of_T r1 r2 : row_ok r1 -> row_ok r2 -> (forall a, rowT r1 a <-> rowT r2 a) -> row_eq r1 r2.
Proof.
  intros H1 H2 H. destruct r1 as [l1|], r2 as [l2|]; simpl in *; auto.
  - destruct H1 as [b Hb]. apply H in Hb. discriminate.
  - destruct H2 as [b Hb]. apply H in Hb. discriminate.
Qed.

Lemma rowT_row_eq r1 r2 a : row_eq r1 r2 -> rowT r1 a -> rowT r2 a.
Proof. destruct r1, r2; simpl; intros H; try contradiction; auto. apply H. Qed.

Lemma row_eq_sym r1 r2 : row_eq r1 r2 -> row_eq r2 r1.
Proof. destruct r1, r2; simpl; auto. intros H x. symmetry. apply H. Qed.

Lemma row_ok_row_eq r1 r2 : row_eq r1 r2 -> row_ok r1 -> row_ok r2.
Proof. destruct r1, r2; simpl; intros H; try contradiction; auto. intros [b Hb]. exists b. apply H. exact Hb. Qed.

(* the last binding of w in a list of bindings *)
Fixpoint bind_of (w : name) (bs : list bind) : option bid :=
  match bs with
  | [] => None
  | b :: r => match bind_of w r with
              | Some x => Some x
              | None => if Pos.eqb (b_name b) w then Some (b_id b) else None
              end
  end.

Lemma find_own_env w bs : forall e,
  PM.find w (own_env bs e) = match bind_of w bs with Some b => Some [ADef b] | None => PM.find w e end.
Proof.
  unfold own_env. induction bs as [|b r IH]; intros e; simpl; [reflexivity|].
  rewrite IH. destruct (bind_of w r); [reflexivity|].
  destruct (Pos.eqb (b_name b) w) eqn:E.
  - apply Pos.eqb_eq in E. subst. apply PM.gss.
  - apply Pos.eqb_neq in E. apply PM.gso. congruence.
Qed.

Lemma find_collect2 w a b :
  PM.find w (collect2 a b) =
  match PM.find w a, PM.find w b with
  | None, None => None
  | x, y => Some (orU x ++ orU y)
  end.
Proof.
  unfold collect2. rewrite PM.gmap2 by reflexivity.
  destruct (PM.find w a), (PM.find w b); reflexivity.
Qed.

Lemma rowT_orU r a : In a (orU r) <-> rowT r a.
Proof. destruct r; simpl; [tauto|]. split; [intros [H|[]]; auto|intros ->; auto]. Qed.

Lemma find_fold_collect2 w r : forall acc,
  match PM.find w (fold_left collect2 r acc) with
  | None => PM.find w acc = None /\ forall e, In e r -> PM.find w e = None
  | Some l => (PM.find w acc <> None \/ exists e, In e r /\ PM.find w e <> None) /\
              forall a, In a l <-> rowT (PM.find w acc) a \/ exists e, In e r /\ rowT (PM.find w e) a
  end.
Proof.
  induction r as [|e r IH]; intros acc; simpl.
  - destruct (PM.find w acc) as [l|] eqn:E; simpl.
    + split; [left; discriminate|]. intros a. split; [auto|]. intros [H|[e [[] _]]]. exact H.
    + split; [reflexivity|]. intros e [].
  - specialize (IH (collect2 acc e)). rewrite find_collect2 in IH.
    destruct (PM.find w (fold_left collect2 r (collect2 acc e))) as [l|].
    + destruct IH as [Hne Hin]. split.
      * destruct (PM.find w acc) as [x|] eqn:Ea; [left; discriminate|].
        destruct (PM.find w e) as [y|] eqn:Ee.
        -- right. exists e. split; [left; reflexivity|]. rewrite Ee. discriminate.
        -- destruct Hne as [Hne|[e' [He' Hn]]]; [congruence|].
           right. exists e'. split; [right; exact He'|exact Hn].
      * intros a. rewrite Hin. clear Hin Hne.
        assert (Hacc : rowT (match PM.find w acc, PM.find w e with
                             | None, None => None
                             | x, y => Some (orU x ++ orU y) end) a <->
                       rowT (PM.find w acc) a \/ rowT (PM.find w e) a).
        { destruct (PM.find w acc) as [x|], (PM.find w e) as [y|]; simpl;
            rewrite ?in_app_iff; simpl; intuition. }
        rewrite Hacc. split.
        -- intros [[H|H]|[e' [He' H]]]; [left; exact H|right; exists e; auto|right; exists e'; auto].
        -- intros [H|[e' [[->|He'] H]]]; [left; left; exact H|left; right; exact H|right; exists e'; auto].
    + destruct IH as [Hn Hall].
      destruct (PM.find w acc) as [x|], (PM.find w e) as [y|] eqn:Ee; try discriminate.
      split; [reflexivity|]. intros e' [->|He']; [exact Ee|apply Hall; exact He'].
Qed.

Section JoinT.
  Variable canon : list alt -> list alt.
  Hypothesis Hcanon : forall l a, In a (canon l) <-> In a l.

  Lemma find_join w es :
    match PM.find w (join canon es) with
    | None => forall e, In e es -> PM.find w e = None
    | Some l => (exists e, In e es /\ PM.find w e <> None) /\
                forall a, In a l <-> exists e, In e es /\ rowT (PM.find w e) a
    end.
  Proof.
    destruct es as [|e r]; simpl.
    - rewrite PM.gempty. intros e [].
    - destruct r as [|e' r'].
      + destruct (PM.find w e) as [l|] eqn:E.
        * split; [exists e; split; [left; reflexivity|congruence]|].
          intros a. split; [intros H; exists e; split; [left; reflexivity|rewrite E; exact H]|].
          intros [e0 [[->|[]] H]]. rewrite E in H. exact H.
        * intros e0 [->|[]]. exact E.
      + rewrite PM.gmapi.
        assert (H := find_fold_collect2 w (e' :: r') e).
        destruct (PM.find w (fold_left collect2 (e' :: r') e)) as [l|]; simpl.
        * destruct H as [Hne Hin]. split.
          -- destruct Hne as [Hne|[e0 [He0 Hn]]]; [exists e; split; [left; reflexivity|exact Hne]|].
             exists e0. split; [right; exact He0|exact Hn].
          -- intros a. rewrite Hcanon, Hin. split.
             ++ intros [H|[e0 [He0 H]]]; [exists e; split; [left; reflexivity|exact H]|exists e0; split; [right; exact He0|exact H]].
             ++ intros [e0 [[->|He0] H]]; [left; exact H|right; exists e0; auto].
        * destruct H as [Hn Hall]. intros e0 [->|He0]; [exact Hn|apply Hall; exact He0].
  Qed.

  (* the row of a join as a set: the union of the parents' rows (absent = undefined) *)
  Lemma T_join w es a : es <> [] ->
    (T (join canon es) w a <-> exists e, In e es /\ T e w a).
  Proof.
    intros Hne. unfold T. assert (H := find_join w es).
    destruct (PM.find w (join canon es)) as [l|]; simpl.
    - apply H.
    - split.
      + intros ->. destruct es as [|e r]; [congruence|]. exists e. split; [left; reflexivity|].
        rewrite (H e (or_introl eq_refl)). reflexivity.
      + intros [e [He Ha]]. rewrite (H e He) in Ha. exact Ha.
  Qed.

  Lemma join_row_ok w es : (forall e, In e es -> row_ok (PM.find w e)) -> row_ok (PM.find w (join canon es)).
  Proof.
    intros Hok. assert (H := find_join w es).
    destruct (PM.find w (join canon es)) as [l|]; simpl; [|exact I].
    destruct H as [[e [He Hn]] Hin]. specialize (Hok e He).
    destruct (PM.find w e) as [le|] eqn:E; [|congruence]. destruct Hok as [b Hb].
    exists b. apply Hin. exists e. split; [exact He|]. rewrite E. exact Hb.
  Qed.
End JoinT.

Lemma find_overlay w a b :
  PM.find w (overlay a b) = match PM.find w a with Some x => Some x | None => PM.find w b end.
Proof. unfold overlay. rewrite PM.gmap2 by reflexivity. destruct (PM.find w a); reflexivity. Qed.

Lemma find_hide_env w h e :
  PM.find w (hide_env h e) =
  match h with
  | Some hs => if existsb (Pos.eqb w) hs then None else PM.find w e
  | None => PM.find w e
  end.
Proof.
  destruct h as [hs|]; simpl; [|reflexivity]. revert e.
  induction hs as [|x r IH]; intros e; simpl; [reflexivity|].
  rewrite IH. destruct (Pos.eqb w x) eqn:E; simpl.
  - apply Pos.eqb_eq in E. subst. destruct (existsb (Pos.eqb x) r); [reflexivity|apply PM.grs].
  - apply Pos.eqb_neq in E. destruct (existsb (Pos.eqb w) r); [reflexivity|apply PM.gro; exact E].
Qed.

(* env_rel same_set is a congruence for the entry rule (from Part 1 of FlowGraphProofs) *)
Lemma entry_env_rel h es1 es2 : Forall2 (env_rel same_set) es1 es2 ->
  env_rel same_set (hide_env h (fold_right overlay (PM.empty _) es1))
                   (hide_env h (fold_right overlay (PM.empty _) es2)).
Proof. intros H. apply hide_env_rel. apply fold_overlay_rel. exact H. Qed.

Lemma entry_row_ok w h es : Forall env_ok es ->
  row_ok (PM.find w (hide_env h (fold_right overlay (PM.empty _) es))).
Proof.
  intros H. rewrite find_hide_env.
  assert (Hov : row_ok (PM.find w (fold_right overlay (PM.empty _) es))).
  { induction H as [|e r He Hr IH]; simpl; [rewrite PM.gempty; exact I|].
    rewrite find_overlay. specialize (He w). destruct (PM.find w e); [exact He|exact IH]. }
  destruct h as [hs|]; [|exact Hov]. destruct (existsb (Pos.eqb w) hs); [exact I|exact Hov].
Qed.

(* ---------------------------------------------------------------------------------------------- *)
(* Part B: walks                                                                                    *)
(* ---------------------------------------------------------------------------------------------- *)

Section Walks.
  Variable g : graph.
  Variable w : name.
  (* the row of name w that an entry flow (no parents) gets from its scope entry rule *)
  Variable Erow : nat -> option (list alt) -> Prop.

  Definition fbind (f : nat) : option bid :=
    match nth_error (flows g) f with Some fl => bind_of w (own fl) | None => None end.

  (* parent_names of f reads names of g0 (a loop in R is skipped) *)
  Definition pedge (R : list nat) (f g0 : nat) : Prop :=
    exists fl, nth_error (flows g) f = Some fl /\
      (In (Direct g0) (parents fl) \/
       exists l, In (Loop l) (parents fl) /\ ~ In l R /\ nth_error (loops g) l = Some g0).

  Definition is_entry (f : nat) (r : option (list alt)) : Prop :=
    exists fl, nth_error (flows g) f = Some fl /\ parents fl = [] /\ Erow f r.

  Definition nstep (R : list nat) (f g0 : nat) : Prop := fbind f = None /\ pedge R f g0.

  Definition nfinal (f : nat) (a : alt) : Prop :=
    (exists b, fbind f = Some b /\ a = ADef b) \/
    (fbind f = None /\ exists r, is_entry f r /\ rowT r a).

  (* npath R p f a: from names of f, through the flows p, to the alternative a *)
  Inductive npath (R : list nat) : list nat -> nat -> alt -> Prop :=
  | np_final f a : nfinal f a -> npath R [] f a
  | np_step f g0 p a : nstep R f g0 -> npath R p g0 a -> npath R (g0 :: p) f a.

  Definition NSem (R : list nat) (f : nat) (a : alt) : Prop := exists p, npath R p f a.
  Definition NSemS (R : list nat) (f : nat) (a : alt) : Prop := exists p, npath R p f a /\ NoDup (f :: p).

  Definition PSem (R : list nat) (f : nat) (a : alt) : Prop :=
    (exists r, is_entry f r /\ rowT r a) \/ exists g0, pedge R f g0 /\ NSem R g0 a.
  Definition PSemS (R : list nat) (f : nat) (a : alt) : Prop :=
    (exists r, is_entry f r /\ rowT r a) \/ exists g0, pedge R f g0 /\ NSemS R g0 a.

  Lemma pedge_mono R R' f g0 : (forall l, In l R' -> In l R) -> pedge R f g0 -> pedge R' f g0.
  Proof.
    intros H [fl [Hf [Hd|[l [Hl [Hn Ht]]]]]]; exists fl; split; auto.
    right. exists l. repeat split; auto.
  Qed.

  Lemma npath_mono R R' p f a : (forall l, In l R' -> In l R) -> npath R p f a -> npath R' p f a.
  Proof.
    intros H. induction 1 as [f a Hf|f g0 p a [Hb He] Hp IH].
    - apply np_final. exact Hf.
    - apply np_step; [split; [exact Hb|eapply pedge_mono; eauto]|exact IH].
  Qed.

  (* a walk that never lands on the target of loop l does not use l *)
  Lemma pedge_avoid R l f g0 : nth_error (loops g) l <> Some g0 -> pedge R f g0 -> pedge (l :: R) f g0.
  Proof.
    intros Hl [fl [Hf [Hd|[l' [Hl' [Hn Ht]]]]]]; exists fl; split; auto.
    right. exists l'. repeat split; auto. intros [E|E]; [subst; congruence|contradiction].
  Qed.

  Lemma npath_avoid R l p f a : (forall g0, In g0 p -> nth_error (loops g) l <> Some g0) ->
    npath R p f a -> npath (l :: R) p f a.
  Proof.
    intros H Hp. induction Hp as [f a Hf|f g0 p a [Hb He] Hp IH].
    - apply np_final. exact Hf.
    - apply np_step.
      + split; [exact Hb|]. apply pedge_avoid; [apply H; left; reflexivity|exact He].
      + apply IH. intros x Hx. apply H. right. exact Hx.
  Qed.

  Lemma npath_suffix R p1 : forall f g0 p2 a, npath R (p1 ++ g0 :: p2) f a -> npath R p2 g0 a.
  Proof.
    induction p1 as [|x p1 IH]; intros f g0 p2 a H; simpl in H.
    - inversion H; subst. assumption.
    - inversion H; subst. eapply IH; eauto.
  Qed.

  (* cycle cutting: every walk can be replaced by one that visits no flow twice *)
  Lemma npath_simple R : forall n p f a, length p <= n -> npath R p f a ->
    exists p', npath R p' f a /\ NoDup (f :: p') /\ incl p' p.
  Proof.
    induction n as [|n IH]; intros p f a Hlen Hp.
    - destruct p; [|simpl in Hlen; lia]. exists []. split; [exact Hp|].
      split; [constructor; [intros []|constructor]|intros x []].
    - destruct (in_dec Nat.eq_dec f p) as [Hin|Hnin].
      + destruct (in_split _ _ Hin) as [p1 [p2 E]]. subst p.
        assert (Hp2 := npath_suffix R p1 f f p2 a Hp).
        destruct (IH p2 f a) as [p' [H1 [H2 H3]]].
        * rewrite app_length in Hlen. simpl in Hlen. lia.
        * exact Hp2.
        * exists p'. split; [exact H1|]. split; [exact H2|].
          intros x Hx. apply in_or_app. right. right. apply H3. exact Hx.
      + destruct p as [|g0 p].
        * exists []. split; [exact Hp|]. split; [constructor; [intros []|constructor]|intros x []].
        * inversion Hp; subst.
          destruct (IH p g0 a) as [p' [Q1 [Q2 Q3]]]; [simpl in Hlen; lia|assumption|].
          exists (g0 :: p'). split; [apply np_step; assumption|]. split.
          -- constructor; [|exact Q2]. intros [E|E]; [apply Hnin; left; exact E|].
             apply Hnin. right. apply Q3. exact E.
          -- intros x [->|Hx]; [left; reflexivity|right; apply Q3; exact Hx].
  Qed.

  Lemma NSem_simple R f a : NSem R f a -> NSemS R f a.
  Proof.
    intros [p Hp]. destruct (npath_simple R (length p) p f a (le_n _) Hp) as [p' [H1 [H2 _]]].
    exists p'. split; assumption.
  Qed.

  Lemma PSem_simple R f a : PSem R f a -> PSemS R f a.
  Proof.
    intros [H|[g0 [He Hn]]]; [left; exact H|]. right. exists g0. split; [exact He|apply NSem_simple; exact Hn].
  Qed.

  Lemma NSemS_NSem R f a : NSemS R f a -> NSem R f a.
  Proof. intros [p [Hp _]]. exists p. exact Hp. Qed.

  Lemma NSem_mono R R' f a : (forall l, In l R' -> In l R) -> NSem R f a -> NSem R' f a.
  Proof. intros H [p Hp]. exists p. eapply npath_mono; eauto. Qed.
End Walks.

(* ---------------------------------------------------------------------------------------------- *)
(* Part C: the memo-free evaluation and the walks                                                   *)
(* ---------------------------------------------------------------------------------------------- *)

Lemma existsb_eqb_In l R : existsb (Nat.eqb l) R = true <-> In l R.
Proof.
  rewrite existsb_exists. split.
  - intros [x [Hx E]]. apply Nat.eqb_eq in E. subst. exact Hx.
  - intros H. exists l. split; [exact H|apply Nat.eqb_refl].
Qed.

Lemma existsb_eqb_nIn l R : existsb (Nat.eqb l) R = false <-> ~ In l R.
Proof. rewrite <- existsb_eqb_In. destruct (existsb (Nat.eqb l) R); split; congruence. Qed.

Lemma index_of_spec t : forall l i k, index_of t l i = Some k -> i <= k /\ nth_error l (k - i) = Some t.
Proof.
  induction l as [|x r IH]; intros i k; simpl; [discriminate|].
  destruct (Nat.eqb x t) eqn:E.
  - intros H. inversion H; subst. apply Nat.eqb_eq in E. subst. rewrite Nat.sub_diag. split; [lia|reflexivity].
  - intros H. destruct (IH _ _ H) as [H1 H2]. split; [lia|].
    replace (k - i) with (S (k - S i)) by lia. exact H2.
Qed.

Lemma closes_of_spec g f l : closes_of g f = Some l -> nth_error (loops g) l = Some f.
Proof.
  unfold closes_of. intros H. destruct (index_of_spec _ _ _ _ H) as [_ H2].
  rewrite Nat.sub_0_r in H2. exact H2.
Qed.

Section PureSem.
  Variable canon : list alt -> list alt.
  Hypothesis Hcanon : forall l a, In a (canon l) <-> In a l.
  Variable g : graph.
  Variable lv : nat -> nat.
  Hypothesis Hdir : forall f fl i, nth_error (flows g) f = Some fl -> In (Direct i) (parents fl) -> lv i = lv f.
  Hypothesis Hloop : forall f fl l, nth_error (flows g) f = Some fl -> In (Loop l) (parents fl) ->
    exists t, nth_error (loops g) l = Some t /\ lv t = lv f.
  Hypothesis Hchain : forall f fl c, nth_error (flows g) f = Some fl -> parents fl = [] -> In c (chain fl) -> lv c < lv f.
  Hypothesis Hhas : forall f fl, nth_error (flows g) f = Some fl -> parents fl <> [] -> exists i, In (Direct i) (parents fl).

  Definition llv (l : nat) : nat := match nth_error (loops g) l with Some t => lv t | None => 0 end.

  (* the loops being resolved belong to this or an inner scope level *)
  Definition ctx_ok (R : list nat) (f : nat) : Prop := forall l, In l R -> lv f <= llv l.

  Definition erow (w : name) (f : nat) (r : option (list alt)) : Prop :=
    exists fuel fl es, nth_error (flows g) f = Some fl /\ parents fl = [] /\
      sequence (map (names_pure canon g fuel []) (chain fl)) = Some es /\
      r = PM.find w (hide_env (hide fl) (fold_right overlay (PM.empty _) es)).

  Lemma gather_spec rec R : forall ps es, gather g rec R ps = Some es ->
    (forall e, In e es -> exists p, In p ps /\
        ((exists i, p = Direct i /\ rec R i = Some e) \/
         (exists l t, p = Loop l /\ ~ In l R /\ nth_error (loops g) l = Some t /\ rec (l :: R) t = Some e))) /\
    (forall i, In (Direct i) ps -> exists e, In e es /\ rec R i = Some e) /\
    (forall l, In (Loop l) ps -> ~ In l R ->
        exists t e, nth_error (loops g) l = Some t /\ In e es /\ rec (l :: R) t = Some e).
  Proof.
    induction ps as [|p r IH]; intros es; simpl.
    - intros H. inversion H; subst. repeat split; intros; contradiction.
    - destruct p as [i|l].
      + destruct (rec R i) as [e|] eqn:E; [|discriminate].
        destruct (gather g rec R r) as [es'|] eqn:E2; [|discriminate].
        intros H. inversion H; subst. destruct (IH _ eq_refl) as [A [B C]]. repeat split.
        * intros e0 [->|He0].
          -- exists (Direct i). split; [left; reflexivity|]. left. exists i. auto.
          -- destruct (A _ He0) as [p [Hp Hc]]. exists p. split; [right; exact Hp|exact Hc].
        * intros j [Ej|Hj]; [inversion Ej; subst; exists e; split; [left; reflexivity|exact E]|].
          destruct (B _ Hj) as [e0 [He0 Hr]]. exists e0. split; [right; exact He0|exact Hr].
        * intros l [El|Hl] Hn; [discriminate|].
          destruct (C _ Hl Hn) as [t [e0 [Ht [He0 Hr]]]]. exists t, e0. repeat split; auto. right. exact He0.
      + destruct (existsb (Nat.eqb l) R) eqn:Em.
        * intros H. destruct (IH _ H) as [A [B C]]. repeat split.
          -- intros e0 He0. destruct (A _ He0) as [p [Hp Hc]]. exists p. split; [right; exact Hp|exact Hc].
          -- intros j [Ej|Hj]; [discriminate|apply B; exact Hj].
          -- intros l' [El|Hl] Hn; [inversion El; subst; apply existsb_eqb_In in Em; contradiction|apply C; assumption].
        * destruct (nth_error (loops g) l) as [t|] eqn:Et; [|discriminate].
          destruct (rec (l :: R) t) as [e|] eqn:E; [|discriminate].
          destruct (gather g rec R r) as [es'|] eqn:E2; [|discriminate].
          intros H. inversion H; subst. destruct (IH _ eq_refl) as [A [B C]].
          apply existsb_eqb_nIn in Em. repeat split.
          -- intros e0 [->|He0].
             ++ exists (Loop l). split; [left; reflexivity|]. right. exists l, t. auto.
             ++ destruct (A _ He0) as [p [Hp Hc]]. exists p. split; [right; exact Hp|exact Hc].
          -- intros j [Ej|Hj]; [discriminate|].
             destruct (B _ Hj) as [e0 [He0 Hr]]. exists e0. split; [right; exact He0|exact Hr].
          -- intros l' [El|Hl] Hn.
             ++ inversion El; subst. exists t, e. repeat split; auto. left. reflexivity.
             ++ destruct (C _ Hl Hn) as [t' [e0 [Ht [He0 Hr]]]]. exists t', e0. repeat split; auto. right. exact He0.
  Qed.

  Lemma sequence_spec {A} (l : list (option A)) : forall xs, sequence l = Some xs -> l = map Some xs.
  Proof.
    induction l as [|x r IH]; intros xs; simpl.
    - intros H. inversion H. reflexivity.
    - destruct x as [x|]; [|discriminate]. destruct (sequence r) as [xs'|]; [|discriminate].
      intros H. inversion H; subst. simpl. f_equal. apply IH. reflexivity.
  Qed.

  (* --- frame: loops of inner scope levels do not matter --- *)
  Definition agree (n : nat) (R R' : list nat) : Prop := forall l, llv l <= n -> (In l R <-> In l R').

  Lemma agree_cons n l R R' : agree n R R' -> agree n (l :: R) (l :: R').
  Proof. intros H x Hx. simpl. rewrite (H x Hx). tauto. Qed.

  Lemma agree_le n m R R' : m <= n -> agree n R R' -> agree m R R'.
  Proof. intros Hle H x Hx. apply H. lia. Qed.

  Lemma existsb_agree n l R R' : agree n R R' -> llv l <= n ->
    existsb (Nat.eqb l) R = existsb (Nat.eqb l) R'.
  Proof.
    intros H Hl. destruct (existsb (Nat.eqb l) R) eqn:E1, (existsb (Nat.eqb l) R') eqn:E2; auto.
    - apply existsb_eqb_In in E1. apply existsb_eqb_nIn in E2. exfalso. apply E2. apply (H l Hl). exact E1.
    - apply existsb_eqb_nIn in E1. apply existsb_eqb_In in E2. exfalso. apply E1. apply (H l Hl). exact E2.
  Qed.

  Definition rec_frame (rec : list nat -> nat -> option env) : Prop :=
    forall R R' f e, rec R f = Some e -> agree (lv f) R R' -> rec R' f = Some e.

  Lemma gather_frame rec f fl : rec_frame rec -> nth_error (flows g) f = Some fl ->
    forall ps R R' es, incl ps (parents fl) -> agree (lv f) R R' ->
    gather g rec R ps = Some es -> gather g rec R' ps = Some es.
  Proof.
    intros Hrec Hf. induction ps as [|p r IH]; intros R R' es Hin Hag; simpl; [auto|].
    assert (Hr : incl r (parents fl)) by (intros x Hx; apply Hin; right; exact Hx).
    destruct p as [i|l].
    - assert (Hl : lv i = lv f) by (eapply Hdir; [exact Hf|apply Hin; left; reflexivity]).
      destruct (rec R i) as [e|] eqn:E; [|discriminate].
      rewrite (Hrec R R' i e E) by (rewrite Hl; exact Hag).
      destruct (gather g rec R r) as [es'|] eqn:E2; [|discriminate].
      rewrite (IH R R' es' Hr Hag E2). auto.
    - destruct (Hloop f fl l Hf (Hin _ (or_introl eq_refl))) as [t [Ht Hlt]].
      assert (Hll : llv l <= lv f) by (unfold llv; rewrite Ht; lia).
      rewrite <- (existsb_agree _ l R R' Hag Hll).
      destruct (existsb (Nat.eqb l) R); [apply IH; assumption|].
      rewrite Ht. destruct (rec (l :: R) t) as [e|] eqn:E; [|discriminate].
      rewrite (Hrec (l :: R) (l :: R') t e E) by (rewrite Hlt; apply agree_cons; exact Hag).
      destruct (gather g rec R r) as [es'|] eqn:E2; [|discriminate].
      rewrite (IH R R' es' Hr Hag E2). auto.
  Qed.

  Lemma names_pure_frame : forall fuel, rec_frame (names_pure canon g fuel).
  Proof.
    induction fuel as [|k IH]; intros R R' f e; simpl; [discriminate|].
    destruct (nth_error (flows g) f) as [fl|] eqn:Hf; [|discriminate].
    intros H Hag.
    destruct (closes_of g f) as [l|] eqn:Ec.
    - assert (Hll : llv l <= lv f) by (unfold llv; rewrite (closes_of_spec _ _ _ Ec); lia).
      rewrite <- (existsb_agree _ l R R' Hag Hll).
      destruct (existsb (Nat.eqb l) R).
      + revert H. unfold pnames_with. destruct (parents fl) as [|p ps] eqn:Ep.
        * destruct (sequence (map (names_pure canon g k R) (chain fl))) as [es|] eqn:Es; [|discriminate].
          assert (Hm : map (names_pure canon g k R') (chain fl) = map (names_pure canon g k R) (chain fl)).
          { apply sequence_spec in Es. apply map_ext_in. intros c Hc.
            assert (Hx : In (names_pure canon g k R c) (map (names_pure canon g k R) (chain fl))) by (apply in_map; exact Hc).
            rewrite Es in Hx. apply in_map_iff in Hx. destruct Hx as [e0 [He0 _]].
            rewrite <- He0. apply (IH R R' c e0); [auto|].
            eapply agree_le; [|exact Hag]. apply Nat.lt_le_incl. eapply Hchain; eauto. }
          rewrite Hm, Es. auto.
        * destruct (gather g (names_pure canon g k) R (p :: ps)) as [es|] eqn:Eg; [|discriminate].
          rewrite (gather_frame _ f fl IH Hf (p :: ps) R R' es) by (rewrite ?Ep; auto using incl_refl). auto.
      + intros. apply (IH (l :: R) (l :: R') f e); [assumption|apply agree_cons; exact Hag].
    - revert H. unfold pnames_with. destruct (parents fl) as [|p ps] eqn:Ep.
      + destruct (sequence (map (names_pure canon g k R) (chain fl))) as [es|] eqn:Es; [|discriminate].
        assert (Hm : map (names_pure canon g k R') (chain fl) = map (names_pure canon g k R) (chain fl)).
        { apply sequence_spec in Es. apply map_ext_in. intros c Hc.
          assert (Hx : In (names_pure canon g k R c) (map (names_pure canon g k R) (chain fl))) by (apply in_map; exact Hc).
          rewrite Es in Hx. apply in_map_iff in Hx. destruct Hx as [e0 [He0 _]].
          rewrite <- He0. apply (IH R R' c e0); [auto|].
          eapply agree_le; [|exact Hag]. apply Nat.lt_le_incl. eapply Hchain; eauto. }
        rewrite Hm, Es. auto.
      + destruct (gather g (names_pure canon g k) R (p :: ps)) as [es|] eqn:Eg; [|discriminate].
        rewrite (gather_frame _ f fl IH Hf (p :: ps) R R' es) by (rewrite ?Ep; auto using incl_refl). auto.
  Qed.

  (* the value of a flow does not depend on loops of inner levels: under a context of inner loops it
     is the value under the empty context *)
  Lemma frame_nil fuel R c e n : (forall l, In l R -> n <= llv l) -> lv c < n ->
    names_pure canon g fuel R c = Some e -> names_pure canon g fuel [] c = Some e.
  Proof.
    intros HR Hc H. apply (names_pure_frame fuel R [] c e H).
    intros l Hl. split; [|intros []]. intros Hin. specialize (HR l Hin). lia.
  Qed.

  Lemma names_pure_det n1 n2 R f e1 e2 :
    names_pure canon g n1 R f = Some e1 -> names_pure canon g n2 R f = Some e2 -> e1 = e2.
  Proof.
    intros H1 H2.
    assert (A := names_pure_mono canon g n1 (Nat.max n1 n2) ltac:(lia) R f e1 H1).
    assert (B := names_pure_mono canon g n2 (Nat.max n1 n2) ltac:(lia) R f e2 H2).
    congruence.
  Qed.

  Lemma sequence_det n1 n2 R cs es1 es2 :
    sequence (map (names_pure canon g n1 R) cs) = Some es1 ->
    sequence (map (names_pure canon g n2 R) cs) = Some es2 -> es1 = es2.
  Proof.
    intros H1 H2.
    assert (A := sequence_mono _ _ R (names_pure_mono canon g n1 (Nat.max n1 n2) ltac:(lia)) cs es1 H1).
    assert (B := sequence_mono _ _ R (names_pure_mono canon g n2 (Nat.max n1 n2) ltac:(lia)) cs es2 H2).
    congruence.
  Qed.

  Lemma sequence_frame fuel R f fl es : nth_error (flows g) f = Some fl -> parents fl = [] -> ctx_ok R f ->
    sequence (map (names_pure canon g fuel R) (chain fl)) = Some es ->
    sequence (map (names_pure canon g fuel []) (chain fl)) = Some es.
  Proof.
    intros Hf Hp Hctx Es.
    assert (Hm : map (names_pure canon g fuel []) (chain fl) = map (names_pure canon g fuel R) (chain fl)).
    { assert (Es' := sequence_spec _ _ Es). apply map_ext_in. intros c Hc.
      assert (Hx : In (names_pure canon g fuel R c) (map (names_pure canon g fuel R) (chain fl))) by (apply in_map; exact Hc).
      rewrite Es' in Hx. apply in_map_iff in Hx. destruct Hx as [e0 [He0 _]].
      rewrite <- He0. apply (frame_nil fuel R c e0 (lv f)); [exact Hctx|eapply Hchain; eauto|auto]. }
    rewrite Hm. exact Es.
  Qed.

  Lemma fbind_own w f fl : nth_error (flows g) f = Some fl -> fbind g w f = bind_of w (own fl).
  Proof. intros H. unfold fbind. rewrite H. reflexivity. Qed.

  (* --- soundness: everything the evaluation returns is reached by a walk --- *)
  Definition rec_sound (rec : list nat -> nat -> option env) : Prop :=
    forall R f e, rec R f = Some e -> ctx_ok R f ->
      forall w, row_ok (PM.find w e) /\ forall a, T e w a -> NSem g w (erow w) R f a.

  Lemma ctx_ok_cons R f l t : ctx_ok R f -> nth_error (loops g) l = Some t -> lv t = lv f -> ctx_ok (l :: R) t.
  Proof.
    intros H Ht Hl x [->|Hx]; [unfold llv; rewrite Ht; lia|]. rewrite Hl. apply H. exact Hx.
  Qed.

  Lemma pnames_sound k R f fl pe : rec_sound (names_pure canon g k) ->
    nth_error (flows g) f = Some fl -> ctx_ok R f ->
    pnames_with canon g (names_pure canon g k) R fl = Some pe ->
    forall w, row_ok (PM.find w pe) /\ forall a, T pe w a -> PSem g w (erow w) R f a.
  Proof.
    intros IH Hf Hctx. unfold pnames_with. destruct (parents fl) as [|p ps] eqn:Ep.
    - destruct (sequence (map (names_pure canon g k R) (chain fl))) as [es|] eqn:Es; [|discriminate].
      intros H w. inversion H; subst pe. clear H. split.
      + apply entry_row_ok. rewrite Forall_forall. intros e He.
        assert (Es' := sequence_spec _ _ Es).
        assert (Hx : In (Some e) (map (names_pure canon g k R) (chain fl))) by (rewrite Es'; apply in_map; exact He).
        apply in_map_iff in Hx. destruct Hx as [c [Hc Hcin]].
        intros w'. destruct (IH R c e Hc) with (w := w') as [Hok _]; [|exact Hok].
        intros l Hl. specialize (Hctx l Hl). assert (lv c < lv f) by (eapply Hchain; eauto). lia.
      + intros a Ha. left. eexists. split; [|exact Ha].
        exists fl. repeat split; auto. exists k, fl, es. repeat split; auto.
        eapply sequence_frame; eauto.
    - destruct (gather g (names_pure canon g k) R (p :: ps)) as [es|] eqn:Eg; [|discriminate].
      intros H w. inversion H; subst pe. clear H.
      destruct (gather_spec _ _ _ _ Eg) as [A [B C]].
      assert (Hne : es <> []).
      { destruct (Hhas f fl Hf) as [i Hi]; [rewrite Ep; discriminate|]. rewrite Ep in Hi.
        destruct (B i Hi) as [e [He _]]. intros ->. contradiction. }
      assert (Hes : forall e, In e es -> row_ok (PM.find w e) /\ forall a, T e w a -> PSem g w (erow w) R f a).
      { intros e He. destruct (A e He) as [q [Hq [[i [-> Hr]]|[l [t [-> [Hn [Ht Hr]]]]]]]].
        - rewrite <- Ep in Hq. assert (Hl := Hdir f fl i Hf Hq).
          destruct (IH R i e Hr) with (w := w) as [Hok Hs]; [intros x Hx; rewrite Hl; apply Hctx; exact Hx|].
          split; [exact Hok|]. intros a Ha. right. exists i. split; [exists fl; split; auto|apply Hs; exact Ha].
        - rewrite <- Ep in Hq. destruct (Hloop f fl l Hf Hq) as [t' [Ht' Hl]].
          rewrite Ht in Ht'. inversion Ht'; subst t'.
          destruct (IH (l :: R) t e Hr) with (w := w) as [Hok Hs]; [eapply ctx_ok_cons; eauto|].
          split; [exact Hok|]. intros a Ha. right. exists t. split.
          + exists fl. split; [exact Hf|]. right. exists l. auto.
          + eapply NSem_mono; [|apply Hs; exact Ha]. intros x Hx. right. exact Hx. }
      split.
      + apply join_row_ok; [exact Hcanon|]. intros e He. apply Hes. exact He.
      + intros a Ha. apply (T_join canon Hcanon w es a Hne) in Ha. destruct Ha as [e [He Ha]].
        apply (Hes e He). exact Ha.
  Qed.

  Lemma PSem_NSem w R f fl a : nth_error (flows g) f = Some fl -> bind_of w (own fl) = None ->
    PSem g w (erow w) R f a -> NSem g w (erow w) R f a.
  Proof.
    intros Hf Hb [[r [He Hr]]|[g0 [He [p Hp]]]].
    - exists []. apply np_final. right. split; [rewrite (fbind_own w f fl Hf); exact Hb|]. exists r. auto.
    - exists (g0 :: p). apply np_step; [|exact Hp]. split; [rewrite (fbind_own w f fl Hf); exact Hb|exact He].
  Qed.

  Lemma names_pure_sound : forall fuel, rec_sound (names_pure canon g fuel).
  Proof.
    induction fuel as [|k IH]; intros R f e; simpl; [discriminate|].
    destruct (nth_error (flows g) f) as [fl|] eqn:Hf; [|discriminate].
    intros H Hctx w.
    assert (Hnormal : forall pe, pnames_with canon g (names_pure canon g k) R fl = Some pe ->
              row_ok (PM.find w (own_env (own fl) pe)) /\
              forall a, T (own_env (own fl) pe) w a -> NSem g w (erow w) R f a).
    { intros pe Hpe. destruct (pnames_sound k R f fl pe IH Hf Hctx Hpe w) as [Hok Hs].
      unfold T. rewrite find_own_env. destruct (bind_of w (own fl)) as [b|] eqn:Eb.
      - split; [exists b; left; reflexivity|]. intros a [<-|[]]. exists []. apply np_final. left. exists b.
        split; [rewrite (fbind_own w f fl Hf); exact Eb|reflexivity].
      - split; [exact Hok|]. intros a Ha. eapply PSem_NSem; eauto. }
    destruct (closes_of g f) as [l|] eqn:Ec.
    - destruct (existsb (Nat.eqb l) R) eqn:Em.
      + destruct (pnames_with canon g (names_pure canon g k) R fl) as [pe|] eqn:Epe; [|discriminate].
        inversion H; subst e. apply Hnormal. reflexivity.
      + assert (Ht := closes_of_spec _ _ _ Ec).
        destruct (IH (l :: R) f e H) with (w := w) as [Hok Hs]; [eapply ctx_ok_cons; eauto|].
        split; [exact Hok|]. intros a Ha. eapply NSem_mono; [|apply Hs; exact Ha]. intros x Hx. right. exact Hx.
    - destruct (pnames_with canon g (names_pure canon g k) R fl) as [pe|] eqn:Epe; [|discriminate].
      inversion H; subst e. apply Hnormal. reflexivity.
  Qed.

  (* --- completeness: every walk that visits no flow twice is found by the evaluation --- *)
  Definition rec_complete (rec : list nat -> nat -> option env) : Prop :=
    forall R f e, rec R f = Some e -> ctx_ok R f ->
      forall w p a, npath g w (erow w) R p f a -> NoDup (f :: p) -> T e w a.

  Lemma pnames_complete k R f fl pe : rec_complete (names_pure canon g k) ->
    nth_error (flows g) f = Some fl -> ctx_ok R f ->
    pnames_with canon g (names_pure canon g k) R fl = Some pe ->
    forall w a, PSemS g w (erow w) R f a -> T pe w a.
  Proof.
    intros IH Hf Hctx. unfold pnames_with. destruct (parents fl) as [|p0 ps] eqn:Ep.
    - destruct (sequence (map (names_pure canon g k R) (chain fl))) as [es|] eqn:Es; [|discriminate].
      intros H w a. inversion H; subst pe. clear H.
      intros [[r [[fl' [Hf' [_ [n [fl'' [es' [Hf'' [_ [Es' ->]]]]]]]]] Hr]]|[g0 [[fl' [Hf' He]] _]]].
      + rewrite Hf in Hf', Hf''. inversion Hf'; inversion Hf''; subst fl' fl''.
        assert (Es0 := sequence_frame k R f fl es Hf Ep Hctx Es).
        rewrite (sequence_det _ _ _ _ _ _ Es0 Es'). exact Hr.
      + rewrite Hf in Hf'. inversion Hf'; subst fl'. rewrite Ep in He.
        destruct He as [[]|[l [[] _]]].
    - destruct (gather g (names_pure canon g k) R (p0 :: ps)) as [es|] eqn:Eg; [|discriminate].
      intros H w a. inversion H; subst pe. clear H.
      destruct (gather_spec _ _ _ _ Eg) as [A [B C]].
      assert (Hne : es <> []).
      { destruct (Hhas f fl Hf) as [i Hi]; [rewrite Ep; discriminate|]. rewrite Ep in Hi.
        destruct (B i Hi) as [e [He _]]. intros ->. contradiction. }
      intros [[r [[fl' [Hf' [Hp' _]]] _]]|[g0 [[fl' [Hf' He]] [p [Hp Hnd]]]]].
      + rewrite Hf in Hf'. inversion Hf'; subst fl'. congruence.
      + rewrite Hf in Hf'. inversion Hf'; subst fl'. rewrite Ep in He.
        apply (T_join canon Hcanon w es a Hne).
        destruct He as [Hd|[l [Hl [Hn Ht]]]].
        * destruct (B g0 Hd) as [e [He Hr]]. exists e. split; [exact He|].
          rewrite <- Ep in Hd. assert (Hlv := Hdir f fl g0 Hf Hd).
          apply (IH R g0 e Hr) with (p := p); [intros x Hx; rewrite Hlv; apply Hctx; exact Hx|exact Hp|exact Hnd].
        * destruct (C l Hl Hn) as [t [e [Ht' [He Hr]]]]. rewrite Ht in Ht'. inversion Ht'; subst t.
          exists e. split; [exact He|].
          rewrite <- Ep in Hl. destruct (Hloop f fl l Hf Hl) as [t' [Ht'' Hlv]].
          rewrite Ht in Ht''. inversion Ht''; subst t'.
          apply (IH (l :: R) g0 e Hr) with (p := p); [eapply ctx_ok_cons; eauto| |exact Hnd].
          apply npath_avoid; [|exact Hp]. intros x Hx E. rewrite Ht in E. inversion E; subst x.
          inversion Hnd; subst. contradiction.
  Qed.

  Lemma names_pure_complete : forall fuel, rec_complete (names_pure canon g fuel).
  Proof.
    induction fuel as [|k IH]; intros R f e; simpl; [discriminate|].
    destruct (nth_error (flows g) f) as [fl|] eqn:Hf; [|discriminate].
    intros H Hctx w p a Hp Hnd.
    assert (Hnormal : forall pe, pnames_with canon g (names_pure canon g k) R fl = Some pe ->
              T (own_env (own fl) pe) w a).
    { intros pe Hpe. unfold T. rewrite find_own_env.
      assert (Hc := pnames_complete k R f fl pe IH Hf Hctx Hpe w a).
      inversion Hp as [f0 a0 Hfin|f0 g0 p' a0 [Hb He] Hp']; subst.
      - destruct Hfin as [[b [Hb ->]]|[Hb [r [He Hr]]]].
        + rewrite (fbind_own w f fl Hf) in Hb. rewrite Hb. left. reflexivity.
        + rewrite (fbind_own w f fl Hf) in Hb. rewrite Hb. apply Hc. left. exists r. auto.
      - rewrite (fbind_own w f fl Hf) in Hb. rewrite Hb. apply Hc. right. exists g0. split; [exact He|].
        exists p'. split; [exact Hp'|]. inversion Hnd; assumption. }
    destruct (closes_of g f) as [l|] eqn:Ec.
    - destruct (existsb (Nat.eqb l) R) eqn:Em.
      + destruct (pnames_with canon g (names_pure canon g k) R fl) as [pe|] eqn:Epe; [|discriminate].
        inversion H; subst e. apply Hnormal. reflexivity.
      + assert (Ht := closes_of_spec _ _ _ Ec).
        apply (IH (l :: R) f e H) with (p := p); [eapply ctx_ok_cons; eauto| |exact Hnd].
        apply npath_avoid; [|exact Hp]. intros x Hx E. rewrite Ht in E. inversion E; subst x.
        inversion Hnd; subst. contradiction.
    - destruct (pnames_with canon g (names_pure canon g k) R fl) as [pe|] eqn:Epe; [|discriminate].
      inversion H; subst e. apply Hnormal. reflexivity.
  Qed.
End PureSem.
