(* C01, name level, one scope: whatever way control leaves a construct (return, break, continue,
   an exception raised anywhere and caught by any enclosing try, finally clauses), every name
   that is bound at run time when a read executes has a definition among the alternatives supp
   lists for that read. Proved for the interpreter runX of Model/SemX.v, for every command, every
   amount of fuel and every decision list. *)
From Coq Require Import List Bool Arith NArith Lia.
Import ListNotations.
From Supp Require Import Model.PyCore Model.Reach Model.Sem Model.SemX Proofs.ReachProofs Proofs.ReachCorollaries.

Notation defd s x := (exists d, In (Some d) (s x)) (only parsing).
Definition dabs (p : renv) (s : aenv) : Prop := forall x d, p x = Some d -> defd s x.
Definition dsub (s t : aenv) : Prop := forall x, defd s x -> defd t x.
Definition vis (c : cmd) (s : aenv) (r : site) : Prop := visible c s r = true.

Definition goodE (E : aenv) (V : site -> Prop) (res : resX) : Prop :=
  match res with
  | DoneX p' tr o _ => dabs p' E /\ forall r d, In (r, Some d) tr -> V r
  | _ => True
  end.
Definition good (c : cmd) (s : aenv) (res : resX) : Prop := goodE (an c s) (vis c s) res.

Lemma sub_dsub s t : sub s t -> dsub s t.
Proof. intros H x [d Hd]. exists d. apply H, Hd. Qed.
Lemma dsub_refl s : dsub s s. Proof. intros x H; exact H. Qed.
Lemma dsub_trans s t u : dsub s t -> dsub t u -> dsub s u.
Proof. intros A B x H. apply B, A, H. Qed.
Lemma dabs_dsub p s t : dabs p s -> dsub s t -> dabs p t.
Proof. intros A B x d H. apply B, (A x d H). Qed.

Lemma an_ext c s : dsub s (an c s).
Proof. intros x H. apply (proj1 defined_both). left. exact H. Qed.

Lemma an_h_ext hs hin acc : dsub acc (an_h hs hin acc).
Proof. apply sub_dsub, an_h_acc. Qed.

Lemma dsub_bind_opt nm s : dsub s (bind_opt_a nm s).
Proof.
  destruct nm as [[d y]|]; simpl; [|apply dsub_refl].
  intros x [d0 H]. unfold upd. destruct (N.eqb x y); [exists d; left; reflexivity|exists d0; exact H].
Qed.

Lemma dabs_bind_opt nm p s : dabs p s -> dabs (bind_opt_r nm p) (bind_opt_a nm s).
Proof.
  destruct nm as [[d y]|]; simpl; [|auto].
  intros A x d0. unfold upd. destruct (N.eqb x y).
  - intros _. exists d. left. reflexivity.
  - apply A.
Qed.

Lemma dabs_upd p s x d : dabs p s -> dabs (upd p x (Some d)) (upd s x [Some d]).
Proof. intros A. apply (dabs_bind_opt (Some (d, x)) p s A). Qed.

Lemma vis_of_subl c s c' s' r : subl (seen c s r) (seen c' s' r) -> vis c s r -> vis c' s' r.
Proof.
  unfold vis, visible. intros H E. apply existsb_exists in E as [a [Ha Hd]].
  apply existsb_exists. exists a. split; [apply H, Ha|exact Hd].
Qed.

Lemma vis_mono c s t r : sub s t -> vis c s r -> vis c t r.
Proof. intros H. apply vis_of_subl, seen_mono, H. Qed.

Lemma goodE_weaken E E' (V V' : site -> Prop) res :
  dsub E E' -> (forall r, V r -> V' r) -> goodE E V res -> goodE E' V' res.
Proof.
  destruct res as [p tr o ds| |]; simpl; auto.
  intros A B [C D]. split; [eapply dabs_dsub; eauto|]. intros r d H. apply B, (D r d H).
Qed.

Lemma goodE_prepend E (V : site -> Prop) t res :
  (forall r d, In (r, Some d) t -> V r) -> goodE E V res -> goodE E V (prependX t res).
Proof.
  destruct res as [p tr o ds| |]; simpl; auto.
  intros A [C D]. split; [exact C|]. intros r d H. apply in_app_iff in H as [H|H]; eauto.
Qed.

Lemma goodE_thenX E1 E2 (V : site -> Prop) r1 k :
  goodE E1 V r1 -> dsub E1 E2 ->
  (forall p1 ds1, dabs p1 E1 -> goodE E2 V (k p1 ds1)) ->
  goodE E2 V (thenX r1 k).
Proof.
  destruct r1 as [p1 t1 o1 ds1| |]; simpl; auto.
  intros [A B] HE Hk.
  destruct o1; simpl; try (split; [eapply dabs_dsub; eauto|exact B]).
  apply goodE_prepend; [exact B|apply Hk, A].
Qed.

Lemma goodE_after_body Eb E2 (V : site -> Prop) again rb :
  goodE Eb V rb -> dsub Eb E2 ->
  (forall p2 ds3, dabs p2 Eb -> goodE E2 V (again p2 ds3)) ->
  goodE E2 V (after_bodyX again rb).
Proof.
  destruct rb as [p2 tb ob ds3| |]; simpl; auto.
  intros [A B] HE Hk.
  destruct ob; simpl; try (split; [eapply dabs_dsub; eauto|exact B]);
    (apply goodE_prepend; [exact B|apply Hk, A]).
Qed.

Lemma subl_app_l {A} (l m : list A) : subl l (l ++ m).
Proof. intros a H. apply in_or_app; left; exact H. Qed.
Lemma subl_app_r {A} (l m : list A) : subl m (l ++ m).
Proof. intros a H. apply in_or_app; right; exact H. Qed.
Lemma subl_trans {A} (l m n : list A) : subl l m -> subl m n -> subl l n.
Proof. intros P Q a H. apply Q, P, H. Qed.

Section Step.
  Variable rec : cmd -> renv -> list nat -> resX.
  Hypothesis Hrec : forall c p ds s, dabs p s -> good c s (rec c p ds).

  Lemma rec_good c p ds s E (V : site -> Prop) :
    dabs p s -> dsub (an c s) E -> (forall r, vis c s r -> V r) -> goodE E V (rec c p ds).
  Proof. intros A B C. eapply goodE_weaken; [exact B|exact C|apply Hrec, A]. Qed.

  Section TryCase.
    Variables (rf rl : bool) (b : cmd) (hs : hlist) (e f : cmd) (s : aenv).
    Let sb := an b s.
    Let hin := join s sb.
    Let J := an_h hs hin (an e sb).
    Let V := vis (Try rf b rl hs e f) s.

    Lemma Vb r : vis b s r -> V r.
    Proof. apply vis_of_subl. simpl. apply subl_app_l. Qed.
    Lemma Vh i ty nm hb r : hnth hs i = Some (ty, nm, hb) ->
      vis ty hin r \/ vis hb (bind_opt_a nm (an ty hin)) r -> V r.
    Proof.
      intros Hn H.
      assert (Hs : subl (seen ty hin r ++ seen hb (bind_opt_a nm (an ty hin)) r) (seen (Try rf b rl hs e f) s r)).
      { simpl. fold sb hin. eapply subl_trans; [eapply seen_h_nth; exact Hn|].
        eapply subl_trans; [|apply subl_app_r]. apply subl_app_l. }
      unfold V, vis, visible in *. destruct H as [H|H]; apply existsb_exists in H as [a [Ha Hd]];
        apply existsb_exists; exists a; (split; [apply Hs; apply in_or_app; auto|exact Hd]).
    Qed.
    Lemma Ve r : vis e sb r -> V r.
    Proof.
      apply vis_of_subl. simpl. fold sb hin.
      eapply subl_trans; [|apply subl_app_r]. eapply subl_trans; [|apply subl_app_r]. apply subl_app_l.
    Qed.
    Lemma Vf r : vis f J r -> V r.
    Proof.
      apply vis_of_subl. simpl. fold sb hin J.
      eapply subl_trans; [|apply subl_app_r]. eapply subl_trans; [|apply subl_app_r]. apply subl_app_r.
    Qed.

    Lemma sb_J : dsub sb J.
    Proof. eapply dsub_trans; [apply (an_ext e)|apply an_h_ext]. Qed.
    Lemma hin_J : dsub hin J.
    Proof.
      intros x [d H]. unfold hin, join in H. apply in_app_iff in H as [H|H].
      - apply sb_J. apply (an_ext b). exists d; exact H.
      - apply sb_J. exists d; exact H.
    Qed.

    Lemma dispatch_good i p0 ds0 : dabs p0 hin -> goodE J V (dispatchX rec hs i p0 ds0).
    Proof.
      intros A. unfold dispatchX. destruct (hnth hs i) as [[[ty nm] hb]|] eqn:Hn.
      - assert (Hout : sub (an hb (bind_opt_a nm (an ty hin))) J) by (eapply an_h_nth; exact Hn).
        eapply (goodE_thenX (an ty hin)).
        + apply rec_good with (s := hin); [exact A|apply dsub_refl|]. intros r Hr. eapply Vh; [exact Hn|left; exact Hr].
        + eapply dsub_trans; [apply dsub_bind_opt|]. eapply dsub_trans; [apply an_ext|apply sub_dsub, Hout].
        + intros p1 ds1 A1. apply rec_good with (s := bind_opt_a nm (an ty hin)); [apply dabs_bind_opt, A1|apply sub_dsub, Hout|].
          intros r Hr. eapply Vh; [exact Hn|right; exact Hr].
      - simpl. split; [eapply dabs_dsub; [exact A|apply hin_J]|intros r d []].
    Qed.

    Lemma try_body_good p ds0 : dabs p s -> goodE J V (try_bodyX rec b rl hs e p ds0).
    Proof.
      intros A. unfold try_bodyX.
      pose proof (Hrec b p ds0 s A) as Hb. unfold good in Hb. fold sb in Hb.
      destruct (rec b p ds0) as [pb tb ob ds1| |]; simpl; auto.
      destruct Hb as [Ab Bb].
      assert (Btb : forall r d, In (r, Some d) tb -> V r) by (intros r d H; apply Vb, (Bb r d H)).
      assert (Ahin : dabs pb hin) by (eapply dabs_dsub; [exact Ab|apply sub_dsub, sub_join_r]).
      assert (Helse : forall ds2, goodE J V (prependX tb (rec e pb ds2))).
      { intros ds2. apply goodE_prepend; [exact Btb|].
        apply rec_good with (s := sb); [exact Ab|apply an_h_ext|apply Ve]. }
      destruct ob; simpl.
      - destruct rl; [|apply Helse].
        destruct ds1 as [|[|i] ds2]; simpl; auto.
        apply goodE_prepend; [exact Btb|apply dispatch_good, Ahin].
      - split; [eapply dabs_dsub; [exact Ab|apply sb_J]|exact Btb].
      - split; [eapply dabs_dsub; [exact Ab|apply sb_J]|exact Btb].
      - split; [eapply dabs_dsub; [exact Ab|apply sb_J]|exact Btb].
      - apply goodE_prepend; [exact Btb|apply dispatch_good, Ahin].
    Qed.

    Lemma fin_good r : goodE J V r -> goodE (an f J) V (finX rec f r).
    Proof.
      destruct r as [p2 t2 o1 ds2| |]; simpl; auto.
      intros [A B].
      pose proof (Hrec f p2 ds2 J A) as Hf. unfold good in Hf.
      destruct (rec f p2 ds2) as [p3 tf o2 ds3| |]; simpl; auto.
      destruct Hf as [Af Bf]. split; [exact Af|].
      intros r d H. apply in_app_iff in H as [H|H]; [eauto|apply Vf, (Bf r d H)].
    Qed.

    Lemma try_good p ds : dabs p s -> good (Try rf b rl hs e f) s (stepX rec (Try rf b rl hs e f) p ds).
    Proof.
      intros A. unfold good. simpl an. fold sb hin J. fold V. simpl stepX.
      assert (Ahin : dabs p hin) by (eapply dabs_dsub; [exact A|apply sub_dsub, sub_join_l]).
      destruct rf.
      - destruct ds as [|[|i] ds0]; simpl; auto.
        + apply fin_good, try_body_good, A.
        + apply fin_good, dispatch_good, Ahin.
      - apply fin_good, try_body_good, A.
    Qed.
  End TryCase.

  Lemma step_good c : forall p ds s, dabs p s -> good c s (stepX rec c p ds).
  Proof.
    destruct c as [|a b|d x|r x|a b|t b e|tg b e|rf b rl hs e f|k]; intros p ds s A.
    - (* Skip *) simpl. split; [exact A|intros r d []].
    - (* Seq *)
      unfold good. simpl an. simpl stepX.
      eapply (goodE_thenX (an a s)).
      + apply rec_good with (s := s); [exact A|apply dsub_refl|]. intros r. apply vis_of_subl. simpl. apply subl_app_l.
      + apply an_ext.
      + intros p1 ds1 A1. apply rec_good with (s := an a s); [exact A1|apply dsub_refl|].
        intros r. apply vis_of_subl. simpl. apply subl_app_r.
    - (* Bind *) simpl. split; [apply dabs_upd, A|intros r0 d0 []].
    - (* Read *)
      simpl. split; [exact A|]. intros r0 d0 [H|[]]. injection H as <- Hp.
      unfold vis, visible. simpl. rewrite N.eqb_refl.
      destruct (A x d0 Hp) as [d1 Hd]. apply existsb_exists. exists (Some d1). split; [exact Hd|reflexivity].
    - (* Branch *)
      unfold good. simpl an. simpl stepX. destruct ds as [|[|n] ds']; simpl; auto.
      + apply rec_good with (s := s); [exact A|apply sub_dsub, sub_join_l|]. intros r. apply vis_of_subl. simpl. apply subl_app_l.
      + apply rec_good with (s := s); [exact A|apply sub_dsub, sub_join_r|]. intros r. apply vis_of_subl. simpl. apply subl_app_r.
    - (* While *)
      unfold good. simpl an. simpl stepX.
      set (Hd := join s (an b (an t s))).
      assert (AH : dabs p Hd) by (eapply dabs_dsub; [exact A|apply sub_dsub, sub_join_l]).
      assert (HF : sub (an b (an t Hd)) Hd) by (apply (head_F (fun s => an b (an t s)) (gk_comp2 t b) s)).
      destruct (while_head t b e s) as [W1 W2]. fold Hd in W1, W2.
      assert (Vt : forall r, vis t Hd r -> vis (While t b e) s r).
      { intros r. apply vis_of_subl. simpl. fold Hd. apply subl_app_l. }
      assert (Vb : forall r, vis b (an t Hd) r -> vis (While t b e) s r).
      { intros r. apply vis_of_subl. simpl. fold Hd. eapply subl_trans; [|apply subl_app_r]. apply subl_app_l. }
      assert (Ve : forall r, vis e (an t Hd) r -> vis (While t b e) s r).
      { intros r. apply vis_of_subl. simpl. fold Hd. eapply subl_trans; [|apply subl_app_r]. apply subl_app_r. }
      eapply (goodE_thenX (an t Hd)).
      + apply rec_good with (s := Hd); [exact AH|apply dsub_refl|exact Vt].
      + apply an_ext.
      + intros p1 ds1 A1. destruct ds1 as [|[|n] ds2]; simpl; auto.
        * apply rec_good with (s := an t Hd); [exact A1|apply dsub_refl|exact Ve].
        * eapply (goodE_after_body (an b (an t Hd))).
          -- apply rec_good with (s := an t Hd); [exact A1|apply dsub_refl|exact Vb].
          -- eapply dsub_trans; [apply sub_dsub, HF|]. eapply dsub_trans; [apply (an_ext t)|apply an_ext].
          -- intros p2 ds3 A2.
             assert (A2H : dabs p2 Hd) by (eapply dabs_dsub; [exact A2|apply sub_dsub, HF]).
             eapply goodE_weaken; [apply sub_dsub, W1| |apply (Hrec (While t b e) p2 ds3 Hd A2H)].
             intros r. apply vis_of_subl, W2.
    - (* For *)
      unfold good. simpl an. simpl stepX.
      set (Hd := join s (an b (an tg s))).
      set (B2 := an b (an tg Hd)).
      assert (AH : dabs p Hd) by (eapply dabs_dsub; [exact A|apply sub_dsub, sub_join_l]).
      assert (HF : sub B2 Hd) by (apply (head_F (fun s => an b (an tg s)) (gk_comp2 tg b) s)).
      destruct (for_head tg b e s) as [W1 W2]. fold Hd in W1, W2.
      assert (Vt : forall r, vis tg Hd r -> vis (For tg b e) s r).
      { intros r. apply vis_of_subl. simpl. fold Hd. apply subl_app_l. }
      assert (Vb : forall r, vis b (an tg Hd) r -> vis (For tg b e) s r).
      { intros r. apply vis_of_subl. simpl. fold Hd. eapply subl_trans; [|apply subl_app_r]. apply subl_app_l. }
      assert (Ve : forall r, vis e (join s B2) r -> vis (For tg b e) s r).
      { intros r. apply vis_of_subl. simpl. fold Hd B2. eapply subl_trans; [|apply subl_app_r]. apply subl_app_r. }
      assert (Hout : dsub Hd (an e (join s B2))).
      { eapply dsub_trans; [|apply an_ext]. intros x [d H]. unfold Hd, join in H. apply in_app_iff in H as [H|H].
        - exists d. unfold join. apply in_or_app; left; exact H.
        - exists d. unfold join. apply in_or_app; right.
          apply (an_mono b (an tg s) (an tg Hd)); [apply an_mono, sub_join_l|exact H]. }
      destruct ds as [|[|n] ds1]; simpl; auto.
      + apply rec_good with (s := join s B2); [eapply dabs_dsub; [exact A|apply sub_dsub, sub_join_l]|apply dsub_refl|exact Ve].
      + eapply (goodE_thenX (an tg Hd)).
        * apply rec_good with (s := Hd); [exact AH|apply dsub_refl|exact Vt].
        * eapply dsub_trans; [apply (an_ext b)|]. eapply dsub_trans; [apply sub_dsub, HF|exact Hout].
        * intros p1 ds2 A1.
          eapply (goodE_after_body B2).
          -- apply rec_good with (s := an tg Hd); [exact A1|apply dsub_refl|exact Vb].
          -- eapply dsub_trans; [apply sub_dsub, HF|exact Hout].
          -- intros p2 ds3 A2.
             assert (A2H : dabs p2 Hd) by (eapply dabs_dsub; [exact A2|apply sub_dsub, HF]).
             eapply goodE_weaken; [apply sub_dsub, W1| |apply (Hrec (For tg b e) p2 ds3 Hd A2H)].
             intros r. apply vis_of_subl, W2.
    - (* Try *) apply try_good, A.
    - (* Exit *) simpl. split; [exact A|intros r d []].
  Qed.
End Step.

Lemma dabs0 : dabs renv0 aenv0.
Proof. intros x d H. discriminate H. Qed.

(* The main theorem: every run, any exits. *)
Theorem runX_good : forall fuel c p ds s, dabs p s -> good c s (runX fuel c p ds).
Proof.
  induction fuel as [|fuel IH]; intros c p ds s A; simpl; [exact I|].
  apply step_good; [exact IH|exact A].
Qed.

Corollary visible_any_exit fuel c ds p' tr o ds' r d :
  runX fuel c renv0 ds = DoneX p' tr o ds' -> In (r, Some d) tr ->
  visible c aenv0 r = true /\ e02 c aenv0 r = false.
Proof.
  intros Hr Hin. pose proof (runX_good fuel c renv0 ds aenv0 dabs0) as G. rewrite Hr in G.
  destruct G as [_ B]. specialize (B r d Hin). unfold vis in B.
  split; [exact B|]. unfold e02. unfold visible in B. rewrite B. reflexivity.
Qed.
