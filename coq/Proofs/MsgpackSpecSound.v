(* Soundness of the independent decoder: whatever spec_decode reads from a byte string is a legal
   serialisation (Enc) of the value it returns.  Together with spec_complete this makes spec_decode
   the decision procedure for the relation Enc that the check uses to validate its Python twin. *)
From Coq Require Import List Bool Arith NArith ZArith Lia.
Import ListNotations.
From Supp Require Import Model.Msgpack Model.MsgpackSpec Proofs.MsgpackBytes Proofs.MsgpackProofs
  Proofs.MsgpackSpecProofs.
Local Open Scope N_scope.

Ltac Zify.zify_post_hook ::= Z.to_euclidean_division_equations.

Arguments N.mul : simpl never.
Arguments N.add : simpl never.
Arguments N.sub : simpl never.
Arguments N.div : simpl never.
Arguments N.modulo : simpl never.
Arguments N.pow : simpl never.
Arguments N.eqb : simpl never.
Arguments N.leb : simpl never.
Arguments N.ltb : simpl never.
Arguments N.of_nat : simpl never.
Arguments N.to_nat : simpl never.
Arguments Z.of_N : simpl never.
Arguments Z.to_N : simpl never.
Arguments Z.add : simpl never.
Arguments Z.sub : simpl never.
Arguments Z.mul : simpl never.
Arguments Z.modulo : simpl never.
Arguments Z.pow : simpl never.
Arguments be : simpl never.

Definition byte (x : N) : Prop := x < 256.

(* ---------------------------------------------------------------- numbers *)

Lemma unbe_bound x : Forall byte x -> unbe x < 256 ^ len x.
Proof.
  induction x as [|a x IH] using rev_ind; intros H.
  - vm_compute. reflexivity.
  - apply Forall_app in H. destruct H as [Hx Ha]. inversion Ha as [|? ? Hb _]; subst. unfold byte in Hb.
    rewrite unbe_snoc, len_app, len_cons, len_nil. specialize (IH Hx).
    replace (len x + N.succ 0) with (N.succ (len x)) by lia. rewrite N.pow_succ_r'. lia.
Qed.

Lemma be_unbe x : Forall byte x -> be (length x) (unbe x) = x.
Proof.
  induction x as [|a x IH] using rev_ind; intros H.
  - reflexivity.
  - apply Forall_app in H. destruct H as [Hx Ha]. inversion Ha as [|? ? Hb _]; subst. unfold byte in Hb.
    rewrite app_length. simpl length. rewrite Nat.add_1_r.
    change (be (S (length x)) (unbe (x ++ [a]))) with (be (length x) (unbe (x ++ [a]) / 256) ++ [unbe (x ++ [a]) mod 256]).
    rewrite unbe_snoc.
    replace ((unbe x * 256 + a) / 256) with (unbe x) by lia.
    replace ((unbe x * 256 + a) mod 256) with a by lia.
    rewrite IH by exact Hx. reflexivity.
Qed.

Lemma take_some k : forall bs x r, take k bs = Some (x, r) -> bs = x ++ r /\ length x = k.
Proof.
  induction k as [|k IH]; intros bs x r H; simpl in H.
  - injection H as <- <-. split; reflexivity.
  - destruct bs as [|b bs]; [discriminate|].
    destruct (take k bs) as [[x' r']|] eqn:E; [|discriminate].
    injection H as <- <-. destruct (IH _ _ _ E) as [-> <-]. split; reflexivity.
Qed.

Lemma num_some k bs u r : Forall byte bs -> num k bs = Some (u, r) ->
  bs = be k u ++ r /\ u < 256 ^ N.of_nat k /\ Forall byte r.
Proof.
  intros Hb H. unfold num in H. destruct (take k bs) as [[x r']|] eqn:E; [|discriminate].
  injection H as <- <-. destruct (take_some _ _ _ _ E) as [-> <-].
  apply Forall_app in Hb. destruct Hb as [Hx Hr].
  rewrite be_val_unbe. split; [|split].
  - rewrite be_unbe by exact Hx. reflexivity.
  - apply unbe_bound. exact Hx.
  - exact Hr.
Qed.

Lemma payload_some n bs s r : payload n bs = Some (s, r) -> bs = s ++ r /\ len s = n.
Proof.
  unfold payload. destruct (N.ltb_spec (len bs) n) as [|Hle]; [discriminate|].
  intros H. injection H as <- <-. split.
  - symmetry. apply firstn_skipn.
  - unfold len in *. rewrite firstn_length. lia.
Qed.

(* ---------------------------------------------------------------- first byte -> format, inverted *)

Definition fmt_range (F : fmt) : N * N :=
  match F with
  | PosFixint => (0, 127) | FixMap => (128, 143) | FixArray => (144, 159) | FixStr => (160, 191)
  | NilF => (192, 192) | NeverUsed => (193, 193) | FalseF => (194, 194) | TrueF => (195, 195)
  | Bin8 => (196, 196) | Bin16 => (197, 197) | Bin32 => (198, 198)
  | Ext8 => (199, 199) | Ext16 => (200, 200) | Ext32 => (201, 201)
  | Float32 => (202, 202) | Float64 => (203, 203)
  | Uint8 => (204, 204) | Uint16 => (205, 205) | Uint32 => (206, 206) | Uint64 => (207, 207)
  | Int8 => (208, 208) | Int16 => (209, 209) | Int32 => (210, 210) | Int64 => (211, 211)
  | FixExt1 => (212, 212) | FixExt2 => (213, 213) | FixExt4 => (214, 214) | FixExt8 => (215, 215)
  | FixExt16 => (216, 216) | Str8 => (217, 217) | Str16 => (218, 218) | Str32 => (219, 219)
  | Array16 => (220, 220) | Array32 => (221, 221) | Map16 => (222, 222) | Map32 => (223, 223)
  | NegFixint => (224, 255)
  end.

Definition in_range (c : N) : bool :=
  (fst (fmt_range (fmt_of c)) <=? c) && (c <=? snd (fmt_range (fmt_of c))).

Lemma in_range_all : forallb in_range (map N.of_nat (seq 0 256)) = true.
Proof. vm_compute. reflexivity. Qed.

Lemma fmt_range_ok c : c < 256 -> fst (fmt_range (fmt_of c)) <= c <= snd (fmt_range (fmt_of c)).
Proof.
  intros Hc. pose proof in_range_all as H. rewrite forallb_forall in H.
  assert (Hin : In c (map N.of_nat (seq 0 256))).
  { rewrite <- (N2Nat.id c). apply in_map. apply in_seq. lia. }
  specialize (H c Hin). unfold in_range in H. apply andb_true_iff in H. destruct H as [H1 H2].
  apply N.leb_le in H1. apply N.leb_le in H2. split; assumption.
Qed.

(* ---------------------------------------------------------------- bodies *)

Tactic Notation "unbind" hyp(H) "as" ident(a) ident(b) ident(E) :=
  match type of H with
  | bind ?o _ = Some _ => destruct o as [[a b]|] eqn:E; [simpl in H | discriminate H]
  end.

Lemma str_body n r v rest :
  bind (payload n r) (fun sr => Some (Str (fst sr), snd sr)) = Some (v, rest) ->
  exists s, v = Str s /\ r = s ++ rest /\ len s = n.
Proof.
  intros H. unbind H as s0 r0 E. injection H as <- <-. destruct (payload_some _ _ _ _ E) as [-> Hl]. eauto.
Qed.

Lemma bin_body n r v rest :
  bind (payload n r) (fun sr => Some (Bin (fst sr), snd sr)) = Some (v, rest) ->
  exists s, v = Bin s /\ r = s ++ rest /\ len s = n.
Proof.
  intros H. unbind H as s0 r0 E. injection H as <- <-. destruct (payload_some _ _ _ _ E) as [-> Hl]. eauto.
Qed.

Lemma ext_body n r v rest : Forall byte r ->
  bind (num 1 r) (fun tr =>
    if fst tr <? 128 then bind (payload n (snd tr)) (fun dr => Some (Ext (fst tr) (fst dr), snd dr))
    else None) = Some (v, rest) ->
  exists ty d, v = Ext ty d /\ r = ty :: d ++ rest /\ ty < 128 /\ len d = n.
Proof.
  intros Hb H. unbind H as ty r1 E. destruct (N.ltb_spec ty 128) as [Hty|]; [|discriminate].
  unbind H as d r2 E0. injection H as <- <-.
  destruct (num_some _ _ _ _ Hb E) as (-> & _ & _).
  destruct (payload_some _ _ _ _ E0) as [-> Hl].
  exists ty, d. rewrite be1 by lia. auto.
Qed.

(* ---------------------------------------------------------------- soundness *)

Definition sound (d : bytes -> option (value * bytes)) : Prop :=
  forall bs v rest, Forall byte bs -> d bs = Some (v, rest) -> exists b, bs = b ++ rest /\ Enc v b.

Lemma items_sound d : sound d -> forall j n bs l rest, Forall byte bs ->
  spec_items d j n bs = Some (l, rest) -> exists b, bs = b ++ rest /\ EncList l b /\ len l = n.
Proof.
  intros Hd. induction j as [|j IH]; intros n bs l rest Hb H.
  - simpl in H. destruct (N.eqb_spec n 0) as [->|]; [|discriminate].
    injection H as <- <-. exists []. split; [reflexivity|]. split; [constructor|reflexivity].
  - destruct (N.eq_dec n 0) as [->|Hn].
    + rewrite spec_items_0 in H. injection H as <- <-. exists []. split; [reflexivity|]. split; [constructor|reflexivity].
    + rewrite spec_items_S in H by exact Hn. unbind H as v1 r1 E. unbind H as l2 r2 E0. injection H as <- <-.
      destruct (Hd _ _ _ Hb E) as (y1 & -> & HE1).
      apply Forall_app in Hb. destruct Hb as [_ Hb].
      destruct (IH _ _ _ _ Hb E0) as (y2 & -> & HE2 & Hl).
      exists (y1 ++ y2). rewrite app_assoc. split; [reflexivity|]. split; [constructor; assumption|].
      rewrite len_cons. lia.
Qed.

Lemma pairs_sound d : sound d -> forall j n bs l rest, Forall byte bs ->
  spec_pairs d j n bs = Some (l, rest) -> exists b, bs = b ++ rest /\ EncPairs l b /\ len l = n.
Proof.
  intros Hd. induction j as [|j IH]; intros n bs l rest Hb H.
  - simpl in H. destruct (N.eqb_spec n 0) as [->|]; [|discriminate].
    injection H as <- <-. exists []. split; [reflexivity|]. split; [constructor|reflexivity].
  - destruct (N.eq_dec n 0) as [->|Hn].
    + rewrite spec_pairs_0 in H. injection H as <- <-. exists []. split; [reflexivity|]. split; [constructor|reflexivity].
    + rewrite spec_pairs_S in H by exact Hn. unbind H as k1 r1 E. unbind H as v2 r2 E0. unbind H as l3 r3 E1.
      injection H as <- <-.
      destruct (Hd _ _ _ Hb E) as (y1 & -> & HE1).
      apply Forall_app in Hb. destruct Hb as [_ Hb].
      destruct (Hd _ _ _ Hb E0) as (y2 & -> & HE2).
      apply Forall_app in Hb. destruct Hb as [_ Hb].
      destruct (IH _ _ _ _ Hb E1) as (y3 & -> & HE3 & Hl).
      exists (y1 ++ y2 ++ y3). rewrite <- !app_assoc. split; [reflexivity|]. split; [constructor; assumption|].
      rewrite len_cons. lia.
Qed.

Lemma arr_body d j n r v rest : sound d -> Forall byte r ->
  bind (spec_items d j n r) (fun lr => Some (Arr (fst lr), snd lr)) = Some (v, rest) ->
  exists l b, v = Arr l /\ r = b ++ rest /\ EncList l b /\ len l = n.
Proof.
  intros Hd Hb H. unbind H as l0 r0 E. injection H as <- <-.
  destruct (items_sound _ Hd _ _ _ _ _ Hb E) as (b & -> & HE & Hl). exists l0, b. auto.
Qed.

Lemma map_body d j n r v rest : sound d -> Forall byte r ->
  bind (spec_pairs d j n r) (fun lr => Some (Map (fst lr), snd lr)) = Some (v, rest) ->
  exists l b, v = Map l /\ r = b ++ rest /\ EncPairs l b /\ len l = n.
Proof.
  intros Hd Hb H. unbind H as l0 r0 E. injection H as <- <-.
  destruct (pairs_sound _ Hd _ _ _ _ _ Hb E) as (b & -> & HE & Hl). exists l0, b. auto.
Qed.

(* a sized format: a k-byte number then the body *)
Tactic Notation "sized" hyp(H) hyp(Hr) "as" ident(n) ident(Hlt) ident(Hr') :=
  let r1 := fresh "r1" in let E := fresh "E" in
  unbind H as n r1 E; destruct (num_some _ _ _ _ Hr E) as (-> & Hlt & Hr').

Lemma spec_dec_sound : forall f, sound (spec_dec f).
Proof.
  induction f as [|f IH]; intros bs v rest Hb H; [discriminate|].
  destruct bs as [|c r]; [discriminate|].
  rewrite spec_dec_S in H. inversion Hb as [|? ? Hc Hr]; subst. unfold byte in Hc.
  pose proof (fmt_range_ok c Hc) as Hrange.
  unfold spec_step in H. destruct (fmt_of c) eqn:EF; simpl in Hrange; cbv beta iota zeta in H.
  - (* positive fixint *)
    injection H as <- <-. exists [c]. split; [reflexivity|]. apply E_int.
    replace [c] with [Z.to_N (Z.of_N c)] by (f_equal; lia). apply IE_posfix. lia.
  - (* fixmap *)
    destruct (map_body _ _ _ _ _ _ IH Hr H) as (l & b & -> & -> & HE & Hl).
    exists (c :: b). split; [reflexivity|]. apply (E_map l [c] b); [|exact HE].
    replace c with (128 + len l) by lia. apply MH_fix. lia.
  - (* fixarray *)
    destruct (arr_body _ _ _ _ _ _ IH Hr H) as (l & b & -> & -> & HE & Hl).
    exists (c :: b). split; [reflexivity|]. apply (E_arr l [c] b); [|exact HE].
    replace c with (144 + len l) by lia. apply AH_fix. lia.
  - (* fixstr *)
    destruct (str_body _ _ _ _ H) as (s & -> & -> & Hl).
    exists (c :: s). split; [reflexivity|]. apply (E_str s [c]).
    replace c with (160 + len s) by lia. apply SH_fix. lia.
  - injection H as <- <-. exists [c]. split; [reflexivity|]. replace c with 192 by lia. constructor.
  - discriminate.
  - injection H as <- <-. exists [c]. split; [reflexivity|]. replace c with 194 by lia. constructor.
  - injection H as <- <-. exists [c]. split; [reflexivity|]. replace c with 195 by lia. constructor.
  - (* bin 8 *) replace c with 196 by lia. sized H Hr as n Hlt Hr'.
    destruct (bin_body _ _ _ _ H) as (s & -> & -> & Hl).
    exists ((196 :: be 1 n) ++ s). split; [rewrite <- app_assoc; reflexivity|].
    apply E_bin. rewrite Hl. apply BH_8. exact Hlt.
  - replace c with 197 by lia. sized H Hr as n Hlt Hr'.
    destruct (bin_body _ _ _ _ H) as (s & -> & -> & Hl).
    exists ((197 :: be 2 n) ++ s). split; [rewrite <- app_assoc; reflexivity|].
    apply E_bin. rewrite Hl. apply BH_16. exact Hlt.
  - replace c with 198 by lia. sized H Hr as n Hlt Hr'.
    destruct (bin_body _ _ _ _ H) as (s & -> & -> & Hl).
    exists ((198 :: be 4 n) ++ s). split; [rewrite <- app_assoc; reflexivity|].
    apply E_bin. rewrite Hl. apply BH_32. exact Hlt.
  - (* ext 8 *) replace c with 199 by lia. sized H Hr as n Hlt Hr'.
    destruct (ext_body _ _ _ _ Hr' H) as (ty & d & -> & -> & Hty & Hl).
    exists ((199 :: be 1 n) ++ ty :: d). split; [rewrite <- app_assoc; reflexivity|].
    apply E_ext; [exact Hty|]. rewrite Hl. apply XH_8. exact Hlt.
  - replace c with 200 by lia. sized H Hr as n Hlt Hr'.
    destruct (ext_body _ _ _ _ Hr' H) as (ty & d & -> & -> & Hty & Hl).
    exists ((200 :: be 2 n) ++ ty :: d). split; [rewrite <- app_assoc; reflexivity|].
    apply E_ext; [exact Hty|]. rewrite Hl. apply XH_16. exact Hlt.
  - replace c with 201 by lia. sized H Hr as n Hlt Hr'.
    destruct (ext_body _ _ _ _ Hr' H) as (ty & d & -> & -> & Hty & Hl).
    exists ((201 :: be 4 n) ++ ty :: d). split; [rewrite <- app_assoc; reflexivity|].
    apply E_ext; [exact Hty|]. rewrite Hl. apply XH_32. exact Hlt.
  - (* float 32 *) replace c with 202 by lia. sized H Hr as n Hlt Hr'. injection H as <- <-.
    exists (202 :: be 4 n). split; [reflexivity|]. apply E_f32. exact Hlt.
  - replace c with 203 by lia. sized H Hr as n Hlt Hr'. injection H as <- <-.
    exists (203 :: be 8 n). split; [reflexivity|]. apply E_f64. exact Hlt.
  - (* uint 8 *) replace c with 204 by lia. sized H Hr as n Hlt Hr'. injection H as <- <-.
    exists (204 :: be 1 n). split; [reflexivity|]. apply E_int.
    replace n with (Z.to_N (Z.of_N n)) at 2 by lia. apply IE_u8.
    change (256 ^ N.of_nat 1) with 256 in Hlt. lia.
  - replace c with 205 by lia. sized H Hr as n Hlt Hr'. injection H as <- <-.
    exists (205 :: be 2 n). split; [reflexivity|]. apply E_int.
    replace n with (Z.to_N (Z.of_N n)) at 2 by lia. apply IE_u16.
    change (256 ^ N.of_nat 2) with 65536 in Hlt. lia.
  - replace c with 206 by lia. sized H Hr as n Hlt Hr'. injection H as <- <-.
    exists (206 :: be 4 n). split; [reflexivity|]. apply E_int.
    replace n with (Z.to_N (Z.of_N n)) at 2 by lia. apply IE_u32.
    change (256 ^ N.of_nat 4) with 4294967296 in Hlt. lia.
  - replace c with 207 by lia. sized H Hr as n Hlt Hr'. injection H as <- <-.
    exists (207 :: be 8 n). split; [reflexivity|]. apply E_int.
    replace n with (Z.to_N (Z.of_N n)) at 2 by lia. apply IE_u64.
    change (256 ^ N.of_nat 8) with 18446744073709551616 in Hlt. lia.
  - (* int 8 *) replace c with 208 by lia. sized H Hr as n Hlt Hr'. injection H as <- <-.
    change (256 ^ N.of_nat 1) with 256 in Hlt.
    exists (208 :: be 1 n). split; [reflexivity|]. apply E_int.
    replace n with (Z.to_N (twos 8 n mod 256)) at 2 by (twos_lit; lia). apply IE_i8. twos_lit. lia.
  - replace c with 209 by lia. sized H Hr as n Hlt Hr'. injection H as <- <-.
    change (256 ^ N.of_nat 2) with 65536 in Hlt.
    exists (209 :: be 2 n). split; [reflexivity|]. apply E_int.
    replace n with (Z.to_N (twos 16 n mod 65536)) at 2 by (twos_lit; lia). apply IE_i16. twos_lit. lia.
  - replace c with 210 by lia. sized H Hr as n Hlt Hr'. injection H as <- <-.
    change (256 ^ N.of_nat 4) with 4294967296 in Hlt.
    exists (210 :: be 4 n). split; [reflexivity|]. apply E_int.
    replace n with (Z.to_N (twos 32 n mod 4294967296)) at 2 by (twos_lit; lia). apply IE_i32. twos_lit. lia.
  - replace c with 211 by lia. sized H Hr as n Hlt Hr'. injection H as <- <-.
    change (256 ^ N.of_nat 8) with 18446744073709551616 in Hlt.
    exists (211 :: be 8 n). split; [reflexivity|]. apply E_int.
    replace n with (Z.to_N (twos 64 n mod 18446744073709551616)) at 2 by (twos_lit; lia). apply IE_i64. twos_lit. lia.
  - (* fixext 1 *) replace c with 212 by lia.
    destruct (ext_body _ _ _ _ Hr H) as (ty & d & -> & -> & Hty & Hl).
    exists ([212] ++ ty :: d). split; [reflexivity|]. apply E_ext; [exact Hty|]. rewrite Hl. constructor.
  - replace c with 213 by lia.
    destruct (ext_body _ _ _ _ Hr H) as (ty & d & -> & -> & Hty & Hl).
    exists ([213] ++ ty :: d). split; [reflexivity|]. apply E_ext; [exact Hty|]. rewrite Hl. constructor.
  - replace c with 214 by lia.
    destruct (ext_body _ _ _ _ Hr H) as (ty & d & -> & -> & Hty & Hl).
    exists ([214] ++ ty :: d). split; [reflexivity|]. apply E_ext; [exact Hty|]. rewrite Hl. constructor.
  - replace c with 215 by lia.
    destruct (ext_body _ _ _ _ Hr H) as (ty & d & -> & -> & Hty & Hl).
    exists ([215] ++ ty :: d). split; [reflexivity|]. apply E_ext; [exact Hty|]. rewrite Hl. constructor.
  - replace c with 216 by lia.
    destruct (ext_body _ _ _ _ Hr H) as (ty & d & -> & -> & Hty & Hl).
    exists ([216] ++ ty :: d). split; [reflexivity|]. apply E_ext; [exact Hty|]. rewrite Hl. constructor.
  - (* str 8 *) replace c with 217 by lia. sized H Hr as n Hlt Hr'.
    destruct (str_body _ _ _ _ H) as (s & -> & -> & Hl).
    exists ((217 :: be 1 n) ++ s). split; [rewrite <- app_assoc; reflexivity|].
    apply E_str. rewrite Hl. apply SH_8. exact Hlt.
  - replace c with 218 by lia. sized H Hr as n Hlt Hr'.
    destruct (str_body _ _ _ _ H) as (s & -> & -> & Hl).
    exists ((218 :: be 2 n) ++ s). split; [rewrite <- app_assoc; reflexivity|].
    apply E_str. rewrite Hl. apply SH_16. exact Hlt.
  - replace c with 219 by lia. sized H Hr as n Hlt Hr'.
    destruct (str_body _ _ _ _ H) as (s & -> & -> & Hl).
    exists ((219 :: be 4 n) ++ s). split; [rewrite <- app_assoc; reflexivity|].
    apply E_str. rewrite Hl. apply SH_32. exact Hlt.
  - (* array 16 *) replace c with 220 by lia. sized H Hr as n Hlt Hr'.
    destruct (arr_body _ _ _ _ _ _ IH Hr' H) as (l & b & -> & -> & HE & Hl).
    exists ((220 :: be 2 n) ++ b). split; [rewrite <- app_assoc; reflexivity|].
    apply E_arr; [|exact HE]. rewrite Hl. apply AH_16. exact Hlt.
  - replace c with 221 by lia. sized H Hr as n Hlt Hr'.
    destruct (arr_body _ _ _ _ _ _ IH Hr' H) as (l & b & -> & -> & HE & Hl).
    exists ((221 :: be 4 n) ++ b). split; [rewrite <- app_assoc; reflexivity|].
    apply E_arr; [|exact HE]. rewrite Hl. apply AH_32. exact Hlt.
  - (* map 16 *) replace c with 222 by lia. sized H Hr as n Hlt Hr'.
    destruct (map_body _ _ _ _ _ _ IH Hr' H) as (l & b & -> & -> & HE & Hl).
    exists ((222 :: be 2 n) ++ b). split; [rewrite <- app_assoc; reflexivity|].
    apply E_map; [|exact HE]. rewrite Hl. apply MH_16. exact Hlt.
  - replace c with 223 by lia. sized H Hr as n Hlt Hr'.
    destruct (map_body _ _ _ _ _ _ IH Hr' H) as (l & b & -> & -> & HE & Hl).
    exists ((223 :: be 4 n) ++ b). split; [rewrite <- app_assoc; reflexivity|].
    apply E_map; [|exact HE]. rewrite Hl. apply MH_32. exact Hlt.
  - (* negative fixint *)
    injection H as <- <-. exists [c]. split; [reflexivity|]. apply E_int.
    replace [c] with [Z.to_N (Z.of_N c - 256 + 256)] by (f_equal; lia). apply IE_negfix. lia.
Qed.

Theorem spec_sound bs v rest : Forall (fun x => x < 256) bs -> spec_decode bs = Some (v, rest) ->
  exists b, bs = b ++ rest /\ Enc v b.
Proof. intros Hb H. exact (spec_dec_sound _ bs v rest Hb H). Qed.

(* spec_decode decides Enc on byte strings *)
Corollary spec_decides_enc v b : Forall (fun x => x < 256) b ->
  (spec_decode b = Some (v, []) <-> Enc v b).
Proof.
  intros Hb. split.
  - intros H. destruct (spec_sound _ _ _ Hb H) as (b' & E & HE). rewrite app_nil_r in E. subst. exact HE.
  - intros H. rewrite <- (app_nil_r b). apply spec_complete. exact H.
Qed.

(* ---------------------------------------------------------------- what is written are bytes *)

Lemma int_enc_bytes z b : IntEnc z b -> Forall byte b.
Proof.
  intros H. destruct H; (constructor; [unfold byte; lia | first [apply Forall_nil | apply be_bytes]]).
Qed.

Lemma bytes_ok_forall s : bytes_ok s = true -> Forall byte s.
Proof.
  unfold bytes_ok. rewrite forallb_forall, Forall_forall. intros H x Hx. apply N.ltb_lt. apply H. exact Hx.
Qed.

Lemma enc_bytes_mut :
  (forall v b, Enc v b -> wf v = true -> Forall byte b) /\
  (forall l bs, EncList l bs -> forallb wf l = true -> Forall byte bs) /\
  (forall kvs bs, EncPairs kvs bs ->
     forallb (fun kv => wf (fst kv) && wf (snd kv)) kvs = true -> Forall byte bs).
Proof.
  apply Enc_mutind.
  - intros _. repeat constructor.
  - intros _. repeat constructor.
  - intros _. repeat constructor.
  - intros z b H _. exact (int_enc_bytes z b H).
  - intros x _ _. constructor; [unfold byte; lia|apply be_bytes].
  - intros x _ _. constructor; [unfold byte; lia|apply be_bytes].
  - intros s h Hh Hwf. rewrite wf_str in Hwf.
    apply andb_true_iff in Hwf. destruct Hwf as [Hwf _]. apply andb_true_iff in Hwf. destruct Hwf as [_ Hb].
    apply Forall_app. split; [|apply bytes_ok_forall; exact Hb].
    destruct Hh; (constructor; [unfold byte; lia | first [apply Forall_nil | apply be_bytes]]).
  - intros s h Hh Hwf. simpl in Hwf. apply andb_true_iff in Hwf. destruct Hwf as [Hb _].
    apply Forall_app. split; [|apply bytes_ok_forall; exact Hb].
    destruct Hh; (constructor; [unfold byte; lia | first [apply Forall_nil | apply be_bytes]]).
  - intros ty d h Hty Hh Hwf. rewrite wf_ext in Hwf.
    apply andb_true_iff in Hwf. destruct Hwf as [Hwf _]. apply andb_true_iff in Hwf. destruct Hwf as [_ Hb].
    apply Forall_app. split.
    + destruct Hh; (constructor; [unfold byte; lia | first [apply Forall_nil | apply be_bytes]]).
    + constructor; [unfold byte; lia|apply bytes_ok_forall; exact Hb].
  - intros l h b Hh _ IH Hwf. rewrite wf_arr in Hwf. apply andb_true_iff in Hwf. destruct Hwf as [Hwf _].
    apply Forall_app. split; [|apply IH; exact Hwf].
    destruct Hh; (constructor; [unfold byte; lia | first [apply Forall_nil | apply be_bytes]]).
  - intros kvs h b Hh _ IH Hwf. rewrite wf_map in Hwf.
    apply andb_true_iff in Hwf. destruct Hwf as [Hwf _].
    apply andb_true_iff in Hwf. destruct Hwf as [Hwf _].
    apply andb_true_iff in Hwf. destruct Hwf as [Hwf _].
    apply Forall_app. split; [|apply IH; exact Hwf].
    destruct Hh; (constructor; [unfold byte; lia | first [apply Forall_nil | apply be_bytes]]).
  - intros _. constructor.
  - intros v l b bs _ IHv _ IHl Hwf. simpl in Hwf. apply andb_true_iff in Hwf. destruct Hwf as [Hv Hl].
    apply Forall_app. split; [apply IHv; exact Hv|apply IHl; exact Hl].
  - intros _. constructor.
  - intros k v l bk bv bs _ IHk _ IHv _ IHl Hwf. simpl in Hwf.
    apply andb_true_iff in Hwf. destruct Hwf as [Hkv Hl].
    apply andb_true_iff in Hkv. destruct Hkv as [Hk Hv].
    apply Forall_app. split; [apply IHk; exact Hk|]. apply Forall_app. split; [apply IHv; exact Hv|apply IHl; exact Hl].
Qed.

Theorem encode_bytes v b : wf v = true -> encode v = Some b -> Forall (fun x => x < 256) b.
Proof.
  intros Hwf H. apply (proj1 enc_bytes_mut v b); [|exact Hwf]. apply encode_conforms; assumption.
Qed.
