(* No false "unused" across scopes: a binding that lint's usage marking over the chain leaves unused
   is read by no execution of the chain (calls made after the caller's body ran to its end). *)
From Coq Require Import List Bool Arith NArith.
Import ListNotations.
From Supp Require Import Model.PyCore Model.Reach Model.ReachX Model.Sem Model.SemX Model.SemXS Model.Nested Model.NestedRun
  Model.NestedRunS Model.NestedUsed
  Proofs.ReachProofs Proofs.ReachCorollaries Proofs.ReachXProofs Proofs.NestedProofs Proofs.NestedRunSProofs.

Theorem chain_used : forall fuel rest outers p ds,
  forallb okx rest = true -> abs p (exit_chain outers) ->
  forall e, In e (run_chain_s fuel outers rest p ds) ->
  forall r d, In (r, Some d) (snd e) -> used_chain outers rest d = true.
Proof.
  intros fuel rest. induction rest as [|c rest IH]; intros outers p ds Hok Hab e He r d Hin; simpl in He; [destruct He|].
  simpl in Hok. apply andb_true_iff in Hok as [Hc Hrest].
  destruct (runXs fuel c (enter_r (binds c) p) ds) as [p' tr o ds'| |] eqn:Hr; [|destruct He|destruct He].
  pose proof (soundx fuel c (enter_r (binds c) p) ds (enter_a (binds c) (exit_chain outers)) Hc
                (abs_enter _ _ _ Hab)) as G.
  rewrite Hr in G. destruct G as [Ho Htr].
  simpl. apply orb_true_iff.
  destruct He as [He|He].
  - left. subst e. simpl in Hin.
    pose proof (runXs_trace_reads _ _ _ _ _ _ _ _ Hr r (Some d) Hin) as Hrd.
    apply in_map_iff in Hrd as [rx [E Hrx]].
    unfold used_in. apply existsb_exists. exists rx. split; [exact Hrx|].
    rewrite E. apply existsb_alt_in. unfold seen_nested, entry_a. exact (Htr r (Some d) Hin).
  - right. destruct o; try destruct He.
    apply (IH (outers ++ [c]) p' ds' Hrest) with (e := e) (r := r); [|exact He|exact Hin].
    rewrite exit_chain_snoc. unfold exit_a. exact Ho.
Qed.

Corollary chain_no_false_unused fuel bodies ds d :
  forallb okx bodies = true -> In d (unused_chain bodies) ->
  forall e, In e (run_chain_s fuel [] bodies renv0 ds) -> forall r, ~ In (r, Some d) (snd e).
Proof.
  intros Hok Hu e He r Hin. unfold unused_chain in Hu. apply filter_In in Hu as [_ Hu].
  rewrite (chain_used fuel bodies [] renv0 ds Hok abs0 e He r d Hin) in Hu. discriminate Hu.
Qed.
