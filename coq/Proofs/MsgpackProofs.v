(* Proofs about Model/Msgpack.v (the codec of supp/umsgpack.py) against Model/MsgpackSpec.v. *)
From Coq Require Import List Bool Arith NArith ZArith Lia.
Import ListNotations.
From Supp Require Import Model.Msgpack Model.MsgpackSpec Proofs.MsgpackBytes.
Local Open Scope N_scope.

Ltac Zify.zify_post_hook ::= Z.to_euclidean_division_equations.

Arguments N.mul : simpl never.
Arguments N.add : simpl never.
Arguments N.sub : simpl never.
Arguments N.div : simpl never.
Arguments N.modulo : simpl never.
Arguments N.pow : simpl never.
Arguments N.eqb : simpl never.
Arguments N.leb : simpl never.
Arguments N.ltb : simpl never.
Arguments N.of_nat : simpl never.
Arguments Z.of_N : simpl never.
Arguments Z.to_N : simpl never.
Arguments Z.add : simpl never.
Arguments Z.sub : simpl never.
Arguments Z.mul : simpl never.
Arguments Z.modulo : simpl never.
Arguments Z.leb : simpl never.
Arguments Z.ltb : simpl never.
Arguments be : simpl never.
Arguments utf8_valid : simpl never.

(* decide [dispatch c] for a first byte known by inequalities *)
Ltac dispatch_tac :=
  unfold dispatch;
  repeat match goal with
         | |- context [if ?a <=? ?b then _ else _] => destruct (N.leb_spec a b); try lia
         | |- context [if ?a =? ?b then _ else _] => destruct (N.eqb_spec a b); try lia
         end;
  try reflexivity.

(* ------------------------------------------------------------------------------------------ *)
(* one unfolding step of dec                                                                   *)
(* ------------------------------------------------------------------------------------------ *)

Definition dec_step (d : bytes -> result (value * bytes)) (j : nat) (c : N) (r : bytes)
  : result (value * bytes) :=
  match dispatch c with
  | FInteger => unpack_integer c r
  | FNil => if c =? 192 then Ok (Nil, r) else Err LogicError
  | FReserved => if c =? 193 then Err Reserved else Err LogicError
  | FBoolean => if c =? 194 then Ok (Bool false, r)
                else if c =? 195 then Ok (Bool true, r) else Err LogicError
  | FFloat => unpack_float c r
  | FString => unpack_string c r
  | FBinary => unpack_binary c r
  | FExt => unpack_ext c r
  | FArray =>
      match array_length c r with
      | Err e => Err e
      | Ok (n, r1) =>
          match items d j n r1 with
          | Err e => Err e
          | Ok (l, r2) => Ok (Arr l, r2)
          end
      end
  | FMap =>
      match map_length c r with
      | Err e => Err e
      | Ok (n, r1) =>
          match pairs d j n [] r1 with
          | Err e => Err e
          | Ok (kvs, r2) => Ok (Map kvs, r2)
          end
      end
  end.

Lemma dec_S f c r : dec (S f) (c :: r) = dec_step (dec f) f c r.
Proof. reflexivity. Qed.

Lemma dec_nil f : dec (S f) [] = Err Insufficient.
Proof. reflexivity. Qed.

Lemma dec_0 bs : dec 0 bs = Err OutOfFuel.
Proof. reflexivity. Qed.

Lemma items_0 d j bs : items d j 0 bs = Ok ([], bs).
Proof. destruct j; reflexivity. Qed.

Lemma items_S d j n bs : n <> 0 ->
  items d (S j) n bs =
  match d bs with
  | Err e => Err e
  | Ok (v, r) => match items d j (N.pred n) r with
                 | Err e => Err e
                 | Ok (l, r') => Ok (v :: l, r')
                 end
  end.
Proof. intros Hn. simpl items. destruct (N.eqb_spec n 0); [contradiction|reflexivity]. Qed.

Lemma pairs_0 d j acc bs : pairs d j 0 acc bs = Ok (acc, bs).
Proof. destruct j; reflexivity. Qed.

Lemma pairs_S d j n acc bs : n <> 0 ->
  pairs d (S j) n acc bs =
  match d bs with
  | Err e => Err e
  | Ok (k, r) =>
      match key_check k acc with
      | Some e => Err e
      | None =>
          match d r with
          | Err e => Err e
          | Ok (v, r') =>
              if hashable k then pairs d j (N.pred n) (dict_set acc k v) r' else Err Unhashable
          end
      end
  end.
Proof. intros Hn. simpl pairs. destruct (N.eqb_spec n 0); [contradiction|reflexivity]. Qed.

(* ------------------------------------------------------------------------------------------ *)
(* headers                                                                                     *)
(* ------------------------------------------------------------------------------------------ *)

(* h is a header the family [fam] reads as the length n, and every proper prefix of it is short *)
Definition hdr_spec (fam : family) (lenf : N -> bytes -> result (N * bytes)) (n : N) (h : bytes) : Prop :=
  exists c t, h = c :: t /\ dispatch c = fam /\
              (forall r, lenf c (t ++ r) = Ok (n, r)) /\
              (forall p, sprefix p t -> lenf c p = Err Insufficient).

Ltac hdr_lit code k lem :=
  exists code; eexists; split; [reflexivity|]; split; [reflexivity|]; split;
  [ intros r;
    match goal with |- ?f _ (?t ++ r) = _ => change (f code (t ++ r)) with (rd_uint k (t ++ r)) end;
    apply lem; assumption
  | intros p Hp;
    match goal with |- ?f _ p = _ => change (f code p) with (rd_uint k p) end;
    apply rd_uint_short; apply sprefix_len in Hp; rewrite len_be in Hp; exact Hp ].

Lemma str_hdr n h : StrHdr n h -> hdr_spec FString string_length n h.
Proof.
  intros H. destruct H as [n Hn|n Hn|n Hn|n Hn].
  - exists (160 + n), []. split; [reflexivity|]. split; [dispatch_tac|]. split.
    + intros r. unfold string_length, inr.
      destruct (N.leb_spec 160 (160 + n)); [|lia]. destruct (N.leb_spec (160 + n) 191); [|lia].
      simpl. do 2 f_equal. lia.
    + intros p Hp. exfalso. eapply sprefix_nil; eassumption.
  - hdr_lit 217 1 rd_uint_be1.
  - hdr_lit 218 2 rd_uint_be2.
  - hdr_lit 219 4 rd_uint_be4.
Qed.

Lemma bin_hdr n h : BinHdr n h -> hdr_spec FBinary binary_length n h.
Proof.
  intros H. destruct H as [n Hn|n Hn|n Hn].
  - hdr_lit 196 1 rd_uint_be1.
  - hdr_lit 197 2 rd_uint_be2.
  - hdr_lit 198 4 rd_uint_be4.
Qed.

Lemma arr_hdr n h : ArrHdr n h -> hdr_spec FArray array_length n h.
Proof.
  intros H. destruct H as [n Hn|n Hn|n Hn].
  - exists (144 + n), []. split; [reflexivity|]. split; [dispatch_tac|]. split.
    + intros r. unfold array_length, inr.
      destruct (N.leb_spec 144 (144 + n)); [|lia]. destruct (N.leb_spec (144 + n) 159); [|lia].
      simpl. do 2 f_equal. lia.
    + intros p Hp. exfalso. eapply sprefix_nil; eassumption.
  - hdr_lit 220 2 rd_uint_be2.
  - hdr_lit 221 4 rd_uint_be4.
Qed.

Lemma map_hdr n h : MapHdr n h -> hdr_spec FMap map_length n h.
Proof.
  intros H. destruct H as [n Hn|n Hn|n Hn].
  - exists (128 + n), []. split; [reflexivity|]. split; [dispatch_tac|]. split.
    + intros r. unfold map_length, inr.
      destruct (N.leb_spec 128 (128 + n)); [|lia]. destruct (N.leb_spec (128 + n) 143); [|lia].
      simpl. do 2 f_equal. lia.
    + intros p Hp. exfalso. eapply sprefix_nil; eassumption.
  - hdr_lit 222 2 rd_uint_be2.
  - hdr_lit 223 4 rd_uint_be4.
Qed.

Ltac hdr_fix code :=
  exists code, []; split; [reflexivity|]; split; [reflexivity|]; split;
  [ intros r; reflexivity | intros p Hp; exfalso; eapply sprefix_nil; eassumption ].

Lemma ext_hdr n h : ExtHdr n h -> hdr_spec FExt ext_length n h.
Proof.
  intros H. destruct H as [| | | | |n Hn|n Hn|n Hn].
  - hdr_fix 212.
  - hdr_fix 213.
  - hdr_fix 214.
  - hdr_fix 215.
  - hdr_fix 216.
  - hdr_lit 199 1 rd_uint_be1.
  - hdr_lit 200 2 rd_uint_be2.
  - hdr_lit 201 4 rd_uint_be4.
Qed.

(* ------------------------------------------------------------------------------------------ *)
(* integers and floats                                                                         *)
(* ------------------------------------------------------------------------------------------ *)

Definition scalar_spec (fam : family) (unp : N -> bytes -> result (value * bytes)) (v : value) (b : bytes) : Prop :=
  exists c t, b = c :: t /\ dispatch c = fam /\
              (forall r, unp c (t ++ r) = Ok (v, r)) /\
              (forall p, sprefix p t -> unp c p = Err Insufficient).

Ltac short_tail :=
  rewrite rd_uint_short;
  [ reflexivity
  | match goal with Hp : sprefix _ _ |- _ => apply sprefix_len in Hp; rewrite len_be in Hp; exact Hp end ].

Ltac int_short_u code k :=
  intros p Hp;
  change (unpack_integer code p)
    with (match rd_uint k p with Err e => Err e | Ok (u, r') => Ok (Int (Z.of_N u), r') end);
  short_tail.

Ltac int_short_s code k half :=
  intros p Hp;
  change (unpack_integer code p)
    with (match rd_uint k p with Err e => Err e | Ok (u, r') => Ok (Int (to_signed half u), r') end);
  short_tail.

Lemma int_enc_ok z b : IntEnc z b -> scalar_spec FInteger unpack_integer (Int z) b.
Proof.
  intros H. destruct H as [z Hz|z Hz|z Hz|z Hz|z Hz|z Hz|z Hz|z Hz|z Hz|z Hz].
  - (* positive fixint *)
    exists (Z.to_N z), []. split; [reflexivity|]. split; [dispatch_tac|]. split.
    + intros r. unfold unpack_integer.
      destruct (N.leb_spec 224 (Z.to_N z)); [lia|].
      repeat match goal with |- context [if ?a =? ?b then _ else _] => destruct (N.eqb_spec a b); [lia|] end.
      destruct (N.ltb_spec (Z.to_N z) 128); [|lia].
      simpl. do 3 f_equal. lia.
    + intros p Hp. exfalso. eapply sprefix_nil; eassumption.
  - (* negative fixint *)
    exists (Z.to_N (z + 256)), []. split; [reflexivity|]. split; [dispatch_tac|]. split.
    + intros r. unfold unpack_integer.
      destruct (N.leb_spec 224 (Z.to_N (z + 256))); [|lia].
      simpl. do 3 f_equal. lia.
    + intros p Hp. exfalso. eapply sprefix_nil; eassumption.
  - exists 204; eexists; split; [reflexivity|]; split; [reflexivity|]; split; [|int_short_u 204 1].
    intros r. change (match rd_uint 1 (be 1 (Z.to_N z) ++ r) with Err e => Err e | Ok (u, r') => Ok (Int (Z.of_N u), r') end = Ok (Int z, r)).
    rewrite rd_uint_be1 by lia. do 3 f_equal. lia.
  - exists 205; eexists; split; [reflexivity|]; split; [reflexivity|]; split; [|int_short_u 205 2].
    intros r. change (match rd_uint 2 (be 2 (Z.to_N z) ++ r) with Err e => Err e | Ok (u, r') => Ok (Int (Z.of_N u), r') end = Ok (Int z, r)).
    rewrite rd_uint_be2 by lia. do 3 f_equal. lia.
  - exists 206; eexists; split; [reflexivity|]; split; [reflexivity|]; split; [|int_short_u 206 4].
    intros r. change (match rd_uint 4 (be 4 (Z.to_N z) ++ r) with Err e => Err e | Ok (u, r') => Ok (Int (Z.of_N u), r') end = Ok (Int z, r)).
    rewrite rd_uint_be4 by lia. do 3 f_equal. lia.
  - exists 207; eexists; split; [reflexivity|]; split; [reflexivity|]; split; [|int_short_u 207 8].
    intros r. change (match rd_uint 8 (be 8 (Z.to_N z) ++ r) with Err e => Err e | Ok (u, r') => Ok (Int (Z.of_N u), r') end = Ok (Int z, r)).
    rewrite rd_uint_be8 by lia. do 3 f_equal. lia.
  - exists 208; eexists; split; [reflexivity|]; split; [reflexivity|]; split; [|int_short_s 208 1 p7].
    intros r. change (match rd_uint 1 (be 1 (Z.to_N (z mod 256)) ++ r) with Err e => Err e | Ok (u, r') => Ok (Int (to_signed p7 u), r') end = Ok (Int z, r)).
    rewrite rd_uint_be1 by lia. do 3 f_equal. unfold to_signed, p7.
    destruct (N.ltb_spec (Z.to_N (z mod 256)) 128); lia.
  - exists 209; eexists; split; [reflexivity|]; split; [reflexivity|]; split; [|int_short_s 209 2 p15].
    intros r. change (match rd_uint 2 (be 2 (Z.to_N (z mod 65536)) ++ r) with Err e => Err e | Ok (u, r') => Ok (Int (to_signed p15 u), r') end = Ok (Int z, r)).
    rewrite rd_uint_be2 by lia. do 3 f_equal. unfold to_signed, p15.
    destruct (N.ltb_spec (Z.to_N (z mod 65536)) 32768); lia.
  - exists 210; eexists; split; [reflexivity|]; split; [reflexivity|]; split; [|int_short_s 210 4 p31].
    intros r. change (match rd_uint 4 (be 4 (Z.to_N (z mod 4294967296)) ++ r) with Err e => Err e | Ok (u, r') => Ok (Int (to_signed p31 u), r') end = Ok (Int z, r)).
    rewrite rd_uint_be4 by lia. do 3 f_equal. unfold to_signed, p31.
    destruct (N.ltb_spec (Z.to_N (z mod 4294967296)) 2147483648); lia.
  - exists 211; eexists; split; [reflexivity|]; split; [reflexivity|]; split; [|int_short_s 211 8 p63].
    intros r. change (match rd_uint 8 (be 8 (Z.to_N (z mod 18446744073709551616)) ++ r) with Err e => Err e | Ok (u, r') => Ok (Int (to_signed p63 u), r') end = Ok (Int z, r)).
    rewrite rd_uint_be8 by lia. do 3 f_equal. unfold to_signed, p63.
    destruct (N.ltb_spec (Z.to_N (z mod 18446744073709551616)) 9223372036854775808); lia.
Qed.

Lemma f64_enc_ok x : x < p64 -> scalar_spec FFloat unpack_float (F64 x) (203 :: be 8 x).
Proof.
  intros Hx. exists 203; eexists; split; [reflexivity|]; split; [reflexivity|]; split.
  2:{ intros p Hp.
      change (unpack_float 203 p) with (match rd_uint 8 p with Err e => Err e | Ok (u, r') => Ok (F64 u, r') end).
      short_tail. }
  intros r. change (match rd_uint 8 (be 8 x ++ r) with Err e => Err e | Ok (u, r') => Ok (F64 u, r') end = Ok (F64 x, r)).
  rewrite rd_uint_be8 by exact Hx. reflexivity.
Qed.

Lemma f32_enc_ok x : x < p32 -> scalar_spec FFloat unpack_float (F64 (widen32 x)) (202 :: be 4 x).
Proof.
  intros Hx. exists 202; eexists; split; [reflexivity|]; split; [reflexivity|]; split.
  2:{ intros p Hp.
      change (unpack_float 202 p) with (match rd_uint 4 p with Err e => Err e | Ok (u, r') => Ok (F64 (widen32 u), r') end).
      short_tail. }
  intros r. change (match rd_uint 4 (be 4 x ++ r) with Err e => Err e | Ok (u, r') => Ok (F64 (widen32 u), r') end = Ok (F64 (widen32 x), r)).
  rewrite rd_uint_be4 by exact Hx. reflexivity.
Qed.

Lemma be1 n : n < 256 -> be 1 n = [n].
Proof. intros H. change (be 1 n) with ([] ++ [n mod 256]). rewrite N.mod_small by exact H. reflexivity. Qed.

(* ------------------------------------------------------------------------------------------ *)
(* wf unfolded                                                                                 *)
(* ------------------------------------------------------------------------------------------ *)

Lemma wf_str s : wf (Str s) = utf8_valid s && bytes_ok s && (len s <? p32).
Proof. reflexivity. Qed.
Lemma wf_ext ty d : wf (Ext ty d) = (ty <=? 127) && bytes_ok d && (len d <? p32).
Proof. reflexivity. Qed.
Lemma wf_arr l : wf (Arr l) = forallb wf l && (len l <? p32).
Proof. reflexivity. Qed.
Lemma wf_map kvs : wf (Map kvs) =
  forallb (fun kv => wf (fst kv) && wf (snd kv)) kvs
  && forallb (fun kv => hashable (fst kv)) kvs
  && distinct_keys (map fst kvs)
  && (len kvs <? p32).
Proof. reflexivity. Qed.

(* ------------------------------------------------------------------------------------------ *)
(* dictionary lemmas                                                                           *)
(* ------------------------------------------------------------------------------------------ *)

Lemma dict_set_fresh d k v : key_in k d = false -> dict_set d k v = d ++ [(k, v)].
Proof.
  induction d as [|[k' v'] d IH]; intros H; simpl.
  - reflexivity.
  - unfold key_in in H. simpl in H. apply orb_false_iff in H. destruct H as [H1 H2].
    rewrite H1. f_equal. apply IH. exact H2.
Qed.

Lemma distinct_mid l1 : forall k l2, distinct_keys (l1 ++ k :: l2) = true ->
  forall k', In k' l1 -> py_eq k' k = false.
Proof.
  induction l1 as [|a l1 IH]; intros k l2 H k' Hin.
  - destruct Hin.
  - simpl in H. apply andb_true_iff in H. destruct H as [H1 H2].
    destruct Hin as [<-|Hin].
    + rewrite forallb_forall in H1. specialize (H1 k). rewrite in_app_iff in H1.
      specialize (H1 (or_intror (or_introl eq_refl))). apply negb_true_iff in H1. exact H1.
    + eapply IH; eassumption.
Qed.

Lemma key_in_fresh k acc l2 : distinct_keys (map fst acc ++ k :: l2) = true -> key_in k acc = false.
Proof.
  intros H. unfold key_in. apply not_true_is_false. intros E.
  apply existsb_exists in E. destruct E as [kv [Hin E]].
  rewrite (distinct_mid _ _ _ H (fst kv)) in E; [discriminate|].
  apply in_map. exact Hin.
Qed.

(* ------------------------------------------------------------------------------------------ *)
(* the family decoders seen from dec_step                                                      *)
(* ------------------------------------------------------------------------------------------ *)

Lemma step_integer d j c r : dispatch c = FInteger -> dec_step d j c r = unpack_integer c r.
Proof. intros H. unfold dec_step. rewrite H. reflexivity. Qed.
Lemma step_float d j c r : dispatch c = FFloat -> dec_step d j c r = unpack_float c r.
Proof. intros H. unfold dec_step. rewrite H. reflexivity. Qed.
Lemma step_string d j c r : dispatch c = FString -> dec_step d j c r = unpack_string c r.
Proof. intros H. unfold dec_step. rewrite H. reflexivity. Qed.
Lemma step_binary d j c r : dispatch c = FBinary -> dec_step d j c r = unpack_binary c r.
Proof. intros H. unfold dec_step. rewrite H. reflexivity. Qed.
Lemma step_ext d j c r : dispatch c = FExt -> dec_step d j c r = unpack_ext c r.
Proof. intros H. unfold dec_step. rewrite H. reflexivity. Qed.
Lemma step_array d j c r : dispatch c = FArray ->
  dec_step d j c r = match array_length c r with
                     | Err e => Err e
                     | Ok (n, r1) => match items d j n r1 with
                                     | Err e => Err e
                                     | Ok (l, r2) => Ok (Arr l, r2)
                                     end
                     end.
Proof. intros H. unfold dec_step. rewrite H. reflexivity. Qed.
Lemma step_map d j c r : dispatch c = FMap ->
  dec_step d j c r = match map_length c r with
                     | Err e => Err e
                     | Ok (n, r1) => match pairs d j n [] r1 with
                                     | Err e => Err e
                                     | Ok (kvs, r2) => Ok (Map kvs, r2)
                                     end
                     end.
Proof. intros H. unfold dec_step. rewrite H. reflexivity. Qed.

Lemma scalar_dec fam unp v b :
  scalar_spec fam unp v b ->
  (forall d j c r, dispatch c = fam -> dec_step d j c r = unp c r) ->
  forall rest f, (length (b ++ rest) < f)%nat -> dec f (b ++ rest) = Ok (v, rest).
Proof.
  intros (c & t & -> & Hd & Hok & _) Hstep rest f Hf.
  destruct f as [|f]; [inversion Hf|]. simpl app. rewrite dec_S, (Hstep _ _ _ _ Hd). apply Hok.
Qed.

Lemma scalar_trunc fam unp v b :
  scalar_spec fam unp v b ->
  (forall d j c r, dispatch c = fam -> dec_step d j c r = unp c r) ->
  forall p f, sprefix p b -> (length p < f)%nat -> dec f p = Err Insufficient.
Proof.
  intros (c & t & -> & Hd & _ & Hshort) Hstep p f Hp Hf.
  destruct f as [|f]; [inversion Hf|].
  destruct (sprefix_cons_inv _ _ _ Hp) as [->|[p' [-> Hp']]].
  - apply dec_nil.
  - rewrite dec_S, (Hstep _ _ _ _ Hd). apply Hshort. exact Hp'.
Qed.

(* ------------------------------------------------------------------------------------------ *)
(* accepts_every_form                                                                          *)
(* ------------------------------------------------------------------------------------------ *)

Definition P_Enc (v : value) (b : bytes) : Prop :=
  wf v = true -> forall rest f, (length (b ++ rest) < f)%nat -> dec f (b ++ rest) = Ok (v, rest).

Definition P_EncList (l : list value) (bs : bytes) : Prop :=
  forallb wf l = true ->
  forall rest f j, (length (bs ++ rest) < f)%nat -> (length (bs ++ rest) < j)%nat ->
  items (dec f) j (len l) (bs ++ rest) = Ok (l, rest).

Definition P_EncPairs (kvs : list (value * value)) (bs : bytes) : Prop :=
  forallb (fun kv => wf (fst kv) && wf (snd kv)) kvs = true ->
  forallb (fun kv => hashable (fst kv)) kvs = true ->
  forall acc rest f j,
    distinct_keys (map fst acc ++ map fst kvs) = true ->
    (length (bs ++ rest) < f)%nat -> (length (bs ++ rest) < j)%nat ->
    pairs (dec f) j (len kvs) acc (bs ++ rest) = Ok (acc ++ kvs, rest).

Lemma P_Enc_nonempty v b : P_Enc v b -> wf v = true -> (1 <= length b)%nat.
Proof.
  intros H Hwf. destruct b as [|x b]; [|simpl; lia].
  specialize (H Hwf [] 1%nat (Nat.lt_0_succ 0)). simpl in H. discriminate H.
Qed.

Lemma accepts_mut :
  (forall v b, Enc v b -> P_Enc v b) /\
  (forall l bs, EncList l bs -> P_EncList l bs) /\
  (forall kvs bs, EncPairs kvs bs -> P_EncPairs kvs bs).
Proof.
  apply Enc_mutind; unfold P_Enc, P_EncList, P_EncPairs.
  - (* nil *) intros _ rest f Hf. destruct f; [inversion Hf|]. reflexivity.
  - (* false *) intros _ rest f Hf. destruct f; [inversion Hf|]. reflexivity.
  - (* true *) intros _ rest f Hf. destruct f; [inversion Hf|]. reflexivity.
  - (* int *) intros z b H _. apply (scalar_dec _ _ _ _ (int_enc_ok _ _ H)). exact step_integer.
  - (* f64 *) intros x Hx _. apply (scalar_dec _ _ _ _ (f64_enc_ok _ Hx)). exact step_float.
  - (* f32 *) intros x Hx _. apply (scalar_dec _ _ _ _ (f32_enc_ok _ Hx)). exact step_float.
  - (* str *)
    intros s h Hh Hwf rest f Hf. rewrite wf_str in Hwf.
    apply andb_true_iff in Hwf. destruct Hwf as [Hwf _]. apply andb_true_iff in Hwf. destruct Hwf as [Hu _].
    destruct (str_hdr _ _ Hh) as (c & t & -> & Hd & Hok & _).
    destruct f as [|f]; [inversion Hf|].
    simpl app. rewrite <- app_assoc, dec_S, (step_string _ _ _ _ Hd). unfold unpack_string.
    rewrite Hok, rd_app, Hu. reflexivity.
  - (* bin *)
    intros s h Hh _ rest f Hf.
    destruct (bin_hdr _ _ Hh) as (c & t & -> & Hd & Hok & _).
    destruct f as [|f]; [inversion Hf|].
    simpl app. rewrite <- app_assoc, dec_S, (step_binary _ _ _ _ Hd). unfold unpack_binary.
    rewrite Hok, rd_app. reflexivity.
  - (* ext *)
    intros ty d h Hty Hh _ rest f Hf.
    destruct (ext_hdr _ _ Hh) as (c & t & -> & Hd & Hok & _).
    destruct f as [|f]; [inversion Hf|].
    simpl app. rewrite <- app_assoc, dec_S, (step_ext _ _ _ _ Hd). unfold unpack_ext.
    rewrite Hok. simpl app.
    replace (ty :: d ++ rest) with (be 1 ty ++ (d ++ rest)) by (rewrite be1 by lia; reflexivity).
    rewrite rd_uint_be1 by lia. rewrite rd_app.
    destruct (N.leb_spec ty 127); [reflexivity|lia].
  - (* arr *)
    intros l h b Hh _ IH Hwf rest f Hf. rewrite wf_arr in Hwf.
    apply andb_true_iff in Hwf. destruct Hwf as [Hwf _].
    destruct (arr_hdr _ _ Hh) as (c & t & -> & Hd & Hok & _).
    destruct f as [|f]; [inversion Hf|].
    simpl app. rewrite <- app_assoc, dec_S, (step_array _ _ _ _ Hd), Hok.
    simpl in Hf. rewrite <- app_assoc, app_length in Hf.
    rewrite (IH Hwf rest f f) by lia. reflexivity.
  - (* map *)
    intros kvs h b Hh _ IH Hwf rest f Hf. rewrite wf_map in Hwf.
    apply andb_true_iff in Hwf. destruct Hwf as [Hwf _].
    apply andb_true_iff in Hwf. destruct Hwf as [Hwf Hdist].
    apply andb_true_iff in Hwf. destruct Hwf as [Hwf Hhash].
    destruct (map_hdr _ _ Hh) as (c & t & -> & Hd & Hok & _).
    destruct f as [|f]; [inversion Hf|].
    simpl app. rewrite <- app_assoc, dec_S, (step_map _ _ _ _ Hd), Hok.
    simpl in Hf. rewrite <- app_assoc, app_length in Hf.
    rewrite (IH Hwf Hhash [] rest f f) by (try exact Hdist; lia). reflexivity.
  - (* list nil *) intros _ rest f j _ _. apply items_0.
  - (* list cons *)
    intros v l b bs _ IHv _ IHl Hwf rest f j Hf Hj. simpl in Hwf.
    apply andb_true_iff in Hwf. destruct Hwf as [Hv Hl].
    destruct j as [|j]; [inversion Hj|].
    pose proof (P_Enc_nonempty _ _ IHv Hv) as Hb.
    rewrite len_cons, items_S by lia. rewrite <- app_assoc.
    rewrite <- app_assoc in Hf, Hj.
    rewrite (IHv Hv (bs ++ rest) f Hf). rewrite N.pred_succ.
    rewrite app_length in Hf, Hj.
    rewrite (IHl Hl rest f j) by lia. reflexivity.
  - (* pairs nil *) intros _ _ acc rest f j _ _ _. rewrite app_nil_r. apply pairs_0.
  - (* pairs cons *)
    intros k v l bk bv bs _ IHk _ IHv _ IHl Hwf Hhash acc rest f j Hdist Hf Hj.
    simpl in Hwf, Hhash.
    apply andb_true_iff in Hwf. destruct Hwf as [Hkv Hl].
    apply andb_true_iff in Hkv. destruct Hkv as [Hk Hv].
    apply andb_true_iff in Hhash. destruct Hhash as [Hhk Hhl].
    destruct j as [|j]; [inversion Hj|].
    pose proof (P_Enc_nonempty _ _ IHk Hk) as Hbk.
    rewrite len_cons, pairs_S by lia.
    rewrite <- !app_assoc in *.
    rewrite (IHk Hk _ f Hf).
    simpl map in Hdist.
    assert (Hfresh : key_in k acc = false) by (eapply key_in_fresh; eassumption).
    assert (Hkc : key_check k acc = None).
    { unfold key_check. destruct (is_arr k); [reflexivity|]. rewrite Hhk, Hfresh. reflexivity. }
    rewrite Hkc.
    rewrite !app_length in Hf, Hj.
    rewrite (IHv Hv _ f) by (rewrite !app_length; lia).
    rewrite Hhk, N.pred_succ, (dict_set_fresh _ _ _ Hfresh).
    rewrite (IHl Hl Hhl (acc ++ [(k, v)]) rest f j).
    + rewrite <- app_assoc. reflexivity.
    + rewrite map_app, <- app_assoc. exact Hdist.
    + rewrite !app_length. lia.
    + rewrite !app_length. lia.
Qed.

Theorem accepts_every_form v b : wf v = true -> Enc v b ->
  forall rest, decode (b ++ rest) = Ok (v, rest).
Proof.
  intros Hwf H rest. unfold decode. apply (proj1 accepts_mut v b H Hwf). lia.
Qed.

(* ------------------------------------------------------------------------------------------ *)
(* induction on values                                                                         *)
(* ------------------------------------------------------------------------------------------ *)

Section ValueInd.
  Variable P : value -> Prop.
  Hypothesis HNil : P Nil.
  Hypothesis HBool : forall b, P (Bool b).
  Hypothesis HInt : forall z, P (Int z).
  Hypothesis HF64 : forall x, P (F64 x).
  Hypothesis HStr : forall s, P (Str s).
  Hypothesis HBin : forall s, P (Bin s).
  Hypothesis HExt : forall ty d, P (Ext ty d).
  Hypothesis HArr : forall l, Forall P l -> P (Arr l).
  Hypothesis HMap : forall kvs, Forall (fun kv => P (fst kv) /\ P (snd kv)) kvs -> P (Map kvs).

  Fixpoint value_ind' (v : value) : P v :=
    match v with
    | Nil => HNil
    | Bool b => HBool b
    | Int z => HInt z
    | F64 x => HF64 x
    | Str s => HStr s
    | Bin s => HBin s
    | Ext ty d => HExt ty d
    | Arr l =>
        HArr l ((fix go (l : list value) : Forall P l :=
                   match l with
                   | [] => Forall_nil P
                   | x :: l' => Forall_cons x (value_ind' x) (go l')
                   end) l)
    | Map kvs =>
        HMap kvs ((fix go (l : list (value * value)) : Forall (fun kv => P (fst kv) /\ P (snd kv)) l :=
                     match l with
                     | [] => Forall_nil _
                     | kv :: l' => Forall_cons kv (conj (value_ind' (fst kv)) (value_ind' (snd kv))) (go l')
                     end) kvs)
    end.
End ValueInd.

(* ------------------------------------------------------------------------------------------ *)
(* encode: shape, refusal of out-of-range integers, totality                                   *)
(* ------------------------------------------------------------------------------------------ *)

Lemma encode_arr l : encode (Arr l) = opt_app (array_header (len l)) (encode_list l).
Proof. reflexivity. Qed.

Lemma encode_map kvs : encode (Map kvs) = opt_app (map_header (len kvs)) (encode_pairs kvs).
Proof. reflexivity. Qed.

Lemma opt_app_some a b c : opt_app a b = Some c -> exists x y, a = Some x /\ b = Some y /\ c = x ++ y.
Proof.
  destruct a as [x|]; [|discriminate]. destruct b as [y|]; [|discriminate].
  simpl. intros H. injection H as <-. eauto.
Qed.

Ltac zcases :=
  repeat match goal with
         | H : context [if (?a <? ?b)%Z then _ else _] |- _ => destruct (Z.ltb_spec a b)
         | H : context [if (?a <=? ?b)%Z then _ else _] |- _ => destruct (Z.leb_spec a b)
         | |- context [if (?a <? ?b)%Z then _ else _] => destruct (Z.ltb_spec a b)
         | |- context [if (?a <=? ?b)%Z then _ else _] => destruct (Z.leb_spec a b)
         end.

Ltac ncases :=
  repeat match goal with
         | H : context [if ?a <=? ?b then _ else _] |- _ => destruct (N.leb_spec a b)
         | H : context [if ?a =? ?b then _ else _] |- _ => destruct (N.eqb_spec a b)
         | |- context [if ?a <=? ?b then _ else _] => destruct (N.leb_spec a b)
         | |- context [if ?a =? ?b then _ else _] => destruct (N.eqb_spec a b)
         end.

Lemma pack_integer_enc z b : pack_integer z = Some b -> IntEnc z b.
Proof.
  unfold pack_integer. intros H. zcases; try discriminate; injection H as <-.
  - apply IE_negfix. lia.
  - replace (z + 256)%Z with (z mod 256)%Z by lia. apply IE_i8. lia.
  - replace (z + 65536)%Z with (z mod 65536)%Z by lia. apply IE_i16. lia.
  - replace (z + 4294967296)%Z with (z mod 4294967296)%Z by lia. apply IE_i32. lia.
  - replace (z + 18446744073709551616)%Z with (z mod 18446744073709551616)%Z by lia. apply IE_i64. lia.
  - apply IE_posfix. lia.
  - apply IE_u8. lia.
  - apply IE_u16. lia.
  - apply IE_u32. lia.
  - apply IE_u64. lia.
Qed.

Theorem int_refused z :
  ~ (-9223372036854775808 <= z < 18446744073709551616)%Z -> encode (Int z) = None.
Proof.
  intros H. simpl encode. unfold pack_integer. zcases; try reflexivity; exfalso; apply H; lia.
Qed.

Lemma pack_integer_total z :
  (-9223372036854775808 <= z < 18446744073709551616)%Z -> pack_integer z <> None.
Proof. intros H. unfold pack_integer. zcases; try discriminate; lia. Qed.

Lemma pack_string_enc s b : pack_string s = Some b -> Enc (Str s) b.
Proof.
  unfold pack_string. intros H. ncases; try discriminate; injection H as <-.
  - apply (E_str s [160 + len s]). apply SH_fix. lia.
  - apply (E_str s (217 :: be 1 (len s))). apply SH_8. lia.
  - apply (E_str s (218 :: be 2 (len s))). apply SH_16. lia.
  - apply (E_str s (219 :: be 4 (len s))). apply SH_32. lia.
Qed.

Lemma pack_binary_enc s b : pack_binary s = Some b -> Enc (Bin s) b.
Proof.
  unfold pack_binary. intros H. ncases; try discriminate; injection H as <-.
  - apply (E_bin s (196 :: be 1 (len s))). apply BH_8. lia.
  - apply (E_bin s (197 :: be 2 (len s))). apply BH_16. lia.
  - apply (E_bin s (198 :: be 4 (len s))). apply BH_32. lia.
Qed.

Lemma pack_ext_enc ty d b : ty <= 127 -> pack_ext ty d = Some b -> Enc (Ext ty d) b.
Proof.
  unfold pack_ext. intros Hty H. rewrite (N.mod_small ty 256) in H by lia.
  ncases; try discriminate; try lia; injection H as <-.
  - apply (E_ext ty d [212]); [lia|]. replace (len d) with 1 by assumption. constructor.
  - apply (E_ext ty d [213]); [lia|]. replace (len d) with 2 by assumption. constructor.
  - apply (E_ext ty d [214]); [lia|]. replace (len d) with 4 by assumption. constructor.
  - apply (E_ext ty d [215]); [lia|]. replace (len d) with 8 by assumption. constructor.
  - apply (E_ext ty d [216]); [lia|]. replace (len d) with 16 by assumption. constructor.
  - apply (E_ext ty d (199 :: be 1 (len d))); [lia|]. apply XH_8. lia.
  - apply (E_ext ty d (200 :: be 2 (len d))); [lia|]. apply XH_16. lia.
  - apply (E_ext ty d (201 :: be 4 (len d))); [lia|]. apply XH_32. lia.
Qed.

Lemma array_header_enc n h : array_header n = Some h -> ArrHdr n h.
Proof.
  unfold array_header. intros H. ncases; try discriminate; injection H as <-.
  - apply AH_fix. lia.
  - apply AH_16. lia.
  - apply AH_32. lia.
Qed.

Lemma map_header_enc n h : map_header n = Some h -> MapHdr n h.
Proof.
  unfold map_header. intros H. ncases; try discriminate; injection H as <-.
  - apply MH_fix. lia.
  - apply MH_16. lia.
  - apply MH_32. lia.
Qed.

Theorem encode_conforms : forall v, wf v = true -> forall b, encode v = Some b -> Enc v b.
Proof.
  induction v as [|b0|z|x|s|s|ty d|l IH|kvs IH] using value_ind'; intros Hwf b H.
  - injection H as <-. constructor.
  - injection H as <-. destruct b0; constructor.
  - apply E_int. apply pack_integer_enc. exact H.
  - injection H as <-. apply E_f64. simpl in Hwf. apply N.ltb_lt. exact Hwf.
  - apply pack_string_enc. exact H.
  - apply pack_binary_enc. exact H.
  - rewrite wf_ext in Hwf. apply andb_true_iff in Hwf. destruct Hwf as [Hwf _].
    apply andb_true_iff in Hwf. destruct Hwf as [Hty _]. apply N.leb_le in Hty.
    apply pack_ext_enc; assumption.
  - rewrite encode_arr in H. destruct (opt_app_some _ _ _ H) as (h & body & Hh & Hb & ->).
    rewrite wf_arr in Hwf. apply andb_true_iff in Hwf. destruct Hwf as [Hwf _].
    apply E_arr; [apply array_header_enc; exact Hh|].
    clear H Hh. revert body Hb Hwf. induction IH as [|x l Hx _ IHl]; intros body Hb Hwf.
    + injection Hb as <-. constructor.
    + simpl in Hb, Hwf. apply andb_true_iff in Hwf. destruct Hwf as [Hwx Hwl].
      destruct (opt_app_some _ _ _ Hb) as (bx & bl & Hbx & Hbl & ->).
      constructor; [apply Hx; assumption | apply IHl; assumption].
  - rewrite encode_map in H. destruct (opt_app_some _ _ _ H) as (h & body & Hh & Hb & ->).
    rewrite wf_map in Hwf. apply andb_true_iff in Hwf. destruct Hwf as [Hwf _].
    apply andb_true_iff in Hwf. destruct Hwf as [Hwf _].
    apply andb_true_iff in Hwf. destruct Hwf as [Hwf _].
    apply E_map; [apply map_header_enc; exact Hh|].
    clear H Hh. revert body Hb Hwf. induction IH as [|[k x] l [Hk Hx] _ IHl]; intros body Hb Hwf.
    + injection Hb as <-. constructor.
    + simpl in Hb, Hwf. apply andb_true_iff in Hwf. destruct Hwf as [Hwkx Hwl].
      apply andb_true_iff in Hwkx. destruct Hwkx as [Hwk Hwx].
      destruct (opt_app_some _ _ _ Hb) as (bkx & bl & Hbkx & Hbl & ->).
      destruct (opt_app_some _ _ _ Hbkx) as (bk & bx & Hbk & Hbx & ->).
      rewrite <- app_assoc.
      constructor; [apply Hk; assumption | apply Hx; assumption | apply IHl; assumption].
Qed.

Theorem roundtrip v b : wf v = true -> encode v = Some b ->
  forall rest, decode (b ++ rest) = Ok (v, rest).
Proof.
  intros Hwf H. apply accepts_every_form; [exact Hwf|]. apply encode_conforms; assumption.
Qed.

(* containers propagate the refusal *)
Lemma encode_list_none l x : In x l -> encode x = None -> encode_list l = None.
Proof.
  induction l as [|y l IH]; intros Hin Hx; [destruct Hin|].
  simpl. destruct Hin as [->|Hin].
  - rewrite Hx. reflexivity.
  - rewrite (IH Hin Hx). destruct (encode y); reflexivity.
Qed.

Theorem encode_arr_none l x : In x l -> encode x = None -> encode (Arr l) = None.
Proof.
  intros Hin Hx. rewrite encode_arr, (encode_list_none _ _ Hin Hx).
  destruct (array_header (len l)); reflexivity.
Qed.

Lemma encode_pairs_none kvs k x : In (k, x) kvs -> encode k = None \/ encode x = None ->
  encode_pairs kvs = None.
Proof.
  induction kvs as [|[k' x'] l IH]; intros Hin Hx; [destruct Hin|].
  simpl. destruct Hin as [E|Hin].
  - injection E as -> ->. destruct Hx as [Hx|Hx]; rewrite Hx; [reflexivity|].
    destruct (encode k); reflexivity.
  - rewrite (IH Hin Hx). destruct (opt_app (encode k') (encode x')); reflexivity.
Qed.

Theorem encode_map_none kvs k x : In (k, x) kvs -> encode k = None \/ encode x = None ->
  encode (Map kvs) = None.
Proof.
  intros Hin Hx. rewrite encode_map, (encode_pairs_none _ _ _ Hin Hx).
  destruct (map_header (len kvs)); reflexivity.
Qed.

Theorem encode_total : forall v, wf v = true -> encode v <> None.
Proof.
  induction v as [|b0|z|x|s|s|ty d|l IH|kvs IH] using value_ind'; intros Hwf; try discriminate.
  - simpl in *. apply pack_integer_total. lia.
  - rewrite wf_str in Hwf. apply andb_true_iff in Hwf. destruct Hwf as [_ Hl].
    apply N.ltb_lt in Hl. unfold p32 in Hl. simpl encode. unfold pack_string. ncases; try discriminate; lia.
  - simpl in Hwf. apply andb_true_iff in Hwf. destruct Hwf as [_ Hl].
    apply N.ltb_lt in Hl. unfold p32 in Hl. simpl encode. unfold pack_binary. ncases; try discriminate; lia.
  - rewrite wf_ext in Hwf. apply andb_true_iff in Hwf. destruct Hwf as [_ Hl].
    apply N.ltb_lt in Hl. unfold p32 in Hl. simpl encode. unfold pack_ext. ncases; try discriminate; lia.
  - rewrite wf_arr in Hwf. apply andb_true_iff in Hwf. destruct Hwf as [Hwf Hl].
    apply N.ltb_lt in Hl. unfold p32 in Hl. rewrite encode_arr.
    assert (Hh : array_header (len l) <> None) by (unfold array_header; ncases; try discriminate; lia).
    assert (Hb : encode_list l <> None).
    { clear Hl Hh. induction IH as [|x l Hx _ IHl]; [discriminate|].
      simpl in Hwf. apply andb_true_iff in Hwf. destruct Hwf as [Hwx Hwl].
      simpl. specialize (Hx Hwx). specialize (IHl Hwl).
      destruct (encode x); [|contradiction]. destruct (encode_list l); [discriminate|contradiction]. }
    destruct (array_header (len l)); [|contradiction]. destruct (encode_list l); [discriminate|contradiction].
  - rewrite wf_map in Hwf. apply andb_true_iff in Hwf. destruct Hwf as [Hwf Hl].
    apply andb_true_iff in Hwf. destruct Hwf as [Hwf _].
    apply andb_true_iff in Hwf. destruct Hwf as [Hwf _].
    apply N.ltb_lt in Hl. unfold p32 in Hl. rewrite encode_map.
    assert (Hh : map_header (len kvs) <> None) by (unfold map_header; ncases; try discriminate; lia).
    assert (Hb : encode_pairs kvs <> None).
    { clear Hl Hh. induction IH as [|[k x] l [Hk Hx] _ IHl]; [discriminate|].
      simpl in Hwf. apply andb_true_iff in Hwf. destruct Hwf as [Hwkx Hwl].
      apply andb_true_iff in Hwkx. destruct Hwkx as [Hwk Hwx].
      simpl. specialize (Hk Hwk). specialize (Hx Hwx). specialize (IHl Hwl). simpl fst in Hk. simpl snd in Hx.
      destruct (encode k); [|contradiction]. destruct (encode x); [|contradiction].
      destruct (encode_pairs l); [discriminate|contradiction]. }
    destruct (map_header (len kvs)); [|contradiction]. destruct (encode_pairs kvs); [discriminate|contradiction].
Qed.
