(* The full C04 theorem: for every well-formed flow graph (loops, any nesting, scope levels) and
   every history of queries, the memoised answer (Model/Memo.v, policy of /repo HEAD) is the
   memo-free answer (Model/FlowGraph.v), as a set of alternatives.
   Part 1: well-formedness, totality of the memo-free evaluation (fuel sufficiency).
   Part 2: the invariant of the memo state (sandwich: simple walks avoiding the recorded
           dependencies  <=  stored value  <=  all walks) and its preservation.
   Part 3: queries and histories. *)
From Coq Require Import List Bool Arith NArith PArith FMapPositive Lia.
Import ListNotations.
From Supp Require Import Model.Layout Model.FlowGraph Model.Memo
  Proofs.FlowGraphProofs Proofs.MemoProofs Proofs.PathSem.

(* ---------------------------------------------------------------------------------------------- *)
(* Part 1                                                                                           *)
(* ---------------------------------------------------------------------------------------------- *)

(* well-formedness of a graph with scope levels lv (all decidable; see graph_wfb below) *)
Record gwf (g : graph) (lv : nat -> nat) : Prop := {
  wf_dir : forall f fl i, nth_error (flows g) f = Some fl -> In (Direct i) (parents fl) -> lv i = lv f /\ i < f;
  wf_loop : forall f fl l, nth_error (flows g) f = Some fl -> In (Loop l) (parents fl) ->
            exists t tl, nth_error (loops g) l = Some t /\ lv t = lv f /\ nth_error (flows g) t = Some tl;
  wf_chain : forall f fl c, nth_error (flows g) f = Some fl -> parents fl = [] -> In c (chain fl) ->
             lv c < lv f /\ exists cl, nth_error (flows g) c = Some cl;
  wf_has : forall f fl, nth_error (flows g) f = Some fl -> parents fl <> [] -> exists i, In (Direct i) (parents fl) }.

Section Total.
  Variable canon : list alt -> list alt.
  Variable g : graph.
  Variable lv : nat -> nat.
  Hypothesis Hwf : gwf g lv.

  (* number of loops that are not being resolved *)
  Definition cnt (R : list nat) : nat :=
    length (filter (fun l => negb (existsb (Nat.eqb l) R)) (seq 0 (length (loops g)))).

  Lemma filter_length_le {A} (p q : A -> bool) l : (forall x, q x = true -> p x = true) ->
    length (filter q l) <= length (filter p l).
  Proof.
    intros H. induction l as [|x r IH]; simpl; [lia|].
    destruct (q x) eqn:Eq; [rewrite (H x Eq); simpl; lia|]. destruct (p x); simpl; lia.
  Qed.

  Lemma filter_length_lt {A} (p q : A -> bool) l x : (forall y, q y = true -> p y = true) ->
    In x l -> p x = true -> q x = false -> length (filter q l) < length (filter p l).
  Proof.
    intros H. induction l as [|y r IH]; simpl; [intros []|].
    intros [->|Hin] Hp Hq.
    - rewrite Hp, Hq. simpl. assert (A0 := filter_length_le p q r H). lia.
    - specialize (IH Hin Hp Hq). destruct (q y) eqn:Eq; [rewrite (H y Eq); simpl; lia|].
      destruct (p y); simpl; lia.
  Qed.

  Lemma cnt_cons l R t : nth_error (loops g) l = Some t -> ~ In l R -> cnt (l :: R) < cnt R.
  Proof.
    intros Ht Hn. unfold cnt. apply filter_length_lt with (x := l).
    - intros y. simpl. destruct (Nat.eqb y l); simpl; [discriminate|auto].
    - apply in_seq. assert (l < length (loops g)) by (apply nth_error_Some; congruence). lia.
    - apply existsb_eqb_nIn in Hn. rewrite Hn. reflexivity.
    - simpl. rewrite Nat.eqb_refl. reflexivity.
  Qed.

  Definition defined (R : list nat) (f : nat) : Prop := exists fuel e, names_pure canon g fuel R f = Some e.

  Lemma gather_defined R : forall ps,
    (forall i, In (Direct i) ps -> defined R i) ->
    (forall l, In (Loop l) ps -> ~ In l R -> exists t, nth_error (loops g) l = Some t /\ defined (l :: R) t) ->
    (forall l, In (Loop l) ps -> exists t, nth_error (loops g) l = Some t) ->
    exists fuel es, gather g (names_pure canon g fuel) R ps = Some es.
  Proof.
    induction ps as [|p r IH]; intros HD HL HT.
    - exists 0, []. reflexivity.
    - destruct IH as [n [es Hes]].
      + intros i Hi. apply HD. right. exact Hi.
      + intros l Hl. apply HL. right. exact Hl.
      + intros l Hl. apply HT. right. exact Hl.
      + destruct p as [i|l]; simpl.
        * destruct (HD i (or_introl eq_refl)) as [n1 [e He]].
          exists (Nat.max n n1), (e :: es).
          rewrite (names_pure_mono canon g n1 (Nat.max n n1) ltac:(lia) _ _ _ He).
          rewrite (gather_mono g _ _ (names_pure_mono canon g n (Nat.max n n1) ltac:(lia)) _ _ _ Hes). reflexivity.
        * destruct (existsb (Nat.eqb l) R) eqn:Em; [exists n, es; exact Hes|].
          apply existsb_eqb_nIn in Em.
          destruct (HL l (or_introl eq_refl) Em) as [t [Ht [n1 [e He]]]]. rewrite Ht.
          exists (Nat.max n n1), (e :: es).
          rewrite (names_pure_mono canon g n1 (Nat.max n n1) ltac:(lia) _ _ _ He).
          rewrite (gather_mono g _ _ (names_pure_mono canon g n (Nat.max n n1) ltac:(lia)) _ _ _ Hes). reflexivity.
  Qed.

  Lemma sequence_defined R : forall cs, (forall c, In c cs -> defined R c) ->
    exists fuel es, sequence (map (names_pure canon g fuel R) cs) = Some es.
  Proof.
    induction cs as [|c r IH]; intros H.
    - exists 0, []. reflexivity.
    - destruct IH as [n [es Hes]]; [intros x Hx; apply H; right; exact Hx|].
      destruct (H c (or_introl eq_refl)) as [n1 [e He]].
      exists (Nat.max n n1), (e :: es). simpl.
      rewrite (names_pure_mono canon g n1 (Nat.max n n1) ltac:(lia) _ _ _ He).
      rewrite (sequence_mono _ _ R (names_pure_mono canon g n (Nat.max n n1) ltac:(lia)) _ _ Hes). reflexivity.
  Qed.

  (* the normal path of names_pure once the parents are defined *)
  Lemma defined_normal R f fl : nth_error (flows g) f = Some fl ->
    (match closes_of g f with Some l => In l R | None => True end) ->
    (exists fuel pe, pnames_with canon g (names_pure canon g fuel) R fl = Some pe) -> defined R f.
  Proof.
    intros Hf Hc [n [pe Hpe]]. exists (S n), (own_env (own fl) pe). simpl. rewrite Hf.
    destruct (closes_of g f) as [l|]; [apply existsb_eqb_In in Hc; rewrite Hc|]; rewrite Hpe; reflexivity.
  Qed.

  Lemma total_aux : forall L C F R f, lv f <= L -> cnt R <= C -> f <= F ->
    forall fl, nth_error (flows g) f = Some fl -> defined R f.
  Proof.
    induction L as [L IHL] using (well_founded_induction lt_wf).
    induction C as [C IHC] using (well_founded_induction lt_wf).
    induction F as [F IHF] using (well_founded_induction lt_wf).
    intros R f HL HC HF fl Hf.
    assert (Hparents : exists fuel pe, pnames_with canon g (names_pure canon g fuel) R fl = Some pe).
    { unfold pnames_with. destruct (parents fl) as [|p ps] eqn:Ep.
      - destruct (sequence_defined R (chain fl)) as [n [es Hes]].
        + intros c Hc. destruct (wf_chain g lv Hwf f fl c Hf Ep Hc) as [Hlt [cl Hcl]].
          apply (IHL (lv c) ltac:(lia) (cnt R) c R c (le_n _) (le_n _) (le_n _) cl Hcl).
        + exists n. rewrite Hes. eauto.
      - destruct (gather_defined R (p :: ps)) as [n [es Hes]].
        + intros i Hi. rewrite <- Ep in Hi. destruct (wf_dir g lv Hwf f fl i Hf Hi) as [Hl Hlt].
          assert (Hi' : exists il, nth_error (flows g) i = Some il).
          { destruct (nth_error (flows g) i) eqn:E; [eauto|]. apply nth_error_None in E.
            assert (f < length (flows g)) by (apply nth_error_Some; congruence). lia. }
          destruct Hi' as [il Hil].
          apply (IHF i ltac:(lia) R i ltac:(lia) HC (le_n _) il Hil).
        + intros l Hl Hn. rewrite <- Ep in Hl.
          destruct (wf_loop g lv Hwf f fl l Hf Hl) as [t [tl [Ht [Hlv Htl]]]].
          exists t. split; [exact Ht|].
          apply (IHC (cnt (l :: R)) ltac:(assert (A := cnt_cons l R t Ht Hn); lia) t (l :: R) t ltac:(lia) (le_n _) (le_n _) tl Htl).
        + intros l Hl. rewrite <- Ep in Hl.
          destruct (wf_loop g lv Hwf f fl l Hf Hl) as [t [tl [Ht _]]]. eauto.
        + exists n. rewrite Hes. eauto. }
    destruct (closes_of g f) as [l|] eqn:Ec.
    - destruct (in_dec Nat.eq_dec l R) as [Hin|Hnin].
      + apply (defined_normal R f fl Hf); [rewrite Ec; exact Hin|exact Hparents].
      + assert (Ht := closes_of_spec _ _ _ Ec).
        destruct (IHC (cnt (l :: R)) ltac:(assert (A := cnt_cons l R f Ht Hnin); lia) f (l :: R) f HL (le_n _) (le_n _) fl Hf)
          as [n [e He]].
        exists (S n), e. simpl. rewrite Hf, Ec.
        apply existsb_eqb_nIn in Hnin. rewrite Hnin. exact He.
    - apply (defined_normal R f fl Hf); [rewrite Ec; exact I|exact Hparents].
  Qed.

  Lemma names_pure_total R f fl : nth_error (flows g) f = Some fl -> defined R f.
  Proof. intros Hf. eapply total_aux; eauto. Qed.
End Total.

(* ---------------------------------------------------------------------------------------------- *)
(* Part 2: the invariant                                                                            *)
(* ---------------------------------------------------------------------------------------------- *)

Lemma In_dep_add l x d : In x (dep_add l d) <-> x = l \/ In x d.
Proof.
  unfold dep_add. destruct (existsb (Nat.eqb l) d) eqn:E; simpl; [|intuition].
  apply existsb_eqb_In in E. split; [auto|]. intros [->|H]; auto.
Qed.

Lemma In_dep_union x a b : In x (dep_union a b) <-> In x a \/ In x b.
Proof.
  unfold dep_union. induction a as [|y r IH]; simpl; [tauto|]. rewrite In_dep_add, IH. intuition.
Qed.

Lemma In_dep_remove l x d : In x (dep_remove l d) <-> In x d /\ x <> l.
Proof.
  unfold dep_remove. rewrite filter_In. split; intros [H1 H2]; split; auto.
  - intros ->. rewrite Nat.eqb_refl in H2. discriminate.
  - destruct (Nat.eqb l x) eqn:E; [apply Nat.eqb_eq in E; subst; congruence|reflexivity].
Qed.

Lemma lookup_empty k : lookup k empty_layer = None.
Proof. destruct k; simpl; apply PM.gempty. Qed.

Lemma lookup_layers_In k ls e : lookup_layers k ls = Some e -> exists l, In l ls /\ lookup k l = Some e.
Proof.
  induction ls as [|l r IH]; simpl; [discriminate|].
  destruct (lookup k l) as [e0|] eqn:E.
  - intros H. inversion H; subst. exists l. auto.
  - intros H. destruct (IH H) as [l0 [H1 H2]]. exists l0. auto.
Qed.

Section Full.
  Variable canon : list alt -> list alt.
  Hypothesis Hcanon : forall l a, In a (canon l) <-> In a l.
  Variable g : graph.
  Variable lv : nat -> nat.
  Hypothesis Hwf : gwf g lv.

  Lemma Hdir : forall f fl i, nth_error (flows g) f = Some fl -> In (Direct i) (parents fl) -> lv i = lv f.
  Proof. intros f fl i H1 H2. apply (wf_dir g lv Hwf f fl i H1 H2). Qed.
  Lemma Hloop : forall f fl l, nth_error (flows g) f = Some fl -> In (Loop l) (parents fl) ->
    exists t, nth_error (loops g) l = Some t /\ lv t = lv f.
  Proof. intros f fl l H1 H2. destruct (wf_loop g lv Hwf f fl l H1 H2) as [t [tl [A [B _]]]]. eauto. Qed.
  Lemma Hchain : forall f fl c, nth_error (flows g) f = Some fl -> parents fl = [] -> In c (chain fl) -> lv c < lv f.
  Proof. intros f fl c H1 H2 H3. apply (wf_chain g lv Hwf f fl c H1 H2 H3). Qed.
  Lemma Hhas : forall f fl, nth_error (flows g) f = Some fl -> parents fl <> [] -> exists i, In (Direct i) (parents fl).
  Proof. apply (wf_has g lv Hwf). Qed.

  Definition ER (w : name) := erow canon g w.
  Definition LLV := llv g lv.

  (* walks that visit no flow twice and avoid the loops D (lower bound of a stored value) *)
  Definition ksemS (D : list nat) (k : mkey) (w : name) (a : alt) : Prop :=
    match k with
    | KNames f => NSemS g w (ER w) D f a
    | KPar f => PSemS g w (ER w) D f a
    | KLoop l => exists t, nth_error (loops g) l = Some t /\ NSemS g w (ER w) (l :: D) t a
    end.

  (* all walks (upper bound) *)
  Definition ksemA (k : mkey) (w : name) (a : alt) : Prop :=
    match k with
    | KNames f => NSem g w (ER w) [] f a
    | KPar f => PSem g w (ER w) [] f a
    | KLoop l => exists t, nth_error (loops g) l = Some t /\ NSem g w (ER w) [] t a
    end.

  Definition klv (k : mkey) : nat :=
    match k with KNames f => lv f | KPar f => lv f | KLoop l => LLV l end.

  Record vspec (k : mkey) (v : env) (D : list nat) : Prop := {
    vs_lb : forall w a, ksemS D k w a -> T v w a;
    vs_ub : forall w a, T v w a -> ksemA k w a;
    vs_ok : env_ok v;
    vs_lv : forall l, In l D -> LLV l <= klv k }.

  Lemma NSemS_mono w R R' f a : (forall l, In l R' -> In l R) -> NSemS g w (ER w) R f a -> NSemS g w (ER w) R' f a.
  Proof. intros H [p [Hp Hn]]. exists p. split; [eapply npath_mono; eauto|exact Hn]. Qed.

  Lemma PSemS_mono w R R' f a : (forall l, In l R' -> In l R) -> PSemS g w (ER w) R f a -> PSemS g w (ER w) R' f a.
  Proof.
    intros H [He|[g0 [He Hs]]]; [left; exact He|]. right. exists g0.
    split; [eapply pedge_mono; eauto|eapply NSemS_mono; eauto].
  Qed.

  Lemma ksemS_mono D D' k w a : incl D' D -> ksemS D k w a -> ksemS D' k w a.
  Proof.
    intros H. destruct k as [f|f|l]; simpl.
    - apply NSemS_mono. exact H.
    - apply PSemS_mono. exact H.
    - intros [t [Ht Hs]]. exists t. split; [exact Ht|]. eapply NSemS_mono; [|exact Hs].
      intros x [->|Hx]; [left; reflexivity|right; apply H; exact Hx].
  Qed.

  Lemma vspec_ext k v D D' : incl D D' -> incl D' D -> vspec k v D -> vspec k v D'.
  Proof.
    intros H1 H2 [A B C E]. constructor; [|exact B|exact C|].
    - intros w a Hs. apply A. eapply ksemS_mono; [|exact Hs]. exact H1.
    - intros l Hl. apply E. apply H2. exact Hl.
  Qed.

  (* --- the memo state --- *)
  Fixpoint layers_ok (rs : list nat) (ls : list layer) : Prop :=
    match rs, ls with
    | [], [] => True
    | r :: rs', l :: ls' =>
        (forall k v D, lookup k l = Some (v, D) -> vspec k v D /\ incl D (r :: rs')) /\ layers_ok rs' ls'
    | _, _ => False
    end.

  Definition inv (st : mstate) : Prop :=
    NoDup (resolving st) /\ layers_ok (resolving st) (layers st) /\ dstack st <> [] /\
    forall k v D, lookup k (perm st) = Some (v, D) -> D = [] /\ vspec k v [].

  Lemma layers_ok_In : forall rs ls, layers_ok rs ls -> forall l, In l ls ->
    forall k v D, lookup k l = Some (v, D) -> vspec k v D /\ incl D rs.
  Proof.
    induction rs as [|r rs IH]; intros [|l0 ls] H; simpl in H; try contradiction.
    destruct H as [H0 H1]. intros l [->|Hl] k v D Hk.
    - apply H0. exact Hk.
    - destruct (IH ls H1 l Hl k v D Hk) as [A B]. split; [exact A|].
      intros x Hx. right. apply B. exact Hx.
  Qed.

  Lemma memo_lookup_spec st k v D : inv st -> memo_lookup k st = Some (v, D) ->
    vspec k v D /\ incl D (resolving st).
  Proof.
    intros [_ [Hl [_ Hp]]]. unfold memo_lookup. destruct (lookup k (perm st)) as [e|] eqn:E.
    - intros H. inversion H; subst. destruct (Hp _ _ _ E) as [-> Hv]. split; [exact Hv|intros x []].
    - intros H. destruct (lookup_layers_In _ _ _ H) as [l [Hin Hk]].
      apply in_rev in Hin. eapply layers_ok_In; eauto.
  Qed.

  Definition frames (st st' : mstate) (D : list nat) : Prop :=
    exists d d' rest, dstack st = d :: rest /\ dstack st' = d' :: rest /\
                      forall x, In x d' <-> In x d \/ In x D.

  Definition cspec (k : mkey) (st st' : mstate) (v : env) : Prop :=
    inv st' /\ resolving st' = resolving st /\
    exists D, frames st st' D /\ incl D (resolving st) /\ vspec k v D.

  Lemma store_in_ok k v d : forall rs ls ls', layers_ok rs ls -> vspec k v d -> incl d rs ->
    store_in k (v, d) d rs ls = Some ls' -> layers_ok rs ls'.
  Proof.
    induction rs as [|r rs IH]; intros [|l ls] ls' Hok Hv Hin; simpl in *; try discriminate; try contradiction.
    destruct Hok as [H0 H1]. destruct (existsb (Nat.eqb r) d) eqn:E.
    - intros H. inversion H; subst. simpl. split; [|exact H1].
      intros k' v' D' Hk. destruct (mkey_eq_dec k k') as [->|Hne].
      + rewrite lookup_store_same in Hk. inversion Hk; subst. split; [exact Hv|exact Hin].
      + rewrite lookup_store_other in Hk by exact Hne. apply H0. exact Hk.
    - destruct (store_in k (v, d) d rs ls) as [ls''|] eqn:Es; [|discriminate].
      intros H. inversion H; subst. simpl. split; [exact H0|].
      apply (IH ls ls'' H1 Hv); [|exact Es].
      intros x Hx. destruct (Hin x Hx) as [->|Hr]; [|exact Hr].
      apply existsb_eqb_nIn in E. contradiction.
  Qed.

  Lemma store_entry_inv k v d st : inv st -> vspec k v d -> incl d (resolving st) ->
    inv (store_entry false k v d st).
  Proof.
    intros [Hnd [Hl [Hds Hp]]] Hv Hin. unfold store_entry. destruct d as [|x d'].
    - split; [exact Hnd|]. split; [exact Hl|]. split; [exact Hds|]. simpl.
      intros k' v' D' Hk. destruct (mkey_eq_dec k k') as [->|Hne].
      + rewrite lookup_store_same in Hk. inversion Hk; subst. auto.
      + rewrite lookup_store_other in Hk by exact Hne. apply Hp. exact Hk.
    - assert (Hst : inv st) by (split; [exact Hnd|]; split; [exact Hl|]; split; [exact Hds|exact Hp]).
      destruct (forallb (fun l => existsb (Nat.eqb l) (resolving st)) (x :: d')); [|exact Hst].
      destruct (store_in _ _ _ _ _) as [ls|] eqn:E; [|exact Hst].
      split; [exact Hnd|]. split; [simpl; eapply store_in_ok; eauto|]. split; [exact Hds|exact Hp].
  Qed.

  Lemma inv_same st st' : inv st -> perm st' = perm st -> layers st' = layers st ->
    resolving st' = resolving st -> dstack st' <> [] -> inv st'.
  Proof.
    intros [A [B [C E]]] Hp Hl Hr Hd. unfold inv. rewrite Hp, Hl, Hr. auto.
  Qed.

  Lemma store_entry_resolving k v d st : resolving (store_entry false k v d st) = resolving st.
  Proof.
    unfold store_entry. destruct d; [reflexivity|].
    destruct (forallb _ _); [|reflexivity]. destruct (store_in _ _ _ _ _); reflexivity.
  Qed.

  Lemma store_entry_dstack k v d st : dstack (store_entry false k v d st) = dstack st.
  Proof.
    unfold store_entry. destruct d; [reflexivity|].
    destruct (forallb _ _); [|reflexivity]. destruct (store_in _ _ _ _ _); reflexivity.
  Qed.

  Lemma memo_call_full k func st v st' :
    inv st ->
    (forall st1 v1 st2, inv st1 -> resolving st1 = resolving st -> (exists rest, dstack st1 = [] :: rest) ->
        func st1 = Some (v1, st2) -> cspec k st1 st2 v1) ->
    memo_call false k func st = Some (v, st') -> cspec k st st' v.
  Proof.
    intros Hinv Hf. unfold memo_call. destruct (memo_lookup k st) as [[v0 d0]|] eqn:E.
    - intros H. inversion H; subst. clear H. destruct (memo_lookup_spec _ _ _ _ Hinv E) as [Hv Hin].
      assert (Hds : dstack st <> []) by (destruct Hinv as [_ [_ [Hds _]]]; exact Hds).
      destruct (dstack st) as [|top rest] eqn:Ed; [congruence|].
      assert (Hdd : dstack (add_deps d0 st) = dep_union d0 top :: rest) by (unfold add_deps; rewrite Ed; reflexivity).
      assert (Hpp : perm (add_deps d0 st) = perm st /\ layers (add_deps d0 st) = layers st /\
                    resolving (add_deps d0 st) = resolving st) by (unfold add_deps; rewrite Ed; auto).
      destruct Hpp as [Hp1 [Hp2 Hp3]].
      split; [apply (inv_same st); auto; rewrite Hdd; discriminate|].
      split; [exact Hp3|]. exists d0. split; [|split; assumption].
      exists top, (dep_union d0 top), rest. split; [exact Ed|]. split; [exact Hdd|].
      intros x. rewrite In_dep_union. tauto.
    - destruct (func (push_deps st)) as [[v1 st1]|] eqn:Ef; [|discriminate].
      assert (Hpush : inv (push_deps st)) by (apply (inv_same st); auto; simpl; discriminate).
      destruct (Hf _ _ _ Hpush eq_refl (ex_intro _ (dstack st) eq_refl) Ef)
        as [Hinv1 [Hrs [D [[d [d' [rest0 [Hd0 [Hd1 Hdd]]]]] [HinD HvD]]]]].
      simpl in Hd0. inversion Hd0; subst d rest0. simpl in Hrs, HinD.
      unfold pop_deps. rewrite Hd1.
      assert (Hds : dstack st <> []) by (destruct Hinv as [_ [_ [Hds _]]]; exact Hds).
      destruct (dstack st) as [|top rest] eqn:Ed; [congruence|].
      intros H. inversion H; subst v st'. clear H.
      assert (HD1 : incl D d') by (intros x Hx; apply Hdd; right; exact Hx).
      assert (HD2 : incl d' D) by (intros x Hx; apply Hdd in Hx; destruct Hx as [[]|Hx]; exact Hx).
      assert (Hv' : vspec k v1 d') by (eapply vspec_ext; eauto).
      assert (Hin' : incl d' (resolving st)) by (intros x Hx; apply HinD; apply HD2; exact Hx).
      set (stB := mkState (perm st1) (layers st1) (top :: rest) (resolving st1)).
      assert (HdA : dstack (add_deps d' stB) = dep_union d' top :: rest) by reflexivity.
      assert (HinvA : inv (add_deps d' stB)).
      { apply (inv_same st1); auto. rewrite HdA. discriminate. }
      assert (HrsA : resolving (add_deps d' stB) = resolving st) by exact Hrs.
      split; [apply store_entry_inv; [exact HinvA|exact Hv'|rewrite HrsA; exact Hin']|].
      split; [rewrite store_entry_resolving; exact HrsA|].
      exists d'. split; [|split; assumption].
      exists top, (dep_union d' top), rest. split; [exact Ed|].
      split; [rewrite store_entry_dstack; exact HdA|].
      intros x. rewrite In_dep_union. tauto.
  Qed.

  (* --- computations --- *)
  Definition kctx (st : mstate) (n : nat) : Prop := forall l, In l (resolving st) -> n <= LLV l.

  Definition rec_full (rec : nat -> mstate -> option (env * mstate)) : Prop :=
    forall f st v st', inv st -> kctx st (lv f) -> rec f st = Some (v, st') -> cspec (KNames f) st st' v.

  Lemma frames_trans st1 st2 st3 D1 D2 : frames st1 st2 D1 -> frames st2 st3 D2 -> frames st1 st3 (D1 ++ D2).
  Proof.
    intros [d [d' [rest [A [B C]]]]] [e [e' [rest' [A' [B' C']]]]].
    rewrite B in A'. inversion A'; subst e rest'.
    exists d, e', rest. split; [exact A|]. split; [exact B'|].
    intros x. rewrite C', C, in_app_iff. tauto.
  Qed.

  Lemma frames_nil st : dstack st <> [] -> frames st st [].
  Proof.
    intros H. destruct (dstack st) as [|d rest] eqn:E; [congruence|].
    exists d, d, rest. rewrite E. repeat split; auto. intros [H0|[]]. exact H0.
  Qed.

  Lemma frames_ext st st' D D' : (forall x, In x D <-> In x D') -> frames st st' D -> frames st st' D'.
  Proof.
    intros H [d [d' [rest [A [B C]]]]]. exists d, d', rest. repeat split; auto.
    - intros Hx. apply C in Hx. rewrite <- H. exact Hx.
    - intros Hx. apply C. rewrite H. exact Hx.
  Qed.

  Lemma filter_neq_id l rs : ~ In l rs -> filter (fun x => negb (Nat.eqb l x)) rs = rs.
  Proof.
    induction rs as [|r rs IH]; simpl; [reflexivity|]. intros H.
    destruct (Nat.eqb l r) eqn:E.
    - apply Nat.eqb_eq in E. subst. exfalso. apply H. left. reflexivity.
    - simpl. f_equal. apply IH. intros Hx. apply H. right. exact Hx.
  Qed.

  Lemma LLV_target l t : nth_error (loops g) l = Some t -> LLV l = lv t.
  Proof. intros H. unfold LLV, llv. rewrite H. reflexivity. Qed.

  (* result of LoopFlow.names *)
  Definition lspec (l : nat) (st st' : mstate) (ov : option env) : Prop :=
    inv st' /\ resolving st' = resolving st /\
    exists D, frames st st' D /\ incl D (resolving st) /\
      match ov with
      | None => In l D /\ incl D [l]
      | Some v => vspec (KLoop l) v D
      end.

  Lemma loop_m_full rec l t st ov st' : rec_full rec ->
    nth_error (loops g) l = Some t -> inv st -> kctx st (lv t) ->
    loop_m false g rec l st = Some (ov, st') -> lspec l st st' ov.
  Proof.
    intros Hrec Ht Hinv Hctx. unfold loop_m. destruct (existsb (Nat.eqb l) (resolving st)) eqn:Em.
    - intros H. inversion H; subst ov st'. clear H. apply existsb_eqb_In in Em.
      assert (Hds : dstack st <> []) by (destruct Hinv as [_ [_ [Hds _]]]; exact Hds).
      destruct (dstack st) as [|top rest] eqn:Ed; [congruence|].
      assert (Hdd : dstack (add_deps [l] st) = dep_union [l] top :: rest) by (unfold add_deps; rewrite Ed; reflexivity).
      assert (Hpp : perm (add_deps [l] st) = perm st /\ layers (add_deps [l] st) = layers st /\
                    resolving (add_deps [l] st) = resolving st) by (unfold add_deps; rewrite Ed; auto).
      destruct Hpp as [Hp1 [Hp2 Hp3]].
      split; [apply (inv_same st); auto; rewrite Hdd; discriminate|]. split; [exact Hp3|].
      exists [l]. split; [|split].
      + exists top, (dep_union [l] top), rest. split; [exact Ed|]. split; [exact Hdd|].
        intros x. rewrite In_dep_union. tauto.
      + intros x [->|[]]. exact Em.
      + split; [left; reflexivity|apply incl_refl].
    - rewrite Ht. apply existsb_eqb_nIn in Em.
      destruct (memo_call false (KLoop l) _ st) as [[v st1]|] eqn:Emc; [|discriminate].
      intros H. inversion H; subst ov st'. clear H.
      assert (Hc : cspec (KLoop l) st st1 v).
      { refine (memo_call_full (KLoop l) _ st v st1 Hinv _ Emc).
        intros sa v1 sb Hinva Hrsa [rest Hda] Hfa.
        destruct (rec t (enter_loop l sa)) as [[v2 sc]|] eqn:Er; [|discriminate].
        inversion Hfa; subst v1 sb. clear Hfa.
        assert (Hinve : inv (enter_loop l sa)).
        { destruct Hinva as [A [B [C E]]]. unfold enter_loop. split; simpl.
          - constructor; [rewrite Hrsa; exact Em|exact A].
          - split; [|split; [exact C|exact E]]. split; [|exact B].
            intros k v0 D0 Hk. rewrite lookup_empty in Hk. discriminate. }
        assert (Hctxe : kctx (enter_loop l sa) (lv t)).
        { intros x [<-|Hx]; [rewrite (LLV_target _ _ Ht); lia|]. apply Hctx. rewrite <- Hrsa. exact Hx. }
        destruct (Hrec t _ _ _ Hinve Hctxe Er) as [Hinvc [Hrsc [Dt [[d [d' [rest0 [Hd0 [Hd1 Hdd]]]]] [HinDt HvDt]]]]].
        simpl in Hd0, Hrsc, HinDt. rewrite Hda in Hd0. inversion Hd0; subst d rest0.
        assert (Hnl : ~ In l (resolving sa)) by (rewrite Hrsa; exact Em).
        assert (Hrl : resolving (leave_loop l sc) = resolving sa).
        { unfold leave_loop. simpl. rewrite Hrsc. simpl. rewrite Nat.eqb_refl. simpl. apply filter_neq_id. exact Hnl. }
        assert (Hdl : dstack (leave_loop l sc) = dep_remove l d' :: rest).
        { unfold leave_loop. simpl. rewrite Hd1. reflexivity. }
        split.
        - destruct Hinvc as [A [B [C E]]]. rewrite Hrsc in A, B. split; [rewrite Hrl; inversion A; assumption|].
          split; [|split; [rewrite Hdl; discriminate|exact E]].
          rewrite Hrl. unfold leave_loop. simpl. destruct (layers sc) as [|x ls']; simpl in B; [contradiction|].
          destruct B as [_ B]. exact B.
        - split; [exact Hrl|]. exists (dep_remove l Dt). split; [|split].
          + exists [], (dep_remove l d'), rest. split; [exact Hda|]. split; [exact Hdl|].
            intros x. rewrite !In_dep_remove, Hdd. simpl. tauto.
          + intros x Hx. apply In_dep_remove in Hx. destruct Hx as [Hx Hne].
            destruct (HinDt x Hx) as [E|E]; [congruence|exact E].
          + destruct HvDt as [LB UB OK LVB]. constructor.
            * intros w a [t' [Ht' Hs]]. rewrite Ht in Ht'. inversion Ht'; subst t'.
              apply LB. simpl. eapply NSemS_mono; [|exact Hs].
              intros x Hx. destruct (Nat.eq_dec x l) as [->|Hne]; [left; reflexivity|].
              right. apply In_dep_remove. auto.
            * intros w a Ha. exists t. split; [exact Ht|]. apply UB. exact Ha.
            * exact OK.
            * intros x Hx. apply In_dep_remove in Hx. destruct Hx as [Hx _].
              simpl. rewrite (LLV_target _ _ Ht). apply (LVB x Hx). }
      destruct Hc as [A [B [D [C [E F]]]]].
      split; [exact A|]. split; [exact B|]. exists D. auto.
  Qed.

  (* a parent is accounted for by the gathered environments *)
  Definition pspec (p : parent) (D : list nat) (es : list env) : Prop :=
    match p with
    | Direct i => exists v Di, In v es /\ incl Di D /\ vspec (KNames i) v Di
    | Loop l => In l D \/ exists v Dl, In v es /\ incl Dl D /\ vspec (KLoop l) v Dl
    end.

  Definition pfrom (p : parent) (v : env) : Prop :=
    match p with
    | Direct i => exists Di, vspec (KNames i) v Di
    | Loop l => exists Dl, vspec (KLoop l) v Dl
    end.

  Lemma pspec_mono p D D' es es' : incl D D' -> incl es es' -> pspec p D es -> pspec p D' es'.
  Proof.
    intros H1 H2. destruct p as [i|l]; simpl.
    - intros [v [Di [A [B C]]]]. exists v, Di. split; [apply H2; exact A|]. split; [|exact C].
      intros x Hx. apply H1. apply B. exact Hx.
    - intros [A|[v [Dl [A [B C]]]]]; [left; apply H1; exact A|]. right. exists v, Dl.
      split; [apply H2; exact A|]. split; [|exact C]. intros x Hx. apply H1. apply B. exact Hx.
  Qed.

  Definition gspec (f : nat) (ps : list parent) (st st' : mstate) (es : list env) : Prop :=
    inv st' /\ resolving st' = resolving st /\
    exists D, frames st st' D /\ incl D (resolving st) /\ (forall l, In l D -> LLV l <= lv f) /\
      (forall p, In p ps -> pspec p D es) /\
      (forall v, In v es -> exists p, In p ps /\ pfrom p v).

  Lemma gather_m_full rec f fl : rec_full rec -> nth_error (flows g) f = Some fl ->
    forall ps st es st', incl ps (parents fl) -> inv st -> kctx st (lv f) ->
    gather_m false g rec ps st = Some (es, st') -> gspec f ps st st' es.
  Proof.
    intros Hrec Hf. induction ps as [|p r IH]; intros st es st' Hin Hinv Hctx; simpl.
    - intros H. inversion H; subst es st'. split; [exact Hinv|]. split; [reflexivity|].
      exists []. split; [apply frames_nil; destruct Hinv as [_ [_ [Hd _]]]; exact Hd|].
      split; [intros x []|]. split; [intros x []|]. split; [intros p []|intros v []].
    - assert (Hr : incl r (parents fl)) by (intros x Hx; apply Hin; right; exact Hx).
      destruct p as [i|l].
      + assert (Hli : lv i = lv f) by (eapply Hdir; [exact Hf|apply Hin; left; reflexivity]).
        destruct (rec i st) as [[e st1]|] eqn:E; [|discriminate].
        assert (Hctxi : kctx st (lv i)) by (rewrite Hli; exact Hctx).
        destruct (Hrec i st e st1 Hinv Hctxi E) as [Hinv1 [Hrs1 [D1 [Hfr1 [HinD1 Hv1]]]]].
        destruct (gather_m false g rec r st1) as [[es' st2]|] eqn:E2; [|discriminate].
        assert (Hctx1 : kctx st1 (lv f)) by (intros x Hx; apply Hctx; rewrite <- Hrs1; exact Hx).
        destruct (IH st1 es' st2 Hr Hinv1 Hctx1 E2) as [Hinv2 [Hrs2 [D2 [Hfr2 [HinD2 [HlvD2 [Hps Hvs]]]]]]].
        intros H. inversion H; subst es st'. clear H.
        split; [exact Hinv2|]. split; [congruence|]. exists (D1 ++ D2).
        split; [eapply frames_trans; eauto|].
        split; [intros x Hx; apply in_app_or in Hx; destruct Hx as [Hx|Hx]; [apply HinD1; exact Hx|rewrite <- Hrs1; apply HinD2; exact Hx]|].
        split; [intros x Hx; apply in_app_or in Hx; destruct Hx as [Hx|Hx]; [rewrite <- Hli; apply (vs_lv _ _ _ Hv1 x Hx)|apply HlvD2; exact Hx]|].
        split.
        * intros p [<-|Hp].
          -- exists e, D1. split; [left; reflexivity|]. split; [apply incl_appl, incl_refl|exact Hv1].
          -- eapply pspec_mono; [apply incl_appr, incl_refl|apply incl_tl, incl_refl|apply Hps; exact Hp].
        * intros v [<-|Hv].
          -- exists (Direct i). split; [left; reflexivity|]. exists D1. exact Hv1.
          -- destruct (Hvs v Hv) as [p [Hp Hpf]]. exists p. split; [right; exact Hp|exact Hpf].
      + destruct (Hloop f fl l Hf (Hin _ (or_introl eq_refl))) as [t [Ht Hlt]].
        destruct (loop_m false g rec l st) as [[oe st1]|] eqn:E; [|discriminate].
        assert (Hctxt : kctx st (lv t)) by (rewrite Hlt; exact Hctx).
        destruct (loop_m_full rec l t st oe st1 Hrec Ht Hinv Hctxt E) as [Hinv1 [Hrs1 [D1 [Hfr1 [HinD1 Hv1]]]]].
        destruct (gather_m false g rec r st1) as [[es' st2]|] eqn:E2; [|discriminate].
        assert (Hctx1 : kctx st1 (lv f)) by (intros x Hx; apply Hctx; rewrite <- Hrs1; exact Hx).
        destruct (IH st1 es' st2 Hr Hinv1 Hctx1 E2) as [Hinv2 [Hrs2 [D2 [Hfr2 [HinD2 [HlvD2 [Hps Hvs]]]]]]].
        intros H. inversion H; subst es st'. clear H.
        assert (HlvD1 : forall x, In x D1 -> LLV x <= lv f).
        { intros x Hx. destruct oe as [v|].
          - assert (A := vs_lv _ _ _ Hv1 x Hx). simpl in A. rewrite (LLV_target _ _ Ht) in A. lia.
          - destruct Hv1 as [_ Hv1]. destruct (Hv1 x Hx) as [<-|[]]. rewrite (LLV_target _ _ Ht). lia. }
        split; [exact Hinv2|]. split; [congruence|]. exists (D1 ++ D2).
        split; [eapply frames_trans; eauto|].
        split; [intros x Hx; apply in_app_or in Hx; destruct Hx as [Hx|Hx]; [apply HinD1; exact Hx|rewrite <- Hrs1; apply HinD2; exact Hx]|].
        split; [intros x Hx; apply in_app_or in Hx; destruct Hx as [Hx|Hx]; [apply HlvD1; exact Hx|apply HlvD2; exact Hx]|].
        split.
        * intros p [<-|Hp].
          -- destruct oe as [v|]; simpl.
             ++ right. exists v, D1. split; [left; reflexivity|]. split; [apply incl_appl, incl_refl|exact Hv1].
             ++ left. apply in_or_app. left. apply Hv1.
          -- eapply pspec_mono; [apply incl_appr, incl_refl| |apply Hps; exact Hp].
             destruct oe; [apply incl_tl|]; apply incl_refl.
        * intros v Hv. destruct oe as [v0|].
          -- destruct Hv as [<-|Hv].
             ++ exists (Loop l). split; [left; reflexivity|]. exists D1. exact Hv1.
             ++ destruct (Hvs v Hv) as [p [Hp Hpf]]. exists p. split; [right; exact Hp|exact Hpf].
          -- destruct (Hvs v Hv) as [p [Hp Hpf]]. exists p. split; [right; exact Hp|exact Hpf].
  Qed.

  Definition psound := names_pure_sound canon Hcanon g lv Hdir Hloop Hchain Hhas.
  Definition pcomplete := names_pure_complete canon Hcanon g lv Hdir Hloop Hchain Hhas.

  Lemma ctx_ok_nil f : ctx_ok g lv [] f.
  Proof. intros l []. Qed.

  (* parent_names of a flow with parents: the join of the gathered environments *)
  Lemma join_vspec f fl D es : nth_error (flows g) f = Some fl -> parents fl <> [] ->
    (forall l, In l D -> LLV l <= lv f) ->
    (forall p, In p (parents fl) -> pspec p D es) ->
    (forall v, In v es -> exists p, In p (parents fl) /\ pfrom p v) ->
    vspec (KPar f) (join canon es) D.
  Proof.
    intros Hf Hne Hlv Hps Hvs.
    assert (Hes : es <> []).
    { destruct (Hhas f fl Hf Hne) as [i Hi]. destruct (Hps _ Hi) as [v [Di [Hv _]]]. intros ->. contradiction. }
    constructor.
    - intros w a [[r [[fl' [Hf' [Hp' _]]] _]]|[g0 [[fl' [Hf' He]] [p [Hp Hnd]]]]].
      + rewrite Hf in Hf'. inversion Hf'; subst fl'. contradiction.
      + rewrite Hf in Hf'. inversion Hf'; subst fl'. apply (T_join canon Hcanon w es a Hes).
        destruct He as [Hd|[l [Hl [Hn Ht]]]].
        * destruct (Hps _ Hd) as [v [Di [Hv [Hi Hsp]]]]. exists v. split; [exact Hv|].
          apply (vs_lb _ _ _ Hsp). simpl. exists p. split; [|exact Hnd].
          eapply npath_mono; [|exact Hp]. exact Hi.
        * destruct (Hps _ Hl) as [Hin|[v [Dl [Hv [Hi Hsp]]]]]; [contradiction|].
          exists v. split; [exact Hv|]. apply (vs_lb _ _ _ Hsp). simpl. exists g0. split; [exact Ht|].
          exists p. split; [|exact Hnd]. apply npath_avoid.
          -- intros x Hx E. rewrite Ht in E. inversion E; subst x. inversion Hnd; subst. contradiction.
          -- eapply npath_mono; [|exact Hp]. exact Hi.
    - intros w a Ha. apply (T_join canon Hcanon w es a Hes) in Ha. destruct Ha as [v [Hv Ha]].
      destruct (Hvs v Hv) as [p [Hp Hpf]]. right. destruct p as [i|l]; simpl in Hpf.
      + destruct Hpf as [Di Hsp]. exists i. split; [exists fl; split; [exact Hf|left; exact Hp]|].
        apply (vs_ub _ _ _ Hsp). exact Ha.
      + destruct Hpf as [Dl Hsp]. destruct (vs_ub _ _ _ Hsp w a Ha) as [t [Ht Hs]].
        exists t. split; [|exact Hs]. exists fl. split; [exact Hf|]. right. exists l. repeat split; auto.
    - intros w. apply (join_row_ok canon Hcanon). intros e He.
      destruct (Hvs e He) as [p [_ Hpf]]. destruct p; destruct Hpf as [D0 Hsp]; apply (vs_ok _ _ _ Hsp).
    - exact Hlv.
  Qed.

  (* a stored value without dependencies is the memo-free value under the empty context *)
  Lemma exact_of_vspec c v n pc : vspec (KNames c) v [] -> names_pure canon g n [] c = Some pc ->
    env_rel same_set v pc.
  Proof.
    intros [LB UB OK _] Hp w.
    destruct (psound n [] c pc Hp (ctx_ok_nil c) w) as [Hok Hs].
    apply row_eq_of_T; [apply OK|exact Hok|]. intros a. split.
    - intros Ha. destruct (NSem_simple _ _ _ _ _ _ (UB w a Ha)) as [p [Hp1 Hp2]].
      exact (pcomplete n [] c pc Hp (ctx_ok_nil c) w p a Hp1 Hp2).
    - intros Ha. apply LB. simpl. apply NSem_simple. apply Hs. exact Ha.
  Qed.

  (* the chain of an entry flow: flows of outer levels, which meet no loop that is being resolved *)
  Lemma chain_m_full rec f fl : rec_full rec -> nth_error (flows g) f = Some fl -> parents fl = [] ->
    forall cs st es st', incl cs (chain fl) -> inv st -> kctx st (lv f) ->
    chain_m rec cs st = Some (es, st') ->
    inv st' /\ resolving st' = resolving st /\ frames st st' [] /\
    Forall2 (fun c v => vspec (KNames c) v []) cs es.
  Proof.
    intros Hrec Hf Hp. induction cs as [|c r IH]; intros st es st' Hin Hinv Hctx; simpl.
    - intros H. inversion H; subst es st'. split; [exact Hinv|]. split; [reflexivity|].
      split; [apply frames_nil; destruct Hinv as [_ [_ [Hd _]]]; exact Hd|constructor].
    - assert (Hlt : lv c < lv f) by (eapply Hchain; [exact Hf|exact Hp|apply Hin; left; reflexivity]).
      destruct (rec c st) as [[e st1]|] eqn:E; [|discriminate].
      assert (Hctxc : kctx st (lv c)) by (intros x Hx; specialize (Hctx x Hx); lia).
      destruct (Hrec c st e st1 Hinv Hctxc E) as [Hinv1 [Hrs1 [D1 [Hfr1 [HinD1 Hv1]]]]].
      assert (Hempty : forall x, ~ In x D1).
      { intros x Hx. assert (A := vs_lv _ _ _ Hv1 x Hx). simpl in A.
        assert (B := Hctx x (HinD1 x Hx)). lia. }
      destruct (chain_m rec r st1) as [[es' st2]|] eqn:E2; [|discriminate].
      assert (Hctx1 : kctx st1 (lv f)) by (intros x Hx; apply Hctx; rewrite <- Hrs1; exact Hx).
      destruct (IH st1 es' st2 ltac:(intros x Hx; apply Hin; right; exact Hx) Hinv1 Hctx1 E2)
        as [Hinv2 [Hrs2 [Hfr2 Hall]]].
      intros H. inversion H; subst es st'. clear H.
      split; [exact Hinv2|]. split; [congruence|]. split.
      + apply (frames_ext st st2 (D1 ++ [])); [|eapply frames_trans; eauto].
        intros x. rewrite app_nil_r. split; [intros Hx; exfalso; eapply Hempty; eauto|intros []].
      + constructor; [|exact Hall]. eapply vspec_ext; [| |exact Hv1].
        * intros x Hx. exfalso. eapply Hempty; eauto.
        * intros x [].
  Qed.

  Lemma exact_list n : forall cs es ps, Forall2 (fun c v => vspec (KNames c) v []) cs es ->
    sequence (map (names_pure canon g n []) cs) = Some ps -> Forall2 (env_rel same_set) es ps.
  Proof.
    induction cs as [|c r IH]; intros es ps HF; inversion HF; subst; simpl.
    - intros H. inversion H. constructor.
    - destruct (names_pure canon g n [] c) as [pc|] eqn:Ec; [|discriminate].
      destruct (sequence (map (names_pure canon g n []) r)) as [ps'|] eqn:Es; [|discriminate].
      intros H. inversion H; subst ps. constructor; [eapply exact_of_vspec; eauto|apply IH; auto].
  Qed.

  (* parent_names of an entry flow *)
  Lemma entry_vspec f fl es : nth_error (flows g) f = Some fl -> parents fl = [] ->
    Forall2 (fun c v => vspec (KNames c) v []) (chain fl) es ->
    vspec (KPar f) (hide_env (hide fl) (fold_right overlay (PM.empty _) es)) [].
  Proof.
    intros Hf Hp HF.
    destruct (sequence_defined canon g [] (chain fl)) as [n [ps Hps]].
    { intros c Hc. destruct (wf_chain g lv Hwf f fl c Hf Hp Hc) as [_ [cl Hcl]].
      eapply names_pure_total; eauto. }
    assert (Hrel := entry_env_rel (hide fl) es ps (exact_list n _ _ _ HF Hps)).
    constructor.
    - intros w a [[r [[fl' [Hf' [_ [n' [fl'' [es' [Hf'' [_ [Es' ->]]]]]]]]] Hr]]|[g0 [[fl' [Hf' He]] _]]].
      + rewrite Hf in Hf''. inversion Hf''; subst fl''.
        rewrite <- (sequence_det canon g _ _ _ _ _ _ Hps Es') in Hr.
        eapply rowT_row_eq; [apply row_eq_sym; apply (Hrel w)|exact Hr].
      + rewrite Hf in Hf'. inversion Hf'; subst fl'. rewrite Hp in He. destruct He as [[]|[l [[] _]]].
    - intros w a Ha. left. eexists. split.
      + exists fl. split; [exact Hf|]. split; [exact Hp|]. exists n, fl, ps. repeat split; auto.
      + eapply rowT_row_eq; [apply (Hrel w)|exact Ha].
    - intros w. apply entry_row_ok. rewrite Forall_forall. intros e He.
      clear -HF He. induction HF as [|c v cs vs Hv _ IH]; [contradiction|].
      destruct He as [<-|He]; [apply (vs_ok _ _ _ Hv)|apply IH; exact He].
    - intros l [].
  Qed.

  (* Flow._get_parent_names *)
  Lemma pbody_full rec f fl st pe st' : rec_full rec -> nth_error (flows g) f = Some fl ->
    inv st -> kctx st (lv f) -> pbody false canon g rec fl st = Some (pe, st') ->
    cspec (KPar f) st st' pe.
  Proof.
    intros Hrec Hf Hinv Hctx. unfold pbody. destruct (parents fl) as [|p ps] eqn:Ep.
    - destruct (chain_m rec (chain fl) st) as [[es st1]|] eqn:E; [|discriminate].
      destruct (chain_m_full rec f fl Hrec Hf Ep _ _ _ _ (incl_refl _) Hinv Hctx E) as [Hinv1 [Hrs1 [Hfr Hall]]].
      intros H. inversion H; subst pe st'. split; [exact Hinv1|]. split; [exact Hrs1|].
      exists []. split; [exact Hfr|]. split; [intros x []|]. apply entry_vspec; assumption.
    - destruct (gather_m false g rec (p :: ps) st) as [[es st1]|] eqn:E; [|discriminate].
      assert (Hin : incl (p :: ps) (parents fl)) by (rewrite Ep; apply incl_refl).
      destruct (gather_m_full rec f fl Hrec Hf _ _ _ _ Hin Hinv Hctx E)
        as [Hinv1 [Hrs1 [D [Hfr [HinD [HlvD [Hps Hvs]]]]]]].
      intros H. inversion H; subst pe st'. split; [exact Hinv1|]. split; [exact Hrs1|].
      exists D. split; [exact Hfr|]. split; [exact HinD|].
      apply (join_vspec f fl D es Hf); [rewrite Ep; discriminate|exact HlvD| |]; rewrite Ep; assumption.
  Qed.

  (* names = own bindings over parent_names *)
  Lemma vspec_names_of_par f fl pe D : nth_error (flows g) f = Some fl ->
    vspec (KPar f) pe D -> vspec (KNames f) (own_env (own fl) pe) D.
  Proof.
    intros Hf [LB UB OK LVB]. constructor.
    - intros w a [p [Hp Hnd]]. unfold T. rewrite find_own_env.
      inversion Hp as [f0 a0 Hfin|f0 g0 p' a0 [Hb He] Hp']; subst.
      + destruct Hfin as [[b [Hb ->]]|[Hb [r [He Hr]]]]; rewrite (fbind_own g w f fl Hf) in Hb; rewrite Hb.
        * left. reflexivity.
        * apply LB. left. exists r. auto.
      + rewrite (fbind_own g w f fl Hf) in Hb. rewrite Hb. apply LB. right. exists g0. split; [exact He|].
        exists p'. split; [exact Hp'|]. inversion Hnd; assumption.
    - intros w a. unfold T. rewrite find_own_env. destruct (bind_of w (own fl)) as [b|] eqn:Eb.
      + intros [<-|[]]. exists []. apply np_final. left. exists b.
        split; [rewrite (fbind_own g w f fl Hf); exact Eb|reflexivity].
      + intros Ha. eapply PSem_NSem; eauto. apply UB. exact Ha.
    - intros w. rewrite find_own_env. destruct (bind_of w (own fl)) as [b|]; [exists b; left; reflexivity|apply OK].
    - exact LVB.
  Qed.

  (* a flow that closes loop l answers with the loop *)
  Lemma vspec_names_of_loop f l v D : nth_error (loops g) l = Some f ->
    vspec (KLoop l) v D -> vspec (KNames f) v D.
  Proof.
    intros Ht [LB UB OK LVB]. constructor.
    - intros w a [p [Hp Hnd]]. apply LB. exists f. split; [exact Ht|]. exists p. split; [|exact Hnd].
      apply npath_avoid; [|exact Hp]. intros x Hx E. rewrite Ht in E. inversion E; subst x.
      inversion Hnd; subst. contradiction.
    - intros w a Ha. destruct (UB w a Ha) as [t [Ht' Hs]]. rewrite Ht in Ht'. inversion Ht'; subst t. exact Hs.
    - exact OK.
    - intros x Hx. specialize (LVB x Hx). simpl in *. rewrite (LLV_target _ _ Ht) in LVB. exact LVB.
  Qed.

  Lemma cspec_kctx st st1 : resolving st1 = resolving st -> forall n, kctx st n -> kctx st1 n.
  Proof. intros H n Hc x Hx. apply Hc. rewrite <- H. exact Hx. Qed.

  Lemma names_m_full : forall fuel, rec_full (names_m false canon g fuel).
  Proof.
    induction fuel as [|k IH]; intros f st v st' Hinv Hctx; simpl; [discriminate|].
    destruct (nth_error (flows g) f) as [fl|] eqn:Hf; [|discriminate].
    destruct (closes_of g f) as [l|] eqn:Ec.
    - destruct (existsb (Nat.eqb l) (resolving st)) eqn:Em.
      + intros H.
        refine (memo_call_full (KNames f) _ st v st' Hinv _ H).
        intros sa v1 sb Hinva Hrsa _ Hfa.
        destruct (memo_call false (KPar f) (pbody false canon g (names_m false canon g k) fl) sa)
          as [[pe sc]|] eqn:Ep; [|discriminate].
        inversion Hfa; subst v1 sb.
        assert (Hc : cspec (KPar f) sa sc pe).
        { refine (memo_call_full (KPar f) _ sa pe sc Hinva _ Ep).
          intros s1 v2 s2 Hinv1 Hrs1 _ Hb.
          apply (pbody_full _ f fl s1 v2 s2 IH Hf Hinv1); [|exact Hb].
          apply (cspec_kctx sa s1 Hrs1). apply (cspec_kctx st sa Hrsa). exact Hctx. }
        destruct Hc as [A [B [D [C [E F]]]]]. split; [exact A|]. split; [exact B|].
        exists D. split; [exact C|]. split; [exact E|]. apply vspec_names_of_par; assumption.
      + assert (Ht := closes_of_spec _ _ _ Ec).
        destruct (loop_m false g (names_m false canon g k) l st) as [[[v0|] s0]|] eqn:El; try discriminate.
        intros H. inversion H; subst v0 s0. clear H.
        destruct (loop_m_full _ l f st (Some v) st' IH Ht Hinv Hctx El) as [A [B [D [C [E F]]]]].
        split; [exact A|]. split; [exact B|]. exists D. split; [exact C|]. split; [exact E|].
        eapply vspec_names_of_loop; eauto.
    - intros H.
      refine (memo_call_full (KNames f) _ st v st' Hinv _ H).
      intros sa v1 sb Hinva Hrsa _ Hfa.
      destruct (memo_call false (KPar f) (pbody false canon g (names_m false canon g k) fl) sa)
        as [[pe sc]|] eqn:Ep; [|discriminate].
      inversion Hfa; subst v1 sb.
      assert (Hc : cspec (KPar f) sa sc pe).
      { refine (memo_call_full (KPar f) _ sa pe sc Hinva _ Ep).
        intros s1 v2 s2 Hinv1 Hrs1 _ Hb.
        apply (pbody_full _ f fl s1 v2 s2 IH Hf Hinv1); [|exact Hb].
        apply (cspec_kctx sa s1 Hrs1). apply (cspec_kctx st sa Hrsa). exact Hctx. }
      destruct Hc as [A [B [D [C [E F]]]]]. split; [exact A|]. split; [exact B|].
      exists D. split; [exact C|]. split; [exact E|]. apply vspec_names_of_par; assumption.
  Qed.

  (* ------------------------------------------------------------------------------------------ *)
  (* Part 3: queries and histories                                                                *)
  (* ------------------------------------------------------------------------------------------ *)

  Lemma flow_exists_lt f fl i : nth_error (flows g) f = Some fl -> i < f -> exists il, nth_error (flows g) i = Some il.
  Proof.
    intros Hf Hlt. destruct (nth_error (flows g) i) eqn:E; [eauto|]. apply nth_error_None in E.
    assert (f < length (flows g)) by (apply nth_error_Some; congruence). lia.
  Qed.

  Lemma pnames_total R f fl : nth_error (flows g) f = Some fl ->
    exists n pe, pnames_with canon g (names_pure canon g n) R fl = Some pe.
  Proof.
    intros Hf. unfold pnames_with. destruct (parents fl) as [|p ps] eqn:Ep.
    - destruct (sequence_defined canon g R (chain fl)) as [n [es Hes]].
      + intros c Hc. destruct (wf_chain g lv Hwf f fl c Hf Ep Hc) as [_ [cl Hcl]]. eapply names_pure_total; eauto.
      + exists n. rewrite Hes. eauto.
    - destruct (gather_defined canon g R (p :: ps)) as [n [es Hes]].
      + intros i Hi. rewrite <- Ep in Hi. destruct (wf_dir g lv Hwf f fl i Hf Hi) as [_ Hlt].
        destruct (flow_exists_lt f fl i Hf Hlt) as [il Hil]. eapply names_pure_total; eauto.
      + intros l Hl _. rewrite <- Ep in Hl. destruct (wf_loop g lv Hwf f fl l Hf Hl) as [t [tl [Ht [_ Htl]]]].
        exists t. split; [exact Ht|]. eapply names_pure_total; eauto.
      + intros l Hl. rewrite <- Ep in Hl. destruct (wf_loop g lv Hwf f fl l Hf Hl) as [t [tl [Ht _]]]. eauto.
      + exists n. rewrite Hes. eauto.
  Qed.

  (* a parent_names value without dependencies is the memo-free parent_names under the empty context *)
  Lemma exact_par f fl pe n pe' : nth_error (flows g) f = Some fl -> vspec (KPar f) pe [] ->
    pnames_with canon g (names_pure canon g n) [] fl = Some pe' -> env_rel same_set pe pe'.
  Proof.
    intros Hf [LB UB OK _] Hp w.
    destruct (pnames_sound canon Hcanon g lv Hdir Hloop Hchain Hhas n [] f fl pe' (psound n) Hf (ctx_ok_nil f) Hp w) as [Hok Hs].
    apply row_eq_of_T; [apply OK|exact Hok|]. intros a. split.
    - intros Ha. apply (pnames_complete canon Hcanon g lv Hdir Hloop Hchain Hhas n [] f fl pe' (pcomplete n) Hf (ctx_ok_nil f) Hp w a).
      apply PSem_simple. apply UB. exact Ha.
    - intros Ha. apply LB. simpl. apply PSem_simple. apply Hs. exact Ha.
  Qed.

  Definition top_inv (st : mstate) : Prop := inv st /\ resolving st = [].

  Lemma top_inv_init : top_inv init_state.
  Proof.
    split; [|reflexivity]. split; [constructor|]. split; [exact I|]. split; [discriminate|].
    intros k v D H. rewrite lookup_empty in H. discriminate.
  Qed.

  Lemma names_at_m_full fuel f idx st e st' : top_inv st ->
    names_at_m false canon g fuel f idx st = Some (e, st') ->
    top_inv st' /\ exists n, forall m, n <= m ->
      exists e', names_at_idx canon g m f idx = Some e' /\ env_rel same_set e e'.
  Proof.
    intros [Hinv Hrs]. unfold names_at_m, names_at_idx.
    destruct (nth_error (flows g) f) as [fl|] eqn:Hf; [|discriminate].
    destruct (memo_call false (KPar f) (pbody false canon g (names_m false canon g fuel) fl) st)
      as [[pe st1]|] eqn:E; [|discriminate].
    assert (Hc : cspec (KPar f) st st1 pe).
    { refine (memo_call_full (KPar f) _ st pe st1 Hinv _ E).
      intros s1 v2 s2 Hinv1 Hrs1 _ Hb.
      apply (pbody_full _ f fl s1 v2 s2 (names_m_full fuel) Hf Hinv1); [|exact Hb].
      intros x Hx. rewrite Hrs1, Hrs in Hx. contradiction. }
    destruct Hc as [A [B [D [C [Ein F]]]]].
    intros H. inversion H; subst e st'. clear H.
    split; [split; [exact A|congruence]|].
    assert (F0 : vspec (KPar f) pe []).
    { eapply vspec_ext; [| |exact F]; [|intros x []]. intros x Hx. specialize (Ein x Hx). rewrite Hrs in Ein. exact Ein. }
    destruct (pnames_total [] f fl Hf) as [n [pe' Hpe']].
    exists n. intros m Hm.
    assert (Hpm := pnames_with_mono canon g _ _ [] fl pe' (names_pure_mono canon g n m Hm) Hpe').
    rewrite Hpm. eexists. split; [reflexivity|].
    apply (own_env_rel same_set); [intros b x; tauto|].
    eapply exact_par; eauto.
  Qed.
End Full.

Lemma nth_error_combine_seq {A} (l : list A) : forall f x s, nth_error l f = Some x ->
  In (s + f, x) (combine (seq s (length l)) l).
Proof.
  induction l as [|y r IH]; intros f x s; [destruct f; discriminate|].
  destruct f as [|f]; simpl.
  - intros H. inversion H; subst. left. f_equal. lia.
  - intros H. right. replace (s + S f) with (S s + f) by lia. apply IH. exact H.
Qed.

Lemma graph_wfb_sound g lvs : graph_wfb g lvs = true -> gwf g (lvf lvs).
Proof.
  intros H. unfold graph_wfb in H. rewrite forallb_forall in H.
  assert (Hfl : forall f fl, nth_error (flows g) f = Some fl -> flow_wfb g lvs f fl = true).
  { intros f fl Hf. apply (H (f, fl)). apply (nth_error_combine_seq (flows g) f fl 0 Hf). }
  constructor.
  - intros f fl i Hf Hi. specialize (Hfl f fl Hf). unfold flow_wfb in Hfl.
    apply andb_true_iff in Hfl. destruct Hfl as [Hp _]. rewrite forallb_forall in Hp.
    specialize (Hp _ Hi). simpl in Hp. apply andb_true_iff in Hp. destruct Hp as [A B].
    apply Nat.eqb_eq in A. apply Nat.ltb_lt in B. auto.
  - intros f fl l Hf Hl. specialize (Hfl f fl Hf). unfold flow_wfb in Hfl.
    apply andb_true_iff in Hfl. destruct Hfl as [Hp _]. rewrite forallb_forall in Hp.
    specialize (Hp _ Hl). simpl in Hp. destruct (nth_error (loops g) l) as [t|]; [|discriminate].
    apply andb_true_iff in Hp. destruct Hp as [A B]. apply Nat.eqb_eq in A. apply Nat.ltb_lt in B.
    destruct (nth_error (flows g) t) as [tl|] eqn:Et; [exists t, tl; auto|].
    apply nth_error_None in Et. lia.
  - intros f fl c Hf Hp Hc. specialize (Hfl f fl Hf). unfold flow_wfb in Hfl.
    apply andb_true_iff in Hfl. destruct Hfl as [_ Hq]. rewrite Hp in Hq. rewrite forallb_forall in Hq.
    specialize (Hq _ Hc). apply andb_true_iff in Hq. destruct Hq as [A B].
    apply Nat.ltb_lt in A. apply Nat.ltb_lt in B. split; [exact A|].
    destruct (nth_error (flows g) c) as [cl|] eqn:Ec; [eauto|]. apply nth_error_None in Ec. lia.
  - intros f fl Hf Hne. specialize (Hfl f fl Hf). unfold flow_wfb in Hfl.
    apply andb_true_iff in Hfl. destruct Hfl as [_ Hq]. destruct (parents fl) as [|p ps]; [congruence|].
    apply existsb_exists in Hq. destruct Hq as [x [Hx Hd]]. destruct x as [i|l]; [|discriminate].
    exists i. exact Hx.
Qed.

(* ---- an explicit fuel bound ---------------------------------------------------------------------- *)

Section Bound.
  Variable canon : list alt -> list alt.
  Variable g : graph.
  Variable lv : nat -> nat.
  Hypothesis Hwf : gwf g lv.

  Definition NL := S (length (loops g)).
  Definition NF := S (length (flows g)).
  (* depth of the evaluation of flow f (index <= F, level <= L) with at most C loops not being resolved *)
  Definition depth_bound (L C F : nat) : nat := L * NL * NF + C * NF + F + 1.

  Lemma cnt_le R : cnt g R <= length (loops g).
  Proof.
    unfold cnt. rewrite <- (seq_length (length (loops g)) 0) at 2.
    generalize (seq 0 (length (loops g))). intros l. induction l as [|x r IH]; simpl; [lia|].
    destruct (negb (existsb (Nat.eqb x) R)); simpl; lia.
  Qed.

  Lemma gather_defined_at k R : forall ps,
    (forall i, In (Direct i) ps -> exists e, names_pure canon g k R i = Some e) ->
    (forall l, In (Loop l) ps -> ~ In l R -> exists t e, nth_error (loops g) l = Some t /\ names_pure canon g k (l :: R) t = Some e) ->
    (forall l, In (Loop l) ps -> exists t, nth_error (loops g) l = Some t) ->
    exists es, gather g (names_pure canon g k) R ps = Some es.
  Proof.
    induction ps as [|p r IH]; intros HD HL HT; [exists []; reflexivity|].
    destruct IH as [es Hes].
    - intros i Hi. apply HD. right. exact Hi.
    - intros l Hl. apply HL. right. exact Hl.
    - intros l Hl. apply HT. right. exact Hl.
    - destruct p as [i|l]; simpl.
      + destruct (HD i (or_introl eq_refl)) as [e He]. rewrite He, Hes. eauto.
      + destruct (existsb (Nat.eqb l) R) eqn:Em; [exists es; exact Hes|].
        apply existsb_eqb_nIn in Em. destruct (HL l (or_introl eq_refl) Em) as [t [e [Ht He]]].
        rewrite Ht, He, Hes. eauto.
  Qed.

  Lemma sequence_defined_at k R : forall cs, (forall c, In c cs -> exists e, names_pure canon g k R c = Some e) ->
    exists es, sequence (map (names_pure canon g k R) cs) = Some es.
  Proof.
    induction cs as [|c r IH]; intros H; [exists []; reflexivity|].
    destruct IH as [es Hes]; [intros x Hx; apply H; right; exact Hx|].
    destruct (H c (or_introl eq_refl)) as [e He]. simpl. rewrite He, Hes. eauto.
  Qed.

  Lemma flow_lt f fl : nth_error (flows g) f = Some fl -> f < length (flows g).
  Proof. intros H. apply nth_error_Some. congruence. Qed.

  Lemma pnames_defined_at k R f fl :
    nth_error (flows g) f = Some fl ->
    (forall i il, In (Direct i) (parents fl) -> nth_error (flows g) i = Some il -> exists e, names_pure canon g k R i = Some e) ->
    (forall l t tl, In (Loop l) (parents fl) -> ~ In l R -> nth_error (loops g) l = Some t -> nth_error (flows g) t = Some tl ->
        exists e, names_pure canon g k (l :: R) t = Some e) ->
    (forall c cl, parents fl = [] -> In c (chain fl) -> nth_error (flows g) c = Some cl -> exists e, names_pure canon g k R c = Some e) ->
    exists pe, pnames_with canon g (names_pure canon g k) R fl = Some pe.
  Proof.
    intros Hf HD HL HC. unfold pnames_with. destruct (parents fl) as [|p ps] eqn:Ep.
    - destruct (sequence_defined_at k R (chain fl)) as [es Hes].
      + intros c Hc. destruct (wf_chain g lv Hwf f fl c Hf Ep Hc) as [_ [cl Hcl]]. eapply HC; eauto.
      + rewrite Hes. eauto.
    - destruct (gather_defined_at k R (p :: ps)) as [es Hes].
      + intros i Hi. destruct (wf_dir g lv Hwf f fl i Hf ltac:(rewrite Ep; exact Hi)) as [_ Hlt].
        assert (Hi' : exists il, nth_error (flows g) i = Some il).
        { destruct (nth_error (flows g) i) eqn:E; [eauto|]. apply nth_error_None in E. assert (A := flow_lt f fl Hf). lia. }
        destruct Hi' as [il Hil]. eapply HD; eauto.
      + intros l Hl Hn. destruct (wf_loop g lv Hwf f fl l Hf ltac:(rewrite Ep; exact Hl)) as [t [tl [Ht [_ Htl]]]].
        destruct (HL l t tl Hl Hn Ht Htl) as [e He]. eauto.
      + intros l Hl. destruct (wf_loop g lv Hwf f fl l Hf ltac:(rewrite Ep; exact Hl)) as [t [tl [Ht _]]]. eauto.
      + rewrite Hes. eauto.
  Qed.

  Lemma total_at : forall L C F R f fl k, lv f <= L -> cnt g R <= C -> f <= F ->
    nth_error (flows g) f = Some fl -> depth_bound L C F <= k ->
    exists e, names_pure canon g k R f = Some e.
  Proof.
    induction L as [L IHL] using (well_founded_induction lt_wf).
    induction C as [C IHC] using (well_founded_induction lt_wf).
    induction F as [F IHF] using (well_founded_induction lt_wf).
    intros R f fl k HL HC HF Hf Hk.
    destruct k as [|k]; [unfold depth_bound in Hk; lia|].
    assert (HN : f < length (flows g)) by (eapply flow_lt; eauto).
    assert (Hparents : exists pe, pnames_with canon g (names_pure canon g k) R fl = Some pe).
    { apply (pnames_defined_at k R f fl Hf).
      - intros i il Hi Hil. destruct (wf_dir g lv Hwf f fl i Hf Hi) as [Hl Hlt].
        apply (IHF (f - 1) ltac:(lia) R i il k ltac:(lia) HC ltac:(lia) Hil).
        unfold depth_bound in *. lia.
      - intros l t tl Hl Hn Ht Htl. destruct (wf_loop g lv Hwf f fl l Hf Hl) as [t' [tl' [Ht' [Hlv _]]]].
        rewrite Ht in Ht'. inversion Ht'; subst t'.
        assert (Hc := cnt_cons g l R t Ht Hn).
        apply (IHC (C - 1) ltac:(lia) (length (flows g)) (l :: R) t tl k ltac:(lia) ltac:(lia)
                 ltac:(assert (A := flow_lt t tl Htl); lia) Htl).
        unfold depth_bound, NF in *. nia.
      - intros c cl Hp Hc Hcl. destruct (wf_chain g lv Hwf f fl c Hf Hp Hc) as [Hlt _].
        apply (IHL (L - 1) ltac:(lia) (length (loops g)) (length (flows g)) R c cl k ltac:(lia) (cnt_le R)
                 ltac:(assert (A := flow_lt c cl Hcl); lia) Hcl).
        unfold depth_bound, NF, NL in *. nia. }
    simpl. rewrite Hf. destruct (closes_of g f) as [l|] eqn:Ec.
    - destruct (existsb (Nat.eqb l) R) eqn:Em.
      + destruct Hparents as [pe Hpe]. rewrite Hpe. eauto.
      + apply existsb_eqb_nIn in Em. assert (Ht := closes_of_spec _ _ _ Ec).
        assert (Hc := cnt_cons g l R f Ht Em).
        apply (IHC (C - 1) ltac:(lia) F (l :: R) f fl k HL ltac:(lia) HF Hf).
        unfold depth_bound, NF in *. nia.
    - destruct Hparents as [pe Hpe]. rewrite Hpe. eauto.
  Qed.
End Bound.

Definition fuel_bound (g : graph) (lvs : list nat) : nat :=
  S (list_max lvs) * S (length (loops g)) * S (length (flows g)) + S (length (loops g)) * S (length (flows g)) + S (length (flows g)).

Lemma lvf_le_max lvs f : lvf lvs f <= list_max lvs.
Proof.
  unfold lvf. revert f. induction lvs as [|x r IH]; intros f; simpl; [destruct f; lia|].
  destruct f as [|f]; [lia|]. specialize (IH f). lia.
Qed.

Lemma names_pure_defined_bound canon g lvs R f fl m : gwf g (lvf lvs) ->
  nth_error (flows g) f = Some fl -> fuel_bound g lvs <= m ->
  exists e, names_pure canon g m R f = Some e.
Proof.
  intros Hwf Hf Hm.
  apply (total_at canon g (lvf lvs) Hwf (list_max lvs) (length (loops g)) (length (flows g)) R f fl m
           (lvf_le_max lvs f) (cnt_le g R) ltac:(assert (A := flow_lt g f fl Hf); lia) Hf).
  unfold depth_bound, NL, NF, fuel_bound in *. nia.
Qed.

Lemma query_pure_defined_bound g lvs km q m f fl : gwf g (lvf lvs) ->
  fst (fst q) = f -> nth_error (flows g) f = Some fl -> fuel_bound g lvs <= m ->
  exists a, query_pure g km m q = Some a.
Proof.
  intros Hwf Hq Hf Hm. destruct q as [[f0 loc] nm]. simpl in Hq. subst f0.
  unfold query_pure, names_at_idx. rewrite Hf.
  destruct (pnames_defined_at (norm km) g (lvf lvs) Hwf m [] f fl Hf) as [pe Hpe].
  - intros i il _ Hil. eapply names_pure_defined_bound; eauto.
  - intros l t tl _ _ _ Htl. eapply names_pure_defined_bound; eauto.
  - intros c cl _ _ Hcl. eapply names_pure_defined_bound; eauto.
  - rewrite Hpe. eauto.
Qed.

(* ---- the theorem ------------------------------------------------------------------------------- *)

Lemma query_memo_full g lvs km fuel st q a st' : gwf g (lvf lvs) ->
  top_inv (norm km) g (lvf lvs) st -> query_memo g km fuel st q = Some (a, st') ->
  top_inv (norm km) g (lvf lvs) st' /\
  exists n, forall m, n <= m -> exists a', query_pure g km m q = Some a' /\ row_eq a a'.
Proof.
  intros Hwf Htop. destruct q as [[f loc] nm]. unfold query_memo, query_memo_gen, query_pure.
  destruct (nth_error (flows g) f) as [fl|] eqn:Hf; [|discriminate].
  destruct (names_at_m false (norm km) g fuel f (bisect_idx km fl loc) st) as [[e st1]|] eqn:E; [|discriminate].
  destruct (names_at_m_full (norm km) (In_norm km) g (lvf lvs) Hwf fuel f _ st e st1 Htop E) as [Ht [n Hn]].
  intros H. inversion H; subst a st'. split; [exact Ht|].
  exists n. intros m Hm. destruct (Hn m Hm) as [e' [He' Hrel]]. rewrite He'.
  eexists. split; [reflexivity|]. apply (Hrel nm).
Qed.

Lemma run_history_top g lvs km fuel : gwf g (lvf lvs) -> forall h st st',
  top_inv (norm km) g (lvf lvs) st -> run_history false g km fuel st h = Some st' ->
  top_inv (norm km) g (lvf lvs) st'.
Proof.
  intros Hwf. induction h as [|q r IH]; intros st st' Ht; simpl.
  - intros H. inversion H; subst. exact Ht.
  - destruct (query_memo_gen false g km fuel st q) as [[a st1]|] eqn:E; [|discriminate].
    destruct (query_memo_full g lvs km fuel st q a st1 Hwf Ht E) as [Ht1 _]. apply IH. exact Ht1.
Qed.

(* memo transparency: every well-formed graph, every history, every query *)
Theorem memo_transparent_full g lvs km fuel h q st a st' :
  graph_wfb g lvs = true ->
  run_history false g km fuel init_state h = Some st ->
  query_memo g km fuel st q = Some (a, st') ->
  exists n, forall m, n <= m -> exists a', query_pure g km m q = Some a' /\ row_eq a a'.
Proof.
  intros Hwfb Hh Hq. assert (Hwf := graph_wfb_sound g lvs Hwfb).
  assert (Ht := run_history_top g lvs km fuel Hwf h _ _ (top_inv_init (norm km) g (lvf lvs)) Hh).
  destruct (query_memo_full g lvs km fuel st q a st' Hwf Ht Hq) as [_ H]. exact H.
Qed.

(* with the explicit fuel bound *)
Theorem memo_transparent_bound g lvs km fuel h q st a st' m :
  graph_wfb g lvs = true ->
  run_history false g km fuel init_state h = Some st ->
  query_memo g km fuel st q = Some (a, st') ->
  fuel_bound g lvs <= m ->
  exists a', query_pure g km m q = Some a' /\ row_eq a a'.
Proof.
  intros Hwfb Hh Hq Hm. assert (Hwf := graph_wfb_sound g lvs Hwfb).
  destruct (memo_transparent_full g lvs km fuel h q st a st' Hwfb Hh Hq) as [n Hn].
  assert (Hfl : exists fl, nth_error (flows g) (fst (fst q)) = Some fl).
  { destruct q as [[f loc] nm]. simpl. unfold query_memo, query_memo_gen in Hq.
    destruct (nth_error (flows g) f) as [fl|]; [eauto|discriminate]. }
  destruct Hfl as [fl Hfl].
  destruct (query_pure_defined_bound g lvs km q m _ fl Hwf eq_refl Hfl Hm) as [a1 Ha1].
  destruct (Hn (Nat.max n m) ltac:(lia)) as [a' [Ha' Hr]].
  assert (E := query_pure_mono g km m (Nat.max n m) q a1 ltac:(lia) Ha1).
  rewrite Ha' in E. inversion E; subst a1. exists a'. auto.
Qed.
