(* The full C04 theorem: for every well-formed flow graph (loops, any nesting, scope levels) and
   every history of queries, the memoised answer (Model/Memo.v, policy of /repo HEAD) is the
   memo-free answer (Model/FlowGraph.v), as a set of alternatives.
   Part 1: well-formedness, totality of the memo-free evaluation (fuel sufficiency).
   Part 2: the invariant of the memo state (sandwich: simple walks avoiding the recorded
           dependencies  <=  stored value  <=  all walks) and its preservation.
   Part 3: queries and histories. *)
From Coq Require Import List Bool Arith NArith PArith FMapPositive Lia.
Import ListNotations.
From Supp Require Import Model.Layout Model.FlowGraph Model.Memo
  Proofs.FlowGraphProofs Proofs.MemoProofs Proofs.PathSem.

(* ---------------------------------------------------------------------------------------------- *)
(* Part 1                                                                                           *)
(* ---------------------------------------------------------------------------------------------- *)

(* well-formedness of a graph with scope levels lv (all decidable; see graph_wfb below) *)
Record gwf (g : graph) (lv : nat -> nat) : Prop := {
  wf_dir : forall f fl i, nth_error (flows g) f = Some fl -> In (Direct i) (parents fl) -> lv i = lv f /\ i < f;
  wf_loop : forall f fl l, nth_error (flows g) f = Some fl -> In (Loop l) (parents fl) ->
            exists t tl, nth_error (loops g) l = Some t /\ lv t = lv f /\ nth_error (flows g) t = Some tl;
  wf_chain : forall f fl c, nth_error (flows g) f = Some fl -> parents fl = [] -> In c (chain fl) ->
             lv c < lv f /\ exists cl, nth_error (flows g) c = Some cl;
  wf_has : forall f fl, nth_error (flows g) f = Some fl -> parents fl <> [] -> exists i, In (Direct i) (parents fl) }.

Section Total.
  Variable canon : list alt -> list alt.
  Variable g : graph.
  Variable lv : nat -> nat.
  Hypothesis Hwf : gwf g lv.

  (* number of loops that are not being resolved *)
  Definition cnt (R : list nat) : nat :=
    length (filter (fun l => negb (existsb (Nat.eqb l) R)) (seq 0 (length (loops g)))).

  Lemma filter_length_le {A} (p q : A -> bool) l : (forall x, q x = true -> p x = true) ->
    length (filter q l) <= length (filter p l).
  Proof.
    intros H. induction l as [|x r IH]; simpl; [lia|].
    destruct (q x) eqn:Eq; [rewrite (H x Eq); simpl; lia|]. destruct (p x); simpl; lia.
  Qed.

  Lemma filter_length_lt {A} (p q : A -> bool) l x : (forall y, q y = true -> p y = true) ->
    In x l -> p x = true -> q x = false -> length (filter q l) < length (filter p l).
  Proof.
    intros H. induction l as [|y r IH]; simpl; [intros []|].
    intros [->|Hin] Hp Hq.
    - rewrite Hp, Hq. simpl. assert (A0 := filter_length_le p q r H). lia.
    - specialize (IH Hin Hp Hq). destruct (q y) eqn:Eq; [rewrite (H y Eq); simpl; lia|].
      destruct (p y); simpl; lia.
  Qed.

  Lemma cnt_cons l R t : nth_error (loops g) l = Some t -> ~ In l R -> cnt (l :: R) < cnt R.
  Proof.
    intros Ht Hn. unfold cnt. apply filter_length_lt with (x := l).
    - intros y. simpl. destruct (Nat.eqb y l); simpl; [discriminate|auto].
    - apply in_seq. assert (l < length (loops g)) by (apply nth_error_Some; congruence). lia.
    - apply existsb_eqb_nIn in Hn. rewrite Hn. reflexivity.
    - simpl. rewrite Nat.eqb_refl. reflexivity.
  Qed.

  Definition defined (R : list nat) (f : nat) : Prop := exists fuel e, names_pure canon g fuel R f = Some e.

  Lemma gather_defined R : forall ps,
    (forall i, In (Direct i) ps -> defined R i) ->
    (forall l, In (Loop l) ps -> ~ In l R -> exists t, nth_error (loops g) l = Some t /\ defined (l :: R) t) ->
    (forall l, In (Loop l) ps -> exists t, nth_error (loops g) l = Some t) ->
    exists fuel es, gather g (names_pure canon g fuel) R ps = Some es.
  Proof.
    induction ps as [|p r IH]; intros HD HL HT.
    - exists 0, []. reflexivity.
    - destruct IH as [n [es Hes]].
      + intros i Hi. apply HD. right. exact Hi.
      + intros l Hl. apply HL. right. exact Hl.
      + intros l Hl. apply HT. right. exact Hl.
      + destruct p as [i|l]; simpl.
        * destruct (HD i (or_introl eq_refl)) as [n1 [e He]].
          exists (Nat.max n n1), (e :: es).
          rewrite (names_pure_mono canon g n1 (Nat.max n n1) ltac:(lia) _ _ _ He).
          rewrite (gather_mono g _ _ (names_pure_mono canon g n (Nat.max n n1) ltac:(lia)) _ _ _ Hes). reflexivity.
        * destruct (existsb (Nat.eqb l) R) eqn:Em; [exists n, es; exact Hes|].
          apply existsb_eqb_nIn in Em.
          destruct (HL l (or_introl eq_refl) Em) as [t [Ht [n1 [e He]]]]. rewrite Ht.
          exists (Nat.max n n1), (e :: es).
          rewrite (names_pure_mono canon g n1 (Nat.max n n1) ltac:(lia) _ _ _ He).
          rewrite (gather_mono g _ _ (names_pure_mono canon g n (Nat.max n n1) ltac:(lia)) _ _ _ Hes). reflexivity.
  Qed.

  Lemma sequence_defined R : forall cs, (forall c, In c cs -> defined R c) ->
    exists fuel es, sequence (map (names_pure canon g fuel R) cs) = Some es.
  Proof.
    induction cs as [|c r IH]; intros H.
    - exists 0, []. reflexivity.
    - destruct IH as [n [es Hes]]; [intros x Hx; apply H; right; exact Hx|].
      destruct (H c (or_introl eq_refl)) as [n1 [e He]].
      exists (Nat.max n n1), (e :: es). simpl.
      rewrite (names_pure_mono canon g n1 (Nat.max n n1) ltac:(lia) _ _ _ He).
      rewrite (sequence_mono _ _ R (names_pure_mono canon g n (Nat.max n n1) ltac:(lia)) _ _ Hes). reflexivity.
  Qed.

  (* the normal path of names_pure once the parents are defined *)
  Lemma defined_normal R f fl : nth_error (flows g) f = Some fl ->
    (match closes_of g f with Some l => In l R | None => True end) ->
    (exists fuel pe, pnames_with canon g (names_pure canon g fuel) R fl = Some pe) -> defined R f.
  Proof.
    intros Hf Hc [n [pe Hpe]]. exists (S n), (own_env (own fl) pe). simpl. rewrite Hf.
    destruct (closes_of g f) as [l|]; [apply existsb_eqb_In in Hc; rewrite Hc|]; rewrite Hpe; reflexivity.
  Qed.

  Lemma total_aux : forall L C F R f, lv f <= L -> cnt R <= C -> f <= F ->
    forall fl, nth_error (flows g) f = Some fl -> defined R f.
  Proof.
    induction L as [L IHL] using (well_founded_induction lt_wf).
    induction C as [C IHC] using (well_founded_induction lt_wf).
    induction F as [F IHF] using (well_founded_induction lt_wf).
    intros R f HL HC HF fl Hf.
    assert (Hparents : exists fuel pe, pnames_with canon g (names_pure canon g fuel) R fl = Some pe).
    { unfold pnames_with. destruct (parents fl) as [|p ps] eqn:Ep.
      - destruct (sequence_defined R (chain fl)) as [n [es Hes]].
        + intros c Hc. destruct (wf_chain g lv Hwf f fl c Hf Ep Hc) as [Hlt [cl Hcl]].
          apply (IHL (lv c) ltac:(lia) (cnt R) c R c (le_n _) (le_n _) (le_n _) cl Hcl).
        + exists n. rewrite Hes. eauto.
      - destruct (gather_defined R (p :: ps)) as [n [es Hes]].
        + intros i Hi. rewrite <- Ep in Hi. destruct (wf_dir g lv Hwf f fl i Hf Hi) as [Hl Hlt].
          assert (Hi' : exists il, nth_error (flows g) i = Some il).
          { destruct (nth_error (flows g) i) eqn:E; [eauto|]. apply nth_error_None in E.
            assert (f < length (flows g)) by (apply nth_error_Some; congruence). lia. }
          destruct Hi' as [il Hil].
          apply (IHF i ltac:(lia) R i ltac:(lia) HC (le_n _) il Hil).
        + intros l Hl Hn. rewrite <- Ep in Hl.
          destruct (wf_loop g lv Hwf f fl l Hf Hl) as [t [tl [Ht [Hlv Htl]]]].
          exists t. split; [exact Ht|].
          apply (IHC (cnt (l :: R)) ltac:(assert (A := cnt_cons l R t Ht Hn); lia) t (l :: R) t ltac:(lia) (le_n _) (le_n _) tl Htl).
        + intros l Hl. rewrite <- Ep in Hl.
          destruct (wf_loop g lv Hwf f fl l Hf Hl) as [t [tl [Ht _]]]. eauto.
        + exists n. rewrite Hes. eauto. }
    destruct (closes_of g f) as [l|] eqn:Ec.
    - destruct (in_dec Nat.eq_dec l R) as [Hin|Hnin].
      + apply (defined_normal R f fl Hf); [rewrite Ec; exact Hin|exact Hparents].
      + assert (Ht := closes_of_spec _ _ _ Ec).
        destruct (IHC (cnt (l :: R)) ltac:(assert (A := cnt_cons l R f Ht Hnin); lia) f (l :: R) f HL (le_n _) (le_n _) fl Hf)
          as [n [e He]].
        exists (S n), e. simpl. rewrite Hf, Ec.
        apply existsb_eqb_nIn in Hnin. rewrite Hnin. exact He.
    - apply (defined_normal R f fl Hf); [rewrite Ec; exact I|exact Hparents].
  Qed.

  Lemma names_pure_total R f fl : nth_error (flows g) f = Some fl -> defined R f.
  Proof. intros Hf. eapply total_aux; eauto. Qed.
End Total.
