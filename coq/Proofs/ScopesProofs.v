(* Proofs about Model/Scopes.v: supp's ownership rule agrees with symtable.c's on every chain. *)
From Coq Require Import List Bool Arith NArith Lia.
Import ListNotations.
From Supp Require Import Model.Scopes.

(* ------------------------------------------------------------------------------------------ *)
(* the top-down pass of symtable.c read nearest-first                                           *)
(* ------------------------------------------------------------------------------------------ *)

Fixpoint st_nf (up : list frame) (x : name) : pstate :=
  match up with
  | [] => init_state
  | f :: r => child_state f (length r) x (st_nf r x)
  end.

Lemma pass_down_app : forall l f d x st,
  pass_down (l ++ [f]) d x st = child_state f (d + length l) x (pass_down l d x st).
Proof.
  induction l as [|g l IH]; intros f d x st; simpl.
  - rewrite Nat.add_0_r. reflexivity.
  - rewrite IH. f_equal. lia.
Qed.

Lemma pass_down_rev : forall up x, pass_down (rev up) 0 x init_state = st_nf up x.
Proof.
  induction up as [|f r IH]; intros x; simpl.
  - reflexivity.
  - rewrite pass_down_app, IH, rev_length. reflexivity.
Qed.

Lemma st_nf_cons : forall f r x, st_nf (f :: r) x = child_state f (length r) x (st_nf r x).
Proof. reflexivity. Qed.

Lemma st_nf_nil : forall x, st_nf [] x = init_state.
Proof. reflexivity. Qed.

Lemma resolve_nonlocal_cons : forall c f r x dflt,
  resolve_nonlocal c (f :: r) x dflt =
  if function_like (fkind f) && is_local c f x then OScope (length r) else resolve_nonlocal c r x dflt.
Proof. reflexivity. Qed.

Local Arguments st_nf : simpl never.
Local Arguments scope_names : simpl never.
Local Arguments resolve_nonlocal : simpl never.
Local Arguments child_state : simpl never.
Local Arguments top_names : simpl never.
Local Arguments length : simpl never.

(* what a read that is not decided by the innermost block resolves to, given the passed sets *)
Definition expected (b : option nat) : owner :=
  match b with Some d => OScope d | None => OGlobal end.

(* the four cases of analyze_name *)
Inductive name_case (f : frame) (x : name) : Type :=
  | CGlobal : mem x (fglobal f) = true -> name_case f x
  | CNonlocal : mem x (fglobal f) = false -> mem x (fnonlocal f) = true -> name_case f x
  | CBound : mem x (fglobal f) = false -> mem x (fnonlocal f) = false -> mem x (fbound f) = true -> name_case f x
  | CUse : mem x (fglobal f) = false -> mem x (fnonlocal f) = false -> mem x (fbound f) = false -> name_case f x.

Definition classify (f : frame) (x : name) : name_case f x.
Proof.
  destruct (mem x (fglobal f)) eqn:G; [exact (CGlobal f x G)|].
  destruct (mem x (fnonlocal f)) eqn:NL; [exact (CNonlocal f x G NL)|].
  destruct (mem x (fbound f)) eqn:B; [exact (CBound f x G NL B)|exact (CUse f x G NL B)].
Defined.

Lemma child_state_class : forall f d x st, fkind f = KClass -> child_state f d x st = st.
Proof. intros f d x st K. unfold child_state. rewrite K. reflexivity. Qed.

Lemma child_state_fun_global : forall f d x st,
  function_like (fkind f) = true -> mem x (fglobal f) = true ->
  pbound (child_state f d x st) = None.
Proof.
  intros f d x st K G. unfold child_state, analyze_name. rewrite G.
  destruct (fkind f); try discriminate K; reflexivity.
Qed.

Lemma child_state_fun_nonlocal : forall f d x st,
  function_like (fkind f) = true -> mem x (fglobal f) = false -> mem x (fnonlocal f) = true ->
  child_state f d x st = st.
Proof.
  intros f d x st K G NL. unfold child_state, analyze_name. rewrite G, NL.
  destruct (fkind f); try discriminate K; destruct (pbound st); reflexivity.
Qed.

Lemma child_state_fun_bound : forall f d x st,
  function_like (fkind f) = true -> mem x (fglobal f) = false -> mem x (fnonlocal f) = false ->
  mem x (fbound f) = true -> pbound (child_state f d x st) = Some d.
Proof.
  intros f d x st K G NL B. unfold child_state, analyze_name. rewrite G, NL, B.
  destruct (fkind f); try discriminate K; reflexivity.
Qed.

Lemma child_state_fun_use : forall f d x st,
  function_like (fkind f) = true -> mem x (fglobal f) = false -> mem x (fnonlocal f) = false ->
  mem x (fbound f) = false -> child_state f d x st = st.
Proof.
  intros f d x st K G NL B. unfold child_state, analyze_name. rewrite G, NL, B.
  destruct (fkind f); try discriminate K; destruct (pbound st); reflexivity.
Qed.

Lemma child_state_module : forall f d x st, fkind f = KModule -> pbound (child_state f d x st) = None.
Proof.
  intros f d x st K. unfold child_state. rewrite K.
  destruct (analyze_name f d x st) as [sc st']. reflexivity.
Qed.

Lemma kind_cases : forall k, is_module k = false -> is_class k = false -> function_like k = true.
Proof. destruct k; simpl; intros; congruence. Qed.

(* ------------------------------------------------------------------------------------------ *)
(* shape                                                                                        *)
(* ------------------------------------------------------------------------------------------ *)

Lemma shape_nf_cons : forall a b up, shape_nf (a :: b :: up) = true ->
  is_module (fkind a) = false /\ shape_nf (b :: up) = true.
Proof.
  intros a b up H. simpl in H. apply andb_true_iff in H. destruct H as [H1 H2].
  apply negb_true_iff in H1. split; [exact H1|exact H2].
Qed.

Lemma shape_nf_last_module : forall up d, shape_nf up = true -> fkind (last up d) = KModule.
Proof.
  induction up as [|a up IH]; intros d H; [discriminate H|].
  destruct up as [|b up].
  - simpl in *. destruct (fkind a); try discriminate H; reflexivity.
  - apply shape_nf_cons in H. destruct H as [_ H].
    change (last (a :: b :: up) d) with (last (b :: up) d). apply IH. exact H.
Qed.

(* ------------------------------------------------------------------------------------------ *)
(* the sub-domain on which a configuration of supp is claimed                                   *)
(* ------------------------------------------------------------------------------------------ *)

Definition no_nonlocal (ch : list frame) (x : name) : bool :=
  forallb (fun f => negb (mem x (fnonlocal f))) ch.

(* nearest-first variants with st_nf in place of pass_down (rev _) *)
Fixpoint nl_ok (ch : list frame) (x : name) : bool :=
  match ch with
  | [] => true
  | a :: up =>
      (if mem x (fnonlocal a) && negb (mem x (fglobal a))
       then match pbound (st_nf up x) with Some _ => true | None => false end
       else true) && nl_ok up x
  end.

Fixpoint ngl (ch : list frame) (x : name) : bool :=
  match ch with
  | [] => true
  | a :: up =>
      (if mem x (fglobal a)
       then match pbound (st_nf up x) with Some _ => false | None => true end
       else true) && ngl up x
  end.

Lemma nonlocal_ok_nf_eq : forall ch x, nonlocal_ok_nf ch x = nl_ok ch x.
Proof.
  induction ch as [|a up IH]; intros x; simpl; [reflexivity|].
  rewrite pass_down_rev, IH. reflexivity.
Qed.

Lemma no_global_under_local_nf_eq : forall ch x, no_global_under_local_nf ch x = ngl ch x.
Proof.
  induction ch as [|a up IH]; intros x; simpl; [reflexivity|].
  rewrite pass_down_rev, IH. reflexivity.
Qed.

(* a configuration is adequate for (chain, name): each repair is either present or not needed *)
Definition cfg_ok (c : cfg) (ch : list frame) (x : name) : Prop :=
  (f14 c = true \/ no_nonlocal ch x = true) /\ (f26 c = true \/ ngl ch x = true).

Lemma cfg_ok_tail : forall c a up x, cfg_ok c (a :: up) x -> cfg_ok c up x.
Proof.
  intros c a up x [[H1|H1] [H2|H2]]; split; auto; right.
  - simpl in H2. apply andb_true_iff in H2. tauto.
  - unfold no_nonlocal in *. simpl in H1. apply andb_true_iff in H1. tauto.
  - unfold no_nonlocal in *. simpl in H1. apply andb_true_iff in H1. tauto.
  - simpl in H2. apply andb_true_iff in H2. tauto.
Qed.

Lemma nl_ok_tail : forall a up x, nl_ok (a :: up) x = true -> nl_ok up x = true.
Proof. intros a up x H. simpl in H. apply andb_true_iff in H. tauto. Qed.

(* under an adequate configuration a declared nonlocal is honoured *)
Lemma cfg_ok_nonlocal : forall c a up x, cfg_ok c (a :: up) x -> mem x (fnonlocal a) = true ->
  declared_nonlocal c a x = true.
Proof.
  intros c a up x [[H|H] _] NL; unfold declared_nonlocal.
  - rewrite H, NL. reflexivity.
  - unfold no_nonlocal in H. simpl in H. rewrite NL in H. discriminate H.
Qed.

Lemma declared_nonlocal_false : forall c a x, mem x (fnonlocal a) = false -> declared_nonlocal c a x = false.
Proof. intros c a x NL. unfold declared_nonlocal. rewrite NL. apply andb_false_r. Qed.

(* ------------------------------------------------------------------------------------------ *)
(* Name.scope of a binding made under nonlocal = the function symtable.c keeps in `bound`       *)
(* ------------------------------------------------------------------------------------------ *)

Lemma resolve_nonlocal_sound : forall c up x dflt d,
  cfg_ok c up x ->
  pbound (st_nf up x) = Some d -> resolve_nonlocal c up x dflt = OScope d.
Proof.
  induction up as [|f r IH]; intros x dflt d OK H; [rewrite st_nf_nil in H; discriminate H|].
  rewrite st_nf_cons in H. rewrite resolve_nonlocal_cons. pose proof (cfg_ok_tail _ _ _ _ OK) as OKr.
  destruct (function_like (fkind f)) eqn:K.
  - destruct (classify f x) as [G|G NL|G NL B|G NL B].
    + rewrite child_state_fun_global in H by assumption. discriminate H.
    + rewrite child_state_fun_nonlocal in H by assumption.
      unfold is_local. rewrite (cfg_ok_nonlocal _ _ _ _ OK NL), G. simpl.
      rewrite andb_false_r. simpl. apply IH; assumption.
    + rewrite child_state_fun_bound in H by assumption. inversion H; subst d.
      unfold is_local. rewrite B, G, (declared_nonlocal_false _ _ _ NL). reflexivity.
    + rewrite child_state_fun_use in H by assumption.
      unfold is_local. rewrite B. simpl. apply IH; assumption.
  - simpl. destruct (fkind f) eqn:KK; try discriminate K.
    + rewrite child_state_module in H by assumption. discriminate H.
    + rewrite child_state_class in H by assumption. apply IH; assumption.
Qed.

(* ------------------------------------------------------------------------------------------ *)
(* the names a scope offers to nested scopes                                                    *)
(* ------------------------------------------------------------------------------------------ *)

Lemma top_names_global : forall c e m x o, In o (top_names c e m x) -> coarse o = OGlobal.
Proof.
  intros c e m x o H. unfold top_names in H. apply in_app_or in H. destruct H as [H|H].
  - destruct (is_local c m x); [destruct H as [H|[]]; subst; reflexivity|destruct H].
  - destruct (grouted e x); [destruct H as [H|[]]; subst; reflexivity|].
    destruct (builtin e x); [destruct H as [H|[]]; subst; reflexivity|destruct H].
Qed.

Lemma scope_names_sound : forall c e up x,
  shape_nf up = true -> cfg_ok c up x -> nl_ok up x = true ->
  forall o, In o (scope_names c e up x) -> coarse o = expected (pbound (st_nf up x)).
Proof.
  induction up as [|a up IH]; intros x SH OK NLK o HI; [destruct HI|].
  destruct up as [|b up].
  - (* the module *)
    simpl in SH. change (scope_names c e [a] x) with (top_names c e a x) in HI. rewrite st_nf_cons.
    rewrite child_state_module by (destruct (fkind a); try discriminate SH; reflexivity).
    simpl. eapply top_names_global; exact HI.
  - destruct (shape_nf_cons _ _ _ SH) as [NM SH'].
    pose proof (cfg_ok_tail _ _ _ _ OK) as OK'. pose proof (nl_ok_tail _ _ _ NLK) as NLK'.
    change (st_nf (a :: b :: up) x) with (child_state a (length (b :: up)) x (st_nf (b :: up) x)).
    change (scope_names c e (a :: b :: up) x) with
      (match fkind a with
       | KClass => scope_names c e (b :: up) x
       | _ => if is_local c a x then [OScope (length (b :: up))]
              else (if is_routed c a x then [resolve_nonlocal c (b :: up) x (length (b :: up))] else []) ++
                   (if f26 c && mem x (fglobal a) then top_names c e (last_frame (b :: up) a) x
                    else scope_names c e (b :: up) x)
       end) in HI.
    destruct (is_class (fkind a)) eqn:KC.
    + (* class: delegates to the parent, and passes the sets through *)
      assert (fkind a = KClass) as KK by (destruct (fkind a); try discriminate KC; reflexivity).
      rewrite KK in HI. rewrite child_state_class by exact KK. apply IH; assumption.
    + pose proof (kind_cases _ NM KC) as KF.
      assert (In o (if is_local c a x then [OScope (length (b :: up))]
              else (if is_routed c a x then [resolve_nonlocal c (b :: up) x (length (b :: up))] else []) ++
                   (if f26 c && mem x (fglobal a) then top_names c e (last_frame (b :: up) a) x
                    else scope_names c e (b :: up) x))) as HI'
        by (destruct (fkind a); try discriminate KC; try discriminate NM; exact HI).
      clear HI.
      destruct (classify a x) as [G|G NL|G NL B|G NL B].
      * (* declared global *)
        rewrite child_state_fun_global by assumption. simpl.
        unfold is_local, is_routed in HI'. rewrite G in HI'. simpl in HI'.
        rewrite !andb_false_r in HI'. simpl in HI'.
        destruct OK as [_ [F26|NG]].
        -- rewrite F26 in HI'. simpl in HI'. eapply top_names_global; exact HI'.
        -- destruct (f26 c); simpl in HI'; [eapply top_names_global; exact HI'|].
           simpl in NG. rewrite G in NG. apply andb_true_iff in NG. destruct NG as [NG _].
           rewrite (IH x SH' OK' NLK' o HI').
           destruct (pbound (st_nf (b :: up) x)); [discriminate NG|reflexivity].
      * (* declared nonlocal *)
        rewrite child_state_fun_nonlocal by assumption.
        unfold is_local, is_routed in HI'.
        rewrite (cfg_ok_nonlocal _ _ _ _ OK NL), G in HI'. simpl in HI'.
        rewrite andb_false_r, andb_false_r in HI'. simpl in HI'.
        simpl in NLK. rewrite NL, G in NLK. simpl in NLK.
        apply andb_true_iff in NLK. destruct NLK as [NLa _].
        destruct (pbound (st_nf (b :: up) x)) as [d|] eqn:PB; [|discriminate NLa].
        apply in_app_or in HI'. destruct HI' as [HR|HR].
        -- destruct (mem x (fbound a)); simpl in HR; [|destruct HR].
           destruct HR as [HR|[]]. subst o.
           rewrite (resolve_nonlocal_sound c (b :: up) x _ d OK' PB). reflexivity.
        -- rewrite (IH x SH' OK' NLK' o HR), PB. reflexivity.
      * (* bound: a local of the function *)
        rewrite child_state_fun_bound by assumption.
        unfold is_local in HI'. rewrite B, G, (declared_nonlocal_false _ _ _ NL) in HI'. simpl in HI'.
        destruct HI' as [HI'|[]]. subst o. reflexivity.
      * (* only used *)
        rewrite child_state_fun_use by assumption.
        unfold is_local, is_routed in HI'. rewrite B, G in HI'. simpl in HI'.
        rewrite andb_false_r in HI'. simpl in HI'. apply IH; assumption.
Qed.

(* ------------------------------------------------------------------------------------------ *)
(* reads                                                                                        *)
(* ------------------------------------------------------------------------------------------ *)

Lemma py_owner_rev : forall a up x,
  py_owner (rev (a :: up)) x =
  match fst (analyze_name a (length up) x (st_nf up x)) with
  | PLocal => Some (match up with [] => OGlobal | _ :: _ => OScope (length up) end)
  | PFree d => Some (OScope d)
  | PGlobalExplicit | PGlobalImplicit => Some OGlobal
  | PErrNonlocal => None
  end.
Proof.
  intros a up x. unfold py_owner, py_scope. rewrite rev_involutive.
  rewrite pass_down_rev, !rev_length. simpl length.
  destruct (fst (analyze_name a (length up) x (st_nf up x))); try reflexivity.
  destruct up as [|b up]; [reflexivity|].
  change (length (a :: b :: up)) with (S (S (length up))). change (length (b :: up)) with (S (length up)).
  reflexivity.
Qed.

Lemma analyze_name_scope : forall a d x st,
  fst (analyze_name a d x st) =
  if mem x (fglobal a) then PGlobalExplicit
  else if mem x (fnonlocal a) then match pbound st with Some o => PFree o | None => PErrNonlocal end
  else if mem x (fbound a) then PLocal
  else match pbound st with Some o => PFree o | None => PGlobalImplicit end.
Proof.
  intros a d x st. unfold analyze_name.
  destruct (mem x (fglobal a)); [reflexivity|].
  destruct (mem x (fnonlocal a)); [destruct (pbound st); reflexivity|].
  destruct (mem x (fbound a)); [reflexivity|destruct (pbound st); reflexivity].
Qed.

Theorem supp_owners_nf_sound : forall c e ch x,
  shape_nf ch = true -> cfg_ok c ch x -> nl_ok ch x = true ->
  (match ch with a :: _ => negb (is_class (fkind a) && mem x (fbound a)) | [] => false end) = true ->
  forall o, In o (supp_owners_nf c e ch x) -> py_owner (rev ch) x = Some (coarse o).
Proof.
  intros c e ch x SH OK NLK DOM o HI.
  destruct ch as [|a up]; [discriminate DOM|].
  rewrite py_owner_rev, analyze_name_scope.
  destruct up as [|b up].
  - (* a read at module level *)
    change (supp_owners_nf c e [a] x) with (top_names c e a x) in HI.
    rewrite (top_names_global _ _ _ _ _ HI). rewrite st_nf_nil. simpl pbound.
    destruct (classify a x) as [G|G NL|G NL B|G NL B].
    + rewrite G. reflexivity.
    + simpl in NLK. rewrite NL, G in NLK. discriminate NLK.
    + rewrite G, NL, B. reflexivity.
    + rewrite G, NL, B. reflexivity.
  - destruct (shape_nf_cons _ _ _ SH) as [NM SH'].
    pose proof (cfg_ok_tail _ _ _ _ OK) as OK'. pose proof (nl_ok_tail _ _ _ NLK) as NLK'.
    change (supp_owners_nf c e (a :: b :: up) x) with
      ((if is_local c a x then [OScope (length (b :: up))] else []) ++
       (if is_routed c a x then [resolve_nonlocal c (b :: up) x (length (b :: up))] else []) ++
       (if is_local c a x && negb (is_class (fkind a)) then []
        else if f26 c && mem x (fglobal a) then top_names c e (last_frame (b :: up) a) x
        else scope_names c e (b :: up) x)) in HI.
    destruct (classify a x) as [G|G NL|G NL B|G NL B].
    + (* declared global *)
      rewrite G.
      unfold is_local, is_routed in HI. rewrite G in HI. simpl in HI.
      rewrite !andb_false_r in HI. simpl in HI.
      destruct OK as [_ [F26|NG]].
      * rewrite F26 in HI. simpl in HI. rewrite (top_names_global _ _ _ _ _ HI). reflexivity.
      * destruct (f26 c); simpl in HI; [rewrite (top_names_global _ _ _ _ _ HI); reflexivity|].
        rewrite (scope_names_sound c e (b :: up) x SH' OK' NLK' o HI).
        simpl in NG. rewrite G in NG. apply andb_true_iff in NG. destruct NG as [NG _].
        destruct (pbound (st_nf (b :: up) x)); [discriminate NG|reflexivity].
    + (* declared nonlocal *)
      rewrite G, NL.
      unfold is_local, is_routed in HI.
      rewrite (cfg_ok_nonlocal _ _ _ _ OK NL), G in HI. simpl in HI.
      rewrite andb_false_r, andb_false_r in HI. simpl in HI.
      simpl in NLK. rewrite NL, G in NLK. simpl in NLK.
      apply andb_true_iff in NLK. destruct NLK as [NLa _].
      change (child_state b (length up) x (st_nf up x)) with (st_nf (b :: up) x) in NLa.
      destruct (pbound (st_nf (b :: up) x)) as [d|] eqn:PB; [|discriminate NLa].
      apply in_app_or in HI. destruct HI as [HR|HR].
      * destruct (mem x (fbound a)); simpl in HR; [|destruct HR].
        destruct HR as [HR|[]]. subst o.
        rewrite (resolve_nonlocal_sound c (b :: up) x _ d OK' PB). reflexivity.
      * rewrite (scope_names_sound c e (b :: up) x SH' OK' NLK' o HR), PB. reflexivity.
    + (* bound: a local of the scope; in the domain the scope is not a class *)
      rewrite G, NL, B.
      rewrite B, andb_true_r in DOM. apply negb_true_iff in DOM.
      unfold is_local, is_routed in HI.
      rewrite B, G, (declared_nonlocal_false _ _ _ NL), DOM in HI. simpl in HI.
      destruct HI as [HI|[]]. subst o. reflexivity.
    + (* only used *)
      rewrite G, NL, B.
      unfold is_local, is_routed in HI. rewrite B, G in HI. simpl in HI.
      rewrite andb_false_r in HI.
      rewrite (scope_names_sound c e (b :: up) x SH' OK' NLK' o HI).
      destruct (pbound (st_nf (b :: up) x)); reflexivity.
Qed.

(* root-first statements ------------------------------------------------------------------- *)

Lemma in_domain_nf : forall fs x, in_domain fs x = true ->
  (match rev fs with a :: _ => negb (is_class (fkind a) && mem x (fbound a)) | [] => false end) = true.
Proof. intros fs x H. exact H. Qed.

(* full theorem for the repaired rule *)
Theorem supp_owner_agrees : forall e fs x o,
  shape_ok fs = true -> nonlocal_ok fs x = true -> in_domain fs x = true ->
  In o (supp_owners cfg_fixed e fs x) -> py_owner fs x = Some (coarse o).
Proof.
  intros e fs x o SH NLK DOM HI. unfold supp_owners in HI.
  rewrite <- (rev_involutive fs).
  apply (supp_owners_nf_sound cfg_fixed e (rev fs) x).
  - exact SH.
  - split; left; reflexivity.
  - unfold nonlocal_ok in NLK. rewrite nonlocal_ok_nf_eq in NLK. exact NLK.
  - apply in_domain_nf. exact DOM.
  - exact HI.
Qed.

Lemma no_nonlocal_nl_ok : forall ch x, no_nonlocal ch x = true -> nl_ok ch x = true.
Proof.
  induction ch as [|a up IH]; intros x H; simpl; [reflexivity|].
  unfold no_nonlocal in H. simpl in H. apply andb_true_iff in H. destruct H as [H1 H2].
  apply negb_true_iff in H1. rewrite H1. simpl. apply IH. exact H2.
Qed.

(* partial theorem for any configuration, on the sub-domain where the missing repairs are not needed *)
Theorem supp_owner_agrees_partial : forall c e fs x o,
  shape_ok fs = true -> pinned_domain fs x = true -> in_domain fs x = true ->
  In o (supp_owners c e fs x) -> py_owner fs x = Some (coarse o).
Proof.
  intros c e fs x o SH PD DOM HI. unfold supp_owners in HI.
  unfold pinned_domain in PD. apply andb_true_iff in PD. destruct PD as [P1 P2].
  assert (no_nonlocal (rev fs) x = true) as NN.
  { unfold no_nonlocal. apply forallb_forall. intros f Hf. apply in_rev in Hf.
    rewrite forallb_forall in P1. apply P1. exact Hf. }
  rewrite no_global_under_local_nf_eq in P2.
  rewrite <- (rev_involutive fs).
  apply (supp_owners_nf_sound c e (rev fs) x).
  - exact SH.
  - split; right; assumption.
  - apply no_nonlocal_nl_ok. exact NN.
  - apply in_domain_nf. exact DOM.
  - exact HI.
Qed.

(* tree-level corollary *)
Theorem supp_owner_at_agrees : forall bi t p fs x o,
  chain t p = Some fs ->
  shape_ok fs = true -> nonlocal_ok fs x = true -> in_domain fs x = true ->
  In o (supp_owners_at cfg_fixed bi t p x) -> py_owner_at t p x = Some (coarse o).
Proof.
  intros bi t p fs x o CH SH NLK DOM HI. unfold supp_owners_at, py_owner_at in *.
  rewrite CH in *. eapply supp_owner_agrees; eassumption.
Qed.

(* ------------------------------------------------------------------------------------------ *)
(* corollaries of the statement of C05                                                          *)
(* ------------------------------------------------------------------------------------------ *)

(* a name local to a function is never satisfied by an outer or builtin binding (any configuration) *)
Theorem local_never_outer : forall c e fs a up x,
  rev fs = a :: up -> up <> [] -> function_like (fkind a) = true -> is_local c a x = true ->
  supp_owners c e fs x = [OScope (length fs - 1)].
Proof.
  intros c e fs a up x R NE K L. unfold supp_owners. rewrite R.
  assert (length fs = S (length up)) as LEN by (rewrite <- (rev_length fs), R; reflexivity).
  destruct up as [|b up]; [congruence|].
  change (supp_owners_nf c e (a :: b :: up) x) with
      ((if is_local c a x then [OScope (length (b :: up))] else []) ++
       (if is_routed c a x then [resolve_nonlocal c (b :: up) x (length (b :: up))] else []) ++
       (if is_local c a x && negb (is_class (fkind a)) then []
        else if f26 c && mem x (fglobal a) then top_names c e (last_frame (b :: up) a) x
        else scope_names c e (b :: up) x)).
  rewrite L.
  assert (is_routed c a x = false) as RT.
  { unfold is_local in L. unfold is_routed.
    apply andb_true_iff in L. destruct L as [L1 L2]. apply negb_true_iff in L2. rewrite L2.
    apply andb_false_r. }
  rewrite RT.
  assert (is_class (fkind a) = false) as KC by (destruct (fkind a); try discriminate K; reflexivity).
  rewrite KC. simpl. rewrite LEN. replace (S (length (b :: up)) - 1) with (length (b :: up)) by lia. reflexivity.
Qed.

Local Arguments length {A} !l : simpl nomatch.

(* the frame at a depth, nearest-first *)
Fixpoint frame_at (ch : list frame) (d : nat) : option frame :=
  match ch with
  | [] => None
  | a :: up => if Nat.eqb d (length up) then Some a else frame_at up d
  end.

Lemma frame_at_lt : forall ch d f, frame_at ch d = Some f -> d < length ch.
Proof.
  induction ch as [|a up IH]; intros d f H; simpl in H; [discriminate H|].
  destruct (Nat.eqb d (length up)) eqn:E.
  - apply Nat.eqb_eq in E. simpl. lia.
  - apply IH in H. simpl. lia.
Qed.

Lemma frame_at_rev : forall ch d f, frame_at ch d = Some f -> nth_error (rev ch) d = Some f.
Proof.
  induction ch as [|a up IH]; intros d f H; simpl in H; [discriminate H|].
  simpl rev. destruct (Nat.eqb d (length up)) eqn:E.
  - apply Nat.eqb_eq in E. inversion H; subst.
    rewrite nth_error_app2 by (rewrite rev_length; lia).
    rewrite rev_length, Nat.sub_diag. reflexivity.
  - pose proof (frame_at_lt _ _ _ H) as LT.
    rewrite nth_error_app1 by (rewrite rev_length; exact LT). apply IH. exact H.
Qed.

Definition fun_at (ch : list frame) (o : owner) : Prop :=
  match o with
  | OScope d => exists f, frame_at ch d = Some f /\ function_like (fkind f) = true
  | _ => True
  end.

Lemma fun_at_cons : forall a ch o, fun_at ch o -> fun_at (a :: ch) o.
Proof.
  intros a ch [d| | |] H; simpl in *; auto.
  destruct H as [f [H1 H2]]. exists f. split; [|exact H2].
  pose proof (frame_at_lt _ _ _ H1) as LT.
  destruct (Nat.eqb d (length ch)) eqn:E; [apply Nat.eqb_eq in E; lia|exact H1].
Qed.

Lemma resolve_nonlocal_fun : forall c up x dflt,
  resolve_nonlocal c up x dflt = OScope dflt \/ fun_at up (resolve_nonlocal c up x dflt).
Proof.
  induction up as [|f r IH]; intros x dflt; [left; reflexivity|].
  rewrite resolve_nonlocal_cons.
  destruct (function_like (fkind f) && is_local c f x) eqn:E.
  - right. apply andb_true_iff in E. destruct E as [E _]. simpl. exists f.
    rewrite Nat.eqb_refl. split; [reflexivity|exact E].
  - destruct (IH x dflt) as [H|H]; [left; exact H|right].
    apply (fun_at_cons f r _ H).
Qed.

Lemma top_names_not_scope : forall c e m x d, ~ In (OScope d) (top_names c e m x).
Proof.
  intros c e m x d H. apply top_names_global in H. discriminate H.
Qed.

Lemma scope_names_fun : forall c e up x o,
  shape_nf up = true -> In o (scope_names c e up x) -> fun_at up o.
Proof.
  induction up as [|a up IH]; intros x o SH HI; [destruct HI|].
  destruct up as [|b up].
  - simpl in HI. destruct o; simpl; auto. exfalso. eapply top_names_not_scope; exact HI.
  - destruct (shape_nf_cons _ _ _ SH) as [NM SH'].
    change (scope_names c e (a :: b :: up) x) with
      (match fkind a with
       | KClass => scope_names c e (b :: up) x
       | _ => if is_local c a x then [OScope (length (b :: up))]
              else (if is_routed c a x then [resolve_nonlocal c (b :: up) x (length (b :: up))] else []) ++
                   (if f26 c && mem x (fglobal a) then top_names c e (last_frame (b :: up) a) x
                    else scope_names c e (b :: up) x)
       end) in HI.
    destruct (is_class (fkind a)) eqn:KC.
    + assert (fkind a = KClass) as KK by (destruct (fkind a); try discriminate KC; reflexivity).
      rewrite KK in HI. apply fun_at_cons. apply (IH x); assumption.
    + pose proof (kind_cases _ NM KC) as KF.
      assert (In o (if is_local c a x then [OScope (length (b :: up))]
              else (if is_routed c a x then [resolve_nonlocal c (b :: up) x (length (b :: up))] else []) ++
                   (if f26 c && mem x (fglobal a) then top_names c e (last_frame (b :: up) a) x
                    else scope_names c e (b :: up) x))) as HI'
        by (destruct (fkind a); try discriminate KC; try discriminate NM; exact HI).
      clear HI.
      assert (fun_at (a :: b :: up) (OScope (length (b :: up)))) as SELF.
      { simpl. exists a. rewrite Nat.eqb_refl. split; [reflexivity|exact KF]. }
      destruct (is_local c a x).
      * destruct HI' as [HI'|[]]. subst o. exact SELF.
      * apply in_app_or in HI'. destruct HI' as [HR|HR].
        -- destruct (is_routed c a x); [|destruct HR]. destruct HR as [HR|[]]. subst o.
           destruct (resolve_nonlocal_fun c (b :: up) x (length (b :: up))) as [H|H].
           ++ rewrite H. exact SELF.
           ++ apply fun_at_cons. exact H.
        -- destruct (f26 c && mem x (fglobal a)).
           ++ destruct o; simpl; auto. exfalso. eapply top_names_not_scope; exact HR.
           ++ apply fun_at_cons. apply (IH x); assumption.
Qed.

(* class-body bindings are never visible as bare names in nested scopes: whenever supp resolves a
   read to a binding owned by a strictly enclosing block, that block is a function (any configuration) *)
Theorem class_bindings_invisible : forall c e fs x d,
  shape_ok fs = true -> In (OScope d) (supp_owners c e fs x) -> d < length fs - 1 ->
  exists f, nth_error fs d = Some f /\ function_like (fkind f) = true.
Proof.
  intros c e fs x d SH HI LT. unfold supp_owners in HI. unfold shape_ok in SH.
  assert (length fs = length (rev fs)) as LEN by (rewrite rev_length; reflexivity).
  destruct (rev fs) as [|a up] eqn:R; [destruct HI|].
  simpl in LEN. rewrite LEN in LT. simpl in LT. rewrite Nat.sub_0_r in LT.
  assert (fun_at up (OScope d)) as FA.
  { destruct up as [|b up]; [simpl in LT; lia|].
    destruct (shape_nf_cons _ _ _ SH) as [NM SH'].
    change (supp_owners_nf c e (a :: b :: up) x) with
      ((if is_local c a x then [OScope (length (b :: up))] else []) ++
       (if is_routed c a x then [resolve_nonlocal c (b :: up) x (length (b :: up))] else []) ++
       (if is_local c a x && negb (is_class (fkind a)) then []
        else if f26 c && mem x (fglobal a) then top_names c e (last_frame (b :: up) a) x
        else scope_names c e (b :: up) x)) in HI.
    apply in_app_or in HI. destruct HI as [HI|HI].
    - destruct (is_local c a x); [|destruct HI]. destruct HI as [HI|[]]. inversion HI. simpl in *. lia.
    - apply in_app_or in HI. destruct HI as [HI|HI].
      + destruct (is_routed c a x); [|destruct HI]. destruct HI as [HI|[]].
        destruct (resolve_nonlocal_fun c (b :: up) x (length (b :: up))) as [H|H].
        * rewrite H in HI. inversion HI. simpl in *. lia.
        * rewrite HI in H. exact H.
      + destruct (is_local c a x && negb (is_class (fkind a))); [destruct HI|].
        destruct (f26 c && mem x (fglobal a)).
        * exfalso. eapply top_names_not_scope; exact HI.
        * eapply scope_names_fun; eassumption. }
  simpl in FA. destruct FA as [f [F1 F2]]. exists f. split; [|exact F2].
  rewrite <- (rev_involutive fs), R. simpl rev.
  pose proof (frame_at_lt _ _ _ F1) as L1.
  rewrite nth_error_app1 by (rewrite rev_length; exact L1).
  apply frame_at_rev. exact F1.
Qed.

(* ------------------------------------------------------------------------------------------ *)
(* the pinned tree violates the full statement (F14, F26)                                       *)
(* ------------------------------------------------------------------------------------------ *)

Definition no_env : env := Env (fun _ => false) (fun _ => false).

(* def f(): x = 1; def g(): nonlocal x; x = 2; return x        names: x=1 f=2 g=3 *)
Definition w_f14 : list frame :=
  [Frame KModule [2%N] [] []; Frame KFunction [1%N; 3%N] [] []; Frame KFunction [1%N] [] [1%N]].

(* x = 0; def f(): x = 1; def g(): global x; return x *)
Definition w_f26 : list frame :=
  [Frame KModule [1%N; 2%N] [] []; Frame KFunction [1%N; 3%N] [] []; Frame KFunction [] [1%N] []].

Lemma pinned_refuted_f14 :
  shape_ok w_f14 = true /\ nonlocal_ok w_f14 1%N = true /\ in_domain w_f14 1%N = true /\
  py_owner w_f14 1%N = Some (OScope 1) /\ supp_owners cfg_pinned no_env w_f14 1%N = [OScope 2] /\
  supp_owners cfg_fixed no_env w_f14 1%N = [OScope 1; OScope 1].
Proof. vm_compute. repeat split; reflexivity. Qed.

Lemma pinned_refuted_f26 :
  shape_ok w_f26 = true /\ nonlocal_ok w_f26 1%N = true /\ in_domain w_f26 1%N = true /\
  py_owner w_f26 1%N = Some OGlobal /\ supp_owners cfg_pinned no_env w_f26 1%N = [OScope 1] /\
  supp_owners cfg_fixed no_env w_f26 1%N = [OModule].
Proof. vm_compute. repeat split; reflexivity. Qed.

(* The theorems give both parties the same bound-name set per block. That is an assumption about supp
   (checked by the correspondence (I)), and it is needed: for a name bound only by a match capture
   pattern CPython's set contains it, supp's does not (open finding K4-C05).
     a = 1                          names: a=1 f=2 p=3
     def f(p):
         match p:
             case [a]: return a *)
Definition w_k4_py : list frame :=
  [Frame KModule [1%N; 2%N] [] []; Frame KFunction [3%N; 1%N] [] []].
Definition w_k4_supp : list frame :=
  [Frame KModule [1%N; 2%N] [] []; Frame KFunction [3%N] [] []].

Lemma binding_forms_refuted :
  py_owner w_k4_py 1%N = Some (OScope 1) /\ supp_owners cfg_fixed no_env w_k4_supp 1%N = [OModule] /\
  supp_owners cfg_fixed no_env w_k4_py 1%N = [OScope 1].
Proof. vm_compute. repeat split; reflexivity. Qed.

(* ------------------------------------------------------------------------------------------ *)
(* existence: where CPython's lookup can succeed, supp offers an owner in the same scope        *)
(* ------------------------------------------------------------------------------------------ *)

Lemma last_indep : forall (up : list frame) d1 d2, up <> [] -> last up d1 = last up d2.
Proof.
  induction up as [|a up IH]; intros d1 d2 NE; [congruence|].
  destruct up as [|b up]; [reflexivity|].
  change (last (a :: b :: up) d1) with (last (b :: up) d1).
  change (last (a :: b :: up) d2) with (last (b :: up) d2).
  apply IH. discriminate.
Qed.

Definition offers_nf (e : env) (ch : list frame) (x : name) (d : frame) : bool :=
  is_local cfg_fixed (last ch d) x || grouted e x || builtin e x.

Lemma top_names_nonempty : forall e m x,
  is_local cfg_fixed m x || grouted e x || builtin e x = true ->
  exists o, In o (top_names cfg_fixed e m x) /\ coarse o = OGlobal.
Proof.
  intros e m x H. unfold top_names.
  destruct (is_local cfg_fixed m x).
  - exists OModule. split; [left; reflexivity|reflexivity].
  - simpl in H. simpl app. destruct (grouted e x).
    + exists OModule. split; [left; reflexivity|reflexivity].
    + simpl in H. rewrite H. exists OBuiltin. split; [left; reflexivity|reflexivity].
Qed.

Local Ltac fixed_flags := change (f26 cfg_fixed) with true in *; change (f14 cfg_fixed) with true in *.

Lemma scope_names_cons2 : forall c e a b up x,
  scope_names c e (a :: b :: up) x =
  match fkind a with
  | KClass => scope_names c e (b :: up) x
  | _ => if is_local c a x then [OScope (length (b :: up))]
         else (if is_routed c a x then [resolve_nonlocal c (b :: up) x (length (b :: up))] else []) ++
              (if f26 c && mem x (fglobal a) then top_names c e (last_frame (b :: up) a) x
               else scope_names c e (b :: up) x)
  end.
Proof. reflexivity. Qed.

Lemma scope_names_fun_eq : forall c e a b up x,
  is_module (fkind a) = false -> is_class (fkind a) = false ->
  scope_names c e (a :: b :: up) x =
  if is_local c a x then [OScope (length (b :: up))]
  else (if is_routed c a x then [resolve_nonlocal c (b :: up) x (length (b :: up))] else []) ++
       (if f26 c && mem x (fglobal a) then top_names c e (last_frame (b :: up) a) x
        else scope_names c e (b :: up) x).
Proof.
  intros c e a b up x NM NC. rewrite scope_names_cons2.
  destruct (fkind a); try discriminate NM; try discriminate NC; reflexivity.
Qed.

Lemma supp_owners_nf_cons2 : forall c e a b up x,
  supp_owners_nf c e (a :: b :: up) x =
  (if is_local c a x then [OScope (length (b :: up))] else []) ++
  (if is_routed c a x then [resolve_nonlocal c (b :: up) x (length (b :: up))] else []) ++
  (if is_local c a x && negb (is_class (fkind a)) then []
   else if f26 c && mem x (fglobal a) then top_names c e (last_frame (b :: up) a) x
   else scope_names c e (b :: up) x).
Proof. reflexivity. Qed.

(* a closure variable: the function symtable.c keeps in `bound` is among what the scope offers *)
Lemma scope_names_complete_free : forall e up x d,
  shape_nf up = true -> pbound (st_nf up x) = Some d -> In (OScope d) (scope_names cfg_fixed e up x).
Proof.
  induction up as [|a up IH]; intros x d SH H; [rewrite st_nf_nil in H; discriminate H|].
  rewrite st_nf_cons in H.
  destruct up as [|b up].
  - simpl in SH. rewrite child_state_module in H by (destruct (fkind a); try discriminate SH; reflexivity).
    discriminate H.
  - destruct (shape_nf_cons _ _ _ SH) as [NM SH'].
    destruct (is_class (fkind a)) eqn:KC.
    + assert (fkind a = KClass) as KK by (destruct (fkind a); try discriminate KC; reflexivity).
      rewrite scope_names_cons2, KK. rewrite child_state_class in H by exact KK. apply IH; assumption.
    + pose proof (kind_cases _ NM KC) as KF. rewrite scope_names_fun_eq by assumption.
      destruct (classify a x) as [G|G NL|G NL B|G NL B].
      * rewrite child_state_fun_global in H by assumption. discriminate H.
      * rewrite child_state_fun_nonlocal in H by assumption.
        unfold is_local, declared_nonlocal. fixed_flags. rewrite G, NL. simpl.
        rewrite andb_false_r. simpl. apply in_or_app. right. apply IH; assumption.
      * rewrite child_state_fun_bound in H by assumption. inversion H; subst d.
        unfold is_local, declared_nonlocal. fixed_flags. rewrite B, G, NL. simpl. left. reflexivity.
      * rewrite child_state_fun_use in H by assumption.
        unfold is_local, is_routed. rewrite B, G. simpl. apply IH; assumption.
Qed.

(* a global: when nothing on the chain binds the name, the module-level lookup is reached *)
Lemma scope_names_complete_global : forall e up x dflt,
  shape_nf up = true -> pbound (st_nf up x) = None -> offers_nf e up x dflt = true ->
  exists o, In o (scope_names cfg_fixed e up x) /\ coarse o = OGlobal.
Proof.
  induction up as [|a up IH]; intros x dflt SH H OF; [discriminate SH|].
  destruct up as [|b up].
  - change (scope_names cfg_fixed e [a] x) with (top_names cfg_fixed e a x).
    apply top_names_nonempty. exact OF.
  - destruct (shape_nf_cons _ _ _ SH) as [NM SH'].
    rewrite st_nf_cons in H.
    assert (offers_nf e (b :: up) x dflt = true) as OF' by exact OF.
    destruct (is_class (fkind a)) eqn:KC.
    + assert (fkind a = KClass) as KK by (destruct (fkind a); try discriminate KC; reflexivity).
      rewrite scope_names_cons2, KK. rewrite child_state_class in H by exact KK. eapply IH; eassumption.
    + pose proof (kind_cases _ NM KC) as KF. rewrite scope_names_fun_eq by assumption.
      destruct (classify a x) as [G|G NL|G NL B|G NL B].
      * assert (last_frame (b :: up) a = last (b :: up) dflt) as LF
          by (unfold last_frame; apply last_indep; discriminate).
        rewrite LF. set (M := last (b :: up) dflt) in *.
        unfold is_local, is_routed. fixed_flags. rewrite G. simpl. rewrite !andb_false_r. simpl.
        apply top_names_nonempty. unfold offers_nf in OF'. exact OF'.
      * rewrite child_state_fun_nonlocal in H by assumption.
        destruct (IH x dflt SH' H OF') as [o [O1 O2]]. exists o. split; [|exact O2].
        unfold is_local, declared_nonlocal. fixed_flags. rewrite G, NL. simpl.
        rewrite andb_false_r. simpl. apply in_or_app. right. exact O1.
      * rewrite child_state_fun_bound in H by assumption. discriminate H.
      * rewrite child_state_fun_use in H by assumption.
        destruct (IH x dflt SH' H OF') as [o [O1 O2]]. exists o. split; [|exact O2].
        unfold is_local, is_routed. rewrite B, G. simpl. exact O1.
Qed.

Theorem supp_owners_nf_complete : forall e ch x dflt,
  shape_nf ch = true ->
  match py_owner (rev ch) x with
  | Some (OScope d) => In (OScope d) (supp_owners_nf cfg_fixed e ch x)
  | Some OGlobal => offers_nf e ch x dflt = true ->
                    exists o, In o (supp_owners_nf cfg_fixed e ch x) /\ coarse o = OGlobal
  | _ => True
  end.
Proof.
  intros e ch x dflt SH. destruct ch as [|a up]; [discriminate SH|].
  rewrite py_owner_rev, analyze_name_scope.
  destruct up as [|b up].
  - (* a read at module level *)
    change (supp_owners_nf cfg_fixed e [a] x) with (top_names cfg_fixed e a x).
    rewrite st_nf_nil. simpl pbound.
    destruct (mem x (fglobal a)); [intros OF; apply top_names_nonempty; exact OF|].
    destruct (mem x (fnonlocal a)); [exact I|].
    destruct (mem x (fbound a)); intros OF; apply top_names_nonempty; exact OF.
  - destruct (shape_nf_cons _ _ _ SH) as [NM SH'].
    rewrite supp_owners_nf_cons2.
    destruct (classify a x) as [G|G NL|G NL B|G NL B].
    + (* declared global: looked up at module level *)
      rewrite G. intros OF.
      assert (last_frame (b :: up) a = last (b :: up) dflt) as LF
        by (unfold last_frame; apply last_indep; discriminate).
      unfold offers_nf in OF. change (last (a :: b :: up) dflt) with (last (b :: up) dflt) in OF.
      rewrite LF. set (M := last (b :: up) dflt) in *.
      unfold is_local, is_routed. fixed_flags. rewrite G. simpl. rewrite !andb_false_r. simpl.
      apply top_names_nonempty. exact OF.
    + (* declared nonlocal: free in the function recorded in bound *)
      rewrite G, NL. destruct (pbound (st_nf (b :: up) x)) as [d|] eqn:PB; [|exact I].
      unfold is_local, declared_nonlocal. fixed_flags. rewrite G, NL. simpl.
      rewrite andb_false_r. simpl. apply in_or_app. right.
      apply scope_names_complete_free; assumption.
    + (* a local of the reading scope: its own names are among the candidates *)
      rewrite G, NL, B.
      unfold is_local, declared_nonlocal. fixed_flags. rewrite B, G, NL. simpl. left. reflexivity.
    + (* only used *)
      rewrite G, NL, B.
      unfold is_local, is_routed. rewrite B, G. simpl.
      destruct (pbound (st_nf (b :: up) x)) as [d|] eqn:PB.
      * apply scope_names_complete_free; assumption.
      * intros OF. eapply scope_names_complete_global; [exact SH'|exact PB|exact OF].
Qed.

Lemma last_rev_hd : forall (fs : list frame) m r d, fs = m :: r -> last (rev fs) d = m.
Proof. intros fs m r d E. subst fs. simpl. apply last_last. Qed.

Theorem supp_owner_exists : forall e fs x,
  shape_ok fs = true ->
  match py_owner fs x with
  | Some (OScope d) => In (OScope d) (supp_owners cfg_fixed e fs x)
  | Some OGlobal => module_offers e fs x = true ->
                    exists o, In o (supp_owners cfg_fixed e fs x) /\ coarse o = OGlobal
  | _ => True
  end.
Proof.
  intros e fs x SH. unfold supp_owners.
  destruct fs as [|m r]; [discriminate SH|].
  pose proof (supp_owners_nf_complete e (rev (m :: r)) x m SH) as H.
  rewrite rev_involutive in H.
  destruct (py_owner (m :: r) x) as [[d| | |]|]; try exact H; try exact I.
  intros MO. apply H. unfold offers_nf. rewrite (last_rev_hd (m :: r) m r m eq_refl). exact MO.
Qed.

(* the block CPython resolves a closure variable / local to does bind the name *)
Lemma st_nf_bound_binds : forall up x d,
  pbound (st_nf up x) = Some d ->
  exists f, frame_at up d = Some f /\ mem x (fbound f) = true /\ function_like (fkind f) = true.
Proof.
  induction up as [|a up IH]; intros x d H; [rewrite st_nf_nil in H; discriminate H|].
  rewrite st_nf_cons in H.
  assert (forall f, frame_at up d = Some f -> frame_at (a :: up) d = Some f) as LIFT.
  { intros f F. simpl. pose proof (frame_at_lt _ _ _ F) as LT.
    destruct (Nat.eqb d (length up)) eqn:E; [apply Nat.eqb_eq in E; lia|exact F]. }
  destruct (function_like (fkind a)) eqn:KF.
  - destruct (classify a x) as [G|G NL|G NL B|G NL B].
    + rewrite child_state_fun_global in H by assumption. discriminate H.
    + rewrite child_state_fun_nonlocal in H by assumption.
      destruct (IH x d H) as [f [F1 F2]]. exists f. split; [apply LIFT; exact F1|exact F2].
    + rewrite child_state_fun_bound in H by assumption. inversion H; subst d.
      exists a. simpl. rewrite Nat.eqb_refl. repeat split; assumption.
    + rewrite child_state_fun_use in H by assumption.
      destruct (IH x d H) as [f [F1 F2]]. exists f. split; [apply LIFT; exact F1|exact F2].
  - destruct (fkind a) eqn:KK; try discriminate KF.
    + rewrite child_state_module in H by assumption. discriminate H.
    + rewrite child_state_class in H by assumption.
      destruct (IH x d H) as [f [F1 F2]]. exists f. split; [apply LIFT; exact F1|exact F2].
Qed.

Theorem py_owner_binds : forall fs x d,
  py_owner fs x = Some (OScope d) ->
  exists f, nth_error fs d = Some f /\ mem x (fbound f) = true.
Proof.
  intros fs x d H. rewrite <- (rev_involutive fs) in H.
  destruct (rev fs) as [|a up] eqn:R.
  - simpl in H. unfold py_owner, py_scope in H. simpl in H. discriminate H.
  - rewrite py_owner_rev, analyze_name_scope in H.
    assert (fs = rev (a :: up)) as FS by (rewrite <- R, rev_involutive; reflexivity).
    assert (forall f, frame_at (a :: up) d = Some f -> nth_error fs d = Some f) as NTH
      by (intros f F; rewrite FS; apply frame_at_rev; exact F).
    assert (forall f, frame_at up d = Some f -> frame_at (a :: up) d = Some f) as LIFT.
    { intros f F. simpl. pose proof (frame_at_lt _ _ _ F) as LT.
      destruct (Nat.eqb d (length up)) eqn:E; [apply Nat.eqb_eq in E; lia|exact F]. }
    destruct (mem x (fglobal a)); [discriminate H|].
    destruct (mem x (fnonlocal a)).
    { destruct (pbound (st_nf up x)) as [d'|] eqn:PB; [|discriminate H]. inversion H; subst d'.
      destruct (st_nf_bound_binds up x d PB) as [f [F1 [F2 _]]].
      exists f. split; [apply NTH, LIFT; exact F1|exact F2]. }
    destruct (mem x (fbound a)) eqn:B.
    { destruct up as [|b up]; [discriminate H|]. inversion H; subst d.
      exists a. split; [|exact B]. apply NTH. simpl. rewrite Nat.eqb_refl. reflexivity. }
    destruct (pbound (st_nf up x)) as [d'|] eqn:PB; [|discriminate H]. inversion H; subst d'.
    destruct (st_nf_bound_binds up x d PB) as [f [F1 [F2 _]]].
    exists f. split; [apply NTH, LIFT; exact F1|exact F2].
Qed.
