(* The identity behind scope.py's shortcut for the flow that closes a loop (commit 0211a17):
   for a gen/kill transfer function F, one more pass adds nothing at the end of the body. *)
From Coq Require Import List Bool Arith NArith.
Import ListNotations.
From Supp Require Import Model.PyCore Model.Reach Proofs.ReachProofs.

Lemma gk_second_pass F : gk F -> forall s x a, In a (F (join s (F s)) x) <-> In a (F s x).
Proof.
  intros [G [T H]] s x a. rewrite H. unfold join. rewrite in_app_iff. rewrite !H. intuition.
Qed.

(* for-loops and while-loops of the model: the names at the end of the body after the back edge
   has been taken into account are those of the first pass *)
Lemma for_body_end_stable tg b s x a :
  In a (an b (an tg (join s (an b (an tg s)))) x) <-> In a (an b (an tg s) x).
Proof. apply (gk_second_pass (fun s => an b (an tg s)) (gk_comp2 tg b)). Qed.

Lemma while_body_end_stable t b s x a :
  In a (an b (an t (join s (an b (an t s)))) x) <-> In a (an b (an t s) x).
Proof. apply (gk_second_pass (fun s => an b (an t s)) (gk_comp2 t b)). Qed.
