From Coq Require Import List Bool Arith NArith.
Import ListNotations.
From Supp Require Import Model.PyCore Model.Reach Model.ReachX Model.Sem Model.SemX Model.Nested Model.NestedCls
  Proofs.ReachProofs Proofs.ReachCorollaries Proofs.SemXProofs Proofs.ReachXBridge Proofs.NestedProofs.

Lemma exit_chain_k_fold : forall outers acc, exit_chain_k outers acc = fold_left exit_a (funs_of outers) acc.
Proof.
  induction outers as [|[k c] r IH]; intros acc; simpl; [reflexivity|].
  destruct k; simpl; apply IH.
Qed.

Lemma exit_chain_k_funs outers : exit_chain_k outers aenv0 = exit_chain (funs_of outers).
Proof. apply exit_chain_k_fold. Qed.

Lemma entry_k_fun outers c : entry_k outers (KFun, c) = entry_a (funs_of outers) c.
Proof. unfold entry_k, entry_a. simpl. rewrite exit_chain_k_funs. reflexivity. Qed.

Lemma rt_env_k_dabs outers l p : rt_env_k outers l p -> dabs p (entry_k outers l).
Proof.
  destruct l as [k c]. intros H x d Hp. destruct (H x d Hp) as [Hl [c0 [Hc0 Hx]]].
  destruct k.
  - rewrite entry_k_fun. unfold entry_a, enter_a. simpl in Hl. rewrite (Hl eq_refl).
    apply (exit_chain_defines _ x c0 Hc0 Hx).
  - unfold entry_k. simpl. rewrite exit_chain_k_funs. apply (exit_chain_defines _ x c0 Hc0 Hx).
Qed.

(* function and class levels alike: every run of the body with any exits - a read that finds its
   name bound is visible in supp's analysis of that level and is not reported E02 *)
Theorem nested_visible_k : forall outers l fuel ds p p' tr o ds' r d,
  rt_env_k outers l p ->
  runX fuel (snd l) p ds = DoneX p' tr o ds' -> In (r, Some d) tr ->
  visible_k outers l r = true /\ e02_k outers l r = false.
Proof.
  intros outers l fuel ds p p' tr o ds' r d Hrt Hr Hin.
  pose proof (runX_good fuel (snd l) p ds (entry_k outers l) (rt_env_k_dabs _ _ _ Hrt)) as G.
  rewrite Hr in G. destruct G as [_ B]. specialize (B r d Hin). unfold vis in B.
  pose proof (visible_visiblex (snd l) _ _ r (sub_refl _) B) as Hx.
  unfold visible_k, e02_k. split; [exact Hx|].
  unfold e02x. unfold visiblex in Hx. rewrite Hx. reflexivity.
Qed.

(* on chains of functions only this is the analysis of Model/Nested.v *)
Lemma seen_k_all_fun outers c r :
  seen_k (map (fun b => (KFun, b)) outers) (KFun, c) r = seen_nested outers c r.
Proof.
  unfold seen_k, seen_nested. rewrite entry_k_fun.
  replace (funs_of (map (fun b => (KFun, b)) outers)) with outers; [reflexivity|].
  induction outers as [|b r0 IH]; simpl; [reflexivity|]. rewrite <- IH. reflexivity.
Qed.
