(* C03 "no phantom definitions": completeness of supp's reaching-definitions analysis
   (Model/Reach.v) with respect to the semantics of Model/Sem.v.

   Every alternative (a binding site, or None = "unbound") that the analysis lists for a read site
   is obtained at that read on SOME execution, for every Return-free command in which every try
   with handlers can raise at both designated points (full_raise), with any number of nested loops
   and tries. Together with [sound] (Proofs/ReachProofs.v) this makes the analysis EXACT on that
   fragment: [seen c aenv0 r] is precisely the set of bindings the read r can observe.

   Method. The semantics is non-deterministic in control and independent of data, so one name x is
   followed at a time. [realis P s x] says: every alternative of x in the abstract environment s is
   the binding of x in some concrete state satisfying P. [post c P] is the set of states reached by
   a normal execution of c from a P-state. The key lemma [an_complete] is
        realis P s x  ->  realis (post c P) (an c s) x
   and [seen_complete] follows by a second induction in which P is instantiated by "the states
   that reach this program point". Loops need 0, 1 or 2 trips, tries need the raise before the
   first or after the last statement of the body. *)
From Coq Require Import List Bool Arith NArith Lia.
Import ListNotations.
From Supp Require Import Model.PyCore Model.Reach Model.Sem Proofs.ReachProofs.

(* ---- definitions ----------------------------------------------------------------------------------- *)

Definition realis (P : renv -> Prop) (s : aenv) (x : name) : Prop :=
  forall a, In a (s x) -> exists p, P p /\ p x = a.

Definition inh (P : renv -> Prop) : Prop := exists p0, P p0.

Definition post (c : cmd) (P : renv -> Prop) : renv -> Prop :=
  fun p' => exists p tr, P p /\ exec c p tr ONorm p'.

Definition postb (nm : option (site * name)) (P : renv -> Prop) : renv -> Prop :=
  fun p' => exists p, P p /\ p' = bind_opt_r nm p.

Definition por (P Q : renv -> Prop) : renv -> Prop := fun p => P p \/ Q p.

Definition hnil (hs : hlist) : bool := match hs with HNil => true | _ => false end.

(* Every try that has handlers can raise at both designated points. (The task statement asked for
   [rf && rl] on every Try; a try without handlers (try/finally) has nothing to raise to, so it is
   exempted here: the hypothesis is weaker and the theorem stronger.) *)
Fixpoint full_raise (c : cmd) : bool :=
  match c with
  | Skip | Bind _ _ | Read _ _ | Exit _ => true
  | Seq a b | Branch a b => full_raise a && full_raise b
  | While t b e | For t b e => full_raise t && full_raise b && full_raise e
  | Try rf b rl hs e f =>
      (hnil hs || (rf && rl)) && full_raise b && full_raise_h hs && full_raise e && full_raise f
  end
with full_raise_h (hs : hlist) : bool :=
  match hs with
  | HNil => true
  | HCons ty _ hb r => full_raise ty && full_raise hb && full_raise_h r
  end.

(* ---- realisability: basic facts -------------------------------------------------------------------- *)

Lemma realis_mono (P Q : renv -> Prop) s x :
  (forall p, P p -> Q p) -> realis P s x -> realis Q s x.
Proof. intros HPQ HR a Ha. destruct (HR a Ha) as (p & Hp & E). exists p. auto. Qed.

Lemma realis_join P Q s t x : realis P s x -> realis Q t x -> realis (por P Q) (join s t) x.
Proof.
  intros HP HQ a Ha. unfold join in Ha. apply in_app_iff in Ha as [Ha|Ha].
  - destruct (HP a Ha) as (p & Hp & E). exists p. split; [left; exact Hp|exact E].
  - destruct (HQ a Ha) as (p & Hp & E). exists p. split; [right; exact Hp|exact E].
Qed.

Lemma realis_upd (P Q : renv -> Prop) s x y d :
  inh P -> realis P s x -> (forall p, P p -> Q (upd p y (Some d))) ->
  realis Q (upd s y [Some d]) x.
Proof.
  intros [p0 Hp0] HR HQ a Ha. unfold upd in Ha. destruct (N.eqb x y) eqn:E.
  - destruct Ha as [<-|[]]. exists (upd p0 y (Some d)). split; [apply HQ, Hp0|].
    unfold upd. rewrite E. reflexivity.
  - destruct (HR a Ha) as (p & Hp & Ea). exists (upd p y (Some d)). split; [apply HQ, Hp|].
    unfold upd. rewrite E. exact Ea.
Qed.

Lemma realis_postb nm P s x :
  inh P -> realis P s x -> realis (postb nm P) (bind_opt_a nm s) x.
Proof.
  intros HI HR. destruct nm as [[d y]|]; simpl.
  - apply (realis_upd P); [exact HI|exact HR|]. intros p Hp. exists p. split; [exact Hp|reflexivity].
  - eapply realis_mono; [|exact HR]. intros p Hp. exists p. split; [exact Hp|reflexivity].
Qed.

Lemma inh_postb nm P : inh P -> inh (postb nm P).
Proof. intros [p Hp]. exists (bind_opt_r nm p), p. split; [exact Hp|reflexivity]. Qed.

Lemma inh_por_l (P Q : renv -> Prop) : inh P -> inh (por P Q).
Proof. intros [p Hp]. exists p. left. exact Hp. Qed.

(* ---- totality: a Return-free command can always complete normally ----------------------------------- *)

Lemma exec_total : forall c, has_ret c = false -> forall p, exists tr p', exec c p tr ONorm p'.
Proof.
  induction c as [|a IHa b IHb|d x|r x|a IHa b IHb|t IHt b IHb e IHe|tg IHtg b IHb e IHe
                 |rf b IHb rl hs e IHe f IHf|]; simpl; intros Hr p.
  - eexists _, _. constructor.
  - apply orb_false_iff in Hr as [Hra Hrb].
    destruct (IHa Hra p) as (t1 & p1 & E1). destruct (IHb Hrb p1) as (t2 & p2 & E2).
    eexists _, _. eapply ESeqN; eassumption.
  - eexists _, _. constructor.
  - eexists _, _. constructor.
  - apply orb_false_iff in Hr as [Hra Hrb].
    destruct (IHa Hra p) as (t1 & p1 & E1). eexists _, _. apply EBrL. exact E1.
  - apply orb_false_iff in Hr as [Hr Hre]. apply orb_false_iff in Hr as [Hrt Hrb].
    destruct (IHt Hrt p) as (t1 & p1 & E1). destruct (IHe Hre p1) as (t2 & p2 & E2).
    eexists _, _. eapply EWhileExit; eassumption.
  - apply orb_false_iff in Hr as [Hr Hre].
    destruct (IHe Hre p) as (t2 & p2 & E2).
    eexists _, _. eapply EForExit; eassumption.
  - apply orb_false_iff in Hr as [Hr Hrf]. apply orb_false_iff in Hr as [Hr Hre].
    apply orb_false_iff in Hr as [Hrb Hrh].
    destruct (IHb Hrb p) as (t1 & p1 & E1). destruct (IHe Hre p1) as (t2 & p2 & E2).
    destruct (IHf Hrf p2) as (t3 & p3 & E3).
    pose proof (ETryElse rf b rl hs e f _ _ _ _ _ _ _ _ _ E1 E2 E3) as X. simpl in X.
    eexists _, _. exact X.
  - discriminate Hr.
Qed.

Lemma inh_post c P : has_ret c = false -> inh P -> inh (post c P).
Proof.
  intros Hr [p Hp]. destruct (exec_total c Hr p) as (tr & p' & E). exists p', p, tr. auto.
Qed.

(* ---- handler lists --------------------------------------------------------------------------------- *)

Lemma an_h_inv hs : forall hin acc x a, In a (an_h hs hin acc x) ->
  In a (acc x) \/
  exists i ty nm hb, hnth hs i = Some (ty, nm, hb) /\ In a (an hb (bind_opt_a nm (an ty hin)) x).
Proof.
  induction hs as [|ty0 nm0 hb0 rest IH]; intros hin acc x a H; simpl in H; [left; exact H|].
  apply IH in H as [H|(i & ty & nm & hb & Hn & H)].
  - unfold join in H. apply in_app_iff in H as [H|H]; [left; exact H|].
    right. exists 0, ty0, nm0, hb0. split; [reflexivity|exact H].
  - right. exists (S i), ty, nm, hb. split; [exact Hn|exact H].
Qed.

Lemma seen_h_inv hs : forall hin r a, In a (seen_h hs hin r) ->
  exists i ty nm hb, hnth hs i = Some (ty, nm, hb) /\
    (In a (seen ty hin r) \/ In a (seen hb (bind_opt_a nm (an ty hin)) r)).
Proof.
  induction hs as [|ty0 nm0 hb0 rest IH]; intros hin r a H; simpl in H; [destruct H|].
  rewrite !in_app_iff in H. destruct H as [H|[H|H]].
  - exists 0, ty0, nm0, hb0. split; [reflexivity|left; exact H].
  - exists 0, ty0, nm0, hb0. split; [reflexivity|right; exact H].
  - destruct (IH _ _ _ H) as (i & ty & nm & hb & Hn & H'). exists (S i), ty, nm, hb. auto.
Qed.

Lemma full_raise_h_nth hs : forall i ty nm hb, hnth hs i = Some (ty, nm, hb) ->
  full_raise_h hs = true -> full_raise ty = true /\ full_raise hb = true.
Proof.
  induction hs as [|ty0 nm0 hb0 rest IH]; intros i ty nm hb H Hf; [destruct i; discriminate|].
  simpl in Hf. apply andb_true_iff in Hf as [Hf Hf3]. apply andb_true_iff in Hf as [Hf1 Hf2].
  destruct i as [|i]; simpl in H.
  - injection H as <- <- <-. auto.
  - eapply IH; eauto.
Qed.

Lemma reads_h_nth hs : forall i ty nm hb, hnth hs i = Some (ty, nm, hb) ->
  forall q, In q (reads ty) \/ In q (reads hb) -> In q (reads_h hs).
Proof.
  induction hs as [|ty0 nm0 hb0 rest IH]; intros i ty nm hb H q Hq; [destruct i; discriminate|].
  simpl. rewrite !in_app_iff. destruct i as [|i]; simpl in H.
  - injection H as <- <- <-. destruct Hq; auto.
  - right; right. eapply IH; eauto.
Qed.

Lemma hnth_hnil hs i h : hnth hs i = Some h -> hnil hs = false.
Proof. destruct hs; [destruct i; discriminate|reflexivity]. Qed.

(* ---- prefixes: from a program point back to the entry of the enclosing statement -------------------- *)

Lemma post_seq a b P p : post b (post a P) p -> post (Seq a b) P p.
Proof.
  intros (p1 & t2 & (p0 & t1 & Hp0 & E1) & E2). exists p0, (t1 ++ t2). split; [exact Hp0|].
  eapply ESeqN; eassumption.
Qed.

(* loop head after zero or one trip *)
Lemma while_head_exec t b e (P : renv -> Prop) pH tr o p' :
  por P (post b (post t P)) pH -> exec (While t b e) pH tr o p' ->
  exists p tr0, P p /\ exec (While t b e) p (tr0 ++ tr) o p'.
Proof.
  intros [Hp|(p1 & tb & (p & tt & Hp & Et) & Eb)] Ex.
  - exists pH, []. split; [exact Hp|exact Ex].
  - exists p, (tt ++ tb). split; [exact Hp|]. rewrite <- app_assoc. eapply EWhileIter; eassumption.
Qed.

Lemma for_head_exec tg b e (P : renv -> Prop) pH tr o p' :
  por P (post b (post tg P)) pH -> exec (For tg b e) pH tr o p' ->
  exists p tr0, P p /\ exec (For tg b e) p (tr0 ++ tr) o p'.
Proof.
  intros [Hp|(p1 & tb & (p & tt & Hp & Et) & Eb)] Ex.
  - exists pH, []. split; [exact Hp|exact Ex].
  - exists p, (tt ++ tb). split; [exact Hp|]. rewrite <- app_assoc. eapply EForIter; eassumption.
Qed.

(* while-else: entered after the test, from a head state *)
Lemma while_exit_exec t b e (P : renv -> Prop) p1 te o p' :
  post t (por P (post b (post t P))) p1 -> exec e p1 te o p' ->
  exists p tr0, P p /\ exec (While t b e) p (tr0 ++ te) o p'.
Proof.
  intros (pH & tt & HpH & Et) Ee.
  destruct (while_head_exec t b e P pH (tt ++ te) o p' HpH) as (p & tr0 & Hp & Ex).
  { eapply EWhileExit; eassumption. }
  exists p, (tr0 ++ tt). split; [exact Hp|]. rewrite <- app_assoc. exact Ex.
Qed.

(* for-else: entered from the loop entry or from the end of a first or second trip *)
Lemma for_exit_exec tg b e (P : renv -> Prop) pE te o p' :
  por P (post b (post tg (por P (post b (post tg P))))) pE -> exec e pE te o p' ->
  exists p tr0, P p /\ exec (For tg b e) p (tr0 ++ te) o p'.
Proof.
  intros [Hp|(p1 & tb & (pH & tt & HpH & Et) & Eb)] Ee.
  - exists pE, []. split; [exact Hp|]. apply EForExit. exact Ee.
  - destruct (for_head_exec tg b e P pH (tt ++ tb ++ te) o p' HpH) as (p & tr0 & Hp & Ex).
    { eapply EForIter; [eassumption|eassumption|]. apply EForExit. exact Ee. }
    exists p, (tr0 ++ tt ++ tb). split; [exact Hp|].
    replace ((tr0 ++ tt ++ tb) ++ te) with (tr0 ++ tt ++ tb ++ te)
      by (rewrite <- !app_assoc; reflexivity).
    exact Ex.
Qed.

(* handler i, entered from the start of the try (raise before the first statement) or from the
   end of its body (raise after the last statement) *)
Lemma try_handler_exec rf b rl hs e f (P : renv -> Prop) i ty nm hb ph tty q0 th o1 p2 tf o2 p3 :
  (hnil hs || (rf && rl)) = true -> hnth hs i = Some (ty, nm, hb) ->
  por P (post b P) ph ->
  exec ty ph tty ONorm q0 -> exec hb (bind_opt_r nm q0) th o1 p2 -> exec f p2 tf o2 p3 ->
  exists p tr0, P p /\ exec (Try rf b rl hs e f) p (tr0 ++ tty ++ th ++ tf) (seq_out o1 o2) p3.
Proof.
  intros Hfr Hn Hph Ety Ehb Ef.
  rewrite (hnth_hnil _ _ _ Hn) in Hfr. simpl in Hfr. apply andb_true_iff in Hfr as [Hrf Hrl].
  destruct Hph as [Hp|(p & tb & Hp & Eb)].
  - exists ph, []. split; [exact Hp|]. simpl. eapply ETryFirst; eassumption.
  - exists p, tb. split; [exact Hp|]. eapply ETryLast; eassumption.
Qed.

(* states in which the finally part of a try is entered *)
Definition try_join (P : renv -> Prop) (b : cmd) (hs : hlist) (e : cmd) : renv -> Prop :=
  fun p2 =>
    post e (post b P) p2 \/
    exists i ty nm hb, hnth hs i = Some (ty, nm, hb) /\
      post hb (postb nm (post ty (por P (post b P)))) p2.

Lemma try_finally_exec rf b rl hs e f (P : renv -> Prop) p2 tf o p3 :
  (hnil hs || (rf && rl)) = true ->
  try_join P b hs e p2 -> exec f p2 tf o p3 ->
  exists p tr0, P p /\ exec (Try rf b rl hs e f) p (tr0 ++ tf) o p3.
Proof.
  intros Hfr [(pb & te & (p & tb & Hp & Eb) & Ee)|(i & ty & nm & hb & Hn & HJ)] Ef.
  - exists p, (tb ++ te). split; [exact Hp|]. rewrite <- app_assoc.
    exact (ETryElse rf b rl hs e f _ _ _ _ _ _ _ _ _ Eb Ee Ef).
  - destruct HJ as (q1 & th & (q0 & (ph & tty & Hph & Ety) & ->) & Ehb).
    destruct (try_handler_exec rf b rl hs e f P i ty nm hb ph tty q0 th ONorm p2 tf o p3
                Hfr Hn Hph Ety Ehb Ef) as (p & tr0 & Hp & Ex).
    exists p, (tr0 ++ tty ++ th). split; [exact Hp|].
    replace ((tr0 ++ tty ++ th) ++ tf) with (tr0 ++ tty ++ th ++ tf)
      by (rewrite <- !app_assoc; reflexivity).
    exact Ex.
Qed.

(* ---- completeness of the transfer function ---------------------------------------------------------- *)

Definition AC (c : cmd) : Prop :=
  has_ret c = false -> full_raise c = true ->
  forall (P : renv -> Prop) s x, realis P s x -> inh P -> realis (post c P) (an c s) x.

Definition AC_h (hs : hlist) : Prop :=
  forall i ty nm hb, hnth hs i = Some (ty, nm, hb) -> AC ty /\ AC hb.

(* the environment at the entry of the finally part is realised by [try_join] *)
Lemma try_join_realis b hs e (P : renv -> Prop) s x :
  AC b -> AC_h hs -> AC e ->
  has_ret b = false -> has_ret_h hs = false -> has_ret e = false ->
  full_raise b = true -> full_raise_h hs = true -> full_raise e = true ->
  realis P s x -> inh P ->
  realis (try_join P b hs e) (an_h hs (join s (an b s)) (an e (an b s))) x /\
  inh (try_join P b hs e).
Proof.
  intros IHb IHhs IHe Hrb Hrh Hre Hfb Hfh Hfe HR HI.
  pose proof (IHb Hrb Hfb P s x HR HI) as Rb.
  pose proof (inh_post b P Hrb HI) as Ib.
  pose proof (IHe Hre Hfe _ _ x Rb Ib) as Re.
  pose proof (inh_post e _ Hre Ib) as Ie.
  pose proof (realis_join _ _ _ _ x HR Rb) as Rhin.
  pose proof (inh_por_l P (post b P) HI) as Ihin.
  split.
  - intros a Ha. apply an_h_inv in Ha as [Ha|(i & ty & nm & hb & Hn & Ha)].
    + destruct (Re a Ha) as (p & Hp & E). exists p. split; [left; exact Hp|exact E].
    + destruct (IHhs i ty nm hb Hn) as [IHty IHhb].
      destruct (has_ret_h_nth _ _ _ _ _ Hn Hrh) as [Hrty Hrhb].
      destruct (full_raise_h_nth _ _ _ _ _ Hn Hfh) as [Hfty Hfhb].
      pose proof (IHty Hrty Hfty _ _ x Rhin Ihin) as Rty.
      pose proof (inh_post ty _ Hrty Ihin) as Ity.
      pose proof (realis_postb nm _ _ x Ity Rty) as Rnm.
      pose proof (IHhb Hrhb Hfhb _ _ x Rnm (inh_postb nm _ Ity)) as Rhb.
      destruct (Rhb a Ha) as (p & Hp & E). exists p. split; [|exact E].
      right. exists i, ty, nm, hb. split; [exact Hn|exact Hp].
  - destruct Ie as [p Hp]. exists p. left. exact Hp.
Qed.

Lemma an_complete_both : (forall c, AC c) /\ (forall hs, AC_h hs).
Proof.
  apply cmd_hlist_ind; unfold AC.
  - (* Skip *)
    intros _ _ P s x HR HI. simpl. eapply realis_mono; [|exact HR].
    intros p Hp. exists p, []. split; [exact Hp|constructor].
  - (* Seq *)
    intros a IHa b IHb Hr Hf P s x HR HI. simpl in Hr, Hf.
    apply orb_false_iff in Hr as [Hra Hrb]. apply andb_true_iff in Hf as [Hfa Hfb].
    pose proof (IHa Hra Hfa P s x HR HI) as Ra.
    pose proof (IHb Hrb Hfb _ _ x Ra (inh_post a P Hra HI)) as Rb.
    simpl. eapply realis_mono; [|exact Rb]. intros p. apply post_seq.
  - (* Bind *)
    intros d y _ _ P s x HR HI. simpl. apply (realis_upd P); [exact HI|exact HR|].
    intros p Hp. exists p, []. split; [exact Hp|constructor].
  - (* Read *)
    intros r y _ _ P s x HR HI. simpl. eapply realis_mono; [|exact HR].
    intros p Hp. exists p, [(r, p y)]. split; [exact Hp|constructor].
  - (* Branch *)
    intros a IHa b IHb Hr Hf P s x HR HI. simpl in Hr, Hf.
    apply orb_false_iff in Hr as [Hra Hrb]. apply andb_true_iff in Hf as [Hfa Hfb].
    pose proof (IHa Hra Hfa P s x HR HI) as Ra.
    pose proof (IHb Hrb Hfb P s x HR HI) as Rb.
    simpl. eapply realis_mono; [|exact (realis_join _ _ _ _ x Ra Rb)].
    intros p' [(p & tr & Hp & E)|(p & tr & Hp & E)]; exists p, tr; split; try exact Hp.
    + apply EBrL, E.
    + apply EBrR, E.
  - (* While *)
    intros t IHt b IHb e IHe Hr Hf P s x HR HI. simpl in Hr, Hf.
    apply orb_false_iff in Hr as [Hr Hre]. apply orb_false_iff in Hr as [Hrt Hrb].
    apply andb_true_iff in Hf as [Hf Hfe]. apply andb_true_iff in Hf as [Hft Hfb].
    pose proof (IHt Hrt Hft P s x HR HI) as Rt.
    pose proof (inh_post t P Hrt HI) as It.
    pose proof (IHb Hrb Hfb _ _ x Rt It) as Rb.
    pose proof (realis_join _ _ _ _ x HR Rb) as RH.
    pose proof (inh_por_l P (post b (post t P)) HI) as IH.
    pose proof (IHt Hrt Hft _ _ x RH IH) as Rt2.
    pose proof (inh_post t _ Hrt IH) as It2.
    pose proof (IHe Hre Hfe _ _ x Rt2 It2) as Re.
    simpl. eapply realis_mono; [|exact Re].
    intros p' (p1 & te & Hp1 & Ee).
    destruct (while_exit_exec t b e P p1 te ONorm p' Hp1 Ee) as (p & tr0 & Hp & Ex).
    exists p, (tr0 ++ te). auto.
  - (* For *)
    intros tg IHt b IHb e IHe Hr Hf P s x HR HI. simpl in Hr, Hf.
    apply orb_false_iff in Hr as [Hr Hre]. apply orb_false_iff in Hr as [Hrt Hrb].
    apply andb_true_iff in Hf as [Hf Hfe]. apply andb_true_iff in Hf as [Hft Hfb].
    pose proof (IHt Hrt Hft P s x HR HI) as Rt.
    pose proof (inh_post tg P Hrt HI) as It.
    pose proof (IHb Hrb Hfb _ _ x Rt It) as Rb.
    pose proof (realis_join _ _ _ _ x HR Rb) as RH.
    pose proof (inh_por_l P (post b (post tg P)) HI) as IH.
    pose proof (IHt Hrt Hft _ _ x RH IH) as Rt2.
    pose proof (inh_post tg _ Hrt IH) as It2.
    pose proof (IHb Hrb Hfb _ _ x Rt2 It2) as Rb2.
    pose proof (realis_join _ _ _ _ x HR Rb2) as RE.
    pose proof (inh_por_l P (post b (post tg (por P (post b (post tg P))))) HI) as IE.
    pose proof (IHe Hre Hfe _ _ x RE IE) as Re.
    simpl. eapply realis_mono; [|exact Re].
    intros p' (pE & te & HpE & Ee).
    destruct (for_exit_exec tg b e P pE te ONorm p' HpE Ee) as (p & tr0 & Hp & Ex).
    exists p, (tr0 ++ te). auto.
  - (* Try *)
    intros rf b IHb rl hs IHhs e IHe f IHf Hr Hf P s x HR HI. simpl in Hr, Hf.
    apply orb_false_iff in Hr as [Hr Hrf]. apply orb_false_iff in Hr as [Hr Hre].
    apply orb_false_iff in Hr as [Hrb Hrh].
    apply andb_true_iff in Hf as [Hf Hff]. apply andb_true_iff in Hf as [Hf Hfe].
    apply andb_true_iff in Hf as [Hf Hfh]. apply andb_true_iff in Hf as [Hfr Hfb].
    destruct (try_join_realis b hs e P s x IHb IHhs IHe Hrb Hrh Hre Hfb Hfh Hfe HR HI)
      as [RJ IJ].
    pose proof (IHf Hrf Hff _ _ x RJ IJ) as Rf.
    simpl. eapply realis_mono; [|exact Rf].
    intros p' (p2 & tf & Hp2 & Ef).
    destruct (try_finally_exec rf b rl hs e f P p2 tf ONorm p' Hfr Hp2 Ef) as (p & tr0 & Hp & Ex).
    exists p, (tr0 ++ tf). auto.
  - (* Exit *) intros k Hr. discriminate Hr.
  - (* HNil *) intros i ty nm hb H. destruct i; discriminate H.
  - (* HCons *)
    intros ty IHty nm hb IHhb rest IHrest i ty' nm' hb' H. destruct i as [|i]; simpl in H.
    + injection H as <- <- <-. split; assumption.
    + eapply IHrest; exact H.
Qed.

(* "if the entry alternatives of x are realised by P-states, the exit alternatives are realised by
   normal executions from P-states" *)
Theorem an_complete : forall c, has_ret c = false -> full_raise c = true ->
  forall (P : renv -> Prop) s x a, realis P s x -> (exists p0, P p0) -> In a (an c s x) ->
  exists p tr p', P p /\ exec c p tr ONorm p' /\ p' x = a.
Proof.
  intros c Hr Hf P s x a HR HI Ha.
  destruct (proj1 an_complete_both c Hr Hf P s x HR HI a Ha) as (p' & (p & tr & Hp & E) & Ea).
  exists p, tr, p'. auto.
Qed.

Lemma an_realis c : has_ret c = false -> full_raise c = true ->
  forall (P : renv -> Prop) s x, realis P s x -> inh P -> realis (post c P) (an c s) x.
Proof. apply an_complete_both. Qed.

(* ---- completeness of the rows told to read sites ------------------------------------------------------ *)

(* the read site r is used for the name x only *)
Definition uniq (l : list (site * name)) (r : site) (x : name) : Prop :=
  forall r' y, In (r', y) l -> r' = r -> y = x.

Lemma uniq_app l m r x : uniq (l ++ m) r x -> uniq l r x /\ uniq m r x.
Proof.
  intros HU. split; intros r' y Hin; apply HU; apply in_or_app; [left|right]; exact Hin.
Qed.

Definition SC (c : cmd) : Prop :=
  has_ret c = false -> full_raise c = true ->
  forall (P : renv -> Prop) s r x,
    uniq (reads c) r x -> realis P s x -> inh P ->
    forall a, In a (seen c s r) ->
    exists p tr p', P p /\ exec c p tr ONorm p' /\ In (r, a) tr.

Definition SC_h (hs : hlist) : Prop :=
  forall i ty nm hb, hnth hs i = Some (ty, nm, hb) -> SC ty /\ SC hb.

Lemma seen_complete_both : (forall c, SC c) /\ (forall hs, SC_h hs).
Proof.
  apply cmd_hlist_ind; unfold SC.
  - (* Skip *) intros _ _ P s r x _ _ _ a Ha. destruct Ha.
  - (* Seq *)
    intros a IHa b IHb Hr Hf P s r x HU HR HI v Hv. simpl in Hr, Hf, HU, Hv.
    apply orb_false_iff in Hr as [Hra Hrb]. apply andb_true_iff in Hf as [Hfa Hfb].
    apply uniq_app in HU as [HUa HUb]. apply in_app_iff in Hv as [Hv|Hv].
    + destruct (IHa Hra Hfa P s r x HUa HR HI v Hv) as (p & t1 & p1 & Hp & E1 & Hin).
      destruct (exec_total b Hrb p1) as (t2 & p2 & E2).
      exists p, (t1 ++ t2), p2. split; [exact Hp|]. split; [eapply ESeqN; eassumption|].
      apply in_or_app; left; exact Hin.
    + pose proof (an_realis a Hra Hfa P s x HR HI) as Ra.
      destruct (IHb Hrb Hfb _ _ r x HUb Ra (inh_post a P Hra HI) v Hv)
        as (p1 & t2 & p2 & (p & t1 & Hp & E1) & E2 & Hin).
      exists p, (t1 ++ t2), p2. split; [exact Hp|]. split; [eapply ESeqN; eassumption|].
      apply in_or_app; right; exact Hin.
  - (* Bind *) intros d y _ _ P s r x _ _ _ a Ha. destruct Ha.
  - (* Read *)
    intros r0 y _ _ P s r x HU HR HI a Ha. simpl in Ha, HU.
    destruct (N.eqb r r0) eqn:E; [|destruct Ha]. apply N.eqb_eq in E. subst r0.
    assert (y = x) by (apply (HU r y); [left; reflexivity|reflexivity]). subst y.
    destruct (HR a Ha) as (p & Hp & Ea). exists p, [(r, p x)], p.
    split; [exact Hp|]. split; [constructor|]. left. rewrite Ea. reflexivity.
  - (* Branch *)
    intros a IHa b IHb Hr Hf P s r x HU HR HI v Hv. simpl in Hr, Hf, HU, Hv.
    apply orb_false_iff in Hr as [Hra Hrb]. apply andb_true_iff in Hf as [Hfa Hfb].
    apply uniq_app in HU as [HUa HUb]. apply in_app_iff in Hv as [Hv|Hv].
    + destruct (IHa Hra Hfa P s r x HUa HR HI v Hv) as (p & t1 & p1 & Hp & E1 & Hin).
      exists p, t1, p1. split; [exact Hp|]. split; [apply EBrL, E1|exact Hin].
    + destruct (IHb Hrb Hfb P s r x HUb HR HI v Hv) as (p & t1 & p1 & Hp & E1 & Hin).
      exists p, t1, p1. split; [exact Hp|]. split; [apply EBrR, E1|exact Hin].
  - (* While *)
    intros t IHt b IHb e IHe Hr Hf P s r x HU HR HI v Hv.
    pose proof Hr as Hrw. simpl in Hr, Hf, HU, Hv.
    apply orb_false_iff in Hr as [Hr Hre]. apply orb_false_iff in Hr as [Hrt Hrb].
    apply andb_true_iff in Hf as [Hf Hfe]. apply andb_true_iff in Hf as [Hft Hfb].
    apply uniq_app in HU as [HUt HU]. apply uniq_app in HU as [HUb HUe].
    pose proof (an_realis t Hrt Hft P s x HR HI) as Rt.
    pose proof (inh_post t P Hrt HI) as It.
    pose proof (an_realis b Hrb Hfb _ _ x Rt It) as Rb.
    pose proof (realis_join _ _ _ _ x HR Rb) as RH.
    pose proof (inh_por_l P (post b (post t P)) HI) as IH.
    pose proof (an_realis t Hrt Hft _ _ x RH IH) as Rt2.
    pose proof (inh_post t _ Hrt IH) as It2.
    rewrite !in_app_iff in Hv. destruct Hv as [Hv|[Hv|Hv]].
    + (* a read in the test *)
      destruct (IHt Hrt Hft _ _ r x HUt RH IH v Hv) as (pH & tt & p1 & HpH & Et & Hin).
      destruct (exec_total e Hre p1) as (te & p' & Ee).
      destruct (while_head_exec t b e P pH (tt ++ te) ONorm p' HpH) as (p & tr0 & Hp & Ex).
      { eapply EWhileExit; eassumption. }
      exists p, (tr0 ++ tt ++ te), p'. split; [exact Hp|]. split; [exact Ex|].
      rewrite !in_app_iff. right; left; exact Hin.
    + (* a read in the body *)
      destruct (IHb Hrb Hfb _ _ r x HUb Rt2 It2 v Hv)
        as (p1 & tb & p2 & (pH & tt & HpH & Et) & Eb & Hin).
      destruct (exec_total (While t b e) Hrw p2) as (tr' & p' & Ew).
      destruct (while_head_exec t b e P pH (tt ++ tb ++ tr') ONorm p' HpH) as (p & tr0 & Hp & Ex).
      { eapply EWhileIter; eassumption. }
      exists p, (tr0 ++ tt ++ tb ++ tr'), p'. split; [exact Hp|]. split; [exact Ex|].
      rewrite !in_app_iff. right; right; left; exact Hin.
    + (* a read in the else part *)
      destruct (IHe Hre Hfe _ _ r x HUe Rt2 It2 v Hv) as (p1 & te & p' & Hp1 & Ee & Hin).
      destruct (while_exit_exec t b e P p1 te ONorm p' Hp1 Ee) as (p & tr0 & Hp & Ex).
      exists p, (tr0 ++ te), p'. split; [exact Hp|]. split; [exact Ex|].
      apply in_or_app; right; exact Hin.
  - (* For *)
    intros tg IHt b IHb e IHe Hr Hf P s r x HU HR HI v Hv.
    pose proof Hr as Hrw. simpl in Hr, Hf, HU, Hv.
    apply orb_false_iff in Hr as [Hr Hre]. apply orb_false_iff in Hr as [Hrt Hrb].
    apply andb_true_iff in Hf as [Hf Hfe]. apply andb_true_iff in Hf as [Hft Hfb].
    apply uniq_app in HU as [HUt HU]. apply uniq_app in HU as [HUb HUe].
    pose proof (an_realis tg Hrt Hft P s x HR HI) as Rt.
    pose proof (inh_post tg P Hrt HI) as It.
    pose proof (an_realis b Hrb Hfb _ _ x Rt It) as Rb.
    pose proof (realis_join _ _ _ _ x HR Rb) as RH.
    pose proof (inh_por_l P (post b (post tg P)) HI) as IH.
    pose proof (an_realis tg Hrt Hft _ _ x RH IH) as Rt2.
    pose proof (inh_post tg _ Hrt IH) as It2.
    pose proof (an_realis b Hrb Hfb _ _ x Rt2 It2) as Rb2.
    pose proof (realis_join _ _ _ _ x HR Rb2) as RE.
    pose proof (inh_por_l P (post b (post tg (por P (post b (post tg P))))) HI) as IE.
    rewrite !in_app_iff in Hv. destruct Hv as [Hv|[Hv|Hv]].
    + (* a read in the targets *)
      destruct (IHt Hrt Hft _ _ r x HUt RH IH v Hv) as (pH & tt & p1 & HpH & Et & Hin).
      destruct (exec_total b Hrb p1) as (tb & p2 & Eb).
      destruct (exec_total (For tg b e) Hrw p2) as (tr' & p' & Ew).
      destruct (for_head_exec tg b e P pH (tt ++ tb ++ tr') ONorm p' HpH) as (p & tr0 & Hp & Ex).
      { eapply EForIter; eassumption. }
      exists p, (tr0 ++ tt ++ tb ++ tr'), p'. split; [exact Hp|]. split; [exact Ex|].
      rewrite !in_app_iff. right; left; exact Hin.
    + (* a read in the body *)
      destruct (IHb Hrb Hfb _ _ r x HUb Rt2 It2 v Hv)
        as (p1 & tb & p2 & (pH & tt & HpH & Et) & Eb & Hin).
      destruct (exec_total (For tg b e) Hrw p2) as (tr' & p' & Ew).
      destruct (for_head_exec tg b e P pH (tt ++ tb ++ tr') ONorm p' HpH) as (p & tr0 & Hp & Ex).
      { eapply EForIter; eassumption. }
      exists p, (tr0 ++ tt ++ tb ++ tr'), p'. split; [exact Hp|]. split; [exact Ex|].
      rewrite !in_app_iff. right; right; left; exact Hin.
    + (* a read in the else part *)
      destruct (IHe Hre Hfe _ _ r x HUe RE IE v Hv) as (pE & te & p' & HpE & Ee & Hin).
      destruct (for_exit_exec tg b e P pE te ONorm p' HpE Ee) as (p & tr0 & Hp & Ex).
      exists p, (tr0 ++ te), p'. split; [exact Hp|]. split; [exact Ex|].
      apply in_or_app; right; exact Hin.
  - (* Try *)
    intros rf b IHb rl hs IHhs e IHe f IHf Hr Hf P s r x HU HR HI v Hv.
    simpl in Hr, Hf, HU, Hv.
    apply orb_false_iff in Hr as [Hr Hrf]. apply orb_false_iff in Hr as [Hr Hre].
    apply orb_false_iff in Hr as [Hrb Hrh].
    apply andb_true_iff in Hf as [Hf Hff]. apply andb_true_iff in Hf as [Hf Hfe].
    apply andb_true_iff in Hf as [Hf Hfh]. apply andb_true_iff in Hf as [Hfr Hfb].
    apply uniq_app in HU as [HUb HU]. apply uniq_app in HU as [HUh HU].
    apply uniq_app in HU as [HUe HUf].
    pose proof (an_realis b Hrb Hfb P s x HR HI) as Rb.
    pose proof (inh_post b P Hrb HI) as Ib.
    pose proof (realis_join _ _ _ _ x HR Rb) as Rhin.
    pose proof (inh_por_l P (post b P) HI) as Ihin.
    rewrite !in_app_iff in Hv. destruct Hv as [Hv|[Hv|[Hv|Hv]]].
    + (* a read in the body *)
      destruct (IHb Hrb Hfb P s r x HUb HR HI v Hv) as (p & tb & pb & Hp & Eb & Hin).
      destruct (exec_total e Hre pb) as (te & p2 & Ee).
      destruct (exec_total f Hrf p2) as (tf & p3 & Ef).
      exists p, (tb ++ te ++ tf), p3. split; [exact Hp|].
      split; [exact (ETryElse rf b rl hs e f _ _ _ _ _ _ _ _ _ Eb Ee Ef)|].
      apply in_or_app; left; exact Hin.
    + (* a read in a handler *)
      apply seen_h_inv in Hv as (i & ty & nm & hb & Hn & Hv).
      destruct (IHhs i ty nm hb Hn) as [IHty IHhb].
      destruct (has_ret_h_nth _ _ _ _ _ Hn Hrh) as [Hrty Hrhb].
      destruct (full_raise_h_nth _ _ _ _ _ Hn Hfh) as [Hfty Hfhb].
      assert (HUty : uniq (reads ty) r x).
      { intros r' y Hin. apply HUh. eapply reads_h_nth; [exact Hn|left; exact Hin]. }
      assert (HUhb : uniq (reads hb) r x).
      { intros r' y Hin. apply HUh. eapply reads_h_nth; [exact Hn|right; exact Hin]. }
      destruct Hv as [Hv|Hv].
      * (* in the except type *)
        destruct (IHty Hrty Hfty _ _ r x HUty Rhin Ihin v Hv) as (ph & tty & q0 & Hph & Ety & Hin).
        destruct (exec_total hb Hrhb (bind_opt_r nm q0)) as (th & p2 & Ehb).
        destruct (exec_total f Hrf p2) as (tf & p3 & Ef).
        destruct (try_handler_exec rf b rl hs e f P i ty nm hb ph tty q0 th ONorm p2 tf ONorm p3
                    Hfr Hn Hph Ety Ehb Ef) as (p & tr0 & Hp & Ex).
        exists p, (tr0 ++ tty ++ th ++ tf), p3. split; [exact Hp|]. split; [exact Ex|].
        rewrite !in_app_iff. right; left; exact Hin.
      * (* in the handler body *)
        pose proof (an_realis ty Hrty Hfty _ _ x Rhin Ihin) as Rty.
        pose proof (inh_post ty _ Hrty Ihin) as Ity.
        pose proof (realis_postb nm _ _ x Ity Rty) as Rnm.
        destruct (IHhb Hrhb Hfhb _ _ r x HUhb Rnm (inh_postb nm _ Ity) v Hv)
          as (q1 & th & p2 & (q0 & (ph & tty & Hph & Ety) & ->) & Ehb & Hin).
        destruct (exec_total f Hrf p2) as (tf & p3 & Ef).
        destruct (try_handler_exec rf b rl hs e f P i ty nm hb ph tty q0 th ONorm p2 tf ONorm p3
                    Hfr Hn Hph Ety Ehb Ef) as (p & tr0 & Hp & Ex).
        exists p, (tr0 ++ tty ++ th ++ tf), p3. split; [exact Hp|]. split; [exact Ex|].
        rewrite !in_app_iff. right; right; left; exact Hin.
    + (* a read in the else part *)
      destruct (IHe Hre Hfe _ _ r x HUe Rb Ib v Hv) as (pb & te & p2 & (p & tb & Hp & Eb) & Ee & Hin).
      destruct (exec_total f Hrf p2) as (tf & p3 & Ef).
      exists p, (tb ++ te ++ tf), p3. split; [exact Hp|].
      split; [exact (ETryElse rf b rl hs e f _ _ _ _ _ _ _ _ _ Eb Ee Ef)|].
      rewrite !in_app_iff. right; left; exact Hin.
    + (* a read in the finally part *)
      destruct (try_join_realis b hs e P s x
                  (proj1 an_complete_both b) (proj2 an_complete_both hs) (proj1 an_complete_both e)
                  Hrb Hrh Hre Hfb Hfh Hfe HR HI) as [RJ IJ].
      destruct (IHf Hrf Hff _ _ r x HUf RJ IJ v Hv) as (p2 & tf & p3 & Hp2 & Ef & Hin).
      destruct (try_finally_exec rf b rl hs e f P p2 tf ONorm p3 Hfr Hp2 Ef) as (p & tr0 & Hp & Ex).
      exists p, (tr0 ++ tf), p3. split; [exact Hp|]. split; [exact Ex|].
      apply in_or_app; right; exact Hin.
  - (* Exit *) intros k Hr. discriminate Hr.
  - (* HNil *) intros i ty nm hb H. destruct i; discriminate H.
  - (* HCons *)
    intros ty IHty nm hb IHhb rest IHrest i ty' nm' hb' H. destruct i as [|i]; simpl in H.
    + injection H as <- <- <-. split; assumption.
    + eapply IHrest; exact H.
Qed.

(* Strongest form: the witnessing execution completes normally, and the (redundant) hypothesis that
   r is a read site of c is not needed. *)
Theorem seen_complete : forall c, has_ret c = false -> full_raise c = true ->
  forall (P : renv -> Prop) s r x a,
    uniq (reads c) r x -> realis P s x -> (exists p0, P p0) -> In a (seen c s r) ->
    exists p tr p', P p /\ exec c p tr ONorm p' /\ In (r, a) tr.
Proof.
  intros c Hr Hf P s r x a HU HR HI Ha.
  exact (proj1 seen_complete_both c Hr Hf P s r x HU HR HI a Ha).
Qed.

(* ---- the requested statement -------------------------------------------------------------------------- *)

Theorem complete : forall c, has_ret c = false -> full_raise c = true ->
  forall (P : renv -> Prop) s r x a,
    In (r, x) (reads c) ->
    (forall r' y, In (r', y) (reads c) -> r' = r -> y = x) ->
    realis P s x ->
    (exists p0, P p0) ->
    In a (seen c s r) ->
    exists p tr o p', P p /\ exec c p tr o p' /\ In (r, a) tr.
Proof.
  intros c Hr Hf P s r x a _ HU HR HI Ha.
  destruct (seen_complete c Hr Hf P s r x a HU HR HI Ha) as (p & tr & p' & Hp & E & Hin).
  exists p, tr, ONorm, p'. auto.
Qed.

(* read sites that are pairwise distinct are in particular not shared between names *)
Lemma nodup_uniq (l : list (site * name)) r x :
  NoDup (map fst l) -> In (r, x) l -> uniq l r x.
Proof.
  induction l as [|[r0 x0] l IH]; intros ND Hin r' y Hin' ->; [destruct Hin|].
  simpl in ND. inversion ND as [|? ? Hnin ND']; subst.
  destruct Hin as [E|Hin]; destruct Hin' as [E'|Hin'].
  - congruence.
  - injection E as -> ->. exfalso. apply Hnin. apply (in_map fst _ _ Hin').
  - injection E' as -> ->. exfalso. apply Hnin. apply (in_map fst _ _ Hin).
  - exact (IH ND' Hin r y Hin' eq_refl).
Qed.

(* from the initial state of a scope: every local is unbound *)
Lemma realis0 x : realis (fun p => p = renv0) aenv0 x.
Proof. intros a [<-|[]]. exists renv0. split; reflexivity. Qed.

Corollary complete0 : forall c, has_ret c = false -> full_raise c = true ->
  forall r x a, uniq (reads c) r x -> In a (seen c aenv0 r) ->
  exists tr p', exec c renv0 tr ONorm p' /\ In (r, a) tr.
Proof.
  intros c Hr Hf r x a HU Ha.
  destruct (seen_complete c Hr Hf (fun p => p = renv0) aenv0 r x a HU (realis0 x)
              (ex_intro _ renv0 eq_refl) Ha) as (p & tr & p' & -> & E & Hin).
  exists tr, p'. auto.
Qed.

(* ---- exactness ------------------------------------------------------------------------------------------ *)

Lemma has_ret_ok_both :
  (forall c, has_ret c = false -> ok c = true) /\
  (forall hs, has_ret_h hs = false -> ok_h hs = true).
Proof.
  apply cmd_hlist_ind; simpl; try reflexivity.
  - intros a IHa b IHb Hr. apply orb_false_iff in Hr as [Hra Hrb]. rewrite IHa, IHb; auto.
  - intros a IHa b IHb Hr. apply orb_false_iff in Hr as [Hra Hrb]. rewrite IHa, IHb; auto.
  - intros t IHt b IHb e IHe Hr.
    apply orb_false_iff in Hr as [Hr Hre]. apply orb_false_iff in Hr as [Hrt Hrb].
    rewrite IHt, IHb, IHe, Hrt; auto.
  - intros t IHt b IHb e IHe Hr.
    apply orb_false_iff in Hr as [Hr Hre]. apply orb_false_iff in Hr as [Hrt Hrb].
    rewrite IHt, IHb, IHe, Hrt; auto.
  - intros rf b IHb rl hs IHhs e IHe f IHf Hr.
    apply orb_false_iff in Hr as [Hr Hrf]. apply orb_false_iff in Hr as [Hr Hre].
    apply orb_false_iff in Hr as [Hrb Hrh].
    rewrite IHb, IHhs, IHe, IHf, Hrb, Hrh, Hre, Hrf; auto. simpl. apply orb_true_r.
  - intros k Hr. discriminate Hr.
  - intros ty IHty nm hb IHhb rest IHrest Hr.
    apply orb_false_iff in Hr as [Hr Hrr]. apply orb_false_iff in Hr as [Hrt Hrb].
    rewrite IHty, IHhb, IHrest, Hrt; auto.
Qed.

Lemma has_ret_ok c : has_ret c = false -> ok c = true.
Proof. apply has_ret_ok_both. Qed.

Lemma abs0 : abs renv0 aenv0.
Proof. intros x. left. reflexivity. Qed.

(* On the Return-free, full_raise fragment the row supp tells a read site is EXACTLY the set of
   bindings that read can observe. *)
Theorem seen_exact : forall c, has_ret c = false -> full_raise c = true ->
  forall r x, uniq (reads c) r x ->
  forall a, In a (seen c aenv0 r) <-> exists tr o p', exec c renv0 tr o p' /\ In (r, a) tr.
Proof.
  intros c Hr Hf r x HU a. split.
  - intros Ha. destruct (complete0 c Hr Hf r x a HU Ha) as (tr & p' & E & Hin).
    exists tr, ONorm, p'. auto.
  - intros (tr & o & p' & E & Hin).
    exact (proj2 (sound c renv0 tr o p' E (has_ret_ok c Hr) aenv0 abs0) r a Hin).
Qed.

(* "possibly undefined" is exact: supp lists the alternative "unbound" for a read iff some
   execution reaches that read with the name unbound (a NameError / UnboundLocalError) *)
Corollary undefined_exact : forall c, has_ret c = false -> full_raise c = true ->
  forall r x, In (r, x) (reads c) ->
  (forall r' y, In (r', y) (reads c) -> r' = r -> y = x) ->
  (In None (seen c aenv0 r) <-> exists tr o p', exec c renv0 tr o p' /\ In (r, None) tr).
Proof. intros c Hr Hf r x _ HU. exact (seen_exact c Hr Hf r x HU None). Qed.

(* E02 "undefined name" is exact as well: it is reported iff no execution ever finds the name bound *)
Corollary e02_exact : forall c, has_ret c = false -> full_raise c = true ->
  forall r x, uniq (reads c) r x ->
  (e02 c aenv0 r = true <-> forall tr o p' d, exec c renv0 tr o p' -> ~ In (r, Some d) tr).
Proof.
  intros c Hr Hf r x HU. unfold e02. rewrite negb_true_iff. split.
  - intros He tr o p' d E Hin.
    assert (Hs : In (Some d) (seen c aenv0 r)).
    { apply (seen_exact c Hr Hf r x HU). exists tr, o, p'. auto. }
    assert (Ht : existsb is_def (seen c aenv0 r) = true).
    { apply existsb_exists. exists (Some d). auto. }
    congruence.
  - intros Hno. destruct (existsb is_def (seen c aenv0 r)) eqn:Ex; [|reflexivity].
    apply existsb_exists in Ex as (a & Ha & Hd). destruct a as [d|]; [|discriminate Hd].
    apply (seen_exact c Hr Hf r x HU) in Ha as (tr & o & p' & E & Hin).
    exfalso. exact (Hno tr o p' d E Hin).
Qed.

(* ---- the hypotheses are satisfiable, and full_raise is necessary ---------------------------------------- *)

(*   try:  x = ..(1)   except: read x (5)      # raise possible before and after the binding
     read x (6) *)
Definition ex_try (rf : bool) : cmd :=
  Seq (Try rf (Bind 1%N 0%N) true (HCons Skip None (Read 5%N 0%N) HNil) Skip Skip) (Read 6%N 0%N).

Example ex_try_hyps :
  has_ret (ex_try true) = false /\ full_raise (ex_try true) = true /\
  NoDup (map fst (reads (ex_try true))) /\
  seen (ex_try true) aenv0 5%N = [None; Some 1%N] /\
  seen (ex_try true) aenv0 6%N = [Some 1%N; None; Some 1%N].
Proof.
  repeat split. simpl. repeat constructor; simpl; intuition discriminate.
Qed.

(* Without the raise before the first statement the handler can only be entered after the
   binding: the alternative "unbound" that the analysis reports at read 5 (the except flow always
   has the try's entry as a parent) is then a phantom. So [full_raise] cannot be dropped. *)
Example ex_try_phantom :
  has_ret (ex_try false) = false /\
  In None (seen (ex_try false) aenv0 5%N) /\
  ~ exists tr o p', exec (ex_try false) renv0 tr o p' /\ In (5%N, None) tr.
Proof.
  split; [reflexivity|]. split; [left; reflexivity|].
  intros (tr & o & p' & E & Hin). unfold ex_try in E.
  assert (Hbind : forall d y p t o' q, exec (Bind d y) p t o' q ->
                    t = [] /\ o' = ONorm /\ q = upd p y (Some d))
    by (intros d y p t o' q X; inversion X; subst; auto).
  assert (Hread : forall r y p t o' q, exec (Read r y) p t o' q ->
                    t = [(r, p y)] /\ o' = ONorm /\ q = p)
    by (intros r y p t o' q X; inversion X; subst; auto).
  assert (Htry : forall t o' q,
            exec (Try false (Bind 1%N 0%N) true (HCons Skip None (Read 5%N 0%N) HNil) Skip Skip)
                 renv0 t o' q ->
            (t = [] \/ t = [(5%N, Some 1%N)]) /\ q = upd renv0 0%N (Some 1%N)).
  { intros t o' q X. inversion X; subst.
    - discriminate.
    - destruct i as [|[|i]]; simpl in *; try discriminate.
      match goal with H : Some _ = Some _ |- _ => injection H as <- <- <- end.
      repeat match goal with
             | H : exec (Bind _ _) _ _ _ _ |- _ => apply Hbind in H as (-> & ? & ->)
             | H : exec Skip _ _ _ _ |- _ => apply exec_skip in H as (-> & ? & ->)
             | H : exec (Read _ _) _ _ _ _ |- _ => apply Hread in H as (-> & ? & ->)
             end.
      simpl. split; [right; reflexivity|reflexivity].
    - repeat match goal with
             | H : exec (Bind _ _) _ _ _ _ |- _ => apply Hbind in H as (-> & ? & ->)
             | H : exec Skip _ _ _ _ |- _ => apply exec_skip in H as (-> & ? & ->)
             end.
      simpl. split; [left; reflexivity|reflexivity].
    - match goal with H : exec (Bind _ _) _ _ ORet _ |- _ => apply Hbind in H as (_ & ? & _) end.
      discriminate. }
  inversion E; subst.
  - match goal with H : exec (Try _ _ _ _ _ _) _ _ _ _ |- _ => apply Htry in H as [Ht ->] end.
    match goal with H : exec (Read _ _) _ _ _ _ |- _ => apply Hread in H as (-> & _ & _) end.
    apply in_app_iff in Hin as [Hin|Hin].
    + destruct Ht as [-> | ->]; simpl in Hin; intuition discriminate.
    + simpl in Hin. intuition discriminate.
  - match goal with H : exec (Try _ _ _ _ _ _) _ _ _ _ |- _ => apply Htry in H as [Ht _] end.
    destruct Ht as [-> | ->]; simpl in Hin; intuition discriminate.
Qed.
