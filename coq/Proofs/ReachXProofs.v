(* Soundness of the analysis with break/continue flow edges (Model/ReachX.v) with respect to the
   interpreter of Model/SemXS.v, its equivalence with Model/Reach.v on programs without
   break/continue, and the top-level C02 corollary. *)
From Coq Require Import List Bool Arith NArith Lia.
Import ListNotations.
From Supp Require Import Model.PyCore Model.Reach Model.ReachX Model.Sem Model.SemX Model.SemXS
  Proofs.ReachProofs Proofs.ReachCorollaries.

Definition goodX (c : cmd) (s : aenv) (res : resX) : Prop :=
  match res with
  | DoneX p' tr o _ =>
      match o with
      | XN => abs p' (nrm (anx c s))
      | XBrk => abs p' (brk (anx c s))
      | XCont => abs p' (cnt (anx c s))
      | XRet => True
      | XExc _ => False
      end /\ forall r v, In (r, v) tr -> In v (seenx c s r)
  | _ => True
  end.

(* ---- small facts ---------------------------------------------------------------------------- *)

Lemma sub_bot s : sub bot s.
Proof. intros x a []. Qed.

Lemma subl_app_l {A} (l m : list A) : subl l (l ++ m).
Proof. intros a H. apply in_or_app; left; exact H. Qed.
Lemma subl_app_r {A} (l m : list A) : subl m (l ++ m).
Proof. intros a H. apply in_or_app; right; exact H. Qed.
Lemma subl_trans {A} (l m n : list A) : subl l m -> subl m n -> subl l n.
Proof. intros P Q a H. apply Q, P, H. Qed.
Lemma subl_refl {A} (l : list A) : subl l l.
Proof. intros a H; exact H. Qed.

Definition sub3 (r r' : aenv * aenv * aenv) : Prop :=
  sub (nrm r) (nrm r') /\ sub (brk r) (brk r') /\ sub (cnt r) (cnt r').

Lemma sub3_refl r : sub3 r r.
Proof. repeat split; apply sub_refl. Qed.
Lemma sub3_trans r1 r2 r3 : sub3 r1 r2 -> sub3 r2 r3 -> sub3 r1 r3.
Proof. intros (A & B & C) (A' & B' & C'). repeat split; eapply sub_trans; eauto. Qed.

(* the part of a loop that flows back to its head: body end joined with the continues *)
Definition LF (t b : cmd) (s : aenv) : aenv :=
  join (nrm (anx b (nrm (anx t s)))) (cnt (anx b (nrm (anx t s)))).

(* the state after handlers: accumulated over else-end and handler ends *)
Definition tryH (b : cmd) (hs : hlist) (e : cmd) (s : aenv) : aenv * aenv * aenv :=
  let rb := anx b s in
  let re := anx e (nrm rb) in
  anx_h hs (join s (nrm rb)) (nrm re, join (brk rb) (brk re), join (cnt rb) (cnt re)).

Lemma anx_while t b e s :
  anx (While t b e) s =
  let T := nrm (anx t (join s (LF t b s))) in
  (join (nrm (anx e T)) (brk (anx b T)), brk (anx e T), cnt (anx e T)).
Proof. reflexivity. Qed.

Lemma anx_for tg b e s :
  anx (For tg b e) s =
  let H := join s (LF tg b s) in
  let T := nrm (anx tg H) in
  let E := join s (LF tg b H) in
  (join (nrm (anx e E)) (brk (anx b T)), brk (anx e E), cnt (anx e E)).
Proof. reflexivity. Qed.

Lemma anx_try rf b rl hs e f s :
  anx (Try rf b rl hs e f) s =
  let rh := tryH b hs e s in
  let r := anx f (nrm rh) in
  (nrm r, join (brk rh) (brk r), join (cnt rh) (cnt r)).
Proof. reflexivity. Qed.

Lemma seenx_while t b e s r :
  seenx (While t b e) s r =
  let H := join s (LF t b s) in
  let T := nrm (anx t H) in
  seenx t H r ++ seenx b T r ++ seenx e T r.
Proof. reflexivity. Qed.

Lemma seenx_for tg b e s r :
  seenx (For tg b e) s r =
  let H := join s (LF tg b s) in
  let T := nrm (anx tg H) in
  seenx tg H r ++ seenx b T r ++ seenx e (join s (LF tg b H)) r.
Proof. reflexivity. Qed.

Lemma seenx_try rf b rl hs e f s r :
  seenx (Try rf b rl hs e f) s r =
  seenx b s r ++ seenx_h hs (join s (nrm (anx b s))) r ++ seenx e (nrm (anx b s)) r ++
  seenx f (nrm (tryH b hs e s)) r.
Proof. reflexivity. Qed.

(* ---- gen/kill normal form of the three components ------------------------------------------- *)

Lemma gk_bot : gk (fun _ => bot).
Proof.
  exists (fun _ => []), (fun _ => false). intros s x a. unfold bot. simpl.
  split; [intros []|intros [[]|[Hf _]]; discriminate Hf].
Qed.

Definition gk3 (R : aenv -> aenv * aenv * aenv) : Prop :=
  gk (fun s => nrm (R s)) /\ gk (fun s => brk (R s)) /\ gk (fun s => cnt (R s)).

Lemma gk3_comp F R : gk F -> gk3 R -> gk3 (fun s => R (F s)).
Proof.
  intros HF (A & B & C). split; [|split].
  - exact (gk_comp F (fun s => nrm (R s)) HF A).
  - exact (gk_comp F (fun s => brk (R s)) HF B).
  - exact (gk_comp F (fun s => cnt (R s)) HF C).
Qed.

Lemma gk3_mk N B C : gk N -> gk B -> gk C -> gk3 (fun s => (N s, B s, C s)).
Proof. intros HN HB HC. split; [|split]; [exact HN|exact HB|exact HC]. Qed.

Lemma gk3_join R R' : gk3 R -> gk3 R' ->
  gk3 (fun s => (join (nrm (R s)) (nrm (R' s)), join (brk (R s)) (brk (R' s)), join (cnt (R s)) (cnt (R' s)))).
Proof.
  intros (A & B & C) (A' & B' & C'). split; [|split].
  - exact (gk_join _ _ A A').
  - exact (gk_join _ _ B B').
  - exact (gk_join _ _ C C').
Qed.

Lemma gk_LF' t b : gk3 (anx t) -> gk3 (anx b) -> gk (LF t b).
Proof.
  intros (Nt & _ & _) Hb.
  destruct (gk3_comp (fun s => nrm (anx t s)) (anx b) Nt Hb) as (N1 & _ & C1).
  exact (gk_join _ _ N1 C1).
Qed.

Lemma gk_anx_both :
  (forall c, gk3 (anx c)) /\
  (forall hs F A, gk F -> gk3 A -> gk3 (fun s => anx_h hs (F s) (A s))).
Proof.
  apply cmd_hlist_ind.
  - (* Skip *) exact (gk3_mk _ _ _ gk_id gk_bot gk_bot).
  - (* Seq *) intros a IHa b IHb.
    pose proof (gk3_comp (fun s => nrm (anx a s)) (anx b) (proj1 IHa) IHb) as Hab.
    destruct IHa as (Na & Ba & Ca). destruct Hab as (Nab & Bab & Cab).
    split; [|split].
    + exact Nab.
    + exact (gk_join _ _ Ba Bab).
    + exact (gk_join _ _ Ca Cab).
  - (* Bind *) intros d x. exact (gk3_mk _ _ _ (gk_upd d x) gk_bot gk_bot).
  - (* Read *) intros r x. exact (gk3_mk _ _ _ gk_id gk_bot gk_bot).
  - (* Branch *) intros a IHa b IHb. exact (gk3_join _ _ IHa IHb).
  - (* While *) intros t IHt b IHb e IHe.
    pose proof (gk_LF' t b IHt IHb) as HL.
    assert (HH : gk (fun s => join s (LF t b s))) by exact (gk_join _ _ gk_id HL).
    assert (HT : gk (fun s => nrm (anx t (join s (LF t b s)))))
      by exact (gk_comp _ (fun s => nrm (anx t s)) HH (proj1 IHt)).
    destruct (gk3_comp _ (anx b) HT IHb) as (N2 & B2 & C2).
    destruct (gk3_comp _ (anx e) HT IHe) as (Ne & Be & Ce).
    split; [|split].
    + exact (gk_join _ _ Ne B2).
    + exact Be.
    + exact Ce.
  - (* For *) intros tg IHt b IHb e IHe.
    pose proof (gk_LF' tg b IHt IHb) as HL.
    assert (HH : gk (fun s => join s (LF tg b s))) by exact (gk_join _ _ gk_id HL).
    assert (HT : gk (fun s => nrm (anx tg (join s (LF tg b s)))))
      by exact (gk_comp _ (fun s => nrm (anx tg s)) HH (proj1 IHt)).
    assert (HE : gk (fun s => join s (LF tg b (join s (LF tg b s)))))
      by exact (gk_join _ _ gk_id (gk_comp _ (LF tg b) HH HL)).
    destruct (gk3_comp _ (anx b) HT IHb) as (N2 & B2 & C2).
    destruct (gk3_comp _ (anx e) HE IHe) as (Ne & Be & Ce).
    split; [|split].
    + exact (gk_join _ _ Ne B2).
    + exact Be.
    + exact Ce.
  - (* Try *) intros rf b IHb rl hs IHhs e IHe f IHf.
    pose proof (gk3_comp (fun s => nrm (anx b s)) (anx e) (proj1 IHb) IHe) as Hbe.
    assert (Hhin : gk (fun s => join s (nrm (anx b s)))) by exact (gk_join _ _ gk_id (proj1 IHb)).
    assert (Hacc : gk3 (fun s => (nrm (anx e (nrm (anx b s))),
                                  join (brk (anx b s)) (brk (anx e (nrm (anx b s)))),
                                  join (cnt (anx b s)) (cnt (anx e (nrm (anx b s))))))).
    { destruct IHb as (Nb & Bb & Cb). destruct Hbe as (Ne & Be & Ce).
      split; [|split]; [exact Ne|exact (gk_join _ _ Bb Be)|exact (gk_join _ _ Cb Ce)]. }
    pose proof (IHhs _ _ Hhin Hacc) as Hh.
    assert (Hh' : gk3 (tryH b hs e)) by exact Hh.
    pose proof (gk3_comp (fun s => nrm (tryH b hs e s)) (anx f) (proj1 Hh') IHf) as Hf.
    destruct Hh' as (Nh & Bh & Ch). destruct Hf as (Nf & Bf & Cf).
    split; [|split].
    + exact Nf.
    + exact (gk_join _ _ Bh Bf).
    + exact (gk_join _ _ Ch Cf).
  - (* Exit *) intros [| | |i].
    + exact (gk3_mk _ _ _ gk_id gk_bot gk_bot).
    + exact (gk3_mk _ _ _ gk_id gk_id gk_bot).
    + exact (gk3_mk _ _ _ gk_id gk_bot gk_id).
    + exact (gk3_mk _ _ _ gk_id gk_bot gk_bot).
  - (* HNil *) intros F A HF HA. exact HA.
  - (* HCons *) intros ty IHty nm hb IHhb rest IHrest F A HF HA.
    assert (Hin : gk (fun s => bind_opt_a nm (nrm (anx ty (F s))))).
    { apply (gk_comp (fun s => nrm (anx ty (F s))) (fun s => bind_opt_a nm s)); [|apply gk_bind_opt].
      exact (gk_comp F (fun s => nrm (anx ty s)) HF (proj1 IHty)). }
    pose proof (gk3_comp _ (anx hb) Hin IHhb) as Hhb.
    exact (IHrest F _ HF (gk3_join _ _ HA Hhb)).
Qed.

Lemma gk_anx c : gk3 (anx c). Proof. apply gk_anx_both. Qed.
Lemma gk_LF t b : gk (LF t b). Proof. apply gk_LF'; apply gk_anx. Qed.

Lemma anx_mono c s t : sub s t -> sub3 (anx c s) (anx c t).
Proof.
  intros H. destruct (gk_anx c) as (A & B & C). split; [|split].
  - exact (gk_mono _ A s t H).
  - exact (gk_mono _ B s t H).
  - exact (gk_mono _ C s t H).
Qed.

Lemma nrm_mono c s t : sub s t -> sub (nrm (anx c s)) (nrm (anx c t)).
Proof. intros H. apply anx_mono, H. Qed.

Lemma LF_mono t b s s' : sub s s' -> sub (LF t b s) (LF t b s').
Proof. apply gk_mono, gk_LF. Qed.

Lemma sub3_join a a' b b' : sub3 a a' -> sub3 b b' ->
  sub3 (join (nrm a) (nrm b), join (brk a) (brk b), join (cnt a) (cnt b))
       (join (nrm a') (nrm b'), join (brk a') (brk b'), join (cnt a') (cnt b')).
Proof. intros (A & B & C) (A' & B' & C'). repeat split; apply join_mono; assumption. Qed.

Lemma anx_h_mono hs : forall hin hin' acc acc', sub hin hin' -> sub3 acc acc' ->
  sub3 (anx_h hs hin acc) (anx_h hs hin' acc').
Proof.
  induction hs as [|ty nm hb rest IH]; intros hin hin' acc acc' A B; simpl; [exact B|].
  apply IH; [exact A|]. apply sub3_join; [exact B|].
  apply anx_mono, bind_opt_mono, nrm_mono, A.
Qed.

Lemma anx_h_acc hs : forall hin acc, sub3 acc (anx_h hs hin acc).
Proof.
  induction hs as [|ty nm hb rest IH]; intros hin acc; simpl; [apply sub3_refl|].
  eapply sub3_trans; [|apply IH]. repeat split; apply sub_join_l.
Qed.

Lemma anx_h_nth hs : forall i ty nm hb hin acc, hnth hs i = Some (ty, nm, hb) ->
  sub3 (anx hb (bind_opt_a nm (nrm (anx ty hin)))) (anx_h hs hin acc).
Proof.
  induction hs as [|ty0 nm0 hb0 rest IH]; intros i ty nm hb hin acc H; [destruct i; discriminate|].
  destruct i as [|i]; simpl in *.
  - injection H as -> -> ->. eapply sub3_trans; [|apply anx_h_acc]. repeat split; apply sub_join_r.
  - eapply IH; exact H.
Qed.

Lemma seenx_h_nth hs : forall i ty nm hb hin r, hnth hs i = Some (ty, nm, hb) ->
  subl (seenx ty hin r ++ seenx hb (bind_opt_a nm (nrm (anx ty hin))) r) (seenx_h hs hin r).
Proof.
  induction hs as [|ty0 nm0 hb0 rest IH]; intros i ty nm hb hin r H; [destruct i; discriminate|].
  destruct i as [|i]; simpl in *.
  - injection H as -> -> ->. intros a Ha. rewrite app_assoc. apply in_or_app; left; exact Ha.
  - intros a Ha. rewrite app_assoc. apply in_or_app; right. eapply IH; eauto.
Qed.

Lemma tryH_mono b hs e s t : sub s t -> sub3 (tryH b hs e s) (tryH b hs e t).
Proof.
  intros H. unfold tryH.
  pose proof (anx_mono b s t H) as Hb.
  pose proof (anx_mono e _ _ (proj1 Hb)) as He.
  apply anx_h_mono.
  - apply join_mono; [exact H|exact (proj1 Hb)].
  - destruct Hb as (Nb & Bb & Cb). destruct He as (Ne & Be & Ce).
    repeat split; [exact Ne|apply join_mono; assumption|apply join_mono; assumption].
Qed.

(* ---- monotonicity of seenx ------------------------------------------------------------------ *)

Lemma seenx_mono_both :
  (forall c s t r, sub s t -> subl (seenx c s r) (seenx c t r)) /\
  (forall hs s t r, sub s t -> subl (seenx_h hs s r) (seenx_h hs t r)).
Proof.
  apply cmd_hlist_ind.
  - intros s t r _ a H; exact H.
  - intros a IHa b IHb s t r Hst. simpl. apply subl_app; [apply IHa; exact Hst|apply IHb, nrm_mono, Hst].
  - intros d x s t r _ a H; exact H.
  - intros r0 x s t r Hst a. simpl. destruct (N.eqb r r0); [apply Hst|auto].
  - intros a IHa b IHb s t r Hst. simpl. apply subl_app; [apply IHa|apply IHb]; exact Hst.
  - intros tt IHt b IHb e IHe s t r Hst. rewrite !seenx_while. cbv zeta.
    assert (HH : sub (join s (LF tt b s)) (join t (LF tt b t))).
    { apply join_mono; [exact Hst|apply LF_mono, Hst]. }
    apply subl_app; [apply IHt; exact HH|]. apply subl_app; [apply IHb|apply IHe]; apply nrm_mono, HH.
  - intros tg IHt b IHb e IHe s t r Hst. rewrite !seenx_for. cbv zeta.
    assert (HH : sub (join s (LF tg b s)) (join t (LF tg b t))).
    { apply join_mono; [exact Hst|apply LF_mono, Hst]. }
    apply subl_app; [apply IHt; exact HH|]. apply subl_app; [apply IHb; apply nrm_mono, HH|].
    apply IHe. apply join_mono; [exact Hst|apply LF_mono, HH].
  - intros rf b IHb rl hs IHhs e IHe f IHf s t r Hst. rewrite !seenx_try.
    assert (Hb : sub (nrm (anx b s)) (nrm (anx b t))) by (apply nrm_mono, Hst).
    apply subl_app; [apply IHb; exact Hst|].
    apply subl_app; [apply IHhs; apply join_mono; assumption|].
    apply subl_app; [apply IHe; exact Hb|]. apply IHf. apply tryH_mono, Hst.
  - intros k s t r _ a H; exact H.
  - intros s t r _ a H; exact H.
  - intros ty IHty nm hb IHhb rest IHrest s t r Hst. simpl.
    apply subl_app; [apply IHty; exact Hst|]. apply subl_app; [|apply IHrest; exact Hst].
    apply IHhb, bind_opt_mono, nrm_mono, Hst.
Qed.

Lemma seenx_mono c s t r : sub s t -> subl (seenx c s r) (seenx c t r).
Proof. apply seenx_mono_both. Qed.

(* ---- loops: analysing a loop from its head invariant changes nothing ----------------------- *)

Lemma LF_closed t b s : let H := join s (LF t b s) in sub (join H (LF t b H)) H.
Proof. exact (head_closed (LF t b) (gk_LF t b) s). Qed.

Lemma LF_head t b s : let H := join s (LF t b s) in sub (LF t b H) H.
Proof. exact (head_F (LF t b) (gk_LF t b) s). Qed.

Lemma while_headx t b e s :
  let H := join s (LF t b s) in
  sub3 (anx (While t b e) H) (anx (While t b e) s) /\
  forall r, subl (seenx (While t b e) H r) (seenx (While t b e) s r).
Proof.
  intros H.
  pose proof (LF_closed t b s) as Hc. cbv zeta in Hc. fold H in Hc.
  assert (HT : sub (nrm (anx t (join H (LF t b H)))) (nrm (anx t H))) by (apply nrm_mono, Hc).
  split.
  - rewrite !anx_while. cbv zeta.
    destruct (anx_mono e _ _ HT) as (Ne & Be & Ce). destruct (anx_mono b _ _ HT) as (Nb & Bb & Cb).
    split; [|split]; [exact (join_mono _ _ _ _ Ne Bb)|exact Be|exact Ce].
  - intros r. rewrite !seenx_while. cbv zeta.
    apply subl_app; [apply seenx_mono, Hc|]. apply subl_app; apply seenx_mono, HT.
Qed.

Lemma for_headx tg b e s :
  let H := join s (LF tg b s) in
  sub3 (anx (For tg b e) H) (anx (For tg b e) s) /\
  forall r, subl (seenx (For tg b e) H r) (seenx (For tg b e) s r).
Proof.
  intros H.
  pose proof (LF_closed tg b s) as Hc. cbv zeta in Hc. fold H in Hc.
  assert (HT : sub (nrm (anx tg (join H (LF tg b H)))) (nrm (anx tg H))) by (apply nrm_mono, Hc).
  assert (Hout : sub (join H (LF tg b (join H (LF tg b H)))) (join s (LF tg b H))).
  { apply sub_join_lub.
    - unfold H at 1. apply sub_join_lub; [apply sub_join_l|].
      eapply sub_trans; [|apply sub_join_r]. apply LF_mono. apply sub_join_l.
    - eapply sub_trans; [|apply sub_join_r]. apply LF_mono, Hc. }
  split.
  - rewrite !anx_for. cbv zeta.
    destruct (anx_mono e _ _ Hout) as (Ne & Be & Ce). destruct (anx_mono b _ _ HT) as (Nb & Bb & Cb).
    split; [|split]; [exact (join_mono _ _ _ _ Ne Bb)|exact Be|exact Ce].
  - intros r. rewrite !seenx_for. cbv zeta.
    apply subl_app; [apply seenx_mono, Hc|].
    apply subl_app; [apply seenx_mono, HT|apply seenx_mono, Hout].
Qed.

(* ---- commands without break/continue have empty break/continue components ------------------- *)

Lemma nobc_bot_both :
  (forall c, nobc c = true -> forall s, sub (brk (anx c s)) bot /\ sub (cnt (anx c s)) bot) /\
  (forall hs, nobc_h hs = true -> forall hin acc, sub (brk acc) bot -> sub (cnt acc) bot ->
      sub (brk (anx_h hs hin acc)) bot /\ sub (cnt (anx_h hs hin acc)) bot).
Proof.
  apply cmd_hlist_ind.
  - intros _ s. split; apply sub_refl.
  - intros a IHa b IHb Hn s. simpl in Hn. apply andb_true_iff in Hn as [Ha Hb].
    destruct (IHa Ha s) as [A1 A2]. destruct (IHb Hb (nrm (anx a s))) as [B1 B2].
    split; apply sub_join_lub; assumption.
  - intros d x _ s. split; apply sub_refl.
  - intros r x _ s. split; apply sub_refl.
  - intros a IHa b IHb Hn s. simpl in Hn. apply andb_true_iff in Hn as [Ha Hb].
    destruct (IHa Ha s) as [A1 A2]. destruct (IHb Hb s) as [B1 B2].
    split; apply sub_join_lub; assumption.
  - intros t IHt b IHb e IHe Hn s. simpl in Hn. rewrite !andb_true_iff in Hn. destruct Hn as [[Ht Hb] He].
    rewrite anx_while. cbv zeta. apply IHe, He.
  - intros t IHt b IHb e IHe Hn s. simpl in Hn. rewrite !andb_true_iff in Hn. destruct Hn as [[Ht Hb] He].
    rewrite anx_for. cbv zeta. apply IHe, He.
  - intros rf b IHb rl hs IHhs e IHe f IHf Hn s. simpl in Hn. rewrite !andb_true_iff in Hn.
    destruct Hn as [[[Hb Hh] He] Hf].
    rewrite anx_try. cbv zeta.
    destruct (IHb Hb s) as [B1 B2]. destruct (IHe He (nrm (anx b s))) as [E1 E2].
    assert (HH : sub (brk (tryH b hs e s)) bot /\ sub (cnt (tryH b hs e s)) bot).
    { unfold tryH. apply IHhs; [exact Hh| |]; apply sub_join_lub; assumption. }
    destruct HH as [H1 H2]. destruct (IHf Hf (nrm (tryH b hs e s))) as [F1 F2].
    split; apply sub_join_lub; assumption.
  - intros [| | |i] Hn s; try discriminate Hn; split; apply sub_refl.
  - intros _ hin acc A B. split; assumption.
  - intros ty IHty nm hb IHhb rest IHrest Hn hin acc A B. simpl in Hn. rewrite !andb_true_iff in Hn.
    destruct Hn as [[Hty Hhb] Hr]. simpl.
    destruct (IHhb Hhb (bind_opt_a nm (nrm (anx ty hin)))) as [H1 H2].
    apply IHrest; [exact Hr| |]; apply sub_join_lub; assumption.
Qed.

Lemma has_exit_nobc_both :
  (forall c, has_exit c = false -> nobc c = true) /\
  (forall hs, has_exit_h hs = false -> nobc_h hs = true).
Proof.
  apply cmd_hlist_ind; simpl; intros;
    repeat match goal with
           | H : _ || _ = false |- _ => apply orb_false_iff in H as [? ?]
           end;
    repeat match goal with
           | IH : ?P -> _ = true, H : ?P |- _ => rewrite (IH H); clear IH
           end; try reflexivity; discriminate.
Qed.

Lemma noexit_bot c s : has_exit c = false -> sub (brk (anx c s)) bot /\ sub (cnt (anx c s)) bot.
Proof. intros H. apply nobc_bot_both, has_exit_nobc_both, H. Qed.

Lemma abs_bot_absurd p s : sub s bot -> abs p s -> False.
Proof. intros H A. exact (H 0%N _ (A 0%N)). Qed.

Lemma okx_h_nth hs : forall i ty nm hb, hnth hs i = Some (ty, nm, hb) ->
  okx_h hs = true -> okx ty = true /\ has_exit ty = false /\ okx hb = true.
Proof.
  induction hs as [|ty0 nm0 hb0 rest IH]; intros i ty nm hb H Hok; [destruct i; discriminate|].
  simpl in Hok. rewrite !andb_true_iff, negb_true_iff in Hok. destruct Hok as [[[A B] C] D].
  destruct i as [|i]; simpl in H.
  - injection H as <- <- <-. auto.
  - eapply IH; eauto.
Qed.

Lemma has_exit_h_nth hs : forall i ty nm hb, hnth hs i = Some (ty, nm, hb) ->
  has_exit_h hs = false -> has_exit ty = false /\ has_exit hb = false.
Proof.
  induction hs as [|ty0 nm0 hb0 rest IH]; intros i ty nm hb H Hr; [destruct i; discriminate|].
  simpl in Hr. apply orb_false_iff in Hr as [Hr1 Hr3]. apply orb_false_iff in Hr1 as [Hr1 Hr2].
  destruct i as [|i]; simpl in H.
  - injection H as <- <- <-. auto.
  - eapply IH; eauto.
Qed.

Lemma caught_some hs d i : caught hs d = S i -> hnth hs i <> None.
Proof.
  destruct d as [|j]; simpl; [discriminate|].
  destruct (hnth hs j) eqn:E; [|discriminate]. intros H. injection H as <-. rewrite E. discriminate.
Qed.

(* ---- exit-free commands end normally -------------------------------------------------------- *)

Definition nx (res : resX) : Prop := match res with DoneX _ _ o _ => o = XN | _ => True end.

Lemma nx_prepend t r : nx r -> nx (prependX t r).
Proof. destruct r; simpl; auto. Qed.

Lemma nx_thenX r1 k : nx r1 -> (forall p ds, nx (k p ds)) -> nx (thenX r1 k).
Proof. destruct r1 as [p t o ds| |]; simpl; auto. intros -> Hk. apply nx_prepend, Hk. Qed.

Lemma nx_after again rb : nx rb -> (forall p ds, nx (again p ds)) -> nx (after_bodyX again rb).
Proof. destruct rb as [p t o ds| |]; simpl; auto. intros -> Hk. apply nx_prepend, Hk. Qed.

Section NX.
  Variable rec : cmd -> renv -> list nat -> resX.
  Hypothesis Hnx : forall c p ds, has_exit c = false -> nx (rec c p ds).

  Lemma nx_fin f r : has_exit f = false -> nx r -> nx (finX rec f r).
  Proof.
    destruct r as [p t o ds| |]; simpl; auto. intros Hf ->.
    pose proof (Hnx f p ds Hf) as H. destruct (rec f p ds) as [p3 tf o2 ds3| |]; simpl; auto.
    simpl in H. subst o2. reflexivity.
  Qed.

  Lemma nx_dispatch hs i p ds : has_exit_h hs = false -> hnth hs i <> None -> nx (dispatchX rec hs i p ds).
  Proof.
    intros Hh Hn. unfold dispatchX. destruct (hnth hs i) as [[[ty nm] hb]|] eqn:E; [|congruence].
    destruct (has_exit_h_nth _ _ _ _ _ E Hh) as [Hty Hhb].
    apply nx_thenX; [apply Hnx, Hty|]. intros p1 ds1. apply Hnx, Hhb.
  Qed.

  Lemma nx_try_body b rl hs e p ds :
    has_exit b = false -> has_exit_h hs = false -> has_exit e = false -> nx (try_bodyXs rec b rl hs e p ds).
  Proof.
    intros Hb Hh He. unfold try_bodyXs.
    pose proof (Hnx b p ds Hb) as H. destruct (rec b p ds) as [pb tb ob ds1| |]; simpl; auto.
    simpl in H. subst ob.
    destruct rl; [|apply nx_prepend, Hnx, He].
    destruct ds1 as [|d ds2]; simpl; auto.
    destruct (caught hs d) as [|i] eqn:E.
    - apply nx_prepend, Hnx, He.
    - apply nx_prepend, nx_dispatch; [exact Hh|eapply caught_some; exact E].
  Qed.

  Lemma nx_step c p ds : has_exit c = false -> nx (stepXs rec c p ds).
  Proof.
    destruct c as [|a b|d x|r x|a b|t b e|tg b e|rf b rl hs e f|k]; intros Hx; simpl in Hx;
      repeat match goal with
             | H : _ || _ = false |- _ => apply orb_false_iff in H as [? ?]
             end; try discriminate; simpl; auto.
    - apply nx_thenX; [apply Hnx; assumption|]. intros p1 ds1. apply Hnx; assumption.
    - destruct ds as [|[|n] ds']; simpl; auto; apply Hnx; assumption.
    - apply nx_thenX; [apply Hnx; assumption|]. intros p1 ds1.
      destruct ds1 as [|[|n] ds2]; simpl; [exact I|apply Hnx; assumption|].
      apply nx_after; [apply Hnx; assumption|]. intros p2 ds3. apply Hnx. simpl.
      repeat (apply orb_false_iff; split); assumption.
    - destruct ds as [|[|n] ds1]; simpl; [exact I|apply Hnx; assumption|].
      apply nx_thenX; [apply Hnx; assumption|]. intros p1 ds2.
      apply nx_after; [apply Hnx; assumption|]. intros p2 ds3. apply Hnx. simpl.
      repeat (apply orb_false_iff; split); assumption.
    - destruct rf.
      + destruct ds as [|d ds0]; simpl; auto.
        destruct (caught hs d) as [|i] eqn:E.
        * apply nx_fin; [assumption|]. apply nx_try_body; assumption.
        * apply nx_fin; [assumption|]. apply nx_dispatch; [assumption|eapply caught_some; exact E].
      + apply nx_fin; [assumption|]. apply nx_try_body; assumption.
  Qed.
End NX.

Lemma runXs_nx : forall fuel c p ds, has_exit c = false -> nx (runXs fuel c p ds).
Proof.
  induction fuel as [|fuel IH]; intros c p ds H; simpl; [exact I|].
  apply nx_step; [exact IH|exact H].
Qed.

Lemma runXs_skip fuel p ds : runXs fuel Skip p ds = DoneX p [] XN ds \/ runXs fuel Skip p ds = FuelX.
Proof. destruct fuel; simpl; auto. Qed.

(* ---- soundness: the invariant, generalised over the three target environments ------------- *)

Definition goodXE (N B C : aenv) (V : site -> alt -> Prop) (res : resX) : Prop :=
  match res with
  | DoneX p' tr o _ =>
      match o with
      | XN => abs p' N
      | XBrk => abs p' B
      | XCont => abs p' C
      | XRet => True
      | XExc _ => False
      end /\ forall r v, In (r, v) tr -> V r v
  | _ => True
  end.

Lemma goodXE_weaken N B C (V : site -> alt -> Prop) N' B' C' (V' : site -> alt -> Prop) res :
  sub N N' -> sub B B' -> sub C C' -> (forall r v, V r v -> V' r v) ->
  goodXE N B C V res -> goodXE N' B' C' V' res.
Proof.
  destruct res as [p tr o ds| |]; simpl; auto.
  intros HN HB HC HV [A T]. split; [|intros r v H; apply HV, T, H].
  destruct o; try exact A; eapply abs_sub; eauto.
Qed.

Lemma goodXE_prepend N B C (V : site -> alt -> Prop) t res :
  (forall r v, In (r, v) t -> V r v) -> goodXE N B C V res -> goodXE N B C V (prependX t res).
Proof.
  destruct res as [p tr o ds| |]; simpl; auto.
  intros A [P T]. split; [exact P|]. intros r v H. apply in_app_iff in H as [H|H]; eauto.
Qed.

Lemma goodXE_thenX N1 N2 B C (V : site -> alt -> Prop) r1 k :
  goodXE N1 B C V r1 ->
  (forall p1 ds1, abs p1 N1 -> goodXE N2 B C V (k p1 ds1)) ->
  goodXE N2 B C V (thenX r1 k).
Proof.
  destruct r1 as [p1 t1 o1 ds1| |]; simpl; auto.
  intros [A T] Hk.
  destruct o1; simpl; try (split; [exact A|exact T]).
  apply goodXE_prepend; [exact T|apply Hk, A].
Qed.

Lemma goodXE_after_body Nb Bb Cb N2 B2 C2 (V : site -> alt -> Prop) again rb :
  goodXE Nb Bb Cb V rb -> sub Bb N2 ->
  (forall p2 ds3, abs p2 Nb \/ abs p2 Cb -> goodXE N2 B2 C2 V (again p2 ds3)) ->
  goodXE N2 B2 C2 V (after_bodyX again rb).
Proof.
  destruct rb as [p2 tb ob ds3| |]; simpl; auto.
  intros [A T] HB Hk.
  destruct ob; simpl.
  - apply goodXE_prepend; [exact T|apply Hk; left; exact A].
  - split; [exact I|exact T].
  - split; [eapply abs_sub; [exact A|exact HB]|exact T].
  - apply goodXE_prepend; [exact T|apply Hk; right; exact A].
  - destruct A.
Qed.

Section Step.
  Variable rec : cmd -> renv -> list nat -> resX.
  Hypothesis Hrec : forall c p ds s, okx c = true -> abs p s -> goodX c s (rec c p ds).
  Hypothesis Hskip : forall p ds, rec Skip p ds = DoneX p [] XN ds \/ rec Skip p ds = FuelX.
  Hypothesis Hnx : forall c p ds, has_exit c = false -> nx (rec c p ds).

  Lemma rec_good c p ds s N B C (V : site -> alt -> Prop) :
    okx c = true -> abs p s ->
    sub (nrm (anx c s)) N -> sub (brk (anx c s)) B -> sub (cnt (anx c s)) C ->
    (forall r v, In v (seenx c s r) -> V r v) ->
    goodXE N B C V (rec c p ds).
  Proof.
    intros Hok A HN HB HC HV.
    apply (goodXE_weaken (nrm (anx c s)) (brk (anx c s)) (cnt (anx c s)) (fun r v => In v (seenx c s r)));
      try assumption.
    exact (Hrec c p ds s Hok A).
  Qed.

  (* exit-free commands: the break/continue targets are arbitrary *)
  Lemma rec_good_nx c p ds s N B C (V : site -> alt -> Prop) :
    okx c = true -> has_exit c = false -> abs p s ->
    sub (nrm (anx c s)) N ->
    (forall r v, In v (seenx c s r) -> V r v) ->
    goodXE N B C V (rec c p ds).
  Proof.
    intros Hok Hx A HN HV. destruct (noexit_bot c s Hx) as [H1 H2].
    apply rec_good with (s := s); try assumption.
    - eapply sub_trans; [exact H1|apply sub_bot].
    - eapply sub_trans; [exact H2|apply sub_bot].
  Qed.

  Section TryCase.
    Variables (rf rl : bool) (b : cmd) (hs : hlist) (e f : cmd) (s : aenv).
    Hypothesis Hokb : okx b = true.
    Hypothesis Hokh : okx_h hs = true.
    Hypothesis Hoke : okx e = true.
    Hypothesis Hokf : okx f = true.
    Hypothesis Hfin : is_skip f = true \/
                      (has_exit b = false /\ has_exit_h hs = false /\ has_exit e = false).
    Let rb := anx b s.
    Let hin := join s (nrm rb).
    Let re := anx e (nrm rb).
    Let rh := tryH b hs e s.
    Let V := fun r v => In v (seenx (Try rf b rl hs e f) s r).

    Lemma Vb r v : In v (seenx b s r) -> V r v.
    Proof. intros H. unfold V. rewrite seenx_try. apply in_or_app; left; exact H. Qed.
    Lemma Vh i ty nm hb r v : hnth hs i = Some (ty, nm, hb) ->
      In v (seenx ty hin r) \/ In v (seenx hb (bind_opt_a nm (nrm (anx ty hin))) r) -> V r v.
    Proof.
      intros Hn H. unfold V. rewrite seenx_try. apply in_or_app; right. apply in_or_app; left.
      apply (seenx_h_nth hs i ty nm hb hin r Hn). apply in_or_app. exact H.
    Qed.
    Lemma Ve r v : In v (seenx e (nrm rb) r) -> V r v.
    Proof.
      intros H. unfold V. rewrite seenx_try. apply in_or_app; right. apply in_or_app; right.
      apply in_or_app; left; exact H.
    Qed.
    Lemma Vf r v : In v (seenx f (nrm rh) r) -> V r v.
    Proof.
      intros H. unfold V. rewrite seenx_try. apply in_or_app; right. apply in_or_app; right.
      apply in_or_app; right; exact H.
    Qed.

    Lemma acc_rh : sub3 (nrm re, join (brk rb) (brk re), join (cnt rb) (cnt re)) rh.
    Proof. unfold rh, tryH. cbv zeta. apply anx_h_acc. Qed.

    Lemma dispatch_good i p0 ds0 : abs p0 hin -> hnth hs i <> None ->
      goodXE (nrm rh) (brk rh) (cnt rh) V (dispatchX rec hs i p0 ds0).
    Proof.
      intros A Hn. unfold dispatchX. destruct (hnth hs i) as [[[ty nm] hb]|] eqn:E; [|congruence].
      destruct (okx_h_nth _ _ _ _ _ E Hokh) as (Oty & Xty & Ohb).
      assert (Hout : sub3 (anx hb (bind_opt_a nm (nrm (anx ty hin)))) rh).
      { unfold rh, tryH. cbv zeta. eapply anx_h_nth. exact E. }
      destruct Hout as (O1 & O2 & O3).
      apply (goodXE_thenX (nrm (anx ty hin))).
      - apply rec_good_nx with (s := hin); [exact Oty|exact Xty|exact A|apply sub_refl|].
        intros r v H. eapply Vh; [exact E|left; exact H].
      - intros p1 ds1 A1.
        apply rec_good with (s := bind_opt_a nm (nrm (anx ty hin)));
          [exact Ohb|apply abs_bind_opt, A1|exact O1|exact O2|exact O3|].
        intros r v H. eapply Vh; [exact E|right; exact H].
    Qed.

    Lemma try_body_good p ds0 : abs p s ->
      goodXE (nrm rh) (brk rh) (cnt rh) V (try_bodyXs rec b rl hs e p ds0).
    Proof.
      intros A. unfold try_bodyXs.
      pose proof (Hrec b p ds0 s Hokb A) as Hb.
      destruct (rec b p ds0) as [pb tb ob ds1| |]; simpl; auto.
      destruct Hb as [Ab Bb]. fold rb in Ab.
      assert (Btb : forall r v, In (r, v) tb -> V r v) by (intros r v H; apply Vb, Bb, H).
      destruct acc_rh as (R1 & R2 & R3).
      destruct ob.
      - assert (Helse : forall ds2, goodXE (nrm rh) (brk rh) (cnt rh) V (prependX tb (rec e pb ds2))).
        { intros ds2. apply goodXE_prepend; [exact Btb|].
          apply rec_good with (s := nrm rb); [exact Hoke|exact Ab|exact R1| | |apply Ve].
          - eapply sub_trans; [apply sub_join_r|exact R2].
          - eapply sub_trans; [apply sub_join_r|exact R3]. }
        destruct rl; [|apply Helse].
        destruct ds1 as [|d ds2]; [exact I|].
        destruct (caught hs d) as [|i] eqn:E; [apply Helse|].
        apply goodXE_prepend; [exact Btb|]. apply dispatch_good.
        + eapply abs_sub; [exact Ab|apply sub_join_r].
        + eapply caught_some; exact E.
      - split; [exact I|exact Btb].
      - split; [|exact Btb]. eapply abs_sub; [exact Ab|]. eapply sub_trans; [apply sub_join_l|exact R2].
      - split; [|exact Btb]. eapply abs_sub; [exact Ab|]. eapply sub_trans; [apply sub_join_l|exact R3].
      - destruct Ab.
    Qed.

    Lemma fin_good r : is_skip f = true \/ nx r ->
      goodXE (nrm rh) (brk rh) (cnt rh) V r ->
      goodXE (nrm (anx f (nrm rh))) (join (brk rh) (brk (anx f (nrm rh))))
             (join (cnt rh) (cnt (anx f (nrm rh)))) V (finX rec f r).
    Proof.
      destruct r as [p2 t2 o1 ds2| |]; simpl; auto.
      intros Hc [A B]. destruct Hc as [Hs|Hn].
      - apply is_skip_eq in Hs.
        assert (HF : anx f (nrm rh) = (nrm rh, bot, bot)) by (rewrite Hs; reflexivity).
        rewrite HF. pose proof (Hskip p2 ds2) as E. rewrite <- Hs in E.
        destruct E as [E|E]; rewrite E; simpl; [|exact I].
        split; [|intros r v H; rewrite app_nil_r in H; apply B, H].
        destruct o1; try exact A; eapply abs_sub; try exact A; apply sub_join_l.
      - simpl in Hn. subst o1.
        pose proof (Hrec f p2 ds2 (nrm rh) Hokf A) as Hf.
        destruct (rec f p2 ds2) as [p3 tf o2 ds3| |]; simpl; auto.
        destruct Hf as [Af Bf]. split.
        + destruct o2; try exact Af; eapply abs_sub; try exact Af; apply sub_join_r.
        + intros r v H. apply in_app_iff in H as [H|H]; [apply B, H|apply Vf, Bf, H].
    Qed.

    Lemma try_good p ds : abs p s ->
      goodX (Try rf b rl hs e f) s (stepXs rec (Try rf b rl hs e f) p ds).
    Proof.
      intros A.
      change (goodXE (nrm (anx f (nrm rh))) (join (brk rh) (brk (anx f (nrm rh))))
                     (join (cnt rh) (cnt (anx f (nrm rh)))) V
                     (stepXs rec (Try rf b rl hs e f) p ds)).
      assert (Hbody : forall ds0, is_skip f = true \/ nx (try_bodyXs rec b rl hs e p ds0)).
      { intros ds0. destruct Hfin as [Hs|(H1 & H2 & H3)]; [left; exact Hs|right].
        apply nx_try_body; assumption. }
      assert (Hdisp : forall i ds0, hnth hs i <> None -> is_skip f = true \/ nx (dispatchX rec hs i p ds0)).
      { intros i ds0 Hn. destruct Hfin as [Hs|(H1 & H2 & H3)]; [left; exact Hs|right].
        apply nx_dispatch; assumption. }
      simpl stepXs. destruct rf.
      - destruct ds as [|d ds0]; [exact I|].
        destruct (caught hs d) as [|i] eqn:E.
        + apply fin_good; [apply Hbody|apply try_body_good, A].
        + pose proof (caught_some _ _ _ E) as Hn.
          apply fin_good; [apply Hdisp, Hn|apply dispatch_good; [|exact Hn]].
          eapply abs_sub; [exact A|apply sub_join_l].
      - apply fin_good; [apply Hbody|apply try_body_good, A].
    Qed.
  End TryCase.

  Lemma step_good c : forall p ds s, okx c = true -> abs p s -> goodX c s (stepXs rec c p ds).
  Proof.
    destruct c as [|a b|d x|r x|a b|t b e|tg b e|rf b rl hs e f|k]; intros p ds s Hok A;
      simpl in Hok; rewrite ?andb_true_iff, ?negb_true_iff in Hok.
    - (* Skip *) simpl. split; [exact A|intros r v []].
    - (* Seq *)
      destruct Hok as [Oa Ob].
      change (goodXE (nrm (anx b (nrm (anx a s)))) (join (brk (anx a s)) (brk (anx b (nrm (anx a s)))))
                (join (cnt (anx a s)) (cnt (anx b (nrm (anx a s)))))
                (fun r v => In v (seenx a s r ++ seenx b (nrm (anx a s)) r))
                (thenX (rec a p ds) (fun p1 ds1 => rec b p1 ds1))).
      apply (goodXE_thenX (nrm (anx a s))).
      + apply rec_good with (s := s); [exact Oa|exact A|apply sub_refl|apply sub_join_l|apply sub_join_l|].
        intros r v H. apply in_or_app; left; exact H.
      + intros p1 ds1 A1.
        apply rec_good with (s := nrm (anx a s)); [exact Ob|exact A1|apply sub_refl|apply sub_join_r|apply sub_join_r|].
        intros r v H. apply in_or_app; right; exact H.
    - (* Bind *) simpl. split; [apply abs_upd, A|intros r0 v []].
    - (* Read *)
      simpl. split; [exact A|]. intros r0 v [H|[]]. injection H as <- <-.
      rewrite N.eqb_refl. apply A.
    - (* Branch *)
      destruct Hok as [Oa Ob].
      change (goodXE (join (nrm (anx a s)) (nrm (anx b s))) (join (brk (anx a s)) (brk (anx b s)))
                (join (cnt (anx a s)) (cnt (anx b s)))
                (fun r v => In v (seenx a s r ++ seenx b s r))
                (stepX rec (Branch a b) p ds)).
      destruct ds as [|[|n] ds']; [exact I| |].
      + apply rec_good with (s := s); [exact Oa|exact A|apply sub_join_l|apply sub_join_l|apply sub_join_l|].
        intros r v H. apply in_or_app; left; exact H.
      + apply rec_good with (s := s); [exact Ob|exact A|apply sub_join_r|apply sub_join_r|apply sub_join_r|].
        intros r v H. apply in_or_app; right; exact H.
    - (* While *)
      destruct Hok as [[[Ot Xt] Ob] Oe].
      assert (Okw : okx (While t b e) = true).
      { simpl. rewrite Ot, Xt, Ob, Oe. reflexivity. }
      set (H := join s (LF t b s)). set (T := nrm (anx t H)).
      pose (V := fun r v => In v (seenx (While t b e) s r)).
      change (goodXE (join (nrm (anx e T)) (brk (anx b T))) (brk (anx e T)) (cnt (anx e T)) V
                (thenX (rec t p ds) (fun p1 ds1 =>
                   match ds1 with
                   | [] => NoDecX
                   | O :: ds2 => rec e p1 ds2
                   | _ :: ds2 => after_bodyX (fun p2 ds3 => rec (While t b e) p2 ds3) (rec b p1 ds2)
                   end))).
      assert (Vt : forall r v, In v (seenx t H r) -> V r v).
      { intros r v Hv. unfold V. rewrite seenx_while. cbv zeta. apply in_or_app; left; exact Hv. }
      assert (Vb : forall r v, In v (seenx b T r) -> V r v).
      { intros r v Hv. unfold V. rewrite seenx_while. cbv zeta. apply in_or_app; right.
        apply in_or_app; left; exact Hv. }
      assert (Ve : forall r v, In v (seenx e T r) -> V r v).
      { intros r v Hv. unfold V. rewrite seenx_while. cbv zeta. apply in_or_app; right.
        apply in_or_app; right; exact Hv. }
      assert (AH : abs p H) by (eapply abs_sub; [exact A|apply sub_join_l]).
      apply (goodXE_thenX T).
      + apply rec_good_nx with (s := H); [exact Ot|exact Xt|exact AH|apply sub_refl|exact Vt].
      + intros p1 ds1 A1. destruct ds1 as [|[|n] ds2]; [exact I| |].
        * apply rec_good with (s := T); [exact Oe|exact A1|apply sub_join_l|apply sub_refl|apply sub_refl|exact Ve].
        * apply (goodXE_after_body (nrm (anx b T)) (brk (anx b T)) (cnt (anx b T))).
          -- apply rec_good with (s := T); [exact Ob|exact A1|apply sub_refl|apply sub_refl|apply sub_refl|exact Vb].
          -- apply sub_join_r.
          -- intros p2 ds3 A2.
             assert (A2H : abs p2 H).
             { pose proof (LF_head t b s) as HF. cbv zeta in HF. fold H in HF.
               destruct A2 as [A2|A2]; (eapply abs_sub; [exact A2|]);
                 (eapply sub_trans; [|exact HF]); [exact (sub_join_l _ _)|exact (sub_join_r _ _)]. }
             pose proof (while_headx t b e s) as W. cbv zeta in W. fold H in W.
             destruct W as [(W1 & W2 & W3) W4].
             apply (goodXE_weaken (nrm (anx (While t b e) H)) (brk (anx (While t b e) H))
                      (cnt (anx (While t b e) H)) (fun r v => In v (seenx (While t b e) H r)));
               [exact W1|exact W2|exact W3|intros r v Hv; apply W4, Hv|].
             exact (Hrec (While t b e) p2 ds3 H Okw A2H).
    - (* For *)
      destruct Hok as [[[Ot Xt] Ob] Oe].
      assert (Okw : okx (For tg b e) = true).
      { simpl. rewrite Ot, Xt, Ob, Oe. reflexivity. }
      set (H := join s (LF tg b s)). set (T := nrm (anx tg H)). set (E := join s (LF tg b H)).
      pose (V := fun r v => In v (seenx (For tg b e) s r)).
      change (goodXE (join (nrm (anx e E)) (brk (anx b T))) (brk (anx e E)) (cnt (anx e E)) V
                (stepX rec (For tg b e) p ds)).
      assert (Vt : forall r v, In v (seenx tg H r) -> V r v).
      { intros r v Hv. unfold V. rewrite seenx_for. cbv zeta. apply in_or_app; left; exact Hv. }
      assert (Vb : forall r v, In v (seenx b T r) -> V r v).
      { intros r v Hv. unfold V. rewrite seenx_for. cbv zeta. apply in_or_app; right.
        apply in_or_app; left; exact Hv. }
      assert (Ve : forall r v, In v (seenx e E r) -> V r v).
      { intros r v Hv. unfold V. rewrite seenx_for. cbv zeta. apply in_or_app; right.
        apply in_or_app; right; exact Hv. }
      assert (AH : abs p H) by (eapply abs_sub; [exact A|apply sub_join_l]).
      destruct ds as [|[|n] ds1]; [exact I| |].
      + apply rec_good with (s := E);
          [exact Oe|eapply abs_sub; [exact A|apply sub_join_l]|apply sub_join_l|apply sub_refl|apply sub_refl|exact Ve].
      + change (goodXE (join (nrm (anx e E)) (brk (anx b T))) (brk (anx e E)) (cnt (anx e E)) V
                  (thenX (rec tg p ds1) (fun p1 ds2 =>
                     after_bodyX (fun p2 ds3 => rec (For tg b e) p2 ds3) (rec b p1 ds2)))).
        apply (goodXE_thenX T).
        * apply rec_good_nx with (s := H); [exact Ot|exact Xt|exact AH|apply sub_refl|exact Vt].
        * intros p1 ds2 A1.
          apply (goodXE_after_body (nrm (anx b T)) (brk (anx b T)) (cnt (anx b T))).
          -- apply rec_good with (s := T); [exact Ob|exact A1|apply sub_refl|apply sub_refl|apply sub_refl|exact Vb].
          -- apply sub_join_r.
          -- intros p2 ds3 A2.
             assert (A2H : abs p2 H).
             { pose proof (LF_head tg b s) as HF. cbv zeta in HF. fold H in HF.
               destruct A2 as [A2|A2]; (eapply abs_sub; [exact A2|]);
                 (eapply sub_trans; [|exact HF]); [exact (sub_join_l _ _)|exact (sub_join_r _ _)]. }
             pose proof (for_headx tg b e s) as W. cbv zeta in W. fold H in W.
             destruct W as [(W1 & W2 & W3) W4].
             apply (goodXE_weaken (nrm (anx (For tg b e) H)) (brk (anx (For tg b e) H))
                      (cnt (anx (For tg b e) H)) (fun r v => In v (seenx (For tg b e) H r)));
               [exact W1|exact W2|exact W3|intros r v Hv; apply W4, Hv|].
             exact (Hrec (For tg b e) p2 ds3 H Okw A2H).
    - (* Try *)
      destruct Hok as [[[[[Ob Oh] Oe] Of] Xf] Hfin].
      apply try_good; try assumption.
      apply orb_true_iff in Hfin as [Hs|Hn]; [left; exact Hs|right].
      apply negb_true_iff in Hn. apply orb_false_iff in Hn as [Hn H3]. apply orb_false_iff in Hn as [H1 H2].
      auto.
    - (* Exit *)
      destruct k as [| | |i]; [| | |discriminate Hok]; simpl; (split; [|intros r v []]).
      + exact I.
      + exact A.
      + exact A.
  Qed.
End Step.

Theorem soundx : forall fuel c p ds s, okx c = true -> abs p s -> goodX c s (runXs fuel c p ds).
Proof.
  induction fuel as [|fuel IH]; intros c p ds s Hok A; [exact I|].
  change (goodX c s (stepXs (runXs fuel) c p ds)).
  apply step_good; [exact IH|apply runXs_skip|apply runXs_nx|exact Hok|exact A].
Qed.

(* ---- without break/continue the analysis is the one of Model/Reach.v ------------------------ *)

Definition eqs (s t : aenv) : Prop := sub s t /\ sub t s.
Definition eql {A} (l m : list A) : Prop := subl l m /\ subl m l.

Lemma eqs_join a a' b b' : eqs a a' -> eqs b b' -> eqs (join a b) (join a' b').
Proof. intros [A1 A2] [B1 B2]. split; apply join_mono; assumption. Qed.

Lemma eqs_join_bot a a' c : eqs a a' -> sub c bot -> eqs (join a c) a'.
Proof.
  intros [A1 A2] Hc. split.
  - apply sub_join_lub; [exact A1|]. eapply sub_trans; [exact Hc|apply sub_bot].
  - eapply sub_trans; [exact A2|apply sub_join_l].
Qed.

Lemma eqs_bind_opt nm s t : eqs s t -> eqs (bind_opt_a nm s) (bind_opt_a nm t).
Proof. intros [A B]. split; apply bind_opt_mono; assumption. Qed.

Lemma eql_refl {A} (l : list A) : eql l l.
Proof. split; apply subl_refl. Qed.

Lemma eql_app {A} (l l' m m' : list A) : eql l l' -> eql m m' -> eql (l ++ m) (l' ++ m').
Proof. intros [A1 A2] [B1 B2]. split; apply subl_app; assumption. Qed.

Lemma anx_nobc_both :
  (forall c, nobc c = true -> forall s t, eqs s t ->
     eqs (nrm (anx c s)) (an c t) /\ forall r, eql (seenx c s r) (seen c t r)) /\
  (forall hs, nobc_h hs = true -> forall hin hin' acc acc', eqs hin hin' -> eqs (nrm acc) acc' ->
     eqs (nrm (anx_h hs hin acc)) (an_h hs hin' acc') /\
     forall r, eql (seenx_h hs hin r) (seen_h hs hin' r)).
Proof.
  apply cmd_hlist_ind.
  - (* Skip *) intros _ s t H. split; [exact H|intros r; apply eql_refl].
  - (* Seq *) intros a IHa b IHb Hn s t H. simpl in Hn. apply andb_true_iff in Hn as [Ha Hb].
    destruct (IHa Ha s t H) as [A1 A2]. destruct (IHb Hb _ _ A1) as [B1 B2].
    split; [exact B1|]. intros r. exact (eql_app _ _ _ _ (A2 r) (B2 r)).
  - (* Bind *) intros d x _ s t H. split; [|intros r; apply eql_refl].
    exact (eqs_bind_opt (Some (d, x)) s t H).
  - (* Read *) intros r0 x _ s t H. split; [exact H|]. intros r. simpl.
    destruct (N.eqb r r0); [|apply eql_refl]. destruct H as [H1 H2]. split; intros a; [apply H1|apply H2].
  - (* Branch *) intros a IHa b IHb Hn s t H. simpl in Hn. apply andb_true_iff in Hn as [Ha Hb].
    destruct (IHa Ha s t H) as [A1 A2]. destruct (IHb Hb s t H) as [B1 B2].
    split; [exact (eqs_join _ _ _ _ A1 B1)|]. intros r. exact (eql_app _ _ _ _ (A2 r) (B2 r)).
  - (* While *) intros tt IHt b IHb e IHe Hn s t H. simpl in Hn. rewrite !andb_true_iff in Hn.
    destruct Hn as [[Ht Hb] He].
    destruct (IHt Ht s t H) as [T1 _]. destruct (IHb Hb _ _ T1) as [B1 _].
    assert (HH : eqs (join s (LF tt b s)) (join t (an b (an tt t)))).
    { apply eqs_join; [exact H|]. unfold LF. apply eqs_join_bot; [exact B1|]. apply nobc_bot_both, Hb. }
    destruct (IHt Ht _ _ HH) as [T2 T2s]. destruct (IHb Hb _ _ T2) as [B2 B2s].
    destruct (IHe He _ _ T2) as [E2 E2s].
    split.
    + rewrite anx_while. cbv zeta.
      refine (eqs_join_bot _ _ _ E2 _). apply nobc_bot_both, Hb.
    + intros r. rewrite seenx_while. cbv zeta.
      exact (eql_app _ _ _ _ (T2s r) (eql_app _ _ _ _ (B2s r) (E2s r))).
  - (* For *) intros tg IHt b IHb e IHe Hn s t H. simpl in Hn. rewrite !andb_true_iff in Hn.
    destruct Hn as [[Ht Hb] He].
    destruct (IHt Ht s t H) as [T1 _]. destruct (IHb Hb _ _ T1) as [B1 _].
    assert (HH : eqs (join s (LF tg b s)) (join t (an b (an tg t)))).
    { apply eqs_join; [exact H|]. unfold LF. apply eqs_join_bot; [exact B1|]. apply nobc_bot_both, Hb. }
    destruct (IHt Ht _ _ HH) as [T2 T2s]. destruct (IHb Hb _ _ T2) as [B2 B2s].
    assert (HE : eqs (join s (LF tg b (join s (LF tg b s))))
                     (join t (an b (an tg (join t (an b (an tg t))))))).
    { apply eqs_join; [exact H|]. unfold LF at 1. apply eqs_join_bot; [exact B2|]. apply nobc_bot_both, Hb. }
    destruct (IHe He _ _ HE) as [E2 E2s].
    split.
    + rewrite anx_for. cbv zeta.
      refine (eqs_join_bot _ _ _ E2 _). apply nobc_bot_both, Hb.
    + intros r. rewrite seenx_for. cbv zeta.
      exact (eql_app _ _ _ _ (T2s r) (eql_app _ _ _ _ (B2s r) (E2s r))).
  - (* Try *) intros rf b IHb rl hs IHhs e IHe f IHf Hn s t H. simpl in Hn. rewrite !andb_true_iff in Hn.
    destruct Hn as [[[Hb Hh] He] Hf].
    destruct (IHb Hb s t H) as [B1 B1s]. destruct (IHe He _ _ B1) as [E1 E1s].
    destruct (IHhs Hh (join s (nrm (anx b s))) (join t (an b t))
                (nrm (anx e (nrm (anx b s))),
                 join (brk (anx b s)) (brk (anx e (nrm (anx b s)))),
                 join (cnt (anx b s)) (cnt (anx e (nrm (anx b s)))))
                (an e (an b t)) (eqs_join _ _ _ _ H B1) E1) as [H1 H1s].
    destruct (IHf Hf _ _ H1) as [F1 F1s].
    split; [exact F1|]. intros r. rewrite seenx_try.
    exact (eql_app _ _ _ _ (B1s r) (eql_app _ _ _ _ (H1s r) (eql_app _ _ _ _ (E1s r) (F1s r)))).
  - (* Exit *) intros [| | |i] Hn s t H; try discriminate Hn; (split; [exact H|intros r; apply eql_refl]).
  - (* HNil *) intros _ hin hin' acc acc' _ Ha. split; [exact Ha|intros r; apply eql_refl].
  - (* HCons *) intros ty IHty nm hb IHhb rest IHrest Hn hin hin' acc acc' Hh Ha.
    simpl in Hn. rewrite !andb_true_iff in Hn. destruct Hn as [[Hty Hhb] Hr].
    destruct (IHty Hty _ _ Hh) as [T1 T1s].
    destruct (IHhb Hhb _ _ (eqs_bind_opt nm _ _ T1)) as [B1 B1s].
    destruct (IHrest Hr hin hin'
                (join (nrm acc) (nrm (anx hb (bind_opt_a nm (nrm (anx ty hin))))),
                 join (brk acc) (brk (anx hb (bind_opt_a nm (nrm (anx ty hin))))),
                 join (cnt acc) (cnt (anx hb (bind_opt_a nm (nrm (anx ty hin))))))
                (join acc' (an hb (bind_opt_a nm (an ty hin')))) Hh (eqs_join _ _ _ _ Ha B1)) as [R1 R1s].
    split; [exact R1|]. intros r.
    exact (eql_app _ _ _ _ (T1s r) (eql_app _ _ _ _ (B1s r) (R1s r))).
Qed.

Theorem anx_nobc : forall c s, nobc c = true ->
  (sub (nrm (anx c s)) (an c s) /\ sub (an c s) (nrm (anx c s))) /\
  (forall r, subl (seenx c s r) (seen c s r) /\ subl (seen c s r) (seenx c s r)).
Proof.
  intros c s Hn.
  exact (proj1 anx_nobc_both c Hn s s (conj (sub_refl s) (sub_refl s))).
Qed.

Corollary seenx_nobc c s r : nobc c = true ->
  subl (seenx c s r) (seen c s r) /\ subl (seen c s r) (seenx c s r).
Proof. intros Hn. apply (anx_nobc c s Hn). Qed.

Corollary brk_cnt_nobc c s : nobc c = true -> sub (brk (anx c s)) bot /\ sub (cnt (anx c s)) bot.
Proof. intros Hn. apply nobc_bot_both, Hn. Qed.

(* ---- trace sites are read sites --------------------------------------------------------------- *)

Definition trin (L : list site) (res : resX) : Prop :=
  match res with DoneX _ tr _ _ => forall r v, In (r, v) tr -> In r L | _ => True end.

Lemma trin_weaken L L' res : incl L L' -> trin L res -> trin L' res.
Proof. destruct res as [p tr o ds| |]; simpl; auto. intros Hi T r v H. apply Hi, (T r v H). Qed.

Lemma trin_prepend L t res :
  (forall r v, In (r, v) t -> In r L) -> trin L res -> trin L (prependX t res).
Proof.
  destruct res as [p tr o ds| |]; simpl; auto.
  intros A T r v H. apply in_app_iff in H as [H|H]; eauto.
Qed.

Lemma trin_thenX L r1 k : trin L r1 -> (forall p ds, trin L (k p ds)) -> trin L (thenX r1 k).
Proof.
  destruct r1 as [p t o ds| |]; simpl; auto. intros T Hk.
  destruct o; simpl; try exact T. apply trin_prepend; [exact T|apply Hk].
Qed.

Lemma trin_after L again rb :
  trin L rb -> (forall p ds, trin L (again p ds)) -> trin L (after_bodyX again rb).
Proof.
  destruct rb as [p t o ds| |]; simpl; auto. intros T Hk.
  destruct o; simpl; try exact T; (apply trin_prepend; [exact T|apply Hk]).
Qed.

Ltac inc := let x := fresh "x" in let Hx := fresh "Hx" in
            intros x Hx; simpl; rewrite ?in_app_iff; tauto.

Section TR.
  Variable rec : cmd -> renv -> list nat -> resX.
  Hypothesis Htr : forall c p ds, trin (map fst (reads c)) (rec c p ds).

  Lemma trin_rec c p ds L : incl (map fst (reads c)) L -> trin L (rec c p ds).
  Proof. intros Hi. eapply trin_weaken; [exact Hi|apply Htr]. Qed.

  Lemma trin_fin L f r : incl (map fst (reads f)) L -> trin L r -> trin L (finX rec f r).
  Proof.
    destruct r as [p t o ds| |]; simpl; auto. intros Hi T.
    pose proof (trin_rec f p ds L Hi) as Hf.
    destruct (rec f p ds) as [p3 tf o2 ds3| |]; simpl; auto.
    intros r v H. apply in_app_iff in H as [H|H]; [apply (T r v H)|apply (Hf r v H)].
  Qed.

  Lemma trin_dispatch L hs i p ds : incl (map fst (reads_h hs)) L -> trin L (dispatchX rec hs i p ds).
  Proof.
    intros Hi. unfold dispatchX. destruct (hnth hs i) as [[[ty nm] hb]|] eqn:E.
    - pose proof (reads_h_nth hs i ty nm hb E) as Hn.
      apply trin_thenX.
      + apply trin_rec. eapply incl_tran; [|exact Hi]. apply incl_map.
        intros rx Hx. apply Hn. apply in_or_app; left; exact Hx.
      + intros p1 ds1. apply trin_rec. eapply incl_tran; [|exact Hi]. apply incl_map.
        intros rx Hx. apply Hn. apply in_or_app; right; exact Hx.
    - simpl. intros r v [].
  Qed.

  Lemma trin_try_body L b rl hs e p ds :
    incl (map fst (reads b)) L -> incl (map fst (reads_h hs)) L -> incl (map fst (reads e)) L ->
    trin L (try_bodyXs rec b rl hs e p ds).
  Proof.
    intros Ib Ih Ie. unfold try_bodyXs.
    pose proof (trin_rec b p ds L Ib) as Hb.
    destruct (rec b p ds) as [pb tb ob ds1| |]; simpl; auto.
    destruct ob; try exact Hb.
    - destruct rl; [|apply trin_prepend; [exact Hb|apply trin_rec, Ie]].
      destruct ds1 as [|d ds2]; [exact I|].
      destruct (caught hs d) as [|i]; (apply trin_prepend; [exact Hb|]);
        [apply trin_rec, Ie|apply trin_dispatch, Ih].
    - apply trin_prepend; [exact Hb|apply trin_dispatch, Ih].
  Qed.

  Lemma trin_step c p ds : trin (map fst (reads c)) (stepXs rec c p ds).
  Proof.
    destruct c as [|a b|d x|r x|a b|t b e|tg b e|rf b rl hs e f|k].
    - simpl. intros r v [].
    - simpl stepXs. apply trin_thenX; [|intros p1 ds1]; apply trin_rec, incl_map; inc.
    - simpl. intros r v [].
    - simpl. intros r0 v [H|[]]. injection H as <- _. left; reflexivity.
    - simpl stepXs. destruct ds as [|[|n] ds']; [exact I| |]; apply trin_rec, incl_map; inc.
    - set (L := map fst (reads (While t b e))).
      assert (It : incl (map fst (reads t)) L) by (apply incl_map; inc).
      assert (Ib : incl (map fst (reads b)) L) by (apply incl_map; inc).
      assert (Ie : incl (map fst (reads e)) L) by (apply incl_map; inc).
      simpl stepXs. apply trin_thenX; [apply trin_rec, It|]. intros p1 ds1.
      destruct ds1 as [|[|n] ds2]; [exact I|apply trin_rec, Ie|].
      apply trin_after; [apply trin_rec, Ib|]. intros p2 ds3. apply Htr.
    - set (L := map fst (reads (For tg b e))).
      assert (It : incl (map fst (reads tg)) L) by (apply incl_map; inc).
      assert (Ib : incl (map fst (reads b)) L) by (apply incl_map; inc).
      assert (Ie : incl (map fst (reads e)) L) by (apply incl_map; inc).
      simpl stepXs. destruct ds as [|[|n] ds1]; [exact I|apply trin_rec, Ie|].
      apply trin_thenX; [apply trin_rec, It|]. intros p1 ds2.
      apply trin_after; [apply trin_rec, Ib|]. intros p2 ds3. apply Htr.
    - set (L := map fst (reads (Try rf b rl hs e f))).
      assert (Ib : incl (map fst (reads b)) L) by (apply incl_map; inc).
      assert (Ih : incl (map fst (reads_h hs)) L) by (apply incl_map; inc).
      assert (Ie : incl (map fst (reads e)) L) by (apply incl_map; inc).
      assert (If : incl (map fst (reads f)) L) by (apply incl_map; inc).
      simpl stepXs. destruct rf.
      + destruct ds as [|d ds0]; [exact I|].
        destruct (caught hs d) as [|i]; (apply trin_fin; [exact If|]);
          [apply trin_try_body; assumption|apply trin_dispatch, Ih].
      + apply trin_fin; [exact If|]. apply trin_try_body; assumption.
    - simpl. intros r v [].
  Qed.
End TR.

Lemma runXs_trin : forall fuel c p ds, trin (map fst (reads c)) (runXs fuel c p ds).
Proof.
  induction fuel as [|fuel IH]; intros c p ds; [exact I|].
  change (trin (map fst (reads c)) (stepXs (runXs fuel) c p ds)).
  apply trin_step, IH.
Qed.

Lemma runXs_trace_reads : forall fuel c p ds p' tr o ds',
  runXs fuel c p ds = DoneX p' tr o ds' -> forall r v, In (r, v) tr -> In r (map fst (reads c)).
Proof.
  intros fuel c p ds p' tr o ds' Hr r v Hin.
  pose proof (runXs_trin fuel c p ds) as T. rewrite Hr in T. exact (T r v Hin).
Qed.

(* ---- C02 with loop exits, all in one ----------------------------------------------------------- *)

Theorem c02x_sound : forall fuel c ds p' tr o ds' r d,
  okx c = true -> runXs fuel c renv0 ds = DoneX p' tr o ds' -> In (r, Some d) tr ->
  In (Some d) (seenx c aenv0 r) /\ e02x c aenv0 r = false /\ usedx c aenv0 d = true.
Proof.
  intros fuel c ds p' tr o ds' r d Hok Hr Hin.
  pose proof (soundx fuel c renv0 ds aenv0 Hok abs0) as G. rewrite Hr in G.
  destruct G as [_ B]. specialize (B r (Some d) Hin).
  split; [exact B|]. split.
  - unfold e02x. apply negb_false_iff. apply existsb_exists. exists (Some d). split; [exact B|reflexivity].
  - pose proof (runXs_trace_reads _ _ _ _ _ _ _ _ Hr r (Some d) Hin) as Hrd.
    apply in_map_iff in Hrd as [rx [E Hrx]].
    unfold usedx. apply existsb_exists. exists rx. split; [exact Hrx|].
    rewrite E. apply existsb_exists. exists (Some d). split; [exact B|apply alt_eqb_refl].
Qed.

(* an unused-binding report is never about a binding some execution reads *)
Corollary no_false_unusedx c d :
  okx c = true -> In d (unused_sitesx c aenv0) ->
  forall fuel ds p' tr o ds' r, runXs fuel c renv0 ds = DoneX p' tr o ds' -> ~ In (r, Some d) tr.
Proof.
  intros Hok Hu fuel ds p' tr o ds' r Hr Hin. unfold unused_sitesx in Hu.
  apply filter_In in Hu as [_ Hu].
  destruct (c02x_sound _ _ _ _ _ _ _ _ _ Hok Hr Hin) as (_ & _ & U). rewrite U in Hu. discriminate.
Qed.

(* ---- non-vacuity -------------------------------------------------------------------------------- *)

Definition ex_brk : cmd :=
  (Seq (Bind 1 0)
       (Seq (For (Bind 2 1) (Seq (Bind 3 0) (Seq (Branch (Exit KBrk) Skip) (Bind 4 0))) Skip)
            (Read 10 0)))%N.

Example ex_brk_okx : okx ex_brk = true.
Proof. reflexivity. Qed.

(* first trip of the loop, break taken: the read after the loop obtains the binding at site 3 *)
Example ex_brk_run :
  match runXs 50 ex_brk renv0 [1; 0] with
  | DoneX _ tr o ds => tr = [(10%N, Some 3%N)] /\ o = XN /\ ds = []
  | _ => False
  end.
Proof. vm_compute. auto. Qed.

Example ex_brk_seenx : In (Some 3%N) (seenx ex_brk aenv0 10%N) /\ existsb (alt_eqb (Some 3%N)) (seenx ex_brk aenv0 10%N) = true.
Proof. vm_compute. tauto. Qed.

(* the model without break edges misses it *)
Example ex_brk_seen_old : ~ In (Some 3%N) (seen ex_brk aenv0 10%N) /\ existsb (alt_eqb (Some 3%N)) (seen ex_brk aenv0 10%N) = false.
Proof. vm_compute. split; [|reflexivity]. intuition discriminate. Qed.

Example ex_brk_c02x : In (Some 3%N) (seenx ex_brk aenv0 10%N) /\ e02x ex_brk aenv0 10%N = false /\ usedx ex_brk aenv0 3%N = true.
Proof.
  destruct (runXs 50 ex_brk renv0 [1; 0]) as [p' tr o ds'| |] eqn:E; pose proof ex_brk_run as R; rewrite E in R;
    try contradiction.
  destruct R as (Htr & _ & _).
  apply (c02x_sound 50 ex_brk [1; 0] p' tr o ds' 10%N 3%N ex_brk_okx E). rewrite Htr. left; reflexivity.
Qed.

(* a continue: the binding at site 3 flows round the loop to the read at the top of the body,
   the binding at site 4 (behind the continue on this path) does too, via the fall-through path *)
Definition ex_cont : cmd :=
  (Seq (Bind 1 0)
       (While Skip (Seq (Read 10 0) (Seq (Bind 3 0) (Seq (Branch (Exit KCont) Skip) (Bind 4 0)))) Skip))%N.

Example ex_cont_okx : okx ex_cont = true.
Proof. reflexivity. Qed.

Example ex_cont_run :
  match runXs 50 ex_cont renv0 [1; 0; 1; 1; 1; 0; 0] with
  | DoneX _ tr o ds => tr = [(10%N, Some 1%N); (10%N, Some 3%N); (10%N, Some 4%N)] /\ o = XN /\ ds = []
  | _ => False
  end.
Proof. vm_compute. auto. Qed.

Example ex_cont_seenx : forall d, In d [1%N; 3%N; 4%N] -> In (Some d) (seenx ex_cont aenv0 10%N).
Proof. intros d H. vm_compute. simpl in H. intuition (subst; auto). Qed.

Example ex_cont_seen_old : ~ In (Some 3%N) (seen ex_cont aenv0 10%N).
Proof. vm_compute. intuition discriminate. Qed.

Print Assumptions soundx.
Print Assumptions anx_nobc.
Print Assumptions c02x_sound.
