(* Proofs about Model/Attrs.v: supp's attribute tables (IMPL) agree with Python's lookup (REF). *)
From Coq Require Import List Bool Arith NArith Lia.
Import ListNotations.
From Supp Require Import Model.Attrs.

(* ---------------------------------------------------------------------------------------------- *)
(* tabulate: the fixpoint equation                                                                  *)
(* ---------------------------------------------------------------------------------------------- *)
Section BuildFacts.
  Context {R : Type} (dflt : R) (f : (cid -> R) -> cid -> cls -> R).

  Lemma results_length : forall Trev, length (results dflt f Trev) = length Trev.
  Proof. induction Trev as [|k r IH]; simpl; [reflexivity | now rewrite IH]. Qed.

  Lemma tabulate_out : forall T c, length T <= c -> tabulate dflt f T c = dflt.
  Proof.
    intros T c H. unfold tabulate, at_id. rewrite results_length, rev_length.
    destruct (Nat.ltb_spec c (length T)); [lia | reflexivity].
  Qed.

  Lemma tabulate_snoc_last : forall T k,
    tabulate dflt f (T ++ [k]) (length T) = f (tabulate dflt f T) (length T) k.
  Proof.
    intros T k. unfold tabulate. rewrite rev_app_distr. simpl.
    unfold at_id at 1. simpl. rewrite results_length, rev_length.
    destruct (Nat.ltb_spec (length T) (S (length T))); [|lia].
    replace (length T - 0 - length T) with 0 by lia. reflexivity.
  Qed.

  Lemma tabulate_snoc_old : forall T k c, c < length T ->
    tabulate dflt f (T ++ [k]) c = tabulate dflt f T c.
  Proof.
    intros T k c H. unfold tabulate. rewrite rev_app_distr. simpl.
    unfold at_id. simpl. rewrite results_length, rev_length.
    destruct (Nat.ltb_spec c (S (length T))); [|lia].
    destruct (Nat.ltb_spec c (length T)); [|lia].
    replace (length T - 0 - c) with (S (length T - 1 - c)) by lia. reflexivity.
  Qed.

  Lemma tabulate_app_old : forall B A c, c < length A ->
    tabulate dflt f (A ++ B) c = tabulate dflt f A c.
  Proof.
    induction B as [|k B IH] using rev_ind; intros A c H.
    - now rewrite app_nil_r.
    - rewrite app_assoc. rewrite tabulate_snoc_old by (rewrite app_length; lia). now apply IH.
  Qed.

  Lemma tabulate_firstn : forall T c b, c <= length T ->
    tabulate dflt f (firstn c T) b = if Nat.ltb b c then tabulate dflt f T b else dflt.
  Proof.
    intros T c b H. destruct (Nat.ltb_spec b c) as [Hb|Hb].
    - rewrite <- (firstn_skipn c T) at 2. apply eq_sym, tabulate_app_old.
      rewrite firstn_length. lia.
    - apply tabulate_out. rewrite firstn_length. lia.
  Qed.

  Lemma tabulate_eq : forall T c, c < length T ->
    tabulate dflt f T c = f (tabulate dflt f (firstn c T)) c (row T c).
  Proof.
    intros T c H.
    assert (E : T = (firstn c T ++ [row T c]) ++ skipn (S c) T).
    { rewrite <- app_assoc. simpl. rewrite <- (firstn_skipn c T) at 1. f_equal.
      unfold row. clear -H. revert c H. induction T as [|a T IH]; intros c H; simpl in *; [lia|].
      destruct c; simpl; [reflexivity|]. apply IH. lia. }
    rewrite E at 1. rewrite tabulate_app_old by (rewrite app_length, firstn_length; simpl; lia).
    assert (L : length (firstn c T) = c) by (rewrite firstn_length; lia).
    pose proof (tabulate_snoc_last (firstn c T) (row T c)) as S. rewrite L in S. exact S.
  Qed.
End BuildFacts.

(* ---------------------------------------------------------------------------------------------- *)
(* dictionaries                                                                                     *)
(* ---------------------------------------------------------------------------------------------- *)
Section DictFacts.
  Context {V : Type}.
  Implicit Types d e : dict V.

  Lemma get_app : forall x d e,
    get x (d ++ e) = match get x d with Some v => Some v | None => get x e end.
  Proof.
    induction d as [|[y v] d IH]; intros e; simpl; [reflexivity|].
    destruct (N.eqb x y); [reflexivity | apply IH].
  Qed.

  Lemma get_in_keys : forall x d, get x d <> None <-> In x (keys d).
  Proof.
    induction d as [|[y v] d IH]; simpl.
    - split; [intros H; now elim H | intros []].
    - destruct (N.eqb_spec x y) as [->|Hn].
      + split; [auto | intros _; discriminate].
      + rewrite IH. split; [auto | intros [E|E]; [now elim Hn | exact E]].
  Qed.

  Lemma has_in_keys : forall x d, has x d = true <-> In x (keys d).
  Proof.
    intros x d. unfold has. rewrite existsb_exists. unfold keys. rewrite in_map_iff. split.
    - intros [p [Hin E]]. apply N.eqb_eq in E. exists p. now split.
    - intros [p [E Hin]]. exists p. split; [exact Hin | now apply N.eqb_eq].
  Qed.

  Lemma keys_rev : forall x d, In x (keys (rev d)) <-> In x (keys d).
  Proof. intros. unfold keys. rewrite map_rev, <- in_rev. tauto. Qed.

  Lemma has_get_dict_of : forall x (l : list (name * V)),
    has x l = true <-> get x (dict_of l) <> None.
  Proof. intros. rewrite has_in_keys, get_in_keys. unfold dict_of. now rewrite keys_rev. Qed.

  Lemma fold_update : forall (rec : cid -> dict V) bs,
    fold_left (fun attrs b => update attrs (rec b)) (rev bs) [] = flat_map rec bs.
  Proof.
    intros rec bs. induction bs as [|b bs IH]; simpl; [reflexivity|].
    rewrite fold_left_app. simpl. now rewrite IH.
  Qed.
End DictFacts.

Lemma get_map : forall {A B} (g : A -> B) x (d : dict A),
  get x (map (fun p => (fst p, g (snd p))) d) = option_map g (get x d).
Proof.
  induction d as [|[y v] d IH]; simpl; [reflexivity|].
  destruct (N.eqb x y); [reflexivity | exact IH].
Qed.

Lemma sites_of_nonempty : forall x l, has x l = true <-> sites_of x l <> [].
Proof.
  intros x l. unfold has, sites_of. induction l as [|[y s] l IH]; simpl.
  - split; [discriminate | intros H; now elim H].
  - destruct (N.eqb x y); simpl; [split; [discriminate | reflexivity] | exact IH].
Qed.

Lemma get_group : forall x l,
  get x (group l) = if has x l then Some (sites_of x l) else None.
Proof.
  intros x l. unfold group.
  assert (G : forall ks, get x (map (fun y => (y, sites_of y l)) ks) =
                         if existsb (N.eqb x) ks then Some (sites_of x l) else None).
  { induction ks as [|y ks IH]; simpl; [reflexivity|].
    destruct (N.eqb_spec x y) as [->|Hn]; simpl; [reflexivity | exact IH]. }
  rewrite G. unfold has, keys.
  replace (existsb (N.eqb x) (map fst l)) with (existsb (fun p : name * site => N.eqb x (fst p)) l);
    [reflexivity|].
  clear G. induction l as [|p l IH]; [reflexivity|].
  cbn [existsb map]. f_equal. exact IH.
Qed.

(* ---------------------------------------------------------------------------------------------- *)
(* lists of class ids                                                                               *)
(* ---------------------------------------------------------------------------------------------- *)
Lemma memb_In : forall x l, memb x l = true <-> In x l.
Proof.
  induction l as [|y l IH]; simpl; [split; [discriminate | intros []]|].
  rewrite orb_true_iff, IH, Nat.eqb_eq. split; intros [H|H]; auto.
Qed.

Lemma dedup_acc_In : forall l seen x, In x (dedup_acc seen l) <-> In x l /\ ~ In x seen.
Proof.
  induction l as [|y l IH]; intros seen x; simpl; [tauto|].
  destruct (memb y seen) eqn:M.
  - apply memb_In in M. rewrite IH. split; [tauto|]. intros [[->|H] N]; [now elim N | tauto].
  - assert (N : ~ In y seen) by (rewrite <- memb_In, M; discriminate).
    simpl. rewrite IH. simpl. split.
    + intros [->|[H1 H2]]; [tauto|]. split; [tauto|]. intros H. apply H2. now right.
    + intros [[->|H1] H2]; [now left|]. destruct (Nat.eq_dec y x) as [->|Hne]; [now left|].
      right. split; [exact H1|]. intros [E|E]; [now elim Hne | now elim H2].
Qed.

Lemma dedup_In : forall l x, In x (dedup l) <-> In x l.
Proof. intros. unfold dedup. rewrite dedup_acc_In. simpl. tauto. Qed.

Lemma nodupb_NoDup : forall l, nodupb l = true <-> NoDup l.
Proof.
  induction l as [|x l IH]; simpl; [split; [constructor | reflexivity]|].
  rewrite andb_true_iff, negb_true_iff, IH. split.
  - intros [M N]. constructor; [|exact N]. rewrite <- memb_In, M. discriminate.
  - intros H. inversion H as [|? ? H1 H2]; subst. split; [|exact H2].
    destruct (memb x l) eqn:M; [|reflexivity]. apply memb_In in M. now elim H1.
Qed.

Lemma dedup_acc_id : forall l seen, NoDup l -> (forall x, In x l -> ~ In x seen) ->
  dedup_acc seen l = l.
Proof.
  induction l as [|y l IH]; intros seen ND D; simpl; [reflexivity|].
  inversion ND as [|? ? H1 H2]; subst.
  destruct (memb y seen) eqn:M.
  - apply memb_In in M. elim (D y (or_introl eq_refl) M).
  - f_equal. apply IH; [exact H2|]. intros x Hx [E|E]; [subst; now elim H1 | exact (D x (or_intror Hx) E)].
Qed.

(* on the property's domain the MRO is the plain depth-first walk *)
Lemma dedup_id : forall l, NoDup l -> dedup l = l.
Proof. intros. apply dedup_acc_id; [assumption | intros ? _ []]. Qed.

Lemma dfs_out : forall T c, length T <= c -> dfs T c = [].
Proof. intros. unfold dfs. now apply tabulate_out. Qed.

Lemma dfs_eq : forall T c, c < length T ->
  dfs T c = c :: flat_map (fun b => if Nat.ltb b c then dfs T b else []) (bases (row T c)).
Proof.
  intros T c H. unfold dfs at 1. rewrite tabulate_eq by exact H. unfold dfs_step. f_equal.
  apply flat_map_ext. intros b. rewrite tabulate_firstn by lia. reflexivity.
Qed.

(* ---------------------------------------------------------------------------------------------- *)
(* "the first class along a list of classes whose dictionary binds x"                               *)
(* ---------------------------------------------------------------------------------------------- *)
Section Along.
  Context {V : Type} (D : cid -> dict V).

  Fixpoint first_along (x : name) (l : list cid) : option V :=
    match l with
    | [] => None
    | k :: r => match get x (D k) with Some v => Some v | None => first_along x r end
    end.

  Lemma first_along_app : forall x l1 l2,
    first_along x (l1 ++ l2) =
    match first_along x l1 with Some v => Some v | None => first_along x l2 end.
  Proof.
    induction l1 as [|k l1 IH]; intros l2; simpl; [reflexivity|].
    destruct (get x (D k)); [reflexivity | apply IH].
  Qed.

  Lemma first_along_dedup_acc : forall x l seen,
    (forall y, In y seen -> get x (D y) = None) ->
    first_along x (dedup_acc seen l) = first_along x l.
  Proof.
    induction l as [|k l IH]; intros seen H; simpl; [reflexivity|].
    destruct (memb k seen) eqn:M.
    - apply memb_In in M. rewrite (H k M). now apply IH.
    - simpl. destruct (get x (D k)) eqn:G; [reflexivity|].
      apply IH. intros y [<-|Hy]; [exact G | now apply H].
  Qed.

  (* duplicates in the walk never change what a lookup finds *)
  Lemma first_along_dedup : forall x l, first_along x (dedup l) = first_along x l.
  Proof. intros. apply first_along_dedup_acc. intros ? []. Qed.

  Lemma first_along_find : forall (p : name -> cid -> bool) x l,
    (forall k, p x k = true <-> get x (D k) <> None) ->
    first_along x l = match find (p x) l with Some k => get x (D k) | None => None end.
  Proof.
    intros p x l H. induction l as [|k l IH]; simpl; [reflexivity|].
    destruct (p x k) eqn:P.
    - apply H in P. destruct (get x (D k)); [reflexivity | now elim P].
    - destruct (get x (D k)) eqn:G; [|exact IH].
      assert (Q : p x k = true) by (apply H; rewrite G; discriminate). congruence.
  Qed.

  Lemma first_along_some_iff : forall x l,
    first_along x l <> None <-> exists k, In k l /\ In x (keys (D k)).
  Proof.
    induction l as [|k l IH]; simpl.
    - split; [intros H; now elim H | intros [k [[] _]]].
    - destruct (get x (D k)) eqn:G.
      + split; [intros _ | discriminate]. exists k. split; [now left|].
        apply get_in_keys. rewrite G. discriminate.
      + rewrite IH. split; intros [k' [Hin Hk]].
        * exists k'. split; [now right | exact Hk].
        * destruct Hin as [<-|Hin]; [|now exists k'].
          apply get_in_keys in Hk. now elim Hk.
  Qed.

  Lemma flat_walk : forall x (G : cid -> dict V) (H : cid -> list cid) bs,
    (forall b, get x (G b) = first_along x (H b)) ->
    get x (flat_map G bs) = first_along x (flat_map H bs).
  Proof.
    intros x G H bs E. induction bs as [|b bs IHb]; [reflexivity|].
    cbn [flat_map]. rewrite get_app, first_along_app, IHb, E. reflexivity.
  Qed.

  (* a table built row by row as "own dictionary over the tables of the bases, left to right"
     answers like a walk along the depth-first order *)
  Lemma walk_lookup : forall (T : table) (F : cid -> dict V),
    (forall c, length T <= c -> F c = []) ->
    (forall c, c < length T ->
       F c = D c ++ flat_map (fun b => if Nat.ltb b c then F b else []) (bases (row T c))) ->
    forall c x, get x (F c) = first_along x (dfs T c).
  Proof.
    intros T F Hout Heq c. induction c as [c IH] using lt_wf_ind. intros x.
    destruct (Nat.le_gt_cases (length T) c) as [Hc|Hc].
    - rewrite (Hout c Hc), (dfs_out T c Hc). reflexivity.
    - rewrite (Heq c Hc), (dfs_eq T c Hc). cbn [first_along]. rewrite get_app.
      destruct (get x (D c)); [reflexivity|].
      apply flat_walk. intros b.
      destruct (Nat.ltb_spec b c) as [Hb|Hb]; [now apply IH | reflexivity].
  Qed.
End Along.

(* ---------------------------------------------------------------------------------------------- *)
(* IMPL tables in walk form                                                                         *)
(* ---------------------------------------------------------------------------------------------- *)
Definition own_dict (T : table) (k : cid) : dict site := dict_of (own (row T k)).
Definition self_dict (T : table) (k : cid) : dict (list site) := group (self_assigned (row T k)).

Lemma class_attrs_out : forall T c, length T <= c -> class_attrs T c = [].
Proof. intros. unfold class_attrs. now apply tabulate_out. Qed.

Lemma class_attrs_eq : forall T c, c < length T ->
  class_attrs T c = own_dict T c ++
    flat_map (fun b => if Nat.ltb b c then class_attrs T b else []) (bases (row T c)).
Proof.
  intros T c H. unfold class_attrs at 1. rewrite tabulate_eq by exact H.
  unfold class_attrs_step. rewrite fold_update. unfold update, own_dict. f_equal.
  apply flat_map_ext. intros b. rewrite tabulate_firstn by lia. reflexivity.
Qed.

Lemma inst_assigned_out : forall T c, length T <= c -> inst_assigned T c = [].
Proof. intros. unfold inst_assigned. now apply tabulate_out. Qed.

Lemma inst_assigned_eq : forall T c, c < length T ->
  inst_assigned T c = self_dict T c ++
    flat_map (fun b => if Nat.ltb b c then inst_assigned T b else []) (bases (row T c)).
Proof.
  intros T c H. unfold inst_assigned at 1. rewrite tabulate_eq by exact H.
  unfold inst_assigned_step. rewrite fold_update. unfold update, self_dict. f_equal.
  apply flat_map_ext. intros b. rewrite tabulate_firstn by lia. reflexivity.
Qed.

Lemma class_attrs_walk : forall T c x,
  get x (class_attrs T c) = first_along (own_dict T) x (dfs T c).
Proof. intros T. apply walk_lookup; [apply class_attrs_out | apply class_attrs_eq]. Qed.

Lemma inst_assigned_walk : forall T c x,
  get x (inst_assigned T c) = first_along (self_dict T) x (dfs T c).
Proof. intros T. apply walk_lookup; [apply inst_assigned_out | apply inst_assigned_eq]. Qed.

(* ---------------------------------------------------------------------------------------------- *)
(* REF lookups in walk form                                                                         *)
(* ---------------------------------------------------------------------------------------------- *)
Lemma py_class_lookup_walk : forall T c x,
  py_class_lookup T c x = first_along (own_dict T) x (dfs T c).
Proof.
  intros T c x. unfold py_class_lookup, mro.
  rewrite <- (first_along_dedup (own_dict T) x (dfs T c)).
  rewrite (first_along_find (own_dict T) (fun x k => defines T x k)); [reflexivity|].
  intros k. unfold defines, own_dict. apply has_get_dict_of.
Qed.

Lemma self_dict_get : forall T k x,
  get x (self_dict T k) =
  if self_assigns T x k then Some (sites_of x (self_assigned (row T k))) else None.
Proof. intros. unfold self_dict, self_assigns. apply get_group. Qed.

Lemma py_inst_slot_walk : forall T c x,
  match find (self_assigns T x) (mro T c) with
  | Some k => Some (sites_of x (self_assigned (row T k)))
  | None => None
  end = first_along (self_dict T) x (dfs T c).
Proof.
  intros T c x. unfold mro. rewrite <- (first_along_dedup (self_dict T) x (dfs T c)).
  rewrite (first_along_find (self_dict T) (fun x k => self_assigns T x k)).
  - destruct (find (self_assigns T x) (dedup (dfs T c))) as [k|] eqn:F; [|reflexivity].
    apply find_some in F. destruct F as [_ F]. rewrite self_dict_get, F. reflexivity.
  - intros k. rewrite self_dict_get. destruct (self_assigns T x k); split; congruence.
Qed.

(* ---------------------------------------------------------------------------------------------- *)
(* main results                                                                                     *)
(* ---------------------------------------------------------------------------------------------- *)

(* ClassObject._attrs answers every attribute like Python's type lookup *)
Theorem class_lookup_correct : forall T c x,
  get x (class_attrs T c) = py_class_lookup T c x.
Proof. intros. now rewrite class_attrs_walk, py_class_lookup_walk. Qed.

Lemma inst_attrs_get : forall T c x,
  get x (inst_attrs T c) =
  match get x (inst_assigned T c) with
  | Some ss => Some (InstAt ss)
  | None => option_map ClsAt (get x (class_attrs T c))
  end.
Proof.
  intros. unfold inst_attrs, update, inst_entries, cls_entries. rewrite get_app, !get_map.
  destruct (get x (inst_assigned T c)); reflexivity.
Qed.

(* the repaired InstanceValue._attrs answers every attribute like Python's instance lookup *)
Theorem instance_lookup_correct : forall T c x,
  get x (inst_attrs T c) = py_instance_lookup T c x.
Proof.
  intros T c x. rewrite inst_attrs_get, inst_assigned_walk, class_lookup_correct.
  unfold py_instance_lookup. rewrite <- py_inst_slot_walk.
  destruct (find (self_assigns T x) (mro T c)); reflexivity.
Qed.

Lemma in_keys_app : forall {V} x (d e : dict V), In x (keys (d ++ e)) <-> In x (keys d) \/ In x (keys e).
Proof. intros. unfold keys. rewrite map_app. apply in_app_iff. Qed.

Lemma keys_map : forall {A B} (g : A -> B) (d : dict A),
  keys (map (fun p => (fst p, g (snd p))) d) = keys d.
Proof. intros. unfold keys. rewrite map_map. reflexivity. Qed.

Lemma keys_group : forall x l, In x (keys (group l)) <-> In x (keys l).
Proof.
  intros. rewrite <- get_in_keys, get_group, <- has_in_keys.
  destruct (has x l); split; congruence.
Qed.

(* keys of the class table = class-body names along the MRO *)
Theorem class_keys_correct : forall T c x,
  In x (keys (class_attrs T c)) <-> In x (py_class_keys T c).
Proof.
  intros T c x. rewrite <- get_in_keys, class_attrs_walk, first_along_some_iff.
  unfold py_class_keys, mro. rewrite in_flat_map.
  split; intros [k [Hk Hx]]; exists k.
  - split; [exact (proj2 (dedup_In _ _) Hk)|]. unfold own_dict, dict_of in Hx. cbv beta.
    exact (proj1 (keys_rev x _) Hx).
  - split; [exact (proj1 (dedup_In _ _) Hk)|]. unfold own_dict, dict_of. cbv beta in Hx.
    exact (proj2 (keys_rev x _) Hx).
Qed.

(* keys of the instance table = class-body names and self-assigned names along the MRO *)
Theorem inst_keys_correct : forall T c x,
  In x (keys (inst_attrs T c)) <-> In x (py_inst_keys T c).
Proof.
  intros T c x. unfold inst_attrs, update, inst_entries, cls_entries.
  rewrite in_keys_app, !keys_map.
  rewrite <- (get_in_keys x (inst_assigned T c)), inst_assigned_walk, first_along_some_iff.
  rewrite class_keys_correct. unfold py_class_keys, py_inst_keys, mro. rewrite !in_flat_map.
  split.
  - intros [[k [Hk Hx]]|[k [Hk Hx]]]; exists k.
    + split; [exact (proj2 (dedup_In _ _) Hk)|]. apply in_app_iff.
      right. unfold self_dict in Hx. exact (proj1 (keys_group x _) Hx).
    + split; [exact Hk|]. apply in_app_iff. now left.
  - intros [k [Hk Hx]]. apply in_app_iff in Hx. destruct Hx as [Hx|Hx].
    + right. now exists k.
    + left. exists k. split; [exact (proj1 (dedup_In _ _) Hk)|]. unfold self_dict.
      exact (proj2 (keys_group x _) Hx).
Qed.

(* the reference's choice among the assignments is one of the acceptable landing sites *)
Theorem instance_slot_acceptable : forall T c x ss,
  py_instance_lookup T c x = Some (InstAt ss) ->
  ss <> [] /\ incl ss (py_inst_sites T c x).
Proof.
  intros T c x ss H. unfold py_instance_lookup in H.
  destruct (find (self_assigns T x) (mro T c)) as [k|] eqn:F.
  - injection H as <-. apply find_some in F. destruct F as [Hk Hs]. split.
    + now apply sites_of_nonempty.
    + intros s Hs'. unfold py_inst_sites. apply in_flat_map. now exists k.
  - destruct (py_class_lookup T c x); discriminate.
Qed.

Theorem instance_slot_complete : forall T c x,
  py_inst_sites T c x <> [] -> exists ss, py_instance_lookup T c x = Some (InstAt ss).
Proof.
  intros T c x H. unfold py_instance_lookup.
  destruct (find (self_assigns T x) (mro T c)) as [k|] eqn:F; [eexists; reflexivity|].
  elim H. unfold py_inst_sites. induction (mro T c) as [|k l IH]; simpl; [reflexivity|].
  simpl in F. destruct (self_assigns T x k) eqn:S; [discriminate|].
  rewrite IH by exact F. rewrite app_nil_r.
  destruct (sites_of x (self_assigned (row T k))) eqn:E; [reflexivity|].
  assert (Q : self_assigns T x k = true) by (apply sites_of_nonempty; rewrite E; discriminate).
  congruence.
Qed.

(* on the property's domain the MRO is the depth-first walk itself *)
Theorem mro_domain : forall T c, no_repeated_ancestor T c = true -> mro T c = dfs T c.
Proof. intros T c H. apply dedup_id. now apply nodupb_NoDup. Qed.

(* `cls` in a classmethod: answering through the instance table (pinned tree, F31) agrees with the
   type lookup exactly when no class of the MRO assigns the name through self *)
Theorem cls_form_agrees : forall T c x,
  find (self_assigns T x) (mro T c) = None ->
  get x (inst_attrs T c) = option_map ClsAt (py_class_lookup T c x).
Proof.
  intros T c x H. rewrite instance_lookup_correct. unfold py_instance_lookup. now rewrite H.
Qed.

(* ---------------------------------------------------------------------------------------------- *)
(* C3: without repeated ancestors the linearisation CPython computes is the depth-first walk         *)
(* ---------------------------------------------------------------------------------------------- *)
Definition c3_prepend (t : list nat) (r : c3_result) : c3_result :=
  match r with C3Ok l => C3Ok (t ++ l) | e => e end.

Lemma c3_pick_first : forall E h t rest all,
  forallb is_nil E = true -> existsb (in_tail h) all = false ->
  c3_pick (E ++ (h :: t) :: rest) all = Some h.
Proof.
  induction E as [|e E IH]; intros h t rest all HE Hall; simpl.
  - now rewrite Hall.
  - simpl in HE. apply andb_true_iff in HE. destruct HE as [He HE].
    destruct e; [|discriminate]. now apply IH.
Qed.

Lemma map_drop_nil : forall h E, forallb is_nil E = true -> map (c3_drop h) E = E.
Proof.
  induction E as [|e E IH]; intros HE; simpl; [reflexivity|].
  simpl in HE. apply andb_true_iff in HE. destruct HE as [He HE].
  destruct e; [|discriminate]. simpl. now rewrite IH.
Qed.

Lemma map_drop_notin : forall h R, ~ In h (concat R) -> map (c3_drop h) R = R.
Proof.
  induction R as [|l R IH]; intros H; simpl; [reflexivity|].
  simpl in H. rewrite in_app_iff in H. rewrite IH by tauto. f_equal.
  destruct l as [|x l]; [reflexivity|]. simpl.
  destruct (Nat.eqb_spec x h) as [->|_]; [|reflexivity]. elim H. left. now left.
Qed.

Lemma in_tail_notin : forall h l, ~ In h l -> in_tail h l = false.
Proof.
  intros h [|x l] H; [reflexivity|]. simpl.
  destruct (memb h l) eqn:M; [|reflexivity]. apply memb_In in M. elim H. now right.
Qed.

Lemma existsb_in_tail_notin : forall h R, ~ In h (concat R) -> existsb (in_tail h) R = false.
Proof.
  induction R as [|l R IH]; intros H; simpl; [reflexivity|].
  simpl in H. rewrite in_app_iff in H. rewrite in_tail_notin by tauto. now rewrite IH by tauto.
Qed.

Lemma existsb_in_tail_nil : forall h E, forallb is_nil E = true -> existsb (in_tail h) E = false.
Proof.
  induction E as [|e E IH]; intros HE; simpl; [reflexivity|].
  simpl in HE. apply andb_true_iff in HE. destruct HE as [He HE].
  destruct e; [|discriminate]. simpl. now apply IH.
Qed.

Lemma forallb_nil_app_cons : forall E h t rest, forallb is_nil (E ++ (h :: t) :: rest) = false.
Proof.
  induction E as [|e E IH]; intros; simpl; [reflexivity|]. rewrite IH. apply andb_false_r.
Qed.

(* one merge step: the head h of the first non-empty list is taken when it is in no tail *)
Lemma c3_merge_step : forall f E h t R bs,
  forallb is_nil E = true -> ~ In h t -> ~ In h (concat R) -> in_tail h bs = false ->
  c3_merge (S f) (E ++ (h :: t) :: R ++ [bs]) =
  c3_prepend [h] (c3_merge f (E ++ t :: R ++ [c3_drop h bs])).
Proof.
  intros f E h t R bs HE Ht HR Hbs. cbn [c3_merge]. rewrite forallb_nil_app_cons.
  rewrite c3_pick_first; [|exact HE|].
  - rewrite map_app. cbn [map]. rewrite map_app. cbn [map]. rewrite map_drop_nil by exact HE.
    rewrite map_drop_notin by exact HR. cbn [c3_drop]. rewrite Nat.eqb_refl.
    destruct (c3_merge f (E ++ t :: R ++ [c3_drop h bs])); reflexivity.
  - rewrite existsb_app. rewrite existsb_in_tail_nil by exact HE. cbn [existsb orb].
    rewrite existsb_app. cbn [existsb]. cbn [in_tail].
    destruct (memb h t) eqn:M; [apply memb_In in M; now elim Ht|].
    rewrite existsb_in_tail_notin by exact HR. rewrite Hbs. reflexivity.
Qed.

Lemma c3_drop_notin : forall h bs, ~ In h bs -> c3_drop h bs = bs.
Proof.
  intros h [|x bs] H; [reflexivity|]. simpl.
  destruct (Nat.eqb_spec x h) as [->|_]; [|reflexivity]. elim H. now left.
Qed.

(* a started list is consumed to its end *)
Lemma c3_merge_consume : forall t f E R bs,
  forallb is_nil E = true -> NoDup t -> (forall x, In x t -> ~ In x (concat R) /\ ~ In x bs) ->
  c3_merge (length t + f) (E ++ t :: R ++ [bs]) = c3_prepend t (c3_merge f (E ++ [] :: R ++ [bs])).
Proof.
  induction t as [|h t IH]; intros f E R bs HE ND D.
  - simpl. destruct (c3_merge f (E ++ [] :: R ++ [bs])); reflexivity.
  - inversion ND as [|? ? Hh ND']; subst. destruct (D h (or_introl eq_refl)) as [DR Db].
    cbn [length plus]. rewrite c3_merge_step; [|exact HE|exact Hh|exact DR|now apply in_tail_notin].
    rewrite c3_drop_notin by exact Db. rewrite IH; [|exact HE|exact ND'|].
    + destruct (c3_merge f (E ++ [] :: R ++ [bs])); reflexivity.
    + intros x Hx. apply D. now right.
Qed.

Lemma heads_in_concat : forall (R : list (list nat)) x,
  (forall l, In l R -> l <> []) -> In x (map (hd 0) R) -> In x (concat R).
Proof.
  induction R as [|l R IH]; intros x NE H; simpl in *; [exact H|].
  apply in_app_iff. destruct H as [<-|H].
  - left. destruct l as [|y l]; [now elim (NE [] (or_introl eq_refl))|]. now left.
  - right. apply IH; [|exact H]. intros l' Hl'. apply NE. now right.
Qed.

Lemma NoDup_app_parts : forall (a b : list nat), NoDup (a ++ b) ->
  NoDup a /\ NoDup b /\ forall x, In x a -> ~ In x b.
Proof.
  induction a as [|y a IH]; intros b H; simpl in *.
  - split; [constructor|]. split; [exact H|]. intros x [].
  - inversion H as [|? ? Hy H']; subst. destruct (IH b H') as (Na & Nb & D).
    split; [constructor; [|exact Na]; intros Q; apply Hy, in_app_iff; now left|].
    split; [exact Nb|]. intros x [<-|Hx]; [intros Q; apply Hy, in_app_iff; now right | now apply D].
Qed.

(* merging linearisations that share no class, followed by the list of their heads *)
Lemma c3_merge_disjoint : forall R E,
  forallb is_nil E = true -> (forall l, In l R -> l <> []) -> NoDup (concat R) ->
  forall f, c3_merge (length (concat R) + f) (E ++ R ++ [map (hd 0) R]) = C3Ok (concat R).
Proof.
  induction R as [|l R IH]; intros E HE NE ND f.
  - simpl. assert (A : forallb is_nil (E ++ [[]]) = true) by (rewrite forallb_app, HE; reflexivity).
    destruct f; cbn [c3_merge]; rewrite A; reflexivity.
  - destruct l as [|b t]; [now elim (NE [] (or_introl eq_refl))|].
    assert (NE' : forall l, In l R -> l <> []) by (intros l' Hl'; apply NE; now right).
    cbn [concat] in *. cbn [map hd app].
    change ((b :: t) ++ concat R) with (b :: (t ++ concat R)) in *.
    inversion ND as [|? ? Hb ND']; subst. destruct (NoDup_app_parts _ _ ND') as (Nt & NR & D).
    cbn [length plus].
    change (E ++ (b :: t) :: R ++ [b :: map (hd 0) R]) with (E ++ (b :: t) :: R ++ [b :: map (hd 0) R]).
    rewrite c3_merge_step; [|exact HE| | |].
    + cbn [c3_drop]. rewrite Nat.eqb_refl. rewrite app_length, <- Nat.add_assoc.
      rewrite c3_merge_consume; [|exact HE|exact Nt|].
      * replace (E ++ [] :: R ++ [map (hd 0) R]) with ((E ++ [[]]) ++ R ++ [map (hd 0) R])
          by (now rewrite <- app_assoc).
        rewrite IH; [reflexivity| |exact NE'|exact NR].
        rewrite forallb_app, HE. reflexivity.
      * intros x Hx. split; [now apply D|]. intros Q. apply (D x Hx). now apply heads_in_concat.
    + intros Q. apply Hb, in_app_iff. now left.
    + intros Q. apply Hb, in_app_iff. now right.
    + cbn [in_tail]. destruct (memb b (map (hd 0) R)) eqn:M; [|reflexivity].
      apply memb_In in M. elim Hb. apply in_app_iff. right. now apply heads_in_concat.
Qed.

Lemma wf_from_bases : forall T i c b, wf_from i T = true -> c < length T ->
  In b (bases (nth c T empty_cls)) -> b < i + c.
Proof.
  induction T as [|k T IH]; intros i c b W Hc Hb; simpl in *; [lia|].
  apply andb_true_iff in W. destruct W as [Wk W]. destruct c.
  - unfold wf_row in Wk. rewrite forallb_forall in Wk. apply Wk in Hb. apply Nat.ltb_lt in Hb. lia.
  - specialize (IH (S i) c b W). assert (c < length T) by lia. specialize (IH H Hb). lia.
Qed.

Lemma wf_bases : forall T c b, wf T = true -> c < length T -> In b (bases (row T c)) -> b < c.
Proof. intros T c b W Hc Hb. apply (wf_from_bases T 0 c b W Hc Hb). Qed.

Lemma c3_out : forall T c, length T <= c -> c3_mro T c = C3Inconsistent.
Proof. intros. unfold c3_mro. now apply tabulate_out. Qed.

Lemma c3_eq : forall T c, c < length T ->
  c3_mro T c = c3_step (tabulate C3Inconsistent c3_step (firstn c T)) c (row T c).
Proof. intros. unfold c3_mro. now apply tabulate_eq. Qed.

Lemma concat_map_flat_map : forall {A B} (g : A -> list B) l, concat (map g l) = flat_map g l.
Proof. intros. induction l as [|a l IH]; simpl; [reflexivity | now rewrite IH]. Qed.

Lemma c3_step_unfold : forall rec i k,
  c3_step rec i k =
  match c3_collect rec (bases k) with
  | None => C3Inconsistent
  | Some ls => match c3_merge (S (length (concat ls) + length (bases k))) (ls ++ [bases k]) with
               | C3Ok r => C3Ok (i :: r)
               | e => e
               end
  end.
Proof. reflexivity. Qed.

Lemma c3_collect_dfs : forall T c bs, c <= length T ->
  (forall b, In b bs -> b < c) -> (forall b, In b bs -> c3_mro T b = C3Ok (dfs T b)) ->
  c3_collect (tabulate C3Inconsistent c3_step (firstn c T)) bs = Some (map (dfs T) bs).
Proof.
  intros T c bs Hc. induction bs as [|b bs IHb]; intros Hb Hr; [reflexivity|].
  cbn [c3_collect map]. rewrite tabulate_firstn by exact Hc.
  destruct (Nat.ltb_spec b c) as [Q|Q]; [|specialize (Hb b (or_introl eq_refl)); lia].
  fold (c3_mro T b). rewrite (Hr b (or_introl eq_refl)).
  rewrite IHb; [reflexivity| |]; intros b' Hb'; [apply Hb | apply Hr]; now right.
Qed.

Lemma NoDup_flat_map_part : forall (g : nat -> list nat) bs b,
  NoDup (flat_map g bs) -> In b bs -> NoDup (g b).
Proof.
  induction bs as [|a bs IH]; intros b ND H; [destruct H|]. simpl in ND.
  destruct (NoDup_app_parts _ _ ND) as (Na & Nbs & _).
  destruct H as [<-|H]; [exact Na | now apply IH].
Qed.

Theorem c3_is_dfs : forall T, wf T = true -> forall c, c < length T ->
  NoDup (dfs T c) -> c3_mro T c = C3Ok (dfs T c).
Proof.
  intros T W c. induction c as [c IH] using lt_wf_ind. intros Hc ND.
  rewrite c3_eq by exact Hc. rewrite dfs_eq in ND by exact Hc. rewrite dfs_eq by exact Hc.
  inversion ND as [|? ? Hn ND']; subst. clear ND Hn.
  remember (bases (row T c)) as bs eqn:Ebs.
  assert (Hb : forall b, In b bs -> b < c).
  { intros b Hb. subst bs. now apply (wf_bases T c b W Hc). }
  assert (E : flat_map (fun b => if Nat.ltb b c then dfs T b else []) bs = flat_map (dfs T) bs).
  { clear -Hb. induction bs as [|b bs IHb]; [reflexivity|]. simpl.
    destruct (Nat.ltb_spec b c) as [_|Q]; [|specialize (Hb b (or_introl eq_refl)); lia].
    f_equal. apply IHb. intros b' Hb'. apply Hb. now right. }
  rewrite E in *.
  assert (C : c3_collect (tabulate C3Inconsistent c3_step (firstn c T)) bs = Some (map (dfs T) bs)).
  { apply c3_collect_dfs; [lia | exact Hb |]. intros b Hin. apply IH; [now apply Hb | specialize (Hb b Hin); lia |].
    now apply (NoDup_flat_map_part (dfs T) bs). }
  rewrite c3_step_unfold, <- Ebs, C.
  assert (H : map (hd 0) (map (dfs T) bs) = bs).
  { clear -Hb Hc. induction bs as [|b bs IHb]; [reflexivity|]. cbn [map].
    rewrite IHb by (intros b' Hb'; apply Hb; now right).
    rewrite dfs_eq by (specialize (Hb b (or_introl eq_refl)); lia). reflexivity. }
  assert (NE : forall l, In l (map (dfs T) bs) -> l <> []).
  { intros l Hl. apply in_map_iff in Hl. destruct Hl as [b [<- Hb']].
    rewrite dfs_eq by (specialize (Hb b Hb'); lia). discriminate. }
  assert (NDc : NoDup (concat (map (dfs T) bs))) by (now rewrite concat_map_flat_map).
  pose proof (c3_merge_disjoint (map (dfs T) bs) [] eq_refl NE NDc (S (length bs))) as M.
  cbn [app] in M. rewrite H in M.
  rewrite Nat.add_succ_r in M.
  match goal with
  | |- match ?X with _ => _ end = _ =>
      replace X with (C3Ok (concat (map (dfs T) bs))) by (symmetry; exact M)
  end.
  now rewrite concat_map_flat_map.
Qed.

(* ---------------------------------------------------------------------------------------------- *)
(* `object` is always last in CPython's order: on the domain the reference MRO already has it so     *)
(* ---------------------------------------------------------------------------------------------- *)
Lemma filter_notin_id : forall (l : list nat) a, ~ In a l ->
  filter (fun k => negb (Nat.eqb k a)) l = l.
Proof.
  induction l as [|y l IH]; intros a H; simpl; [reflexivity|].
  destruct (Nat.eqb_spec y a) as [->|_]; [elim H; now left|]. simpl. f_equal. apply IH.
  intros Q. apply H. now right.
Qed.

Lemma mro_real_domain : forall T c, in_domain T c = true -> In obj (dfs T c) ->
  mro_real T c = mro T c.
Proof.
  intros T c D Hin. unfold in_domain in D. apply andb_true_iff in D. destruct D as [ND OL].
  unfold mro_real. rewrite (mro_domain T c ND). unfold object_last in OL.
  apply negb_true_iff in OL.
  assert (Hn : ~ In obj (removelast (dfs T c))) by (rewrite <- memb_In, OL; discriminate).
  assert (NE : dfs T c <> []) by (intros Q; rewrite Q in Hin; destruct Hin).
  pose proof (app_removelast_last obj NE) as Hd.
  remember (removelast (dfs T c)) as r eqn:Er.
  assert (Hl : last (dfs T c) obj = obj).
  { rewrite Hd in Hin. apply in_app_iff in Hin. destruct Hin as [Hin|[Hl|[]]]; [now elim Hn | exact Hl]. }
  rewrite Hl in Hd. rewrite Hd. rewrite filter_app, filter_notin_id by exact Hn.
  cbn. now rewrite app_nil_r.
Qed.

Lemma find_app_some : forall {A} (p : A -> bool) l1 l2 k, find p l1 = Some k -> find p (l1 ++ l2) = Some k.
Proof.
  induction l1 as [|a l1 IH]; intros l2 k H; simpl in *; [discriminate|].
  destruct (p a); [exact H | now apply IH].
Qed.

(* a definition found by the reference lookup is the one CPython's order (object last) finds *)
Theorem class_lookup_real : forall T c x s, in_domain T c = true ->
  py_class_lookup T c x = Some s -> py_class_lookup_real T c x = Some s.
Proof.
  intros T c x s D H. unfold py_class_lookup_real.
  destruct (in_dec Nat.eq_dec obj (dfs T c)) as [Hin|Hout].
  - rewrite mro_real_domain by assumption. exact H.
  - unfold py_class_lookup in H. unfold mro_real.
    assert (Hm : ~ In obj (mro T c)) by (unfold mro; rewrite dedup_In; exact Hout).
    rewrite filter_notin_id by exact Hm.
    destruct (find (defines T x) (mro T c)) as [k|] eqn:F; [|discriminate].
    match goal with
    | |- match ?X with _ => _ end = _ =>
        replace X with (Some k) by (symmetry; exact (find_app_some _ _ [obj] k F))
    end.
    exact H.
Qed.
