(* Proofs about Model/Text.v: soundness and completeness of find_id_loc on every text. *)
From Coq Require Import List Bool Arith NArith Lia.
Import ListNotations.
From Supp Require Import Model.Text.
Arguments N.eqb : simpl never.

Lemma prefixb_spec p : forall s, prefixb p s = true <-> exists t, s = p ++ t.
Proof.
  induction p as [|a p IH]; intros s; simpl.
  - split; [intros _; exists s; reflexivity | reflexivity].
  - destruct s as [|b s].
    + split; [discriminate | intros [t Ht]; discriminate].
    + rewrite andb_true_iff, N.eqb_eq, IH. split.
      * intros [-> [t ->]]. exists t; reflexivity.
      * intros [t Ht]. injection Ht as -> ->. split; [reflexivity | exists t; reflexivity].
Qed.

(* character before index p *)
Definition prev_of (src : list N) (p : nat) : option N :=
  match p with 0 => None | S q => nth_error src q end.

Definition accept_at (d : dset) (id src : list N) (p : nat) : bool :=
  accept d id p (prev_of src p) (skipn p src).

Lemma skipn_app_len {A} (pre s : list A) : skipn (length pre) (pre ++ s) = s.
Proof. induction pre; simpl; auto. Qed.

Lemma prev_of_snoc pre (c : N) r : prev_of ((pre ++ [c]) ++ r) (S (length pre)) = Some c.
Proof.
  simpl. rewrite <- app_assoc. rewrite nth_error_app2 by lia.
  rewrite Nat.sub_diag. reflexivity.
Qed.

Lemma scan_gen d id from : forall s pre prev,
  prev = prev_of (pre ++ s) (length pre) ->
  match scan d id from (length pre) prev s with
  | Some p => from <= p /\ length pre <= p /\ p < length (pre ++ s) /\
              accept_at d id (pre ++ s) p = true /\
              forall q, length pre <= q -> q < p -> from <= q -> accept_at d id (pre ++ s) q = false
  | None => forall q, length pre <= q -> q < length (pre ++ s) -> from <= q ->
              accept_at d id (pre ++ s) q = false
  end.
Proof.
  induction s as [|c r IH]; intros pre prev Hprev; simpl.
  - intros q H1 H2. rewrite app_nil_r in H2. lia.
  - destruct (Nat.leb from (length pre) && accept d id (length pre) prev (c :: r)) eqn:E.
    + apply andb_true_iff in E as [E1 E2]. apply Nat.leb_le in E1.
      repeat split; try lia.
      * rewrite app_length; simpl; lia.
      * unfold accept_at. rewrite skipn_app_len, <- Hprev. exact E2.
    + specialize (IH (pre ++ [c]) (Some c)).
      rewrite app_length in IH; simpl in IH. rewrite Nat.add_1_r in IH.
      assert (Hp : Some c = prev_of ((pre ++ [c]) ++ r) (S (length pre))) by (symmetry; apply prev_of_snoc).
      specialize (IH Hp).
      assert (Hhere : from <= length pre -> accept_at d id (pre ++ c :: r) (length pre) = false).
      { intros Hf. unfold accept_at. rewrite skipn_app_len, <- Hprev.
        apply andb_false_iff in E as [E|E]; [apply Nat.leb_gt in E; lia | exact E]. }
      replace ((pre ++ [c]) ++ r) with (pre ++ c :: r) in IH by (rewrite <- app_assoc; reflexivity).
      destruct (scan d id from (S (length pre)) (Some c) r) as [p|].
      * destruct IH as (A & B & C & D & F). repeat split; try lia; auto.
        intros q H1 H2 H3. destruct (Nat.eq_dec q (length pre)) as [->|Hne]; [auto|apply F; lia].
      * intros q H1 H2 H3. destruct (Nat.eq_dec q (length pre)) as [->|Hne]; [auto|apply IH; lia].
Qed.

(* Soundness of the search loop: the hit is after the start, the text there is the identifier
   and it is flanked as the code requires. *)
Lemma scan_sound d id from src p :
  scan d id from 0 None src = Some p ->
  from <= p /\ p < length src /\ accept_at d id src p = true.
Proof.
  intros H. pose proof (scan_gen d id from src [] None eq_refl) as G. simpl in G.
  rewrite H in G. tauto.
Qed.

(* Completeness: it is the first accepted occurrence at or after the start; and when there is
   an accepted occurrence the search does not fall back. *)
Lemma scan_first d id from src p :
  scan d id from 0 None src = Some p ->
  forall q, from <= q -> q < p -> accept_at d id src q = false.
Proof.
  intros H. pose proof (scan_gen d id from src [] None eq_refl) as G. simpl in G.
  rewrite H in G. destruct G as (_ & _ & _ & _ & F). intros q H1 H2. apply F; lia.
Qed.

Lemma scan_complete d id from src q :
  from <= q -> q < length src -> accept_at d id src q = true ->
  exists p, scan d id from 0 None src = Some p /\ p <= q.
Proof.
  intros H1 H2 H3. pose proof (scan_gen d id from src [] None eq_refl) as G. simpl in G.
  destruct (scan d id from 0 None src) as [p|] eqn:E.
  - exists p. split; [reflexivity|]. destruct G as (_ & _ & _ & _ & F).
    destruct (le_lt_dec p q); [assumption|]. rewrite F in H3; [discriminate|lia|lia|assumption].
  - rewrite G in H3; [discriminate|lia|assumption|assumption].
Qed.

Lemma accept_text d id src p :
  accept_at d id src p = true -> exists t, skipn p src = id ++ t.
Proof.
  unfold accept_at, accept. rewrite !andb_true_iff. intros [[H _] _]. apply prefixb_spec; exact H.
Qed.

Lemma accept_flanks ls rs id src p :
  accept_at (Some (ls, rs)) id src p = true ->
  (p = 0 \/ exists c, prev_of src p = Some c /\ memN c ls = true) /\
  (skipn (length id) (skipn p src) = [] \/
   exists c r, skipn (length id) (skipn p src) = c :: r /\ memN c rs = true).
Proof.
  unfold accept_at, accept, left_ok, right_ok. rewrite !andb_true_iff. intros [[_ L] R]. split.
  - apply orb_true_iff in L as [L|L].
    + left. apply Nat.eqb_eq; exact L.
    + right. destruct (prev_of src p) as [c|]; [exists c; auto|discriminate].
  - destruct (skipn (length id) (skipn p src)) as [|c r]; [left; reflexivity|].
    right. exists c, r. auto.
Qed.

(* ---- from an offset in the joined window to (line, column) ------------------------------ *)

Lemma count_nl_app a b : count_nl (a ++ b) = count_nl a + count_nl b.
Proof. unfold count_nl. rewrite filter_app, app_length. reflexivity. Qed.

Lemma no_nl_count s : ~ In nl s -> count_nl s = 0.
Proof.
  unfold count_nl. induction s as [|c r IH]; simpl; intros H; [reflexivity|].
  destruct (N.eqb nl c) eqn:E.
  - apply N.eqb_eq in E. exfalso; apply H; left; auto.
  - apply IH. intros Hin; apply H; right; exact Hin.
Qed.

Lemma no_nl_col s : forall acc, ~ In nl s -> col_of_acc s acc = acc + length s.
Proof.
  induction s as [|c r IH]; simpl; intros acc H; [lia|].
  destruct (N.eqb c nl) eqn:E.
  - apply N.eqb_eq in E. exfalso; apply H; left; auto.
  - rewrite IH; [lia|]. intros Hin; apply H; right; exact Hin.
Qed.

Lemma col_of_acc_app_nl a b : forall acc, col_of_acc (a ++ nl :: b) acc = col_of_acc b 0.
Proof.
  induction a as [|c r IH]; simpl; intros acc.
  - reflexivity.
  - destruct (N.eqb c nl); apply IH.
Qed.

Lemma not_in_firstn {A} (x : A) n l : ~ In x l -> ~ In x (firstn n l).
Proof. intros H Hin. apply H. rewrite <- (firstn_skipn n l). apply in_or_app; left; exact Hin. Qed.

(* Offsets into '\n'.join(W) decompose into (number of newlines before, column) and the rest
   of the text from there is the rest of that line followed by nothing or by a newline. *)
Lemma join_locate W : (forall ln, In ln W -> ~ In nl ln) ->
  forall p, p <= length (join W) ->
  exists rest, skipn p (join W)
               = skipn (col_of (firstn p (join W))) (nth (count_nl (firstn p (join W))) W []) ++ rest
            /\ (rest = [] \/ exists r', rest = nl :: r').
Proof.
  induction W as [|l r IH]; intros Hnl p Hp.
  - simpl in *. assert (p = 0) by lia; subst. exists []; simpl; auto.
  - assert (Hl : ~ In nl l) by (apply Hnl; left; reflexivity).
    assert (Hr : forall ln, In ln r -> ~ In nl ln) by (intros; apply Hnl; right; assumption).
    destruct r as [|l2 r2].
    + change (join [l]) with l in *. exists []. rewrite app_nil_r. split; [|left; reflexivity].
      rewrite (no_nl_count (firstn p l)) by (apply not_in_firstn; exact Hl).
      unfold col_of. rewrite no_nl_col by (apply not_in_firstn; exact Hl).
      rewrite firstn_length_le by lia. reflexivity.
    + change (join (l :: l2 :: r2)) with (l ++ nl :: join (l2 :: r2)) in *.
      set (J := join (l2 :: r2)) in *.
      destruct (le_lt_dec p (length l)) as [Hle|Hgt].
      * exists (nl :: J). split; [|right; eexists; reflexivity].
        assert (Hf : firstn p (l ++ nl :: J) = firstn p l).
        { rewrite firstn_app. replace (p - length l) with 0 by lia. simpl. apply app_nil_r. }
        rewrite Hf.
        rewrite (no_nl_count (firstn p l)) by (apply not_in_firstn; exact Hl).
        unfold col_of. rewrite no_nl_col by (apply not_in_firstn; exact Hl).
        rewrite firstn_length_le by lia. simpl.
        rewrite skipn_app. replace (p - length l) with 0 by lia. reflexivity.
      * rewrite app_length in Hp. simpl in Hp.
        set (p' := p - length l - 1).
        assert (Hp' : p' <= length J) by (unfold p'; lia).
        destruct (IH Hr p' Hp') as [rest [E1 E2]].
        exists rest. split; [|exact E2].
        assert (Hf : firstn p (l ++ nl :: J) = l ++ nl :: firstn p' J).
        { rewrite firstn_app. rewrite firstn_all2 by lia.
          replace (p - length l) with (S p') by (unfold p'; lia). reflexivity. }
        assert (Hs : skipn p (l ++ nl :: J) = skipn p' J).
        { rewrite skipn_app. rewrite skipn_all2 by lia.
          replace (p - length l) with (S p') by (unfold p'; lia). reflexivity. }
        rewrite Hf, Hs. rewrite count_nl_app. rewrite (no_nl_count l Hl).
        unfold col_of. rewrite col_of_acc_app_nl.
        change (count_nl (nl :: firstn p' J)) with (S (count_nl (firstn p' J))).
        simpl plus. change (nth (S ?k) (l :: l2 :: r2) []) with (nth k (l2 :: r2) []).
        exact E1.
Qed.

Lemma prefix_before_nl (id : list N) : forall A t rest,
  id ++ t = A ++ rest -> ~ In nl id -> (rest = [] \/ exists r', rest = nl :: r') ->
  exists t', A = id ++ t'.
Proof.
  induction id as [|a id IH]; intros A t rest E Hn Hr.
  - exists A; reflexivity.
  - destruct A as [|b A].
    + simpl in E. destruct Hr as [->|[r' ->]]; [discriminate|].
      injection E as Ea _. exfalso; apply Hn; left; auto.
    + simpl in E. injection E as -> E.
      destruct (IH A t rest E) as [t' ->]; [intros H; apply Hn; right; exact H | exact Hr|].
      exists t'; reflexivity.
Qed.

Lemma nth_skipn_add {A} (l : list A) d : forall n k, nth k (skipn n l) d = nth (n + k) l d.
Proof.
  induction l as [|x r IH]; intros n k.
  - rewrite skipn_nil. destruct k, n; reflexivity.
  - destruct n; simpl; [reflexivity|apply IH].
Qed.

Lemma nth_firstn_nonnil {A} (l : list (list A)) n k :
  nth k (firstn n l) [] <> [] -> nth k (firstn n l) [] = nth k l [].
Proof.
  revert l k; induction n as [|n IH]; intros l k H.
  - simpl in H. destruct k; contradiction.
  - destruct l as [|x r]; [reflexivity|]. destruct k; simpl in *; [reflexivity|apply IH; exact H].
Qed.

Lemma my_in_firstn {A} (x : A) n l : In x (firstn n l) -> In x l.
Proof. intros H. rewrite <- (firstn_skipn n l). apply in_or_app; left; exact H. Qed.
Lemma my_in_skipn {A} (x : A) n l : In x (skipn n l) -> In x l.
Proof. intros H. rewrite <- (firstn_skipn n l). apply in_or_app; right; exact H. Qed.

(* Main soundness theorem of find_id_loc: whenever the search does not fall back, the text at
   the reported line and column (minus the shift) is exactly the searched string. *)
Theorem find_id_loc_sound lines id sl pos shift d l c :
  1 <= sl -> id <> [] -> ~ In nl id -> (forall ln, In ln lines -> ~ In nl ln) ->
  found lines id sl pos d = true ->
  find_id_loc lines id sl pos shift d = (l, c) ->
  shift <= c /\ sl <= l /\ exists t, text_at lines l (c - shift) = id ++ t.
Proof.
  intros Hsl Hid Hnl Hlines Hfound Hres.
  unfold found in Hfound. unfold find_id_loc in Hres.
  set (W := window lines sl) in *. set (src := join W) in *.
  destruct (scan d id (S pos) 0 None src) as [p|] eqn:E; [|discriminate].
  injection Hres as <- <-.
  destruct (scan_sound _ _ _ _ _ E) as (_ & Hlt & Hacc).
  destruct (accept_text _ _ _ _ Hacc) as [t Ht].
  assert (HW : forall ln, In ln W -> ~ In nl ln).
  { intros ln Hin. apply Hlines. unfold W, window in Hin.
    apply my_in_firstn in Hin. apply my_in_skipn in Hin. exact Hin. }
  destruct (join_locate W HW p (Nat.lt_le_incl _ _ Hlt)) as [rest [E1 E2]].
  fold src in E1. rewrite Ht in E1.
  destruct (prefix_before_nl id _ t rest E1 Hnl E2) as [t' Ht'].
  split; [lia|]. split; [lia|]. exists t'.
  unfold text_at. replace (col_of (firstn p src) + shift - shift) with (col_of (firstn p src)) by lia.
  rewrite <- Ht'. f_equal.
  set (k := count_nl (firstn p src)) in *.
  assert (Hne : nth k W [] <> []).
  { intros Hnil. rewrite Hnil, skipn_nil in Ht'. destruct id; [contradiction|discriminate]. }
  unfold W, window in Hne |- *. rewrite nth_firstn_nonnil by exact Hne.
  rewrite nth_skipn_add. f_equal. lia.
Qed.

(* The def/class variant: find_id_loc(' ' + name, np(node), 1, False) points at the name. *)
Corollary find_def_loc_sound lines name sl pos l c :
  1 <= sl -> ~ In nl name -> (forall ln, In ln lines -> ~ In nl ln) ->
  found lines (32%N :: name) sl pos None = true ->
  find_id_loc lines (32%N :: name) sl pos 1 None = (l, c) ->
  exists t, text_at lines l c = name ++ t.
Proof.
  intros Hsl Hn Hlines Hf Hres.
  destruct (find_id_loc_sound lines (32%N :: name) sl pos 1 None l c) as (Hc & _ & t & Ht); auto.
  - discriminate.
  - intros [H|H]; [discriminate|contradiction].
  - exists t. unfold text_at in *. destruct c as [|c]; [lia|].
    replace (S c - 1) with c in Ht by lia.
    set (L := nth (l - 1) lines []) in *.
    clearbody L. clear - Ht. revert L Ht. induction c as [|c IH]; intros L Ht.
    + destruct L; simpl in *; [discriminate|]. injection Ht as _ ->. reflexivity.
    + destruct L as [|x L]; simpl in *; [discriminate|]. apply IH; exact Ht.
Qed.

(* the fall-back is taken only when no accepted occurrence exists in the window after start *)
Theorem find_id_loc_complete lines id sl pos d q :
  S pos <= q -> q < length (join (window lines sl)) ->
  accept_at d id (join (window lines sl)) q = true ->
  found lines id sl pos d = true.
Proof.
  intros H1 H2 H3. unfold found.
  destruct (scan_complete d id (S pos) _ q H1 H2 H3) as [p [-> _]]. reflexivity.
Qed.
