(* Proofs about Model/Client.v: an invariant over all reachable states (any number of threads,
   any scripts, any oracle, any schedule) and its consequences. *)
From Coq Require Import List Bool Arith Lia.
Import ListNotations.
From Supp Require Import Model.Client.

Lemma upd_same {A} (f : nat -> A) i v : upd f i v i = v.
Proof. unfold upd. rewrite Nat.eqb_refl. reflexivity. Qed.

Lemma upd_other {A} (f : nat -> A) i j v : j <> i -> upd f i v j = f j.
Proof. intros H. unfold upd. destruct (Nat.eqb_spec j i); [contradiction|reflexivity]. Qed.

(* ---- classification of program counters ------------------------------------------------ *)
(* lines executed while holding prepare_lock *)
Definition holding (p : pc) : bool :=
  match p with
  | PTestH | PRet1 | PHas | PRet2 | PMk | PStart | PRel | PRelExc _
  | RTest | RJoin | RRead | RTestL _ | RJoinL _ | RJoinW _ | RHas | RCallRun | RPopen _ | RConnect _
  | RRel | RRelExc _ => true
  | _ => false
  end.

(* lines at which no starter can be active *)
Definition hnone_pc (p : pc) : bool :=
  match p with
  | PHas | PMk | RTestL None | RHas | RCallRun | RPopen _ | RConnect _ => true
  | _ => false
  end.

(* lines at which the connection attribute cannot exist *)
Definition knone_pc (p : pc) : bool :=
  match p with PMk | RCallRun | RPopen _ | RConnect _ => true | _ => false end.

Definition conn_pc (p : pc) : bool := match p with RConnect _ => true | _ => false end.
Definition pstart_pc (p : pc) : bool := match p with PStart => true | _ => false end.

Definition joining_pc (p : pc) : option nat :=
  match p with RTestL (Some h) | RJoinL h | RJoinW h => Some h | _ => None end.

(* a classifier applied to a thread: false for a finished thread *)
Definition on (f : pc -> bool) (t : cthread) : bool :=
  match t_script t with [] => false | _ :: _ => f (t_pc t) end.

Definition joining (t : cthread) : option nat :=
  match t_script t with [] => None | _ :: _ => joining_pc (t_pc t) end.

Lemma hnone_holding p : hnone_pc p = true -> holding p = true.
Proof. destruct p; simpl; try discriminate; auto. Qed.
Lemma knone_hnone p : knone_pc p = true -> hnone_pc p = true.
Proof. destruct p; simpl; try discriminate; auto. Qed.
Lemma conn_knone p : conn_pc p = true -> knone_pc p = true.
Proof. destruct p; simpl; try discriminate; auto. Qed.
Lemma pstart_holding p : pstart_pc p = true -> holding p = true.
Proof. destruct p; simpl; try discriminate; auto. Qed.
Lemma joining_holding p h : joining_pc p = Some h -> holding p = true.
Proof. destruct p; simpl; try discriminate; auto. Qed.

Lemma on_imp (f g : pc -> bool) t : (forall p, f p = true -> g p = true) -> on f t = true -> on g t = true.
Proof. unfold on. destruct (t_script t); auto. Qed.

Lemma joining_on_holding t h : joining t = Some h -> on holding t = true.
Proof. unfold joining, on. destruct (t_script t); [discriminate|apply joining_holding]. Qed.

(* classifiers after one line of the thread *)
Lemma on_goto f t p a l : t_script t = a :: l -> on f (advance t (Goto p)) = f p.
Proof. intros H. unfold on, advance; simpl. rewrite H. reflexivity. Qed.

Lemma joining_goto t p a l : t_script t = a :: l -> joining (advance t (Goto p)) = joining_pc p.
Proof. intros H. unfold joining, advance; simpl. rewrite H. reflexivity. Qed.

Definition start_free (f : pc -> bool) : Prop := f PAcq = false /\ f CEntry = false /\ f KTry = false.

Lemma on_next f t ex ans : start_free f -> on f (next_op t ex ans) = false.
Proof.
  intros (A & B & C). unfold on, next_op; simpl.
  destruct (tl (t_script t)) as [|x r]; [reflexivity|]. destruct x; simpl; assumption.
Qed.

Lemma joining_next t ex ans : joining (next_op t ex ans) = None.
Proof.
  unfold joining, next_op; simpl.
  destruct (tl (t_script t)) as [|x r]; [reflexivity|]. destruct x; reflexivity.
Qed.

Lemma sf_holding : start_free holding. Proof. repeat split. Qed.
Lemma sf_hnone : start_free hnone_pc. Proof. repeat split. Qed.
Lemma sf_knone : start_free knone_pc. Proof. repeat split. Qed.
Lemma sf_conn : start_free conn_pc. Proof. repeat split. Qed.
Lemma sf_pstart : start_free pstart_pc. Proof. repeat split. Qed.

Definition b2n (b : bool) : nat := if b then 1 else 0.

(* ---- the invariant --------------------------------------------------------------------- *)
(* what the position of client thread j says about the shared state *)
Definition cl_ok (g : shared) (st : nat -> sstatus) (j : nat) (t : cthread) : Prop :=
  (on holding t = true <-> lock g = Some j) /\
  (on hnone_pc t = true -> handle g = None) /\
  (on knone_pc t = true -> conn g = None) /\
  (on pstart_pc t = true -> exists h, handle g = Some h /\ st h = SNew) /\
  (on conn_pc t = true -> inflight g = 1) /\
  (forall h, joining t = Some h -> handle g = Some h \/ handle g = None).

(* what the status of starter h says about the shared state *)
Definition st_ok (g : shared) (n : nat) (pstart : Prop) (h : nat) (x : sstatus) : Prop :=
  match x with
  | SUnborn => n <= h /\ handle g <> Some h
  | SNew => h < n /\ handle g = Some h /\ conn g = None /\ pstart
  | S68 | S69 | SPopen _ => h < n /\ handle g = Some h /\ conn g = None
  | SConnect _ => h < n /\ handle g = Some h /\ conn g = None /\ inflight g = 1
  | S71 _ => h < n /\ handle g = Some h
  | SDone _ => h < n /\ handle g <> Some h
  end.

Definition some_pstart (cl : nat -> cthread) : Prop := exists i, on pstart_pc (cl i) = true.
Definition some_conn (cl : nat -> cthread) : Prop := exists i, on conn_pc (cl i) = true.

Record Inv (s : state) : Prop := {
  I_cl : forall j, cl_ok (sh s) (starters s) j (clients s j);
  I_st : forall h, st_ok (sh s) (nstarters s) (some_pstart (clients s)) h (starters s h);
  I_in : inflight (sh s) = 0 \/ some_conn (clients s) \/ (exists h a, starters s h = SConnect a);
  (* accounting: every launched server is connected, abandoned or being connected, and every
     connection made is either the current one or was deleted by a completed close() *)
  I_acc : launches (sh s) = connects (sh s) + failed (sh s) + inflight (sh s) /\
          connects (sh s) = epoch (sh s) + b2n (is_some (conn (sh s)));
  I_nc : forall i, nclients s <= i -> t_script (clients s i) = [];
  (* a thread only ever joins a starter that exists *)
  I_jb : forall i h, joining (clients s i) = Some h -> h < nstarters s
}.

Lemma init_on f scripts i : start_free f -> on f (init_thread (nth i scripts [])) = false.
Proof.
  intros (A & B & C). unfold on, init_thread, first_pc; simpl.
  destruct (nth i scripts []) as [|x r]; simpl; [reflexivity|destruct x; assumption].
Qed.

Lemma init_inv scripts : Inv (init scripts).
Proof.
  constructor; simpl.
  - intros j. unfold cl_ok.
    rewrite (init_on _ _ _ sf_holding), (init_on _ _ _ sf_hnone), (init_on _ _ _ sf_knone),
            (init_on _ _ _ sf_pstart), (init_on _ _ _ sf_conn).
    repeat split; try discriminate.
    intros h. unfold joining, init_thread, first_pc; simpl.
    destruct (nth j scripts []) as [|x r]; simpl; [discriminate|destruct x; discriminate].
  - intros h. simpl. split; [lia|discriminate].
  - left; reflexivity.
  - split; reflexivity.
  - intros i H. unfold init_thread; simpl. apply nth_overflow. exact H.
  - intros i h. unfold joining, init_thread, first_pc; simpl.
    destruct (nth i scripts []) as [|x r]; simpl; [discriminate|destruct x; discriminate].
Qed.

(* ---- frame lemmas: what a step of one thread leaves true for another ------------------- *)
Lemma off_holding_all t : on holding t = false ->
  on hnone_pc t = false /\ on knone_pc t = false /\ on pstart_pc t = false /\
  on conn_pc t = false /\ joining t = None.
Proof.
  intros H.
  assert (A : forall f, (forall p, f p = true -> holding p = true) -> on f t = false).
  { intros f Hf. destruct (on f t) eqn:E; [|reflexivity].
    apply (on_imp _ _ _ Hf) in E. congruence. }
  repeat split.
  - apply A, hnone_holding.
  - apply A. intros p Hp. apply hnone_holding, knone_hnone, Hp.
  - apply A, pstart_holding.
  - apply A. intros p Hp. apply hnone_holding, knone_hnone, conn_knone, Hp.
  - destruct (joining t) eqn:E; [|reflexivity]. apply joining_on_holding in E. congruence.
Qed.

(* a thread outside every with-block is unaffected by anything that does not give it the lock *)
Lemma frame_nonholder g st g' st' j t :
  cl_ok g st j t -> on holding t = false -> lock g' <> Some j -> cl_ok g' st' j t.
Proof.
  intros _ H Hl. destruct (off_holding_all _ H) as (A & B & C & D & E).
  unfold cl_ok. rewrite H, A, B, C, D, E.
  repeat split; try discriminate; try (intros; congruence).
Qed.

Lemma frame_same g st g' st' j t :
  cl_ok g st j t -> lock g' = lock g -> handle g' = handle g ->
  (conn g = None -> conn g' = None) -> inflight g' = inflight g ->
  (forall h, st h = SNew -> st' h = SNew) -> cl_ok g' st' j t.
Proof.
  intros (A & B & C & D & E & F) Hl Hh Hk Hi Hs. unfold cl_ok.
  rewrite Hl, Hh, Hi. repeat split; auto; try apply A.
  intros H. destruct (D H) as (h & H1 & H2). exists h. auto.
Qed.

Lemma not_holding_other g st i j t :
  cl_ok g st j t -> j <> i -> (lock g = Some i \/ lock g = None) -> on holding t = false.
Proof.
  intros (A & _) Hne Hl. destruct (on holding t) eqn:E; [|reflexivity].
  assert (lock g = Some j) by (apply A; reflexivity). destruct Hl; congruence.
Qed.

Lemma ex_on_upd f (cl : nat -> cthread) i t' :
  on f (cl i) = false -> (exists i0, on f (cl i0) = true) -> exists i0, on f (upd cl i t' i0) = true.
Proof.
  intros H [i0 H0]. exists i0. rewrite upd_other; [exact H0|]. intros ->. congruence.
Qed.

Lemma st_ok_frame g n (P : Prop) g' (P' : Prop) h x :
  st_ok g n P h x -> handle g' = handle g -> (conn g = None -> conn g' = None) ->
  inflight g' = inflight g -> (P -> P') -> st_ok g' n P' h x.
Proof.
  intros H Hh Hk Hi HP. destruct x; simpl in *; rewrite ?Hh, ?Hi; intuition auto.
Qed.

Lemma st_ok_hnone g n (P : Prop) g' n' (P' : Prop) h x :
  st_ok g n P h x -> handle g = None -> handle g' = None -> n' = n -> st_ok g' n' P' h x.
Proof.
  intros H H0 H1 ->. destruct x; simpl in *; rewrite ?H1; rewrite H0 in H;
    intuition (try discriminate).
Qed.

Lemma is_some_false {A} (x : option A) : is_some x = false -> x = None.
Proof. destruct x; [discriminate|reflexivity]. Qed.

Lemma is_some_true {A} (x : option A) : is_some x = true -> exists v, x = Some v.
Proof. destruct x; [eauto|discriminate]. Qed.

(* nobody is between Popen and Client while a client owns the lock outside _run's connect loop
   and no starter is registered *)
Lemma inflight_zero s i :
  Inv s -> lock (sh s) = Some i -> on conn_pc (clients s i) = false -> handle (sh s) = None ->
  inflight (sh s) = 0.
Proof.
  intros HI Hl Hc Hh. destruct (I_in _ HI) as [A|[[j A]|[h [a0 A]]]]; [exact A| |].
  - exfalso. assert (Hj : lock (sh s) = Some j).
    { apply (I_cl _ HI j). apply (on_imp conn_pc); [|exact A].
      intros p Hp. apply hnone_holding, knone_hnone, conn_knone, Hp. }
    assert (j = i) by congruence. subst j. congruence.
  - exfalso. pose proof (I_st _ HI h) as B. rewrite A in B. simpl in B. destruct B as (_ & B & _).
    congruence.
Qed.

Lemma handle_lt s h : Inv s -> handle (sh s) = Some h -> h < nstarters s.
Proof.
  intros HI H. pose proof (I_st _ HI h) as Hh.
  destruct (starters s h); simpl in Hh; tauto.
Qed.

Lemma finished_not_handle s h : Inv s -> finished (starters s) h = true -> handle (sh s) <> Some h.
Proof.
  intros HI H. unfold finished in H. pose proof (I_st _ HI h) as Hh.
  destruct (starters s h); try discriminate. simpl in Hh. tauto.
Qed.

(* while starter h is registered (and running), client threads are unaffected by its steps *)
Lemma frame_starter g st g' h x' j t :
  cl_ok g st j t -> handle g = Some h -> st h <> SNew -> lock g' = lock g ->
  (handle g' = handle g \/ handle g' = None) -> cl_ok g' (upd st h x') j t.
Proof.
  intros (A & B & C & D & E & F) Hh Hs Hl Hh'.
  assert (N1 : on hnone_pc t = false).
  { destruct (on hnone_pc t); [|reflexivity]. specialize (B eq_refl). congruence. }
  assert (N2 : on knone_pc t = false).
  { destruct (on knone_pc t) eqn:X; [|reflexivity]. apply (on_imp _ _ _ knone_hnone) in X. congruence. }
  assert (N3 : on conn_pc t = false).
  { destruct (on conn_pc t) eqn:X; [|reflexivity]. apply (on_imp _ _ _ conn_knone) in X. congruence. }
  assert (N4 : on pstart_pc t = false).
  { destruct (on pstart_pc t); [|reflexivity]. destruct (D eq_refl) as (h0 & H1 & H2).
    exfalso. apply Hs. congruence. }
  unfold cl_ok. rewrite N1, N2, N3, N4, Hl. repeat split; try discriminate; try apply A.
  intros h0 H0. destruct Hh' as [->| ->]; auto.
Qed.

Lemma st_ok_other g n (P : Prop) g' (P' : Prop) h h0 x :
  st_ok g n P h0 x -> handle g = Some h -> h0 <> h ->
  (handle g' = Some h \/ handle g' = None) -> st_ok g' n P' h0 x.
Proof.
  intros H Hh Hne Hh'. destruct x; simpl in *;
    try (exfalso; destruct H as (_ & H & _) || destruct H as (_ & H); congruence);
    (split; [tauto|]); destruct Hh' as [->| ->]; congruence.
Qed.

Section Step.
Variable c : cfg.
Variable o : oracle.

Arguments advance : simpl never.

Ltac break_match H :=
  repeat match type of H with
  | context [match ?x with _ => _ end] => destruct x eqn:?
  | context [if ?x then _ else _] => destruct x eqn:?
  end.

Lemma advance_done t : advance t Done = next_op t (t_exns t) (t_answers t).
Proof. reflexivity. Qed.
Lemma advance_answer t : advance t Answer = next_op t (t_exns t) (S (t_answers t)).
Proof. reflexivity. Qed.
Lemma advance_raise t e : advance t (Raise e) = next_op t (t_exns t ++ [e]) (t_answers t).
Proof. reflexivity. Qed.

Ltac norm_self Escr :=
  rewrite ?advance_done, ?advance_answer, ?advance_raise;
  repeat first [ rewrite (on_goto _ _ _ _ _ Escr) | rewrite (joining_goto _ _ _ _ Escr)
               | rewrite on_next by (repeat split) | rewrite joining_next ].

Ltac opt_facts :=
  repeat match goal with
  | H : is_some _ = false |- _ => apply is_some_false in H
  | H : is_some _ = true |- _ => apply is_some_true in H; destruct H as [? H]
  end.

(* other client threads *)
Ltac t_cl HI i Escr :=
  let j := fresh "j" in let Hne := fresh "Hne" in let Hj := fresh "Hj" in
  intros j; destruct (Nat.eq_dec j i) as [->|Hne];
  [ rewrite upd_same; unfold cl_ok; norm_self Escr; simpl
  | rewrite (upd_other _ _ _ _ Hne); pose proof (I_cl _ HI j) as Hj;
    first [ solve [apply (frame_same _ _ _ _ _ _ Hj); simpl; auto; congruence]
          | solve [apply (frame_nonholder _ _ _ _ _ _ Hj);
                   [ apply (not_holding_other _ _ i _ _ Hj Hne); intuition congruence
                   | simpl; intuition congruence ]] ] ].

(* the stepping thread's own clauses *)
Ltac t_own Hi :=
  let A := fresh "A" in let B := fresh "B" in let C := fresh "C" in
  let D := fresh "D" in let E := fresh "E" in let F := fresh "F" in
  destruct Hi as (A & B & C & D & E & F);
  repeat match goal with H : ?f (sh ?s) = _ |- context [?f (sh ?s)] => rewrite H end;
  repeat match goal with |- context [match ?x with _ => _ end] => destruct x eqn:? end;
  repeat split; intros; try discriminate; try tauto; try congruence;
  try solve [intuition congruence];
  try solve [eexists; split; [reflexivity|apply upd_same]]; eauto.

Ltac t_nc HI i :=
  let j := fresh "j" in let Hj := fresh "Hj" in let Hne := fresh "Hne" in
  intros j Hj; unfold upd; destruct (Nat.eqb_spec j i) as [->|Hne];
  [exfalso; pose proof (I_nc _ HI i Hj); congruence | apply (I_nc _ HI); auto].

Ltac t_acc HI :=
  first [ exact (I_acc _ HI)
        | let A1 := fresh "A1" in let A2 := fresh "A2" in
          pose proof (I_acc _ HI) as [A1 A2];
          repeat match goal with H : conn _ = _ |- _ => rewrite H in A2; clear H end;
          simpl in *; lia ].

Ltac t_st HI Escr Epc :=
  let h' := fresh "h'" in let Hh := fresh "Hh" in
  intros h'; pose proof (I_st _ HI h') as Hh;
  apply (st_ok_frame _ _ _ _ _ _ _ Hh); simpl; auto; try congruence;
  apply ex_on_upd; unfold on; rewrite Escr, Epc; reflexivity.

Ltac t_in HI Escr Epc :=
  let A := fresh "A" in
  destruct (I_in _ HI) as [A|[A|A]]; simpl;
  [ left; exact A
  | right; left; apply ex_on_upd; [unfold on; rewrite Escr, Epc; reflexivity | exact A]
  | right; right; exact A ].

Ltac t_jb HI i Escr Epc :=
  let j := fresh "j" in let h0 := fresh "h0" in let Hne := fresh "Hne" in let Hj := fresh "Hj" in
  let Hb := fresh "Hb" in
  pose proof (I_jb _ HI i) as Hb; unfold joining in Hb; rewrite Escr, Epc in Hb; simpl in Hb;
  intros j h0; unfold upd; destruct (Nat.eqb_spec j i) as [->|Hne];
  [ norm_self Escr; simpl;
    repeat match goal with |- context [match ?x with _ => _ end] => destruct x eqn:? end;
    intros Hj; try discriminate; injection Hj as <-;
    first [ apply Hb; reflexivity | eapply handle_lt; eauto | apply Nat.lt_lt_succ_r, Hb; reflexivity ]
  | intros Hj; pose proof (I_jb _ HI j h0 Hj); simpl; lia ].

Ltac t_all HI i Escr Epc Hi :=
  first [ solve [t_cl HI i Escr] | solve [t_cl HI i Escr; t_own Hi] | solve [t_nc HI i]
        | solve [t_acc HI] | solve [t_st HI Escr Epc] | solve [t_in HI Escr Epc]
        | solve [t_jb HI i Escr Epc] ].

Lemma cstep_inv s i a l p g' st' n' out :
  Inv s -> t_script (clients s i) = a :: l -> t_pc (clients s i) = p ->
  cstep c o i (sh s) (starters s) (nstarters s) p = Some (g', st', n', out) ->
  Inv {| sh := g'; nclients := nclients s;
         clients := upd (clients s) i (advance (clients s i) out);
         nstarters := n'; starters := st' |}.
Proof.
  intros HI Escr Epc Hs.
  pose proof (I_cl _ HI i) as Hi. unfold cl_ok, on, joining in Hi. rewrite Escr, Epc in Hi.
  destruct p; simpl in Hs, Hi; unfold keep, do_popen, do_connect in Hs;
    try match goal with
        | E : _ = RPopen _ |- _ => destruct (o_popen o (popens (sh s))) eqn:Hop
        | E : _ = RConnect _ |- _ => destruct (o_conn o (attempts (sh s))) eqn:Hoc
        end;
    break_match Hs; inversion Hs; subst g' st' n' out; clear Hs; opt_facts.
  (* branches of line 82 that the invariant excludes *)
  all: try solve [exfalso; destruct Hi as (A & B & C & D & E & F);
                  destruct (D eq_refl) as (h' & H1 & H2); congruence].
  all: constructor; simpl.
  all: try (t_all HI i Escr Epc Hi).
  - (* PMk: the new starter *)
    destruct Hi as (A & B & C & _). specialize (B eq_refl). specialize (C eq_refl).
    intros h. destruct (Nat.eq_dec h (nstarters s)) as [->|Hne].
    + rewrite upd_same. simpl. repeat split; auto. exists i. rewrite upd_same.
      norm_self Escr. reflexivity.
    + rewrite (upd_other _ _ _ _ Hne). pose proof (I_st _ HI h) as Hh.
      destruct (starters s h); simpl in Hh |- *; destruct Hh as [H1 H2];
        try (destruct H2 as [H2 _]; congruence); try congruence;
        (split; [lia | intros X; injection X; lia]).
  - destruct Hi as (A & B & C & _). specialize (B eq_refl).
    destruct (I_in _ HI) as [X|[X|[h [a0 X]]]];
      [ left; exact X
      | right; left; apply ex_on_upd; [unfold on; rewrite Escr, Epc; reflexivity|exact X] | ].
    exfalso. pose proof (I_st _ HI h) as Hh. rewrite X in Hh. simpl in Hh.
    destruct Hh as (_ & Hh & _). congruence.
  - (* PStart: the starter begins to run *)
    intros h. pose proof (I_st _ HI h) as Hh.
    match goal with H1 : handle (sh s) = Some ?m, H2 : starters s ?m = SNew |- _ =>
      destruct (Nat.eq_dec h m) as [->|Hne];
      [ rewrite upd_same; rewrite H2 in Hh; simpl in *; tauto
      | rewrite (upd_other _ _ _ _ Hne); destruct (starters s h); simpl in *; try tauto;
        exfalso; destruct Hh as (_ & Hh & _); congruence ] end.
  - match goal with H1 : handle (sh s) = Some ?m, H2 : starters s ?m = SNew |- _ =>
      destruct (I_in _ HI) as [X|[X|[h [a0 X]]]];
      [ left; exact X
      | right; left; apply ex_on_upd; [unfold on; rewrite Escr, Epc; reflexivity|exact X]
      | right; right; exists h, a0; rewrite upd_other; [exact X | intros ->; congruence] ] end.
  - (* run(): join returned *)
    t_cl HI i Escr.
    match goal with Hf : finished (starters s) ?h = true |- _ =>
      pose proof (finished_not_handle s h HI Hf) as Hnf end.
    destruct Hi as (A & B & C & D & E & F).
    repeat split; intros; try discriminate; try tauto; try congruence.
  - t_cl HI i Escr.
    match goal with Hf : finished (starters s) ?h = true |- _ =>
      pose proof (finished_not_handle s h HI Hf) as Hnf end.
    destruct Hi as (A & B & C & D & E & F).
    repeat split; intros; try discriminate; try tauto;
      try (destruct (F _ eq_refl); congruence); try congruence.
  - t_cl HI i Escr.
    match goal with Hf : finished (starters s) ?h = true |- _ =>
      pose proof (finished_not_handle s h HI Hf) as Hnf end.
    destruct Hi as (A & B & C & D & E & F).
    repeat split; intros; try discriminate; try tauto;
      try (destruct (F _ eq_refl); congruence); try congruence.
  - (* _run: Popen succeeded *)
    t_cl HI i Escr. destruct Hi as (A & B & C & D & E & F).
    assert (Z : inflight (sh s) = 0).
    { apply (inflight_zero s i HI); [apply A; reflexivity| |apply B; reflexivity].
      unfold on. rewrite Escr, Epc. reflexivity. }
    rewrite Z. repeat split; intros; try discriminate; try tauto.
  - intros h. apply (st_ok_hnone _ _ _ _ _ _ _ _ (I_st _ HI h)); simpl; tauto.
  - right; left. exists i. rewrite upd_same. norm_self Escr. reflexivity.
  - (* _run: Client succeeded *)
    intros h. apply (st_ok_hnone _ _ _ _ _ _ _ _ (I_st _ HI h)); simpl; tauto.
  - destruct Hi as (A & B & C & D & E & F). destruct (I_acc _ HI) as [A1 A2].
    rewrite (C eq_refl) in A2. rewrite (E eq_refl) in A1 |- *. simpl in *. lia.
  - right; left. exists i. rewrite upd_same. norm_self Escr. reflexivity.
  - intros h. apply (st_ok_hnone _ _ _ _ _ _ _ _ (I_st _ HI h)); simpl; tauto.
Qed.

Lemma sstep_inv s h g' x' :
  Inv s -> sstep o (sh s) (starters s h) = Some (g', x') ->
  Inv {| sh := g'; nclients := nclients s; clients := clients s;
         nstarters := nstarters s; starters := upd (starters s) h x' |}.
Proof.
  intros HI Hs. pose proof (I_st _ HI h) as Hh.
  assert (Z : forall x a, starters s h = x -> x = SPopen a -> inflight (sh s) = 0).
  { intros x a Ex ->. destruct (I_in _ HI) as [X|[[j X]|[h0 [a0 X]]]]; [exact X| |]; exfalso.
    - rewrite Ex in Hh. simpl in Hh. destruct Hh as (_ & Hh & _).
      apply (on_imp _ _ _ conn_knone), (on_imp _ _ _ knone_hnone) in X.
      apply (I_cl _ HI j) in X. congruence.
    - pose proof (I_st _ HI h0) as H0. rewrite X in H0. rewrite Ex in Hh. simpl in *.
      assert (h0 = h) by (destruct H0 as (_ & H0 & _), Hh as (_ & Hh & _); congruence).
      subst h0. congruence. }
  destruct (starters s h) eqn:Est; simpl in Hs, Hh; unfold do_popen, do_connect in Hs;
    try discriminate;
    try match goal with
        | E : _ = SPopen _ |- _ => destruct (o_popen o (popens (sh s))) eqn:Hop
        | E : _ = SConnect _ |- _ => destruct (o_conn o (attempts (sh s))) eqn:Hoc
        end;
    inversion Hs; subst g' x'; clear Hs.
  all: assert (Hhd : handle (sh s) = Some h) by tauto.
  all: assert (Hnn : starters s h <> SNew) by (rewrite Est; discriminate).
  all: constructor; simpl.
  (* I_cl *)
  all: try solve [intros j; apply (frame_starter _ _ _ _ _ _ _ (I_cl _ HI j) Hhd Hnn); simpl; auto].
  (* I_nc, I_jb *)
  all: try exact (I_nc _ HI).
  all: try exact (I_jb _ HI).
  (* I_st *)
  all: try solve [intros h0; destruct (Nat.eq_dec h0 h) as [->|Hne];
                  [ rewrite upd_same; simpl; try rewrite (Z _ _ eq_refl eq_refl); intuition congruence
                  | rewrite (upd_other _ _ _ _ Hne);
                    apply (st_ok_other _ _ _ _ _ _ _ _ (I_st _ HI h0) Hhd Hne); simpl; auto ]].
  (* I_acc *)
  all: try solve [pose proof (I_acc _ HI) as [A1 A2]; simpl;
                  try (destruct Hh as (_ & _ & Hk & Hf); rewrite Hk in A2; rewrite Hf in A1 |- *);
                  simpl in *; lia].
  all: try exact (I_acc _ HI).
  all: try solve [pose proof (I_acc _ HI) as [A1 A2]; destruct Hh as (_ & _ & _ & Hf);
                  rewrite Hf in A1 |- *; simpl; lia].
  (* I_in *)
  all: try solve [right; right; exists h; eexists; apply upd_same].
  all: try solve [left; destruct Hh as (_ & _ & _ & Hf); rewrite Hf; reflexivity].
  all: try solve [destruct (I_in _ HI) as [X|[X|[h0 [a0 X]]]];
                  [ left; exact X | right; left; exact X
                  | right; right; exists h0, a0; rewrite upd_other; [exact X|intros ->; congruence] ]].
Qed.
End Step.

(* ---- the invariant holds in every reachable state ---------------------------------------- *)
Lemma step_inv c o s t s' : Inv s -> step c o s t = Some s' -> Inv s'.
Proof.
  intros HI H. destruct t as [i|h]; simpl in H.
  - destruct (t_script (clients s i)) as [|a l] eqn:Escr; [discriminate|].
    destruct (cstep c o i (sh s) (starters s) (nstarters s) (t_pc (clients s i)))
      as [[[[g' st'] n'] out]|] eqn:Ec; [|discriminate].
    injection H as <-. eapply cstep_inv; eauto.
  - destruct (sstep o (sh s) (starters s h)) as [[g' x']|] eqn:Es; [|discriminate].
    injection H as <-. eapply sstep_inv; eauto.
Qed.

Lemma step_or_stay_inv c o s t : Inv s -> Inv (step_or_stay c o s t).
Proof.
  intros HI. unfold step_or_stay. destruct (step c o s t) eqn:E; [eapply step_inv; eauto|exact HI].
Qed.

Lemma run_inv c o sched : forall s, Inv s -> Inv (run c o sched s).
Proof.
  unfold run. induction sched as [|t r IH]; intros s HI; simpl; [exact HI|].
  apply IH, step_or_stay_inv, HI.
Qed.

Theorem reachable_inv c o scripts sched : Inv (run c o sched (init scripts)).
Proof. apply run_inv, init_inv. Qed.

(* ---- consequences: one server per session ------------------------------------------------ *)
Lemma inflight_le1 s : Inv s -> inflight (sh s) <= 1 /\ (inflight (sh s) = 1 -> conn (sh s) = None).
Proof.
  intros HI. destruct (I_in _ HI) as [A|[[j A]|[h [a0 A]]]].
  - rewrite A. split; [lia|discriminate].
  - pose proof (I_cl _ HI j) as (_ & _ & K & _ & E & _).
    rewrite (E A). split; [lia|]. intros _. apply K, (on_imp _ _ _ conn_knone), A.
  - pose proof (I_st _ HI h) as B. rewrite A in B. simpl in B. destruct B as (_ & _ & K & E).
    rewrite E. split; [lia|auto].
Qed.

(* launches = sessions closed + launches abandoned + (1 if a server is connected or being
   connected); in particular never more than one server per session *)
Lemma launches_exact s : Inv s ->
  launches (sh s) = epoch (sh s) + failed (sh s) + b2n (is_some (conn (sh s))) + inflight (sh s) /\
  b2n (is_some (conn (sh s))) + inflight (sh s) <= 1.
Proof.
  intros HI. destruct (I_acc _ HI) as [A B]. destruct (inflight_le1 _ HI) as [C D].
  split; [lia|]. destruct (conn (sh s)); simpl; [|lia].
  destruct (Nat.eq_dec (inflight (sh s)) 1) as [E|E]; [specialize (D E); discriminate|lia].
Qed.

(* ---- deadlock freedom -------------------------------------------------------------------- *)
Definition all_done (s : state) : Prop :=
  (forall i, t_script (clients s i) = []) /\
  (forall h, starters s h = SUnborn \/ exists e, starters s h = SDone e).

Lemma holding_enabled c o i g st n p :
  holding p = true -> (forall h, joining_pc p = Some h -> finished st h = true) ->
  cstep c o i g st n p <> None.
Proof.
  intros H J. destruct p; simpl in H; try discriminate; simpl; unfold keep, do_popen, do_connect;
    try (simpl in J; rewrite (J _ eq_refl));
    repeat match goal with
    | |- context [match ?x with _ => _ end] => destruct x
    | |- context [if ?x then _ else _] => destruct x
    end; try discriminate.
Qed.

Lemma free_enabled c o i g st n p :
  holding p = false -> lock g = None -> cstep c o i g st n p <> None.
Proof.
  intros H L. destruct p; simpl in H; try discriminate; simpl; unfold keep; rewrite ?L;
    repeat match goal with
    | |- context [match ?x with _ => _ end] => destruct x
    | |- context [if ?x then _ else _] => destruct x
    end; discriminate.
Qed.

Lemma cstep_step c o s i a l :
  t_script (clients s i) = a :: l ->
  cstep c o i (sh s) (starters s) (nstarters s) (t_pc (clients s i)) <> None ->
  step c o s (Cl i) <> None.
Proof.
  intros E H. simpl. rewrite E.
  destruct (cstep c o i (sh s) (starters s) (nstarters s) (t_pc (clients s i))) as [[[[? ?] ?] ?]|];
    [discriminate|contradiction].
Qed.

Lemma bounded_dec (f : nat -> list op) n :
  (forall i, i < n -> f i = []) \/ exists i, i < n /\ f i <> [].
Proof.
  induction n as [|n IH].
  - left. intros i H. lia.
  - destruct IH as [IH|[i [H1 H2]]].
    + destruct (f n) eqn:E.
      * left. intros i H. destruct (Nat.eq_dec i n) as [->|Hne]; [exact E|apply IH; lia].
      * right. exists n. split; [lia|]. rewrite E. discriminate.
    + right. exists i. split; [lia|exact H2].
Qed.

Lemma classic_done s : Inv s ->
  (forall i, t_script (clients s i) = []) \/ exists i, t_script (clients s i) <> [].
Proof.
  intros HI. destruct (bounded_dec (fun i => t_script (clients s i)) (nclients s)) as [A|[i [_ A]]].
  - left. intros i. destruct (Nat.lt_ge_cases i (nclients s)) as [H|H]; [apply A, H|apply (I_nc _ HI), H].
  - right. exists i. exact A.
Qed.

Theorem deadlock_free c o s : Inv s -> all_done s \/ exists t, step c o s t <> None.
Proof.
  intros HI. destruct (handle (sh s)) as [h|] eqn:Hh.
  - (* a starter is registered: it, or the thread about to start it, can move *)
    right. pose proof (I_st _ HI h) as B.
    destruct (starters s h) eqn:Es; simpl in B;
      try (exfalso; tauto);
      try (exists (St h); simpl; rewrite Es; simpl; unfold do_popen, do_connect;
           repeat match goal with |- context [o_conn ?a ?b] => destruct (o_conn a b)
                                | |- context [o_popen ?a ?b] => destruct (o_popen a b) end;
           discriminate).
    destruct B as (_ & _ & _ & (i & Hi)). exists (Cl i).
    unfold on in Hi. destruct (t_script (clients s i)) as [|a l] eqn:E; [discriminate|].
    apply (cstep_step _ _ _ _ _ _ E).
    destruct (t_pc (clients s i)); try discriminate. simpl. rewrite Hh, Es. discriminate.
  - assert (Hst : forall h, starters s h = SUnborn \/ exists e, starters s h = SDone e).
    { intros h. pose proof (I_st _ HI h) as B. destruct (starters s h); simpl in B; eauto;
        exfalso; destruct B as (_ & B & _) || destruct B as (_ & B); congruence. }
    destruct (lock (sh s)) as [i|] eqn:Hl.
    + (* the lock owner can move: whatever it joins has finished *)
      right. exists (Cl i). pose proof (I_cl _ HI i) as (A & _).
      assert (Ho : on holding (clients s i) = true) by (apply A; exact Hl).
      unfold on in Ho. destruct (t_script (clients s i)) as [|a l] eqn:E; [discriminate|].
      apply (cstep_step _ _ _ _ _ _ E). apply holding_enabled; [exact Ho|].
      intros h Hj. assert (Hlt : h < nstarters s).
      { apply (I_jb _ HI i). unfold joining. rewrite E. exact Hj. }
      unfold finished. destruct (Hst h) as [X|[e X]]; rewrite X; [|reflexivity].
      exfalso. pose proof (I_st _ HI h) as B. rewrite X in B. simpl in B. lia.
    + (* the lock is free: any unfinished client can move *)
      destruct (classic_done s HI) as [D|[i D]].
      * left. split; assumption.
      * right. exists (Cl i). destruct (t_script (clients s i)) as [|a l] eqn:E; [contradiction|].
        apply (cstep_step _ _ _ _ _ _ E). apply free_enabled; [|exact Hl].
        pose proof (I_cl _ HI i) as (A & _). unfold on in A. rewrite E in A.
        destruct (holding (t_pc (clients s i))); [|reflexivity].
        assert (X : lock (sh s) = Some i) by (apply A; reflexivity). congruence.
Qed.

(* ---- no start-up exception ----------------------------------------------------------------- *)
(* lines at which run()/prepare() unwind with an exception, and the two lines of the pinned run() *)
Definition bad_pc (p : pc) : bool :=
  match p with PRelExc _ | RRelExc _ | RTest | RJoin => true | _ => false end.

Definition good_oracle (o : oracle) : Prop :=
  (forall k, o_popen o k = true) /\ (forall k, o_conn o k <> CTimeout).

Definition st_clean (x : sstatus) : Prop :=
  match x with S71 (Some _) | SDone (Some _) => False | _ => True end.

Definition Clean (s : state) : Prop :=
  (forall i, on bad_pc (clients s i) = false) /\ (forall h, st_clean (starters s h)).

Lemma sf_bad : start_free bad_pc. Proof. repeat split. Qed.

Section Clean.
Variable c : cfg.
Variable o : oracle.
Hypothesis Hf3 : fix_f3 c = true.
Hypothesis Hgood : good_oracle o.

Arguments advance : simpl never.

Ltac break_match H :=
  repeat match type of H with
  | context [match ?x with _ => _ end] => destruct x eqn:?
  | context [if ?x then _ else _] => destruct x eqn:?
  end.

Lemma cstep_clean s i a l p g' st' n' out :
  Inv s -> Clean s -> t_script (clients s i) = a :: l -> t_pc (clients s i) = p ->
  cstep c o i (sh s) (starters s) (nstarters s) p = Some (g', st', n', out) ->
  Clean {| sh := g'; nclients := nclients s;
           clients := upd (clients s) i (advance (clients s i) out);
           nstarters := n'; starters := st' |}.
Proof.
  intros HI [HC HS] Escr Epc Hs. destruct Hgood as [Gp Gc].
  pose proof (HC i) as Hb. unfold on in Hb. rewrite Escr, Epc in Hb.
  pose proof (I_cl _ HI i) as Hi. unfold cl_ok, on, joining in Hi. rewrite Escr, Epc in Hi.
  destruct p; simpl in Hs, Hb, Hi; try discriminate Hb;
    unfold keep, do_popen, do_connect in Hs; rewrite ?Hf3, ?Gp in Hs;
    try match goal with
        | E : _ = RConnect _ |- _ => pose proof (Gc (attempts (sh s))); destruct (o_conn o (attempts (sh s))) eqn:Hoc; [| |congruence]
        end;
    break_match Hs; inversion Hs; subst g' st' n' out; clear Hs.
  all: try solve [exfalso; destruct Hi as (A & B & C & D & E & F);
                  destruct (D eq_refl) as (h' & H1 & H2); congruence].
  all: split; simpl.
  all: try solve [intros j; unfold upd; destruct (Nat.eqb_spec j i) as [->|Hne]; [|apply HC];
                  rewrite ?advance_done, ?advance_answer, ?advance_raise;
                  first [ rewrite (on_goto _ _ _ _ _ Escr); reflexivity | apply on_next, sf_bad ]].
  all: try exact HS.
  all: try solve [intros h0; unfold upd; destruct (Nat.eqb h0 _); [exact I|apply HS]].
Qed.

Lemma sstep_clean s h g' x' :
  Clean s -> sstep o (sh s) (starters s h) = Some (g', x') ->
  Clean {| sh := g'; nclients := nclients s; clients := clients s;
           nstarters := nstarters s; starters := upd (starters s) h x' |}.
Proof.
  intros [HC HS] Hs. destruct Hgood as [Gp Gc]. split; simpl; [exact HC|].
  intros h0. unfold upd. destruct (Nat.eqb_spec h0 h) as [->|Hne]; [|apply HS].
  pose proof (HS h) as Hh. destruct (starters s h); simpl in Hs; try discriminate;
    unfold do_popen, do_connect in Hs; rewrite ?Gp in Hs.
  - injection Hs as _ <-. exact I.
  - injection Hs as _ <-. exact I.
  - injection Hs as _ <-. exact I.
  - pose proof (Gc (attempts (sh s))). destruct (o_conn o (attempts (sh s)));
      [injection Hs as _ <-; exact I | injection Hs as _ <-; exact I | congruence].
  - injection Hs as _ <-. exact Hh.
Qed.

Lemma step_clean s t s' : Inv s -> Clean s -> step c o s t = Some s' -> Clean s'.
Proof.
  intros HI HC H. destruct t as [i|h]; simpl in H.
  - destruct (t_script (clients s i)) as [|a l] eqn:Escr; [discriminate|].
    destruct (cstep c o i (sh s) (starters s) (nstarters s) (t_pc (clients s i)))
      as [[[[g' st'] n'] out]|] eqn:Ec; [|discriminate].
    injection H as <-. eapply cstep_clean; eauto.
  - destruct (sstep o (sh s) (starters s h)) as [[g' x']|] eqn:Es; [|discriminate].
    injection H as <-. eapply sstep_clean; eauto.
Qed.

Lemma run_clean sched : forall s, Inv s -> Clean s -> Clean (run c o sched s).
Proof.
  unfold run. induction sched as [|t r IH]; intros s HI HC; simpl; [exact HC|].
  unfold step_or_stay at 2. destruct (step c o s t) eqn:E.
  - apply IH; [eapply step_inv; eauto | eapply step_clean; eauto].
  - apply IH; assumption.
Qed.

Lemma init_clean scripts : Clean (init scripts).
Proof.
  split; simpl.
  - intros i. apply init_on, sf_bad.
  - intros h. exact I.
Qed.

Theorem no_startup_exception scripts sched : Clean (run c o sched (init scripts)).
Proof. apply run_clean; [apply init_inv|apply init_clean]. Qed.

End Clean.

(* ---- step bound per operation ---------------------------------------------------------------- *)
(* lines an operation may still execute (its own steps), by program counter *)
Definition mu (p : pc) : nat :=
  match p with
  | PAcq => 10 | PAcqW => 9 | PTestH => 8 | PRet1 => 7 | PHas => 7 | PRet2 => 6 | PMk => 6
  | PStart => 5 | PRel => 4 | PRelExc _ => 4
  | CEntry => 24 | CTry => 23 | CGet => 22 | CExc => 21 | CRun => 20
  | RAcq => 19 | RAcqW => 18 | RTest => 17 | RRead => 17 | RJoin => 16 | RTestL _ => 16
  | RJoinL _ => 15 | RJoinW _ => 14 | RHas => 13 | RCallRun => 12 | RPopen _ => 11 | RConnect _ => 10
  | RRel => 9 | RRelExc _ => 9 | CSend => 8 | CRecv => 7 | CIsOk => 6 | CRet => 5
  | KTry => 7 | KGet => 6 | KExc => 5 | KPass => 4 | KSend => 5 | KClose => 4 | KDel => 3
  end.

Definition smu (x : sstatus) : nat :=
  match x with SUnborn | SNew => 6 | S68 => 5 | S69 => 4 | SPopen _ => 3 | SConnect _ => 2
             | S71 _ => 1 | SDone _ => 0 end.

Definition no_retry (o : oracle) : Prop := forall k, o_conn o k <> CRetry.

Lemma mu_bound p : mu p <= 24.
Proof. destruct p; simpl; lia. Qed.

Lemma cstep_mu c o i g st n p g' st' n' p' :
  no_retry o -> cstep c o i g st n p = Some (g', st', n', Goto p') -> mu p' < mu p.
Proof.
  intros Hn H. destruct p; simpl in H; unfold keep, do_popen, do_connect in H;
    try match goal with
        | _ : context [o_conn o ?k] |- _ => pose proof (Hn k); destruct (o_conn o k) eqn:?; [|congruence|]
        end;
    repeat match type of H with
    | context [match ?x with _ => _ end] => destruct x eqn:?
    | context [if ?x then _ else _] => destruct x eqn:?
    end; inversion H; subst; simpl; lia.
Qed.

(* every line a client executes either ends its current operation or brings it closer to the
   end: an operation is at most 25 of its own lines (when no connect attempt is retried) *)
Theorem op_progress c o s i s' :
  no_retry o -> step c o s (Cl i) = Some s' ->
  length (t_script (clients s' i)) < length (t_script (clients s i)) \/
  (t_script (clients s' i) = t_script (clients s i) /\
   mu (t_pc (clients s' i)) < mu (t_pc (clients s i))).
Proof.
  intros Hn H. simpl in H. destruct (t_script (clients s i)) as [|a l] eqn:Escr; [discriminate|].
  destruct (cstep c o i (sh s) (starters s) (nstarters s) (t_pc (clients s i)))
    as [[[[g' st'] n'] out]|] eqn:Ec; [|discriminate].
  injection H as <-. simpl. rewrite upd_same.
  destruct out as [p'| | |e]; unfold advance, next_op; simpl; rewrite ?Escr; simpl.
  - right. split; [reflexivity|]. eapply cstep_mu; eauto.
  - left. lia.
  - left. lia.
  - left. lia.
Qed.

(* the starter thread ends after at most 5 of its own lines *)
Theorem starter_progress c o s h s' :
  no_retry o -> step c o s (St h) = Some s' ->
  smu (starters s' h) < smu (starters s h).
Proof.
  intros Hn H. simpl in H.
  destruct (sstep o (sh s) (starters s h)) as [[g' x']|] eqn:Es; [|discriminate].
  injection H as <-. simpl. rewrite upd_same.
  destruct (starters s h); simpl in Es; try discriminate; unfold do_popen, do_connect in Es;
    try (pose proof (Hn (attempts (sh s))); destruct (o_conn o (attempts (sh s))); [|congruence|]);
    try destruct (o_popen o (popens (sh s))); injection Es as _ <-; simpl; lia.
Qed.

(* ---- close() then a call: exactly one new server ----------------------------------------------- *)
(* one thread running alone: its steps as a function of (shared state, starter table, thread) *)
Definition lstate := (shared * (nat -> sstatus) * nat * cthread)%type.

Definition lstep (c : cfg) (o : oracle) (i : nat) (x : lstate) : lstate :=
  let '(g, st, n, t) := x in
  match t_script t with
  | [] => x
  | _ :: _ => match cstep c o i g st n (t_pc t) with
              | Some (g', st', n', out) => (g', st', n', advance t out)
              | None => x
              end
  end.

Fixpoint liter (c : cfg) (o : oracle) (i : nat) (k : nat) (x : lstate) : lstate :=
  match k with 0 => x | S k' => liter c o i k' (lstep c o i x) end.

Definition lview (s : state) (i : nat) : lstate := (sh s, starters s, nstarters s, clients s i).

Lemma lstep_view c o i s : lview (step_or_stay c o s (Cl i)) i = lstep c o i (lview s i).
Proof.
  unfold lview, lstep, step_or_stay, step.
  destruct (t_script (clients s i)) as [|a l] eqn:E; [reflexivity|].
  destruct (cstep c o i (sh s) (starters s) (nstarters s) (t_pc (clients s i)))
    as [[[[g' st'] n'] out]|]; simpl; rewrite ?upd_same; reflexivity.
Qed.

Lemma solo_view c o i k : forall s, lview (run c o (repeat (Cl i) k) s) i = liter c o i k (lview s i).
Proof.
  induction k as [|k IH]; intros s; simpl; [reflexivity|].
  unfold run in *. simpl. rewrite IH, lstep_view. reflexivity.
Qed.

Lemma liter_add c o i a b x : liter c o i (a + b) x = liter c o i b (liter c o i a x).
Proof. revert x. induction a as [|a IH]; intros x; simpl; [reflexivity|apply IH]. Qed.

(* From ANY state in which the session is up, nobody is inside prepare()/run() and no starter is
   registered, a thread that runs close() and then a call - alone, 22 lines - ends the session,
   launches exactly one new server and gets its reply from it. *)
Theorem close_then_call c o s i rest k :
  fix_f2 c = true -> fix_f3 c = true ->
  t_script (clients s i) = Close :: Call :: rest -> t_pc (clients s i) = KTry ->
  lock (sh s) = None -> handle (sh s) = None ->
  conn (sh s) = Some k -> c_closed k = false ->
  o_popen o (popens (sh s)) = true -> o_conn o (attempts (sh s)) = COk ->
  let s' := run c o (repeat (Cl i) 22) s in
  launches (sh s') = S (launches (sh s)) /\ epoch (sh s') = S (epoch (sh s)) /\
  conn (sh s') = Some (fresh_conn (naddr (sh s))) /\ lock (sh s') = None /\ handle (sh s') = None /\
  t_script (clients s' i) = rest /\ t_exns (clients s' i) = t_exns (clients s i) /\
  t_answers (clients s' i) = S (t_answers (clients s i)).
Proof.
  intros F2 F3 Escr Epc Hl Hh Hk Hc Hp Ho s'.
  pose proof (solo_view c o i 22 s) as V. fold s' in V. clearbody s'.
  destruct c as [f2 f3]. simpl in F2, F3. subst f2 f3.
  unfold lview in V.
  destruct (sh s) as [lk hd cn la po att co fa ep inf na sv] eqn:Eg.
  destruct (clients s i) as [scr p ex an] eqn:Et.
  destruct k as [kc kg kp ka].
  cbn [lock handle conn popens attempts launches epoch t_script t_pc t_exns t_answers c_closed] in *.
  subst lk hd cn kc scr p.
  change 22 with (15 + (1 + (1 + 5))) in V. rewrite !liter_add in V.
  match type of V with _ = liter _ _ _ 5 (liter _ _ _ 1 (liter _ _ _ 1 ?x)) =>
    remember x as x1 eqn:E1 end.
  cbv -[o_popen o_conn] in E1. subst x1.
  match type of V with _ = liter _ _ _ 5 (liter _ _ _ 1 ?x) => remember x as x2 eqn:E2 end.
  cbv -[o_popen o_conn] in E2. rewrite Hp in E2. subst x2.
  match type of V with _ = liter _ _ _ 5 ?x => remember x as x3 eqn:E3 end.
  cbv -[o_popen o_conn] in E3. rewrite Ho in E3. subst x3.
  match type of V with _ = ?x => remember x as x4 eqn:E4 end.
  cbv -[o_popen o_conn] in E4. subst x4.
  injection V as V1 V2 V3 V4. rewrite V1, V4. simpl. repeat split; reflexivity.
Qed.

(* ---- small corollaries stated in Props/C16.v -------------------------------------------------- *)
Lemma exactly_one_once_connected s : Inv s ->
  conn (sh s) <> None -> launches (sh s) = epoch (sh s) + failed (sh s) + 1.
Proof.
  intros HI H. destruct (launches_exact s HI) as [A B].
  destruct (conn (sh s)); [simpl in *; lia|contradiction].
Qed.

Lemma sstep_lock o g x g' x' : sstep o g x = Some (g', x') -> lock g' = lock g.
Proof.
  destruct x; simpl; try discriminate; unfold do_popen, do_connect; intros H.
  - injection H as <- _. reflexivity.
  - injection H as <- _. reflexivity.
  - destruct (o_popen o (popens g)); injection H as <- _; reflexivity.
  - destruct (o_conn o (attempts g)); injection H as <- _; reflexivity.
  - injection H as <- _. reflexivity.
Qed.

Lemma starter_never_locks c o s h s' : step c o s (St h) = Some s' -> lock (sh s') = lock (sh s).
Proof.
  intros H. simpl in H.
  destruct (sstep o (sh s) (starters s h)) as [[g' x']|] eqn:E; [|discriminate].
  injection H as <-. simpl. eapply sstep_lock; eauto.
Qed.

Lemma step_bound c o s :
  no_retry o ->
  (forall i s', step c o s (Cl i) = Some s' ->
     length (t_script (clients s' i)) < length (t_script (clients s i)) \/
     (t_script (clients s' i) = t_script (clients s i) /\
      mu (t_pc (clients s' i)) < mu (t_pc (clients s i)) <= 24)) /\
  (forall h s', step c o s (St h) = Some s' -> smu (starters s' h) < smu (starters s h) <= 6).
Proof.
  intros Hn. split.
  - intros i s' H. destruct (op_progress c o s i s' Hn H) as [A|[A B]]; [left; exact A|right].
    split; [exact A|split; [exact B|apply mu_bound]].
  - intros h s' H. split; [eapply starter_progress; eauto|].
    destruct (starters s h); simpl; lia.
Qed.

(* ---- close-free scripts: no exception at all, every call is answered ----------------------- *)
Definition op_of_pc (p : pc) : op :=
  match p with
  | PAcq | PAcqW | PTestH | PRet1 | PHas | PRet2 | PMk | PStart | PRel | PRelExc _ => Prepare
  | KTry | KGet | KExc | KPass | KSend | KClose | KDel => Close
  | _ => Call
  end.

Definition need_pc (p : pc) : bool :=
  match p with RRel | CSend | CRecv | CIsOk | CRet => true | _ => false end.
Definition recv_pc (p : pc) : bool := match p with CRecv => true | _ => false end.

Fixpoint cnt (f : nat -> bool) (n : nat) : nat :=
  match n with 0 => 0 | S m => cnt f m + b2n (f m) end.

Fixpoint calls (l : list op) : nat :=
  match l with [] => 0 | Call :: r => S (calls r) | _ :: r => calls r end.

Lemma cnt_ext f g n : (forall j, j < n -> f j = g j) -> cnt f n = cnt g n.
Proof.
  induction n as [|n IH]; intros H; simpl; [reflexivity|].
  rewrite IH by (intros; apply H; lia). rewrite (H n) by lia. reflexivity.
Qed.

Lemma cnt_upd f g n i : i < n -> (forall j, j <> i -> g j = f j) ->
  cnt g n + b2n (f i) = cnt f n + b2n (g i).
Proof.
  induction n as [|n IH]; intros Hi H; [lia|]. simpl.
  destruct (Nat.eq_dec i n) as [->|Hne].
  - rewrite (cnt_ext g f n) by (intros; apply H; lia). lia.
  - rewrite (H n) by lia. assert (i < n) by lia. specialize (IH H0 H). lia.
Qed.

Lemma cnt_zero f n : (forall j, j < n -> f j = false) -> cnt f n = 0.
Proof.
  induction n as [|n IH]; intros H; simpl; [reflexivity|].
  rewrite IH by (intros; apply H; lia). rewrite (H n) by lia. reflexivity.
Qed.

Lemma cnt_pos f n i : i < n -> f i = true -> 1 <= cnt f n.
Proof.
  induction n as [|n IH]; intros Hi H; [lia|]. simpl.
  destruct (Nat.eq_dec i n) as [->|Hne]; [rewrite H; simpl; lia|].
  assert (i < n) by lia. specialize (IH H0 H). lia.
Qed.

Lemma op_start a : op_of_pc (start_pc a) = a.
Proof. destruct a; reflexivity. Qed.

Definition nrecv (s : state) : nat := cnt (fun j => on recv_pc (clients s j)) (nclients s).

Record CF (scripts : list (list op)) (s : state) : Prop := {
  F_op : forall i a l, t_script (clients s i) = a :: l -> op_of_pc (t_pc (clients s i)) = a;
  F_cf : forall i, ~ In Close (t_script (clients s i));
  F_kg : forall k, conn (sh s) = Some k -> c_closed k = false /\ c_gotclose k = false;
  F_nc : forall i, on need_pc (clients s i) = true -> conn (sh s) <> None;
  F_pc : forall k, conn (sh s) = Some k -> c_pending k = nrecv s;
  F_ex : forall i, t_exns (clients s i) = [];
  F_an : forall i, t_answers (clients s i) + calls (t_script (clients s i)) = calls (nth i scripts []);
  F_ef : epoch (sh s) = 0 /\ failed (sh s) = 0;
  F_ac : forall i, 0 < t_answers (clients s i) -> conn (sh s) <> None
}.

Lemma init_cf scripts : (forall l, In l scripts -> ~ In Close l) -> CF scripts (init scripts).
Proof.
  intros Hcf. constructor; simpl.
  - intros i a l H. unfold first_pc. rewrite H. apply op_start.
  - intros i. destruct (nth_in_or_default i scripts []) as [H|H]; [apply Hcf, H|rewrite H; auto].
  - discriminate.
  - intros i. rewrite init_on by (repeat split). discriminate.
  - discriminate.
  - reflexivity.
  - reflexivity.
  - split; reflexivity.
  - intros i H. inversion H.
Qed.

Section CloseFree.
Variable c : cfg.
Variable o : oracle.
Variable scripts : list (list op).
Hypothesis Hf3 : fix_f3 c = true.
Hypothesis Hgood : good_oracle o.

Arguments advance : simpl never.

Ltac break_match H :=
  repeat match type of H with
  | context [match ?x with _ => _ end] => destruct x eqn:?
  | context [if ?x then _ else _] => destruct x eqn:?
  end.

Lemma live_lt s i a l : Inv s -> t_script (clients s i) = a :: l -> i < nclients s.
Proof.
  intros HI H. destruct (Nat.lt_ge_cases i (nclients s)) as [X|X]; [exact X|].
  rewrite (I_nc _ HI i X) in H. discriminate.
Qed.

Lemma nrecv_same s i t' g' n' st' :
  on recv_pc t' = on recv_pc (clients s i) ->
  nrecv {| sh := g'; nclients := nclients s; clients := upd (clients s) i t'; nstarters := n'; starters := st' |}
  = nrecv s.
Proof.
  intros H. unfold nrecv; simpl. apply cnt_ext. intros j _. unfold upd.
  destruct (Nat.eqb_spec j i) as [->|]; auto.
Qed.

Lemma nrecv_upd s i t' g' n' st' :
  i < nclients s ->
  nrecv {| sh := g'; nclients := nclients s; clients := upd (clients s) i t'; nstarters := n'; starters := st' |}
  + b2n (on recv_pc (clients s i)) = nrecv s + b2n (on recv_pc t').
Proof.
  intros H. unfold nrecv; simpl.
  pose proof (cnt_upd (fun j => on recv_pc (clients s j)) (fun j => on recv_pc (upd (clients s) i t' j))
                      (nclients s) i H) as X. simpl in X. rewrite upd_same in X. apply X.
  intros j Hne. rewrite upd_other by exact Hne. reflexivity.
Qed.

Lemma cstep_cf s i a l p g' st' n' out :
  Inv s -> Clean s -> CF scripts s -> t_script (clients s i) = a :: l -> t_pc (clients s i) = p ->
  cstep c o i (sh s) (starters s) (nstarters s) p = Some (g', st', n', out) ->
  CF scripts {| sh := g'; nclients := nclients s;
                clients := upd (clients s) i (advance (clients s i) out);
                nstarters := n'; starters := st' |}.
Proof.
  intros HI [HC HS] HF Escr Epc Hs. destruct Hgood as [Gp Gc].
  pose proof (live_lt _ _ _ _ HI Escr) as Hlt.
  pose proof (HC i) as Hb. unfold on in Hb. rewrite Escr, Epc in Hb.
  pose proof (I_cl _ HI i) as Hi. unfold cl_ok, on, joining in Hi. rewrite Escr, Epc in Hi.
  pose proof (F_op _ _ HF i _ _ Escr) as Hop. rewrite Epc in Hop.
  pose proof (F_cf _ _ HF i) as Hcf. rewrite Escr in Hcf.
  pose proof (F_nc _ _ HF i) as Hnc. unfold on in Hnc. rewrite Escr, Epc in Hnc.
  destruct p; simpl in Hs, Hb, Hi, Hop, Hnc; try discriminate Hb;
    try (exfalso; apply Hcf; left; symmetry; exact Hop);
    unfold keep, do_popen, do_connect in Hs; rewrite ?Hf3, ?Gp in Hs;
    try match goal with
        | E : _ = RConnect _ |- _ => pose proof (Gc (attempts (sh s))); destruct (o_conn o (attempts (sh s))) eqn:Hoc; [| |congruence]
        end;
    break_match Hs; inversion Hs; subst g' st' n' out; clear Hs;
    repeat match goal with
    | H : is_some _ = true |- _ => apply is_some_true in H; destruct H as [? H]
    | H : is_some _ = false |- _ => apply is_some_false in H
    end.
  all: try solve [exfalso; destruct Hi as (A & B & C & D & E & F);
                  destruct (D eq_refl) as (h' & H1 & H2); congruence].
  (* exceptions at send/recv are excluded: the connection exists, is open, and a reply is pending *)
  all: try solve [exfalso; apply Hnc; first [reflexivity|assumption]].
  all: try solve [exfalso; match goal with H : conn _ = Some ?k0 |- _ =>
                    destruct (F_kg _ _ HF _ H) as [X1 X2]; congruence end].
  all: try solve [exfalso; match goal with H : conn _ = Some ?k0 |- _ =>
                    pose proof (F_pc _ _ HF _ H) as X;
                    assert (1 <= nrecv s) by (apply (cnt_pos _ _ i Hlt); unfold on; rewrite Escr, Epc; reflexivity);
                    lia end].
  all: constructor; simpl.
  all: try exact (F_ef _ _ HF).
  (* F_op *)
  all: try solve [intros j a' l'; unfold upd; destruct (Nat.eqb_spec j i) as [->|Hne]; [|apply (F_op _ _ HF)];
                  rewrite ?advance_done, ?advance_answer, ?advance_raise;
                  first [ unfold advance; simpl; rewrite Escr; intros X; injection X as <- _; simpl; congruence
                        | unfold next_op; simpl; rewrite Escr; simpl; intros X; unfold first_pc; rewrite X; apply op_start ]].
  (* F_cf *)
  all: try solve [intros j; unfold upd; destruct (Nat.eqb_spec j i) as [->|Hne]; [|apply (F_cf _ _ HF)];
                  rewrite ?advance_done, ?advance_answer, ?advance_raise; unfold advance, next_op; simpl;
                  rewrite Escr; simpl; intros X; apply Hcf; first [exact X | right; exact X]].
  (* F_ex *)
  all: try solve [intros j; unfold upd; destruct (Nat.eqb_spec j i) as [->|Hne]; [|apply (F_ex _ _ HF)];
                  rewrite ?advance_done, ?advance_answer; unfold advance, next_op; simpl; apply (F_ex _ _ HF)].
  (* F_an *)
  all: try solve [intros j; unfold upd; destruct (Nat.eqb_spec j i) as [->|Hne]; [|apply (F_an _ _ HF)];
                  rewrite ?advance_done, ?advance_answer; unfold advance, next_op; simpl;
                  pose proof (F_an _ _ HF i) as X; rewrite Escr in X; subst a; simpl in X |- *; rewrite ?Escr; simpl; lia].
  (* F_kg *)
  all: try solve [intros k Hk; apply (F_kg _ _ HF); exact Hk].
  all: try solve [intros k Hk; injection Hk as <-; simpl;
                  match goal with
                  | H : conn _ = Some ?k0 |- _ => destruct (F_kg _ _ HF _ H) as [X1 X2]; split; congruence
                  | _ => split; reflexivity
                  end].
  (* F_nc *)
  all: try solve [intros j; unfold upd; destruct (Nat.eqb_spec j i) as [->|Hne];
                  [ rewrite ?advance_done, ?advance_answer;
                    first [ rewrite (on_goto _ _ _ _ _ Escr); simpl; intros X; try discriminate X; simpl;
                            first [congruence | apply Hnc; reflexivity]
                          | rewrite on_next by (repeat split); discriminate ]
                  | intros X; pose proof (F_nc _ _ HF j X); simpl; congruence ]].
  (* F_ac *)
  all: try solve [intros j; unfold upd; destruct (Nat.eqb_spec j i) as [->|Hne];
                  [ rewrite ?advance_done, ?advance_answer; unfold advance, next_op; simpl; intros X;
                    first [ pose proof (F_ac _ _ HF i X); simpl; congruence | simpl; apply Hnc; reflexivity ]
                  | intros X; pose proof (F_ac _ _ HF j X); simpl; congruence ]].
  (* F_pc: threads that neither enter nor leave the recv line *)
  all: try solve [intros k Hk; simpl in Hk; rewrite nrecv_same;
                  [ apply (F_pc _ _ HF); exact Hk
                  | rewrite ?advance_done, ?advance_answer;
                    first [rewrite (on_goto _ _ _ _ _ Escr) | rewrite on_next by (repeat split)];
                    unfold on; rewrite Escr, Epc; reflexivity ]].
  - (* _run: Client succeeded - nobody can be waiting for a reply on a connection that did not exist *)
    intros k Hk. injection Hk as <-. simpl.
    rewrite nrecv_same by (rewrite (on_goto _ _ _ _ _ Escr); unfold on; rewrite Escr, Epc; reflexivity).
    symmetry. apply cnt_zero. intros j _.
    destruct (on recv_pc (clients s j)) eqn:X; [|reflexivity]. exfalso.
    apply (F_nc _ _ HF j); [|apply Hi; reflexivity].
    revert X. apply on_imp. intros p. destruct p; simpl; auto.
  - (* send: one more reply outstanding, one more thread on the recv line *)
    intros k Hk. injection Hk as <-. simpl.
    match goal with H : conn _ = Some ?k0 |- _ => pose proof (F_pc _ _ HF _ H) as X end.
    pose proof (nrecv_upd s i (advance (clients s i) (Goto CRecv))
                  (set_conn (Some {| c_closed := false; c_gotclose := false;
                                     c_pending := S (c_pending c0); c_addr := c_addr c0 |}) (sh s))
                  (nstarters s) (starters s) Hlt) as Y.
    rewrite (on_goto _ _ _ _ _ Escr) in Y. unfold on in Y at 1. rewrite Escr, Epc in Y. simpl in Y. lia.
  - (* recv: one reply consumed, the thread leaves the recv line *)
    intros k Hk. injection Hk as <-. simpl.
    match goal with H : conn _ = Some ?k0 |- _ => pose proof (F_pc _ _ HF _ H) as X end.
    pose proof (nrecv_upd s i (advance (clients s i) (Goto CIsOk))
                  (set_conn (Some {| c_closed := false; c_gotclose := c_gotclose c0;
                                     c_pending := n; c_addr := c_addr c0 |}) (sh s))
                  (nstarters s) (starters s) Hlt) as Y.
    rewrite (on_goto _ _ _ _ _ Escr) in Y. unfold on in Y at 1. rewrite Escr, Epc in Y. simpl in Y. lia.
Qed.

Lemma sstep_cf s h g' x' :
  Inv s -> CF scripts s -> sstep o (sh s) (starters s h) = Some (g', x') ->
  CF scripts {| sh := g'; nclients := nclients s; clients := clients s;
                nstarters := nstarters s; starters := upd (starters s) h x' |}.
Proof.
  intros HI HF Hs. pose proof (I_st _ HI h) as Hh.
  assert (Hz : conn (sh s) = None -> nrecv s = 0).
  { intros Hk. apply cnt_zero. intros j _.
    destruct (on recv_pc (clients s j)) eqn:X; [|reflexivity]. exfalso.
    apply (F_nc _ _ HF j); [|exact Hk]. revert X. apply on_imp. intros p. destruct p; simpl; auto. }
  destruct (starters s h); simpl in Hs, Hh; try discriminate; unfold do_popen, do_connect in Hs;
    try destruct (o_popen o (popens (sh s)));
    try (pose proof (proj2 Hgood (attempts (sh s))); destruct (o_conn o (attempts (sh s))); [| |congruence]);
    injection Hs as <- <-.
  all: constructor; simpl;
    try exact (F_op _ _ HF); try exact (F_cf _ _ HF); try exact (F_ex _ _ HF); try exact (F_an _ _ HF);
    try exact (F_kg _ _ HF); try exact (F_nc _ _ HF); try exact (F_pc _ _ HF); try exact (F_ef _ _ HF); try exact (F_ac _ _ HF).
  all: try solve [intros k Hk; injection Hk as <-; simpl; auto].
  all: try solve [intros j X; discriminate].
  all: try solve [intros j X; pose proof (F_ac _ _ HF j X); discriminate].
  all: try solve [intros k Hk; injection Hk as <-; simpl; unfold nrecv; simpl; symmetry; apply Hz; tauto].
Qed.

Lemma step_cf s t s' : Inv s -> Clean s -> CF scripts s -> step c o s t = Some s' -> CF scripts s'.
Proof.
  intros HI HC HF H. destruct t as [i|h]; simpl in H.
  - destruct (t_script (clients s i)) as [|a l] eqn:Escr; [discriminate|].
    destruct (cstep c o i (sh s) (starters s) (nstarters s) (t_pc (clients s i)))
      as [[[[g' st'] n'] out]|] eqn:Ec; [|discriminate].
    injection H as <-. eapply cstep_cf; eauto.
  - destruct (sstep o (sh s) (starters s h)) as [[g' x']|] eqn:Es; [|discriminate].
    injection H as <-. eapply sstep_cf; eauto.
Qed.

Lemma run_cf sched : forall s, Inv s -> Clean s -> CF scripts s -> CF scripts (run c o sched s).
Proof.
  unfold run. induction sched as [|t r IH]; intros s HI HC HF; simpl; [exact HF|].
  unfold step_or_stay at 2. destruct (step c o s t) eqn:E.
  - apply IH; [eapply step_inv; eauto | eapply step_clean; eauto | eapply step_cf; eauto].
  - apply IH; assumption.
Qed.

(* Close-free scripts (background prepare() requests and calls from any number of threads),
   repaired run(), launches that succeed: under every schedule no operation ever ends with an
   exception, at most one server is launched, and each thread has received exactly as many
   replies as calls it has completed - all of them once its script has run to its end. *)
Theorem closefree_all_answered :
  (forall l, In l scripts -> ~ In Close l) ->
  forall sched, let s := run c o sched (init scripts) in
  (forall i, t_exns (clients s i) = []) /\
  (forall i, t_answers (clients s i) + calls (t_script (clients s i)) = calls (nth i scripts [])) /\
  (forall i, t_script (clients s i) = [] -> t_answers (clients s i) = calls (nth i scripts [])) /\
  launches (sh s) <= 1 /\
  ((exists i, 0 < t_answers (clients s i)) -> launches (sh s) = 1).
Proof.
  intros Hcf sched s.
  assert (HI : Inv s) by apply reachable_inv.
  assert (HF : CF scripts s).
  { apply run_cf; [apply init_inv|apply init_clean|apply init_cf, Hcf]. }
  split; [exact (F_ex _ _ HF)|]. split; [exact (F_an _ _ HF)|].
  split. { intros i H. pose proof (F_an _ _ HF i) as X. rewrite H in X. simpl in X. lia. }
  destruct (F_ef _ _ HF) as [E0 E1]. destruct (launches_exact s HI) as [A B].
  rewrite E0, E1 in A. split; [lia|]. intros [i Hi]. pose proof (F_ac _ _ HF i Hi) as Hk.
  destruct (conn (sh s)); [simpl in *; lia|contradiction].
Qed.
End CloseFree.

(* ---- every launch listens on a fresh address, and the connection goes to the newest server ---- *)
Definition gt_all (a : nat) (l : list nat) : Prop := Forall (fun x => x < a) l.

Fixpoint sdec (l : list nat) : Prop :=       (* strictly decreasing *)
  match l with [] => True | x :: r => gt_all x r /\ sdec r end.

Definition addr_pc_ok (g : shared) (p : pc) : Prop :=
  match p with
  | RPopen a => a < naddr g /\ gt_all a (srv_addrs g)
  | RConnect a => exists r, srv_addrs g = a :: r
  | _ => True
  end.

Definition addr_st_ok (g : shared) (x : sstatus) : Prop :=
  match x with
  | SPopen a => a < naddr g /\ gt_all a (srv_addrs g)
  | SConnect a => exists r, srv_addrs g = a :: r
  | _ => True
  end.

Record Addr (s : state) : Prop := {
  A_srv : sdec (srv_addrs (sh s)) /\ gt_all (naddr (sh s)) (srv_addrs (sh s));
  A_len : length (srv_addrs (sh s)) = launches (sh s);
  A_cl : forall i a l, t_script (clients s i) = a :: l -> addr_pc_ok (sh s) (t_pc (clients s i));
  A_st : forall h, addr_st_ok (sh s) (starters s h);
  A_conn : forall k, conn (sh s) = Some k -> exists r, srv_addrs (sh s) = c_addr k :: r
}.

Lemma gt_all_mono a b l : gt_all a l -> a <= b -> gt_all b l.
Proof. unfold gt_all. intros H Hab. eapply Forall_impl; [|exact H]. simpl. intros; lia. Qed.

Lemma sdec_nodup l : sdec l -> NoDup l.
Proof.
  induction l as [|x r IH]; intros H; [constructor|]. destruct H as [H1 H2].
  constructor; [|apply IH, H2]. intros Hin. unfold gt_all in H1. rewrite Forall_forall in H1.
  specialize (H1 _ Hin). lia.
Qed.

Lemma addr_pc_mono g g' p :
  addr_pc_ok g p -> srv_addrs g' = srv_addrs g -> naddr g <= naddr g' -> addr_pc_ok g' p.
Proof. destruct p; simpl; auto; intros H -> Hn; [destruct H; split; [lia|assumption]|assumption]. Qed.

Lemma addr_st_mono g g' x :
  addr_st_ok g x -> srv_addrs g' = srv_addrs g -> naddr g <= naddr g' -> addr_st_ok g' x.
Proof. destruct x; simpl; auto; intros H -> Hn; [destruct H; split; [lia|assumption]|assumption]. Qed.

Lemma init_addr scripts : Addr (init scripts).
Proof.
  constructor; simpl.
  - split; [exact I|constructor].
  - reflexivity.
  - intros i a l H. unfold first_pc. rewrite H. destruct a; exact I.
  - intros h. exact I.
  - discriminate.
Qed.

Section AddrStep.
Variable c : cfg.
Variable o : oracle.

Arguments advance : simpl never.

Ltac break_match H :=
  repeat match type of H with
  | context [match ?x with _ => _ end] => destruct x eqn:?
  | context [if ?x then _ else _] => destruct x eqn:?
  end.

(* a client inside _run excludes every other thread from _run *)
Lemma in_run_alone s i a l :
  Inv s -> t_script (clients s i) = a :: l -> knone_pc (t_pc (clients s i)) = true ->
  (forall j a' l', j <> i -> t_script (clients s j) = a' :: l' -> knone_pc (t_pc (clients s j)) = false) /\
  (forall h, match starters s h with SPopen _ | SConnect _ => False | _ => True end) /\
  conn (sh s) = None.
Proof.
  intros HI E K.
  assert (Ki : on knone_pc (clients s i) = true) by (unfold on; rewrite E; exact K).
  pose proof (I_cl _ HI i) as (L & Hn & Kn & _).
  assert (Hh : handle (sh s) = None) by (apply Hn, (on_imp _ _ _ knone_hnone), Ki).
  assert (Hl : lock (sh s) = Some i).
  { apply L, (on_imp _ _ _ hnone_holding), (on_imp _ _ _ knone_hnone), Ki. }
  split; [|split; [|apply Kn, Ki]].
  - intros j a' l' Hne E'. destruct (knone_pc (t_pc (clients s j))) eqn:X; [|reflexivity]. exfalso.
    assert (Kj : on knone_pc (clients s j) = true) by (unfold on; rewrite E'; exact X).
    pose proof (I_cl _ HI j) as (Lj & _).
    assert (lock (sh s) = Some j).
    { apply Lj, (on_imp _ _ _ hnone_holding), (on_imp _ _ _ knone_hnone), Kj. }
    congruence.
  - intros h. pose proof (I_st _ HI h) as B. destruct (starters s h); simpl in B; auto;
      destruct B as (_ & B & _); congruence.
Qed.

Lemma cstep_addr s i a l p g' st' n' out :
  Inv s -> Addr s -> t_script (clients s i) = a :: l -> t_pc (clients s i) = p ->
  cstep c o i (sh s) (starters s) (nstarters s) p = Some (g', st', n', out) ->
  Addr {| sh := g'; nclients := nclients s;
          clients := upd (clients s) i (advance (clients s i) out);
          nstarters := n'; starters := st' |}.
Proof.
  intros HI HA Escr Epc Hs.
  pose proof (A_cl _ HA i _ _ Escr) as Hown. rewrite Epc in Hown.
  destruct (A_srv _ HA) as [S1 S2].
  assert (Hal : knone_pc p = true -> _) by (intros K; rewrite <- Epc in K; exact (in_run_alone s i a l HI Escr K)).
  destruct p; simpl in Hs, Hown, Hal; unfold keep, do_popen, do_connect in Hs;
    try match goal with
        | E : _ = RPopen _ |- _ => destruct (o_popen o (popens (sh s))) eqn:Hop
        | E : _ = RConnect _ |- _ => destruct (o_conn o (attempts (sh s))) eqn:Hoc
        end;
    break_match Hs; inversion Hs; subst g' st' n' out; clear Hs.
  all: constructor; simpl.
  (* A_len *)
  all: try solve [pose proof (A_len _ HA); simpl; lia].
  (* A_srv *)
  all: try exact (A_srv _ HA).
  all: try solve [split; [exact S1 | apply (gt_all_mono _ _ _ S2); lia]].
  (* A_conn *)
  all: try exact (A_conn _ HA).
  all: try solve [intros k Hk; injection Hk as <-; simpl;
                  match goal with H : conn _ = Some ?k0 |- _ => exact (A_conn _ HA _ H) end].
  all: try solve [intros k Hk; discriminate Hk].
  (* A_st: starter table unchanged or extended by SNew / S68 *)
  all: try exact (A_st _ HA).
  all: try solve [intros h'; apply (addr_st_mono _ _ _ (A_st _ HA h')); simpl; auto].
  all: try solve [intros h'; unfold upd; destruct (Nat.eqb h' _); [exact I|];
                  apply (addr_st_mono _ _ _ (A_st _ HA h')); simpl; auto].
  (* A_cl *)
  all: try solve [intros j a' l'; unfold upd; destruct (Nat.eqb_spec j i) as [->|Hne];
                  [ rewrite ?advance_done, ?advance_answer, ?advance_raise;
                    first [ solve [unfold next_op; simpl; rewrite Escr; simpl; intros X; unfold first_pc; rewrite X;
                                   destruct a'; exact I]
                          | solve [unfold advance; simpl; intros _; simpl; auto; try (split; [lia|assumption]); eauto] ]
                  | intros X; apply (addr_pc_mono _ _ _ (A_cl _ HA j _ _ X)); simpl; auto ]].
  - (* Popen succeeded: a is above every address used before *)
    destruct Hown as [H1 H2]. split; [split; assumption|constructor; [exact H1|exact S2]].
  - destruct (Hal eq_refl) as (Hoth & _ & _).
    intros j a' l'. unfold upd. destruct (Nat.eqb_spec j i) as [->|Hne].
    + unfold advance; simpl. intros _. exists (srv_addrs (sh s)). reflexivity.
    + intros X. specialize (Hoth j a' l' Hne X).
      destruct (t_pc (clients s j)); simpl in *; try exact I; discriminate.
  - destruct (Hal eq_refl) as (_ & Hst & _). intros h'. specialize (Hst h').
    destruct (starters s h'); simpl; auto; contradiction.
  - destruct (Hal eq_refl) as (_ & _ & Hk). intros k X. congruence.
  - (* Client succeeded: the connection goes to the address of the newest server *)
    intros k X. injection X as <-. simpl. exact Hown.
Qed.

Lemma starter_in_run_alone s h :
  Inv s -> (exists a, starters s h = SPopen a \/ starters s h = SConnect a) ->
  (forall j a' l', t_script (clients s j) = a' :: l' -> knone_pc (t_pc (clients s j)) = false) /\
  (forall h', h' <> h -> match starters s h' with SPopen _ | SConnect _ => False | _ => True end) /\
  conn (sh s) = None.
Proof.
  intros HI [a Hs]. pose proof (I_st _ HI h) as B.
  assert (Hh : handle (sh s) = Some h /\ conn (sh s) = None).
  { destruct Hs as [Hs|Hs]; rewrite Hs in B; simpl in B; tauto. }
  destruct Hh as [Hh Hk]. split; [|split; [|exact Hk]].
  - intros j a' l' E'. destruct (knone_pc (t_pc (clients s j))) eqn:X; [|reflexivity]. exfalso.
    assert (Kj : on knone_pc (clients s j) = true) by (unfold on; rewrite E'; exact X).
    pose proof (I_cl _ HI j) as (_ & Hn & _).
    assert (handle (sh s) = None) by (apply Hn, (on_imp _ _ _ knone_hnone), Kj). congruence.
  - intros h' Hne. pose proof (I_st _ HI h') as B'. destruct (starters s h'); simpl in B'; auto;
      destruct B' as (_ & B' & _); congruence.
Qed.

Lemma sstep_addr s h g' x' :
  Inv s -> Addr s -> sstep o (sh s) (starters s h) = Some (g', x') ->
  Addr {| sh := g'; nclients := nclients s; clients := clients s;
          nstarters := nstarters s; starters := upd (starters s) h x' |}.
Proof.
  intros HI HA Hs. pose proof (A_st _ HA h) as Hown. destruct (A_srv _ HA) as [S1 S2].
  assert (Hal : (exists a, starters s h = SPopen a \/ starters s h = SConnect a) -> _)
    by (exact (starter_in_run_alone s h HI)).
  destruct (starters s h) eqn:Est; simpl in Hs, Hown; try discriminate; unfold do_popen, do_connect in Hs;
    try match goal with
        | E : _ = SPopen _ |- _ => destruct (o_popen o (popens (sh s)))
        | E : _ = SConnect _ |- _ => destruct (o_conn o (attempts (sh s)))
        end;
    injection Hs as <- <-.
  all: constructor; simpl.
  all: try solve [pose proof (A_len _ HA); simpl; lia].
  all: try exact (A_srv _ HA).
  all: try solve [split; [exact S1 | apply (gt_all_mono _ _ _ S2); lia]].
  all: try exact (A_conn _ HA).
  all: try solve [intros j a' l' X; apply (addr_pc_mono _ _ _ (A_cl _ HA j _ _ X)); simpl; auto].
  all: try solve [intros h'; unfold upd; destruct (Nat.eqb_spec h' h) as [->|Hne];
                  [ simpl; auto; try (split; [lia|assumption])
                  | apply (addr_st_mono _ _ _ (A_st _ HA h')); simpl; auto ]].
  - destruct Hown as [H1 H2]. split; [split; assumption|constructor; [exact H1|exact S2]].
  - destruct (Hal (ex_intro _ a (or_introl eq_refl))) as (Hoth & _ & _).
    intros j a' l' X. specialize (Hoth j a' l' X).
    destruct (t_pc (clients s j)); simpl in *; try exact I; discriminate.
  - destruct (Hal (ex_intro _ a (or_introl eq_refl))) as (_ & Hst & _).
    intros h'. unfold upd. destruct (Nat.eqb_spec h' h) as [->|Hne].
    + simpl. exists (srv_addrs (sh s)). reflexivity.
    + specialize (Hst h' Hne). destruct (starters s h'); simpl; auto; contradiction.
  - destruct (Hal (ex_intro _ a (or_introl eq_refl))) as (_ & _ & Hk). intros k X. congruence.
  - intros k X. injection X as <-. simpl. exact Hown.
Qed.

Lemma step_addr s t s' : Inv s -> Addr s -> step c o s t = Some s' -> Addr s'.
Proof.
  intros HI HA H. destruct t as [i|h]; simpl in H.
  - destruct (t_script (clients s i)) as [|a l] eqn:Escr; [discriminate|].
    destruct (cstep c o i (sh s) (starters s) (nstarters s) (t_pc (clients s i)))
      as [[[[g' st'] n'] out]|] eqn:Ec; [|discriminate].
    injection H as <-. eapply cstep_addr; eauto.
  - destruct (sstep o (sh s) (starters s h)) as [[g' x']|] eqn:Es; [|discriminate].
    injection H as <-. eapply sstep_addr; eauto.
Qed.

Lemma run_addr sched : forall s, Inv s -> Addr s -> Addr (run c o sched s).
Proof.
  unfold run. induction sched as [|t r IH]; intros s HI HA; simpl; [exact HA|].
  unfold step_or_stay at 2. destruct (step c o s t) eqn:E.
  - apply IH; [eapply step_inv; eauto | eapply step_addr; eauto].
  - apply IH; assumption.
Qed.

(* Every server is launched on an address no earlier launch of this client used, and the
   connection (if any) goes to the address of the most recently launched server. *)
Theorem fresh_addresses scripts sched :
  let s := run c o sched (init scripts) in
  NoDup (srv_addrs (sh s)) /\ length (srv_addrs (sh s)) = launches (sh s) /\
  (forall k, conn (sh s) = Some k -> exists r, srv_addrs (sh s) = c_addr k :: r).
Proof.
  intros s. assert (HA : Addr s) by (apply run_addr; [apply init_inv|apply init_addr]).
  split; [apply sdec_nodup, (A_srv _ HA)|]. split; [exact (A_len _ HA)|exact (A_conn _ HA)].
Qed.
End AddrStep.

(* ---- the server of a session ends when its connection ends -------------------------------------- *)
Lemma srv_exited_stays evs n : fold_left srv_step evs (SrvExited n) = SrvExited n.
Proof. induction evs as [|e r IH]; simpl; [reflexivity|exact IH]. Qed.

Lemma srv_requests k : forall n, fold_left srv_step (repeat EvRequest k) (SrvServing n) = SrvServing (k + n).
Proof.
  induction k as [|k IH]; intros n; simpl; [reflexivity|]. rewrite IH. f_equal. lia.
Qed.

(* k ordinary requests, then the end of the connection (close request, EOF - with or without a
   request ever having been sent, k = 0 included - or undecodable input), then anything: the
   server process has ended, having answered exactly the k requests *)
Lemma server_ends k e rest : e <> EvRequest -> srv_run (repeat EvRequest k ++ e :: rest) = SrvExited k.
Proof.
  intros He. unfold srv_run. rewrite fold_left_app, srv_requests. simpl.
  destruct e; try contradiction; simpl; rewrite srv_exited_stays; f_equal; lia.
Qed.

(* ---- witness schedule of the handle race on the pinned run() (C16_F3_refuted) ------------------ *)
Definition f3_scripts : list (list op) := [[Prepare]; [Call]].
Definition f3_schedule : list tid :=
  repeat (Cl 0) 6 ++ repeat (Cl 1) 7 ++ repeat (St 0) 5 ++ [Cl 1].
