(* Lemmas about Model/Memo.v.
   Part 1: more fuel never changes an answer of the memo-free evaluation.
   Part 2: memo transparency on graphs without loop parents (every history, any size). *)
From Coq Require Import List Bool Arith NArith PArith FMapPositive Lia.
Import ListNotations.
From Supp Require Import Model.Layout Model.FlowGraph Model.Memo Proofs.FlowGraphProofs.

(* ---------------------------------------------------------------------------------------------- *)
(* Part 1: fuel monotonicity                                                                        *)
(* ---------------------------------------------------------------------------------------------- *)

Section Mono.
  Variable canon : list alt -> list alt.
  Variable g : graph.

  Definition rec_le (rec1 rec2 : list nat -> nat -> option env) : Prop :=
    forall R i e, rec1 R i = Some e -> rec2 R i = Some e.

  Lemma gather_mono rec1 rec2 : rec_le rec1 rec2 -> forall ps R es,
    gather g rec1 R ps = Some es -> gather g rec2 R ps = Some es.
  Proof.
    intros H. induction ps as [|p r IH]; intros R es; simpl; [auto|].
    destruct p as [i|l].
    - destruct (rec1 R i) as [e|] eqn:E; [|discriminate]. rewrite (H _ _ _ E).
      destruct (gather g rec1 R r) as [es'|] eqn:E2; [|discriminate]. rewrite (IH _ _ E2). auto.
    - destruct (existsb (Nat.eqb l) R); [apply IH|].
      destruct (nth_error (loops g) l) as [t|]; [|discriminate].
      destruct (rec1 (l :: R) t) as [e|] eqn:E; [|discriminate]. rewrite (H _ _ _ E).
      destruct (gather g rec1 R r) as [es'|] eqn:E2; [|discriminate]. rewrite (IH _ _ E2). auto.
  Qed.

  Lemma sequence_mono rec1 rec2 R : rec_le rec1 rec2 -> forall cs es,
    sequence (map (rec1 R) cs) = Some es -> sequence (map (rec2 R) cs) = Some es.
  Proof.
    intros H. induction cs as [|c r IH]; intros es; simpl; [auto|].
    destruct (rec1 R c) as [e|] eqn:E; [|discriminate]. rewrite (H _ _ _ E).
    destruct (sequence (map (rec1 R) r)) as [es'|] eqn:E2; [|discriminate]. rewrite (IH _ eq_refl). auto.
  Qed.

  Lemma pnames_with_mono rec1 rec2 R fl e : rec_le rec1 rec2 ->
    pnames_with canon g rec1 R fl = Some e -> pnames_with canon g rec2 R fl = Some e.
  Proof.
    intros H. unfold pnames_with. destruct (parents fl) as [|p ps].
    - destruct (sequence (map (rec1 R) (chain fl))) as [es|] eqn:E; [|discriminate].
      rewrite (sequence_mono _ _ R H _ _ E). auto.
    - destruct (gather g rec1 R (p :: ps)) as [es|] eqn:E; [|discriminate].
      rewrite (gather_mono _ _ H _ _ _ E). auto.
  Qed.

  Lemma names_pure_mono : forall n m, n <= m -> rec_le (names_pure canon g n) (names_pure canon g m).
  Proof.
    induction n as [|n IH]; intros m Hle R f e; simpl; [discriminate|].
    destruct m as [|m]; [lia|]. simpl.
    destruct (nth_error (flows g) f) as [fl|]; [|discriminate].
    destruct (match closes_of g f with
              | Some l => if existsb (Nat.eqb l) R then None else Some l
              | None => None
              end) as [l|]; [apply IH; lia|].
    destruct (pnames_with canon g (names_pure canon g n) R fl) as [pe|] eqn:E; [|discriminate].
    rewrite (pnames_with_mono _ _ R fl pe (IH m ltac:(lia)) E). auto.
  Qed.
End Mono.

(* ---------------------------------------------------------------------------------------------- *)
(* Part 2: graphs without loop parents                                                              *)
(* ---------------------------------------------------------------------------------------------- *)

Lemma pkey_inj i j : pkey i = pkey j -> i = j.
Proof. unfold pkey. apply SuccNat2Pos.inj. Qed.

Lemma lookup_store_same k v m : lookup k (store k v m) = Some v.
Proof. destruct k; simpl; apply PM.gss. Qed.

Lemma lookup_store_other k k' v m : k <> k' -> lookup k' (store k v m) = lookup k' m.
Proof.
  intros H. destruct k, k'; simpl; try reflexivity; apply PM.gso; intros E; apply pkey_inj in E; congruence.
Qed.

Lemma mkey_eq_dec (a b : mkey) : {a = b} + {a <> b}.
Proof. decide equality; apply Nat.eq_dec. Qed.

Section NoLoops.
  Variable canon : list alt -> list alt.
  Variable g : graph.
  Hypothesis Hnl : no_loopsb g = true.

  Lemma parents_direct f fl : nth_error (flows g) f = Some fl -> forallb is_direct (parents fl) = true.
  Proof.
    intros H. unfold no_loopsb in Hnl. destruct (loops g); [|discriminate].
    rewrite forallb_forall in Hnl. apply Hnl. eapply nth_error_In; eauto.
  Qed.

  Lemma closes_none f : closes_of g f = None.
  Proof.
    unfold closes_of, no_loopsb in *. destruct (loops g); [reflexivity|discriminate].
  Qed.

  Definition clean (st : mstate) : Prop :=
    layers st = [] /\ resolving st = [] /\ exists n, dstack st = repeat [] (S n).

  Definition entry_ok (k : mkey) (e : entry) : Prop :=
    snd e = [] /\
    match k with
    | KNames f => exists n, names_pure canon g n [] f = Some (fst e)
    | KPar f => exists n fl, nth_error (flows g) f = Some fl /\
                             pnames_with canon g (names_pure canon g n) [] fl = Some (fst e)
    | KLoop _ => False
    end.

  Definition inv (st : mstate) : Prop :=
    clean st /\ forall k e, lookup k (perm st) = Some e -> entry_ok k e.

  Lemma inv_init : inv init_state.
  Proof.
    split.
    - repeat split. exists 0. reflexivity.
    - intros k e H. destruct k; simpl in H; rewrite PM.gempty in H; discriminate.
  Qed.

  (* what a computation keeps: the invariant and the (all-empty) dependency stack *)
  Definition keeps (st st' : mstate) : Prop := inv st' /\ dstack st' = dstack st.

  Lemma memo_call_ok k func st v st' (P : env -> Prop) :
    inv st ->
    (forall e, entry_ok k e -> P (fst e)) ->
    (forall st1 v1 st2, inv st1 -> func st1 = Some (v1, st2) ->
        keeps st1 st2 /\ entry_ok k (v1, [])) ->
    memo_call false k func st = Some (v, st') ->
    keeps st st' /\ P v.
  Proof.
    intros [[Hl [Hr [n Hd]]] Hperm] HP Hf. unfold memo_call, memo_lookup. rewrite Hl.
    destruct (lookup k (perm st)) as [[v0 d0]|] eqn:E.
    - intros H. inversion H; subst. clear H.
      destruct (Hperm _ _ E) as [Hd0 Hk]. simpl in Hd0. subst d0.
      split; [|apply (HP (v, [])); split; [reflexivity|exact Hk]].
      unfold keeps, add_deps. rewrite Hd. simpl. split; [|reflexivity].
      split; [repeat split; simpl; auto; exists n; reflexivity|exact Hperm].
    - destruct (func (push_deps st)) as [[v1 st1]|] eqn:Ef; [|discriminate].
      assert (Hpush : inv (push_deps st)).
      { split; [|exact Hperm]. repeat split; simpl; auto. exists (S n). rewrite Hd. reflexivity. }
      destruct (Hf _ _ _ Hpush Ef) as [[[[Hl1 [Hr1 _]] Hperm1] Hd1] Hok].
      simpl in Hd1. rewrite Hd in Hd1.
      unfold pop_deps. rewrite Hd1. simpl.
      unfold add_deps. simpl. unfold store_entry. simpl.
      intros H. inversion H; subst. clear H.
      split; [|apply (HP (v, [])); exact Hok].
      split; [|simpl; rewrite Hd; reflexivity].
      split; [repeat split; simpl; auto; exists n; reflexivity|].
      simpl. intros k' e Hk'.
      destruct (mkey_eq_dec k k') as [->|Hne].
      + rewrite lookup_store_same in Hk'. inversion Hk'; subst. exact Hok.
      + rewrite lookup_store_other in Hk' by exact Hne. apply Hperm1. exact Hk'.
  Qed.

  Definition rec_ok (rec : nat -> mstate -> option (env * mstate)) : Prop :=
    forall i st e st', inv st -> rec i st = Some (e, st') ->
      keeps st st' /\ exists n, names_pure canon g n [] i = Some e.

  Lemma gather_m_ok rec : rec_ok rec -> forall ps st es st',
    forallb is_direct ps = true -> inv st -> gather_m false g rec ps st = Some (es, st') ->
    keeps st st' /\ exists n, gather g (names_pure canon g n) [] ps = Some es.
  Proof.
    intros Hrec. induction ps as [|p r IH]; intros st es st' Hdir Hinv; simpl.
    - intros H. inversion H; subst. split; [split; auto|]. exists 0. reflexivity.
    - destruct p as [i|l]; [|discriminate]. simpl in Hdir.
      destruct (rec i st) as [[e st1]|] eqn:E; [|discriminate].
      destruct (Hrec _ _ _ _ Hinv E) as [[Hinv1 Hd1] [n1 Hn1]].
      destruct (gather_m false g rec r st1) as [[es' st2]|] eqn:E2; [|discriminate].
      destruct (IH _ _ _ Hdir Hinv1 E2) as [[Hinv2 Hd2] [n2 Hn2]].
      intros H. inversion H; subst. split; [split; [auto|congruence]|].
      exists (Nat.max n1 n2).
      rewrite (names_pure_mono canon g n1 (Nat.max n1 n2) ltac:(lia) _ _ _ Hn1).
      rewrite (gather_mono g _ _ (names_pure_mono canon g n2 (Nat.max n1 n2) ltac:(lia)) _ _ _ Hn2).
      reflexivity.
  Qed.

  Lemma chain_m_ok rec : rec_ok rec -> forall cs st es st',
    inv st -> chain_m rec cs st = Some (es, st') ->
    keeps st st' /\ exists n, sequence (map (names_pure canon g n []) cs) = Some es.
  Proof.
    intros Hrec. induction cs as [|c r IH]; intros st es st' Hinv; simpl.
    - intros H. inversion H; subst. split; [split; auto|]. exists 0. reflexivity.
    - destruct (rec c st) as [[e st1]|] eqn:E; [|discriminate].
      destruct (Hrec _ _ _ _ Hinv E) as [[Hinv1 Hd1] [n1 Hn1]].
      destruct (chain_m rec r st1) as [[es' st2]|] eqn:E2; [|discriminate].
      destruct (IH _ _ _ Hinv1 E2) as [[Hinv2 Hd2] [n2 Hn2]].
      intros H. inversion H; subst. split; [split; [auto|congruence]|].
      exists (Nat.max n1 n2).
      rewrite (names_pure_mono canon g n1 (Nat.max n1 n2) ltac:(lia) _ _ _ Hn1).
      rewrite (sequence_mono _ _ [] (names_pure_mono canon g n2 (Nat.max n1 n2) ltac:(lia)) _ _ Hn2).
      reflexivity.
  Qed.

  Lemma pbody_ok rec f fl st e st' : rec_ok rec -> nth_error (flows g) f = Some fl ->
    inv st -> pbody false canon g rec fl st = Some (e, st') ->
    keeps st st' /\ exists n, pnames_with canon g (names_pure canon g n) [] fl = Some e.
  Proof.
    intros Hrec Hf Hinv. unfold pbody, pnames_with.
    assert (Hdir := parents_direct f fl Hf).
    destruct (parents fl) as [|p ps].
    - destruct (chain_m rec (chain fl) st) as [[es st1]|] eqn:E; [|discriminate].
      destruct (chain_m_ok rec Hrec _ _ _ _ Hinv E) as [Hk [n Hn]].
      intros H. inversion H; subst. split; [exact Hk|]. exists n. rewrite Hn. reflexivity.
    - destruct (gather_m false g rec (p :: ps) st) as [[es st1]|] eqn:E; [|discriminate].
      destruct (gather_m_ok rec Hrec _ _ _ _ Hdir Hinv E) as [Hk [n Hn]].
      intros H. inversion H; subst. split; [exact Hk|]. exists n. rewrite Hn. reflexivity.
  Qed.

  Lemma par_call_ok rec f fl st e st' : rec_ok rec -> nth_error (flows g) f = Some fl ->
    inv st -> memo_call false (KPar f) (pbody false canon g rec fl) st = Some (e, st') ->
    keeps st st' /\ exists n, pnames_with canon g (names_pure canon g n) [] fl = Some e.
  Proof.
    intros Hrec Hf Hinv H.
    refine (memo_call_ok (KPar f) (pbody false canon g rec fl) st e st'
             (fun e => exists n, pnames_with canon g (names_pure canon g n) [] fl = Some e) Hinv _ _ H).
    - intros en [_ [n [fl' [Hf' Hn]]]]. rewrite Hf in Hf'. inversion Hf'; subst. eauto.
    - intros st1 v1 st2 Hinv1 Hb. destruct (pbody_ok rec f fl _ _ _ Hrec Hf Hinv1 Hb) as [Hk [n Hn]].
      split; [exact Hk|]. split; [reflexivity|]. exists n, fl. auto.
  Qed.

  Lemma names_m_ok : forall fuel, rec_ok (names_m false canon g fuel).
  Proof.
    induction fuel as [|k IH]; intros f st e st' Hinv; simpl; [discriminate|].
    destruct (nth_error (flows g) f) as [fl|] eqn:Hf; [|discriminate].
    rewrite closes_none.
    intros H.
    refine (memo_call_ok (KNames f) _ st e st'
             (fun e => exists n, names_pure canon g n [] f = Some e) Hinv _ _ H).
    - intros en [_ Hn]. exact Hn.
    - intros st1 v1 st2 Hinv1 Hb.
      destruct (memo_call false (KPar f) (pbody false canon g (names_m false canon g k) fl) st1)
        as [[pe st3]|] eqn:E; [|discriminate].
      destruct (par_call_ok _ f fl _ _ _ IH Hf Hinv1 E) as [Hk [n Hn]].
      inversion Hb; subst. split; [exact Hk|]. split; [reflexivity|].
      exists (S n). simpl. rewrite Hf, closes_none, Hn. reflexivity.
  Qed.

  Lemma names_at_m_ok fuel f idx st e st' : inv st ->
    names_at_m false canon g fuel f idx st = Some (e, st') ->
    inv st' /\ exists n, names_at_idx canon g n f idx = Some e.
  Proof.
    intros Hinv. unfold names_at_m, names_at_idx.
    destruct (nth_error (flows g) f) as [fl|] eqn:Hf; [|discriminate].
    destruct (memo_call false (KPar f) (pbody false canon g (names_m false canon g fuel) fl) st)
      as [[pe st1]|] eqn:E; [|discriminate].
    destruct (par_call_ok _ f fl _ _ _ (names_m_ok fuel) Hf Hinv E) as [[Hi _] [n Hn]].
    intros H. inversion H; subst. split; [exact Hi|]. exists n. rewrite Hn. reflexivity.
  Qed.
End NoLoops.

Lemma names_at_idx_mono canon g n m f idx e : n <= m ->
  names_at_idx canon g n f idx = Some e -> names_at_idx canon g m f idx = Some e.
Proof.
  intros Hle. unfold names_at_idx. destruct (nth_error (flows g) f) as [fl|]; [|discriminate].
  destruct (pnames_with canon g (names_pure canon g n) [] fl) as [pe|] eqn:E; [|discriminate].
  rewrite (pnames_with_mono canon g _ _ [] fl pe (names_pure_mono canon g n m Hle) E). auto.
Qed.

Lemma query_pure_mono g km n m q a : n <= m -> query_pure g km n q = Some a -> query_pure g km m q = Some a.
Proof.
  intros Hle. destruct q as [[f loc] nm]. unfold query_pure.
  destruct (nth_error (flows g) f) as [fl|]; [|discriminate].
  destruct (names_at_idx (norm km) g n f (bisect_idx km fl loc)) as [e|] eqn:E; [|discriminate].
  rewrite (names_at_idx_mono _ _ _ _ _ _ _ Hle E). auto.
Qed.

Lemma query_memo_ok g km fuel st q a st' : no_loopsb g = true -> inv (norm km) g st ->
  query_memo g km fuel st q = Some (a, st') ->
  inv (norm km) g st' /\ exists n, forall m, n <= m -> query_pure g km m q = Some a.
Proof.
  intros Hnl Hinv. destruct q as [[f loc] nm]. unfold query_memo, query_memo_gen, query_pure.
  destruct (nth_error (flows g) f) as [fl|] eqn:Hf; [|discriminate].
  destruct (names_at_m false (norm km) g fuel f (bisect_idx km fl loc) st) as [[e st1]|] eqn:E; [|discriminate].
  destruct (names_at_m_ok (norm km) g Hnl _ _ _ _ _ _ Hinv E) as [Hi [n Hn]].
  intros H. inversion H; subst. split; [exact Hi|].
  exists n. intros m Hm. rewrite (names_at_idx_mono _ _ _ _ _ _ _ Hm Hn). reflexivity.
Qed.

Lemma run_history_inv g km fuel : no_loopsb g = true -> forall h st st',
  inv (norm km) g st -> run_history false g km fuel st h = Some st' -> inv (norm km) g st'.
Proof.
  intros Hnl. induction h as [|q r IH]; intros st st' Hinv; simpl.
  - intros H. inversion H; subst. exact Hinv.
  - destruct (query_memo_gen false g km fuel st q) as [[a st1]|] eqn:E; [|discriminate].
    destruct (query_memo_ok g km fuel st q a st1 Hnl Hinv E) as [Hi _]. apply IH. exact Hi.
Qed.

(* memo transparency for every history on a graph without loop parents *)
Lemma memo_transparent_noloops g km fuel h q st a st' :
  no_loopsb g = true ->
  run_history false g km fuel init_state h = Some st ->
  query_memo g km fuel st q = Some (a, st') ->
  exists n, forall m, n <= m -> query_pure g km m q = Some a.
Proof.
  intros Hnl Hh Hq.
  assert (Hinv := run_history_inv g km fuel Hnl h _ _ (inv_init (norm km) g) Hh).
  destruct (query_memo_ok g km fuel st q a st' Hnl Hinv Hq) as [_ H]. exact H.
Qed.
