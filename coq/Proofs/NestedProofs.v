(* C01, inter-scope: composition of the one-scope theorem (Proofs/SemXProofs.v runX_good) along a
   chain of nested function scopes (Model/Nested.v). *)
From Coq Require Import List Bool Arith NArith.
Import ListNotations.
From Supp Require Import Model.PyCore Model.Reach Model.ReachX Model.Sem Model.SemX Model.Nested
  Proofs.ReachProofs Proofs.ReachCorollaries Proofs.SemXProofs Proofs.ReachXBridge.

Lemma mem_name_true x l : mem_name x l = true <-> In x l.
Proof.
  unfold mem_name. rewrite existsb_exists. split.
  - intros [y [Hy He]]. apply N.eqb_eq in He. subst y. exact Hy.
  - intros H. exists x. split; [exact H|apply N.eqb_refl].
Qed.

Lemma mem_name_false x l : mem_name x l = false <-> ~ In x l.
Proof.
  split.
  - intros H Hin. apply mem_name_true in Hin. rewrite Hin in H. discriminate H.
  - intros H. destruct (mem_name x l) eqn:E; [|reflexivity]. apply mem_name_true in E. contradiction.
Qed.

(* a scope's exported environment defines every name its body binds ... *)
Lemma exit_defines_own outer c x : In x (binds c) -> defd (exit_a outer c) x.
Proof.
  intros H. unfold exit_a.
  destruct (exported_defines_all_bound c (enter_a (binds c) outer) x H) as [d Hd].
  exists d. apply (an_sub_anx c _ _ (sub_refl _)). exact Hd.
Qed.

(* ... and keeps every definition of a name it does not bind *)
Lemma exit_keeps_outer outer c x : ~ In x (binds c) -> defd outer x -> defd (exit_a outer c) x.
Proof.
  intros Hn [d Hd]. unfold exit_a.
  assert (He : defd (enter_a (binds c) outer) x).
  { exists d. unfold enter_a. apply mem_name_false in Hn. rewrite Hn. exact Hd. }
  destruct (an_ext c _ x He) as [d' Hd'].
  exists d'. apply (an_sub_anx c _ _ (sub_refl _)). exact Hd'.
Qed.

Lemma in_dec_name (x : name) l : In x l \/ ~ In x l.
Proof. destruct (mem_name x l) eqn:E; [left; apply mem_name_true; exact E|right; apply mem_name_false; exact E]. Qed.

Lemma exit_chain_snoc l c : exit_chain (l ++ [c]) = exit_a (exit_chain l) c.
Proof. unfold exit_chain. rewrite fold_left_app. reflexivity. Qed.

(* what the chain exports defines every name any enclosing body binds *)
Lemma exit_chain_defines : forall outers x c, In c outers -> In x (binds c) -> defd (exit_chain outers) x.
Proof.
  induction outers as [|c0 l IH] using rev_ind; intros x c Hc Hx; [destruct Hc|].
  rewrite exit_chain_snoc. apply in_app_or in Hc.
  destruct (in_dec_name x (binds c0)) as [Hin|Hnot].
  - apply exit_defines_own. exact Hin.
  - apply exit_keeps_outer; [exact Hnot|].
    destruct Hc as [Hc|[Hc|[]]].
    + apply (IH x c Hc Hx).
    + subst c0. contradiction.
Qed.

Lemma rt_env_dabs outers ci p : rt_env outers ci p -> dabs p (entry_a outers ci).
Proof.
  intros H x d Hp. destruct (H x d Hp) as [Hl [c [Hc Hx]]].
  unfold entry_a, enter_a. rewrite Hl. apply (exit_chain_defines outers x c Hc Hx).
Qed.

(* The composed theorem: every run of the body of a function nested in any chain of enclosing
   functions, called at any time (any namespace LEGB allows), with any abrupt exits: a read
   that finds its name bound - in its own frame or in an enclosing one - is visible in supp's
   analysis of that nested scope and is not reported E02; and the final namespace is again
   covered by what this scope exports. *)
Theorem nested_visible : forall outers ci fuel ds p p' tr o ds' r d,
  rt_env outers ci p ->
  runX fuel ci p ds = DoneX p' tr o ds' -> In (r, Some d) tr ->
  visible_nested outers ci r = true /\ e02_nested outers ci r = false.
Proof.
  intros outers ci fuel ds p p' tr o ds' r d Hrt Hr Hin.
  pose proof (runX_good fuel ci p ds (entry_a outers ci) (rt_env_dabs _ _ _ Hrt)) as G.
  rewrite Hr in G. destruct G as [_ B]. specialize (B r d Hin). unfold vis in B.
  pose proof (visible_visiblex ci _ _ r (sub_refl _) B) as Hx.
  unfold visible_nested, e02_nested. split; [exact Hx|].
  unfold e02x. unfold visiblex in Hx. rewrite Hx. reflexivity.
Qed.

Theorem nested_final_covered : forall outers ci fuel ds p p' tr o ds',
  rt_env outers ci p ->
  runX fuel ci p ds = DoneX p' tr o ds' ->
  dabs p' (exit_chain (outers ++ [ci])).
Proof.
  intros outers ci fuel ds p p' tr o ds' Hrt Hr.
  pose proof (runX_good fuel ci p ds (entry_a outers ci) (rt_env_dabs _ _ _ Hrt)) as G.
  rewrite Hr in G. destruct G as [A _].
  rewrite exit_chain_snoc. intros x d Hp. destruct (A x d Hp) as [d' Hd'].
  exists d'. unfold exit_a. apply (an_sub_anx ci _ _ (sub_refl _)). exact Hd'.
Qed.

(* the chain is what one expects at depth 0: a function directly under the (empty) module *)
Lemma nested_nil ci r : seen_nested [] ci r = seenx ci (enter_a (binds ci) aenv0) r.
Proof. reflexivity. Qed.
