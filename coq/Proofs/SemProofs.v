(* The executable interpreter [run] of Model/Sem.v and the relational semantics [exec] describe the
   same executions:
     run_exec : every finished run is a derivation of exec                       (run  ⊆ exec)
     exec_run : every derivation of exec is a run under some decision list/fuel  (exec ⊆ run)
   so the harness, which compares CPython with [run], compares it with [exec]. *)
From Coq Require Import List Bool Arith NArith Lia.
Import ListNotations.
From Supp Require Import Model.PyCore Model.Reach Model.Sem.

(* ---- inversion of the result monad --------------------------------------------------------- *)

Lemma bind_res_done r k p' tr o ds' :
  bind_res r k = Done p' tr o ds' ->
  exists p1 t1 o1 ds1, r = Done p1 t1 o1 ds1 /\ k p1 t1 o1 ds1 = Done p' tr o ds'.
Proof. destruct r as [p1 t1 o1 ds1| |]; simpl; intros H; try discriminate H. eauto 6. Qed.

Lemma prepend_done t r p' tr o ds' :
  prepend t r = Done p' tr o ds' -> exists t1, r = Done p' t1 o ds' /\ tr = t ++ t1.
Proof.
  destruct r as [p1 t1 o1 ds1| |]; simpl; intros H; try discriminate H.
  injection H as -> <- -> ->. eauto.
Qed.

Ltac inv_res :=
  repeat (match goal with
  | H : OutOfFuel = Done _ _ _ _ |- _ => discriminate H
  | H : NoDecision = Done _ _ _ _ |- _ => discriminate H
  | H : Done _ _ _ _ = Done _ _ _ _ |- _ => injection H as ? ? ? ?; subst
  | H : bind_res ?r _ = Done _ _ _ _ |- _ =>
      let E := fresh "E" in destruct r eqn:E; simpl in H; try discriminate H
  | H : prepend _ ?r = Done _ _ _ _ |- _ =>
      let E := fresh "E" in destruct r eqn:E; simpl in H; try discriminate H
  | H : (match ?o with ONorm => _ | ORet => _ end) = Done _ _ _ _ |- _ => destruct o
  | H : (match ?ds with [] => _ | _ :: _ => _ end) = Done _ _ _ _ |- _ =>
      destruct ds as [|[|?] ?]; simpl in H
  | H : (if ?b then _ else _) = Done _ _ _ _ |- _ =>
      let E := fresh "Eb" in destruct b eqn:E; simpl in H
  | H : (match hnth ?hs ?d with Some _ => _ | None => _ end) = Done _ _ _ _ |- _ =>
      let E := fresh "Eh" in destruct (hnth hs d) as [[[? ?] ?]|] eqn:E; simpl in H
  end).

(* ---- run ⊆ exec --------------------------------------------------------------------------------- *)

Lemma run_exec : forall fuel c p ds p' tr o ds',
  run fuel c p ds = Done p' tr o ds' -> exec c p tr o p'.
Proof.
  induction fuel as [|fuel IH]; intros c p ds p' tr o ds' H; [discriminate H|].
  destruct c as [|a b|d x|r x|a b|t b e|tg b e|rf b rl hs e f|]; simpl in H.
  - inv_res. constructor.
  - (* Seq *) inv_res.
    + eapply ESeqN; eapply IH; eassumption.
    + eapply ESeqR; eapply IH; eassumption.
  - inv_res. constructor.
  - inv_res. constructor.
  - (* Branch *) inv_res.
    + apply EBrL. eapply IH; eassumption.
    + apply EBrR. eapply IH; eassumption.
  - (* While *) inv_res.
    + eapply EWhileExit; eapply IH; eassumption.
    + eapply EWhileIter; eapply IH; eassumption.
    + eapply EWhileRet; eapply IH; eassumption.
  - (* For *) inv_res.
    + eapply EForExit; eapply IH; eassumption.
    + eapply EForIter; eapply IH; eassumption.
    + eapply EForRet; eapply IH; eassumption.
  - (* Try *)
    unfold pick_handler in H.
    inv_res;
      repeat match goal with
             | E : run fuel _ _ _ = Done _ _ _ _ |- _ => apply IH in E
             end;
      rewrite <- ?app_assoc;
      first
        [ eapply ETryFirst; solve [eauto]
        | eapply ETryLast; solve [eauto]
        | eapply ETryElse; solve [eauto]
        | eapply ETryBodyRet; solve [eauto] ].
  - destruct k; inv_res. constructor.
Qed.

(* ---- fuel monotonicity ---------------------------------------------------------------------------- *)

Lemma run_mono : forall fuel c p ds p' tr o ds',
  run fuel c p ds = Done p' tr o ds' ->
  forall fuel', fuel <= fuel' -> run fuel' c p ds = Done p' tr o ds'.
Proof.
  induction fuel as [|fuel IH]; intros c p ds p' tr o ds' H fuel' Hle; [discriminate H|].
  destruct fuel' as [|fuel']; [lia|]. assert (Hle' : fuel <= fuel') by lia.
  destruct c as [|a b|d x|r x|a b|t b e|tg b e|rf b rl hs e f|]; simpl in H; simpl;
    try exact H; try unfold pick_handler in *;
    inv_res;
    repeat match goal with
           | E : run fuel _ _ _ = Done _ _ _ _ |- _ => apply IH with (fuel' := fuel') in E; [|exact Hle']
           end;
    repeat match goal with
           | E : run fuel' _ _ _ = Done _ _ _ _ |- _ => rewrite E; simpl
           | E : hnth _ _ = _ |- _ => rewrite E; simpl
           end;
    reflexivity.
Qed.

(* ---- exec ⊆ run -------------------------------------------------------------------------------- *)
(* No side condition is needed: [exec] has no rule for a returning test / target / except-type,
   exactly the situations in which [run] gives up, so the requested hypothesis [ok c = true] is
   superfluous (the requested form is the corollary [exec_run_ok]). The decision list [ds] is
   consumed exactly: whatever follows it is handed back. *)

Ltac lift_run H F :=
  let H' := fresh H in
  match type of H with
  | forall ds', run ?f ?c ?p (?ds ++ ds') = ?R =>
      assert (H' : forall ds', run F c p (ds ++ ds') = R)
        by (intro; eapply run_mono; [apply H|lia]);
      clear H; rename H' into H
  end.

Lemma exec_run : forall c p tr o p', exec c p tr o p' ->
  exists fuel ds, forall ds', run fuel c p (ds ++ ds') = Done p' tr o ds'.
Proof.
  induction 1.
  - exists 1, []. reflexivity.
  - exists 1, []. reflexivity.
  - exists 1, []. reflexivity.
  - exists 1, []. reflexivity.
  - (* Seq normal *)
    destruct IHexec1 as (f1 & d1 & R1). destruct IHexec2 as (f2 & d2 & R2).
    exists (S (f1 + f2)), (d1 ++ d2). intros ds'.
    lift_run R1 (f1 + f2). lift_run R2 (f1 + f2).
    simpl. rewrite <- app_assoc, R1. simpl. rewrite R2. reflexivity.
  - (* Seq ret *)
    destruct IHexec as (f1 & d1 & R1).
    exists (S f1), d1. intros ds'. simpl. rewrite R1. reflexivity.
  - destruct IHexec as (f1 & d1 & R1). exists (S f1), (0 :: d1). intros ds'. simpl. apply R1.
  - destruct IHexec as (f1 & d1 & R1). exists (S f1), (1 :: d1). intros ds'. simpl. apply R1.
  - (* While iter *)
    destruct IHexec1 as (f1 & d1 & R1). destruct IHexec2 as (f2 & d2 & R2).
    destruct IHexec3 as (f3 & d3 & R3).
    exists (S (f1 + f2 + f3)), (d1 ++ 1 :: d2 ++ d3). intros ds'.
    lift_run R1 (f1 + f2 + f3). lift_run R2 (f1 + f2 + f3). lift_run R3 (f1 + f2 + f3).
    simpl. rewrite <- app_assoc. simpl. rewrite <- app_assoc. rewrite R1. simpl. rewrite R2. simpl.
    rewrite R3. reflexivity.
  - (* While ret *)
    destruct IHexec1 as (f1 & d1 & R1). destruct IHexec2 as (f2 & d2 & R2).
    exists (S (f1 + f2)), (d1 ++ 1 :: d2). intros ds'.
    lift_run R1 (f1 + f2). lift_run R2 (f1 + f2).
    simpl. rewrite <- app_assoc. simpl. rewrite R1. simpl. rewrite R2. reflexivity.
  - (* While exit *)
    destruct IHexec1 as (f1 & d1 & R1). destruct IHexec2 as (f2 & d2 & R2).
    exists (S (f1 + f2)), (d1 ++ 0 :: d2). intros ds'.
    lift_run R1 (f1 + f2). lift_run R2 (f1 + f2).
    simpl. rewrite <- app_assoc. simpl. rewrite R1. simpl. rewrite R2. reflexivity.
  - (* For iter *)
    destruct IHexec1 as (f1 & d1 & R1). destruct IHexec2 as (f2 & d2 & R2).
    destruct IHexec3 as (f3 & d3 & R3).
    exists (S (f1 + f2 + f3)), (1 :: d1 ++ d2 ++ d3). intros ds'.
    lift_run R1 (f1 + f2 + f3). lift_run R2 (f1 + f2 + f3). lift_run R3 (f1 + f2 + f3).
    simpl. rewrite <- !app_assoc. rewrite R1. simpl. rewrite R2. simpl.
    rewrite R3. reflexivity.
  - (* For ret *)
    destruct IHexec1 as (f1 & d1 & R1). destruct IHexec2 as (f2 & d2 & R2).
    exists (S (f1 + f2)), (1 :: d1 ++ d2). intros ds'.
    lift_run R1 (f1 + f2). lift_run R2 (f1 + f2).
    simpl. rewrite <- !app_assoc. rewrite R1. simpl. rewrite R2. reflexivity.
  - (* For exit *)
    destruct IHexec as (f1 & d1 & R1). exists (S f1), (0 :: d1). intros ds'. simpl. apply R1.
  - (* Try: raise at the first point *)
    destruct IHexec1 as (f1 & d1 & R1). destruct IHexec2 as (f2 & d2 & R2).
    destruct IHexec3 as (f3 & d3 & R3).
    subst rf.
    exists (S (f1 + f2 + f3)), (S i :: d1 ++ d2 ++ d3). intros ds'.
    lift_run R1 (f1 + f2 + f3). lift_run R2 (f1 + f2 + f3). lift_run R3 (f1 + f2 + f3).
    simpl. rewrite H0. rewrite <- !app_assoc. rewrite R1. simpl. rewrite R2. simpl.
    rewrite R3. simpl. rewrite <- ?app_assoc. reflexivity.
  - (* Try: raise at the last point *)
    destruct IHexec1 as (f1 & d1 & R1). destruct IHexec2 as (f2 & d2 & R2).
    destruct IHexec3 as (f3 & d3 & R3). destruct IHexec4 as (f4 & d4 & R4).
    subst rl.
    exists (S (f1 + f2 + f3 + f4)),
      ((if rf then [0] else []) ++ d1 ++ S i :: d2 ++ d3 ++ d4). intros ds'.
    lift_run R1 (f1 + f2 + f3 + f4). lift_run R2 (f1 + f2 + f3 + f4).
    lift_run R3 (f1 + f2 + f3 + f4). lift_run R4 (f1 + f2 + f3 + f4).
    assert (Hbody : run (f1 + f2 + f3 + f4) b p (d1 ++ S i :: d2 ++ d3 ++ d4 ++ ds')
                    = Done pb tb ONorm (S i :: d2 ++ d3 ++ d4 ++ ds')) by apply R1.
    destruct rf; simpl; rewrite <- !app_assoc; simpl; rewrite <- !app_assoc;
      rewrite Hbody; simpl; rewrite H0; rewrite R2; simpl; rewrite R3; simpl; rewrite R4; simpl;
      rewrite <- ?app_assoc; reflexivity.
  - (* Try: else *)
    destruct IHexec1 as (f1 & d1 & R1). destruct IHexec2 as (f2 & d2 & R2).
    destruct IHexec3 as (f3 & d3 & R3).
    exists (S (f1 + f2 + f3)),
      ((if rf then [0] else []) ++ d1 ++ (if rl then [0] else []) ++ d2 ++ d3). intros ds'.
    lift_run R1 (f1 + f2 + f3). lift_run R2 (f1 + f2 + f3). lift_run R3 (f1 + f2 + f3).
    destruct rf, rl; simpl; rewrite <- ?app_assoc; simpl; rewrite <- ?app_assoc;
      rewrite R1; simpl; rewrite R2; simpl; rewrite R3; simpl; reflexivity.
  - (* Try: body returns *)
    destruct IHexec1 as (f1 & d1 & R1). destruct IHexec2 as (f2 & d2 & R2).
    exists (S (f1 + f2)), ((if rf then [0] else []) ++ d1 ++ d2). intros ds'.
    lift_run R1 (f1 + f2). lift_run R2 (f1 + f2).
    destruct rf; simpl; rewrite <- ?app_assoc; rewrite R1; simpl; rewrite R2; simpl; reflexivity.
Qed.

Corollary exec_run_ok : forall c p tr o p', exec c p tr o p' -> ok c = true ->
  exists fuel ds, forall ds', run fuel c p (ds ++ ds') = Done p' tr o ds'.
Proof. intros c p tr o p' H _. apply exec_run, H. Qed.

(* the two together: [exec] is exactly what [run] can do *)
Theorem exec_iff_run c p tr o p' :
  exec c p tr o p' <-> exists fuel ds, run fuel c p ds = Done p' tr o [].
Proof.
  split.
  - intros H. destruct (exec_run _ _ _ _ _ H) as (fuel & ds & R). exists fuel, ds.
    specialize (R []). rewrite app_nil_r in R. exact R.
  - intros (fuel & ds & R). eapply run_exec, R.
Qed.

(* not vacuous: the interpreter does finish, and consumes exactly the decisions it needs *)
Example run_ex :
  exists p', run 4 (Seq (Bind 1%N 0%N) (Branch (Read 2%N 0%N) Skip)) renv0 [0; 7]
             = Done p' [(2%N, Some 1%N)] ONorm [7].
Proof. eexists. reflexivity. Qed.
