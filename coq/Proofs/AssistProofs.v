(* Proofs about Model/Assist.v (C12): prefix = identifier run left of the cursor; proposals sorted,
   duplicate free, mark free; position lookups invariant under the shift caused by the mark. *)
From Coq Require Import List Bool Arith NArith ZArith Lia ZifyBool Permutation Sorted.
Import ListNotations.
From Supp Require Import Model.Text Model.Assist Proofs.TextProofs.
Arguments N.eqb : simpl never.
Arguments N.ltb : simpl never.
Arguments N.leb : simpl never.
Arguments Nat.div : simpl never.
Ltac Zify.zify_post_hook ::= Z.to_euclidean_division_equations.

(* =============================================================================================
   1. Prefix
   ============================================================================================= *)

Lemma last_piece_snoc sep s c : forall acc,
  last_piece sep (s ++ [c]) acc = if sep c then [] else last_piece sep s acc ++ [c].
Proof.
  induction s as [|a s IH]; intros acc; simpl.
  - destruct (sep c); reflexivity.
  - destruct (sep a); apply IH.
Qed.

Lemma last_piece_ext sep1 sep2 s : (forall c, sep1 c = sep2 c) -> forall acc,
  last_piece sep1 s acc = last_piece sep2 s acc.
Proof.
  intros H. induction s as [|a s IH]; intros acc; simpl; [reflexivity|].
  rewrite H. destruct (sep2 a); apply IH.
Qed.

Lemma suffix_run_nil p : suffix_run p [] = [].
Proof. reflexivity. Qed.

Lemma run_len_le p rs : run_len p rs <= length rs.
Proof. induction rs as [|c r IH]; simpl; [lia|]. destruct (p c); simpl; lia. Qed.

Lemma suffix_run_snoc p s c :
  suffix_run p (s ++ [c]) = if p c then suffix_run p s ++ [c] else [].
Proof.
  unfold suffix_run. rewrite rev_app_distr, app_length. simpl.
  pose proof (run_len_le p (rev s)) as Hle. rewrite rev_length in Hle.
  destruct (p c).
  - replace (length s + 1 - S (run_len p (rev s))) with (length s - run_len p (rev s)) by lia.
    rewrite skipn_app.
    replace (length s - run_len p (rev s) - length s) with 0 by lia. reflexivity.
  - apply skipn_all2. rewrite app_length. simpl. lia.
Qed.

(* the loop of id_suffix computes the last piece after the last non-identifier character *)
Theorem suffix_run_last_piece p s :
  suffix_run p s = last_piece (fun c => negb (p c)) s [].
Proof.
  induction s as [|c s IH] using rev_ind; [reflexivity|].
  rewrite suffix_run_snoc, last_piece_snoc, IH. destruct (p c); reflexivity.
Qed.

Lemma firstn_mark_line line col : col <= length line ->
  firstn col (mark_line line col) = firstn col line.
Proof.
  intros H. unfold mark_line. rewrite firstn_app, firstn_firstn, Nat.min_id.
  rewrite firstn_length_le by exact H. rewrite Nat.sub_diag. simpl. apply app_nil_r.
Qed.

(* C12 prefix theorem, for any identifier-character test *)
Theorem prefix_gen_correct p line col : col <= length line ->
  prefix_gen p line col = last_piece (fun c => negb (p c)) (firstn col line) [].
Proof.
  intros H. unfold prefix_gen. rewrite firstn_mark_line by exact H. apply suffix_run_last_piece.
Qed.

Theorem prefix_of_correct line col : col <= length line ->
  prefix_of line col = id_suffix (firstn col line).
Proof. intros H. unfold prefix_of, id_suffix. apply prefix_gen_correct; exact H. Qed.

(* -- the reference id_suffix really is "the longest run of identifier characters at the end" -- *)


Lemma suffix_run_is_final_run p s : final_run p s (suffix_run p s).
Proof.
  induction s as [|c s IH] using rev_ind.
  - exists []. repeat split. intros pre' c H. destruct pre'; discriminate.
  - rewrite suffix_run_snoc. destruct (p c) eqn:E.
    + destruct IH as (pre & H1 & H2 & H3). exists pre. repeat split.
      * rewrite H1 at 1. rewrite app_assoc. reflexivity.
      * rewrite forallb_app, H2. simpl. rewrite E. reflexivity.
      * exact H3.
    + exists (s ++ [c]). repeat split.
      * rewrite app_nil_r. reflexivity.
      * intros pre' c' H. apply app_inj_tail in H as [_ <-]. exact E.
Qed.

Lemma final_run_unique p : forall r s, final_run p s r -> suffix_run p s = r.
Proof.
  induction r as [|c r IH] using rev_ind; intros s (pre & H1 & H2 & H3).
  - rewrite app_nil_r in H1. subst s. destruct pre as [|x pre] using rev_ind; [reflexivity|].
    rewrite suffix_run_snoc. rewrite (H3 pre x eq_refl). reflexivity.
  - rewrite forallb_app in H2. apply andb_true_iff in H2 as [H2 H2'].
    simpl in H2'. rewrite andb_true_r in H2'.
    subst s. rewrite app_assoc, suffix_run_snoc, H2'. f_equal.
    apply IH. exists pre. repeat split; assumption.
Qed.

Theorem id_suffix_final_run line : final_run is_id_char line (id_suffix line).
Proof.
  unfold id_suffix. rewrite <- suffix_run_last_piece. apply suffix_run_is_final_run.
Qed.

Theorem id_suffix_unique line r : final_run is_id_char line r -> id_suffix line = r.
Proof.
  intros H. unfold id_suffix. rewrite <- suffix_run_last_piece. apply final_run_unique; exact H.
Qed.

(* -- the as-is splitter ------------------------------------------------------------------- *)

Lemma prefix_split_unfold line : prefix_split line = last_piece split_sep line [].
Proof. reflexivity. Qed.

Lemma last_piece_app_nosep sep r : forall pre, forallb (fun c => negb (sep c)) r = true ->
  last_piece sep (pre ++ r) [] = last_piece sep pre [] ++ r.
Proof.
  induction r as [|c r IH] using rev_ind; intros pre H.
  - rewrite !app_nil_r. reflexivity.
  - rewrite forallb_app in H. apply andb_true_iff in H as [H H'].
    simpl in H'. rewrite andb_true_r in H'. apply negb_true_iff in H'.
    rewrite app_assoc, last_piece_snoc, H', IH by exact H. rewrite app_assoc. reflexivity.
Qed.

Lemma id_not_sep c : is_id_char c = true -> split_sep c = false.
Proof.
  unfold is_id_char, split_sep, is_space, memN. simpl. lia.
Qed.

Lemma forallb_impl {A} (f g : A -> bool) l : (forall x, f x = true -> g x = true) ->
  forallb f l = true -> forallb g l = true.
Proof.
  intros H. induction l as [|x l IH]; simpl; [reflexivity|].
  intros E. apply andb_true_iff in E as [E1 E2]. rewrite (H x E1), (IH E2). reflexivity.
Qed.

(* Characterisation of the pinned splitter: with line = pre ++ run (run = the identifier run left
   of the cursor) it returns the run exactly when the character before the run is '.', white
   space, '(' or the start of the line; for every other separator it returns strictly more. *)
Theorem prefix_split_characterised line :
  exists pre, line = pre ++ id_suffix line /\
    (pre = [] -> prefix_split line = id_suffix line) /\
    (forall pre' b, pre = pre' ++ [b] ->
       is_id_char b = false /\
       (split_sep b = true -> prefix_split line = id_suffix line) /\
       (split_sep b = false ->
          length (id_suffix line) < length (prefix_split line))).
Proof.
  destruct (id_suffix_final_run line) as (pre & H1 & H2 & H3).
  exists pre. split; [exact H1|].
  assert (Hns : forallb (fun c => negb (split_sep c)) (id_suffix line) = true).
  { revert H2. apply forallb_impl. intros x Hx. rewrite (id_not_sep x Hx). reflexivity. }
  split.
  - intros ->. rewrite prefix_split_unfold. rewrite H1 at 1.
    rewrite (last_piece_app_nosep split_sep _ [] Hns). reflexivity.
  - intros pre' b ->. split; [apply (H3 pre' b eq_refl)|].
    assert (E0 : prefix_split line =
                 (if split_sep b then [] else last_piece split_sep pre' [] ++ [b]) ++ id_suffix line).
    { rewrite prefix_split_unfold. rewrite H1 at 1.
      rewrite (last_piece_app_nosep split_sep _ _ Hns), last_piece_snoc. reflexivity. }
    split; intros E; rewrite E in E0; rewrite E0.
    + reflexivity.
    + rewrite !app_length. simpl. lia.
Qed.

Corollary prefix_split_ok_iff line pre' b :
  line = (pre' ++ [b]) ++ id_suffix line -> is_id_char b = false ->
  (prefix_split line = id_suffix line <-> split_sep b = true).
Proof.
  intros H Hb.
  assert (Hns : forallb (fun c => negb (split_sep c)) (id_suffix line) = true).
  { destruct (id_suffix_final_run line) as (pre & _ & H2 & _).
    revert H2. apply forallb_impl. intros x Hx. rewrite (id_not_sep x Hx). reflexivity. }
  assert (E0 : prefix_split line =
               (if split_sep b then [] else last_piece split_sep pre' [] ++ [b]) ++ id_suffix line).
  { rewrite prefix_split_unfold. rewrite H at 1.
    rewrite (last_piece_app_nosep split_sep _ _ Hns), last_piece_snoc. reflexivity. }
  rewrite E0. destruct (split_sep b); split; intros E; try reflexivity; try discriminate.
  exfalso. apply (f_equal (@length N)) in E. rewrite !app_length in E. simpl in E. lia.
Qed.

(* x=fo *)
Theorem prefix_split_refuted : exists line, prefix_split line <> id_suffix line.
Proof. exists [120; 61; 102; 111]%N. vm_compute. discriminate. Qed.

(* -- the as-is `from`-branch -------------------------------------------------------------- *)

Lemma last_piece_final_run sep s :
  final_run (fun c => negb (sep c)) s (last_piece sep s []).
Proof.
  rewrite (last_piece_ext sep (fun c => negb (negb (sep c)))) by (intros c; rewrite negb_involutive; reflexivity).
  rewrite <- suffix_run_last_piece. apply suffix_run_is_final_run.
Qed.

Theorem from_prefix_asis_dotted line : dotted_tail line = true ->
  from_prefix_asis line = id_suffix line.
Proof.
  unfold dotted_tail, from_prefix_asis. intros Hd.
  set (T := last_piece (fun c => (c =? 32)%N) line []) in *.
  destruct (last_piece_final_run (fun c => (c =? 32)%N) line) as (pre & A1 & A2 & A3). fold T in A1, A2.
  destruct (last_piece_final_run (fun c => (c =? 46)%N) T) as (pre2 & B1 & B2 & B3).
  set (U := last_piece (fun c => (c =? 46)%N) T []) in *.
  symmetry. apply id_suffix_unique. exists (pre ++ pre2). repeat split.
  - rewrite A1, B1 at 1. rewrite app_assoc. reflexivity.
  - (* U: path characters that are not dots *)
    assert (HT : forallb is_path_char U = true).
    { rewrite B1 in Hd. rewrite forallb_app in Hd. apply andb_true_iff in Hd as [_ Hd]. exact Hd. }
    clear - HT B2. induction U as [|c U IH]; simpl in *; [reflexivity|].
    apply andb_true_iff in HT as [H1 H2]. apply andb_true_iff in B2 as [H3 H4].
    rewrite (IH H4 H2), andb_true_r. unfold is_path_char in H1.
    apply negb_true_iff in H3. rewrite H3, orb_false_r in H1. exact H1.
  - intros pre' c E. destruct pre2 as [|x pre2] using rev_ind.
    + rewrite app_nil_r in E. specialize (A3 pre' c E). simpl in A3.
      apply negb_false_iff in A3. apply N.eqb_eq in A3. subst c. reflexivity.
    + rewrite app_assoc in E. apply app_inj_tail in E as [_ <-].
      specialize (B3 pre2 x eq_refl). simpl in B3. apply negb_false_iff in B3.
      apply N.eqb_eq in B3. subst x. reflexivity.
Qed.

(* from os import(pa  ->  "import(pa" *)
Theorem from_prefix_asis_refuted : exists line, from_prefix_asis line <> id_suffix line.
Proof.
  exists [102; 114; 111; 109; 32; 111; 115; 32; 105; 109; 112; 111; 114; 116; 40; 112; 97]%N.
  vm_compute. discriminate.
Qed.

(* =============================================================================================
   2. Proposals: sorted, duplicate free, mark free
   ============================================================================================= *)


Lemma ident_eqb_eq a : forall b, ident_eqb a b = true <-> a = b.
Proof.
  induction a as [|x a IH]; intros [|y b]; simpl; split; intros H; try reflexivity; try discriminate.
  - apply andb_true_iff in H as [H1 H2]. apply N.eqb_eq in H1. apply IH in H2. subst; reflexivity.
  - injection H as -> ->. rewrite N.eqb_refl. apply IH. reflexivity.
Qed.

Lemma str_ltb_irrefl a : str_ltb a a = false.
Proof. induction a as [|x a IH]; simpl; [reflexivity|]. rewrite N.ltb_irrefl, N.eqb_refl, IH. reflexivity. Qed.

Lemma str_ltb_trans a : forall b c, str_ltb a b = true -> str_ltb b c = true -> str_ltb a c = true.
Proof.
  induction a as [|x a IH]; intros [|y b] [|z c]; simpl; intros H1 H2; try discriminate; try reflexivity.
  apply orb_true_iff in H1. apply orb_true_iff in H2. apply orb_true_iff.
  destruct H1 as [H1|H1], H2 as [H2|H2].
  - left. lia.
  - apply andb_true_iff in H2 as [H2 _]. left. lia.
  - apply andb_true_iff in H1 as [H1 _]. left. lia.
  - apply andb_true_iff in H1 as [H1 H1']. apply andb_true_iff in H2 as [H2 H2'].
    right. apply andb_true_iff. split; [lia|]. eapply IH; eassumption.
Qed.

(* totality: neither smaller means equal *)
Lemma str_ltb_total a : forall b, str_ltb a b = false -> str_ltb b a = false -> a = b.
Proof.
  induction a as [|x a IH]; intros [|y b]; simpl; intros H1 H2; try reflexivity; try discriminate.
  apply orb_false_iff in H1 as [H1 H1']. apply orb_false_iff in H2 as [H2 H2'].
  assert (x = y) by lia. subst y. rewrite N.eqb_refl in H1', H2'. simpl in *.
  f_equal. apply IH; assumption.
Qed.

Lemma str_ltb_asym a b : str_ltb a b = true -> str_ltb b a = false.
Proof.
  intros H. destruct (str_ltb b a) eqn:E; [|reflexivity].
  pose proof (str_ltb_trans _ _ _ H E) as F. rewrite str_ltb_irrefl in F. discriminate.
Qed.

Lemma insert_sorted_perm x l : Permutation (insert_sorted x l) (x :: l).
Proof.
  induction l as [|y r IH]; simpl; [apply Permutation_refl|].
  destruct (str_leb x y); [apply Permutation_refl|].
  eapply Permutation_trans; [apply perm_skip; exact IH|apply perm_swap].
Qed.

Theorem sort_idents_perm l : Permutation (sort_idents l) l.
Proof.
  induction l as [|x l IH]; simpl; [apply Permutation_refl|].
  eapply Permutation_trans; [apply insert_sorted_perm|apply perm_skip; exact IH].
Qed.


Lemma insert_sorted_sorted x l : ~ In x l -> strictly_sorted l -> strictly_sorted (insert_sorted x l).
Proof.
  unfold strictly_sorted. induction l as [|y r IH]; simpl; intros Hn Hs.
  - constructor; constructor.
  - inversion Hs as [|? ? Hr Hall]; subst.
    assert (Hxy : x <> y) by (intros ->; apply Hn; left; reflexivity).
    unfold str_leb. destruct (str_ltb y x) eqn:E; simpl.
    + constructor.
      * apply IH; [intros Hin; apply Hn; right; exact Hin|exact Hr].
      * rewrite Forall_forall in *. intros z Hz.
        apply (Permutation_in _ (insert_sorted_perm x r)) in Hz. destruct Hz as [<-|Hz]; [exact E|auto].
    + assert (Hlt : str_ltb x y = true).
      { destruct (str_ltb x y) eqn:F; [reflexivity|]. exfalso. apply Hxy. apply str_ltb_total; assumption. }
      constructor; [exact Hs|]. constructor; [exact Hlt|].
      rewrite Forall_forall in *. intros z Hz. eapply str_ltb_trans; [exact Hlt|]. apply Hall; exact Hz.
Qed.

Theorem sort_idents_sorted l : NoDup l -> strictly_sorted (sort_idents l).
Proof.
  induction l as [|x l IH]; simpl; intros Hnd; [constructor|].
  inversion Hnd; subst. apply insert_sorted_sorted; [|apply IH; assumption].
  intros Hin. apply (Permutation_in _ (sort_idents_perm l)) in Hin. contradiction.
Qed.

Lemma strictly_sorted_NoDup l : strictly_sorted l -> NoDup l.
Proof.
  unfold strictly_sorted. induction 1 as [|x l Hs IH Hall]; constructor; [|exact IH].
  intros Hin. rewrite Forall_forall in Hall. specialize (Hall x Hin).
  unfold str_lt in Hall. rewrite str_ltb_irrefl in Hall. discriminate.
Qed.

(* a strictly sorted list is determined by its elements: whatever algorithm `sorted` uses, on a
   duplicate free input its result is the list computed by sort_idents *)
Theorem strictly_sorted_unique l1 : forall l2,
  strictly_sorted l1 -> strictly_sorted l2 -> Permutation l1 l2 -> l1 = l2.
Proof.
  unfold strictly_sorted. induction l1 as [|x l1 IH]; intros l2 H1 H2 P.
  - apply Permutation_nil in P. subst; reflexivity.
  - destruct l2 as [|y l2]; [apply Permutation_sym, Permutation_nil in P; discriminate|].
    inversion H1 as [|? ? S1 A1]; subst. inversion H2 as [|? ? S2 A2]; subst.
    rewrite Forall_forall in A1, A2.
    assert (x = y).
    { assert (Hx : In x (y :: l2)) by (apply (Permutation_in _ P); left; reflexivity).
      assert (Hy : In y (x :: l1)) by (apply (Permutation_in _ (Permutation_sym P)); left; reflexivity).
      destruct Hx as [->|Hx]; [reflexivity|]. destruct Hy as [->|Hy]; [reflexivity|].
      specialize (A1 _ Hy). specialize (A2 _ Hx). unfold str_lt in *.
      rewrite (str_ltb_asym _ _ A1) in A2. discriminate. }
    subst y. f_equal. apply IH; [assumption|assumption|]. eapply Permutation_cons_inv; exact P.
Qed.

Lemma infixb_spec m : forall s, infixb m s = true <-> exists a b, s = a ++ m ++ b.
Proof.
  induction s as [|c s IH]; simpl.
  - rewrite orb_false_r. rewrite prefixb_spec. split.
    + intros [t Ht]. exists [], t. exact Ht.
    + intros (a & b & H). destruct a; simpl in H.
      * exists b. exact H.
      * discriminate.
  - rewrite orb_true_iff, prefixb_spec, IH. split.
    + intros [[t Ht]|(a & b & H)].
      * exists [], t. exact Ht.
      * exists (c :: a), b. simpl. rewrite H. reflexivity.
    + intros (a & b & H). destruct a as [|x a]; simpl in H.
      * left. exists b. exact H.
      * right. injection H as -> H. exists a, b. exact H.
Qed.

(* marked(name) = the name contains the cursor mark *)
Lemma is_marked_spec n : is_marked n = true <-> exists a b, n = a ++ source_mark ++ b.
Proof. apply infixb_spec. Qed.

Theorem proposals_perm names :
  Permutation (proposals names) (filter (fun n => negb (is_marked n)) names).
Proof. apply sort_idents_perm. Qed.

Theorem proposals_mem names x :
  In x (proposals names) <-> In x names /\ is_marked x = false.
Proof.
  assert (F : In x (filter (fun n => negb (is_marked n)) names) <-> In x names /\ is_marked x = false).
  { rewrite filter_In, negb_true_iff. tauto. }
  rewrite <- F. split; intros H.
  - apply (Permutation_in _ (proposals_perm names)); exact H.
  - apply (Permutation_in _ (Permutation_sym (proposals_perm names))); exact H.
Qed.

(* never the cursor mark: for EVERY input list *)
Theorem proposals_no_mark names x : In x (proposals names) ->
  ~ exists a b, x = a ++ source_mark ++ b.
Proof.
  intros H E. apply proposals_mem in H as [_ H]. apply is_marked_spec in E. congruence.
Qed.

Lemma NoDup_filter {A} (f : A -> bool) l : NoDup l -> NoDup (filter f l).
Proof.
  induction 1 as [|x l Hn Hd IH]; simpl; [constructor|].
  destruct (f x); [constructor; [rewrite filter_In; tauto|exact IH]|exact IH].
Qed.

(* sorted and duplicate free whenever the key view is duplicate free (dict / set / MergedDict) *)
Theorem proposals_sorted names : NoDup names -> strictly_sorted (proposals names).
Proof. intros H. apply sort_idents_sorted, NoDup_filter, H. Qed.

Theorem proposals_NoDup names : NoDup names -> NoDup (proposals names).
Proof. intros H. apply strictly_sorted_NoDup, proposals_sorted, H. Qed.

Lemma memb_In x l : memb x l = true <-> In x l.
Proof.
  induction l as [|y r IH]; simpl; [split; [discriminate|tauto]|].
  rewrite orb_true_iff, ident_eqb_eq, IH. split; intros [H|H]; auto.
Qed.

Lemma dedup_In x l : In x (dedup l) <-> In x l.
Proof.
  induction l as [|y r IH]; simpl; [tauto|].
  destruct (memb y r) eqn:E.
  - rewrite IH. apply memb_In in E. split; [auto|intros [<-|H]; auto].
  - simpl. rewrite IH. tauto.
Qed.

Lemma dedup_NoDup l : NoDup (dedup l).
Proof.
  induction l as [|y r IH]; simpl; [constructor|].
  destruct (memb y r) eqn:E; [exact IH|].
  constructor; [|exact IH]. rewrite dedup_In, <- memb_In. congruence.
Qed.

(* the key view of a MergedDict is duplicate free by construction *)
Theorem merged_keys_NoDup dicts : NoDup (merged_keys dicts).
Proof. apply dedup_NoDup. Qed.

Theorem merged_keys_In dicts x : In x (merged_keys dicts) <-> exists d, In d dicts /\ In x d.
Proof.
  unfold merged_keys. rewrite dedup_In, in_concat. split; intros (d & H1 & H2); exists d; auto.
Qed.

Lemma strictly_sortedb_spec l : strictly_sortedb l = true <-> strictly_sorted l.
Proof.
  unfold strictly_sorted. induction l as [|x r IH]; simpl.
  - split; [constructor|reflexivity].
  - destruct r as [|y r'].
    + split; [intros _; constructor; constructor|reflexivity].
    + rewrite andb_true_iff, IH. split.
      * intros [H1 H2]. constructor; [exact H2|].
        inversion H2 as [|? ? S A]; subst. constructor; [exact H1|].
        rewrite Forall_forall in *. intros z Hz. eapply str_ltb_trans; [exact H1|apply A; exact Hz].
      * intros H. inversion H as [|? ? S A]; subst. split; [|exact S].
        inversion A; subst. assumption.
Qed.

(* the recogniser run by the correspondence on observed outputs means what the contract says *)
Theorem clean_proposalsb_spec l : clean_proposalsb l = true <->
  strictly_sorted l /\ NoDup l /\ forall x, In x l -> ~ exists a b, x = a ++ source_mark ++ b.
Proof.
  unfold clean_proposalsb. rewrite andb_true_iff, strictly_sortedb_spec, forallb_forall. split.
  - intros [H1 H2]. repeat split; [exact H1|apply strictly_sorted_NoDup; exact H1|].
    intros x Hx E. apply is_marked_spec in E. specialize (H2 x Hx). rewrite E in H2. discriminate.
  - intros (H1 & _ & H3). split; [exact H1|]. intros x Hx.
    destruct (is_marked x) eqn:E; [|reflexivity]. exfalso. apply (H3 x Hx). apply is_marked_spec; exact E.
Qed.

(* =============================================================================================
   3. Position lookups and the shift caused by the mark
   ============================================================================================= *)

(* -- bisect terminates within its fuel and stays in range --------------------------------- *)

Lemma mid_bounds lo hi : lo < hi -> lo <= (lo + hi) / 2 < hi.
Proof.
  intros H. pose proof (Nat.div_mod (lo + hi) 2 ltac:(lia)).
  pose proof (Nat.mod_upper_bound (lo + hi) 2 ltac:(lia)). lia.
Qed.

Lemma bisect_go_total {A} (lt : A -> bool) (a : list A) : forall fuel lo hi,
  lo <= hi -> hi <= length a -> hi - lo < fuel ->
  exists r, bisect_go fuel lt a lo hi = Some r /\ lo <= r <= hi.
Proof.
  induction fuel as [|f IH]; intros lo hi H1 H2 H3; [lia|].
  simpl. destruct (Nat.ltb lo hi) eqn:E.
  - apply Nat.ltb_lt in E.
    pose proof (mid_bounds lo hi E) as Hm.
    destruct (nth_error a ((lo + hi) / 2)) as [e|] eqn:N1.
    + destruct (lt e).
      * destruct (IH lo ((lo + hi) / 2)) as (r & R1 & R2); try lia. exists r. split; [exact R1|lia].
      * destruct (IH (S ((lo + hi) / 2)) hi) as (r & R1 & R2); try lia. exists r. split; [exact R1|lia].
    + apply nth_error_None in N1. lia.
  - exists lo. split; [reflexivity|]. apply Nat.ltb_ge in E. lia.
Qed.

Theorem bisect_total {A} (lt : A -> bool) (a : list A) :
  exists r, bisect lt a = Some r /\ r <= length a.
Proof.
  unfold bisect. destruct (bisect_go_total lt a (S (length a)) 0 (length a)) as (r & R1 & R2); try lia.
  exists r. split; [exact R1|lia].
Qed.

(* On a list where the outcomes of `x < a[i]` are false ... false true ... true (which is what a
   list kept sorted by insert_loc gives), bisect returns the boundary: the elements before the
   result are exactly those with  not (x < e). *)
Lemma bisect_go_boundary {A} (lt : A -> bool) (a : list A) (k : nat) :
  k <= length a ->
  (forall i e, nth_error a i = Some e -> lt e = negb (Nat.ltb i k)) ->
  forall fuel lo hi, lo <= k <= hi -> hi <= length a -> hi - lo < fuel ->
  bisect_go fuel lt a lo hi = Some k.
Proof.
  intros Hk Hmono. induction fuel as [|f IH]; intros lo hi H1 H2 H3; [lia|].
  simpl. destruct (Nat.ltb lo hi) eqn:E.
  - apply Nat.ltb_lt in E.
    pose proof (mid_bounds lo hi E) as Hm.
    destruct (nth_error a ((lo + hi) / 2)) as [e|] eqn:N1.
    + rewrite (Hmono _ _ N1). destruct (Nat.ltb ((lo + hi) / 2) k) eqn:F; simpl.
      * apply Nat.ltb_lt in F. apply IH; lia.
      * apply Nat.ltb_ge in F. apply IH; lia.
    + apply nth_error_None in N1. lia.
  - apply Nat.ltb_ge in E. f_equal. lia.
Qed.

Theorem bisect_boundary {A} (lt : A -> bool) (a : list A) (k : nat) :
  k <= length a ->
  (forall i e, nth_error a i = Some e -> lt e = negb (Nat.ltb i k)) ->
  bisect lt a = Some k.
Proof. intros H1 H2. unfold bisect. apply bisect_go_boundary with (k := k); auto; lia. Qed.

(* -- bisect is determined by the comparison outcomes -------------------------------------- *)

Lemma bisect_go_ext {A B} (lt1 : A -> bool) (lt2 : B -> bool) (g : A -> B) (a : list A) :
  (forall e, In e a -> lt1 e = lt2 (g e)) ->
  forall fuel lo hi, bisect_go fuel lt1 a lo hi = bisect_go fuel lt2 (map g a) lo hi.
Proof.
  intros H. induction fuel as [|f IH]; intros lo hi; simpl; [reflexivity|].
  destruct (Nat.ltb lo hi); [|reflexivity].
  rewrite nth_error_map. destruct (nth_error a ((lo + hi) / 2)) as [e|] eqn:N1; simpl; [|reflexivity].
  rewrite <- (H e (nth_error_In _ _ N1)). destruct (lt1 e); apply IH.
Qed.

Theorem bisect_ext {A B} (lt1 : A -> bool) (lt2 : B -> bool) (g : A -> B) (a : list A) :
  (forall e, In e a -> lt1 e = lt2 (g e)) -> bisect lt1 a = bisect lt2 (map g a).
Proof. intros H. unfold bisect. rewrite map_length. apply bisect_go_ext; exact H. Qed.

Lemma my_Forall2_length {A B} (R : A -> B -> Prop) l l' : Forall2 R l l' -> length l = length l'.
Proof. induction 1; simpl; congruence. Qed.

Lemma my_Forall2_impl {A B} (R R' : A -> B -> Prop) l l' :
  (forall a b, R a b -> R' a b) -> Forall2 R l l' -> Forall2 R' l l'.
Proof. intros H. induction 1; constructor; auto. Qed.

(* the same for two lists related element by element *)
Lemma bisect_go_rel {A B} (lt1 : A -> bool) (lt2 : B -> bool) (a : list A) (a' : list B) :
  Forall2 (fun e e' => lt1 e = lt2 e') a a' ->
  forall fuel lo hi, bisect_go fuel lt1 a lo hi = bisect_go fuel lt2 a' lo hi.
Proof.
  intros H.
  assert (Hn : forall i, match nth_error a i, nth_error a' i with
                         | Some e, Some e' => lt1 e = lt2 e'
                         | None, None => True
                         | _, _ => False
                         end).
  { induction H as [|e e' r r' He Hr IH]; intros [|i]; simpl; auto. apply IH. }
  induction fuel as [|f IH]; intros lo hi; simpl; [reflexivity|].
  destruct (Nat.ltb lo hi); [|reflexivity].
  specialize (Hn ((lo + hi) / 2)).
  destruct (nth_error a ((lo + hi) / 2)) as [e|], (nth_error a' ((lo + hi) / 2)) as [e'|];
    try contradiction; [|reflexivity].
  rewrite <- Hn. destruct (lt1 e); apply IH.
Qed.

(* Most general form: the marked and the unmarked binding lists of a flow need only carry the
   same names in the same order and compare with their query positions in the same way. *)
Theorem names_at_pointwise_invariant own own' pk q q' :
  Forall2 (agree q q') own own' -> names_at own' pk q' = names_at own pk q.
Proof.
  intros H. unfold names_at, bisect.
  rewrite <- (my_Forall2_length _ _ _ H).
  rewrite (bisect_go_rel (fun e => pos_ltb q (bloc e)) (fun e => pos_ltb q' (bloc e)) own own')
    by (eapply my_Forall2_impl; [|exact H]; intros b b' [_ E]; symmetry; exact E).
  destruct (bisect_go (S (length own)) (fun e => pos_ltb q' (bloc e)) own' 0 (length own)) as [idx|];
    [|reflexivity].
  assert (E : map bname (firstn idx own') = map bname (firstn idx own)).
  { clear - H. revert idx. induction H as [|b b' r r' [Hb _] Hr IH]; intros [|idx]; simpl; try reflexivity.
    rewrite Hb, IH. reflexivity. }
  rewrite E. reflexivity.
Qed.

Lemma agreeb_spec q q' : forall l l', agreeb q q' l l' = true <-> Forall2 (agree q q') l l'.
Proof.
  induction l as [|b r IH]; intros [|b' r']; simpl; split; intros H;
    try discriminate; try constructor; try (inversion H; fail).
  - apply andb_true_iff in H as [H _]. apply andb_true_iff in H as [H1 H2].
    apply ident_eqb_eq in H1. apply Bool.eqb_prop in H2. split; assumption.
  - apply andb_true_iff in H as [_ H]. apply IH; exact H.
  - inversion H as [|? ? ? ? [H1 H2] H3]; subst.
    rewrite (proj2 (ident_eqb_eq _ _) H1), H2, Bool.eqb_reflx. simpl. apply IH; exact H3.
Qed.

(* -- names_at under a relabelling of positions ------------------------------------------- *)

Lemma map_bname_shift f l : map bname (map (shift_bind f) l) = map bname l.
Proof. rewrite map_map. apply map_ext. reflexivity. Qed.

(* General form (the C13 argument restricted to one flow): if the new positions order every
   binding of the flow against the query exactly as the old ones did, the lookup returns the same
   names. Nothing else about positions is used. *)
Theorem names_at_order_invariant f own pk q q' :
  (forall b, In b own -> pos_ltb q' (f (bloc b)) = pos_ltb q (bloc b)) ->
  names_at (map (shift_bind f) own) pk q' = names_at own pk q.
Proof.
  intros H. unfold names_at.
  rewrite <- (bisect_ext (fun e => pos_ltb q (bloc e)) (fun e => pos_ltb q' (bloc e)) (shift_bind f) own)
    by (intros e He; simpl; symmetry; apply H; exact He).
  destruct (bisect (fun e => pos_ltb q (bloc e)) own) as [idx|]; [|reflexivity].
  rewrite firstn_map, map_bname_shift. reflexivity.
Qed.


Corollary names_at_shift_invariant f own pk q : order_preserving f ->
  names_at (map (shift_bind f) own) pk (f q) = names_at own pk q.
Proof. intros H. apply names_at_order_invariant. intros b _. apply H. Qed.

(* -- building the sorted binding list commutes with an order preserving relabelling ------- *)

Lemma insert_loc_shift f l b : order_preserving f ->
  insert_loc (map (shift_bind f) l) (shift_bind f b) = option_map (map (shift_bind f)) (insert_loc l b).
Proof.
  intros H. unfold insert_loc. rewrite <- map_rev.
  destruct (rev l) as [|e r]; simpl; [reflexivity|].
  rewrite H. destruct (pos_ltb (bloc e) (bloc b)).
  - simpl. rewrite map_app. reflexivity.
  - rewrite <- (bisect_ext (fun e0 => pos_ltb (bloc b) (bloc e0))
                           (fun e0 => pos_ltb (f (bloc b)) (bloc e0)) (shift_bind f) l)
      by (intros e0 _; simpl; symmetry; apply H).
    destruct (bisect (fun e0 => pos_ltb (bloc b) (bloc e0)) l) as [i|]; simpl; [|reflexivity].
    rewrite map_app, firstn_map. simpl. rewrite skipn_map. reflexivity.
Qed.


Lemma own_of_relabel f h : order_preserving f -> relabels f h -> forall its acc,
  own_of (map h its) (map (shift_bind f) acc) = option_map (map (shift_bind f)) (own_of its acc).
Proof.
  intros Hf Hh. induction its as [|it its IH]; intros acc; simpl; [reflexivity|].
  pose proof (Hh it) as Hit. destruct it as [id p|b].
  - destruct Hit as (id' & p' & ->). apply IH.
  - rewrite Hit. rewrite insert_loc_shift by exact Hf.
    destruct (insert_loc acc b) as [acc'|]; simpl; [apply IH|reflexivity].
Qed.

Lemma insert_loc_total l b : exists l', insert_loc l b = Some l'.
Proof.
  unfold insert_loc. destruct (rev l) as [|e r]; [eexists; reflexivity|].
  destruct (pos_ltb (bloc e) (bloc b)); [eexists; reflexivity|].
  destruct (bisect_total (fun e0 => pos_ltb (bloc b) (bloc e0)) l) as (i & -> & _). eexists; reflexivity.
Qed.

(* the fuel always suffices: the model never returns its error value *)
Theorem own_of_total its : forall acc, exists own, own_of its acc = Some own.
Proof.
  induction its as [|it its IH]; intros acc; simpl; [eexists; reflexivity|].
  destruct it as [id p|b]; [apply IH|].
  destruct (insert_loc_total acc b) as (acc' & ->). apply IH.
Qed.

Theorem names_at_total own pk q : exists ks, names_at own pk q = Some ks.
Proof.
  unfold names_at. destruct (bisect_total (fun e => pos_ltb q (bloc e)) own) as (i & -> & _).
  eexists; reflexivity.
Qed.

Theorem visible_total its pk q : exists ps, visible its pk q = Some ps.
Proof.
  unfold visible. destruct (own_of_total its []) as (own & ->).
  destruct (names_at_total own pk q) as (ks & ->). eexists; reflexivity.
Qed.

(* the analysis never looks at the identifier of a load *)
Theorem visible_ignores_load_identifiers g its pk q :
  visible (map (rename_load g) its) pk q = visible its pk q.
Proof.
  unfold visible.
  assert (H : forall acc, own_of (map (rename_load g) its) acc = own_of its acc).
  { induction its as [|it its IH]; intros acc; simpl; [reflexivity|].
    destruct it as [id p|b]; simpl; [apply IH|].
    destruct (insert_loc acc b); [apply IH|reflexivity]. }
  rewrite H. reflexivity.
Qed.

(* invariance of the whole lookup under any order preserving relabelling of positions *)
Theorem visible_order_invariant f h its pk q : order_preserving f -> relabels f h ->
  visible (map h its) pk (f q) = visible its pk q.
Proof.
  intros Hf Hh. unfold visible.
  pose proof (own_of_relabel f h Hf Hh its []) as E. simpl in E. rewrite E.
  destruct (own_of its []) as [own|]; simpl; [|reflexivity].
  rewrite names_at_shift_invariant by exact Hf. reflexivity.
Qed.

(* -- the shift made by the mark ---------------------------------------------------------- *)

Lemma shift_pos_order ln col k : order_preserving (shift_pos ln col k).
Proof.
  intros [l1 c1] [l2 c2]. unfold shift_pos, pos_ltb. simpl.
  destruct ((l1 =? ln)%N && (col <? c1)%N) eqn:E1; destruct ((l2 =? ln)%N && (col <? c2)%N) eqn:E2;
    simpl; lia.
Qed.

Lemma shift_pos_cursor ln col k : shift_pos ln col k (ln, col) = (ln, col).
Proof. unfold shift_pos. simpl. rewrite N.ltb_irrefl, andb_false_r. reflexivity. Qed.

Lemma mark_item_relabels ln col : relabels (shift_pos ln col mark_len) (mark_item ln col).
Proof.
  intros [id p|b]; simpl; [|reflexivity].
  destruct (under_cursor ln col id p); eexists; eexists; reflexivity.
Qed.

(* MARK TRANSPARENCY (one flow): the names proposed at the cursor (ln, col) are the same whether
   the flow is analysed with or without the mark spliced in. *)
Theorem mark_transparent ln col its pk :
  visible (map (mark_item ln col) its) pk (ln, col) = visible its pk (ln, col).
Proof.
  rewrite <- (shift_pos_cursor ln col mark_len) at 1.
  apply visible_order_invariant; [apply shift_pos_order|apply mark_item_relabels].
Qed.

(* every other lookup made while evaluating an expression of the marked tree happens at the
   shifted position of the node and sees what the unmarked tree sees at the original position *)
Theorem mark_transparent_anywhere ln col its pk q :
  visible (map (mark_item ln col) its) pk (shift_pos ln col mark_len q) = visible its pk q.
Proof. apply visible_order_invariant; [apply shift_pos_order|apply mark_item_relabels]. Qed.

(* marking renames exactly the identifier under the cursor: 13 more characters, contains the mark *)
Lemma mark_ident_marked id off : is_marked (mark_ident id off) = true.
Proof. apply is_marked_spec. exists (firstn off id), (skipn off id). reflexivity. Qed.

Lemma mark_ident_length id off : length (mark_ident id off) = length id + 13.
Proof.
  unfold mark_ident. rewrite !app_length. rewrite <- (firstn_skipn off id) at 3.
  rewrite app_length. simpl. lia.
Qed.

(* =============================================================================================
   4. What the lookup means: on the list kept sorted by insert_loc, names_at sees exactly the
      bindings located at or before the query
   ============================================================================================= *)

Lemma pos_ltb_irrefl a : pos_ltb a a = false.
Proof. destruct a as [l c]. unfold pos_ltb. simpl. lia. Qed.

Lemma pos_ltb_trans a b c : pos_ltb a b = true -> pos_ltb b c = true -> pos_ltb a c = true.
Proof. destruct a, b, c. unfold pos_ltb. simpl. lia. Qed.

Lemma pos_le_lt a b c : pos_ltb b a = false -> pos_ltb c a = true -> pos_ltb c b = true.
Proof. destruct a, b, c. unfold pos_ltb. simpl. lia. Qed.

Lemma pos_lt_le a b c : pos_ltb a b = true -> pos_ltb c b = false -> pos_ltb a c = true.
Proof. destruct a, b, c. unfold pos_ltb. simpl. lia. Qed.

Lemma pos_le_trans a b c : pos_ltb b a = false -> pos_ltb c b = false -> pos_ltb c a = false.
Proof. destruct a, b, c. unfold pos_ltb. simpl. lia. Qed.

(* a is located at or before b *)
Definition loc_le (a b : bind) : Prop := pos_ltb (bloc b) (bloc a) = false.
Definition loc_sorted (l : list bind) : Prop := StronglySorted loc_le l.

(* a predicate that, once true, stays true further right in a sorted list, splits it *)
Lemma mono_split (P : bind -> bool) l :
  loc_sorted l -> (forall a b, loc_le a b -> P a = true -> P b = true) ->
  exists k, k <= length l /\
            (forall i e, nth_error l i = Some e -> P e = negb (Nat.ltb i k)) /\
            firstn k l = filter (fun e => negb (P e)) l.
Proof.
  intros Hs Hm. induction Hs as [|a r Hr IH Ha].
  - exists 0. split; [simpl; lia|]. split; [intros [|i] e H; discriminate H|reflexivity].
  - destruct (P a) eqn:E.
    + exists 0. split; [simpl; lia|]. split.
      * intros [|i] e H; simpl in H.
        -- injection H as <-. exact E.
        -- rewrite Forall_forall in Ha. apply (Hm a e); [apply Ha; eapply nth_error_In; exact H|exact E].
      * simpl. rewrite E. simpl.
        rewrite Forall_forall in Ha. clear IH Hr.
        induction r as [|x r IHr]; simpl; [reflexivity|].
        rewrite (Hm a x (Ha x (or_introl eq_refl)) E). simpl.
        apply IHr. intros y Hy. apply Ha. right; exact Hy.
    + destruct IH as (k & K1 & K2 & K3). exists (S k). split; [simpl; lia|]. split.
      * intros [|i] e H; simpl in H.
        -- injection H as <-. exact E.
        -- apply K2. exact H.
      * simpl. rewrite E. simpl. f_equal. exact K3.
Qed.

(* bisect on a sorted list returns the number of bindings at or before the query, and they are a
   prefix of the list *)
Lemma bisect_sorted q l : loc_sorted l ->
  exists k, bisect (fun e => pos_ltb q (bloc e)) l = Some k /\
            firstn k l = filter (fun e => negb (pos_ltb q (bloc e))) l.
Proof.
  intros Hs.
  destruct (mono_split (fun e => pos_ltb q (bloc e)) l Hs) as (k & K1 & K2 & K3).
  { intros a b Hab Ha. unfold loc_le in Hab. eapply pos_lt_le; eassumption. }
  exists k. split; [apply bisect_boundary; assumption|exact K3].
Qed.

Lemma loc_sorted_app_last l b :
  loc_sorted l -> (forall e, In e l -> loc_le e b) -> loc_sorted (l ++ [b]).
Proof.
  intros Hs. induction Hs as [|a r Hr IH Ha]; intros H; simpl.
  - constructor; constructor.
  - constructor.
    + apply IH. intros e He. apply H. right; exact He.
    + rewrite Forall_forall in *. intros x Hx. apply in_app_or in Hx as [Hx|[<-|[]]].
      * apply Ha; exact Hx.
      * apply H. left; reflexivity.
Qed.

Lemma loc_sorted_insert l b k :
  loc_sorted l ->
  firstn k l = filter (fun e => negb (pos_ltb (bloc b) (bloc e))) l ->
  loc_sorted (firstn k l ++ b :: skipn k l).
Proof.
  intros Hs. revert k. induction Hs as [|a r Hr IH Ha]; intros k Hk.
  - destruct k; simpl; constructor; constructor.
  - simpl in Hk. destruct (pos_ltb (bloc b) (bloc a)) eqn:E; simpl in Hk.
    + (* b < a: nothing of the list is <= b, k = 0 *)
      assert (k = 0).
      { destruct k; [reflexivity|]. simpl in Hk.
        assert (Hin : In a (filter (fun e => negb (pos_ltb (bloc b) (bloc e))) r))
          by (rewrite <- Hk; left; reflexivity).
        apply filter_In in Hin as [Hin Hf]. rewrite Forall_forall in Ha. specialize (Ha a Hin).
        unfold loc_le in Ha. rewrite pos_ltb_irrefl in Ha.
        (* a in r and a <= b contradicts b < a *)
        apply negb_true_iff in Hf. congruence. }
      subst k. simpl. constructor; [constructor; assumption|].
      constructor.
      * unfold loc_le. destruct (pos_ltb (bloc a) (bloc b)) eqn:F; [|reflexivity].
        pose proof (pos_ltb_trans _ _ _ E F) as G. rewrite pos_ltb_irrefl in G. discriminate.
      * rewrite Forall_forall in *. intros x Hx. specialize (Ha x Hx). unfold loc_le in *.
        destruct (pos_ltb (bloc x) (bloc b)) eqn:F; [|reflexivity].
        (* x < b < a but a <= x *)
        pose proof (pos_ltb_trans _ _ _ F E) as G. congruence.
    + destruct k as [|k]; [discriminate Hk|]. simpl in Hk. injection Hk as Hk.
      simpl. constructor; [apply IH; exact Hk|].
      rewrite Forall_forall in *. intros x Hx. apply in_app_or in Hx as [Hx|[<-|Hx]].
      * apply Ha. eapply my_in_firstn; exact Hx.
      * exact E.
      * apply Ha. eapply my_in_skipn; exact Hx.
Qed.

Lemma insert_loc_sorted l b l' : loc_sorted l -> insert_loc l b = Some l' ->
  loc_sorted l' /\ Permutation l' (b :: l).
Proof.
  intros Hs. unfold insert_loc.
  destruct (rev l) as [|e r] eqn:Er.
  - intros H. injection H as <-. apply (f_equal (@rev bind)) in Er. rewrite rev_involutive in Er.
    subst l. split; [constructor; constructor|apply Permutation_refl].
  - destruct (pos_ltb (bloc e) (bloc b)) eqn:E.
    + intros H. injection H as <-. split.
      * apply loc_sorted_app_last; [exact Hs|].
        assert (Hl : l = rev r ++ [e]).
        { apply (f_equal (@rev bind)) in Er. rewrite rev_involutive in Er. exact Er. }
        intros x Hx. unfold loc_le.
        assert (Hxe : x = e \/ loc_le x e).
        { subst l. apply in_app_or in Hx as [Hx|[<-|[]]]; [right|left; reflexivity].
          clear - Hs Hx. unfold loc_sorted in Hs. induction (rev r) as [|a t IH]; [contradiction|].
          simpl in Hs. inversion Hs as [|? ? S A]; subst. destruct Hx as [<-|Hx].
          - rewrite Forall_forall in A. apply A. apply in_or_app. right; left; reflexivity.
          - apply IH; assumption. }
        destruct Hxe as [->|Hxe].
        -- destruct (pos_ltb (bloc b) (bloc e)) eqn:F; [|reflexivity].
           pose proof (pos_ltb_trans _ _ _ E F) as G. rewrite pos_ltb_irrefl in G. discriminate.
        -- unfold loc_le in Hxe. destruct (pos_ltb (bloc b) (bloc x)) eqn:F; [|reflexivity].
           pose proof (pos_ltb_trans _ _ _ E F) as G. congruence.
      * apply Permutation_sym, Permutation_cons_append.
    + destruct (bisect_sorted (bloc b) l Hs) as (k & K1 & K2). rewrite K1.
      intros H. injection H as <-. split.
      * apply loc_sorted_insert; assumption.
      * apply Permutation_sym. rewrite <- (firstn_skipn k l) at 1. apply Permutation_middle.
Qed.

Fixpoint binds_of (its : list item) : list bind :=
  match its with
  | [] => []
  | Load _ _ :: r => binds_of r
  | Bind b :: r => b :: binds_of r
  end.

Lemma own_of_sorted its : forall acc own, loc_sorted acc -> own_of its acc = Some own ->
  loc_sorted own /\ Permutation own (rev (binds_of its) ++ acc).
Proof.
  induction its as [|it its IH]; intros acc own Hs H; simpl in *.
  - injection H as <-. split; [exact Hs|apply Permutation_refl].
  - destruct it as [id p|b]; [apply IH; assumption|].
    destruct (insert_loc acc b) as [acc'|] eqn:E; [|discriminate].
    destruct (insert_loc_sorted _ _ _ Hs E) as [Hs' Hp].
    destruct (IH acc' own Hs' H) as [H1 H2]. split; [exact H1|].
    eapply Permutation_trans; [exact H2|]. simpl. rewrite <- app_assoc. simpl.
    apply Permutation_app_head. exact Hp.
Qed.

(* DECLARATIVE MEANING of the lookup: the proposals at q are exactly the unmarked names that are
   inherited from the parents or bound in this flow at or before q. *)
Theorem visible_spec its pk q ps : visible its pk q = Some ps ->
  forall x, In x ps <->
    is_marked x = false /\
    (In x pk \/ exists b, In (Bind b) its /\ bname b = x /\ pos_ltb q (bloc b) = false).
Proof.
  unfold visible. destruct (own_of its []) as [own|] eqn:Eo; [|discriminate].
  destruct (own_of_sorted its [] own) as [Hs Hp]; [constructor|exact Eo|]. rewrite app_nil_r in Hp.
  unfold names_at. destruct (bisect_sorted q own Hs) as (k & K1 & K2). rewrite K1, K2.
  intros H. injection H as <-. intros x.
  rewrite proposals_mem, merged_keys_In.
  assert (Hb : forall b, In b own <-> In (Bind b) its).
  { intros b. split; intros Hin.
    - apply (Permutation_in _ Hp) in Hin. apply in_rev in Hin.
      clear - Hin. induction its as [|[id p|b'] r IH]; simpl in *; [contradiction|right; auto|].
      destruct Hin as [->|Hin]; [left; reflexivity|right; auto].
    - apply (Permutation_in _ (Permutation_sym Hp)). apply -> in_rev.
      clear - Hin. induction its as [|[id p|b'] r IH]; simpl in *; [contradiction| |].
      + destruct Hin as [Hin|Hin]; [discriminate|auto].
      + destruct Hin as [Hin|Hin]; [injection Hin as ->; left; reflexivity|right; auto]. }
  split.
  - intros [(d & Hd & Hx) Hm]. split; [exact Hm|].
    destruct Hd as [<-|[<-|[]]].
    + right. apply in_map_iff in Hx as (b & Hbn & Hbin). apply filter_In in Hbin as [Hbin Hf].
      exists b. split; [apply Hb; exact Hbin|]. split; [exact Hbn|]. apply negb_true_iff; exact Hf.
    + left; exact Hx.
  - intros [Hm [Hpk|(b & Hbin & Hbn & Hf)]]; (split; [|exact Hm]).
    + exists pk. split; [right; left; reflexivity|exact Hpk].
    + eexists. split; [left; reflexivity|]. apply in_map_iff. exists b. split; [exact Hbn|].
      apply filter_In. split; [apply Hb; exact Hbin|]. apply negb_true_iff; exact Hf.
Qed.

(* =============================================================================================
   5. The branch selector of the package-listing shortcut
   ============================================================================================= *)

(* a text made of a zone without c1 followed by a zone without c2 never contains "c1 c2" *)
Lemma no_infix_two_zones (c1 c2 : N) X : (forall c, In c X -> c <> c2) ->
  forall Lz a b, (forall c, In c Lz -> c <> c1) -> Lz ++ X <> a ++ c1 :: c2 :: b.
Proof.
  intros HX. induction Lz as [|l Lz IH]; intros a b HL E.
  - simpl in E. apply (HX c2); [|reflexivity]. rewrite E. apply in_or_app. right. right. left. reflexivity.
  - destruct a as [|x a]; simpl in E.
    + injection E as E1 _. apply (HL l); [left; reflexivity|exact E1].
    + injection E as _ E. apply (IH a b); [|exact E]. intros c Hc. apply HL. right; exact Hc.
Qed.

Lemma lstrip_app_nonspace indent s c : forallb is_space indent = true -> is_space c = false ->
  lstrip (indent ++ c :: s) = c :: s.
Proof.
  intros Hi Hc. induction indent as [|x indent IH]; simpl.
  - rewrite Hc. reflexivity.
  - simpl in Hi. apply andb_true_iff in Hi as [H1 H2]. rewrite H1. apply IH; exact H2.
Qed.

(* Every half-typed `from X` line - any indentation, X any (possibly relative, possibly empty or
   unfinished) dotted identifier path, whatever letters it starts with - takes the shortcut. *)
Theorem from_branch_taken indent X :
  forallb is_space indent = true -> forallb is_path_char X = true ->
  from_branch (indent ++ kw_from ++ X) = true.
Proof.
  intros Hi HX. unfold from_branch. apply andb_true_iff. split.
  - unfold kw_from. simpl app. rewrite lstrip_app_nonspace; [|exact Hi|reflexivity].
    apply prefixb_spec. eexists. reflexivity.
  - apply negb_true_iff. destruct (infixb kw_import (indent ++ kw_from ++ X)) eqn:E; [|reflexivity].
    exfalso. apply infixb_spec in E as (a & b & E).
    (* the 't' of " import " would have to lie in indent ++ "from ", its final blank in X *)
    assert (E' : (indent ++ kw_from) ++ X =
                 (a ++ [32; 105; 109; 112; 111; 114]%N) ++ 116%N :: 32%N :: b).
    { rewrite <- !app_assoc. exact E. }
    revert E'. apply no_infix_two_zones.
    + intros c Hc. rewrite forallb_forall in HX. specialize (HX c Hc).
      intros ->. vm_compute in HX. discriminate.
    + intros c Hc. apply in_app_or in Hc as [Hc|Hc].
      * rewrite forallb_forall in Hi. specialize (Hi c Hc). intros ->. vm_compute in Hi. discriminate.
      * unfold kw_from in Hc. simpl in Hc. intros ->.
        repeat (destruct Hc as [Hc|Hc]; [discriminate|]). contradiction.
Qed.

(* once ` import ` has been typed the shortcut is not taken any more *)
Lemma from_branch_after_import a b : from_branch (a ++ kw_import ++ b) = false.
Proof.
  unfold from_branch. apply andb_false_iff. right. apply negb_false_iff.
  apply infixb_spec. exists a, b. reflexivity.
Qed.
