(* C02 across scopes, for a call made after the caller's (cut) body completed normally: every read
   event of every level of the chain - the definition actually obtained for a local OR a free name,
   or the failure - is among the alternatives supp lists for that read. *)
From Coq Require Import List Bool Arith NArith.
Import ListNotations.
From Supp Require Import Model.PyCore Model.Reach Model.ReachX Model.Sem Model.SemX Model.SemXS Model.Nested Model.NestedRun Model.NestedRunS
  Proofs.ReachProofs Proofs.ReachCorollaries Proofs.ReachXProofs Proofs.NestedProofs.

Lemma abs_enter locals p s : abs p s -> abs (enter_r locals p) (enter_a locals s).
Proof.
  intros H x. unfold enter_r, enter_a. destruct (mem_name x locals); [left; reflexivity|apply H].
Qed.

Lemma alt_eqb_refl a : alt_eqb a a = true.
Proof. destruct a as [d|]; simpl; [apply N.eqb_refl|reflexivity]. Qed.

Lemma existsb_alt_in a l : In a l -> existsb (alt_eqb a) l = true.
Proof. intros H. apply existsb_exists. exists a. split; [exact H|apply alt_eqb_refl]. Qed.

Theorem chain_sound : forall fuel rest outers p ds,
  forallb okx rest = true -> abs p (exit_chain outers) ->
  forallb level_sound (run_chain_s fuel outers rest p ds) = true.
Proof.
  intros fuel rest. induction rest as [|c rest IH]; intros outers p ds Hok Hab; simpl; [reflexivity|].
  simpl in Hok. apply andb_true_iff in Hok as [Hc Hrest].
  destruct (runXs fuel c (enter_r (binds c) p) ds) as [p' tr o ds'| |] eqn:Hr; [|reflexivity|reflexivity].
  pose proof (soundx fuel c (enter_r (binds c) p) ds (enter_a (binds c) (exit_chain outers)) Hc
                (abs_enter _ _ _ Hab)) as G.
  rewrite Hr in G. destruct G as [Ho Htr].
  cbn [forallb]. apply andb_true_iff. split.
  - unfold level_sound. apply forallb_forall. intros [r v] Hin. simpl.
    apply existsb_alt_in. unfold seen_nested, entry_a. apply (Htr r v Hin).
  - destruct o; try reflexivity.
    apply IH; [exact Hrest|]. rewrite exit_chain_snoc. unfold exit_a. exact Ho.
Qed.

Corollary module_chain_sound fuel bodies ds :
  forallb okx bodies = true -> forallb level_sound (run_chain_s fuel [] bodies renv0 ds) = true.
Proof. intros H. apply chain_sound; [exact H|]. exact abs0. Qed.
