(* Consequences of soundness for lint / go-to-definition / completion (C01, C02). *)
From Coq Require Import List Bool Arith NArith Lia.
Import ListNotations.
From Supp Require Import Model.PyCore Model.Reach Model.Sem Proofs.ReachProofs.

Lemma abs0 : abs renv0 aenv0.
Proof. intros x. left. reflexivity. Qed.

Lemma reads_h_nth hs : forall i ty nm hb, hnth hs i = Some (ty, nm, hb) ->
  forall rx, In rx (reads ty ++ reads hb) -> In rx (reads_h hs).
Proof.
  induction hs as [|ty0 nm0 hb0 rest IH]; intros i ty nm hb H rx Hin; [destruct i; discriminate|].
  destruct i as [|i]; simpl in *.
  - injection H as -> -> ->. rewrite app_assoc. apply in_or_app; left; exact Hin.
  - rewrite app_assoc. apply in_or_app; right. eapply IH; eauto.
Qed.

(* every event of a trace is at a read site of the command *)
Lemma trace_reads c p tr o p' : exec c p tr o p' ->
  forall r v, In (r, v) tr -> In (r, match v with _ => r end) (map (fun rx => (fst rx, fst rx)) (reads c)).
Proof.
  assert (Hm : forall (l m : list (site * name)) r,
             In (r, r) (map (fun rx => (fst rx, fst rx)) l) \/ In (r, r) (map (fun rx => (fst rx, fst rx)) m) ->
             In (r, r) (map (fun rx => (fst rx, fst rx)) (l ++ m))).
  { intros l m r H. rewrite map_app. apply in_or_app; exact H. }
  induction 1; intros r0 v0 Hin; simpl in *; try contradiction.
  - destruct Hin as [Heq|[]]. injection Heq as <- <-. left; reflexivity.
  - rewrite in_app_iff in Hin. apply Hm. destruct Hin; [left|right]; eauto.
  - apply Hm. left; eauto.
  - apply Hm. left; eauto.
  - apply Hm. right; eauto.
  - rewrite !in_app_iff in Hin. destruct Hin as [Hin|[Hin|Hin]].
    + apply Hm; left; eauto.
    + apply Hm; right; apply Hm; left; eauto.
    + eapply IHexec3; eauto.
  - rewrite !in_app_iff in Hin. destruct Hin as [Hin|Hin].
    + apply Hm; left; eauto.
    + apply Hm; right; apply Hm; left; eauto.
  - rewrite !in_app_iff in Hin. destruct Hin as [Hin|Hin].
    + apply Hm; left; eauto.
    + apply Hm; right; apply Hm; right; eauto.
  - rewrite !in_app_iff in Hin. destruct Hin as [Hin|[Hin|Hin]].
    + apply Hm; left; eauto.
    + apply Hm; right; apply Hm; left; eauto.
    + eapply IHexec3; eauto.
  - rewrite !in_app_iff in Hin. destruct Hin as [Hin|Hin].
    + apply Hm; left; eauto.
    + apply Hm; right; apply Hm; left; eauto.
  - apply Hm; right; apply Hm; right; eauto.
  - (* try first *)
    rewrite !in_app_iff in Hin. apply Hm; right. destruct Hin as [Hin|[Hin|Hin]].
    + apply Hm; left.
      specialize (IHexec1 _ _ Hin). apply in_map_iff in IHexec1 as [[r1 x1] [E1 I1]]. simpl in E1. injection E1 as <-.
      apply in_map_iff. exists (r1, x1). split; [reflexivity|]. eapply reads_h_nth; [exact H0|]. apply in_or_app; left; exact I1.
    + apply Hm; left.
      specialize (IHexec2 _ _ Hin). apply in_map_iff in IHexec2 as [[r1 x1] [E1 I1]]. simpl in E1. injection E1 as <-.
      apply in_map_iff. exists (r1, x1). split; [reflexivity|]. eapply reads_h_nth; [exact H0|]. apply in_or_app; right; exact I1.
    + apply Hm; right; apply Hm; right; eauto.
  - (* try last *)
    rewrite !in_app_iff in Hin. destruct Hin as [Hin|[Hin|[Hin|Hin]]].
    + apply Hm; left; eauto.
    + apply Hm; right; apply Hm; left.
      specialize (IHexec2 _ _ Hin). apply in_map_iff in IHexec2 as [[r1 x1] [E1 I1]]. simpl in E1. injection E1 as <-.
      apply in_map_iff. exists (r1, x1). split; [reflexivity|]. eapply reads_h_nth; [exact H0|]. apply in_or_app; left; exact I1.
    + apply Hm; right; apply Hm; left.
      specialize (IHexec3 _ _ Hin). apply in_map_iff in IHexec3 as [[r1 x1] [E1 I1]]. simpl in E1. injection E1 as <-.
      apply in_map_iff. exists (r1, x1). split; [reflexivity|]. eapply reads_h_nth; [exact H0|]. apply in_or_app; right; exact I1.
    + apply Hm; right; apply Hm; right; apply Hm; right; eauto.
  - rewrite !in_app_iff in Hin. destruct Hin as [Hin|[Hin|Hin]].
    + apply Hm; left; eauto.
    + apply Hm; right; apply Hm; right; apply Hm; left; eauto.
    + apply Hm; right; apply Hm; right; apply Hm; right; eauto.
  - rewrite !in_app_iff in Hin. destruct Hin as [Hin|Hin].
    + apply Hm; left; eauto.
    + apply Hm; right; apply Hm; right; apply Hm; right; eauto.
Qed.

Lemma trace_site_is_read c p tr o p' r v :
  exec c p tr o p' -> In (r, v) tr -> exists x, In (r, x) (reads c).
Proof.
  intros He Hin. pose proof (trace_reads _ _ _ _ _ He _ _ Hin) as H.
  apply in_map_iff in H as [[r1 x1] [E I]]. simpl in E. injection E as <-. exists x1; exact I.
Qed.

Lemma alt_eqb_refl a : alt_eqb a a = true.
Proof. destruct a; simpl; [apply N.eqb_refl|reflexivity]. Qed.

Lemma used_of_seen c s r x d :
  In (r, x) (reads c) -> In (Some d) (seen c s r) -> used c s d = true.
Proof.
  intros Hr Hs. unfold used. apply existsb_exists. exists (r, x). split; [exact Hr|].
  apply existsb_exists. exists (Some d). split; [exact Hs|apply alt_eqb_refl].
Qed.

(* C02, all in one: for every program of the fragment and every execution from the scope entry,
   a read that obtains the value bound at site d is told about d; d is marked used (so lint
   reports neither W01 nor W02 for it); the read is not reported as undefined and the name is
   offered by completion. *)
Theorem c02_all c tr o p' r d :
  ok c = true -> exec c renv0 tr o p' -> In (r, Some d) tr ->
  In (Some d) (seen c aenv0 r) /\ used c aenv0 d = true /\ e02 c aenv0 r = false /\ visible c aenv0 r = true.
Proof.
  intros Hok He Hin.
  destruct (sound _ _ _ _ _ He Hok _ abs0) as [_ B]. specialize (B _ _ Hin).
  destruct (trace_site_is_read _ _ _ _ _ _ _ He Hin) as [x Hx].
  assert (Hv : existsb is_def (seen c aenv0 r) = true).
  { apply existsb_exists. exists (Some d). split; [exact B|reflexivity]. }
  split; [exact B|]. split; [eapply used_of_seen; eauto|]. unfold e02, visible. rewrite Hv. auto.
Qed.

(* an unused-name report is therefore never about a binding that some execution reads *)
Corollary no_false_unused c d :
  ok c = true -> In d (unused_sites c aenv0) ->
  forall tr o p' r, exec c renv0 tr o p' -> ~ In (r, Some d) tr.
Proof.
  intros Hok Hu tr o p' r He Hin. unfold unused_sites in Hu. apply filter_In in Hu as [_ Hu].
  destruct (c02_all _ _ _ _ _ _ Hok He Hin) as (_ & U & _). rewrite U in Hu. discriminate.
Qed.

(* C01 (name level, nested scopes): the environment a scope exports to the scopes nested in it
   (its final flow) defines every name the scope binds anywhere. *)
Notation defined s x := (exists d, In (Some d) (s x)) (only parsing).

Lemma defined_both :
  (forall c s x, defined s x \/ In x (binds c) -> defined (an c s) x) /\
  (forall hs hin acc x, defined acc x \/ defined hin x \/ In x (binds_h hs) ->
       hs <> HNil \/ defined acc x -> defined (an_h hs hin acc) x).
Proof.
  apply cmd_hlist_ind; simpl.
  - intros s x [H|[]]; exact H.
  - intros a IHa b IHb s x [H|H]; [apply IHb; left; apply IHa; left; exact H|].
    apply in_app_iff in H as [H|H]; [apply IHb; left; apply IHa; right; exact H|apply IHb; right; exact H].
  - intros d y s x [[d0 H]|[Heq|Hf]]; unfold upd; [| |contradiction].
    + destruct (N.eqb x y); [exists d; left; reflexivity|exists d0; exact H].
    + subst x. rewrite N.eqb_refl. exists d; left; reflexivity.
  - intros r y s x [H|[]]; exact H.
  - intros a IHa b IHb s x H.
    assert (defined (an a s) x \/ defined (an b s) x) as [[d Hd]|[d Hd]].
    { destruct H as [H|H]; [left; apply IHa; left; exact H|].
      apply in_app_iff in H as [H|H]; [left; apply IHa|right; apply IHb]; right; exact H. }
    + exists d. unfold join. apply in_or_app; left; exact Hd.
    + exists d. unfold join. apply in_or_app; right; exact Hd.
  - intros t IHt b IHb e IHe s x H. apply IHe.
    destruct H as [H|H].
    + left. apply IHt. left. destruct H as [d Hd]. exists d. unfold join. apply in_or_app; left; exact Hd.
    + rewrite !in_app_iff in H. destruct H as [H|[H|H]].
      * left. apply IHt. right; exact H.
      * left. apply IHt. left. assert (defined (an b (an t s)) x) as [d Hd] by (apply IHb; right; exact H).
        exists d. unfold join. apply in_or_app; right; exact Hd.
      * right; exact H.
  - intros tg IHt b IHb e IHe s x H. apply IHe.
    destruct H as [H|H].
    + left. destruct H as [d Hd]. exists d. unfold join. apply in_or_app; left; exact Hd.
    + rewrite !in_app_iff in H. destruct H as [H|[H|H]].
      * left. assert (defined (an b (an tg (join s (an b (an tg s))))) x) as [d Hd] by (apply IHb; left; apply IHt; right; exact H).
        exists d. unfold join. apply in_or_app; right; exact Hd.
      * left. assert (defined (an b (an tg (join s (an b (an tg s))))) x) as [d Hd] by (apply IHb; right; exact H).
        exists d. unfold join. apply in_or_app; right; exact Hd.
      * right; exact H.
  - intros rf b IHb rl hs IHhs e IHe f IHf s x H. apply IHf.
    destruct H as [H|H].
    + left. apply IHhs.
      * left. apply IHe. left. apply IHb. left. exact H.
      * right. apply IHe. left. apply IHb. left. exact H.
    + rewrite !in_app_iff in H. destruct H as [H|[H|[H|H]]].
      * left. apply IHhs; [left|right]; apply IHe; left; apply IHb; right; exact H.
      * left. destruct hs as [|ty nm hb rest].
        { simpl in H. contradiction. }
        apply IHhs; [right; right; exact H|left; discriminate].
      * left. apply IHhs; [left|right]; apply IHe; right; exact H.
      * right; exact H.
  - intros k s x [H|[]]; exact H.
  - intros hin acc x _ [H|H]; [exfalso; apply H; reflexivity|exact H].
  - intros ty IHty nm hb IHhb rest IHrest hin acc x H _.
    (* after this handler the accumulator is acc ⊔ (this handler's exit) *)
    set (hout := an hb (bind_opt_a nm (an ty hin))).
    assert (Hacc : forall y, defined acc y \/ defined hout y -> defined (join acc hout) y).
    { intros y [[d Hd]|[d Hd]]; exists d; unfold join; apply in_or_app; [left|right]; exact Hd. }
    assert (Hown : defined hin x \/ In x (binds ty ++ match nm with Some (_, y) => [y] | None => [] end ++ binds hb) -> defined hout x).
    { intros [Hd|Hin]; unfold hout.
      - apply IHhb. left. destruct nm as [[d y]|]; simpl.
        + unfold upd. destruct (N.eqb x y) eqn:E; [exists d; left; reflexivity|]. apply IHty; left; exact Hd.
        + apply IHty; left; exact Hd.
      - rewrite !in_app_iff in Hin. destruct Hin as [Hin|[Hin|Hin]].
        + apply IHhb. left. destruct nm as [[d y]|]; simpl.
          * unfold upd. destruct (N.eqb x y) eqn:E; [exists d; left; reflexivity|]. apply IHty; right; exact Hin.
          * apply IHty; right; exact Hin.
        + apply IHhb. left. destruct nm as [[d y]|]; simpl in *; [|contradiction].
          destruct Hin as [Heq|Hf]; [|contradiction]. subst x. unfold upd. rewrite N.eqb_refl. exists d; left; reflexivity.
        + apply IHhb. right; exact Hin. }
    destruct H as [H|[H|H]].
    + apply IHrest; [left|right]; apply Hacc; left; exact H.
    + apply IHrest; [left|right]; apply Hacc; right; apply Hown; left; exact H.
    + rewrite !in_app_iff in H. destruct H as [H|[H|[H|H]]].
      * apply IHrest; [left|right]; apply Hacc; right; apply Hown; right; rewrite !in_app_iff; auto.
      * apply IHrest; [left|right]; apply Hacc; right; apply Hown; right; rewrite !in_app_iff; auto.
      * apply IHrest; [left|right]; apply Hacc; right; apply Hown; right; rewrite !in_app_iff; auto.
      * destruct rest as [|ty' nm' hb' rest'].
        { simpl in H; contradiction. }
        apply IHrest; [right; right; exact H|left; discriminate].
Qed.

Theorem exported_defines_all_bound c s x : In x (binds c) -> defined (an c s) x.
Proof. intros H. apply defined_both. right; exact H. Qed.
