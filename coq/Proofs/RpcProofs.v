(* Lemmas for C15 (Model/Rpc.v). *)
From Coq Require Import List Bool Arith ZArith NArith Lia.
Import ListNotations.
From Supp Require Import Model.Rpc.

Section RpcProofs.
  Variable W : world.
  Hypothesis OK : world_ok W.

  Local Notation sysW := (sys W).

  (* ------------------------------------------------------------------ codec at value level *)
  Lemma dumps_loads : forall v b, dumps W v = Some b -> loads W b = Some (normalise W v).
  Proof.
    intros v b H. unfold dumps in H. unfold loads.
    destruct (to_msg W v) as [w|] eqn:Hw; [|discriminate].
    rewrite (codec_rt W OK _ _ _ Hw H). rewrite (norm_ok W OK _ _ Hw). reflexivity.
  Qed.

  Lemma serialisable_dumps : forall v, serialisable W v = true -> exists b, dumps W v = Some b.
  Proof.
    intros v H. unfold serialisable in H. destruct (dumps W v) as [b|]; [eauto|discriminate].
  Qed.

  (* the reply produced for a result, decoded by the client, is the expected observation *)
  Lemma reply_roundtrip_ret : forall v,
    exists b, reply_content W v true = Some b /\ decode_reply W b = expected W (Ret v).
  Proof.
    intros v. unfold reply_content, expected, serialisable.
    destruct (dumps W (reply_val W v true)) as [b|] eqn:Hd.
    - exists b. split; [reflexivity|]. unfold decode_reply.
      rewrite (dumps_loads _ _ Hd), (unpair_reply W OK). reflexivity.
    - destruct (serialisable_dumps _ (serr_ok W OK)) as [b Hb]. exists b. split; [exact Hb|].
      unfold decode_reply. rewrite (dumps_loads _ _ Hb), (unpair_reply W OK), (exc_text_ok W OK).
      reflexivity.
  Qed.

  Lemma reply_roundtrip_raise : forall c m,
    exists b, reply_content W (exc_val W c m) false = Some b /\
              decode_reply W b = expected W (Raise c m).
  Proof.
    intros c m. unfold reply_content, expected, serialisable.
    destruct (dumps W (reply_val W (exc_val W c m) false)) as [b|] eqn:Hd.
    - exists b. split; [reflexivity|]. unfold decode_reply.
      rewrite (dumps_loads _ _ Hd), (unpair_reply W OK), (exc_text_ok W OK). reflexivity.
    - destruct (serialisable_dumps _ (serr_ok W OK)) as [b Hb]. exists b. split; [exact Hb|].
      unfold decode_reply. rewrite (dumps_loads _ _ Hb), (unpair_reply W OK), (exc_text_ok W OK).
      reflexivity.
  Qed.

  (* ------------------------------------------------------------------ one server iteration *)
  (* the iteration that finds the (encoded) request r at the head of the queue *)
  Lemma server_iter_request : forall r b rest q ps,
    dumps W (req_val W r) = Some b ->
    is_close W (normalise W (req_val W r)) = false ->
    fst (api W ps r) <> Escape ->
    exists content,
      server_iter W {| c2s := b :: rest; s2c := q; running := true; proj := ps |} =
        {| c2s := rest; s2c := q ++ [content]; running := true; proj := snd (api W ps r) |} /\
      decode_reply W content = expected W (fst (api W ps r)).
  Proof.
    intros r b rest q ps Hd Hc Hne. unfold server_iter; simpl.
    rewrite (dumps_loads _ _ Hd), Hc. unfold process. rewrite (serve_api W OK).
    destruct (api W ps r) as [[v|c m|] ps'] eqn:Ha; simpl in *.
    - destruct (reply_roundtrip_ret v) as (content & Hr & Hdec). rewrite Hr. eauto.
    - destruct (reply_roundtrip_raise c m) as (content & Hr & Hdec). rewrite Hr. eauto.
    - congruence.
  Qed.

  Lemma iter_stopped : forall n (s : sysW), running s = false -> iter W n s = s.
  Proof.
    induction n as [|n IH]; intros s H; simpl; [reflexivity|].
    assert (E : server_iter W s = s) by (unfold server_iter; rewrite H; reflexivity).
    rewrite E. apply IH, H.
  Qed.

  (* ------------------------------------------------------------------ one synchronous call *)
  (* between calls: nothing in flight towards the client, and nothing unread by a live server *)
  Definition quiet (s : sysW) : Prop := s2c s = [] /\ (running s = true -> c2s s = []).

  Lemma quiet_init : forall ps, quiet (init W ps).
  Proof. intros ps. split; [reflexivity|intros _; reflexivity]. Qed.

  Definition abs (s : sysW) : bool * pstate W := (running s, proj s).

  Lemma call_refines : forall s r, quiet s ->
    ref_step W (abs s) r = (fst (call W s r), abs (snd (call W s r))) /\ quiet (snd (call W s r)).
  Proof.
    intros [cq sq run ps] r [Hs Hc]; simpl in *. subst sq.
    unfold call, client_send, ref_step, abs, serialisable; simpl.
    destruct (dumps W (req_val W r)) as [b|] eqn:Hd; simpl.
    2:{ split; [reflexivity|]. split; [reflexivity|exact Hc]. }
    destruct run; simpl.
    - (* server alive: its queue is empty, so the request is served by the next iteration *)
      rewrite (Hc eq_refl). unfold drain; simpl. unfold server_iter; simpl.
      rewrite (dumps_loads _ _ Hd).
      destruct (is_close W (normalise W (req_val W r))) eqn:Hcl; simpl.
      { split; [reflexivity|]. split; [reflexivity|intros H; discriminate H]. }
      unfold process. rewrite (serve_api W OK).
      destruct (api W ps r) as [[v|c m|] ps'] eqn:Ha; simpl.
      + destruct (reply_roundtrip_ret v) as (content & Hr & Hdec). rewrite Hr; simpl.
        rewrite Hdec. split; [reflexivity|]. split; [reflexivity|intros _; reflexivity].
      + destruct (reply_roundtrip_raise c m) as (content & Hr & Hdec). rewrite Hr; simpl.
        rewrite Hdec. split; [reflexivity|]. split; [reflexivity|intros _; reflexivity].
      + split; [reflexivity|]. split; [reflexivity|intros H; discriminate H].
    - (* server gone: nothing is served, recv_bytes raises *)
      unfold drain. rewrite iter_stopped by reflexivity. simpl.
      split; [reflexivity|]. split; [reflexivity|intros H; discriminate H].
  Qed.

  Lemma run_calls_refines : forall rs s, quiet s ->
    ref_run W (abs s) rs = (fst (run_calls W s rs), abs (snd (run_calls W s rs))) /\
    quiet (snd (run_calls W s rs)).
  Proof.
    induction rs as [|r rs IH]; intros s Hq; cbn [ref_run run_calls].
    - split; [reflexivity|exact Hq].
    - destruct (call_refines s r Hq) as [Hstep Hq1]. rewrite Hstep.
      destruct (call W s r) as [o s1]; simpl in *.
      destruct (IH s1 Hq1) as [Hrun Hq2]. rewrite Hrun.
      destruct (run_calls W s1 rs) as [os s2]; simpl in *. split; [reflexivity|exact Hq2].
  Qed.

  (* ------------------------------------------------------------------ the property's domain *)
  Lemma ref_step_benign : forall ps r,
    sendable W r -> fst (api W ps r) <> Escape ->
    ref_step W (true, ps) r = (expected W (fst (api W ps r)), (true, snd (api W ps r))).
  Proof.
    intros ps r [Hser Hcl] Hne. unfold ref_step. rewrite Hser, Hcl; simpl.
    destruct (api W ps r) as [[v|c m|] ps']; simpl in *; try reflexivity. congruence.
  Qed.

  Lemma ref_run_benign : forall rs ps, benign W ps rs ->
    ref_run W (true, ps) rs = (map (expected W) (inproc_trace W ps rs), (true, inproc_state W ps rs)).
  Proof.
    induction rs as [|r rs IH]; intros ps Hb; cbn [ref_run inproc_trace inproc_state]; [reflexivity|].
    destruct Hb as (Hs & Hne & Hb). rewrite (ref_step_benign ps r Hs Hne).
    rewrite (IH _ Hb). destruct (api W ps r) as [o ps']; reflexivity.
  Qed.

  Theorem transparent : forall ps rs, benign W ps rs ->
    fst (run_calls W (init W ps) rs) = map (expected W) (inproc_trace W ps rs) /\
    proj (snd (run_calls W (init W ps) rs)) = inproc_state W ps rs /\
    running (snd (run_calls W (init W ps) rs)) = true /\
    c2s (snd (run_calls W (init W ps) rs)) = [] /\
    s2c (snd (run_calls W (init W ps) rs)) = [].
  Proof.
    intros ps rs Hb.
    destruct (run_calls_refines rs (init W ps) (quiet_init ps)) as [Href [Hq1 Hq2]].
    change (abs (init W ps)) with (true, ps) in Href.
    rewrite (ref_run_benign rs ps Hb) in Href. unfold abs in Href.
    injection Href as Ho Hr Hp.
    repeat split; try congruence. apply Hq2. congruence.
  Qed.

  (* general form: outside the domain too (request that cannot be sent, 'close', BaseException) *)
  Theorem refines_reference : forall ps rs,
    ref_run W (true, ps) rs =
      (fst (run_calls W (init W ps) rs),
       (running (snd (run_calls W (init W ps) rs)), proj (snd (run_calls W (init W ps) rs)))).
  Proof. intros ps rs. exact (proj1 (run_calls_refines rs (init W ps) (quiet_init ps))). Qed.

  (* ------------------------------------------------------------------ prefixes, pairing *)
  Lemma run_calls_app : forall a b s,
    run_calls W s (a ++ b) =
      (fst (run_calls W s a) ++ fst (run_calls W (snd (run_calls W s a)) b),
       snd (run_calls W (snd (run_calls W s a)) b)).
  Proof.
    induction a as [|r a IH]; intros b s; simpl.
    - destruct (run_calls W s b); reflexivity.
    - destruct (call W s r) as [o s1]. rewrite (IH b s1).
      destruct (run_calls W s1 a) as [os s2]; simpl.
      destruct (run_calls W s2 b) as [os' s3]; reflexivity.
  Qed.

  Lemma benign_app : forall a b ps,
    benign W ps (a ++ b) <-> benign W ps a /\ benign W (inproc_state W ps a) b.
  Proof.
    induction a as [|r a IH]; intros b ps; simpl.
    - tauto.
    - rewrite IH. tauto.
  Qed.

  Lemma inproc_trace_app : forall a b ps,
    inproc_trace W ps (a ++ b) = inproc_trace W ps a ++ inproc_trace W (inproc_state W ps a) b.
  Proof.
    induction a as [|r a IH]; intros b ps; simpl; [reflexivity|].
    destruct (api W ps r) as [o ps'] eqn:Ha; simpl. rewrite IH. reflexivity.
  Qed.

  Lemma inproc_state_app : forall a b ps,
    inproc_state W ps (a ++ b) = inproc_state W (inproc_state W ps a) b.
  Proof. induction a as [|r a IH]; intros b ps; simpl; [reflexivity|apply IH]. Qed.

  Lemma inproc_trace_length : forall rs ps, length (inproc_trace W ps rs) = length rs.
  Proof.
    induction rs as [|r rs IH]; intros ps; simpl; [reflexivity|].
    destruct (api W ps r) as [o ps']; simpl. rewrite IH. reflexivity.
  Qed.

  (* the reply to the request at position |pre| is computed from that request and the in-process
     state after the requests before it; the server is alive and in the in-process state after it *)
  Theorem kth_reply : forall ps pre r post, benign W ps (pre ++ r :: post) ->
    let ps_k := inproc_state W ps pre in
    nth_error (fst (run_calls W (init W ps) (pre ++ r :: post))) (length pre) =
      Some (expected W (fst (api W ps_k r))) /\
    let s_k := snd (run_calls W (init W ps) (pre ++ [r])) in
    running s_k = true /\ proj s_k = snd (api W ps_k r).
  Proof.
    intros ps pre r post Hb ps_k.
    destruct (transparent ps _ Hb) as (Ho & _).
    rewrite Ho, inproc_trace_app, map_app.
    rewrite nth_error_app2 by (rewrite map_length, inproc_trace_length; lia).
    rewrite map_length, inproc_trace_length, Nat.sub_diag. simpl.
    fold ps_k. destruct (api W ps_k r) as [o ps'] eqn:Ha; simpl. split; [reflexivity|].
    assert (Hb' : benign W ps (pre ++ [r])).
    { apply benign_app in Hb. destruct Hb as [Hb1 Hb2]. apply benign_app. split; [exact Hb1|].
      simpl in *. tauto. }
    destruct (transparent ps _ Hb') as (_ & Hp & Hr & _).
    split; [exact Hr|]. rewrite Hp, inproc_state_app. simpl. fold ps_k. rewrite Ha. reflexivity.
  Qed.

  (* failures are isolated: a request that leaves the in-process state unchanged (an unknown
     method, wrong arguments, a source that does not parse, an unserialisable eval result ...)
     can be inserted anywhere without changing any other reply *)
  Theorem failure_isolated : forall ps pre r post,
    benign W ps (pre ++ r :: post) ->
    snd (api W (inproc_state W ps pre) r) = inproc_state W ps pre ->
    let without := fst (run_calls W (init W ps) (pre ++ post)) in
    fst (run_calls W (init W ps) (pre ++ r :: post)) =
      firstn (length pre) without ++
      expected W (fst (api W (inproc_state W ps pre) r)) :: skipn (length pre) without.
  Proof.
    intros ps pre r post Hb Hsame without.
    assert (Hb2 : benign W ps (pre ++ post)).
    { apply benign_app in Hb. destruct Hb as [Hb1 Hb2]. apply benign_app. split; [exact Hb1|].
      simpl in Hb2. destruct Hb2 as (_ & _ & Hb2). rewrite Hsame in Hb2. exact Hb2. }
    destruct (transparent ps _ Hb) as (Ho & _).
    destruct (transparent ps _ Hb2) as (Ho2 & _).
    unfold without. rewrite Ho, Ho2, !inproc_trace_app, !map_app.
    assert (L : length (map (expected W) (inproc_trace W ps pre)) = length pre)
      by (rewrite map_length; apply inproc_trace_length).
    rewrite <- L, firstn_app, skipn_app, Nat.sub_diag, firstn_all, skipn_all. simpl.
    rewrite app_nil_r. simpl.
    destruct (api W (inproc_state W ps pre) r) as [o ps'] eqn:Ha; simpl in *. subst ps'.
    reflexivity.
  Qed.

  (* with in-process functions that do not change the state when they raise, EVERY request that
     raises is isolated *)
  Corollary raising_request_isolated : raise_pure W -> forall ps pre r post c m,
    benign W ps (pre ++ r :: post) ->
    fst (api W (inproc_state W ps pre) r) = Raise c m ->
    let without := fst (run_calls W (init W ps) (pre ++ post)) in
    fst (run_calls W (init W ps) (pre ++ r :: post)) =
      firstn (length pre) without ++ expected W (Raise c m) :: skipn (length pre) without.
  Proof.
    intros Hpure ps pre r post c m Hb Hr without.
    assert (Hs : snd (api W (inproc_state W ps pre) r) = inproc_state W ps pre).
    { destruct (api W (inproc_state W ps pre) r) as [o ps'] eqn:Ha. simpl in *. subst o.
      exact (Hpure _ _ _ _ _ Ha). }
    unfold without. rewrite (failure_isolated ps pre r post Hb Hs), Hr. reflexivity.
  Qed.

  (* ------------------------------------------------------------------ pipelined sends *)
  Lemma send_all_benign : forall rs ps0 (s : sysW), benign W ps0 rs ->
    exists bs, Forall2 (fun r b => dumps W (req_val W r) = Some b) rs bs /\
      send_all W s rs = {| c2s := c2s s ++ bs; s2c := s2c s; running := running s; proj := proj s |}.
  Proof.
    induction rs as [|r rs IH]; intros ps0 s Hb; simpl.
    - exists []. split; [constructor|]. rewrite app_nil_r. destruct s; reflexivity.
    - destruct Hb as ([Hser _] & _ & Hb). destruct (serialisable_dumps _ Hser) as [b Hd].
      unfold client_send. rewrite Hd.
      destruct (IH _ {| c2s := c2s s ++ [b]; s2c := s2c s; running := running s; proj := proj s |} Hb)
        as (bs & HF & Hs).
      exists (b :: bs). split; [constructor; assumption|]. rewrite Hs; simpl.
      rewrite <- app_assoc. reflexivity.
  Qed.

  Lemma iter_serves_all : forall rs bs ps q, benign W ps rs ->
    Forall2 (fun r b => dumps W (req_val W r) = Some b) rs bs ->
    exists replies,
      iter W (length bs) {| c2s := bs; s2c := q; running := true; proj := ps |} =
        {| c2s := []; s2c := q ++ replies; running := true; proj := inproc_state W ps rs |} /\
      map (decode_reply W) replies = map (expected W) (inproc_trace W ps rs).
  Proof.
    induction rs as [|r rs IH]; intros bs ps q Hb HF; inversion HF; subst; simpl.
    - exists []. rewrite app_nil_r. split; reflexivity.
    - destruct Hb as ([Hser Hcl] & Hne & Hb).
      destruct (server_iter_request r y l' q ps H1 Hcl Hne) as (content & Hit & Hdec).
      rewrite Hit. destruct (IH l' _ (q ++ [content]) Hb H3) as (replies & Hrest & Hmap).
      exists (content :: replies). rewrite Hrest, <- app_assoc. split; [reflexivity|].
      simpl. rewrite Hdec, Hmap. destruct (api W ps r) as [o ps']; reflexivity.
  Qed.

  Lemma recv_n_all : forall replies cq run ps,
    recv_n W (length replies) {| c2s := cq; s2c := replies; running := run; proj := ps |} =
      (map (decode_reply W) replies, {| c2s := cq; s2c := []; running := run; proj := ps |}).
  Proof.
    induction replies as [|b replies IH]; intros cq run ps; simpl; [reflexivity|].
    rewrite IH. reflexivity.
  Qed.

  (* replies to pipelined requests come back in request order and are the same as with one
     call at a time *)
  Theorem pipeline_in_order : forall ps rs, benign W ps rs ->
    pipeline W (init W ps) rs = run_calls W (init W ps) rs.
  Proof.
    intros ps rs Hb.
    destruct (transparent ps rs Hb) as (Ho & Hp & Hr & Hc & Hs).
    destruct (send_all_benign rs ps (init W ps) Hb) as (bs & HF & Hsend).
    unfold pipeline, drain. rewrite Hsend; simpl.
    destruct (iter_serves_all rs bs ps [] Hb HF) as (replies & Hit & Hmap).
    rewrite Hit; simpl.
    assert (L : length rs = length replies).
    { rewrite <- (map_length (decode_reply W) replies), Hmap, map_length, inproc_trace_length.
      reflexivity. }
    rewrite L, recv_n_all, Hmap.
    destruct (run_calls W (init W ps) rs) as [os [cq sq run pj]]; simpl in *. subst. reflexivity.
  Qed.

  (* ------------------------------------------------------------------ any interleaving *)
  Definition encoded (r : request W) (b : bytes W) : Prop := dumps W (req_val W r) = Some b.

  Lemma benign_at : forall ps pre r post, benign W ps (pre ++ r :: post) ->
    sendable W r /\ fst (api W (inproc_state W ps pre) r) <> Escape.
  Proof.
    intros ps pre r post Hb. apply benign_app in Hb. destruct Hb as [_ Hb]. simpl in Hb. tauto.
  Qed.

  Lemma sched_invariant : forall ps sch s served pending recvd,
    Forall2 encoded pending (c2s s) ->
    running s = true ->
    proj s = inproc_state W ps served ->
    recvd ++ map (decode_reply W) (s2c s) = map (expected W) (inproc_trace W ps served) ->
    benign W ps (served ++ pending ++ sends_of W sch) ->
    exists served' pending',
      served ++ pending ++ sends_of W sch = served' ++ pending' /\
      Forall2 encoded pending' (c2s (snd (run_sched W s sch))) /\
      running (snd (run_sched W s sch)) = true /\
      proj (snd (run_sched W s sch)) = inproc_state W ps served' /\
      (recvd ++ fst (run_sched W s sch)) ++ map (decode_reply W) (s2c (snd (run_sched W s sch))) =
        map (expected W) (inproc_trace W ps served').
  Proof.
    intros ps sch. induction sch as [|a sch IH]; intros s served pending recvd HF Hrun Hproj Hrep Hb.
    - simpl in *. exists served, pending. rewrite !app_nil_r in *. repeat split; assumption.
    - destruct s as [cq sq run pj]; simpl in HF, Hrun, Hproj, Hrep. subst run pj.
      destruct a as [r| |]; cbn [run_sched sched_step sends_of] in *.
      + (* the client sends r *)
        assert (Hb' : benign W ps ((served ++ pending) ++ r :: sends_of W sch))
          by (rewrite <- app_assoc; exact Hb).
        destruct (benign_at _ _ _ _ Hb') as [[Hser _] _].
        destruct (serialisable_dumps _ Hser) as [b Hd]. unfold client_send. rewrite Hd. simpl.
        assert (HF1 : Forall2 encoded (pending ++ [r]) (cq ++ [b])).
        { apply Forall2_app; [exact HF|]. constructor; [exact Hd|constructor]. }
        assert (Hb1 : benign W ps (served ++ (pending ++ [r]) ++ sends_of W sch)).
        { rewrite <- app_assoc. simpl. exact Hb. }
        destruct (IH {| c2s := cq ++ [b]; s2c := sq; running := true; proj := inproc_state W ps served |}
                     served (pending ++ [r]) recvd HF1 eq_refl eq_refl Hrep Hb1)
          as (served' & pending' & Heq & H1 & H2 & H3 & H4).
        exists served', pending'. rewrite <- Heq, <- app_assoc. simpl.
        destruct (run_sched W _ sch) as [os s2]; simpl in *. repeat split; assumption.
      + (* one iteration of the server loop *)
        destruct cq as [|b cq].
        * (* nothing to read: poll timed out *)
          inversion HF; subst.
          change (server_iter W {| c2s := []; s2c := sq; running := true;
                                   proj := inproc_state W ps served |})
            with {| c2s := []; s2c := sq; running := true; proj := inproc_state W ps served |}.
          destruct (IH {| c2s := []; s2c := sq; running := true; proj := inproc_state W ps served |}
                       served [] recvd HF eq_refl eq_refl Hrep Hb)
            as (served' & pending' & Heq & H1 & H2 & H3 & H4).
          exists served', pending'.
          destruct (run_sched W _ sch) as [os s2]; simpl in *. repeat split; assumption.
        * inversion HF as [|r b' pending0 cq' Hd HF']; subst.
          assert (Hb' : benign W ps (served ++ r :: pending0 ++ sends_of W sch)) by exact Hb.
          destruct (benign_at _ _ _ _ Hb') as [[Hser Hcl] Hne].
          destruct (server_iter_request r b cq sq (inproc_state W ps served) Hd Hcl Hne)
            as (content & Hit & Hdec).
          rewrite Hit.
          assert (Hp1 : snd (api W (inproc_state W ps served) r) = inproc_state W ps (served ++ [r])).
          { rewrite inproc_state_app. reflexivity. }
          assert (Hrep1 : recvd ++ map (decode_reply W) (sq ++ [content]) =
                          map (expected W) (inproc_trace W ps (served ++ [r]))).
          { rewrite map_app, app_assoc, Hrep, inproc_trace_app, map_app. simpl. rewrite Hdec.
            destruct (api W (inproc_state W ps served) r) as [o ps']; reflexivity. }
          assert (Hb1 : benign W ps ((served ++ [r]) ++ pending0 ++ sends_of W sch)).
          { rewrite <- app_assoc. exact Hb. }
          destruct (IH {| c2s := cq; s2c := sq ++ [content]; running := true;
                          proj := snd (api W (inproc_state W ps served) r) |}
                       (served ++ [r]) pending0 recvd HF' eq_refl Hp1 Hrep1 Hb1)
            as (served' & pending' & Heq & H1 & H2 & H3 & H4).
          exists served', pending'. rewrite <- Heq, <- app_assoc. simpl.
          destruct (run_sched W _ sch) as [os s2]; simpl in *. repeat split; assumption.
      + (* the client reads *)
        destruct sq as [|b sq]; simpl.
        * (* nothing to read yet: still blocked *)
          destruct (IH {| c2s := cq; s2c := []; running := true; proj := inproc_state W ps served |}
                       served pending recvd HF eq_refl eq_refl Hrep Hb)
            as (served' & pending' & Heq & H1 & H2 & H3 & H4).
          exists served', pending'.
          destruct (run_sched W _ sch) as [os s2]; simpl in *. repeat split; assumption.
        * assert (Hrep1 : (recvd ++ [decode_reply W b]) ++ map (decode_reply W) sq =
                          map (expected W) (inproc_trace W ps served)).
          { rewrite <- app_assoc. exact Hrep. }
          destruct (IH {| c2s := cq; s2c := sq; running := true; proj := inproc_state W ps served |}
                       served pending (recvd ++ [decode_reply W b]) HF eq_refl eq_refl Hrep1 Hb)
            as (served' & pending' & Heq & H1 & H2 & H3 & H4).
          exists served', pending'.
          destruct (run_sched W _ sch) as [os s2]; simpl in *.
          replace (recvd ++ decode_reply W b :: os) with ((recvd ++ [decode_reply W b]) ++ os)
            by (rewrite <- app_assoc; reflexivity).
          repeat split; assumption.
  Qed.

  (* Under ANY interleaving of sends, server iterations and reads: the requests sent so far split
     into those served and those still queued (in order); the replies read so far followed by the
     replies in flight are exactly the expected observations of the served requests, in request
     order; the server runs and holds the in-process state after the served requests. *)
  Theorem any_interleaving : forall ps sch, benign W ps (sends_of W sch) ->
    exists served pending,
      sends_of W sch = served ++ pending /\
      Forall2 encoded pending (c2s (snd (run_sched W (init W ps) sch))) /\
      running (snd (run_sched W (init W ps) sch)) = true /\
      proj (snd (run_sched W (init W ps) sch)) = inproc_state W ps served /\
      fst (run_sched W (init W ps) sch) ++
        map (decode_reply W) (s2c (snd (run_sched W (init W ps) sch))) =
        map (expected W) (inproc_trace W ps served).
  Proof.
    intros ps sch Hb.
    destruct (sched_invariant ps sch (init W ps) [] [] []) as (sv & pd & Heq & H1 & H2 & H3 & H4);
      simpl; try reflexivity; try assumption; [constructor|].
    exists sv, pd. simpl in *. repeat split; assumption.
  Qed.

  (* hence what the caller has read is always a prefix of the expected observations of the
     requests sent: the k-th reply read answers the k-th request sent *)
  Corollary replies_are_a_prefix : forall ps sch, benign W ps (sends_of W sch) ->
    exists rest, map (expected W) (inproc_trace W ps (sends_of W sch)) =
                 fst (run_sched W (init W ps) sch) ++ rest.
  Proof.
    intros ps sch Hb. destruct (any_interleaving ps sch Hb) as (sv & pd & Heq & _ & _ & _ & H).
    rewrite Heq, inproc_trace_app, map_app, <- H, <- app_assoc. eexists. reflexivity.
  Qed.
End RpcProofs.

(* ==================================================================== the concrete world *)
Section PyvInd.
  Variable P : pyv -> Prop.
  Hypothesis HNone : P PNone.
  Hypothesis HBool : forall b, P (PBool b).
  Hypothesis HInt : forall z, P (PInt z).
  Hypothesis HFloat : forall x, P (PFloat x).
  Hypothesis HStr : forall u i, P (PStr u i).
  Hypothesis HBytes : forall i, P (PBytes i).
  Hypothesis HList : forall l, Forall P l -> P (PList l).
  Hypothesis HTuple : forall l, Forall P l -> P (PTuple l).
  Hypothesis HDict : forall kv, Forall (fun p => P (fst p) /\ P (snd p)) kv -> P (PDict kv).
  Hypothesis HObj : forall i, P (PObj i).

  Fixpoint pyv_ind' (v : pyv) : P v :=
    match v with
    | PNone => HNone
    | PBool b => HBool b
    | PInt z => HInt z
    | PFloat x => HFloat x
    | PStr u i => HStr u i
    | PBytes i => HBytes i
    | PList l => HList l ((fix go (l : list pyv) : Forall P l :=
                             match l with
                             | [] => Forall_nil P
                             | x :: r => Forall_cons x (pyv_ind' x) (go r)
                             end) l)
    | PTuple l => HTuple l ((fix go (l : list pyv) : Forall P l :=
                               match l with
                               | [] => Forall_nil P
                               | x :: r => Forall_cons x (pyv_ind' x) (go r)
                               end) l)
    | PDict kv => HDict kv ((fix go (l : list (pyv * pyv)) :
                                 Forall (fun p => P (fst p) /\ P (snd p)) l :=
                               match l with
                               | [] => Forall_nil _
                               | (k, v) :: r =>
                                   Forall_cons (k, v) (conj (pyv_ind' k) (pyv_ind' v)) (go r)
                               end) kv)
    | PObj i => HObj i
    end.
End PyvInd.

Lemma sequence_map_some : forall {A B} (f : A -> option B) (g : B -> A -> Prop) l l',
  (forall a b, In a l -> f a = Some b -> g b a) ->
  sequence (map f l) = Some l' -> Forall2 g l' l.
Proof.
  intros A B f g. induction l as [|a l IH]; intros l' Hf H; simpl in H.
  - injection H as <-. constructor.
  - destruct (f a) as [b|] eqn:Ha; [|discriminate].
    destruct (sequence (map f l)) as [r|] eqn:Hr; [|discriminate]. injection H as <-.
    constructor.
    + apply Hf; [left; reflexivity|exact Ha].
    + apply IH; [|reflexivity]. intros a' b' Hin. apply Hf. right; exact Hin.
Qed.

(* unpacking what packing produced gives the value with tuples as lists *)
Lemma c_norm_ok : forall v w, c_to_msg v = Some w -> c_of_msg w = c_normalise v.
Proof.
  induction v as [| b | z | x | u i | i | l IH | l IH | kv IH | i] using pyv_ind';
    intros w H; simpl in H; try (injection H as <-; reflexivity); try discriminate.
  - destruct (sequence (map c_to_msg l)) as [ws|] eqn:Hs; [|discriminate]. injection H as <-.
    simpl. f_equal. revert ws Hs. induction IH as [|v l Hv _ IHl]; intros ws Hs; simpl in *.
    + injection Hs as <-. reflexivity.
    + destruct (c_to_msg v) as [w|] eqn:Hw; [|discriminate].
      destruct (sequence (map c_to_msg l)) as [r|] eqn:Hr; [|discriminate]. injection Hs as <-.
      simpl. rewrite (Hv _ eq_refl), (IHl _ eq_refl). reflexivity.
  - destruct (sequence (map c_to_msg l)) as [ws|] eqn:Hs; [|discriminate]. injection H as <-.
    simpl. f_equal. revert ws Hs. induction IH as [|v l Hv _ IHl]; intros ws Hs; simpl in *.
    + injection Hs as <-. reflexivity.
    + destruct (c_to_msg v) as [w|] eqn:Hw; [|discriminate].
      destruct (sequence (map c_to_msg l)) as [r|] eqn:Hr; [|discriminate]. injection Hs as <-.
      simpl. rewrite (Hv _ eq_refl), (IHl _ eq_refl). reflexivity.
  - destruct (sequence (map (fun p => opair (c_to_msg (fst p)) (c_to_msg (snd p))) kv))
      as [ws|] eqn:Hs; [|discriminate]. injection H as <-.
    simpl. f_equal. revert ws Hs. induction IH as [|[k v] l [Hk Hv] _ IHl]; intros ws Hs; simpl in *.
    + injection Hs as <-. reflexivity.
    + destruct (c_to_msg k) as [wk|] eqn:Hwk; [|discriminate].
      destruct (c_to_msg v) as [wv|] eqn:Hwv; [|discriminate]. simpl in Hs.
      destruct (sequence (map (fun p => opair (c_to_msg (fst p)) (c_to_msg (snd p))) l))
        as [r|] eqn:Hr; [|discriminate]. injection Hs as <-.
      simpl. rewrite (Hk _ eq_refl), (Hv _ eq_refl), (IHl _ eq_refl). reflexivity.
Qed.

Lemma concrete_world_ok : forall table, world_ok (concrete_world table).
Proof.
  intros table. constructor; simpl.
  - intros v w b _ H. unfold c_enc in H. destruct (encodable w); [|discriminate].
    injection H as <-. reflexivity.
  - exact c_norm_ok.
  - intros v ok. reflexivity.
  - intros c [u i]. reflexivity.
  - reflexivity.
  - intros ps r. reflexivity.
Qed.
